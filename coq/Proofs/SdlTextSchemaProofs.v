(* C12 at text level, for schemas without descriptions (default values and
   applied custom directives included): the text of the schema printer model
   is the text the ASTPrinter model of C03 prints for [ast_of_schema], so the
   parser model of C01 reads it back
   (Proofs/PrinterSdlRoundtrip.v::sdl_roundtrip). *)
From PyGql Require Import Lang.PrinterModel Spec.PrinterSpec Lang.Parser Spec.GrammarSpec Spec.SdlGrammarSpec
                          Proofs.PrinterRoundtrip Proofs.PrinterExecRoundtrip Proofs.PrinterSdlRoundtrip.
From PyGql Require Import Schema.SdlSchema Schema.SdlBuild Schema.SdlPrint Spec.SdlRoundtripSpec
                          Proofs.SdlTextProofs.
From Coq Require Import Lia.

From PyGql Require Export Proofs.SdlTextBaseProofs Proofs.SdlValueTextProofs Proofs.SdlValueShapeProofs.
From PyGql Require Import Proofs.PrinterValueRoundtrip.

(* ------------------------------------------------------------------ *)
(* generic pieces                                                       *)

Lemma imap_ok {A B} (f : nat -> A -> outcome B) (g : A -> B) l :
  (forall i x, In x l -> f i x = Ok (g x)) -> imap f l = Ok (map g l).
Proof.
  unfold imap. generalize 0. induction l as [|x l IH]; intros n H; [reflexivity|].
  rewrite (H n x (or_introl eq_refl)). cbn [obind].
  rewrite IH by (intros; apply H; right; assumption). reflexivity.
Qed.

Lemma join_ne_ne (l : list str) sep : l <> [] -> Forall (fun x => x <> []) l -> join sep l <> [].
Proof.
  intros Hne H. destruct l as [|x l]; [congruence|]. inversion H; subst.
  destruct l; cbn [join]; [assumption|]. intros He. apply app_eq_nil in He. tauto.
Qed.

Lemma p_join_skip l sep : p_join ([] :: l) sep = p_join l sep.
Proof. reflexivity. Qed.

Lemma p_join_keep x l sep : x <> [] -> p_join (x :: l) sep = x ++ p_wrap sep (p_join l sep) [].
Proof.
  intros Hx. rewrite p_join_cons. destruct x as [|c r]; [congruence|]. cbn [is_empty].
  unfold p_wrap. destruct (p_join l sep); cbn [is_empty]; rewrite ?app_nil_r; reflexivity.
Qed.

Lemma p_join_single (x sep : str) : p_join [x] sep = x.
Proof. unfold p_join. destruct x; reflexivity. Qed.

Lemma p_join_filter l sep : p_join l sep = join sep (filter (fun x => negb (is_empty x)) l).
Proof. unfold p_join; apply join_ne_join. Qed.

Lemma join_cons_sep (sep h : str) l : join sep (h :: l) = h ++ concat (map (fun x => sep ++ x) l).
Proof.
  revert h. induction l as [|y l IH]; intros h; [cbn; rewrite app_nil_r; reflexivity|].
  change (join sep (h :: y :: l)) with (h ++ sep ++ join sep (y :: l)). rewrite IH. cbn [map concat].
  rewrite <- !app_assoc. reflexivity.
Qed.

Lemma join_app (sep : str) (l1 l2 : list str) :
  l1 <> [] -> l2 <> [] -> join sep (l1 ++ l2) = join sep l1 ++ sep ++ join sep l2.
Proof.
  destruct l1 as [|h t]; [congruence|]. destruct l2 as [|h2 t2]; [congruence|]. intros _ _.
  change ((h :: t) ++ h2 :: t2) with (h :: (t ++ h2 :: t2)). rewrite !join_cons_sep, map_app, concat_app.
  cbn [map concat]. rewrite <- !app_assoc. reflexivity.
Qed.

(* " ".join of the non-empty pieces after a non-empty head *)
Definition sp (x : str) : str := if is_empty x then [] else lit " " ++ x.

Lemma p_join_sp h rest : h <> [] -> p_join (h :: rest) (lit " ") = h ++ concat (map sp rest).
Proof.
  intros Hh. rewrite p_join_filter. cbn [filter]. destruct h as [|c r]; [congruence|]. cbn [is_empty negb].
  rewrite join_cons_sep. f_equal. induction rest as [|x rest IH]; [reflexivity|]. cbn [filter map concat].
  unfold sp at 1. destruct x; cbn [is_empty negb]; [exact IH|]. cbn [map concat]. rewrite IH. reflexivity.
Qed.

(* a text that does not end with white space (or is empty) *)
Definition lastok (s : str) : Prop := s <> [] -> py_space (last s 0%N) = false.

Lemma lastok_app a b : lastok a -> lastok b -> lastok (a ++ b).
Proof.
  intros Ha Hb Hne. destruct b as [|c r].
  - rewrite app_nil_r in *. apply Ha; exact Hne.
  - rewrite last_app_ne by discriminate. apply Hb; discriminate.
Qed.

Lemma tight_lastok s : tight s -> lastok s.
Proof. intros (_ & _ & H) _. exact H. Qed.

Lemma lastok_nil : lastok [].
Proof. intros H; congruence. Qed.

Lemma tight_head_lastok a b : tight a -> lastok b -> tight (a ++ b).
Proof.
  intros (Ha & Hh & Hl) Hb. repeat split.
  - destruct a; [congruence|discriminate].
  - destruct a; [congruence|exact Hh].
  - apply (lastok_app a b); [intros _; exact Hl|exact Hb|]. destruct a; [congruence|discriminate].
Qed.

Section Texts.
  Variable o : popts.
  Variable E : env.      (* the printer's environment *)
  Variable E0 : env.     (* the environment of ast_of_schema *)
  Hypothesis Hext : env_le E0 E.
  Let cf := Cfg (po_indent o) true.

  (* ---- applied directives ------------------------------------------- *)
  Definition dtext (l : list directive) : str :=
    match l with [] => [] | _ => lit " " ++ join (lit " ") (map (pr_directive cf) l) end.

  Lemma pr_directive_ne d : pr_directive cf d <> [].
  Proof. unfold pr_directive. discriminate. Qed.

  Lemma pr_directives_join l : pr_directives cf l = join (lit " ") (map (pr_directive cf) l).
  Proof.
    unfold pr_directives. apply p_join_all. apply Forall_forall. intros x Hx. apply in_map_iff in Hx.
    destruct Hx as (d & <- & _). apply pr_directive_ne.
  Qed.

  Lemma sp_dirs l : sp (pr_directives cf l) = dtext l.
  Proof.
    rewrite pr_directives_join. unfold sp, dtext. destruct l as [|d r]; [reflexivity|].
    assert (Hne : join (lit " ") (map (pr_directive cf) (d :: r)) <> []).
    { apply join_ne_ne; [discriminate|]. apply Forall_forall. intros x Hx. apply in_map_iff in Hx.
      destruct Hx as (y & <- & _). apply pr_directive_ne. }
    destruct (join (lit " ") (map (pr_directive cf) (d :: r))); [congruence|reflexivity].
  Qed.

  Lemma wrap_dirs l : p_wrap (lit " ") (pr_directives cf l) [] = dtext l.
  Proof. rewrite <- sp_dirs. unfold p_wrap, sp. destruct (is_empty (pr_directives cf l)); rewrite ?app_nil_r; reflexivity. Qed.

  Lemma dtext_app a b : dtext (a ++ b) = dtext a ++ dtext b.
  Proof.
    unfold dtext. destruct a as [|x a]; [reflexivity|]. destruct b as [|y b]; [rewrite !app_nil_r; reflexivity|].
    change ((x :: a) ++ y :: b) with (x :: (a ++ y :: b)). cbv iota.
    change (x :: (a ++ y :: b)) with ((x :: a) ++ (y :: b)).
    rewrite map_app, join_app by discriminate. rewrite <- !app_assoc. reflexivity.
  Qed.

  Lemma dtext_facts l : Forall good_dir l -> has_lf (dtext l) = false /\ lastok (dtext l).
  Proof.
    intros H. unfold dtext. destruct l as [|d r]; [split; [reflexivity|apply lastok_nil]|].
    assert (Hall : Forall (fun x => has_lf x = false /\ tight x) (map (pr_directive cf) (d :: r))).
    { apply Forall_forall. intros x Hx. apply in_map_iff in Hx. destruct Hx as (y & <- & Hy).
      rewrite Forall_forall in H. apply good_dir_text. apply H; exact Hy. }
    split.
    - rewrite has_lf_app, has_lf_join; [reflexivity|reflexivity|]. eapply Forall_impl; [|exact Hall]. intros x [Hx _]; exact Hx.
    - intros _. set (l := map (pr_directive cf) (d :: r)) in *.
      assert (Hl : forall l0 : list str, l0 <> [] -> Forall (fun x => has_lf x = false /\ tight x) l0 ->
                   join (lit " ") l0 <> [] /\ py_space (last (join (lit " ") l0) 0%N) = false).
      { induction l0 as [|x l0 IH]; intros Hne F; [congruence|]. inversion F as [|? ? [_ Hx] Fr]; subst.
        destruct l0 as [|y l0]; [cbn [join]; destruct Hx as (H1 & _ & H3); split; assumption|].
        destruct (IH ltac:(discriminate) Fr) as [I1 I2].
        change (join (lit " ") (x :: y :: l0)) with (x ++ lit " " ++ join (lit " ") (y :: l0)). split.
        - destruct Hx as (H1 & _). intros He. apply app_eq_nil in He. tauto.
        - rewrite app_assoc, last_app_ne by exact I1. exact I2. }
      destruct (Hl l ltac:(discriminate) Hall) as [L1 L2]. rewrite last_app_ne by exact L1. exact L2.
  Qed.

  Lemma good_deprecated dep : Forall good_dir (deprecated_dir dep).
  Proof.
    destruct dep as [r|]; [|constructor]. unfold deprecated_dir. constructor; [|constructor].
    assert (Hd : vname (S_ "deprecated")).
    { unfold S_. cbn. eexists _, _. split; [reflexivity|]. split; [reflexivity|]. repeat constructor. }
    assert (Hr : vname (S_ "reason")).
    { unfold S_. cbn. eexists _, _. split; [reflexivity|]. split; [reflexivity|]. repeat constructor. }
    repeat split; try exact Hd. cbn [d_args].
    destruct (str_eqb r default_deprecation); [constructor|]. constructor; [|constructor].
    repeat split. exact Hr.
  Qed.

  Lemma dtext_deprecated dep : dtext (deprecated_dir dep) = print_deprecated dep.
  Proof.
    destruct dep as [r|]; [|reflexivity]. unfold deprecated_dir, print_deprecated, dtext.
    destruct (str_eqb r default_deprecation); [reflexivity|].
    cbn [map join]. unfold pr_directive, pr_arguments, pr_argument. cbn [d_name d_args a_name a_val mk_name n_val map].
    rewrite p_join_single. unfold p_wrap. cbn [pr_value pr_string is_empty app]. unfold json_string.
    cbn [app lit str_of_string]. rewrite <- ?app_assoc. reflexivity.
  Qed.

  (* directives the options print in full *)
  Definition dirs_ok (ds : list directive) : Prop :=
    Forall good_dir (custom_dirs ds) /\ (po_custom o = CustomAll \/ custom_dirs ds = []).

  Lemma print_directives_ok ds : dirs_ok ds -> print_directives o ds = dtext (custom_dirs ds).
  Proof.
    intros [Hg Hc].
    assert (Hnil : custom_dirs ds = [] -> print_directives o ds = []).
    { clear Hg Hc. unfold custom_dirs, print_directives. intros H. destruct (custom_enabled o); [|reflexivity].
      assert (Hf : filter (fun d => include_custom o (n_val (d_name d))) ds = []).
      { induction ds as [|d ds IH]; [reflexivity|]. cbn [filter] in *.
        destruct (mem_str (n_val (d_name d)) specified_directive_names) eqn:Hm; cbn [negb] in H; [|discriminate].
        unfold include_custom at 1. rewrite Hm. apply IH; exact H. }
      rewrite Hf. reflexivity. }
    destruct (custom_dirs ds) as [|d0 r0] eqn:Hcd; [apply Hnil; reflexivity|].
    destruct Hc as [Hall|Hc]; [|discriminate]. clear Hnil.
    unfold print_directives, custom_enabled. rewrite Hall. cbn [negb].
    assert (Hf : filter (fun d => include_custom o (n_val (d_name d))) ds = custom_dirs ds).
    { unfold custom_dirs. apply filter_ext. intros d. unfold include_custom. rewrite Hall.
      destruct (mem_str (n_val (d_name d)) specified_directive_names); reflexivity. }
    rewrite Hf, Hcd. unfold dtext. f_equal. f_equal. apply map_ext_in. intros d Hd.
    unfold print_directive. apply good_dir_print. rewrite Forall_forall in Hg. apply Hg; exact Hd.
  Qed.

  (* ---- default values -------------------------------------------------- *)
  Definition dflt_of (a : sivalue) : option value :=
    match siv_default a with
    | None => None
    | Some v => match node_of_value print_fuel E0 v (siv_type a) with Ok n => Some (relex n) | _ => None end
    end.

  Definition dflt_ok (a : sivalue) : Prop :=
    match siv_default a with
    | None => True
    | Some v => exists n, node_of_value print_fuel E0 v (siv_type a) = Ok n /\ good_value n
    end.

  Definition dflt_text (a : sivalue) : str :=
    match dflt_of a with Some x => lit " = " ++ pr_value cf x | None => [] end.

  Lemma dflt_text_facts a : dflt_ok a -> has_lf (dflt_text a) = false /\ lastok (dflt_text a).
  Proof.
    unfold dflt_ok, dflt_text, dflt_of. destruct (siv_default a) as [v|]; [|intros _; split; [reflexivity|apply lastok_nil]].
    intros (n & Hn & Hg). rewrite Hn. rewrite (good_print cf cf n Hg).
    destruct (good_value_text cf n Hg) as [H1 H2]. split; [rewrite has_lf_app, H1; reflexivity|].
    destruct H2 as (T1 & _ & T3). intros _. rewrite last_app_ne by exact T1. exact T3.
  Qed.

  (* ---- input values ---------------------------------------------------- *)
  Definition plain_siv (a : sivalue) : Prop :=
    dflt_ok a /\ siv_desc a = None /\ dirs_ok (siv_dirs a)
    /\ vname (siv_name a) /\ wf_tref (siv_type a).

  Definition iv_of (a : sivalue) : input_value_def :=
    IVDef None (mk_name (siv_name a)) (ty_of_tref (siv_type a)) (dflt_of a) (custom_dirs (siv_dirs a)) None.

  Lemma ivdef_of_plain a : plain_siv a -> ivdef_of E0 a = Ok (iv_of a).
  Proof.
    intros (Hd & Hde & _). unfold ivdef_of, iv_of, dflt_of, dflt_ok in *. rewrite Hde.
    destruct (siv_default a) as [v|]; [|reflexivity]. destruct Hd as (n & Hn & _). rewrite Hn. reflexivity.
  Qed.

  Definition iv_text (a : sivalue) : str :=
    siv_name a ++ lit ": " ++ print_tref (siv_type a) ++ dflt_text a ++ dtext (custom_dirs (siv_dirs a)).

  Lemma iv_text_facts a : plain_siv a -> has_lf (iv_text a) = false /\ tight (iv_text a).
  Proof.
    intros (Hd & _ & [Hg _] & Hn & Ht). destruct (vname_nolf _ Hn) as (N1 & N2 & N3).
    destruct (print_tref_facts _ Ht) as [T1 T2]. destruct (dflt_text_facts a Hd) as [D1 D2].
    destruct (dtext_facts _ Hg) as [C1 C2]. unfold iv_text. split.
    - rewrite !has_lf_app, N1, T1, D1, C1. reflexivity.
    - rewrite (app_assoc (siv_name a)), (app_assoc (siv_name a ++ lit ": ")).
      apply tight_head_lastok; [|apply lastok_app; assumption].
      rewrite <- app_assoc. apply tight_mid; [apply nospace_tight; assumption|exact T2].
  Qed.

  Lemma print_input_value_plain a : plain_siv a -> print_input_value o E print_fuel a = Ok (iv_text a).
  Proof.
    intros Hp. pose proof Hp as (Hd & _ & Hdirs & _). unfold print_input_value.
    assert (Hdf : match siv_default a with
                  | None => Ok []
                  | Some v => do n <- node_of_value print_fuel E v (siv_type a); Ok (lit " = " ++ print_value n)
                  end = Ok (dflt_text a)).
    { unfold dflt_text, dflt_of, dflt_ok in *. destruct (siv_default a) as [v|]; [|reflexivity].
      destruct Hd as (n & Hn & Hg). rewrite (node_env_mono E0 E Hext _ _ _ _ Hn), Hn. cbn [obind].
      unfold print_value. rewrite (good_print cf vcfg n Hg). reflexivity. }
    rewrite Hdf. cbn [obind]. rewrite (print_directives_ok _ Hdirs). f_equal.
    exact (proj1 (strip_tight _ (proj2 (iv_text_facts a Hp)))).
  Qed.

  Lemma pr_input_value_plain a : plain_siv a -> pr_input_value_def cf (iv_of a) = iv_text a.
  Proof.
    intros (Hd & _). unfold pr_input_value_def, iv_of, iv_text. cbn [iv_name iv_type iv_default iv_dirs mk_name n_val].
    rewrite <- print_tref_pr_type, wrap_dirs, !p_join_nosep. cbn [concat]. rewrite !app_nil_r.
    unfold dflt_text. unfold dflt_ok, dflt_of in *. destruct (siv_default a) as [v|]; [|rewrite <- !app_assoc; reflexivity].
    destruct Hd as (n & Hn & Hg). rewrite Hn.
    destruct (good_value_text cf n Hg) as [_ (Hne & _)]. rewrite <- (good_print cf cf n Hg) in Hne.
    unfold p_wrap. destruct (pr_value cf (relex n)); [congruence|]. cbn [is_empty]. rewrite app_nil_r, <- !app_assoc. reflexivity.
  Qed.

  (* arguments, inline *)
  Definition args_text (args : list sivalue) : str :=
    match args with
    | [] => []
    | _ => lit "(" ++ join (lit ", ") (map iv_text args) ++ lit ")"
    end.

  Lemma args_text_nolf args : Forall plain_siv args -> has_lf (args_text args) = false.
  Proof.
    intros H. unfold args_text. destruct args as [|a r]; [reflexivity|].
    rewrite !has_lf_app. cbn [has_lf existsb lit str_of_string].
    rewrite has_lf_join; [reflexivity|reflexivity|].
    apply Forall_forall; intros x Hx. apply in_map_iff in Hx. destruct Hx as [b [<- Hb]].
    rewrite Forall_forall in H. apply (iv_text_facts b (H b Hb)).
  Qed.

  Lemma no_arg_descs args :
    Forall plain_siv args ->
    existsb (fun a => match siv_desc a with Some (_ :: _) => true | _ => false end) args = false.
  Proof.
    induction 1 as [|a l Ha Hl IH]; [reflexivity|]. cbn [existsb].
    destruct Ha as (_ & Hd & _). rewrite Hd, IH. reflexivity.
  Qed.

  Lemma print_arguments_plain args depth :
    Forall plain_siv args -> print_arguments o E print_fuel args depth = Ok (args_text args).
  Proof.
    intros H. unfold print_arguments, args_text. destruct args as [|a r]; [reflexivity|].
    rewrite (no_arg_descs _ H), Bool.andb_false_r.
    assert (Ho : omap (print_input_value o E print_fuel) (a :: r) = Ok (map iv_text (a :: r))).
    { clear -H Hext. induction H as [|x l Hx Hl IH]; [reflexivity|]. cbn [omap map].
      rewrite (print_input_value_plain x Hx). cbn [obind]. rewrite IH. reflexivity. }
    rewrite Ho. reflexivity.
  Qed.

  Lemma pr_arg_defs_plain args : Forall plain_siv args -> pr_arg_defs cf (map iv_of args) = args_text args.
  Proof.
    intros H. unfold pr_arg_defs, args_text. rewrite map_map.
    rewrite (map_ext_in _ iv_text) by (intros a Ha; rewrite Forall_forall in H; apply pr_input_value_plain; auto).
    assert (Hn : existsb has_lf (map iv_text args) = false).
    { clear -H. induction H as [|x l Hx Hl IH]; [reflexivity|]. cbn [map existsb].
      rewrite (proj1 (iv_text_facts x Hx)), IH. reflexivity. }
    rewrite Hn. destruct args as [|a r]; [reflexivity|].
    rewrite p_join_all.
    - unfold p_wrap. destruct (join (lit ", ") (map iv_text (a :: r))) eqn:Hj; [|reflexivity].
      exfalso. cbn [map] in Hj. destruct (proj2 (iv_text_facts a (Forall_inv H))) as [Hne _].
      destruct (map iv_text r); cbn [join] in Hj; [congruence|]. apply app_eq_nil in Hj. tauto.
    - apply Forall_forall; intros x Hx. apply in_map_iff in Hx. destruct Hx as [b [<- Hb]].
      rewrite Forall_forall in H. apply (proj2 (iv_text_facts b (H b Hb))).
  Qed.

  (* ---- blocks --------------------------------------------------------- *)
  Lemma block_text (texts : list str) :
    texts <> [] -> Forall (fun t => t <> [] /\ has_lf t = false) texts ->
    p_block texts (po_indent o)
    = lit "{" ++ [PrinterModel.LF] ++ join [PrinterModel.LF] (map (fun t => po_indent o ++ t) texts)
      ++ [PrinterModel.LF] ++ lit "}".
  Proof.
    intros Hne H. unfold p_block. destruct texts as [|t ts]; [congruence|].
    rewrite (map_ext_in (fun s => p_indent s (po_indent o)) (fun t => po_indent o ++ t)).
    2:{ intros x Hx. rewrite Forall_forall in H. destruct (H x Hx). apply p_indent_nolf; assumption. }
    rewrite p_join_all; [reflexivity|].
    apply Forall_forall; intros x Hx. apply in_map_iff in Hx. destruct Hx as [y [<- Hy]].
    rewrite Forall_forall in H. destruct (H y Hy) as [Hy1 _]. intros He. apply app_eq_nil in He. tauto.
  Qed.

  Definition block_of (texts : list str) : str :=
    lit " {" ++ nl ++ join nl (map (fun t => po_indent o ++ t) texts) ++ nl ++ lit "}".

  Lemma sp_block texts :
    texts <> [] -> Forall (fun t => t <> [] /\ has_lf t = false) texts ->
    sp (p_block texts (po_indent o)) = block_of texts.
  Proof.
    intros Hne H. rewrite (block_text texts Hne H). reflexivity.
  Qed.

  Lemma sp_ne x : x <> [] -> sp x = lit " " ++ x.
  Proof. intros H. unfold sp. destruct x; [congruence|reflexivity]. Qed.

  (* ---- fields ---------------------------------------------------------- *)
  Definition plain_sf (f : sfield) : Prop :=
    sf_desc f = None /\ dirs_ok (sf_dirs f) /\ vname (sf_name f) /\ wf_tref (sf_type f)
    /\ Forall plain_siv (sf_args f).

  Definition fdirs (f : sfield) : list directive := deprecated_dir (sf_dep f) ++ custom_dirs (sf_dirs f).

  Definition fd_of (f : sfield) : field_def :=
    FDef None (mk_name (sf_name f)) (map iv_of (sf_args f)) (ty_of_tref (sf_type f)) (fdirs f) None.

  Lemma omap_ivdefs args : Forall plain_siv args -> omap (ivdef_of E0) args = Ok (map iv_of args).
  Proof.
    induction 1 as [|a l Ha Hl IH]; [reflexivity|]. cbn [omap map].
    rewrite (ivdef_of_plain a Ha). cbn [obind]. rewrite IH. reflexivity.
  Qed.

  Lemma fdef_of_plain f : plain_sf f -> fdef_of E0 f = Ok (fd_of f).
  Proof.
    intros (Hd & _ & _ & _ & Ha). unfold fdef_of, fd_of, fdirs. rewrite (omap_ivdefs _ Ha). cbn [obind].
    rewrite Hd. reflexivity.
  Qed.

  Lemma good_fdirs dep ds : dirs_ok ds -> Forall good_dir (deprecated_dir dep ++ custom_dirs ds).
  Proof. intros [Hg _]. apply Forall_app; split; [apply good_deprecated|exact Hg]. Qed.

  Definition ft (f : sfield) : str :=
    sf_name f ++ args_text (sf_args f) ++ lit ": " ++ print_tref (sf_type f) ++ dtext (fdirs f).

  Lemma ft_facts f : plain_sf f ->
    pr_field_def cf (fd_of f) = ft f /\ has_lf (ft f) = false /\ ft f <> []
    /\ py_space (last (ft f) 0%N) = false.
  Proof.
    intros (Hd & Hn & Hname & Ht & Ha).
    destruct (vname_nolf _ Hname) as (N1 & N2 & N3). destruct (print_tref_facts _ Ht) as [T1 (T2 & T3 & T4)].
    destruct (dtext_facts _ (good_fdirs (sf_dep f) _ Hn)) as (D2 & D3). fold (fdirs f) in D2, D3.
    repeat split.
    - unfold pr_field_def, fd_of, ft. cbn [fd_name fd_args fd_type fd_dirs mk_name n_val].
      rewrite p_join_nosep. cbn [concat]. rewrite (pr_arg_defs_plain _ Ha), <- print_tref_pr_type, wrap_dirs, app_nil_r.
      reflexivity.
    - unfold ft. rewrite !has_lf_app, N1, (args_text_nolf _ Ha), T1, D2. reflexivity.
    - unfold ft. intros He. apply app_eq_nil in He. tauto.
    - unfold ft. destruct (dtext (fdirs f)) as [|c r] eqn:Hdep.
      + rewrite app_nil_r, !app_assoc, last_app_ne by exact T2. exact T4.
      + rewrite !app_assoc, last_app_ne by discriminate. apply D3. discriminate.
  Qed.

  Lemma print_fields_plain fs :
    Forall plain_sf fs ->
    print_fields o E print_fuel fs = Ok (join nl (map (fun f => po_indent o ++ ft f) fs)).
  Proof.
    intros H. unfold print_fields.
    rewrite (imap_ok _ (fun f => po_indent o ++ ft f)); [reflexivity|].
    intros i f Hf. rewrite Forall_forall in H. pose proof (H f Hf) as Hp.
    destruct Hp as (Hd & Hn & _ & _ & Ha). rewrite (print_arguments_plain _ 1 Ha). cbn [obind].
    rewrite Hd. cbn [print_description app]. rewrite (print_directives_ok _ Hn), <- dtext_deprecated, <- dtext_app.
    fold (fdirs f). f_equal.
    destruct (ft_facts f (H f Hf)) as (_ & _ & Hne & Hl).
    change (po_indent o ++ sf_name f ++ args_text (sf_args f) ++ lit ": " ++ print_tref (sf_type f)
            ++ dtext (fdirs f)) with (po_indent o ++ ft f).
    apply rstrip_id.
    - intros He. apply app_eq_nil in He. tauto.
    - rewrite last_app_ne by exact Hne. exact Hl.
  Qed.

  (* ---- enum values ----------------------------------------------------- *)
  Definition plain_sev (v : sevalue) : Prop :=
    sev_desc v = None /\ dirs_ok (sev_dirs v) /\ vname (sev_name v) /\ ~ is_reserved (sev_name v).

  Definition edirs (v : sevalue) : list directive := deprecated_dir (sev_dep v) ++ custom_dirs (sev_dirs v).

  Definition ev_of (v : sevalue) : enum_value_def :=
    EVDef None (mk_name (sev_name v)) (edirs v) None.

  Lemma evdef_of_plain v : plain_sev v -> evdef_of v = ev_of v.
  Proof. intros (Hd & _). unfold evdef_of, ev_of, edirs. rewrite Hd. reflexivity. Qed.

  Definition et (v : sevalue) : str := sev_name v ++ dtext (edirs v).

  Lemma et_facts v : plain_sev v ->
    pr_enum_value_def cf (ev_of v) = et v /\ has_lf (et v) = false /\ et v <> []
    /\ py_space (last (et v) 0%N) = false.
  Proof.
    intros (_ & Hn & Hname & _). destruct (vname_nolf _ Hname) as (N1 & N2 & N3).
    destruct (dtext_facts _ (good_fdirs (sev_dep v) _ Hn)) as (D2 & D3). fold (edirs v) in D2, D3.
    repeat split.
    - unfold pr_enum_value_def, ev_of, et. cbn [ev_name ev_dirs mk_name n_val].
      rewrite (p_join_sp _ _ N3). cbn [map concat]. rewrite sp_dirs, app_nil_r. reflexivity.
    - unfold et. rewrite has_lf_app, N1, D2. reflexivity.
    - unfold et. intros He. apply app_eq_nil in He. tauto.
    - unfold et. destruct (dtext (edirs v)) as [|c r] eqn:Hdep.
      + rewrite app_nil_r. apply (nospace_tight _ N3 N2).
      + rewrite last_app_ne by discriminate. apply D3. discriminate.
  Qed.

  (* ---- the six kinds --------------------------------------------------- *)
  Definition plain_tdef (t : tdef) : Prop :=
    tdef_desc t = None /\ dirs_ok (tdef_dirs t) /\ vname (tdef_name t) /\
    match t with
    | TScalar _ _ _ => True
    | TObject _ _ is_ fs _ => fs <> [] /\ Forall plain_sf fs /\ Forall (fun n => vname n) is_
    | TInterface _ _ fs _ => fs <> [] /\ Forall plain_sf fs
    | TUnion _ _ ms _ => ms <> [] /\ Forall (fun n => vname n) ms
    | TEnum _ _ vs _ => vs <> [] /\ Forall plain_sev vs
    | TInput _ _ fs _ => fs <> [] /\ Forall plain_siv fs
    end.

  Definition def1_of (t : tdef) : definition :=
    match t with
    | TScalar n _ ds => DScalar false None (mk_name n) (custom_dirs ds) None
    | TObject n _ is_ fs ds =>
        DObject false None (mk_name n) (map named_ty is_) (custom_dirs ds) (map fd_of fs) None
    | TInterface n _ fs ds => DInterface false None (mk_name n) (custom_dirs ds) (map fd_of fs) None
    | TUnion n _ ms ds => DUnion false None (mk_name n) (custom_dirs ds) (map named_ty ms) None
    | TEnum n _ vs ds => DEnum false None (mk_name n) (custom_dirs ds) (map ev_of vs) None
    | TInput n _ fs ds => DInput false None (mk_name n) (custom_dirs ds) (map iv_of fs) None
    end.

  Lemma omap_fdefs fs : Forall plain_sf fs -> omap (fdef_of E0) fs = Ok (map fd_of fs).
  Proof.
    induction 1 as [|a l Ha Hl IH]; [reflexivity|]. cbn [omap map].
    rewrite (fdef_of_plain a Ha). cbn [obind]. rewrite IH. reflexivity.
  Qed.

  Lemma def_of_tdef_plain t : plain_tdef t -> def_of_tdef E0 t = Ok (def1_of t).
  Proof.
    intros (Hd & _ & _ & Hk).
    destruct t; cbn [tdef_desc tdef_dirs] in *; subst; cbn [def_of_tdef def1_of strval_of].
    - reflexivity.
    - destruct Hk as (_ & Hf & _). rewrite (omap_fdefs _ Hf). reflexivity.
    - destruct Hk as (_ & Hf). rewrite (omap_fdefs _ Hf). reflexivity.
    - reflexivity.
    - destruct Hk as (_ & Hv). do 2 f_equal. apply map_ext_in. intros v Hv'. rewrite Forall_forall in Hv.
      apply evdef_of_plain; auto.
    - destruct Hk as (_ & Hf). rewrite (omap_ivdefs _ Hf). reflexivity.
  Qed.

  Definition type_text (t : tdef) : str :=
    match t with
    | TScalar n _ ds => lit "scalar " ++ n ++ dtext (custom_dirs ds)
    | TObject n _ is_ fs ds =>
        lit "type " ++ n ++ (match is_ with [] => [] | _ => lit " implements " ++ join (lit " & ") is_ end)
        ++ dtext (custom_dirs ds) ++ block_of (map ft fs)
    | TInterface n _ fs ds => lit "interface " ++ n ++ dtext (custom_dirs ds) ++ block_of (map ft fs)
    | TUnion n _ ms ds => lit "union " ++ n ++ dtext (custom_dirs ds) ++ lit " = " ++ join (lit " | ") ms
    | TEnum n _ vs ds => lit "enum " ++ n ++ dtext (custom_dirs ds) ++ block_of (map et vs)
    | TInput n _ fs ds => lit "input " ++ n ++ dtext (custom_dirs ds) ++ block_of (map iv_text fs)
    end.

  Lemma print_type_plain t : plain_tdef t -> print_type o E print_fuel t = Ok (type_text t).
  Proof.
    intros (Hd & Hn & _ & Hk).
    destruct t; cbn [tdef_desc tdef_dirs] in *; subst; cbn [print_type type_text print_description];
      rewrite (print_directives_ok _ Hn).
    - reflexivity.
    - destruct Hk as (_ & Hf & _). rewrite (print_fields_plain _ Hf). cbn [obind app].
      unfold block_of. rewrite map_map. rewrite <- ?app_assoc. reflexivity.
    - destruct Hk as (_ & Hf). rewrite (print_fields_plain _ Hf). cbn [obind app].
      unfold block_of. rewrite map_map. rewrite <- ?app_assoc. reflexivity.
    - cbn [app]. rewrite <- ?app_assoc. reflexivity.
    - destruct Hk as (_ & Hv). cbn [app]. unfold block_of. rewrite map_map. do 2 f_equal.
      rewrite <- ?app_assoc. do 5 f_equal.
      assert (Hl : forall vs0 i, Forall plain_sev vs0 ->
                 (fix go (i : nat) (vs : list sevalue) : list str :=
                    match vs with
                    | [] => []
                    | v :: r =>
                        rstrip (print_description o (sev_desc v) 1 (Nat.eqb i 0) ++ po_indent o
                                ++ sev_name v ++ print_deprecated (sev_dep v)
                                ++ print_directives o (sev_dirs v)) :: go (S i) r
                    end) i vs0 = map (fun v => po_indent o ++ et v) vs0).
      { clear Hv. intros vs. induction vs as [|v vs IH]; intros i H; [reflexivity|]. inversion H as [|? ? Hv Hr]; subst.
        rewrite (IH (S i) Hr). cbn [map]. f_equal.
        pose proof Hv as (Hd' & Hn' & _). rewrite Hd'. cbn [print_description app].
        rewrite (print_directives_ok _ Hn'), <- dtext_deprecated, <- dtext_app. fold (edirs v).
        destruct (et_facts v Hv) as (_ & _ & Hne & Hl).
        change (po_indent o ++ sev_name v ++ dtext (edirs v)) with (po_indent o ++ et v).
        apply rstrip_id; [intros He; apply app_eq_nil in He; tauto|].
        rewrite last_app_ne by exact Hne. exact Hl. }
      rewrite (Hl _ 0 Hv). reflexivity.
    - destruct Hk as (_ & Hf).
      rewrite (imap_ok _ (fun f => po_indent o ++ iv_text f)).
      + cbn [obind app]. unfold block_of. rewrite map_map. rewrite <- ?app_assoc. reflexivity.
      + intros i f Hin. rewrite Forall_forall in Hf. pose proof (Hf f Hin) as Hp.
        rewrite (print_input_value_plain f Hp). cbn [obind].
        destruct Hp as (_ & Hde & _). rewrite Hde. reflexivity.
  Qed.

  (* the same texts from the ASTPrinter model *)
  Lemma names_join (sep : str) ns :
    Forall (fun n => vname n) ns -> p_join (map pr_type (map named_ty ns)) sep = join sep ns.
  Proof.
    intros H. rewrite map_map. cbn [pr_type named_ty mk_name n_val]. rewrite map_id.
    apply p_join_all. apply Forall_forall; intros n Hn. rewrite Forall_forall in H.
    apply (vname_nolf n (H n Hn)).
  Qed.

  Lemma fields_block fs :
    fs <> [] -> Forall plain_sf fs ->
    sp (p_block (map (pr_field_def cf) (map fd_of fs)) (c_indent cf)) = block_of (map ft fs).
  Proof.
    intros Hne Hf.
    assert (Hb : map (pr_field_def cf) (map fd_of fs) = map ft fs).
    { rewrite map_map. apply map_ext_in. intros f Hfin. rewrite Forall_forall in Hf. apply (ft_facts f (Hf f Hfin)). }
    rewrite Hb. apply sp_block; [destruct fs; [congruence|discriminate]|].
    apply Forall_forall; intros x Hx. apply in_map_iff in Hx. destruct Hx as [f [<- Hfin]].
    rewrite Forall_forall in Hf. destruct (ft_facts f (Hf f Hfin)) as (_ & H1 & H2 & _). auto.
  Qed.

  Lemma values_block vs :
    vs <> [] -> Forall plain_sev vs ->
    sp (p_block (map (pr_enum_value_def cf) (map ev_of vs)) (c_indent cf)) = block_of (map et vs).
  Proof.
    intros Hne Hf.
    assert (Hb : map (pr_enum_value_def cf) (map ev_of vs) = map et vs).
    { rewrite map_map. apply map_ext_in. intros f Hfin. rewrite Forall_forall in Hf. apply (et_facts f (Hf f Hfin)). }
    rewrite Hb. apply sp_block; [destruct vs; [congruence|discriminate]|].
    apply Forall_forall; intros x Hx. apply in_map_iff in Hx. destruct Hx as [f [<- Hfin]].
    rewrite Forall_forall in Hf. destruct (et_facts f (Hf f Hfin)) as (_ & H1 & H2 & _). auto.
  Qed.

  Lemma ifields_block fs :
    fs <> [] -> Forall plain_siv fs ->
    sp (p_block (map (pr_input_value_def cf) (map iv_of fs)) (c_indent cf)) = block_of (map iv_text fs).
  Proof.
    intros Hne Hf.
    assert (Hb : map (pr_input_value_def cf) (map iv_of fs) = map iv_text fs).
    { rewrite map_map. apply map_ext_in. intros f Hfin. rewrite Forall_forall in Hf. apply pr_input_value_plain; auto. }
    rewrite Hb. apply sp_block; [destruct fs; [congruence|discriminate]|].
    apply Forall_forall; intros x Hx. apply in_map_iff in Hx. destruct Hx as [f [<- Hfin]].
    rewrite Forall_forall in Hf. destruct (iv_text_facts f (Hf f Hfin)) as (H1 & H2 & _). auto.
  Qed.

  Lemma pr_definition_plain t : plain_tdef t -> pr_definition cf (def1_of t) = type_text t.
  Proof.
    intros (_ & _ & Hname & Hk). destruct (vname_nolf _ Hname) as (_ & _ & Hne).
    destruct t as [n d ds|n d ifaces fs ds|n d fs ds|n d members ds|n d vs ds|n d fs ds];
      cbn [tdef_name] in *; cbn [def1_of pr_definition with_desc type_text mk_name n_val kw];
      rewrite p_join_sp by discriminate; cbn [map concat]; rewrite sp_dirs, (sp_ne n Hne), app_nil_r.
    - cbn [app lit str_of_string]. rewrite <- ?app_assoc. reflexivity.
    - destruct Hk as (Hfne & Hf & Hi). rewrite (fields_block fs Hfne Hf), (names_join _ _ Hi).
      destruct ifaces as [|i0 ir].
      + cbn [join p_wrap is_empty sp app lit str_of_string]. rewrite <- ?app_assoc. reflexivity.
      + assert (Hj : join (lit " & ") (i0 :: ir) <> []).
        { apply join_ne_ne; [discriminate|]. apply Forall_forall; intros x Hx. rewrite Forall_forall in Hi.
          apply (vname_nolf x (Hi x Hx)). }
        unfold p_wrap. destruct (join (lit " & ") (i0 :: ir)) as [|j0 jr] eqn:Hje; [congruence|].
        cbn [is_empty sp app lit str_of_string]. rewrite app_nil_r. cbn [app]. rewrite <- ?app_assoc. reflexivity.
    - destruct Hk as (Hfne & Hf). rewrite (fields_block fs Hfne Hf).
      cbn [app lit str_of_string]. rewrite <- ?app_assoc. reflexivity.
    - destruct Hk as (Hmne & Hm). rewrite (names_join _ _ Hm).
      assert (Hj : join (lit " | ") members <> []).
      { apply join_ne_ne; [exact Hmne|]. apply Forall_forall; intros x Hx. rewrite Forall_forall in Hm.
        apply (vname_nolf x (Hm x Hx)). }
      unfold p_wrap. destruct (join (lit " | ") members) as [|j0 jr] eqn:Hje; [congruence|].
      cbn [is_empty sp app lit str_of_string]. rewrite app_nil_r. cbn [app]. rewrite <- ?app_assoc. reflexivity.
    - destruct Hk as (Hvne & Hv). rewrite (values_block vs Hvne Hv).
      cbn [app lit str_of_string]. rewrite <- ?app_assoc. reflexivity.
    - destruct Hk as (Hfne & Hf). rewrite (ifields_block fs Hfne Hf).
      cbn [app lit str_of_string]. rewrite <- ?app_assoc. reflexivity.
  Qed.

  (* ---- directive definitions ----------------------------------------- *)
  Definition plain_ddef (d : ddef) : Prop :=
    dd_desc d = None /\ vname (dd_name d) /\ Forall plain_siv (dd_args d)
    /\ dd_locs d <> [] /\ Forall (fun l => vname l) (dd_locs d).

  Definition ddef1_of (d : ddef) : definition :=
    DDirective None (mk_name (dd_name d)) (map iv_of (dd_args d)) (map mk_name (dd_locs d)) None.

  Definition ddef_text (d : ddef) : str :=
    lit "directive @" ++ dd_name d ++ args_text (dd_args d) ++ lit " on " ++ join (lit " | ") (dd_locs d).

  Lemma def_of_ddef_plain d : plain_ddef d -> def_of_ddef E0 d = Ok (ddef1_of d).
  Proof.
    intros (Hd & _ & Ha & _). unfold def_of_ddef, ddef1_of. rewrite (omap_ivdefs _ Ha). cbn [obind].
    rewrite Hd. reflexivity.
  Qed.

  Lemma print_ddef_plain d : plain_ddef d -> print_directive_definition o E print_fuel d = Ok (ddef_text d).
  Proof.
    intros (Hd & _ & Ha & _). unfold print_directive_definition, ddef_text.
    rewrite (print_arguments_plain _ 0 Ha). cbn [obind]. rewrite Hd. reflexivity.
  Qed.

  Lemma pr_ddef_plain d : plain_ddef d -> pr_definition cf (ddef1_of d) = ddef_text d.
  Proof.
    intros (_ & Hn & Ha & Hlne & Hl). unfold ddef1_of, ddef_text.
    cbn [pr_definition with_desc mk_name n_val]. rewrite p_join_nosep. cbn [concat].
    rewrite (pr_arg_defs_plain _ Ha), map_map. cbn [mk_name n_val]. rewrite map_id.
    rewrite p_join_all, app_nil_r; [reflexivity|].
    apply Forall_forall; intros x Hx. rewrite Forall_forall in Hl. apply (vname_nolf x (Hl x Hx)).
  Qed.

  (* ---- the schema definition ----------------------------------------- *)
  Definition plain_roots (sc : schema) : Prop :=
    dirs_ok (s_dirs sc)
    /\ (exists q, s_query sc = Some q /\ vname q)
    /\ (forall m, s_mutation sc = Some m -> vname m)
    /\ (forall m, s_subscription sc = Some m -> vname m).

  Definition plain_schema (sc : schema) : Prop :=
    Forall plain_tdef (s_types sc) /\ Forall plain_ddef (s_ddefs sc) /\ plain_roots sc /\ s_types sc <> [].

  Definition ot_of (k : op_kind) (r : option str) : list op_type_def :=
    match r with Some n => [OTDef k (named_ty n) None] | None => [] end.

  Definition sdef_of (sc : schema) : definition :=
    DSchema false (custom_dirs (s_dirs sc))
            (ot_of OpQuery (s_query sc) ++ ot_of OpMutation (s_mutation sc)
             ++ ot_of OpSubscription (s_subscription sc)) None.

  Definition op_line (k : string) (r : option str) : list str :=
    match r with Some n => [lit k ++ lit ": " ++ n] | None => [] end.

  Definition sdef_text (sc : schema) : str :=
    lit "schema" ++ dtext (custom_dirs (s_dirs sc))
    ++ block_of (op_line "query" (s_query sc) ++ op_line "mutation" (s_mutation sc)
                 ++ op_line "subscription" (s_subscription sc)).

  Lemma print_schema_definition_plain sc :
    plain_roots sc ->
    print_schema_definition o sc = if schema_def_needed sc then sdef_text sc else [].
  Proof.
    intros (Hn & _). unfold print_schema_definition, schema_def_needed.
    rewrite (print_directives_ok _ Hn).
    assert (Hne : nonempty (dtext (custom_dirs (s_dirs sc)))
                  = match custom_dirs (s_dirs sc) with [] => false | _ => true end).
    { unfold dtext. destruct (custom_dirs (s_dirs sc)); reflexivity. }
    rewrite Hne.
    destruct (custom_dirs (s_dirs sc)) as [|d0 r0] eqn:Hcd; cbn [negb andb].
    - rewrite Bool.orb_false_r.
      destruct (root_is_default sc (s_query sc) (S_ "Query") && root_is_default sc (s_mutation sc) (S_ "Mutation")
                && root_is_default sc (s_subscription sc) (S_ "Subscription")); cbn [negb]; [reflexivity|].
      unfold sdef_text, block_of. rewrite Hcd. cbn [dtext app].
      destruct (s_query sc), (s_mutation sc), (s_subscription sc); cbn [op_line map app]; reflexivity.
    - rewrite Bool.orb_true_r. unfold sdef_text, block_of. rewrite Hcd. rewrite <- ?app_assoc.
      destruct (s_query sc), (s_mutation sc), (s_subscription sc); cbn [op_line map app]; reflexivity.
  Qed.

  Lemma pr_sdef_plain sc : plain_roots sc -> pr_definition cf (sdef_of sc) = sdef_text sc.
  Proof.
    intros (_ & (q & Hq & Hqn) & Hm & Hs). unfold sdef_of, sdef_text.
    cbn [pr_definition kw]. rewrite p_join_sp by discriminate. cbn [map concat]. rewrite sp_dirs, app_nil_r.
    set (lines := op_line "query" (s_query sc) ++ op_line "mutation" (s_mutation sc)
                  ++ op_line "subscription" (s_subscription sc)).
    assert (Hl : map pr_op_type_def (ot_of OpQuery (s_query sc) ++ ot_of OpMutation (s_mutation sc)
                                          ++ ot_of OpSubscription (s_subscription sc)) = lines).
    { unfold lines. destruct (s_query sc), (s_mutation sc), (s_subscription sc); reflexivity. }
    rewrite Hl.
    assert (Hne : lines <> []) by (unfold lines; rewrite Hq; discriminate).
    assert (Hall : Forall (fun t => t <> [] /\ has_lf t = false) lines).
    { unfold lines. rewrite Hq. apply Forall_forall; intros x Hx. cbn [op_line app] in Hx.
      assert (Hline : forall (k : string) n, vname n -> has_lf (lit k) = false ->
                lit k ++ lit ": " ++ n <> [] /\ has_lf (lit k ++ lit ": " ++ n) = false).
      { intros k n Hn Hk. destruct (vname_nolf n Hn) as (N1 & _ & N3). split.
        - intros He. apply app_eq_nil in He. destruct He as [_ He]. apply app_eq_nil in He. tauto.
        - rewrite !has_lf_app, Hk, N1. reflexivity. }
      destruct Hx as [<-|Hx]; [apply Hline; [exact Hqn|reflexivity]|].
      apply in_app_or in Hx. destruct Hx as [Hx|Hx].
      - destruct (s_mutation sc) as [m|] eqn:Hme; [|contradiction]. destruct Hx as [<-|[]].
        apply Hline; [apply Hm; reflexivity|reflexivity].
      - destruct (s_subscription sc) as [m|] eqn:Hse; [|contradiction]. destruct Hx as [<-|[]].
        apply Hline; [apply Hs; reflexivity|reflexivity]. }
    change (c_indent cf) with (po_indent o). rewrite (sp_block lines Hne Hall). reflexivity.
  Qed.
End Texts.

(* ------------------------------------------------------------------ *)
(* the document                                                         *)

Lemma insert_by_in {A} (key : A -> str) x y l : In x (insert_by key y l) <-> x = y \/ In x l.
Proof.
  induction l as [|z l IH]; cbn [insert_by]; [simpl; intuition congruence|].
  destruct (str_leb (key z) (key y)); cbn [In]; [rewrite IH|]; intuition congruence.
Qed.

Lemma sort_by_in {A} (key : A -> str) l x : In x (sort_by key l) <-> In x l.
Proof.
  unfold sort_by.
  assert (H : forall acc, In x (fold_left (fun a y => insert_by key y a) l acc) <-> In x acc \/ In x l).
  { induction l as [|y l IH]; intros acc; cbn [fold_left]; [simpl; tauto|].
    rewrite IH, insert_by_in. cbn [In]. intuition congruence. }
  rewrite H. simpl; tauto.
Qed.

Lemma sort_by_Forall {A} (P : A -> Prop) key l : Forall P l -> Forall P (sort_by key l).
Proof. intros H. apply Forall_forall; intros x Hx. apply sort_by_in in Hx. rewrite Forall_forall in H; auto. Qed.

Lemma sort_by_nonempty {A} (key : A -> str) (l : list A) : l <> [] -> sort_by key l <> [].
Proof.
  destruct l as [|t0 ts]; [congruence|]. intros _ He.
  assert (Hin : In t0 (sort_by key (t0 :: ts))) by (apply sort_by_in; left; reflexivity).
  rewrite He in Hin. contradiction.
Qed.

Lemma alookup_app_some {A} n (l1 l2 : list (str * A)) x : alookup n l1 = Some x -> alookup n (l1 ++ l2) = Some x.
Proof.
  induction l1 as [|[k v] l1 IH]; [discriminate|]. cbn [alookup app]. destruct (str_eqb n k); [auto|exact IH].
Qed.

Lemma env_le_intro intro sc : env_le (env_of_schema [] sc) (env_of_schema intro sc).
Proof.
  unfold env_le, env_of_schema. intros n info H. rewrite app_nil_r in H. rewrite map_app. apply alookup_app_some. exact H.
Qed.

(* the schemas of this file: no descriptions; defaults whose literal is a
   plain GraphQL literal; applied custom directives with plain arguments, all
   printed by the options (or none) *)
Definition text_schema (o : popts) (sc : schema) : Prop := plain_schema o (env_of_schema [] sc) sc.

Definition doc_of (sc : schema) : document :=
  let E0 := env_of_schema [] sc in
  Doc ((if schema_def_needed sc then [sdef_of sc] else [])
       ++ map (ddef1_of E0) (sort_by dd_name (s_ddefs sc))
       ++ map (def1_of E0) (sort_by tdef_name (s_types sc))) None.

Lemma ast_of_schema_plain o sc : text_schema o sc -> ast_of_schema sc = Ok (doc_of sc).
Proof.
  intros (Ht & Hd & Hr & Hne). set (E0 := env_of_schema [] sc) in *.
  set (st := sort_by tdef_name (s_types sc)). set (sd := sort_by dd_name (s_ddefs sc)).
  assert (Hst : Forall (plain_tdef o E0) st) by (apply sort_by_Forall; exact Ht).
  assert (Hsd : Forall (plain_ddef o E0) sd) by (apply sort_by_Forall; exact Hd).
  unfold ast_of_schema, doc_of. fold E0 sd st.
  assert (H1 : omap (def_of_ddef E0) sd = Ok (map (ddef1_of E0) sd)).
  { clear -Hsd. induction Hsd as [|x l Hx Hl IH]; [reflexivity|]. cbn [omap map].
    rewrite (def_of_ddef_plain o E0 x Hx). cbn [obind]. rewrite IH. reflexivity. }
  assert (H2 : omap (def_of_tdef E0) st = Ok (map (def1_of E0) st)).
  { clear -Hst. induction Hst as [|x l Hx Hl IH]; [reflexivity|]. cbn [omap map].
    rewrite (def_of_tdef_plain o E0 x Hx). cbn [obind]. rewrite IH. reflexivity. }
  rewrite H1, H2. cbn [obind]. unfold sdef_of, ot_of. reflexivity.
Qed.

Section Doc.
  Variable o : popts.
  Let cf := Cfg (po_indent o) true.

  Lemma pr_defs_map ds :
    Forall (fun d => starts_brace (pr_definition cf d) = false) ds ->
    forall prev, pr_defs cf prev ds = map (pr_definition cf) ds.
  Proof.
    induction 1 as [|d ds Hd Hds IH]; intros prev; [reflexivity|].
    cbn [pr_defs map]. rewrite Hd. cbn [andb]. rewrite IH. reflexivity.
  Qed.

  Theorem print_is_print_ast intro spec sc :
    text_schema o sc -> po_introspection o = false ->
    print_schema intro spec o sc = Ok (print_ast (po_indent o) true (doc_of sc)).
  Proof.
    intros (Ht & Hd & Hr & Hne) Hi. set (E0 := env_of_schema [] sc) in *.
    set (E := env_of_schema intro sc). pose proof (env_le_intro intro sc) as Hext. fold E0 E in Hext.
    set (st := sort_by tdef_name (s_types sc)). set (sd := sort_by dd_name (s_ddefs sc)).
    assert (Hst : Forall (plain_tdef o E0) st) by (apply sort_by_Forall; exact Ht).
    assert (Hsd : Forall (plain_ddef o E0) sd) by (apply sort_by_Forall; exact Hd).
    set (S := if schema_def_needed sc then [sdef_of sc] else []).
    unfold doc_of. fold E0 sd st S.
    unfold print_schema. rewrite Hi. rewrite app_nil_r. fold st sd E. cbn [obind].
    assert (H1 : omap (print_directive_definition o E print_fuel) sd = Ok (map (ddef_text o E0) sd)).
    { clear -Hsd Hext. induction Hsd as [|x l Hx Hl IH]; [reflexivity|]. cbn [omap map].
      rewrite (print_ddef_plain o E E0 Hext x Hx). cbn [obind]. rewrite IH. reflexivity. }
    assert (H2 : omap (print_type o E print_fuel) st = Ok (map (type_text o E0) st)).
    { clear -Hst Hext. induction Hst as [|x l Hx Hl IH]; [reflexivity|]. cbn [omap map].
      rewrite (print_type_plain o E E0 Hext x Hx). cbn [obind]. rewrite IH. reflexivity. }
    rewrite H1, H2. cbn [obind app].
    rewrite (print_schema_definition_plain o sc Hr).
    set (Stexts := if schema_def_needed sc then [sdef_text o sc] else []).
    assert (Hrest : Forall (fun x : str => x <> []) (map (ddef_text o E0) sd ++ map (type_text o E0) st)).
    { apply Forall_app; split; apply Forall_forall; intros x Hx; apply in_map_iff in Hx; destruct Hx as [y [<- _]].
      - discriminate.
      - destruct y; discriminate. }
    assert (Hparts : filter nonempty ((if schema_def_needed sc then sdef_text o sc else [])
                                      :: map (ddef_text o E0) sd ++ map (type_text o E0) st)
                     = Stexts ++ map (ddef_text o E0) sd ++ map (type_text o E0) st).
    { assert (Hk : forall l : list str, Forall (fun x => x <> []) l -> filter nonempty l = l).
      { induction 1 as [|x l Hx Hl IH]; [reflexivity|]. cbn [filter]. destruct x; [congruence|]. cbn [nonempty].
        rewrite IH. reflexivity. }
      unfold Stexts. destruct (schema_def_needed sc); cbn [filter nonempty].
      - unfold sdef_text at 1. cbn [app lit str_of_string nonempty]. rewrite (Hk _ Hrest). reflexivity.
      - apply Hk; exact Hrest. }
    rewrite Hparts.
    assert (Hst_ne : st <> []) by (apply sort_by_nonempty; exact Hne).
    assert (Htexts : map (pr_definition cf) (S ++ map (ddef1_of E0) sd ++ map (def1_of E0) st)
                     = Stexts ++ map (ddef_text o E0) sd ++ map (type_text o E0) st).
    { unfold cf. rewrite !map_app, !map_map. f_equal; [|f_equal].
      - unfold S, Stexts. destruct (schema_def_needed sc); [|reflexivity]. cbn [map].
        rewrite (pr_sdef_plain o sc Hr). reflexivity.
      - apply map_ext_in. intros x Hx. rewrite Forall_forall in Hsd. apply (pr_ddef_plain o E0). apply Hsd; exact Hx.
      - apply map_ext_in. intros x Hx. rewrite Forall_forall in Hst. apply (pr_definition_plain o E0). apply Hst; exact Hx. }
    assert (Hall : Forall (fun x : str => x <> []) (Stexts ++ map (ddef_text o E0) sd ++ map (type_text o E0) st)).
    { apply Forall_app; split; [|exact Hrest].
      unfold Stexts. destruct (schema_def_needed sc); repeat constructor. discriminate. }
    destruct (Stexts ++ map (ddef_text o E0) sd ++ map (type_text o E0) st) as [|p0 ps] eqn:Hp.
    { exfalso. apply app_eq_nil in Hp. destruct Hp as [_ Hp]. apply app_eq_nil in Hp. destruct Hp as [_ Hp].
      destruct st; [congruence|discriminate]. }
    f_equal. unfold print_ast, pr_document. cbn [doc_defs]. fold cf.
    rewrite pr_defs_map.
    + rewrite Htexts. rewrite p_join_all by exact Hall. reflexivity.
    + apply Forall_forall; intros x Hx.
      assert (Hin : In (pr_definition cf x) (p0 :: ps)) by (rewrite <- Htexts; apply in_map; exact Hx).
      rewrite <- Hp in Hin. apply in_app_or in Hin. destruct Hin as [Hin|Hin].
      * unfold Stexts in Hin. destruct (schema_def_needed sc); [|contradiction]. destruct Hin as [<-|[]]. reflexivity.
      * apply in_app_or in Hin. destruct Hin as [Hin|Hin]; apply in_map_iff in Hin; destruct Hin as [y [<- _]].
        -- reflexivity.
        -- destruct y; reflexivity.
  Qed.
End Doc.

(* ------------------------------------------------------------------ *)
(* the emitted document is well formed for the C03 round trip, and has no
   locations to strip                                                   *)
Section WfDoc.
  Variable o : popts.
  Variable E0 : env.

  Lemma map_id_in {A} (f : A -> A) l : (forall x, In x l -> f x = x) -> map f l = l.
  Proof. induction l as [|x l IH]; intros H; [reflexivity|]. cbn [map]. rewrite (H x (or_introl eq_refl)), IH; [reflexivity|intros; apply H; right; assumption]. Qed.

  Lemma good_dirs_wf l : Forall good_dir l -> Forall (wf_dir true) l.
  Proof. apply Forall_impl. apply good_dir_wf. Qed.

  Lemma good_dirs_strip l : Forall good_dir l -> map strip_dir l = l.
  Proof. intros H. apply map_id_in. intros d Hd. rewrite Forall_forall in H. apply good_dir_strip. apply H; exact Hd. Qed.

  Lemma dflt_of_facts a : dflt_ok E0 a ->
    match dflt_of E0 a with Some d => wf_value true d /\ strip_value d = d | None => True end.
  Proof.
    unfold dflt_ok, dflt_of. destruct (siv_default a) as [v|]; [|intros _; exact I].
    intros (n & Hn & Hg). rewrite Hn. split; [apply good_wf; exact Hg|apply good_strip; exact Hg].
  Qed.

  Lemma strip_iv_of a : plain_siv o E0 a -> strip_ivdef (iv_of E0 a) = iv_of E0 a.
  Proof.
    intros (Hd & _ & [Hg _] & _). unfold strip_ivdef, iv_of.
    cbn [iv_desc iv_name iv_type iv_default iv_dirs option_map map mk_name strip_name n_val].
    rewrite strip_ty_of_tref, (good_dirs_strip _ Hg). pose proof (dflt_of_facts a Hd) as H.
    destruct (dflt_of E0 a) as [d|]; cbn [option_map]; [destruct H as [_ ->]|]; reflexivity.
  Qed.

  Lemma wf_iv_of a : plain_siv o E0 a -> wf_ivdef (iv_of E0 a) /\ iv_desc (iv_of E0 a) = None.
  Proof.
    intros (Hd & _ & [Hg _] & Hn & Ht). split; [|reflexivity]. unfold wf_ivdef, iv_of.
    cbn [iv_name iv_type iv_default iv_dirs mk_name n_val]. repeat split.
    - exact Hn.
    - apply wf_ty_of_tref; exact Ht.
    - pose proof (dflt_of_facts a Hd) as H. destruct (dflt_of E0 a); [apply H|exact I].
    - apply good_dirs_wf; exact Hg.
  Qed.

  Lemma strip_fd_of f : plain_sf o E0 f -> strip_fdef (fd_of E0 f) = fd_of E0 f.
  Proof.
    intros (_ & Hn & _ & _ & Ha). unfold strip_fdef, fd_of, fdirs. cbn [fd_desc fd_name fd_args fd_type fd_dirs option_map mk_name strip_name n_val].
    rewrite strip_ty_of_tref, (good_dirs_strip _ (good_fdirs o (sf_dep f) _ Hn)), map_map.
    rewrite (map_ext_in _ (iv_of E0)); [reflexivity|]. intros a Hin. rewrite Forall_forall in Ha. apply strip_iv_of; auto.
  Qed.

  Lemma wf_fd_of f : plain_sf o E0 f -> wf_fdef (fd_of E0 f) /\ nodesc_fdef (fd_of E0 f).
  Proof.
    intros (_ & Hdirs & Hn & Ht & Ha). unfold wf_fdef, nodesc_fdef, fd_of, fdirs.
    cbn [fd_desc fd_name fd_args fd_type fd_dirs mk_name n_val]. repeat split.
    - exact Hn.
    - apply Forall_forall; intros x Hx. apply in_map_iff in Hx. destruct Hx as [a [<- Ha']].
      rewrite Forall_forall in Ha. apply (wf_iv_of a (Ha a Ha')).
    - apply wf_ty_of_tref; exact Ht.
    - apply good_dirs_wf. apply (good_fdirs o); exact Hdirs.
    - apply Forall_forall; intros x Hx. apply in_map_iff in Hx. destruct Hx as [a [<- _]]. reflexivity.
  Qed.

  Lemma strip_ev_of v : plain_sev o v -> strip_evdef (ev_of v) = ev_of v.
  Proof.
    intros (_ & Hn & _). unfold strip_evdef, ev_of, edirs. cbn [ev_desc ev_name ev_dirs option_map mk_name strip_name n_val].
    rewrite (good_dirs_strip _ (good_fdirs o (sev_dep v) _ Hn)). reflexivity.
  Qed.

  Lemma wf_ev_of v : plain_sev o v -> wf_evdef (ev_of v) /\ ev_desc (ev_of v) = None.
  Proof.
    intros (_ & Hdirs & Hn & Hr). split; [|reflexivity]. unfold wf_evdef, ev_of, edirs. cbn [ev_name ev_dirs mk_name n_val].
    repeat split; [exact Hn|exact Hr|apply good_dirs_wf; apply (good_fdirs o); exact Hdirs].
  Qed.

  Lemma strip_named_tys ns : map strip_ty (map named_ty ns) = map named_ty ns.
  Proof. rewrite map_map. apply map_ext. intros; reflexivity. Qed.

  Lemma wf_named_tys ns : Forall (fun n => vname n) ns -> Forall wf_named (map named_ty ns).
  Proof.
    intros H. apply Forall_forall; intros x Hx. apply in_map_iff in Hx. destruct Hx as [n [<- Hn]].
    rewrite Forall_forall in H. exact (H n Hn).
  Qed.

  Lemma strip_def1_of t : plain_tdef o E0 t -> strip_def (def1_of E0 t) = def1_of E0 t.
  Proof.
    intros (_ & [Hg _] & _ & Hk).
    destruct t; cbn [tdef_dirs] in Hg; cbn [def1_of strip_def option_map map mk_name strip_name n_val];
      rewrite ?strip_named_tys, ?map_map, (good_dirs_strip _ Hg).
    - reflexivity.
    - destruct Hk as (_ & Hf & _). rewrite (map_ext_in _ (fd_of E0)); [reflexivity|].
      intros f Hin. rewrite Forall_forall in Hf. apply strip_fd_of; auto.
    - destruct Hk as (_ & Hf). rewrite (map_ext_in _ (fd_of E0)); [reflexivity|].
      intros f Hin. rewrite Forall_forall in Hf. apply strip_fd_of; auto.
    - reflexivity.
    - destruct Hk as (_ & Hf). rewrite (map_ext_in _ ev_of); [reflexivity|].
      intros f Hin. rewrite Forall_forall in Hf. apply strip_ev_of; auto.
    - destruct Hk as (_ & Hf). rewrite (map_ext_in _ (iv_of E0)); [reflexivity|].
      intros f Hin. rewrite Forall_forall in Hf. apply strip_iv_of; auto.
  Qed.

  Lemma wf_def1_of fv t : plain_tdef o E0 t -> wf_fulldef fv (def1_of E0 t).
  Proof.
    intros (_ & [Hg _] & Hn & Hk). apply good_dirs_wf in Hg.
    assert (Hwfd : wfd false None) by (split; [discriminate|exact I]).
    destruct t as [n d ds|n d is_ fs ds|n d fs ds|n d members ds|n d vs ds|n d fs ds];
      cbn [tdef_name tdef_dirs] in Hn, Hg; cbn [def1_of wf_fulldef wf_sdef member_desc_free mk_name n_val].
    - repeat split; try assumption; discriminate.
    - destruct Hk as (_ & Hf & Hi). repeat split; try assumption; try discriminate.
      + apply wf_named_tys; exact Hi.
      + apply Forall_forall; intros x Hx. apply in_map_iff in Hx. destruct Hx as [f [<- Hf']].
        rewrite Forall_forall in Hf. apply (wf_fd_of f (Hf f Hf')).
      + apply Forall_forall; intros x Hx. apply in_map_iff in Hx. destruct Hx as [f [<- Hf']].
        rewrite Forall_forall in Hf. apply (wf_fd_of f (Hf f Hf')).
    - destruct Hk as (_ & Hf). repeat split; try assumption; try discriminate.
      + apply Forall_forall; intros x Hx. apply in_map_iff in Hx. destruct Hx as [f [<- Hf']].
        rewrite Forall_forall in Hf. apply (wf_fd_of f (Hf f Hf')).
      + apply Forall_forall; intros x Hx. apply in_map_iff in Hx. destruct Hx as [f [<- Hf']].
        rewrite Forall_forall in Hf. apply (wf_fd_of f (Hf f Hf')).
    - destruct Hk as (_ & Hm). repeat split; try assumption; try discriminate.
      apply wf_named_tys; exact Hm.
    - destruct Hk as (_ & Hv). repeat split; try assumption; try discriminate.
      + apply Forall_forall; intros x Hx. apply in_map_iff in Hx. destruct Hx as [v [<- Hv']].
        rewrite Forall_forall in Hv. apply (wf_ev_of v (Hv v Hv')).
      + apply Forall_forall; intros x Hx. apply in_map_iff in Hx. destruct Hx as [v [<- Hv']].
        rewrite Forall_forall in Hv. apply (wf_ev_of v (Hv v Hv')).
    - destruct Hk as (_ & Hf). repeat split; try assumption; try discriminate.
      + apply Forall_forall; intros x Hx. apply in_map_iff in Hx. destruct Hx as [a [<- Ha']].
        rewrite Forall_forall in Hf. apply (wf_iv_of a (Hf a Ha')).
      + apply Forall_forall; intros x Hx. apply in_map_iff in Hx. destruct Hx as [a [<- Ha']]. reflexivity.
  Qed.

  Lemma strip_ddef1_of d : plain_ddef o E0 d -> strip_def (ddef1_of E0 d) = ddef1_of E0 d.
  Proof.
    intros (_ & _ & Ha & _). unfold ddef1_of. cbn [strip_def option_map mk_name strip_name n_val]. rewrite !map_map.
    rewrite (map_ext_in _ (iv_of E0)); [reflexivity|]. intros a Hin. rewrite Forall_forall in Ha. apply strip_iv_of; auto.
  Qed.

  Lemma wf_ddef1_of fv d :
    plain_ddef o E0 d -> Forall (fun l => In l (map str_of_string directive_location_names)) (dd_locs d) ->
    wf_fulldef fv (ddef1_of E0 d).
  Proof.
    intros (_ & Hn & Ha & Hne & _) Hl. unfold ddef1_of. cbn [wf_fulldef wf_sdef member_desc_free mk_name n_val].
    repeat split.
    - exact Hn.
    - apply Forall_forall; intros x Hx. apply in_map_iff in Hx. destruct Hx as [a [<- Ha']].
      rewrite Forall_forall in Ha. apply (wf_iv_of a (Ha a Ha')).
    - destruct (dd_locs d); [congruence|discriminate].
    - apply Forall_forall; intros x Hx. apply in_map_iff in Hx. destruct Hx as [l [<- Hl']].
      rewrite Forall_forall in Hl. exact (Hl l Hl').
    - apply Forall_forall; intros x Hx. apply in_map_iff in Hx. destruct Hx as [a [<- _]]. reflexivity.
  Qed.

  Lemma strip_sdef_of sc : plain_roots o sc -> strip_def (sdef_of sc) = sdef_of sc.
  Proof.
    intros ([Hg _] & _). unfold sdef_of, ot_of. cbn [strip_def]. rewrite (good_dirs_strip _ Hg).
    destruct (s_query sc), (s_mutation sc), (s_subscription sc); reflexivity.
  Qed.

  Lemma wf_sdef_of fv sc : plain_roots o sc -> wf_fulldef fv (sdef_of sc).
  Proof.
    intros ([Hg _] & (q & Hq & Hvq) & Hm & Hs). unfold sdef_of. cbn [wf_fulldef wf_sdef member_desc_free].
    rewrite Hq. split; [split; [apply good_dirs_wf; exact Hg|split]|exact I].
    - cbn [ot_of app]. constructor.
      + eexists _, _. split; [reflexivity|exact Hvq].
      + apply Forall_app; split.
        * destruct (s_mutation sc) as [m|]; [|constructor]. repeat constructor.
          eexists _, _. split; [reflexivity|apply Hm; reflexivity].
        * destruct (s_subscription sc) as [m|]; [|constructor]. repeat constructor.
          eexists _, _. split; [reflexivity|apply Hs; reflexivity].
    - cbn [ot_of app]. discriminate.
  Qed.
End WfDoc.

(* directive locations are the names of the grammar (the parser accepts no
   others, so every schema built from SDL satisfies this) *)
Definition valid_locations (sc : schema) : Prop :=
  Forall (fun d => Forall (fun l => In l (map str_of_string directive_location_names)) (dd_locs d)) (s_ddefs sc).

Lemma strip_doc_of o sc : text_schema o sc -> strip_doc (doc_of sc) = doc_of sc.
Proof.
  intros (Ht & Hd & Hr & _). unfold strip_doc, doc_of. cbn [doc_defs]. f_equal. rewrite !map_app, !map_map. f_equal; [|f_equal].
  - destruct (schema_def_needed sc); [|reflexivity]. cbn [map]. rewrite (strip_sdef_of o sc Hr). reflexivity.
  - apply map_ext_in. intros d Hin. apply sort_by_in in Hin. rewrite Forall_forall in Hd. apply (strip_ddef1_of o); auto.
  - apply map_ext_in. intros t Hin. apply sort_by_in in Hin. rewrite Forall_forall in Ht. apply (strip_def1_of o); auto.
Qed.

Lemma wf_doc_of o fv sc : text_schema o sc -> valid_locations sc -> wf_doc fv (doc_of sc).
Proof.
  intros (Ht & Hd & Hr & Hne) Hl. split.
  - unfold doc_of. cbn [doc_defs]. intros He. apply app_eq_nil in He. destruct He as [_ He].
    apply app_eq_nil in He. destruct He as [_ He]. apply map_eq_nil in He.
    exact (sort_by_nonempty _ _ Hne He).
  - unfold doc_of. cbn [doc_defs]. apply Forall_app; split; [|apply Forall_app; split].
    + destruct (schema_def_needed sc); [|constructor]. constructor; [|constructor]. apply (wf_sdef_of o); exact Hr.
    + apply Forall_forall; intros x Hx. apply in_map_iff in Hx. destruct Hx as [d [<- Hd']].
      apply sort_by_in in Hd'. unfold valid_locations in Hl. rewrite Forall_forall in Hd, Hl.
      apply (wf_ddef1_of o); [apply Hd|apply Hl]; exact Hd'.
    + apply Forall_forall; intros x Hx. apply in_map_iff in Hx. destruct Hx as [t [<- Ht']].
      apply sort_by_in in Ht'. rewrite Forall_forall in Ht. apply (wf_def1_of o). apply Ht; exact Ht'.
Qed.

(* The text printed by the schema printer parses back to the declarative
   AST of the schema: composition of print_is_print_ast with the C03 SDL
   round trip.                                                           *)
Theorem text_parses_to_ast intro spec o fl sc text :
  text_schema o sc -> valid_locations sc -> po_introspection o = false ->
  no_location fl = true -> allow_type_system fl = true -> all_ws (po_indent o) ->
  print_schema intro spec o sc = Ok text ->
  parse_document fl text = Ok (doc_of sc) /\ ast_of_schema sc = Ok (doc_of sc).
Proof.
  intros Hp Hl Hi Hnl Hts Hws Hprint.
  rewrite (print_is_print_ast o intro spec sc Hp Hi) in Hprint. injection Hprint as <-.
  split; [|apply (ast_of_schema_plain o); exact Hp].
  rewrite (sdl_roundtrip fl (po_indent o) (doc_of sc) Hnl Hts Hws (wf_doc_of o _ sc Hp Hl)).
  rewrite (strip_doc_of o sc Hp). reflexivity.
Qed.
