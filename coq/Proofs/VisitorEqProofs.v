(* C18 -- the boolean equality of Lang/VisitorEq.v (what the correspondence
   oracle uses to compare the implementation's trace and tree with the model's)
   decides Leibniz equality: [node_eqb a b = true <-> a = b], and the same for
   events, traces and optional result nodes. *)
From Coq Require Import Setoid Bool List Arith.
From PyGql Require Import Spec.VisitorSpec Lang.VisitorEq.
Import ListNotations.

Notation reflects e := (forall a b, e a b = true <-> a = b).

Lemma leqb_forall {A} (e : A -> A -> bool) (a : list A) :
  Forall (fun x => forall y, e x y = true <-> x = y) a -> forall b, leqb e a b = true <-> a = b.
Proof.
  induction 1 as [|x a Hx _ IH]; intros [|y b]; simpl; try (split; [reflexivity|reflexivity]);
    try (split; discriminate).
  rewrite andb_true_iff, Hx, IH. split; [intros [-> ->]; reflexivity|intros E; inversion E; auto].
Qed.

Lemma leqb_eq {A} (e : A -> A -> bool) : reflects e -> reflects (leqb e).
Proof.
  intros He a. apply leqb_forall. apply Forall_forall. intros x _ y. apply He.
Qed.

Lemma oeqb_eq {A} (e : A -> A -> bool) : reflects e -> reflects (oeqb e).
Proof.
  intros He [x|] [y|]; simpl; try (split; [reflexivity|reflexivity]); try (split; discriminate).
  rewrite He. split; [intros ->; reflexivity|intros E; inversion E; reflexivity].
Qed.

Lemma bool_eqb_eq : reflects Bool.eqb.
Proof. intros a b. apply eqb_true_iff. Qed.

Lemma loc_eqb_eq : reflects loc_eqb.
Proof.
  unfold loc_eqb. apply oeqb_eq. intros [a1 a2] [b1 b2]. simpl.
  rewrite andb_true_iff, !Nat.eqb_eq. split; [intros [-> ->]; reflexivity|intros E; inversion E; auto].
Qed.

Lemma oloc_eqb_eq : reflects (oeqb loc_eqb).
Proof. apply oeqb_eq, loc_eqb_eq. Qed.

Lemma name_eqb_eq : reflects name_eqb.
Proof.
  intros [s l] [s' l']. unfold name_eqb. simpl. rewrite andb_true_iff, str_eqb_eq, loc_eqb_eq.
  split; [intros [-> ->]; reflexivity|intros E; inversion E; auto].
Qed.

Ltac fin := split; [intros; repeat match goal with H : _ /\ _ |- _ => destruct H end; subst; reflexivity
                   |intros E; inversion E; subst; repeat split; reflexivity].

Lemma ty_eqb_eq : reflects ty_eqb.
Proof.
  intros a. induction a as [n l|t IH l|t IH l]; intros [n' l'|t' l'|t' l']; simpl;
    try (split; discriminate); rewrite ?andb_true_iff, ?name_eqb_eq, ?loc_eqb_eq, ?IH; fin.
Qed.

(* strong induction on values (nested through lists) *)
Section ValInd.
  Variable P : value -> Prop.
  Hypothesis Hvar : forall n l, P (VVar n l).
  Hypothesis Hint : forall s l, P (VInt s l).
  Hypothesis Hfloat : forall s l, P (VFloat s l).
  Hypothesis Hstr : forall s b l, P (VString s b l).
  Hypothesis Hbool : forall b l, P (VBool b l).
  Hypothesis Hnull : forall l, P (VNull l).
  Hypothesis Henum : forall s l, P (VEnum s l).
  Hypothesis Hlist : forall vs l, Forall P vs -> P (VList vs l).
  Hypothesis Hobj : forall fs l, Forall (fun f : name * value * loc => P (snd (fst f))) fs -> P (VObject fs l).
  Fixpoint value_sind (v : value) : P v :=
    match v with
    | VVar n l => Hvar n l
    | VInt s l => Hint s l
    | VFloat s l => Hfloat s l
    | VString s b l => Hstr s b l
    | VBool b l => Hbool b l
    | VNull l => Hnull l
    | VEnum s l => Henum s l
    | VList vs l =>
        Hlist vs l ((fix go (xs : list value) : Forall P xs :=
                       match xs with
                       | [] => Forall_nil P
                       | x :: xs' => Forall_cons x (value_sind x) (go xs')
                       end) vs)
    | VObject fs l =>
        Hobj fs l ((fix go (xs : list (name * value * loc))
                      : Forall (fun f : name * value * loc => P (snd (fst f))) xs :=
                      match xs with
                      | [] => Forall_nil _
                      | (n, x, fl) :: xs' => Forall_cons (n, x, fl) (value_sind x) (go xs')
                      end) fs)
    end.
End ValInd.

Lemma value_eqb_eq : reflects value_eqb.
Proof.
  intros a. induction a as [n l|s l|s l|s bl l|x l|l|s l|vs l IH|fs l IH] using value_sind;
    intros [n' l'|s' l'|s' l'|s' bl' l'|x' l'|l'|s' l'|vs' l'|fs' l']; cbn [value_eqb];
    try (split; discriminate);
    rewrite ?andb_true_iff, ?name_eqb_eq, ?loc_eqb_eq, ?str_eqb_eq, ?bool_eqb_eq; try fin.
  - assert (Hgo : forall y, (fix go (x y : list value) : bool :=
                     match x, y with
                     | [], [] => true
                     | v :: x', w :: y' => value_eqb v w && go x' y'
                     | _, _ => false
                     end) vs y = true <-> vs = y).
    { induction IH as [|v vs Hv _ IHl]; intros [|w y]; try (split; [reflexivity|reflexivity]);
        try (split; discriminate).
      rewrite andb_true_iff, Hv, IHl. fin. }
    rewrite Hgo. fin.
  - assert (Hgo : forall y, (fix go (x y : list (name * value * loc)) : bool :=
                     match x, y with
                     | [], [] => true
                     | (n, v, fl) :: x', (n', w, fl') :: y' =>
                         name_eqb n n' && value_eqb v w && loc_eqb fl fl' && go x' y'
                     | _, _ => false
                     end) fs y = true <-> fs = y).
    { induction IH as [|[[n v] fl] fs Hv _ IHl]; intros [|[[n' w] fl'] y];
        try (split; [reflexivity|reflexivity]); try (split; discriminate).
      simpl in Hv. rewrite !andb_true_iff, Hv, IHl, name_eqb_eq, loc_eqb_eq. fin. }
    rewrite Hgo. fin.
Qed.

Lemma objfield_eqb_eq : reflects objfield_eqb.
Proof.
  intros [[n v] l] [[n' v'] l']. unfold objfield_eqb. simpl.
  rewrite !andb_true_iff, name_eqb_eq, value_eqb_eq, loc_eqb_eq. fin.
Qed.

Lemma arg_eqb_eq : reflects arg_eqb.
Proof.
  intros [n v l] [n' v' l']. unfold arg_eqb. simpl.
  rewrite !andb_true_iff, name_eqb_eq, value_eqb_eq, loc_eqb_eq. fin.
Qed.

Lemma args_eqb_eq : reflects (leqb arg_eqb).
Proof. apply leqb_eq, arg_eqb_eq. Qed.

Lemma dir_eqb_eq : reflects dir_eqb.
Proof.
  intros [n a l] [n' a' l']. unfold dir_eqb. simpl.
  rewrite !andb_true_iff, name_eqb_eq, args_eqb_eq, loc_eqb_eq. fin.
Qed.

Lemma dirs_eqb_eq : reflects dirs_eqb.
Proof. apply leqb_eq, dir_eqb_eq. Qed.

Lemma oname_eqb_eq : reflects (oeqb name_eqb).
Proof. apply oeqb_eq, name_eqb_eq. Qed.
Lemma oty_eqb_eq : reflects (oeqb ty_eqb).
Proof. apply oeqb_eq, ty_eqb_eq. Qed.
Lemma ovalue_eqb_eq : reflects (oeqb value_eqb).
Proof. apply oeqb_eq, value_eqb_eq. Qed.

Lemma sel_go_eq (sub : list selection) :
  Forall (fun x => forall y, sel_eqb x y = true <-> x = y) sub ->
  forall y, (fix go (x y : list selection) : bool :=
               match x, y with
               | [], [] => true
               | s :: x', t :: y' => sel_eqb s t && go x' y'
               | _, _ => false
               end) sub y = true <-> sub = y.
Proof.
  induction 1 as [|v vs Hv _ IHl]; intros [|w y]; try (split; [reflexivity|reflexivity]);
    try (split; discriminate).
  rewrite andb_true_iff, Hv, IHl. fin.
Qed.

Lemma sel_eqb_eq : reflects sel_eqb.
Proof.
  intros a. induction a as [al n args ds sl sub l IH|n ds l|tc ds ssl sub l IH] using selection_ind';
    intros [al' n' args' ds' sl' sub' l'|n' ds' l'|tc' ds' ssl' sub' l']; cbn [sel_eqb];
    try (split; discriminate).
  - rewrite !andb_true_iff, (sel_go_eq sub IH), oname_eqb_eq, name_eqb_eq, args_eqb_eq, dirs_eqb_eq,
      oloc_eqb_eq, loc_eqb_eq. fin.
  - rewrite !andb_true_iff, name_eqb_eq, dirs_eqb_eq, loc_eqb_eq. fin.
  - rewrite !andb_true_iff, (sel_go_eq sub IH), oty_eqb_eq, dirs_eqb_eq, !loc_eqb_eq. fin.
Qed.

Lemma sels_eqb_eq : reflects (leqb sel_eqb).
Proof. apply leqb_eq, sel_eqb_eq. Qed.

Lemma selset_eqb_eq : reflects selset_eqb.
Proof.
  intros [l s] [l' s']. unfold selset_eqb. simpl. rewrite andb_true_iff, loc_eqb_eq, sels_eqb_eq. fin.
Qed.

Lemma vardef_eqb_eq : reflects vardef_eqb.
Proof.
  intros [v vl t d ds l] [v' vl' t' d' ds' l']. unfold vardef_eqb. simpl.
  rewrite !andb_true_iff, name_eqb_eq, !loc_eqb_eq, ty_eqb_eq, ovalue_eqb_eq, dirs_eqb_eq. fin.
Qed.

Lemma strval_eqb_eq : reflects strval_eqb.
Proof.
  intros [v b l] [v' b' l']. unfold strval_eqb. simpl.
  rewrite !andb_true_iff, str_eqb_eq, bool_eqb_eq, loc_eqb_eq. fin.
Qed.

Lemma desc_eqb_eq : reflects (oeqb strval_eqb).
Proof. apply oeqb_eq, strval_eqb_eq. Qed.

Lemma ivdef_eqb_eq : reflects ivdef_eqb.
Proof.
  intros [d n t dv ds l] [d' n' t' dv' ds' l']. unfold ivdef_eqb. simpl.
  rewrite !andb_true_iff, desc_eqb_eq, name_eqb_eq, ty_eqb_eq, ovalue_eqb_eq, dirs_eqb_eq, loc_eqb_eq. fin.
Qed.

Lemma ivdefs_eqb_eq : reflects (leqb ivdef_eqb).
Proof. apply leqb_eq, ivdef_eqb_eq. Qed.

Lemma fdef_eqb_eq : reflects fdef_eqb.
Proof.
  intros [d n a t ds l] [d' n' a' t' ds' l']. unfold fdef_eqb. simpl.
  rewrite !andb_true_iff, desc_eqb_eq, name_eqb_eq, ivdefs_eqb_eq, ty_eqb_eq, dirs_eqb_eq, loc_eqb_eq. fin.
Qed.

Lemma evdef_eqb_eq : reflects evdef_eqb.
Proof.
  intros [d n ds l] [d' n' ds' l']. unfold evdef_eqb. simpl.
  rewrite !andb_true_iff, desc_eqb_eq, name_eqb_eq, dirs_eqb_eq, loc_eqb_eq. fin.
Qed.

Lemma opk_eqb_eq : reflects opk_eqb.
Proof. intros [] []; simpl; split; try discriminate; reflexivity. Qed.

Lemma otdef_eqb_eq : reflects otdef_eqb.
Proof.
  intros [k t l] [k' t' l']. unfold otdef_eqb. simpl.
  rewrite !andb_true_iff, opk_eqb_eq, ty_eqb_eq, loc_eqb_eq. fin.
Qed.

Lemma vardefs_eqb_eq : reflects (leqb vardef_eqb).
Proof. apply leqb_eq, vardef_eqb_eq. Qed.
Lemma otdefs_eqb_eq : reflects (leqb otdef_eqb).
Proof. apply leqb_eq, otdef_eqb_eq. Qed.
Lemma tys_eqb_eq : reflects (leqb ty_eqb).
Proof. apply leqb_eq, ty_eqb_eq. Qed.
Lemma fdefs_eqb_eq : reflects (leqb fdef_eqb).
Proof. apply leqb_eq, fdef_eqb_eq. Qed.
Lemma evdefs_eqb_eq : reflects (leqb evdef_eqb).
Proof. apply leqb_eq, evdef_eqb_eq. Qed.
Lemma names_eqb_eq : reflects (leqb name_eqb).
Proof. apply leqb_eq, name_eqb_eq. Qed.

Lemma def_eqb_eq : reflects def_eqb.
Proof.
  intros a b. destruct a, b; cbn [def_eqb]; try (split; discriminate);
    rewrite !andb_true_iff, ?opk_eqb_eq, ?oname_eqb_eq, ?vardefs_eqb_eq, ?dirs_eqb_eq, ?loc_eqb_eq,
      ?sels_eqb_eq, ?name_eqb_eq, ?ty_eqb_eq, ?bool_eqb_eq, ?otdefs_eqb_eq, ?desc_eqb_eq, ?tys_eqb_eq,
      ?fdefs_eqb_eq, ?evdefs_eqb_eq, ?ivdefs_eqb_eq, ?names_eqb_eq; fin.
Qed.

Lemma defs_eqb_eq : reflects (leqb def_eqb).
Proof. apply leqb_eq, def_eqb_eq. Qed.

Lemma doc_eqb_eq : reflects doc_eqb.
Proof.
  intros [ds l] [ds' l']. unfold doc_eqb. simpl. rewrite andb_true_iff, defs_eqb_eq, loc_eqb_eq. fin.
Qed.

(* the equality the oracle uses on nodes is Leibniz equality *)
Theorem node_eqb_eq : reflects node_eqb.
Proof.
  intros a b. destruct a, b; cbn [node_eqb]; try (split; discriminate);
    rewrite ?doc_eqb_eq, ?def_eqb_eq, ?vardef_eqb_eq, ?selset_eqb_eq, ?sel_eqb_eq, ?arg_eqb_eq, ?dir_eqb_eq,
      ?value_eqb_eq, ?objfield_eqb_eq, ?ty_eqb_eq, ?otdef_eqb_eq, ?fdef_eqb_eq, ?ivdef_eqb_eq,
      ?evdef_eqb_eq, ?strval_eqb_eq, ?name_eqb_eq; fin.
Qed.

Lemma kind_eqb_eq : reflects kind_eqb.
Proof. intros a b. unfold kind_eqb. destruct (kind_eq_dec a b); split; congruence. Qed.

Theorem event_eqb_eq : reflects event_eqb.
Proof.
  intros [[[i e] k] l] [[[i' e'] k'] l']. unfold event_eqb.
  rewrite !andb_true_iff, Nat.eqb_eq, bool_eqb_eq, kind_eqb_eq, loc_eqb_eq. fin.
Qed.

Theorem trace_eqb_eq : reflects (leqb event_eqb).
Proof. apply leqb_eq, event_eqb_eq. Qed.

Theorem result_eqb_eq : reflects (oeqb node_eqb).
Proof. apply oeqb_eq, node_eqb_eq. Qed.

(* ---- the oracle of the correspondence harness (Run/C18run.v) ---- *)
From PyGql Require Import Run.C18run.

Lemma ostr_eqb_eq : reflects (oeqb str_eqb).
Proof. apply oeqb_eq. intros a b. apply str_eqb_eq. Qed.

Lemma visit_eqb_eq : reflects visit_eqb.
Proof.
  intros [t r] [t' r']. unfold visit_eqb. simpl. rewrite andb_true_iff, trace_eqb_eq, result_eqb_eq. fin.
Qed.

Lemma hist_eqb_eq : reflects (leqb visit_eqb).
Proof. apply leqb_eq, visit_eqb_eq. Qed.

(* OCrash / OIllFormed are matched by agree_C18 itself, never by obs_eqb *)
Theorem obs_eqb_sound a b : obs_eqb a b = true -> a = b.
Proof.
  destruct a, b; cbn [obs_eqb]; try discriminate;
    rewrite ?andb_true_iff, ?trace_eqb_eq, ?result_eqb_eq, ?bool_eqb_eq, ?ostr_eqb_eq, ?hist_eqb_eq;
    intros; repeat match goal with H : _ /\ _ |- _ => destruct H end; subst; reflexivity.
Qed.

Theorem obs_eqb_refl a : a <> OCrash -> a <> OIllFormed -> obs_eqb a a = true.
Proof.
  destruct a; cbn [obs_eqb]; try congruence; intros _ _;
    rewrite ?andb_true_iff, ?trace_eqb_eq, ?result_eqb_eq, ?bool_eqb_eq, ?ostr_eqb_eq, ?hist_eqb_eq; repeat split; reflexivity.
Qed.

(* a case the oracle accepts is one where the recorded observation IS the
   model's (not merely similar to it) *)
Theorem agree_C18_sound i o' : agree_C18 (i, o') = true ->
  match model_C18 i with
  | Ok o => o = o'
  | Crash 3 => o' = OCrash
  | Crash 2 => o' = OIllFormed
  | _ => False
  end.
Proof.
  unfold agree_C18. cbn [fst snd]. destruct (model_C18 i) as [o| |r|c]; try discriminate.
  - apply obs_eqb_sound.
  - repeat (destruct c as [|c]; try discriminate); destruct o'; try discriminate; reflexivity.
Qed.
