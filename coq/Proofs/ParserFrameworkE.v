(* Proofs/ParserFramework.v with the admissible rejections abstracted: [T k p]
   is any predicate that holds of the lexical errors in the stream and of
   UnexpectedToken / UnexpectedEOF at positions inside the text.  Used to show
   where a rejection comes from (Proofs/ErrorOrigin.v).
   Invariant framework for the parser model: a parser run on a well-formed
   token stream either returns (consuming a suffix-closed part of the stream),
   or is rejected at an admissible position; it never crashes and never runs
   out of fuel when the fuel exceeds the number of remaining tokens.
   [phi] is an arbitrary predicate that every computed [loc] satisfies. *)
From PyGql Require Import Lang.Parser Proofs.LexTotal.

Section Framework.
Variable N : nat.      (* length of the source text *)
Variable T : nat -> nat -> Prop.     (* admissible (class, position) of a rejection *)
Hypothesis HE : forall k p, p <= N -> k = E_UnexpectedToken \/ k = E_UnexpectedEOF -> T k p.
Variable fl : flags.
Variable phi : loc -> Prop.

Definition tok_ok (t : ptok) : Prop := tstart t <= tend t /\ tend t <= N.

Definition lx_ok (x : lx) : Prop :=
  match x with
  | LT t => tok_ok t
  | LE k p => T k p
  | LF => False
  end.

(* a stream only ends after an EOF token (or with a lexer error) *)
Fixpoint wf_stream (l : list lx) : Prop :=
  match l with
  | [] => True
  | x :: r => match x, r with LT t, [] => tk t = KEOF | _, _ => True end /\ wf_stream r
  end.

Definition st_ok (st : pst) : Prop :=
  Forall lx_ok (toks st) /\ wf_stream (toks st) /\ last_end st <= N.

Hypothesis Hphi : forall t e, tok_ok t -> e <= N ->
  phi (if no_location fl then None else Some (tstart t, e)).

Definition pgoodP {A} (Pre : pst -> Prop) (Q : A -> Prop) (strict : bool) (m : nat)
           (p : parser A) : Prop :=
  forall st, st_ok st -> Pre st -> length (toks st) <= m ->
    match p st with
    | Ok (a, st') =>
        st_ok st' /\ Q a /\
        (if strict then length (toks st') < length (toks st)
         else length (toks st') <= length (toks st))
    | Rejected k pos => T k pos
    | _ => False
    end.

Definition ptrue : pst -> Prop := fun _ => True.
Definition hd_is (t : ptok) : pst -> Prop := fun st => exists r, toks st = LT t :: r.
Definition hd_not_eof : pst -> Prop :=
  fun st => match toks st with LT t :: _ => tk t <> KEOF | _ => True end.

(* ---- structural rules ---- *)
Lemma pg_weaken {A} Pre (Q : A -> Prop) m p : pgoodP Pre Q true m p -> pgoodP Pre Q false m p.
Proof.
  intros H st Hs Hp Hm. specialize (H st Hs Hp Hm). destruct (p st) as [[a st']| | |]; auto.
  destruct H as (? & ? & Hl). simpl in Hl |- *. split; [assumption|split; [assumption|lia]].
Qed.

Lemma pg_any_strict {A} Pre (Q : A -> Prop) s m p : pgoodP Pre Q true m p -> pgoodP Pre Q s m p.
Proof. destruct s; [auto|apply pg_weaken]. Qed.

Lemma pg_mono {A} Pre (Q : A -> Prop) s m m' p : m' <= m -> pgoodP Pre Q s m p -> pgoodP Pre Q s m' p.
Proof. intros Hle H st Hs Hp Hm. apply H; auto. lia. Qed.

Lemma pg_pre {A} (Pre Pre' : pst -> Prop) (Q : A -> Prop) s m p :
  (forall st, Pre' st -> Pre st) -> pgoodP Pre Q s m p -> pgoodP Pre' Q s m p.
Proof. intros Hi H st Hs Hp Hm. apply H; auto. Qed.

Lemma pg_true {A} Pre (Q : A -> Prop) s m p : pgoodP ptrue Q s m p -> pgoodP Pre Q s m p.
Proof. apply pg_pre. intros; exact I. Qed.

Lemma pg_conseq {A} Pre (Q Q' : A -> Prop) s m p :
  (forall a, Q a -> Q' a) -> pgoodP Pre Q s m p -> pgoodP Pre Q' s m p.
Proof.
  intros Hi H st Hs Hp Hm. specialize (H st Hs Hp Hm). destruct (p st) as [[a st']| | |]; auto.
  destruct H as (? & ? & ?). auto.
Qed.

Lemma pg_ret {A} Pre (Q : A -> Prop) m a : Q a -> pgoodP Pre Q false m (pret a).
Proof. intros Hq st Hs _ _. simpl. split; [assumption|split; [assumption|lia]]. Qed.

Lemma pg_err {A} Pre (Q : A -> Prop) s m k pos :
  pos <= N -> k = E_UnexpectedToken \/ k = E_UnexpectedEOF -> pgoodP Pre Q s m (@perr A k pos).
Proof. intros H Hk st _ _ _. simpl. apply HE; assumption. Qed.

Lemma pg_bind {A B} Pre (Q1 : A -> Prop) (Q2 : B -> Prop) s1 s2 m p f :
  pgoodP Pre Q1 s1 m p ->
  (forall a m', Q1 a -> (if s1 then m' < m else m' <= m) -> pgoodP ptrue Q2 s2 m' (f a)) ->
  pgoodP Pre Q2 (s1 || s2) m (pbind p f).
Proof.
  intros Hp Hf st Hs Hpre Hm. unfold pbind. specialize (Hp st Hs Hpre Hm).
  destruct (p st) as [[a st']| | |]; auto.
  destruct Hp as (Hs' & Hq & Hl).
  assert (Hm' : if s1 then length (toks st') < m else length (toks st') <= m)
    by (destruct s1; lia).
  specialize (Hf a (length (toks st')) Hq Hm' st' Hs' I (le_n _)).
  destruct (f a st') as [[b st'']| | |]; auto.
  destruct Hf as (? & ? & Hl2). split; [assumption|split; [assumption|]].
  destruct s1, s2; simpl in *; lia.
Qed.

(* strict first component: the rest may be anything *)
Lemma pg_bind_s {A B} Pre (Q1 : A -> Prop) (Q2 : B -> Prop) s m p f :
  pgoodP Pre Q1 true m p ->
  (forall a m', Q1 a -> m' < m -> pgoodP ptrue Q2 false m' (f a)) ->
  pgoodP Pre Q2 s m (pbind p f).
Proof.
  intros Hp Hf. apply pg_any_strict. change true with (true || false). eapply pg_bind; eauto.
Qed.

(* non-strict first component: strictness comes from the rest *)
Lemma pg_bind_n {A B} Pre (Q1 : A -> Prop) (Q2 : B -> Prop) s m p f :
  pgoodP Pre Q1 false m p ->
  (forall a m', Q1 a -> m' <= m -> pgoodP ptrue Q2 s m' (f a)) ->
  pgoodP Pre Q2 s m (pbind p f).
Proof. intros Hp Hf. change s with (false || s). eapply pg_bind; eauto. Qed.

(* ---- window primitives ---- *)
Lemma st_ok_tail t r e : st_ok (PSt (LT t :: r) e) -> st_ok (PSt r (tend t)) /\ tok_ok t.
Proof.
  intros (Hf & Hw & _). inversion Hf; subst. simpl in *. destruct Hw as [_ Hw].
  split; [|assumption]. split; [assumption|split; [assumption|]]. destruct H1; assumption.
Qed.

Lemma pg_peek m : pgoodP ptrue tok_ok false m peek.
Proof.
  intros st Hs _ _. unfold peek. destruct st as [ts e]. simpl.
  destruct ts as [|[t|k p|] r]; simpl.
  - apply HE; [destruct Hs as (_ & _ & H); exact H|right; reflexivity].
  - split; [assumption|split; [|lia]]. destruct Hs as (Hf & _). inversion Hf; subst. assumption.
  - destruct Hs as (Hf & _). inversion Hf; subst. assumption.
  - destruct Hs as (Hf & _). inversion Hf; subst. assumption.
Qed.

(* peek, with the continuation knowing that the token is still in front *)
Lemma pg_peek_then {A} (Q : A -> Prop) s m (F : ptok -> parser A) :
  (forall t, tok_ok t -> pgoodP (hd_is t) Q s m (F t)) ->
  pgoodP ptrue Q s m (pbind peek F).
Proof.
  intros HF st Hs _ Hm. unfold pbind, peek. destruct st as [ts e]. simpl.
  destruct ts as [|[t|k p|] r]; simpl.
  - apply HE; [destruct Hs as (_ & _ & H); exact H|right; reflexivity].
  - assert (Ht : tok_ok t) by (destruct Hs as (Hf & _); inversion Hf; subst; assumption).
    apply (HF t Ht (PSt (LT t :: r) e) Hs); [exists r; reflexivity|exact Hm].
  - destruct Hs as (Hf & _). inversion Hf; subst. assumption.
  - destruct Hs as (Hf & _). inversion Hf; subst. assumption.
Qed.

Lemma pg_peek2 m : pgoodP hd_not_eof tok_ok false m peek2.
Proof.
  intros st Hs Hpre _. unfold peek2. destruct st as [ts e]. unfold hd_not_eof in Hpre. simpl in *.
  destruct Hs as (Hf & Hw & He).
  destruct ts as [|[t|k p|] r]; simpl.
  - apply HE; [exact He|right; reflexivity].
  - inversion Hf as [|? ? Ht Hf']; subst.
    destruct r as [|[t2|k p|] r'].
    + simpl in Hw. destruct Hw as [Hw _]. contradiction.
    + inversion Hf'; subst. split; [|split; [assumption|simpl; lia]].
      split; [assumption|split; [assumption|exact He]].
    + inversion Hf'; subst. assumption.
    + inversion Hf'; subst. assumption.
  - inversion Hf; subst. assumption.
  - inversion Hf; subst. assumption.
Qed.

Lemma pg_advance m : pgoodP ptrue tok_ok true m advance.
Proof.
  intros st Hs _ _. unfold advance. destruct st as [ts e]. simpl.
  destruct ts as [|[t|k p|] r]; simpl.
  - apply HE; [destruct Hs as (_ & _ & H); exact H|right; reflexivity].
  - destruct (st_ok_tail _ _ _ Hs) as [Hs' Ht]. split; [assumption|split; [assumption|lia]].
  - destruct Hs as (Hf & _). inversion Hf; subst. assumption.
  - destruct Hs as (Hf & _). inversion Hf; subst. assumption.
Qed.

Lemma tok_ok_start t : tok_ok t -> tstart t <= N.
Proof. intros [? ?]; lia. Qed.

Lemma pg_unexpected {A} Pre (Q : A -> Prop) s m t pos :
  pos <= N -> pgoodP Pre Q s m (@unexpected A t pos).
Proof. intros H. unfold unexpected. destruct (is_kind KEOF t); apply pg_err; first [assumption|right; reflexivity|left; reflexivity]. Qed.

Lemma pg_expect k m : pgoodP ptrue tok_ok true m (expect k).
Proof.
  unfold expect. eapply pg_bind_n; [apply pg_peek|]. intros t m' Ht Hm.
  destruct (is_kind k t); [apply pg_mono with m; [lia|apply pg_advance]|].
  apply pg_err; [apply tok_ok_start; assumption|left; reflexivity].
Qed.

Lemma pg_expect_keyword w m : pgoodP ptrue tok_ok true m (expect_keyword w).
Proof.
  unfold expect_keyword. eapply pg_bind_n; [apply pg_peek|]. intros t m' Ht Hm.
  destruct (is_kind KName t && is_kw w (tval t)); [apply pg_mono with m; [lia|apply pg_advance]|].
  apply pg_err; [apply tok_ok_start; assumption|left; reflexivity].
Qed.

Lemma pg_skip k m : pgoodP ptrue (fun _ : bool => True) false m (skip k).
Proof.
  unfold skip. eapply pg_bind_n; [apply pg_peek|]. intros t m' Ht Hm.
  destruct (is_kind k t); [|apply pg_ret; exact I].
  apply pg_weaken. eapply pg_bind_s; [apply pg_advance|]. intros. apply pg_ret; exact I.
Qed.

(* skip, with the continuation knowing that a token went away when it answers true *)
Lemma pg_skip_then {B} (Q : B -> Prop) s m k (F : bool -> parser B) :
  (forall m', m' < m -> pgoodP ptrue Q false m' (F true)) ->
  pgoodP ptrue Q s m (F false) ->
  pgoodP ptrue Q s m (pbind (skip k) F).
Proof.
  intros Ht Hfalse st Hs _ Hm. unfold pbind at 1. unfold skip, pbind, peek, advance.
  destruct st as [ts e]. simpl in *.
  destruct ts as [|[t|k' p|] r]; simpl.
  - apply HE; [destruct Hs as (_ & _ & H); exact H|right; reflexivity].
  - destruct (is_kind k t); simpl.
    + destruct (st_ok_tail _ _ _ Hs) as [Hs' _]. simpl in Hm.
      specialize (Ht (length r) ltac:(lia) (PSt r (tend t)) Hs' I (le_n _)).
      destruct (F true (PSt r (tend t))) as [[b st'']| | |]; auto.
      destruct Ht as (? & ? & Hl). simpl in Hl. split; [assumption|split; [assumption|]].
      destruct s; simpl; lia.
    + apply (Hfalse (PSt (LT t :: r) e) Hs I Hm).
  - destruct Hs as (Hf & _). inversion Hf; subst. assumption.
  - destruct Hs as (Hf & _). inversion Hf; subst. assumption.
Qed.

Lemma pg_get_loc start m : tok_ok start -> pgoodP ptrue phi false m (get_loc fl start).
Proof.
  intros Ht st Hs _ _. unfold get_loc. split; [assumption|split; [|lia]].
  apply Hphi; [assumption|]. destruct Hs as (_ & _ & H); exact H.
Qed.

(* ---- loops ---- *)
Lemma pg_many_loop {A} (Q : A -> Prop) p close : forall n m, m < n ->
  (forall m', m' <= m -> pgoodP ptrue Q true m' p) ->
  pgoodP ptrue (Forall Q) true m (many_loop n p close).
Proof.
  induction n as [|n IH]; intros m Hm Hp; [lia|]. simpl.
  eapply pg_bind_s; [apply Hp; lia|]. intros x m1 Hx Hm1.
  eapply pg_bind_n; [apply pg_skip|]. intros b m2 _ Hm2.
  destruct b; [apply pg_ret; constructor; auto|].
  apply pg_weaken. eapply pg_bind_s; [apply IH; [lia|intros; apply Hp; lia]|].
  intros xs m3 Hxs _. apply pg_ret. constructor; assumption.
Qed.

Lemma pg_many {A} (Q : A -> Prop) n open p close m : m <= n ->
  (forall m', m' < m -> pgoodP ptrue Q true m' p) ->
  pgoodP ptrue (Forall Q) true m (many n open p close).
Proof.
  intros Hm Hp. unfold many. eapply pg_bind_s; [apply pg_expect|]. intros _ m' _ Hm'.
  apply pg_weaken. apply pg_many_loop; [lia|intros; apply Hp; lia].
Qed.

Lemma pg_any_loop {A} (Q : A -> Prop) p close : forall n m, m < n ->
  (forall m', m' <= m -> pgoodP ptrue Q true m' p) ->
  pgoodP ptrue (Forall Q) false m (any_loop n p close).
Proof.
  induction n as [|n IH]; intros m Hm Hp; [lia|]. simpl.
  eapply pg_bind_n; [apply pg_skip|]. intros b m1 _ Hm1.
  destruct b; [apply pg_ret; constructor|].
  apply pg_weaken. eapply pg_bind_s; [apply Hp; lia|]. intros x m2 Hx Hm2.
  eapply pg_bind_n; [apply IH; [lia|intros; apply Hp; lia]|].
  intros xs m3 Hxs _. apply pg_ret. constructor; assumption.
Qed.

Lemma pg_any {A} (Q : A -> Prop) n open p close m : m <= n ->
  (forall m', m' < m -> pgoodP ptrue Q true m' p) ->
  pgoodP ptrue (Forall Q) true m (any_ n open p close).
Proof.
  intros Hm Hp. unfold any_. eapply pg_bind_s; [apply pg_expect|]. intros _ m' _ Hm'.
  apply pg_any_loop; [lia|intros; apply Hp; lia].
Qed.

Lemma pg_delimited_loop {A} (Q : A -> Prop) delim p : forall n m, m < n ->
  (forall m', m' <= m -> pgoodP ptrue Q true m' p) ->
  pgoodP ptrue (Forall Q) true m (delimited_loop n delim p).
Proof.
  induction n as [|n IH]; intros m Hm Hp; [lia|]. simpl.
  eapply pg_bind_s; [apply Hp; lia|]. intros x m1 Hx Hm1.
  eapply pg_bind_n; [apply pg_skip|]. intros b m2 _ Hm2.
  destruct b; [|apply pg_ret; constructor; auto].
  apply pg_weaken. eapply pg_bind_s; [apply IH; [lia|intros; apply Hp; lia]|].
  intros xs m3 Hxs _. apply pg_ret. constructor; assumption.
Qed.

Lemma pg_delimited_list {A} (Q : A -> Prop) n delim p m : m < n ->
  (forall m', m' <= m -> pgoodP ptrue Q true m' p) ->
  pgoodP ptrue (Forall Q) true m (delimited_list n delim p).
Proof.
  intros Hm Hp. unfold delimited_list. eapply pg_bind_n; [apply pg_skip|]. intros _ m' _ Hm'.
  apply pg_delimited_loop; [lia|intros; apply Hp; lia].
Qed.

Lemma pg_while_kind {A} (Q : A -> Prop) k p : forall n m, m < n ->
  (forall m', m' <= m -> pgoodP ptrue Q true m' p) ->
  pgoodP ptrue (Forall Q) false m (while_kind n k p).
Proof.
  induction n as [|n IH]; intros m Hm Hp; [lia|]. simpl.
  eapply pg_bind_n; [apply pg_peek|]. intros t m1 _ Hm1.
  destruct (is_kind k t); [|apply pg_ret; constructor].
  apply pg_weaken. eapply pg_bind_s; [apply Hp; lia|]. intros x m2 Hx Hm2.
  eapply pg_bind_n; [apply IH; [lia|intros; apply Hp; lia]|].
  intros xs m3 Hxs _. apply pg_ret. constructor; assumption.
Qed.

End Framework.
