(* C14 -- proofs about the store model, part 13: transform_schema (clone, then
   a visitor) -- every element of the result descends from a source element
   with the same attributes, in the same relative order. *)
From PyGql Require Import Spec.StoreExtSpec Proofs.StoreProofs Proofs.StoreHeal Proofs.StoreLoop
     Proofs.StoreFrame Proofs.StoreClone Proofs.StoreOps Proofs.StoreTerm Proofs.StoreVis Proofs.StoreVisM
     Proofs.StoreCloneP Proofs.StoreDesc.
Local Open Scope N_scope.

(* clone_preserved without the resolvability clause (used by the completeness
   proofs only) *)
Theorem clone_preserved_core fuel m s m' s' :
  fresh_ok m -> builtins_ok m -> closed m s -> wf_schema m s -> wf_builtins s ->
  clone fuel m s = Ok (m', s') ->
  (fresh_ok m' /\ wf_reg m' (s_types s') /\
   forall n o, In (n, o) (s_types s') -> is_builtin o = false -> exists t, In (n, t) (s_types s) /\ is_builtin t = false) /\
  (forall n t, In (n, t) (s_types s) -> is_builtin t = false ->
    exists t', alookup n (s_types s') = Some t' /\ type_cloned m' n t t' /\ type_linked (s_types s') m' t t' /\
      forall k d ms ifs r ds, mget m t = Some (OType n k d ms ifs r ds) -> IK (s_types s') m' t' ifs) /\
  (forall n d, In (n, d) (s_dirs s) ->
    exists d', alookup n (s_dirs s') = Some d' /\ dir_cloned (s_types s') m' d d') /\
  ((exists n o, In (n, o) (s_types s) /\ is_builtin o = false) ->
   closed m' s' /\
   (forall s0, build fuel m (s_query s) (s_mut s) (s_sub s) (map snd (s_dirs s)) (map snd (s_types s)) = Ok s0 ->
      map fst (s_types s') = map fst (s_types s0)) /\
   map fst (s_dirs s') = map fst (s_dirs s) /\
   s_query s' = reroot m (s_types s') (s_query s) /\ s_mut s' = reroot m (s_types s') (s_mut s) /\
   s_sub s' = reroot m (s_types s') (s_sub s) /\
   s_impls s' = fold_left (impls_of_type m') (s_types s') [] /\ s_poss s' = []).
Proof.
  intros Hf Hb Hcl Hwf Hbi H.
  destruct (clone_preserved _ _ _ _ _ Hf Hb Hcl Hwf Hbi H) as ((A & B & C & _) & D & E & F).
  split; [split; [exact A|split; [exact B|exact C]]|split; [exact D|split; [exact E|exact F]]].
Qed.

Lemma Forall2_and {A B} (P Q : A -> B -> Prop) l l' :
  Forall2 P l l' -> Forall2 Q l l' -> Forall2 (fun a b => P a b /\ Q a b) l l'.
Proof.
  intros H. induction H as [|a b l l' Hab Hl IH]; intros H2; [constructor|].
  inversion H2; subst. constructor; [split; assumption|auto].
Qed.

(* a copy with linked type reference descends from its source *)
Lemma link_desc tm m m1 a a' :
  (forall x v, mget m x = Some v -> mget m1 x = Some v) ->
  mget m a <> None -> xcopy m1 a a' -> olink tm m1 a a' ->
  desc (mget m) (fun n0 => n0) m1 a' a.
Proof.
  intros Hex Ha (v & v' & Hv & Hv' & Hac) (w & w' & Hw & Hw' & Hl).
  rewrite Hv in Hw. inversion Hw; subst w. rewrite Hv' in Hw'. inversion Hw'; subst w'. clear Hw Hw'.
  assert (Hva : mget m a = Some v).
  { destruct (mget m a) as [u|] eqn:Hu; [|congruence]. rewrite (Hex _ _ Hu) in Hv. exact Hv. }
  assert (Hfw : forall o n, tname m o = Some n -> tname m1 o = Some n).
  { intros o n. unfold tname. destruct (mget m o) as [u|] eqn:Hu; [|discriminate]. rewrite (Hex _ _ Hu). auto. }
  exists v, v'. split; [assumption|]. split; [assumption|]. split.
  - destruct v, v'; simpl in Hac; try contradiction; simpl; auto.
  - unfold tylk. destruct v, v'; simpl in Hac; try contradiction; simpl in Hl |- *; try exact I.
    + destruct Hl as [->|(_ & W & nm' & A & B)].
      * split; [reflexivity|]. intros nm Hn. apply Hfw. exact Hn.
      * split; [exact W|]. intros nm Hn. change (tname m (unwrap ty) = Some nm) in Hn. rewrite (Hfw _ _ Hn) in A. congruence.
    + destruct Hl as [->|(_ & W & nm' & A & B)].
      * split; [reflexivity|]. intros nm Hn. apply Hfw. exact Hn.
      * split; [exact W|]. intros nm Hn. change (tname m (unwrap ty) = Some nm) in Hn. rewrite (Hfw _ _ Hn) in A. congruence.
Qed.

(* a fresh clone descends from its source, element by element, one for one *)
Lemma clone_tfull fuel m s m1 c :
  fresh_ok m -> builtins_ok m -> closed m s -> wf_schema m s -> wf_builtins s ->
  clone fuel m s = Ok (m1, c) ->
  fresh_ok m1 /\ builtins_ok m1 /\ wf_reg m1 (s_types c) /\
  forall n o, In (n, o) (s_types c) -> is_builtin o = false ->
    exists t, In (n, t) (s_types s) /\ is_builtin t = false /\ tfull (mget m) (fun n0 => n0) m1 n o t.
Proof.
  intros Hf Hb Hcl Hwf Hbi H.
  destruct (clone_owned _ _ _ _ _ Hf Hb Hcl Hwf Hbi H) as (Fown & _).
  destruct (clone_preserved _ _ _ _ _ Hf Hb Hcl Hwf Hbi H) as ((Hf1 & Hwf1 & Hback & _) & Hfw & _ & _).
  assert (Hex : forall x v, mget m x = Some v -> mget m1 x = Some v).
  { intros x v Hx. rewrite (fr_frame _ _ _ Fown); [exact Hx|].
    destruct (N.lt_ge_cases x (m_next m)) as [Hlt|Hge]; [assumption|]. rewrite (Hf x Hge) in Hx. discriminate. }
  split; [assumption|]. split; [intros n b Hnb; apply Hex; apply Hb; exact Hnb|]. split; [assumption|].
  intros n o Hin Hbo. destruct (Hback n o Hin Hbo) as (t & Ht & Hbt). exists t. split; [assumption|]. split; [assumption|].
  destruct (Hfw n t Ht Hbt) as (t' & Hl & Hc & Hlk & _).
  assert (o = t').
  { pose proof (nodup_lookup _ _ _ (proj1 Hwf1) Hin) as Hl2. congruence. }
  subst t'. destruct Hc as (k & d & ms & ifs & r & ds & ms' & ifs' & Hgt & Hgo & Hm).
  destruct Hlk as (n2 & k2 & d2 & ms2 & ifs2 & r2 & ds2 & n3 & k3 & d3 & ms3 & ifs3 & r3 & ds3 & Hgt2 & Hgo2 & _ & Hlm).
  rewrite Hgt in Hgt2. inversion Hgt2; subst n2 k2 d2 ms2 ifs2 r2 ds2. rewrite Hgo in Hgo2. inversion Hgo2; subst n3 k3 d3 ms3 ifs3 r3 ds3.
  clear Hgt2 Hgo2.
  (* the source side, read in the source's heap *)
  assert (Hsrc_t : mget m t = Some (OType n k d ms ifs r ds)).
  { pose proof (wf_names _ _ Hwf _ _ Ht) as Hn. unfold tname in Hn. destruct (mget m t) as [v|] eqn:Hv; [|discriminate].
    pose proof (Hex _ _ Hv) as Hv1. rewrite Hv1 in Hgt. exact Hgt. }
  pose proof (wf_typed _ _ Hwf _ _ Ht Hbt) as Htt. unfold type_typed in Htt. rewrite Hsrc_t in Htt.
  exists k, d, ms, ifs, r, ds, ms', ifs'. split; [assumption|]. split; [assumption|].
  assert (Hx2d : forall a a', mget m a <> None -> xcopy m1 a a' /\ olink (s_types c) m1 a a' ->
            desc (mget m) (fun n0 => n0) m1 a' a).
  { intros a a' Ha [A B]. eapply link_desc; eauto. }
  assert (Hleafex : forall l, Forall (leaf m) l -> forall x, In x l -> mget m x <> None /\ sargs (mget m) x = []).
  { intros l Hll x Hx. rewrite Forall_forall in Hll. specialize (Hll x Hx). unfold leaf in Hll. unfold sargs.
    destruct (mget m x) as [[| | | |]|]; try contradiction; split; try discriminate; reflexivity. }
  assert (Hmc : forall x x', mget m x <> None ->
            (forall a, In a (sargs (mget m) x) -> mget m a <> None) ->
            mcopy m1 x x' /\ mlink (s_types c) m1 x x' ->
            desc (mget m) (fun n0 => n0) m1 x' x /\
            Forall2 (fun sa a => desc (mget m) (fun n0 => n0) m1 a sa) (sargs (mget m) x) (oargs m1 x')).
  { intros x x' Hx Hargs [(Hxc & Hac) (Hxl & Hal)]. split; [apply Hx2d; auto|].
    assert (Ho : oargs m1 x = sargs (mget m) x).
    { unfold oargs, sargs. destruct (mget m x) as [w|] eqn:Hw; [|congruence]. rewrite (Hex _ _ Hw). reflexivity. }
    rewrite Ho in Hac, Hal.
    eapply Forall2_impl_in; [|exact (Forall2_and _ _ _ _ Hac Hal)]. intros a a' Hina Hxa.
    apply Hx2d; [apply Hargs; exact Hina|exact Hxa]. }
  assert (Hgen : (forall x, In x ms -> mget m x <> None /\ forall a, In a (sargs (mget m) x) -> mget m a <> None) ->
            Forall2 (mcopy m1) ms ms' -> Forall2 (mlink (s_types c) m1) ms ms' ->
            Forall2 (fun s0 y => desc (mget m) (fun n0 => n0) m1 y s0 /\
               Forall2 (fun sa a => desc (mget m) (fun n0 => n0) m1 a sa) (sargs (mget m) s0) (oargs m1 y)) ms ms').
  { intros Hall Hf2 Hl2. eapply Forall2_impl_in; [|exact (Forall2_and _ _ _ _ Hf2 Hl2)].
    intros x x' Hinx Hmx. destruct (Hall x Hinx) as (A & B). apply Hmc; assumption. }
  destruct k.
  - subst ms'. rewrite Htt. constructor.
  - apply Hgen; [|exact Hm|exact Hlm]. intros x Hx. rewrite Forall_forall in Htt. specialize (Htt x Hx). unfold field_typed in Htt.
    unfold sargs. destruct (mget m x) as [[| | | |]|] eqn:Hvx; try contradiction. split; [discriminate|].
    intros a Ha. exact (proj1 (Hleafex _ Htt a Ha)).
  - apply Hgen; [|exact Hm|exact Hlm]. intros x Hx. rewrite Forall_forall in Htt. specialize (Htt x Hx). unfold field_typed in Htt.
    unfold sargs. destruct (mget m x) as [[| | | |]|] eqn:Hvx; try contradiction. split; [discriminate|].
    intros a Ha. exact (proj1 (Hleafex _ Htt a Ha)).
  - subst ms'. rewrite Htt. constructor.
  - apply Hgen; [|exact Hm|exact Hlm]. intros x Hx. destruct (Hleafex _ Htt x Hx) as (A & B). split; [assumption|]. rewrite B. intros a [].
  - apply Hgen; [|exact Hm|exact Hlm]. intros x Hx. destruct (Hleafex _ Htt x Hx) as (A & B). split; [assumption|]. rewrite B. intros a [].
Qed.

Lemma tfull_tdesc src g M n o t : tfull src g M n o t -> tdesc src g M n o t.
Proof.
  intros (k & d & ms & ifs & r & ds & ms' & ifs' & A & B & C). exists k, d, ms, ifs, r, ds, ms', ifs'.
  split; [assumption|]. split; [assumption|]. apply Forall2_subseq.
  eapply Forall2_impl; [|exact C]. intros s0 y [D E]. split; [assumption|apply Forall2_subseq; exact E].
Qed.

Lemma clone_redesc fuel m s m1 c :
  fresh_ok m -> builtins_ok m -> closed m s -> wf_schema m s -> wf_builtins s ->
  clone fuel m s = Ok (m1, c) ->
  fresh_ok m1 /\ builtins_ok m1 /\ wf_reg m1 (s_types c) /\
  redesc (mget m) (fun n => n) (s_types s) m1 (s_types c).
Proof.
  intros Hf Hb Hcl Hwf Hbi H.
  destruct (clone_tfull _ _ _ _ _ Hf Hb Hcl Hwf Hbi H) as (A & B & C & D).
  split; [assumption|]. split; [assumption|]. split; [assumption|].
  intros n o Hin Hbo. destruct (D n o Hin Hbo) as (t & Ht & _ & Hfull). exists t. split; [assumption|apply tfull_tdesc; assumption].
Qed.

(* transform_schema(schema, VisibilitySchemaTransform) *)
Theorem transform_vis_desc fuel p m s m' s' :
  fresh_ok m -> builtins_ok m -> closed m s -> wf_schema m s -> wf_builtins s ->
  transform fuel (vis_visitor p) m s = Ok (m', s') ->
  redesc (mget m) (fun n => n) (s_types s) m' (s_types s').
Proof.
  intros Hf Hb Hcl Hwf Hbi H. unfold transform in H.
  destruct (clone fuel m s) as [[m1 c]| | |] eqn:Hc; simpl in H; try discriminate.
  destruct (clone_redesc _ _ _ _ _ Hf Hb Hcl Hwf Hbi Hc) as (Hf1 & Hb1 & Hwf1 & Hrd1).
  eapply vis_desc; [exact Hf1|exact Hb1|exact (proj1 Hwf1)|exact (proj2 Hwf1)|exact Hrd1|exact H].
Qed.

(* transform_schema(schema, CamelCaseSchemaTransform) *)
Theorem transform_camel_desc fuel c m s m' s' :
  fresh_ok m -> builtins_ok m -> closed m s -> wf_schema m s -> wf_builtins s ->
  (forall n t, In (n, t) (s_types s) -> is_builtin t = false -> src_sorted (mget m) t) ->
  transform fuel (camel_visitor c) m s = Ok (m', s') ->
  redesc (mget m) c (s_types s) m' (s_types s').
Proof.
  intros Hf Hb Hcl Hwf Hbi Hsort H. unfold transform in H.
  destruct (clone fuel m s) as [[m1 cl]| | |] eqn:Hc; simpl in H; try discriminate.
  destruct (clone_redesc _ _ _ _ _ Hf Hb Hcl Hwf Hbi Hc) as (Hf1 & Hb1 & Hwf1 & Hrd1).
  destruct (clone_preserved _ _ _ _ _ Hf Hb Hcl Hwf Hbi Hc) as ((_ & _ & Hback & _) & _).
  eapply camel_desc; [exact Hf1|exact Hb1|exact (proj1 Hwf1)|exact (proj2 Hwf1)| |exact H].
  intros n o Hin Hbo. destruct (Hrd1 n o Hin Hbo) as (t & Ht & Hd). exists t. split; [assumption|]. split; [assumption|].
  destruct (Hback n o Hin Hbo) as (t2 & Ht2 & Hb2).
  assert (t2 = t).
  { pose proof (nodup_lookup _ _ _ (wf_keys _ _ Hwf) Ht) as A. pose proof (nodup_lookup _ _ _ (wf_keys _ _ Hwf) Ht2) as B. congruence. }
  subst t2. apply (Hsort n t Ht Hb2).
Qed.
