(* C01: which token parse_value blames.  [VE k pre t]: reading a value, the
   tokens pre have been read and t cannot follow; k is the class reported.
   The parser rejects exactly there (both directions); such a prefix can be
   completed to a value, and no sentence starts with pre followed by t. *)
From PyGql Require Import Lang.Parser Spec.GrammarSpec Spec.ViablePrefixSpec Proofs.GrammarProofs
  Proofs.EntryProofs Proofs.LexTotal Proofs.ViableTypeProofs.
From PyGql Require Proofs.ParserFramework Proofs.ParserTop Proofs.ErrorOrigin.

Definition value_start (k : tkind) : Prop :=
  k = KDollar \/ k = KInt \/ k = KFloat \/ k = KString \/ k = KBlockString \/ k = KName
  \/ k = KBrackO \/ k = KCurlyO.

(* _unexpected_token: UnexpectedEOF at the EOF token, UnexpectedToken elsewhere *)
Definition uclass (t : ptok) : nat := if is_kind KEOF t then E_UnexpectedEOF else E_UnexpectedToken.

Section ValueErrors.
Variable fl : flags.
Notation nl := (no_location fl).
Notation pv := (fun n => parse_value_literal fl n false).

Inductive VE : nat -> list ptok -> ptok -> Prop :=
| VE_start t : ~ value_start (tk t) -> VE (uclass t) [] t
| VE_var d t : tk d = KDollar -> tk t <> KName -> VE E_UnexpectedToken [d] t
| VE_list k o vsts vs pre t :
    tk o = KBrackO -> D_values nl false vsts vs -> VE k pre t -> (pre = [] -> tk t <> KBrackC) ->
    VE k (o :: vsts ++ pre) t
| VE_obj_name o fsts fs t :
    tk o = KCurlyO -> D_fields nl false fsts fs -> tk t <> KName -> tk t <> KCurlyC ->
    VE E_UnexpectedToken (o :: fsts) t
| VE_obj_colon o fsts fs n t :
    tk o = KCurlyO -> D_fields nl false fsts fs -> tk n = KName -> tk t <> KColon ->
    VE E_UnexpectedToken (o :: fsts ++ [n]) t
| VE_obj_value k o fsts fs n c pre t :
    tk o = KCurlyO -> D_fields nl false fsts fs -> tk n = KName -> tk c = KColon -> VE k pre t ->
    VE k (o :: fsts ++ n :: c :: pre) t.

(* ---- evaluation: rejections ---- *)
Lemma pbind_rej_eval {A B} (p : parser A) (f : A -> parser B) st k q :
  p st = Rejected k q -> pbind p f st = Rejected k q.
Proof. unfold pbind. intros ->. reflexivity. Qed.

Lemma expect_eval_no k0 t r e : tk t <> k0 -> expect k0 (PSt (LT t :: r) e) = Rejected E_UnexpectedToken (tstart t).
Proof.
  intros Hk. unfold expect, pbind, peek, perr. simpl.
  unfold is_kind. destruct (tkind_eqb (tk t) k0) eqn:E; [apply tkind_eqb_eq in E; contradiction|reflexivity].
Qed.

Lemma parse_name_eval_no t r e : tk t <> KName -> parse_name fl (PSt (LT t :: r) e) = Rejected E_UnexpectedToken (tstart t).
Proof. intros Hk. unfold parse_name. apply pbind_rej_eval. apply expect_eval_no. exact Hk. Qed.

Lemma VE_head k pre t : VE k pre t -> pre <> [] -> exists x r, pre = x :: r /\ tk x <> KBrackC /\ tk x <> KCurlyC.
Proof.
  intros H Hne. destruct H; try congruence; eexists _, _; (split; [reflexivity|]);
    match goal with K : tk ?x = _ |- tk ?x <> _ /\ _ => rewrite K; split; discriminate end.
Qed.

(* a loop that has read complete items and then meets a rejected item *)
Lemma values_then_reject c ts vs : D_values nl c ts vs ->
  forall j n X e kk q, length ts < j -> length ts < n ->
    (forall e', skip KBrackC (PSt X e') = Ok (false, PSt X e')) ->
    (forall e', parse_value_literal fl n c (PSt X e') = Rejected kk q) ->
    any_loop j (parse_value_literal fl n c) KBrackC (PSt (map LT ts ++ X) e) = Rejected kk q.
Proof.
  induction 1 as [c|c ts v ts' vs Hv Hvs IH]; intros j n X e kk q Hj Hn Hskip Hrej.
  - destruct j as [|j]; [simpl in Hj; lia|]. cbn [any_loop map app].
    pstep ltac:(apply Hskip). apply pbind_rej_eval. apply Hrej.
  - pose proof (D_value_nonempty _ _ _ _ Hv) as Hne. rewrite app_length in Hj, Hn.
    destruct j as [|j]; [lia|]. cbn [any_loop]. rewrite map_app, <- app_assoc.
    pstep ltac:(eapply skip_no_on_value; [exact Hv|left; reflexivity]).
    pstep ltac:(apply (proj1 (parse_value_complete_all fl) _ _ _ Hv); lia).
    apply pbind_rej_eval. apply IH; try assumption; [destruct ts; [congruence|simpl in *; lia]|lia].
Qed.

Lemma field_eval c nm colon ts v n rest e :
  tk nm = KName -> tk colon = KColon -> D_value nl c ts v -> length ts < n ->
  exists f e', parse_object_field fl (parse_value_literal fl n c) (PSt (LT nm :: LT colon :: map LT ts ++ rest) e) = Ok (f, PSt rest e').
Proof.
  intros Hnm Hcol Hv Hn. unfold parse_object_field. eexists _, _.
  pstep ltac:(apply peek_eval). pstep ltac:(apply parse_name_eval; exact Hnm).
  pstep ltac:(apply expect_eval; exact Hcol).
  pstep ltac:(apply (proj1 (parse_value_complete_all fl) _ _ _ Hv); exact Hn).
  pstep ltac:(apply get_loc_eval). reflexivity.
Qed.

Lemma fields_then_reject c ts fs : D_fields nl c ts fs ->
  forall j n X e kk q, length ts < j -> length ts < n ->
    (forall e', skip KCurlyC (PSt X e') = Ok (false, PSt X e')) ->
    (forall e', parse_object_field fl (parse_value_literal fl n c) (PSt X e') = Rejected kk q) ->
    any_loop j (parse_object_field fl (parse_value_literal fl n c)) KCurlyC (PSt (map LT ts ++ X) e) = Rejected kk q.
Proof.
  induction 1 as [c|c nm colon ts v ts' fs Hnm Hcol Hv Hfs IH]; intros j n X e kk q Hj Hn Hskip Hrej.
  - destruct j as [|j]; [simpl in Hj; lia|]. cbn [any_loop map app].
    pstep ltac:(apply Hskip). apply pbind_rej_eval. apply Hrej.
  - assert (Hstream : map LT (nm :: colon :: ts ++ ts') ++ X
                      = LT nm :: LT colon :: map LT ts ++ (map LT ts' ++ X)).
    { simpl. rewrite map_app, <- app_assoc. reflexivity. }
    rewrite Hstream. simpl in Hj, Hn. rewrite app_length in Hj, Hn.
    destruct j as [|j]; [lia|]. cbn [any_loop].
    pstep ltac:(apply skip_eval_no; rewrite Hnm; discriminate).
    destruct (field_eval c nm colon ts v n (map LT ts' ++ X) e Hnm Hcol Hv ltac:(lia)) as (f & e' & Hf).
    pstep ltac:(exact Hf). apply pbind_rej_eval. apply IH; try assumption; lia.
Qed.

Lemma skip_head_no k0 x r post e : tk x <> k0 ->
  skip k0 (PSt (map LT (x :: r) ++ post) e) = Ok (false, PSt (map LT (x :: r) ++ post) e).
Proof. intros H. simpl. apply skip_eval_no. exact H. Qed.

Lemma unexpected_eval {A} t pos st : @unexpected A t pos st = Rejected (uclass t) pos.
Proof. unfold unexpected, uclass, perr. destruct (is_kind KEOF t); reflexivity. Qed.

(* the parser rejects at the blamed token, whatever follows *)
Theorem VE_rejects k pre t : VE k pre t ->
  forall n post e, length pre + 1 < n ->
    pv n (PSt (map LT pre ++ LT t :: post) e) = Rejected k (tstart t).
Proof.
  induction 1 as [t Hns|d t Kd Kt|k o vsts vs pre t Ko Hvs Hve IH Hside|o fsts fs t Ko Hfs Kt1 Kt2
                 |o fsts fs nm t Ko Hfs Knm Kt|k o fsts fs nm c pre t Ko Hfs Knm Kc Hve IH];
    intros n post e Hn; (destruct n as [|n]; [simpl in Hn; lia|]).
  - cbn [parse_value_literal map app]. pstep ltac:(apply peek_eval).
    unfold value_start in Hns. destruct (tk t) eqn:Ek; try apply unexpected_eval; exfalso; apply Hns; tauto.
  - cbn [parse_value_literal map app]. pstep ltac:(apply peek_eval). rewrite Kd. cbv iota.
    apply pbind_rej_eval. unfold parse_variable.
    pstep ltac:(apply peek_eval). pstep ltac:(apply expect_eval; exact Kd).
    apply pbind_rej_eval. apply parse_name_eval_no. exact Kt.
  - assert (Hstream : map LT (o :: vsts ++ pre) ++ LT t :: post = LT o :: map LT vsts ++ (map LT pre ++ LT t :: post)).
    { simpl. rewrite map_app, <- app_assoc. reflexivity. }
    rewrite Hstream. simpl in Hn. rewrite app_length in Hn.
    cbn [parse_value_literal]. pstep ltac:(apply peek_eval). rewrite Ko. cbv iota.
    apply pbind_rej_eval. unfold any_. pstep ltac:(apply expect_eval; exact Ko).
    apply (values_then_reject _ _ _ Hvs); try lia.
    + intros e'. destruct pre as [|x r].
      * simpl. apply skip_eval_no. apply Hside. reflexivity.
      * destruct (VE_head _ _ _ Hve ltac:(discriminate)) as (x' & r' & E & H1 & _). injection E as <- <-.
        apply skip_head_no. exact H1.
    + intros e'. apply IH. lia.
  - cbn [parse_value_literal map app]. pstep ltac:(apply peek_eval). rewrite Ko. cbv iota.
    pstep ltac:(apply expect_eval; exact Ko). apply pbind_rej_eval. simpl in Hn.
    apply (fields_then_reject _ _ _ Hfs); try lia.
    + intros e'. apply skip_eval_no. exact Kt2.
    + intros e'. unfold parse_object_field. pstep ltac:(apply peek_eval). apply pbind_rej_eval.
      apply parse_name_eval_no. exact Kt1.
  - assert (Hstream : map LT (o :: fsts ++ [nm]) ++ LT t :: post = LT o :: map LT fsts ++ (LT nm :: LT t :: post)).
    { simpl. rewrite map_app, <- app_assoc. reflexivity. }
    rewrite Hstream. simpl in Hn. rewrite app_length in Hn. simpl in Hn.
    cbn [parse_value_literal]. pstep ltac:(apply peek_eval). rewrite Ko. cbv iota.
    pstep ltac:(apply expect_eval; exact Ko). apply pbind_rej_eval.
    apply (fields_then_reject _ _ _ Hfs); try lia.
    + intros e'. apply skip_eval_no. rewrite Knm. discriminate.
    + intros e'. unfold parse_object_field. pstep ltac:(apply peek_eval).
      pstep ltac:(apply parse_name_eval; exact Knm). apply pbind_rej_eval. apply expect_eval_no. exact Kt.
  - assert (Hstream : map LT (o :: fsts ++ nm :: c :: pre) ++ LT t :: post
                      = LT o :: map LT fsts ++ (LT nm :: LT c :: map LT pre ++ LT t :: post)).
    { simpl. rewrite map_app, <- app_assoc. reflexivity. }
    rewrite Hstream. simpl in Hn. rewrite app_length in Hn. simpl in Hn.
    cbn [parse_value_literal]. pstep ltac:(apply peek_eval). rewrite Ko. cbv iota.
    pstep ltac:(apply expect_eval; exact Ko). apply pbind_rej_eval.
    apply (fields_then_reject _ _ _ Hfs); try lia.
    + intros e'. apply skip_eval_no. rewrite Knm. discriminate.
    + intros e'. unfold parse_object_field. pstep ltac:(apply peek_eval).
      pstep ltac:(apply parse_name_eval; exact Knm). pstep ltac:(apply expect_eval; exact Kc).
      apply pbind_rej_eval. apply IH. lia.
Qed.

(* ---- an erroneous prefix can be completed to a value ---- *)
Lemma D_values_app c a xs b ys : D_values nl c a xs -> D_values nl c b ys -> D_values nl c (a ++ b) (xs ++ ys).
Proof. induction 1; simpl; [auto|]. intros Hb. rewrite <- app_assoc. constructor; auto. Qed.

Lemma D_fields_app c a xs b ys : D_fields nl c a xs -> D_fields nl c b ys -> D_fields nl c (a ++ b) (xs ++ ys).
Proof.
  induction 1 as [c|c nm colon ts v ts' fs Hnm Hcol Hv Hfs IH]; simpl; [auto|]. intros Hb.
  rewrite <- app_assoc. constructor; auto.
Qed.

Definition an_int : ptok := PTok KInt [] 0 0.
Definition a_colon : ptok := PTok KColon [] 0 0.
Definition a_brack_close : ptok := PTok KBrackC [] 0 0.
Definition a_curly_close : ptok := PTok KCurlyC [] 0 0.
Definition a_curly_open : ptok := PTok KCurlyO [] 0 0.
Definition a_brack_open : ptok := PTok KBrackO [] 0 0.

Lemma VE_completable k pre t : VE k pre t -> exists suffix y, D_value nl false (pre ++ suffix) y.
Proof.
  induction 1 as [t Hns|d t Kd Kt|k o vsts vs pre t Ko Hvs Hve IH Hside|o fsts fs t Ko Hfs Kt1 Kt2
                 |o fsts fs nm t Ko Hfs Knm Kt|k o fsts fs nm c pre t Ko Hfs Knm Kc Hve IH].
  - exists [an_int]. eexists. simpl. apply (DV_int nl false an_int). reflexivity.
  - exists [a_name]. eexists. simpl. apply (DV_var nl d a_name); [exact Kd|reflexivity].
  - destruct IH as (suf & y & Hy). exists (suf ++ [a_brack_close]). eexists.
    replace ((o :: vsts ++ pre) ++ suf ++ [a_brack_close]) with (o :: (vsts ++ (pre ++ suf)) ++ [a_brack_close])
      by (repeat first [rewrite <- app_assoc | rewrite app_nil_r | progress cbn [app]]; reflexivity).
    apply DV_list; [exact Ko|reflexivity|]. apply (D_values_app _ _ _ _ [y] Hvs).
    rewrite <- (app_nil_r (pre ++ suf)). constructor; [exact Hy|constructor].
  - exists [a_curly_close]. eexists. simpl. apply DV_object; [exact Ko|reflexivity|exact Hfs].
  - exists [a_colon; an_int; a_curly_close]. eexists.
    replace ((o :: fsts ++ [nm]) ++ [a_colon; an_int; a_curly_close])
      with (o :: (fsts ++ (nm :: a_colon :: [an_int] ++ [])) ++ [a_curly_close])
      by (repeat first [rewrite <- app_assoc | rewrite app_nil_r | progress cbn [app]]; reflexivity).
    apply DV_object; [exact Ko|reflexivity|]. eapply D_fields_app; [exact Hfs|].
    constructor; [exact Knm|reflexivity|apply (DV_int nl false an_int); reflexivity|constructor].
  - destruct IH as (suf & y & Hy). exists (suf ++ [a_curly_close]). eexists.
    replace ((o :: fsts ++ nm :: c :: pre) ++ suf ++ [a_curly_close])
      with (o :: (fsts ++ (nm :: c :: (pre ++ suf) ++ [])) ++ [a_curly_close])
      by (repeat first [rewrite <- app_assoc | rewrite app_nil_r | progress cbn [app]]; reflexivity).
    apply DV_object; [exact Ko|reflexivity|]. eapply D_fields_app; [exact Hfs|].
    constructor; [exact Knm|exact Kc|exact Hy|constructor].
Qed.

(* ---- prepending a complete item to the erroneous tail of a list / object ---- *)
Lemma VE_list_prepend k o o' tsv v pre t :
  tk o = KBrackO -> tk o' = KBrackO -> D_value nl false tsv v -> VE k (o :: pre) t -> VE k (o' :: tsv ++ pre) t.
Proof.
  intros Ko Ko' Hv H. inversion H; subst; try congruence.
  rewrite app_assoc. apply VE_list with (v :: vs); auto. constructor; assumption.
Qed.

Lemma VE_obj_prepend k o o' nm colon tsv v pre t :
  tk o = KCurlyO -> tk o' = KCurlyO -> tk nm = KName -> tk colon = KColon -> D_value nl false tsv v ->
  VE k (o :: pre) t -> VE k (o' :: nm :: colon :: tsv ++ pre) t.
Proof.
  intros Ko Ko' Knm Kc Hv H.
  assert (Hcons : forall fsts fs, D_fields nl false fsts fs ->
            D_fields nl false (nm :: colon :: tsv ++ fsts) ((name_node nl nm, v, mkloc nl (nm :: colon :: tsv)) :: fs))
    by (intros; constructor; assumption).
  inversion H; subst; try congruence.
  - match goal with Hf : D_fields _ _ ?f _ |- _ =>
      apply (VE_obj_name o' (nm :: colon :: tsv ++ f) _ t Ko' (Hcons _ _ Hf)); assumption end.
  - match goal with Hf : D_fields _ _ ?f _, Hn : tk ?n = KName |- VE _ (_ :: _ :: _ :: _ ++ _ ++ [?n]) _ =>
      rewrite app_assoc;
      apply (VE_obj_colon o' (nm :: colon :: tsv ++ f) _ n t Ko' (Hcons _ _ Hf)); assumption end.
  - match goal with Hf : D_fields _ _ ?f _, Hn : tk ?n = KName, Hc : tk ?c = KColon
                    |- VE _ (_ :: _ :: _ :: _ ++ _ ++ ?n :: ?c :: ?p) _ =>
      rewrite app_assoc;
      apply (VE_obj_value k o' (nm :: colon :: tsv ++ f) _ n c p t Ko' (Hcons _ _ Hf)); assumption end.
Qed.

(* ---- where the parser rejects ---- *)
Lemma advance_rej st k p : advance st = Rejected k p -> stuckl (toks st) k p.
Proof.
  unfold advance, stuckl. destruct (toks st) as [|[x|k' p'|] r]; try discriminate; [right; reflexivity|].
  intros H; injection H as -> ->. left. eauto.
Qed.

Lemma parse_name_rej st k p : parse_name fl st = Rejected k p ->
  stuckl (toks st) k p \/ exists t r, toks st = LT t :: r /\ tk t <> KName /\ k = E_UnexpectedToken /\ p = tstart t.
Proof.
  unfold parse_name. intros H. apply pbind_rej in H. destruct H as [H|(t & st2 & _ & H)]; [apply expect_rej; exact H|].
  unfold pbind, get_loc, pret in H. discriminate.
Qed.

Lemma D_value_NE_all :
  (forall c ts v, D_value nl c ts v -> NE ts)
  /\ (forall c ts vs, D_values nl c ts vs -> NE ts)
  /\ (forall c ts fs, D_fields nl c ts fs -> NE ts).
Proof.
  apply (D_value_mutind nl (fun c ts v => NE ts) (fun c ts vs => NE ts) (fun c ts fs => NE ts));
    intros; unfold NE in *;
    repeat first [ apply Forall_nil
                 | assumption
                 | apply Forall_cons; [match goal with K : tk ?x = _ |- tk ?x <> _ => rewrite K; discriminate end|]
                 | apply Forall_app; split ].
Qed.

Lemma D_value_NE c ts v : D_value nl c ts v -> NE ts.
Proof. apply (proj1 D_value_NE_all). Qed.

(* the conclusion shape *)
Definition rej_at (P : nat -> list ptok -> ptok -> Prop) (l : list lx) (k p : nat) : Prop :=
  (exists pre t post, l = map LT pre ++ LT t :: post /\ P k pre t /\ p = tstart t)
  \/ (exists pre l', l = map LT pre ++ l' /\ NE pre /\ stuckl l' k p).

Definition in_list (k : nat) (pre : list ptok) (t : ptok) : Prop := forall o, tk o = KBrackO -> VE k (o :: pre) t.
Definition in_object (k : nat) (pre : list ptok) (t : ptok) : Prop := forall o, tk o = KCurlyO -> VE k (o :: pre) t.

Lemma rej_at_prepend (P Q : nat -> list ptok -> ptok -> Prop) ts l k p :
  NE ts -> (forall k pre t, P k pre t -> Q k (ts ++ pre) t) -> rej_at P l k p -> rej_at Q (map LT ts ++ l) k p.
Proof.
  intros Hne HPQ [(pre & t & post & -> & HP & ->)|(pre & l' & -> & Hn & Hs)].
  - left. exists (ts ++ pre), t, post. rewrite map_app, <- app_assoc. auto.
  - right. exists (ts ++ pre), l'. rewrite map_app, <- app_assoc. repeat split; [|exact Hs].
    unfold NE in *. apply Forall_app. split; assumption.
Qed.

Lemma rej_at_stuck P l k p : stuckl l k p -> rej_at P l k p.
Proof. intros H. right. exists [], l. repeat split; [constructor|exact H]. Qed.

Section Loops.
Variable n : nat.
Hypothesis IHv : forall st k p, pv n st = Rejected k p -> rej_at VE (toks st) k p.

Lemma values_loop_rej : forall j st k p, any_loop j (pv n) KBrackC st = Rejected k p -> rej_at in_list (toks st) k p.
Proof.
  induction j as [|j IH]; intros st k p H; [discriminate|]. simpl in H.
  apply pbind_rej in H. destruct H as [H|(b & st1 & Hs & H)]; [apply rej_at_stuck; apply skip_rej in H; exact H|].
  apply skip_ok in Hs. destruct Hs as [(-> & cl & _)|(-> & -> & x & r & Hx & Hkx)]; [unfold pret in H; discriminate|].
  apply pbind_rej in H. destruct H as [H|(v & st2 & Hv & H)].
  - destruct (IHv _ _ _ H) as [(pre & t & post & Et & Hve & ->)|(pre & l' & Et & Hne & Hst)].
    + left. exists pre, t, post. repeat split; [exact Et|].
      intros o Ko. change (o :: pre) with (o :: [] ++ pre). apply VE_list with []; [exact Ko|constructor|exact Hve|].
      intros ->. rewrite Hx in Et. simpl in Et. injection Et as <- _. exact Hkx.
    + right. exists pre, l'. auto.
  - apply parse_value_sound in Hv. destruct Hv as (ts & Hne & Hts & Hd & _).
    apply pbind_rej in H. destruct H as [H|(vs & st3 & _ & H)]; [|unfold pret in H; discriminate].
    apply IH in H. rewrite Hts. apply (rej_at_prepend in_list in_list); [exact (D_value_NE _ _ _ Hd)| |exact H].
    intros k0 pre t Hin o Ko. apply (VE_list_prepend k0 a_brack_open o ts v pre t); auto; try (apply Hin; reflexivity).
Qed.

Lemma field_rej st k p : parse_object_field fl (pv n) st = Rejected k p ->
  forall x r, toks st = LT x :: r -> tk x <> KCurlyC -> rej_at in_object (toks st) k p.
Proof.
  intros H x r Hx Hkx. unfold parse_object_field in H.
  apply pbind_rej in H. destruct H as [H|(fstart & st1 & Hp & H)]; [apply rej_at_stuck; apply peek_rej in H; exact H|].
  apply peek_ok in Hp. destruct Hp as [-> _].
  apply pbind_rej in H. destruct H as [H|(nm & st2 & Hn & H)].
  { destruct (parse_name_rej _ _ _ H) as [Hst|(t & r' & Ht & Hkt & -> & ->)]; [apply rej_at_stuck; exact Hst|].
    left. exists [], t, r'. repeat split; [exact Ht|]. intros o Ko.
    apply VE_obj_name with []; [exact Ko|constructor|exact Hkt|]. rewrite Hx in Ht. injection Ht as <- _. exact Hkx. }
  apply parse_name_ok in Hn. destruct Hn as (tn & Htn & Hkn & _ & ->).
  apply pbind_rej in H. destruct H as [H|(colon & st3 & Hc & H)].
  { rewrite Htn. destruct (expect_rej _ _ _ _ H) as [Hst|(t & r' & Ht & Hkt & -> & ->)].
    - right. exists [tn], (toks st2). repeat split; [|exact Hst]. constructor; [rewrite Hkn; discriminate|constructor].
    - left. exists [tn], t, r'. rewrite Ht. repeat split. intros o Ko.
      apply (VE_obj_colon o [] [] tn t); [exact Ko|constructor|exact Hkn|exact Hkt]. }
  apply expect_ok in Hc. destruct Hc as (Hc & _ & Hkc).
  apply pbind_rej in H. destruct H as [H|(v & st4 & _ & H)]; [|unfold pbind, get_loc, pret in H; discriminate].
  rewrite Htn, Hc. change (LT tn :: LT colon :: toks st3) with (map LT [tn; colon] ++ toks st3).
  apply (rej_at_prepend VE in_object); [| |exact (IHv _ _ _ H)].
  - constructor; [rewrite Hkn; discriminate|]. constructor; [rewrite Hkc; discriminate|constructor].
  - intros k0 pre t Hve o Ko. apply (VE_obj_value k0 o [] [] tn colon pre t); auto. constructor.
Qed.

Lemma fields_loop_rej : forall j st k p,
  any_loop j (parse_object_field fl (pv n)) KCurlyC st = Rejected k p -> rej_at in_object (toks st) k p.
Proof.
  induction j as [|j IH]; intros st k p H; [discriminate|]. simpl in H.
  apply pbind_rej in H. destruct H as [H|(b & st1 & Hs & H)]; [apply rej_at_stuck; apply skip_rej in H; exact H|].
  apply skip_ok in Hs. destruct Hs as [(-> & cl & _)|(-> & -> & x & r & Hx & Hkx)]; [unfold pret in H; discriminate|].
  apply pbind_rej in H. destruct H as [H|(f & st2 & Hf & H)]; [exact (field_rej _ _ _ H x r Hx Hkx)|].
  apply (parse_object_field_sound fl false (pv n) (parse_value_sound fl n false)) in Hf.
  destruct Hf as (ts & Hne & Hts & (nm & colon & vts & v & -> & Hkn & Hkc & Hdv & _) & _).
  apply pbind_rej in H. destruct H as [H|(fs & st3 & _ & H)]; [|unfold pret in H; discriminate].
  apply IH in H. rewrite Hts. apply (rej_at_prepend in_object in_object); [| |exact H].
  - constructor; [rewrite Hkn; discriminate|]. constructor; [rewrite Hkc; discriminate|exact (D_value_NE _ _ _ Hdv)].
  - intros k0 pre t Hin o Ko.
    apply (VE_obj_prepend k0 a_curly_open o nm colon vts v pre t); auto; try (apply Hin; reflexivity).
Qed.
End Loops.

Lemma no_rej_after_advance {A} (f : ptok -> parser A) st t r k p :
  toks st = LT t :: r -> (forall x st', f x st' <> Rejected k p) -> (pdo x <- advance; f x) st <> Rejected k p.
Proof.
  intros Ht Hf H. apply pbind_rej in H. destruct H as [H|(x & st1 & _ & H)].
  - apply advance_rej in H. rewrite Ht in H. exact (stuckl_LT _ _ _ _ H).
  - exact (Hf _ _ H).
Qed.

Theorem parse_value_rej : forall n st k p, pv n st = Rejected k p -> rej_at VE (toks st) k p.
Proof.
  induction n as [|n IH]; intros st k p H; [discriminate|]. simpl in H.
  apply pbind_rej in H. destruct H as [H|(t & st1 & Hp & H)]; [apply rej_at_stuck; apply peek_rej in H; exact H|].
  apply peek_ok in Hp. destruct Hp as [-> [r Hr]].
  destruct (tk t) eqn:Ek;
    try solve [ rewrite unexpected_eval in H; injection H as <- <-; left; exists [], t, r;
                split; [exact Hr|split; [|reflexivity]]; apply VE_start; rewrite Ek; unfold value_start;
                intros Hv; repeat (destruct Hv as [Hv|Hv]; [discriminate|]); discriminate ].
  - (* $ *)
    apply pbind_rej in H. destruct H as [H|(v & st2 & _ & H)]; [|unfold pret in H; discriminate].
    unfold parse_variable in H.
    apply pbind_rej in H. destruct H as [H|(start & st2 & Hp & H)]; [apply rej_at_stuck; apply peek_rej in H; exact H|].
    apply peek_ok in Hp. destruct Hp as [-> _].
    apply pbind_rej in H. destruct H as [H|(d & st3 & Hd & H)].
    { destruct (expect_rej _ _ _ _ H) as [Hst|(x & rx & Hx & Hkx & _)]; [apply rej_at_stuck; exact Hst|].
      rewrite Hr in Hx. injection Hx as <- _. congruence. }
    apply expect_ok in Hd. destruct Hd as (Hd & _ & Hkd). rewrite Hr in Hd. injection Hd as <- Hd.
    apply pbind_rej in H. destruct H as [H|(nm & st4 & _ & H)]; [|unfold pbind, get_loc, pret in H; discriminate].
    rewrite Hr, Hd. destruct (parse_name_rej _ _ _ H) as [Hst|(x & rx & Hx & Hkx & -> & ->)].
    + right. exists [t], (toks st3). repeat split; [|exact Hst]. constructor; [rewrite Ek; discriminate|constructor].
    + left. exists [t], x, rx. rewrite Hx. repeat split. apply VE_var; assumption.
  - (* [ *)
    apply pbind_rej in H. destruct H as [H|(vs & st2 & _ & H)]; [|unfold pbind, get_loc, pret in H; discriminate].
    unfold any_ in H. apply pbind_rej in H. destruct H as [H|(o & st2 & Ho & H)].
    { destruct (expect_rej _ _ _ _ H) as [Hst|(x & rx & Hx & Hkx & _)]; [apply rej_at_stuck; exact Hst|].
      rewrite Hr in Hx. injection Hx as <- _. congruence. }
    apply expect_ok in Ho. destruct Ho as (Ho & _ & Hko). rewrite Hr in Ho. injection Ho as <- Ho.
    apply (values_loop_rej n IH) in H. rewrite Hr, Ho. change (LT t :: toks st2) with (map LT [t] ++ toks st2).
    apply (rej_at_prepend in_list VE); [constructor; [rewrite Ek; discriminate|constructor]| |exact H].
    intros k0 pre x Hin. apply Hin. exact Ek.
  - (* { *)
    apply pbind_rej in H. destruct H as [H|(o & st2 & Ho & H)].
    { destruct (expect_rej _ _ _ _ H) as [Hst|(x & rx & Hx & Hkx & _)]; [apply rej_at_stuck; exact Hst|].
      rewrite Hr in Hx. injection Hx as <- _. congruence. }
    apply expect_ok in Ho. destruct Ho as (Ho & _ & Hko). rewrite Hr in Ho. injection Ho as <- Ho.
    apply pbind_rej in H. destruct H as [H|(fs & st3 & _ & H)]; [|unfold pbind, get_loc, pret in H; discriminate].
    apply (fields_loop_rej n IH) in H. rewrite Hr, Ho. change (LT t :: toks st2) with (map LT [t] ++ toks st2).
    apply (rej_at_prepend in_object VE); [constructor; [rewrite Ek; discriminate|constructor]| |exact H].
    intros k0 pre x Hin. apply Hin. exact Ek.
  - (* Int *) exfalso. revert H. apply (no_rej_after_advance _ st t r); [exact Hr|]. intros; unfold pbind, get_loc, pret; discriminate.
  - (* Float *) exfalso. revert H. apply (no_rej_after_advance _ st t r); [exact Hr|]. intros; unfold pbind, get_loc, pret; discriminate.
  - (* Name *) exfalso. revert H. apply (no_rej_after_advance _ st t r); [exact Hr|].
    intros x st'; unfold pbind, get_loc, pret.
    destruct (is_kw "true" (tval t)); [discriminate|]. destruct (is_kw "false" (tval t)); [discriminate|].
    destruct (is_kw "null" (tval t)); discriminate.
  - (* String *) exfalso. apply pbind_rej in H. destruct H as [H|(sv & st2 & _ & H)]; [|unfold pret in H; discriminate].
    revert H. unfold parse_string_literal. apply (no_rej_after_advance _ st t r); [exact Hr|]. intros; unfold pbind, get_loc, pret; discriminate.
  - (* BlockString *) exfalso. apply pbind_rej in H. destruct H as [H|(sv & st2 & _ & H)]; [|unfold pret in H; discriminate].
    revert H. unfold parse_string_literal. apply (no_rej_after_advance _ st t r); [exact Hr|]. intros; unfold pbind, get_loc, pret; discriminate.
Qed.
End ValueErrors.

(* ---- sentences SOF Value EOF ---- *)
Section ValueSentences.
Variable fl : flags.
Notation nl := (no_location fl).

Lemma VE_class k pre t : VE fl k pre t -> k = E_UnexpectedToken \/ (k = E_UnexpectedEOF /\ tk t = KEOF).
Proof.
  induction 1; auto. unfold uclass, is_kind. destruct (tkind_eqb (tk t) KEOF) eqn:E; [|auto].
  right. split; [reflexivity|apply tkind_eqb_eq; exact E].
Qed.

Lemma complete_value ts v X :
  D_value nl false ts v ->
  parse_value_literal fl (S (S (length ts))) false (PSt (map LT ts ++ X) 0) = Ok (v, PSt X (lend ts 0)).
Proof. intros H. apply (proj1 (parse_value_complete_all fl) _ _ _ H). lia. Qed.

Lemma split_last (body : list ptok) eof' pre t rest :
  pre ++ t :: rest = body ++ [eof'] ->
  (rest = [] /\ body = pre /\ t = eof') \/ (exists rest', rest = rest' ++ [eof'] /\ body = pre ++ t :: rest').
Proof.
  intros E. destruct (exists_last (l := t :: rest) ltac:(discriminate)) as (r' & c' & Er).
  rewrite Er, app_assoc in E. apply app_inj_tail in E. destruct E as [E ->].
  destruct r' as [|t' r''].
  - left. destruct rest; [|destruct rest; discriminate]. injection Er as ->. rewrite app_nil_r in E. auto.
  - right. simpl in Er. injection Er as -> ->. exists r''. auto.
Qed.

Theorem VE_blamed sof k pre t : tk sof = KSOF -> VE fl k pre t -> blamed (value_sentence nl) (sof :: pre) t.
Proof.
  intros Ks Hve. split.
  - destruct (VE_completable fl _ _ _ Hve) as (suf & y & Hy). exists (suf ++ [an_eof]).
    exists (pre ++ suf), y. split; [|exact Hy]. exists sof, an_eof. simpl. rewrite app_assoc. auto.
  - intros (rest & body & y & (sof' & eof' & Ks' & Ke & E) & Hy).
    simpl in E. injection E as _ E. rewrite <- app_assoc in E. simpl in E.
    destruct (split_last _ _ _ _ _ E) as [(-> & -> & ->)|(rest' & -> & ->)].
    + pose proof (complete_value pre y [LT eof'] Hy) as H1.
      rewrite (VE_rejects fl k pre eof' Hve (S (S (length pre))) [] 0 ltac:(lia)) in H1. discriminate.
    + pose proof (complete_value _ y [] Hy) as H1.
      rewrite map_app, <- app_assoc in H1. cbn [map app] in H1.
      rewrite (VE_rejects fl k pre t Hve (S (S (length (pre ++ t :: rest')))) _ 0) in H1; [discriminate|rewrite app_length; simpl; lia].
Qed.

Theorem after_value_blamed sof body v t :
  tk sof = KSOF -> D_value nl false body v -> tk t <> KEOF -> blamed (value_sentence nl) (sof :: body) t.
Proof.
  intros Ks Hd Ht. split.
  - exists [an_eof]. exists body, v. split; [|exact Hd]. exists sof, an_eof. auto.
  - intros (rest & body' & y & (sof' & eof' & Ks' & Ke & E) & Hy).
    simpl in E. injection E as _ E. rewrite <- app_assoc in E. simpl in E.
    destruct (split_last _ _ _ _ _ E) as [(-> & -> & ->)|(rest' & -> & ->)]; [congruence|].
    pose proof (complete_value _ y [] Hy) as H1.
    rewrite map_app, <- app_assoc in H1. cbn [map app] in H1.
    pose proof (proj1 (parse_value_complete_all fl) _ _ _ Hd (S (S (length (body ++ t :: rest'))))
                  (LT t :: map LT rest' ++ []) 0 ltac:(rewrite app_length; simpl; lia)) as H2.
    rewrite H2 in H1. injection H1 as _ H1. discriminate.
Qed.

Theorem parse_value_blame s k p :
  parse_value_str fl s = Rejected k p ->
  lex s = Rejected k p
  \/ exists pre t post, lex_stream s = map LT pre ++ LT t :: post /\ p = tstart t
       /\ (k = E_UnexpectedToken \/ (k = E_UnexpectedEOF /\ tk t = KEOF))
       /\ blamed (value_sentence nl) pre t.
Proof.
  unfold parse_value_str, run. set (n := parse_fuel (lex_stream s)).
  destruct (parse_value_p fl n (PSt (lex_stream s) 0)) as [[a st']| |k' p'|] eqn:E; try discriminate.
  intros H; injection H as -> ->. unfold parse_value_p in E.
  set (sof := PTok KSOF [] 0 0) in *.
  assert (Es : exists l0, lex_stream s = LT sof :: l0) by (eexists; reflexivity). destruct Es as [l0 Es].
  rewrite Es in E.
  assert (Hsof : expect KSOF (PSt (LT sof :: l0) 0) = Ok (sof, PSt l0 0)) by reflexivity.
  unfold pbind at 1 in E. rewrite Hsof in E.
  assert (Ksof : tk sof = KSOF) by reflexivity.
  assert (Nsof : tk sof <> KEOF) by discriminate.
  apply pbind_rej in E. destruct E as [E|(v & st2 & Hv & E)].
  - destruct (parse_value_rej fl _ _ _ _ E) as [(pre & t & post & Et & Hve & ->)|(pre & l' & Et & Hne & Hst)];
      simpl in Et.
    + right. exists (sof :: pre), t, post. rewrite Es, Et.
      split; [reflexivity|split; [reflexivity|split; [exact (VE_class _ _ _ Hve)|eapply VE_blamed; eassumption]]].
    + left. apply (stuck_stream s (sof :: pre) l'); [rewrite Es, Et; reflexivity|discriminate| |exact Hst].
      constructor; assumption.
  - apply parse_value_sound in Hv. destruct Hv as (body & Hneb & Htb & Hdb & _). simpl in Htb.
    apply pbind_rej in E. destruct E as [E|(c & st5 & _ & E)]; [|unfold pret in E; discriminate].
    destruct (expect_rej _ _ _ _ E) as [Hst|(x & rx & Hx & Hkx & -> & ->)].
    + left. apply (stuck_stream s (sof :: body) (toks st2)); [rewrite Es, Htb; reflexivity|discriminate| |exact Hst].
      constructor; [assumption|exact (D_value_NE fl _ _ _ Hdb)].
    + right. exists (sof :: body), x, rx. rewrite Es, Htb, Hx.
      split; [reflexivity|split; [reflexivity|split; [left; reflexivity|apply after_value_blamed with v; assumption]]].
Qed.
End ValueSentences.

(* on a text that lexes, in terms of its token sequence *)
Theorem blamed_token_of_tokens : forall fl s ts k p, lex s = Ok ts ->
  (parse_type_str fl s = Rejected k p ->
     exists pre t post, ts = pre ++ t :: post /\ p = tstart t /\ blamed (type_sentence (no_location fl)) pre t)
  /\ (parse_value_str fl s = Rejected k p ->
     exists pre t post, ts = pre ++ t :: post /\ p = tstart t /\ blamed (value_sentence (no_location fl)) pre t).
Proof.
  intros fl s ts k p Hl. pose proof (collect_ok_map _ _ Hl) as Hs.
  assert (Hinj : forall a b : list ptok, map LT a = map LT b -> a = b).
  { induction a as [|x a IH]; intros [|y b] E; simpl in E; try discriminate; [reflexivity|].
    injection E as -> E. f_equal. apply IH. exact E. }
  split; intros H.
  - destruct (parse_type_blame fl s k p H) as [Hr|(pre & t & post & E & Hp & _ & Hb)]; [congruence|].
    rewrite Hs in E. assert (Hpost : exists post', post = map LT post').
    { clear -E. revert ts E. induction pre as [|x pre IH]; intros [|y ts] E; simpl in E; try discriminate.
      - injection E as _ E. eauto.
      - injection E as _ E. eapply IH; exact E. }
    destruct Hpost as [post' ->]. exists pre, t, post'. split; [|auto].
    apply Hinj. rewrite E, map_app. reflexivity.
  - destruct (parse_value_blame fl s k p H) as [Hr|(pre & t & post & E & Hp & _ & Hb)]; [congruence|].
    rewrite Hs in E. assert (Hpost : exists post', post = map LT post').
    { clear -E. revert ts E. induction pre as [|x pre IH]; intros [|y ts] E; simpl in E; try discriminate.
      - injection E as _ E. eauto.
      - injection E as _ E. eapply IH; exact E. }
    destruct Hpost as [post' ->]. exists pre, t, post'. split; [|auto].
    apply Hinj. rewrite E, map_app. reflexivity.
Qed.
