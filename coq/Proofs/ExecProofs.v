(* Proofs for C04 about the executor model Exec/ExecModel.v against
   Spec/ExecSpec.v. *)
From PyGql Require Import Spec.ExecSpec.
From Coq Require Import Lia.

Arguments resolve_field : simpl never.
Arguments field_definition : simpl never.
Arguments complete_named : simpl never.
Arguments complete_field : simpl never.
Arguments collect_for : simpl never.

(* ------------------------------------------------------------ tactics *)
Ltac inv_bind H :=
  repeat match type of H with
         | obind ?x _ = Ok _ =>
             let E := fresh "E" in destruct x eqn:E; simpl in H; try discriminate H
         end.

Lemma obind_ok {A B} (x : outcome A) (f : A -> outcome B) r :
  obind x f = Ok r -> exists a, x = Ok a /\ f a = Ok r.
Proof. destruct x; simpl; try discriminate. intros H; eauto. Qed.

(* ------------------------------------------------------- paths, prefix *)
Lemma pelem_eqb_eq a b : pelem_eqb a b = true <-> a = b.
Proof.
  destruct a, b; simpl; split; intros H; try discriminate; try congruence.
  - apply str_eqb_eq in H; congruence.
  - inversion H; apply str_eqb_refl.
  - apply N.eqb_eq in H; congruence.
  - inversion H; apply N.eqb_refl.
Qed.

Lemma pelem_eqb_refl a : pelem_eqb a a = true.
Proof. apply pelem_eqb_eq; reflexivity. Qed.

Lemma prefixb_app q s : prefixb q (q ++ s) = true.
Proof. induction q; simpl; [reflexivity|]. rewrite pelem_eqb_refl; assumption. Qed.

Lemma prefixb_spec q p : prefixb q p = true <-> exists s, p = q ++ s.
Proof.
  revert p; induction q as [|x q IH]; intros p; simpl.
  - split; eauto.
  - destruct p as [|y p]; [split; [discriminate|intros [s Hs]; discriminate]|].
    rewrite andb_true_iff, pelem_eqb_eq, IH. split.
    + intros [-> [s ->]]; eauto.
    + intros [s Hs]; inversion Hs; eauto.
Qed.

Lemma prefixb_trans a b c : prefixb a b = true -> prefixb b c = true -> prefixb a c = true.
Proof.
  rewrite !prefixb_spec. intros [s ->] [t ->]. exists (s ++ t). apply app_assoc_reverse.
Qed.

(* ------------------------------------------------------------- groups *)
Definition keys (g : groups) : list str := map fst g.

Lemma add_group_keys_in k fs g : In k (keys g) -> keys (add_group k fs g) = keys g.
Proof.
  induction g as [|[k' fs'] g IH]; simpl; [tauto|].
  destruct (str_eqb_spec k k') as [->|Hn]; simpl; [reflexivity|].
  intros [H|H]; [congruence|]. rewrite IH; auto.
Qed.

Lemma add_group_keys_notin k fs g : ~ In k (keys g) -> keys (add_group k fs g) = keys g ++ [k].
Proof.
  induction g as [|[k' fs'] g IH]; simpl; [reflexivity|].
  destruct (str_eqb_spec k k') as [->|Hn]; simpl; [tauto|].
  intros H. rewrite IH; auto.
Qed.

Lemma add_group_NoDup k fs g : NoDup (keys g) -> NoDup (keys (add_group k fs g)).
Proof.
  intros H. destruct (in_dec str_eq_dec k (keys g)) as [Hi|Hn].
  - rewrite add_group_keys_in; assumption.
  - rewrite add_group_keys_notin by assumption.
    apply NoDup_rev in H. rewrite <- (rev_involutive (keys g ++ [k])).
    apply NoDup_rev. rewrite rev_app_distr. simpl. constructor; [|assumption].
    rewrite <- in_rev. assumption.
Qed.

Lemma merge_groups_NoDup src : forall into, NoDup (keys into) -> NoDup (keys (merge_groups src into)).
Proof.
  unfold merge_groups. induction src as [|[k fs] src IH]; simpl; intros into H; [assumption|].
  apply IH. apply add_group_NoDup; assumption.
Qed.

(* every node of group k is a field node whose response key is k *)
Definition is_field (f : selection) : Prop :=
  match f with SField _ _ _ _ _ _ _ => True | _ => False end.

Definition group_ok (kn : str * list selection) : Prop :=
  Forall (fun f => is_field f /\ field_key f = fst kn) (snd kn).

Definition groups_ok (g : groups) : Prop := NoDup (keys g) /\ Forall group_ok g.

Lemma add_group_ok k fs g :
  Forall (fun f => is_field f /\ field_key f = k) fs -> Forall group_ok g ->
  Forall group_ok (add_group k fs g).
Proof.
  intros Hfs. induction g as [|[k' fs'] g IH]; simpl; intros Hg.
  - constructor; [exact Hfs|constructor].
  - inversion Hg as [|x l Hx Hl]; subst.
    destruct (str_eqb_spec k k') as [->|Hn].
    + constructor; [|assumption]. unfold group_ok in *; simpl in *.
      apply Forall_app; split; assumption.
    + constructor; [assumption|]. apply IH; assumption.
Qed.

Lemma merge_groups_ok src : forall into,
  Forall group_ok src -> Forall group_ok into -> Forall group_ok (merge_groups src into).
Proof.
  unfold merge_groups. induction src as [|[k fs] src IH]; simpl; intros into Hs Hi; [assumption|].
  inversion Hs as [|x l Hx Hl]; subst. apply IH; [assumption|].
  apply add_group_ok; assumption.
Qed.

Section CollectInv.
  Variable applies : option ty -> bool.
  Variable frags : frag_table.
  Variable vs : vars.
  Variable mc : bool.

  Lemma collect_into_ok : forall fuel ss g local r,
    groups_ok g -> collect_into applies frags vs mc fuel ss g local = Ok r -> groups_ok (fst r).
  Proof.
    induction fuel as [|fuel IH]; intros ss g local r Hg H; simpl in H; [discriminate|].
    destruct ss as [|x ss]; [inversion H; subst; assumption|].
    destruct x as [alias n args dirs sl sub l|n dirs l|tc dirs ssl sub l].
    - apply obind_ok in H as [sk [_ H]]. destruct sk; [eapply IH; eassumption|].
      eapply IH; [|eassumption]. destruct Hg as [Hnd Hok]. split.
      + apply add_group_NoDup; assumption.
      + apply add_group_ok; [|assumption]. constructor; [|constructor]. simpl; auto.
    - destruct (alookup (n_val n) frags) as [[tc fsels]|] eqn:Ef.
      + apply obind_ok in H as [sk [_ H]].
        destruct (sk || mem_str (n_val n) local || negb (applies (Some tc))); [eapply IH; eassumption|].
        apply obind_ok in H as [r1 [H1 H]].
        eapply IH; [|eassumption]. apply IH in H1; [|split; constructor].
        destruct Hg as [Hnd Hok], H1 as [Hnd1 Hok1]. split.
        * apply merge_groups_NoDup; assumption.
        * apply merge_groups_ok; assumption.
      + destruct mc; [discriminate|]. apply obind_ok in H as [sk [_ H]]. eapply IH; eassumption.
    - apply obind_ok in H as [sk [_ H]].
      destruct (sk || negb (applies tc)); [eapply IH; eassumption|].
      apply obind_ok in H as [r1 [H1 H]].
      eapply IH; [|eassumption]. apply IH in H1; [|split; constructor].
      destruct Hg as [Hnd Hok], H1 as [Hnd1 Hok1]. split.
      + apply merge_groups_NoDup; assumption.
      + apply merge_groups_ok; assumption.
  Qed.

  Lemma collect_ok fuel ss g :
    collect applies frags vs mc fuel ss = Ok g -> groups_ok g.
  Proof.
    unfold collect. intros H. apply obind_ok in H as [r [H1 H]]. inversion H; subst.
    eapply collect_into_ok; [|eassumption]. split; constructor.
  Qed.
End CollectInv.

(* ---------------------------------------------------------- list facts *)
Lemma nodup_app {A} (l1 l2 : list A) :
  NoDup l1 -> NoDup l2 -> (forall x, In x l1 -> ~ In x l2) -> NoDup (l1 ++ l2).
Proof.
  induction l1 as [|a l1 IH]; simpl; intros H1 H2 Hd; [assumption|].
  inversion H1; subst. constructor.
  - rewrite in_app_iff. intros [Hi|Hi]; [contradiction|]. eapply Hd; [left; reflexivity|eassumption].
  - apply IH; auto.
Qed.

Lemma alookup_some_in {A} k (l : list (str * A)) v : alookup k l = Some v -> In k (map fst l).
Proof. intros H. apply alookup_In in H. apply (in_map fst) in H. exact H. Qed.

(* ------------------------------------------------ well-formed schemas *)
(* no NonNull directly inside NonNull (py-gql's NonNullType of a NonNullType
   is rejected by schema validation) *)
Fixpoint nn_ok (t : tref) : bool :=
  match t with
  | RNonNull (RNonNull _) => false
  | RNonNull t' => nn_ok t'
  | RList t' => nn_ok t'
  | RNamed _ => true
  end.

Definition schema_nn_ok (sch : schema) : Prop :=
  forall tn fs ifs f, get_type sch tn = Some (TObject fs ifs) -> In f fs -> nn_ok (f_type f) = true.

Lemma find_field_in name fs f : find_field name fs = Some f -> In f fs.
Proof.
  induction fs as [|g fs IH]; simpl; [discriminate|].
  destruct (find_field name fs) as [f'|] eqn:E.
  - intros H; inversion H; subst. right; apply IH; reflexivity.
  - destruct (str_eqb (f_name g) name); [|discriminate]. intros H; inversion H; subst. left; reflexivity.
Qed.

(* -------------------------------------------- errors, nulls and paths *)
(* an error of a call at path [p] whose data is [v]: its path is at or below
   p and the data there is null *)
(* the data is null at the (relative) path, or already at a prefix of it: when
   collecting a sub-selection fails the enclosing field is nulled and errors
   of list items completed before stay in the result *)
Definition null_on_path (v : pv) (q : path) : Prop :=
  exists q1 q2, q = q1 ++ q2 /\ at_path v q1 = Some PNone.

Definition err_at (p : path) (v : pv) (e : error) : Prop :=
  exists q, e_path e = p ++ q /\ null_on_path v q.

Lemma null_on_path_here q : null_on_path PNone q.
Proof. exists [], q. split; reflexivity. Qed.

Lemma null_on_path_idx rs j x q :
  nth_error rs j = Some x -> null_on_path x q -> null_on_path (PList rs) (PIdx (N.of_nat j) :: q).
Proof.
  intros Hn (q1 & q2 & -> & Hat). exists (PIdx (N.of_nat j) :: q1), q2. split; [reflexivity|].
  simpl. rewrite Nat2N.id, Hn. exact Hat.
Qed.

Lemma null_on_path_key kvs k x q :
  alookup k kvs = Some x -> null_on_path x q -> null_on_path (PDict kvs) (PKey k :: q).
Proof.
  intros Hl (q1 & q2 & -> & Hat). exists (PKey k :: q1), q2. split; [reflexivity|]. simpl. rewrite Hl. exact Hat.
Qed.

Definition wf_res (p : path) (r : pv * list error) : Prop :=
  Forall (err_at p (fst r)) (snd r) /\ NoDup (map e_path (snd r)).

(* shape of the errors of a completed value that came out null *)
Definition null_shape (t : tref) (p : path) (es : list error) : Prop :=
  match t with
  | RNonNull _ => exists ls, es = [Err p ls ENonNull]
  | _ => es = []
  end.

Lemma wf_res_nil p v : wf_res p (v, []).
Proof. split; simpl; constructor. Qed.

Lemma wf_res_single p ls k : wf_res p (PNone, [Err p ls k]).
Proof.
  split; simpl.
  - constructor; [|constructor]. exists []. simpl. rewrite app_nil_r. split; [reflexivity|apply null_on_path_here].
  - constructor; [simpl; tauto|constructor].
Qed.

Lemma app_inv_head_path (p a b : path) : p ++ a = p ++ b -> a = b.
Proof. apply app_inv_head. Qed.

Section ExecFacts.
  Variable sch : schema.
  Variable frags : frag_table.
  Variable vs : vars.
  Variable coerce_args : fdef -> selection -> outcome (list (str * pv)).
  Variable world : world_t.
  Variable tyres : str -> option (pv -> tyname_res).
  Variable cfuel : nat.
  Hypothesis Hsch : schema_nn_ok sch.

  Definition defined (tname : str) (kn : str * list selection) : bool :=
    match snd kn with
    | node :: _ => match field_definition sch tname (sel_name node) with
                   | Ok (Some _) => true
                   | _ => false
                   end
    | [] => false
    end.

  Lemma field_definition_nn tname name k fd :
    field_definition sch tname name = Ok (Some (k, fd)) -> nn_ok (f_type fd) = true.
  Proof.
    unfold field_definition.
    destruct (str_eqb name s_typename); [intros H; inversion H; reflexivity|].
    destruct (str_eqb name s_schema || str_eqb name s_type); [discriminate|].
    destruct (get_type sch tname) as [[fs ifs| | | | |]|] eqn:Et; try discriminate.
    destruct (find_field name fs) as [f|] eqn:Ef; simpl; [|discriminate].
    intros H; inversion H; subst. eapply Hsch; [eassumption|]. eapply find_field_in; eassumption.
  Qed.

  Section Level.
    Variable sub_exec : str -> pv -> path -> list selection -> result.
    Hypothesis Hsub : forall tn v p sels r, sub_exec tn v p sels = Ok r -> wf_res p r /\ fst r <> PNone.

    (* ---- keys of a response object *)
    Lemma exec_groups_keys tname parent p : forall g kvs es,
      exec_groups sch coerce_args world tyres sub_exec tname parent p g = Ok (kvs, es) ->
      map fst kvs = keys (filter (defined tname) g).
    Proof.
      induction g as [|[key nodes] g IH]; intros kvs es H; simpl in H.
      - inversion H; reflexivity.
      - destruct nodes as [|node nodes]; [discriminate|].
        unfold defined at 1; simpl.
        destruct (field_definition sch tname (sel_name node)) as [[[k fd]|]| | |] eqn:Ed; simpl in H; try discriminate.
        + apply obind_ok in H as [r [Hr H]]. apply obind_ok in H as [[kvs' es'] [Hrest H]].
          inversion H; subst; simpl. f_equal. eapply IH; eassumption.
        + eapply IH; eassumption.
    Qed.

    (* ---- list items *)
    Definition items_err (p : path) (i : N) (rs : list pv) (e : error) : Prop :=
      exists j q x, e_path e = p ++ PIdx (i + N.of_nat j) :: q /\
                    nth_error rs j = Some x /\ null_on_path x q.

    Lemma complete_items_wf (f : path -> pv -> result) :
      (forall p' x r, f p' x = Ok r -> wf_res p' r) ->
      forall items p i rs es,
        complete_items f p i items = Ok (rs, es) ->
        Forall (items_err p i rs) es /\ NoDup (map e_path es).
    Proof.
      intros Hf. induction items as [|x items IH]; intros p i rs es H; simpl in H.
      - inversion H; subst. split; constructor.
      - apply obind_ok in H as [[r1 es1] [H1 H]]. apply obind_ok in H as [[rs' es'] [H2 H]].
        inversion H; subst; clear H. apply Hf in H1 as [Hw1 Hn1]. simpl in Hw1, Hn1.
        apply IH in H2 as [Hw2 Hn2]. simpl.
        assert (Ha : Forall (items_err p i (r1 :: rs')) es1).
        { eapply Forall_impl; [|exact Hw1]. intros e [q [Hq Hat]].
          exists 0, q, r1. simpl. rewrite N.add_0_r. rewrite Hq, <- app_assoc. auto. }
        assert (Hb : Forall (items_err p i (r1 :: rs')) es').
        { eapply Forall_impl; [|exact Hw2]. intros e [j [q [y [Hq [Hn Hat]]]]].
          exists (S j), q, y. simpl. split; [|auto]. rewrite Hq. do 3 f_equal. lia. }
        split; [apply Forall_app; split; assumption|].
        rewrite map_app. apply nodup_app; try assumption.
        intros pth Hi1 Hi2. apply in_map_iff in Hi1 as [e1 [<- He1]]. apply in_map_iff in Hi2 as [e2 [Heq He2]].
        rewrite Forall_forall in Hw1, Hw2.
        destruct (Hw1 _ He1) as [q1 [Hq1 _]]. destruct (Hw2 _ He2) as [j [q2 [y [Hq2 _]]]].
        rewrite Hq1, Hq2, <- app_assoc in Heq. apply app_inv_head in Heq. simpl in Heq.
        inversion Heq. lia.
    Qed.

    (* ---- completed values *)
    Lemma of_ser_wf s p r : of_ser s = Ok r -> wf_res p r /\ snd r = [].
    Proof. destruct s; simpl; try discriminate. intros H; inversion H; subst. split; [apply wf_res_nil|reflexivity]. Qed.

    Lemma complete_named_wf nodes n p v r :
      complete_named sch tyres sub_exec nodes n p v = Ok r ->
      wf_res p r /\ (fst r = PNone -> snd r = []).
    Proof.
      unfold complete_named. destruct (get_type sch n) as [[fs ifs|fs|ts|vals|k|]|]; try discriminate.
      - intros H. apply Hsub in H as [Hw Hn]. split; [assumption|tauto].
      - intros H. apply obind_ok in H as [rt [_ H]]. apply Hsub in H as [Hw Hn]. split; [assumption|tauto].
      - intros H. apply obind_ok in H as [rt [_ H]]. apply Hsub in H as [Hw Hn]. split; [assumption|tauto].
      - destruct (hashable v); [|discriminate]. intros H. apply (of_ser_wf _ p) in H as [Hw He]. split; auto.
      - intros H. apply (of_ser_wf _ p) in H as [Hw He]. split; auto.
    Qed.

    Lemma complete_value_wf nodes : forall t p v r,
      nn_ok t = true ->
      complete_value sch tyres sub_exec nodes t p v = Ok r ->
      wf_res p r /\ (fst r = PNone -> null_shape t p (snd r)).
    Proof.
      induction t as [n|t IH|t IH]; intros p v r Hnn H; simpl in H.
      - destruct v; try (inversion H; subst; split; [apply wf_res_nil|reflexivity]);
          apply complete_named_wf in H; exact H.
      - assert (Hl : forall items, complete_items (complete_value sch tyres sub_exec nodes t) p 0%N items = Ok (fst (match r with (a, b) => (match a with PList l => l | _ => [] end, b) end), snd r) ->
                     True) by auto. clear Hl.
        assert (Hgo : forall items rs es,
                   complete_items (complete_value sch tyres sub_exec nodes t) p 0%N items = Ok (rs, es) ->
                   wf_res p (PList rs, es)).
        { intros items rs es Hc. apply complete_items_wf in Hc.
          - destruct Hc as [Hw Hn]. split; [|exact Hn]. simpl.
            eapply Forall_impl; [|exact Hw]. intros e [j [q [x [Hq [Hnth Hat]]]]].
            exists (PIdx (N.of_nat j) :: q). split; [rewrite Hq; reflexivity|].
            eapply null_on_path_idx; eassumption.
          - intros p' x r' Hr'. eapply IH; [|exact Hr']. exact Hnn. }
        destruct v; try (inversion H; subst; split; [apply wf_res_nil|reflexivity]); simpl in H;
          try discriminate;
          apply obind_ok in H as [[rs es] [Hc H]]; inversion H; subst;
          (split; [eapply Hgo; exact Hc|simpl; discriminate]).
      - apply obind_ok in H as [[r1 es1] [H1 H]]. simpl in H.
        assert (Hnn' : nn_ok t = true) by (destruct t; simpl in Hnn; auto; discriminate).
        destruct (IH p v (r1, es1) Hnn' H1) as [Hw Hs]. simpl in Hw, Hs.
        destruct r1; try (inversion H; subst; split; [exact Hw|simpl; discriminate]).
        inversion H; subst; clear H. simpl.
        assert (He : es1 = []) by (destruct t; simpl in Hnn, Hs; auto; discriminate).
        subst es1. simpl. split; [apply wf_res_single|]. intros _. eexists; reflexivity.
    Qed.

    (* ---- errors recorded before a sub-selection failed to collect *)
    Definition below (p : path) (e : error) : Prop := exists x q, e_path e = p ++ x :: q.

    Lemma items_partial_wf (f : path -> pv -> result) (fe : path -> pv -> list error) :
      (forall p' x r, f p' x = Ok r -> wf_res p' r) ->
      (forall p' x, Forall (below p') (fe p' x) /\ NoDup (map e_path (fe p' x))) ->
      forall items p i,
        Forall (fun e => exists j q, e_path e = p ++ PIdx (i + N.of_nat j) :: q) (items_partial f fe p i items) /\
        NoDup (map e_path (items_partial f fe p i items)).
    Proof.
      intros Hf Hfe. induction items as [|x items IH]; intros p i; simpl; [split; constructor|].
      destruct (f (p ++ [PIdx i]) x) as [r| | |] eqn:Ef;
        try (destruct (Hfe (p ++ [PIdx i]) x) as [B N]; split; [|exact N];
             eapply Forall_impl; [|exact B]; intros e (y & q & Hq); exists 0, (y :: q);
             rewrite N.add_0_r, Hq, <- app_assoc; reflexivity).
      destruct (Hf _ _ _ Ef) as [Hw Hn]. destruct (IH p (N.succ i)) as [Hw2 Hn2].
      assert (Ha : Forall (fun e => exists j q, e_path e = p ++ PIdx (i + N.of_nat j) :: q) (snd r)).
      { eapply Forall_impl; [|exact Hw]. intros e [q [Hq _]]. exists 0, q. rewrite N.add_0_r, Hq, <- app_assoc. reflexivity. }
      assert (Hb : Forall (fun e => exists j q, e_path e = p ++ PIdx (i + N.of_nat j) :: q) (items_partial f fe p (N.succ i) items)).
      { eapply Forall_impl; [|exact Hw2]. intros e [j [q Hq]]. exists (S j), q. rewrite Hq. do 3 f_equal. lia. }
      split; [apply Forall_app; split; assumption|].
      rewrite map_app. apply nodup_app; try assumption.
      intros pth Hi1 Hi2. apply in_map_iff in Hi1 as [e1 [<- He1]]. apply in_map_iff in Hi2 as [e2 [Heq He2]].
      rewrite Forall_forall in Hw, Hw2.
      destruct (Hw _ He1) as [q1 [Hq1 _]]. destruct (Hw2 _ He2) as [j [q2 Hq2]].
      rewrite Hq1, Hq2, <- app_assoc in Heq. apply app_inv_head in Heq. simpl in Heq. inversion Heq. lia.
    Qed.

    Lemma complete_value_partial_wf nodes : forall t p v,
      nn_ok t = true ->
      Forall (below p) (complete_value_partial sch tyres sub_exec nodes t p v) /\
      NoDup (map e_path (complete_value_partial sch tyres sub_exec nodes t p v)).
    Proof.
      induction t as [n|t IH|t IH]; intros p v Hnn; simpl.
      - split; constructor.
      - simpl in Hnn.
        assert (Hi : forall items,
                   Forall (below p) (items_partial (complete_value sch tyres sub_exec nodes t)
                                                   (complete_value_partial sch tyres sub_exec nodes t) p 0%N items) /\
                   NoDup (map e_path (items_partial (complete_value sch tyres sub_exec nodes t)
                                                   (complete_value_partial sch tyres sub_exec nodes t) p 0%N items))).
        { intros items. destruct (items_partial_wf (complete_value sch tyres sub_exec nodes t)
                                   (complete_value_partial sch tyres sub_exec nodes t)) with (items := items) (p := p) (i := 0%N)
            as [A B].
          - intros p' x r Hr. eapply complete_value_wf; eassumption.
          - intros p' x. apply IH. exact Hnn.
          - split; [|exact B]. eapply Forall_impl; [|exact A]. intros e [j [q Hq]]. eexists _, q. exact Hq. }
        destruct v; simpl; try (split; constructor); try apply Hi.
      - apply IH. destruct t; simpl in Hnn; auto; discriminate.
    Qed.

    (* ---- fields *)
    Definition null_one (p : path) (r : pv * list error) : Prop :=
      fst r = PNone -> snd r = [] \/ exists es ls k, snd r = es ++ [Err p ls k].

    Lemma complete_field_wf nodes t p v r :
      nn_ok t = true ->
      complete_field sch tyres sub_exec nodes t p v = Ok r ->
      wf_res p r /\ null_one p r.
    Proof.
      intros Hnn. unfold complete_field.
      destruct (complete_value sch tyres sub_exec nodes t p v) as [r0| |k q|k] eqn:Ec; try discriminate.
      - intros H; inversion H; subst. apply complete_value_wf in Ec; [|exact Hnn]. destruct Ec as [Hw Hs].
        split; [exact Hw|]. intros Hn. specialize (Hs Hn). unfold null_shape in Hs.
        destruct t; [left; exact Hs|left; exact Hs|right]. destruct Hs as [ls ->]. exists [], ls, ENonNull. reflexivity.
      - destruct (Nat.eqb k REJ_COERCION); [|discriminate]. intros H; inversion H; subst; clear H.
        destruct (complete_value_partial_wf nodes t p v Hnn) as [B N].
        split; [|intros _; right; do 3 eexists; reflexivity]. split; simpl.
        + apply Forall_app. split.
          * eapply Forall_impl; [|exact B]. intros e (x & q' & Hq). exists (x :: q'). split; [exact Hq|apply null_on_path_here].
          * constructor; [|constructor]. exists []. simpl. rewrite app_nil_r. split; [reflexivity|apply null_on_path_here].
        + rewrite map_app. apply nodup_app; [exact N|simpl; constructor; [tauto|constructor]|].
          intros pth Hi [<-|[]]. apply in_map_iff in Hi as [e [He Hi]]. rewrite Forall_forall in B.
          destruct (B e Hi) as (x & q' & Hq). rewrite Hq in He. simpl in He.
          rewrite <- (app_nil_r p) in He at 2. apply app_inv_head in He. discriminate.
    Qed.

    Lemma resolve_field_wf tname parent k fd nodes p r :
      nn_ok (f_type fd) = true ->
      resolve_field sch coerce_args world tyres sub_exec tname parent k fd nodes p = Ok r ->
      wf_res p r /\ null_one p r.
    Proof.
      intros Hnn. unfold resolve_field. destruct nodes as [|node nodes]; [discriminate|].
      destruct (coerce_args fd node) as [args| | |]; try discriminate.
      - destruct k; try discriminate.
        + destruct (world p parent tname (f_name fd) args); try discriminate; try (apply complete_field_wf; exact Hnn).
          intros H; inversion H; subst. split; [apply wf_res_single|]. intros _; right; exists []; do 2 eexists; reflexivity.
        + apply complete_field_wf; exact Hnn.
      - intros H; inversion H; subst. split; [apply wf_res_single|]. intros _; right; exists []; do 2 eexists; reflexivity.
    Qed.

    (* ---- response objects *)
    Definition groups_err (p : path) (kvs : list (str * pv)) (e : error) : Prop :=
      exists k q x, e_path e = p ++ PKey k :: q /\ alookup k kvs = Some x /\ null_on_path x q.

    Lemma exec_groups_wf tname parent p : forall g kvs es,
      NoDup (keys g) ->
      exec_groups sch coerce_args world tyres sub_exec tname parent p g = Ok (kvs, es) ->
      Forall (groups_err p kvs) es /\ NoDup (map e_path es).
    Proof.
      induction g as [|[key nodes] g IH]; intros kvs es Hnd H.
      - simpl in H. inversion H; subst. split; constructor.
      - pose proof (exec_groups_keys _ _ _ _ _ _ H) as Hkeys.
        simpl in H. destruct nodes as [|node nodes]; [discriminate|].
        inversion Hnd as [|? ? Hnotin Hnd']; subst.
        destruct (field_definition sch tname (sel_name node)) as [[[k fd]|]| | |] eqn:Ed; simpl in H; try discriminate.
        + apply obind_ok in H as [[r1 es1] [H1 H]]. apply obind_ok in H as [[kvs' es'] [H2 H]].
          inversion H; subst; clear H.
          pose proof (exec_groups_keys _ _ _ _ _ _ H2) as Hkeys'.
          apply resolve_field_wf in H1; [|eapply field_definition_nn; eassumption].
          destruct H1 as [[Hw1 Hn1] _]. simpl in Hw1, Hn1.
          destruct (IH _ _ Hnd' H2) as [Hw2 Hn2].
          assert (Hsubk : forall k', In k' (map fst kvs') -> k' <> key).
          { intros k' Hi ->. apply Hnotin. rewrite Hkeys' in Hi. unfold keys in *.
            apply in_map_iff in Hi as [kn [<- Hi]]. apply filter_In in Hi as [Hi _].
            apply in_map. exact Hi. }
          assert (Ha : Forall (groups_err p ((key, r1) :: kvs')) es1).
          { eapply Forall_impl; [|exact Hw1]. intros e [q [Hq Hat]].
            exists key, q, r1. simpl. rewrite str_eqb_refl. rewrite Hq, <- app_assoc. auto. }
          assert (Hb : Forall (groups_err p ((key, r1) :: kvs')) es').
          { eapply Forall_impl; [|exact Hw2]. intros e [k' [q [x [Hq [Hl Hat]]]]].
            exists k', q, x. simpl. split; [exact Hq|]. split; [|exact Hat].
            destruct (str_eqb_spec k' key) as [->|_]; [|exact Hl].
            exfalso. apply (Hsubk key); [|reflexivity]. eapply alookup_some_in; eassumption. }
          simpl. split; [apply Forall_app; split; assumption|].
          rewrite map_app. apply nodup_app; try assumption.
          intros pth Hi1 Hi2. apply in_map_iff in Hi1 as [e1 [<- He1]]. apply in_map_iff in Hi2 as [e2 [Heq He2]].
          rewrite Forall_forall in Hw1, Hw2.
          destruct (Hw1 _ He1) as [q1 [Hq1 _]]. destruct (Hw2 _ He2) as [k' [q2 [x [Hq2 [Hl _]]]]].
          rewrite Hq1, Hq2, <- app_assoc in Heq. apply app_inv_head in Heq. simpl in Heq.
          inversion Heq; subst. apply (Hsubk key); [|reflexivity]. eapply alookup_some_in; eassumption.
        + eapply IH; eassumption.
    Qed.
  End Level.

  (* ---- the whole executor *)
  Lemma exec_sel_wf : forall fuel tname v p sels r,
    exec_sel sch frags vs coerce_args world tyres cfuel fuel tname v p sels = Ok r ->
    wf_res p r /\ fst r <> PNone.
  Proof.
    induction fuel as [|fuel IH]; intros tname v p sels r H; simpl in H; [discriminate|].
    apply obind_ok in H as [g [Hg H]]. apply obind_ok in H as [[kvs es] [He H]].
    inversion H; subst; clear H. simpl. split; [|discriminate].
    unfold collect_for in Hg. apply collect_ok in Hg as [Hnd _].
    eapply exec_groups_wf in He; [|exact IH|exact Hnd].
    destruct He as [Hw Hn]. split; [|exact Hn]. simpl.
    eapply Forall_impl; [|exact Hw]. intros e [k [q [x [Hq [Hl Hat]]]]].
    exists (PKey k :: q). split; [exact Hq|]. eapply null_on_path_key; eassumption.
  Qed.
End ExecFacts.

(* ===================================================== error locality *)
Lemma same_outside_refl q v : same_outside q v v.
Proof. destruct q as [|[k|i] q]; simpl; auto. Qed.

Lemma same_outside_none x rest a b :
  same_outside (x :: rest) a b -> (a = PNone <-> b = PNone).
Proof.
  destruct x; simpl; intros [->|H]; try tauto.
  - destruct H as [kvs [kvs' [-> [-> _]]]]. split; discriminate.
  - destruct H as [l [l' [-> [-> _]]]]. split; discriminate.
Qed.

Lemma prefixb_common p a b : prefixb (p ++ a) (p ++ b) = prefixb a b.
Proof. induction p; simpl; [reflexivity|]. rewrite pelem_eqb_refl. exact IHp. Qed.

Lemma prefixb_longer p rest : rest <> [] -> prefixb (p ++ rest) p = false.
Proof.
  intros Hr. rewrite <- (app_nil_r p) at 2. rewrite prefixb_common.
  destruct rest; [congruence|reflexivity].
Qed.

Lemma errors_off_app q a b : errors_off q (a ++ b) = errors_off q a ++ errors_off q b.
Proof. unfold errors_off. apply filter_app. Qed.

Inductive rpos := Off | Under | Above (rest : path).

(* an error recording that collecting a sub-selection failed (invalid @skip /
   @include arguments): the locality theorem is about runs without them *)
Definition abort_err (e : error) : bool :=
  match e_kind e, e_locs e with ECoercion, [] => true | _, _ => false end.
Definition no_abort (es : list error) : Prop := Forall (fun e => abort_err e = false) es.

Lemma no_abort_app a b : no_abort (a ++ b) <-> no_abort a /\ no_abort b.
Proof. apply Forall_app. Qed.

Section Locality.
  Variable sch : schema.
  Variable frags : frag_table.
  Variable vs : vars.
  Variable coerce_args : fdef -> selection -> outcome (list (str * pv)).
  Variable tyres : str -> option (pv -> tyname_res).
  Variable cfuel : nat.
  Variable w1 w2 : world_t.
  Variable q0 : path.
  Hypothesis Hsch : schema_nn_ok sch.
  Hypothesis Hw : forall p', prefixb q0 p' = false ->
                             forall a b c d, w1 p' a b c d = w2 p' a b c d.

  (* position of a call path relative to the path where the worlds differ *)
  Definition link (p : path) (r : rpos) : Prop :=
    match r with
    | Off => forall s, prefixb q0 (p ++ s) = false
    | Under => prefixb q0 p = true
    | Above rest => q0 = p ++ rest /\ rest <> []
    end.

  Definition step (r : rpos) (e : pelem) : rpos :=
    match r with
    | Off => Off
    | Under => Under
    | Above [] => Under
    | Above (x :: rest) =>
        if pelem_eqb x e then match rest with [] => Under | _ => Above rest end else Off
    end.

  Lemma link_step p r e : link p r -> link (p ++ [e]) (step r e).
  Proof.
    destruct r as [| |rest]; simpl.
    - intros H s. rewrite <- app_assoc. apply H.
    - intros H. eapply prefixb_trans; [exact H|apply prefixb_app].
    - intros [Hq Hr]. destruct rest as [|x rest]; [congruence|].
      destruct (pelem_eqb x e) eqn:Ex.
      + apply pelem_eqb_eq in Ex; subst x. destruct rest as [|y rest]; simpl.
        * subst q0. rewrite <- (app_nil_r (p ++ [e])) at 2. apply prefixb_app.
        * split; [|discriminate]. rewrite <- app_assoc. exact Hq.
      + simpl. intros s. subst q0. rewrite <- app_assoc. rewrite prefixb_common. simpl. rewrite Ex. reflexivity.
  Qed.

  Lemma link_world p r : link p r -> r <> Under -> prefixb q0 p = false.
  Proof.
    destruct r as [| |rest]; simpl; intros H Hn; [|congruence|].
    - specialize (H []). rewrite app_nil_r in H. exact H.
    - destruct H as [-> Hr]. apply prefixb_longer; assumption.
  Qed.

  Definition eoff := errors_off q0.

  Lemma eoff_app a b : eoff (a ++ b) = eoff a ++ eoff b.
  Proof. apply errors_off_app. Qed.

  Definition oclaim (r : rpos) (o1 o2 : result) : Prop :=
    match r with
    | Off => o1 = o2
    | Under => True
    | Above rest => forall r1 r2, o1 = Ok r1 -> o2 = Ok r2 ->
                                  no_abort (snd r1) -> no_abort (snd r2) ->
                                  same_outside rest (fst r1) (fst r2) /\ eoff (snd r1) = eoff (snd r2)
    end.

  Lemma wf_under p r : wf_res p r -> prefixb q0 p = true -> eoff (snd r) = [].
  Proof.
    intros [Hw' _] Hp. unfold eoff, errors_off. induction Hw' as [|e es [q [Hq _]] _ IH]; simpl; [reflexivity|].
    rewrite Hq. assert (Ht : prefixb q0 (p ++ q) = true) by (eapply prefixb_trans; [exact Hp|apply prefixb_app]).
    rewrite Ht. simpl. exact IH.
  Qed.

  Section Level.
    Variable sub1 sub2 : str -> pv -> path -> list selection -> result.
    Hypothesis Hsub : forall tn v p sels r, link p r -> oclaim r (sub1 tn v p sels) (sub2 tn v p sels).
    Hypothesis Hwf1 : forall tn v p sels r, sub1 tn v p sels = Ok r -> wf_res p r /\ fst r <> PNone.
    Hypothesis Hwf2 : forall tn v p sels r, sub2 tn v p sels = Ok r -> wf_res p r /\ fst r <> PNone.

    Notation cv1 := (complete_value sch tyres sub1).
    Notation cv2 := (complete_value sch tyres sub2).

    (* list items when no item is on the way to q0 *)
    Lemma items_ext (f1 f2 : path -> pv -> result) p :
      forall items i, (forall j x, f1 (p ++ [PIdx j]) x = f2 (p ++ [PIdx j]) x) ->
                      complete_items f1 p i items = complete_items f2 p i items.
    Proof.
      induction items as [|x items IH]; intros i Hf; simpl; [reflexivity|].
      rewrite Hf. rewrite (IH _ Hf). reflexivity.
    Qed.

    (* list items when item i0 is on the way *)
    Lemma items_above (f1 f2 : path -> pv -> result) p i0 rest :
      (forall j x, j <> i0 -> f1 (p ++ [PIdx j]) x = f2 (p ++ [PIdx j]) x) ->
      (forall x c1 c2, f1 (p ++ [PIdx i0]) x = Ok c1 -> f2 (p ++ [PIdx i0]) x = Ok c2 ->
                       no_abort (snd c1) -> no_abort (snd c2) ->
                       same_outside rest (fst c1) (fst c2) /\ eoff (snd c1) = eoff (snd c2)) ->
      forall items i rs1 es1 rs2 es2,
        complete_items f1 p i items = Ok (rs1, es1) ->
        complete_items f2 p i items = Ok (rs2, es2) ->
        no_abort es1 -> no_abort es2 ->
        (length rs1 = length rs2 /\
         forall j a b, nth_error rs1 j = Some a -> nth_error rs2 j = Some b ->
                       ((i + N.of_nat j)%N = i0 -> same_outside rest a b) /\
                       ((i + N.of_nat j)%N <> i0 -> a = b)) /\
        eoff es1 = eoff es2.
    Proof.
      intros Hoff Hon. induction items as [|x items IH]; intros i rs1 es1 rs2 es2 H1 H2 NA1 NA2; simpl in H1, H2.
      - inversion H1; inversion H2; subst. split; [split; [reflexivity|]|reflexivity].
        intros [|j] a b Ha; discriminate.
      - apply obind_ok in H1 as [[a1 ea1] [Ha1 H1]]. apply obind_ok in H1 as [[rs1' es1'] [Hr1 H1]].
        apply obind_ok in H2 as [[a2 ea2] [Ha2 H2]]. apply obind_ok in H2 as [[rs2' es2'] [Hr2 H2]].
        inversion H1; inversion H2; subst; clear H1 H2. simpl.
        apply no_abort_app in NA1 as [NA1a NA1b]. apply no_abort_app in NA2 as [NA2a NA2b].
        destruct (IH _ _ _ _ _ Hr1 Hr2 NA1b NA2b) as [[Hlen Hnth] Hes].
        assert (Hhead : ((i = i0 -> same_outside rest a1 a2) /\ (i <> i0 -> a1 = a2)) /\ eoff ea1 = eoff ea2).
        { destruct (N.eq_dec i i0) as [->|Hne].
          - destruct (Hon _ _ _ Ha1 Ha2 NA1a NA2a) as [Hso He]. simpl in *. split; [split; [auto|congruence]|exact He].
          - rewrite (Hoff _ _ Hne) in Ha1. rewrite Ha1 in Ha2. inversion Ha2; subst.
            split; [split; [intros; apply same_outside_refl|reflexivity]|reflexivity]. }
        destruct Hhead as [Hd He]. split; [split|].
        + simpl; congruence.
        + intros [|j] a b Ha Hb; simpl in Ha, Hb.
          * inversion Ha; inversion Hb; subst. rewrite N.add_0_r. exact Hd.
          * replace (i + N.of_nat (S j))%N with (N.succ i + N.of_nat j)%N by lia. eapply Hnth; eassumption.
        + rewrite !eoff_app. congruence.
    Qed.

    Lemma complete_named_eq nodes n p v :
      link p Off ->
      complete_named sch tyres sub1 nodes n p v = complete_named sch tyres sub2 nodes n p v.
    Proof.
      intros Hl. unfold complete_named.
      destruct (get_type sch n) as [[fs ifs|fs|ts|vals|k|]|]; try reflexivity.
      - apply (Hsub n v p _ Off Hl).
      - destruct (resolve_type sch tyres n v); simpl; try reflexivity. apply (Hsub a v p _ Off Hl).
      - destruct (resolve_type sch tyres n v); simpl; try reflexivity. apply (Hsub a v p _ Off Hl).
    Qed.

    Lemma complete_value_eq nodes : forall t p v,
      link p Off -> cv1 nodes t p v = cv2 nodes t p v.
    Proof.
      induction t as [n|t IH|t IH]; intros p v Hl; simpl.
      - destruct v; try reflexivity; apply complete_named_eq; exact Hl.
      - assert (He : forall items, complete_items (cv1 nodes t) p 0%N items = complete_items (cv2 nodes t) p 0%N items).
        { intros items. apply items_ext. intros j x. apply IH. apply (link_step p Off (PIdx j) Hl). }
        destruct v; simpl; try reflexivity; rewrite He; reflexivity.
      - rewrite (IH p v Hl). reflexivity.
    Qed.

    Lemma complete_named_above nodes n p v rest :
      link p (Above rest) ->
      oclaim (Above rest) (complete_named sch tyres sub1 nodes n p v) (complete_named sch tyres sub2 nodes n p v).
    Proof.
      intros Hl. unfold complete_named. simpl.
      destruct (get_type sch n) as [[fs ifs|fs|ts|vals|k|]|]; try (intros r1 r2 H; discriminate H).
      - apply (Hsub n v p _ (Above rest) Hl).
      - destruct (resolve_type sch tyres n v); simpl; try (intros r1 r2 H; discriminate H). apply (Hsub a v p _ (Above rest) Hl).
      - destruct (resolve_type sch tyres n v); simpl; try (intros r1 r2 H; discriminate H). apply (Hsub a v p _ (Above rest) Hl).
      - intros r1 r2 H1 H2 _ _. rewrite H1 in H2. inversion H2; subst. split; [apply same_outside_refl|reflexivity].
      - intros r1 r2 H1 H2 _ _. rewrite H1 in H2. inversion H2; subst. split; [apply same_outside_refl|reflexivity].
    Qed.

    Lemma complete_value_above nodes : forall t p v rest,
      nn_ok t = true -> link p (Above rest) ->
      oclaim (Above rest) (cv1 nodes t p v) (cv2 nodes t p v).
    Proof.
      induction t as [n|t IH|t IH]; intros p v rest Hnn Hl.
      - simpl complete_value. destruct v; try (apply complete_named_above; exact Hl);
          intros r1 r2 H1 H2 _ _; inversion H1; inversion H2; subst; split; [apply same_outside_refl|reflexivity].
      - intros r1 r2 H1 H2 NA1 NA2. simpl in H1, H2. simpl in Hnn.
        destruct (match v with PNone => true | _ => false end) eqn:Ev.
        { destruct v; try discriminate. inversion H1; inversion H2; subst. split; [apply same_outside_refl|reflexivity]. }
        assert (H1' : match iter_items v with
                      | None => Crash CRASH_RUNTIME
                      | Some items => do r <- complete_items (cv1 nodes t) p 0%N items; Ok (PList (fst r), snd r)
                      end = Ok r1) by (destruct v; try discriminate; exact H1).
        assert (H2' : match iter_items v with
                      | None => Crash CRASH_RUNTIME
                      | Some items => do r <- complete_items (cv2 nodes t) p 0%N items; Ok (PList (fst r), snd r)
                      end = Ok r2) by (destruct v; try discriminate; exact H2).
        clear H1 H2. destruct (iter_items v) as [items|]; [|discriminate].
        apply obind_ok in H1' as [[rs1 es1] [Hc1 H1]]. apply obind_ok in H2' as [[rs2 es2] [Hc2 H2]].
        inversion H1; inversion H2; subst; clear H1 H2. simpl. simpl in NA1, NA2.
        destruct Hl as [Hq Hr]. destruct rest as [|x rest]; [congruence|].
        destruct x as [k|i0].
        + (* the way to q0 goes through a key: no item is on it *)
          assert (He : complete_items (cv1 nodes t) p 0%N items = complete_items (cv2 nodes t) p 0%N items).
          { apply items_ext. intros j y. apply complete_value_eq.
            apply (link_step p (Above (PKey k :: rest)) (PIdx j)). split; assumption. }
          rewrite He in Hc1. rewrite Hc1 in Hc2. inversion Hc2; subst.
          split; [apply same_outside_refl|reflexivity].
        + assert (Hl' : forall j, link (p ++ [PIdx j]) (step (Above (PIdx i0 :: rest)) (PIdx j)))
            by (intros j; apply link_step; split; assumption).
          destruct (items_above (cv1 nodes t) (cv2 nodes t) p i0 rest) with (items := items) (i := 0%N)
            (rs1 := rs1) (es1 := es1) (rs2 := rs2) (es2 := es2) as [[Hlen Hnth] Hes]; try assumption.
          * intros j y Hne. apply complete_value_eq. specialize (Hl' j). simpl in Hl'.
            destruct (N.eqb_spec i0 j); [congruence|]. exact Hl'.
          * intros y c1 c2 Hy1 Hy2 NAc1 NAc2. specialize (Hl' i0). simpl in Hl'. rewrite N.eqb_refl in Hl'.
            assert (W1 : wf_res (p ++ [PIdx i0]) c1)
              by (eapply proj1; eapply (complete_value_wf sch tyres sub1 Hwf1); eassumption).
            assert (W2 : wf_res (p ++ [PIdx i0]) c2)
              by (eapply proj1; eapply (complete_value_wf sch tyres sub2 Hwf2); eassumption).
            destruct rest as [|z rest].
            -- split; [exact I|]. rewrite (wf_under _ _ W1 Hl'), (wf_under _ _ W2 Hl'). reflexivity.
            -- apply (IH (p ++ [PIdx i0]) y (z :: rest) Hnn Hl'); assumption.
          * split; [|exact Hes]. simpl. right. exists rs1, rs2. repeat split; try assumption.
            -- intros Hj. eapply Hnth; try eassumption; try lia.
            -- intros Hj. eapply Hnth; try eassumption; try lia.
      - assert (Hnn' : nn_ok t = true) by (destruct t; simpl in Hnn; auto; discriminate).
        intros r1 r2 H1 H2 NA1 NA2. simpl in H1, H2.
        apply obind_ok in H1 as [[a1 ea1] [Ha1 H1]]. apply obind_ok in H2 as [[a2 ea2] [Ha2 H2]].
        assert (NAa1 : no_abort ea1).
        { simpl in H1. destruct a1; inversion H1; subst; simpl in NA1; try exact NA1; apply no_abort_app in NA1; tauto. }
        assert (NAa2 : no_abort ea2).
        { simpl in H2. destruct a2; inversion H2; subst; simpl in NA2; try exact NA2; apply no_abort_app in NA2; tauto. }
        destruct (IH p v rest Hnn' Hl _ _ Ha1 Ha2 NAa1 NAa2) as [Hso He]. simpl in Hso, He, H1, H2.
        destruct Hl as [Hq Hr]. destruct rest as [|x rest]; [congruence|].
        pose proof (same_outside_none _ _ _ _ Hso) as Hnone.
        destruct a1.
        + assert (a2 = PNone) by (apply Hnone; reflexivity). subst a2.
          inversion H1; inversion H2; subst. split; [apply same_outside_refl|]. simpl.
          rewrite !eoff_app. rewrite He. reflexivity.
        + destruct a2; try (exfalso; assert (Hx : PBool b = PNone) by (apply Hnone; reflexivity); discriminate Hx);
            inversion H1; inversion H2; subst; split; assumption.
        + destruct a2; try (exfalso; assert (Hx : PInt z = PNone) by (apply Hnone; reflexivity); discriminate Hx);
            inversion H1; inversion H2; subst; split; assumption.
        + destruct a2; try (exfalso; assert (Hx : PFloat repr = PNone) by (apply Hnone; reflexivity); discriminate Hx);
            inversion H1; inversion H2; subst; split; assumption.
        + destruct a2; try (exfalso; assert (Hx : PStr s = PNone) by (apply Hnone; reflexivity); discriminate Hx);
            inversion H1; inversion H2; subst; split; assumption.
        + destruct a2; try (exfalso; assert (Hx : PList l = PNone) by (apply Hnone; reflexivity); discriminate Hx);
            inversion H1; inversion H2; subst; split; assumption.
        + destruct a2; try (exfalso; assert (Hx : PDict kvs = PNone) by (apply Hnone; reflexivity); discriminate Hx);
            inversion H1; inversion H2; subst; split; assumption.
    Qed.
  
    Lemma items_partial_eq (f1 f2 : path -> pv -> result) (e1 e2 : path -> pv -> list error) p :
      (forall j x, f1 (p ++ [PIdx j]) x = f2 (p ++ [PIdx j]) x) ->
      (forall j x, e1 (p ++ [PIdx j]) x = e2 (p ++ [PIdx j]) x) ->
      forall items i, items_partial f1 e1 p i items = items_partial f2 e2 p i items.
    Proof.
      intros Hf He. induction items as [|x items IH]; intros i; simpl; [reflexivity|].
      rewrite Hf, He, IH. reflexivity.
    Qed.

    Lemma complete_value_partial_eq nodes : forall t p v,
      link p Off ->
      complete_value_partial sch tyres sub1 nodes t p v = complete_value_partial sch tyres sub2 nodes t p v.
    Proof.
      induction t as [n|t IH|t IH]; intros p v Hl; simpl; [reflexivity| |apply IH; exact Hl].
      assert (He : forall items, items_partial (cv1 nodes t) (complete_value_partial sch tyres sub1 nodes t) p 0%N items =
                                 items_partial (cv2 nodes t) (complete_value_partial sch tyres sub2 nodes t) p 0%N items).
      { intros items. apply items_partial_eq; intros j x.
        - apply complete_value_eq. apply (link_step p Off (PIdx j) Hl).
        - apply IH. apply (link_step p Off (PIdx j) Hl). }
      destruct v; simpl; try reflexivity; apply He.
    Qed.

    Lemma complete_field_eq nodes t p v :
      link p Off ->
      complete_field sch tyres sub1 nodes t p v = complete_field sch tyres sub2 nodes t p v.
    Proof.
      intros Hl. unfold complete_field. rewrite (complete_value_eq nodes t p v Hl).
      rewrite (complete_value_partial_eq nodes t p v Hl). reflexivity.
    Qed.

    Lemma abort_result_has_abort (es : list error) p : ~ no_abort (es ++ [Err p [] ECoercion]).
    Proof. intros H. apply no_abort_app in H as [_ H]. inversion H as [|? ? Hx _]; subst. discriminate Hx. Qed.

    Lemma complete_field_above nodes t p v rest :
      nn_ok t = true -> link p (Above rest) ->
      oclaim (Above rest) (complete_field sch tyres sub1 nodes t p v) (complete_field sch tyres sub2 nodes t p v).
    Proof.
      intros Hnn Hl r1 r2 H1 H2 NA1 NA2. unfold complete_field in H1, H2.
      destruct (cv1 nodes t p v) as [c1| |k1 q1|k1] eqn:E1; try discriminate.
      2:{ destruct (Nat.eqb k1 REJ_COERCION); [|discriminate]. inversion H1; subst.
          exfalso. eapply abort_result_has_abort; exact NA1. }
      destruct (cv2 nodes t p v) as [c2| |k2 q2|k2] eqn:E2; try discriminate.
      2:{ destruct (Nat.eqb k2 REJ_COERCION); [|discriminate]. inversion H2; subst.
          exfalso. eapply abort_result_has_abort; exact NA2. }
      inversion H1; inversion H2; subst.
      exact (complete_value_above nodes t p v rest Hnn Hl _ _ E1 E2 NA1 NA2).
    Qed.

    Notation rf1 := (resolve_field sch coerce_args w1 tyres sub1).
    Notation rf2 := (resolve_field sch coerce_args w2 tyres sub2).
    Notation eg1 := (exec_groups sch coerce_args w1 tyres sub1).
    Notation eg2 := (exec_groups sch coerce_args w2 tyres sub2).

    Lemma resolve_field_eq tname parent k fd nodes p :
      link p Off -> rf1 tname parent k fd nodes p = rf2 tname parent k fd nodes p.
    Proof.
      intros Hl. unfold resolve_field. destruct nodes as [|node nodes]; [reflexivity|].
      destruct (coerce_args fd node) as [args| | |]; try reflexivity.
      destruct k; try reflexivity.
      - rewrite (Hw p (link_world p Off Hl ltac:(discriminate))).
        destruct (w2 p parent tname (f_name fd) args); try reflexivity; apply complete_field_eq; exact Hl.
      - apply complete_field_eq; exact Hl.
    Qed.

    Lemma resolve_field_above tname parent k fd nodes p rest :
      nn_ok (f_type fd) = true -> link p (Above rest) ->
      oclaim (Above rest) (rf1 tname parent k fd nodes p) (rf2 tname parent k fd nodes p).
    Proof.
      intros Hnn Hl. unfold resolve_field. destruct nodes as [|node nodes]; [intros r1 r2 H; discriminate H|].
      assert (Hsame : forall o : result, oclaim (Above rest) o o).
      { intros o r1 r2 H1 H2 _ _. rewrite H1 in H2. inversion H2; subst. split; [apply same_outside_refl|reflexivity]. }
      destruct (coerce_args fd node) as [args| | |]; try apply Hsame.
      destruct k; try apply Hsame.
      - rewrite (Hw p (link_world p (Above rest) Hl ltac:(discriminate))).
        destruct (w2 p parent tname (f_name fd) args); try apply Hsame;
          apply complete_field_above; assumption.
      - apply complete_field_above; assumption.
    Qed.

    Lemma exec_groups_ext tname parent p : forall g,
      (forall key k fd nodes, rf1 tname parent k fd nodes (p ++ [PKey key]) =
                              rf2 tname parent k fd nodes (p ++ [PKey key])) ->
      eg1 tname parent p g = eg2 tname parent p g.
    Proof.
      intros g Hrf. induction g as [|[key nodes] g IH]; simpl; [reflexivity|].
      destruct nodes as [|node nodes]; [reflexivity|].
      destruct (field_definition sch tname (sel_name node)) as [[[k fd]|]| | |]; simpl; try reflexivity.
      - rewrite Hrf, IH. reflexivity.
      - exact IH.
    Qed.

    Lemma exec_groups_above tname parent p k0 rest :
      link p (Above (PKey k0 :: rest)) ->
      forall g kvs1 es1 kvs2 es2,
        eg1 tname parent p g = Ok (kvs1, es1) -> eg2 tname parent p g = Ok (kvs2, es2) ->
        no_abort es1 -> no_abort es2 ->
        Forall2 (fun a b => fst a = fst b /\
                            (fst a = k0 -> same_outside rest (snd a) (snd b)) /\
                            (fst a <> k0 -> snd a = snd b)) kvs1 kvs2 /\
        eoff es1 = eoff es2.
    Proof.
      intros Hl. induction g as [|[key nodes] g IH]; intros kvs1 es1 kvs2 es2 H1 H2 NA1 NA2; simpl in H1, H2.
      - inversion H1; inversion H2; subst. split; [constructor|reflexivity].
      - destruct nodes as [|node nodes]; [discriminate|].
        destruct (field_definition sch tname (sel_name node)) as [[[k fd]|]| | |] eqn:Ed; simpl in H1, H2; try discriminate.
        + apply obind_ok in H1 as [[a1 ea1] [Ha1 H1]]. apply obind_ok in H1 as [[kv1 e1] [Hr1 H1]].
          apply obind_ok in H2 as [[a2 ea2] [Ha2 H2]]. apply obind_ok in H2 as [[kv2 e2] [Hr2 H2]].
          inversion H1; inversion H2; subst; clear H1 H2.
          apply no_abort_app in NA1 as [NA1a NA1b]. apply no_abort_app in NA2 as [NA2a NA2b].
          destruct (IH _ _ _ _ Hr1 Hr2 NA1b NA2b) as [Hf He].
          pose proof (field_definition_nn sch Hsch _ _ _ _ Ed) as Hnn.
          pose proof (link_step p _ (PKey key) Hl) as Hl'. simpl in Hl'.
          assert (Hhead : ((key = k0 -> same_outside rest a1 a2) /\ (key <> k0 -> a1 = a2)) /\ eoff ea1 = eoff ea2).
          { destruct (str_eqb_spec k0 key) as [->|Hne].
            - assert (W1 : wf_res (p ++ [PKey key]) (a1, ea1))
                by (eapply proj1; eapply (resolve_field_wf sch coerce_args w1 tyres sub1 Hwf1); eassumption).
              assert (W2 : wf_res (p ++ [PKey key]) (a2, ea2))
                by (eapply proj1; eapply (resolve_field_wf sch coerce_args w2 tyres sub2 Hwf2); eassumption).
              destruct rest as [|z rest].
              + split; [split; [intros _; exact I|congruence]|].
                pose proof (wf_under _ _ W1 Hl') as X1. pose proof (wf_under _ _ W2 Hl') as X2.
                simpl in X1, X2. rewrite X1, X2. reflexivity.
              + destruct (resolve_field_above tname parent k fd (node :: nodes) _ _ Hnn Hl' _ _ Ha1 Ha2 NA1a NA2a) as [Hso Hee].
                split; [split; [intros _; exact Hso|congruence]|exact Hee].
            - rewrite (resolve_field_eq tname parent k fd (node :: nodes) _ Hl') in Ha1.
              rewrite Ha1 in Ha2. inversion Ha2; subst.
              split; [split; [intros; apply same_outside_refl|reflexivity]|reflexivity]. }
          destruct Hhead as [[Hd1 Hd2] Hee]. split.
          * constructor; [|exact Hf]. simpl. auto.
          * rewrite !eoff_app. congruence.
        + eapply IH; eassumption.
    Qed.
  End Level.

  Notation ex1 := (exec_sel sch frags vs coerce_args w1 tyres cfuel).
  Notation ex2 := (exec_sel sch frags vs coerce_args w2 tyres cfuel).

  Lemma exec_sel_local : forall fuel tname v p sels r,
    link p r -> oclaim r (ex1 fuel tname v p sels) (ex2 fuel tname v p sels).
  Proof.
    induction fuel as [|fuel IH]; intros tname v p sels r Hl.
    - destruct r; simpl; [reflexivity|exact I|intros r1 r2 H; discriminate H].
    - pose proof (exec_sel_wf sch frags vs coerce_args w1 tyres cfuel Hsch fuel) as W1.
      pose proof (exec_sel_wf sch frags vs coerce_args w2 tyres cfuel Hsch fuel) as W2.
      destruct r as [| |rest].
      + simpl. destruct (collect_for sch frags vs cfuel tname sels) as [g| | |]; simpl; try reflexivity.
        rewrite (exec_groups_ext (ex1 fuel) (ex2 fuel) tname v p g); [reflexivity|].
        intros key k fd nodes. apply resolve_field_eq; [exact IH|]. apply (link_step p Off (PKey key) Hl).
      + exact I.
      + intros r1 r2 H1 H2 NA1 NA2. simpl in H1, H2.
        apply obind_ok in H1 as [g [Hg H1]]. rewrite Hg in H2. simpl in H2.
        apply obind_ok in H1 as [[kvs1 es1] [He1 H1]]. apply obind_ok in H2 as [[kvs2 es2] [He2 H2]].
        inversion H1; inversion H2; subst; clear H1 H2. simpl. simpl in NA1, NA2.
        destruct Hl as [Hq Hr]. destruct rest as [|x rest]; [congruence|].
        destruct x as [k0|i0].
        * destruct (exec_groups_above (ex1 fuel) (ex2 fuel) IH W1 W2 tname v p k0 rest (conj Hq Hr) g _ _ _ _ He1 He2 NA1 NA2) as [Hf Hee].
          split; [|exact Hee]. right. exists kvs1, kvs2. auto.
        * rewrite (exec_groups_ext (ex1 fuel) (ex2 fuel) tname v p g) in He1.
          -- rewrite He1 in He2. inversion He2; subst. split; [left; reflexivity|reflexivity].
          -- intros key k fd nodes. apply resolve_field_eq; [exact IH|].
             apply (link_step p (Above (PIdx i0 :: rest)) (PKey key)). split; assumption.
  Qed.
End Locality.

(* worlds that agree everywhere except at or below q0 give results that agree
   everywhere except at or below q0 *)
Theorem exec_sel_locality sch frags vs coerce_args tyres cfuel w1 w2 q0 :
  schema_nn_ok sch ->
  (forall p', prefixb q0 p' = false -> forall a b c d, w1 p' a b c d = w2 p' a b c d) ->
  forall fuel tname v sels d1 es1 d2 es2,
    exec_sel sch frags vs coerce_args w1 tyres cfuel fuel tname v [] sels = Ok (d1, es1) ->
    exec_sel sch frags vs coerce_args w2 tyres cfuel fuel tname v [] sels = Ok (d2, es2) ->
    no_abort es1 -> no_abort es2 ->
    same_outside q0 d1 d2 /\ errors_off q0 es1 = errors_off q0 es2.
Proof.
  intros Hsch Hw fuel tname v sels d1 es1 d2 es2 H1 H2 NA1 NA2.
  destruct q0 as [|x rest] eqn:Eq.
  - split; [exact I|]. unfold errors_off. simpl.
    assert (Hn : forall es : list error, filter (fun _ : error => false) es = []) by (induction es; auto).
    rewrite !Hn. reflexivity.
  - assert (Hl : x :: rest = [] ++ x :: rest /\ x :: rest <> []) by (split; [reflexivity|discriminate]).
    exact (exec_sel_local sch frags vs coerce_args tyres cfuel w1 w2 (x :: rest) Hsch Hw
             fuel tname v [] sels (Above (x :: rest)) Hl _ _ H1 H2 NA1 NA2).
Qed.
