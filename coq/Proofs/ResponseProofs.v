(* Proofs for C10: the boolean checkers decide the specification predicates;
   the response model produces well-formed responses at every stage. *)
From PyGql Require Import Base.Str Lang.LocModel Exec.ResponseModel Spec.ResponseSpec
  Exec.ResponseCheck Proofs.ResponseLocProofs.

(* closed comparisons of key constants are evaluated *)
Ltac keys :=
  repeat match goal with
  | |- context [str_eqb ?a ?b] =>
      let v := eval vm_compute in (str_eqb a b) in
      match v with
      | true => change (str_eqb a b) with true
      | false => change (str_eqb a b) with false
      end
  end.

Ltac keys_in H :=
  repeat match type of H with
  | context [str_eqb ?a ?b] =>
      let v := eval vm_compute in (str_eqb a b) in
      match v with
      | true => change (str_eqb a b) with true in H
      | false => change (str_eqb a b) with false in H
      end
  end.

(* ------------------------------------------------ checkers decide the spec *)
Lemma forallb_Forall_iff {A} (f : A -> bool) (P : A -> Prop) :
  (forall x, f x = true <-> P x) -> forall l, forallb f l = true <-> Forall P l.
Proof.
  intros H l. induction l as [|x l IH]; simpl.
  - split; auto.
  - rewrite andb_true_iff, H, IH. split.
    + intros [Hx Hl]; constructor; assumption.
    + intros Hf; inversion Hf; subst; split; assumption.
Qed.

Lemma nodup_b_iff l : nodup_b l = true <-> NoDup l.
Proof.
  induction l as [|x l IH]; simpl.
  - split; [constructor|reflexivity].
  - rewrite andb_true_iff, negb_true_iff. split.
    + intros [Hm Hn]. constructor; [|apply IH; exact Hn].
      intro Hin. apply mem_str_In in Hin. congruence.
    + intros H. inversion H; subst. split; [|apply IH; assumption].
      destruct (mem_str x l) eqn:E; [|reflexivity]. apply mem_str_In in E. contradiction.
Qed.

Lemma wf_location_b_iff doc j : wf_location_b doc j = true <-> wf_location doc j.
Proof.
  split.
  - destruct j as [| | | | | |kvs]; simpl; try discriminate.
    rewrite andb_true_iff. intros [Hlen H].
    destruct (alookup k_line kvs) as [[| |l| | | |]|] eqn:El; try discriminate.
    destruct (alookup k_column kvs) as [[| |c| | | |]|] eqn:Ec; try discriminate.
    rewrite !andb_true_iff in H. destruct H as [[H1 H2] H3].
    exists kvs, l, c. apply Nat.eqb_eq in Hlen. apply Z.leb_le in H1, H2.
    repeat split; assumption.
  - intros (kvs & l & c & -> & Hlen & Hl & Hc & H1 & H2 & H3).
    simpl. rewrite Hlen, Hl, Hc, H3. apply Z.leb_le in H1, H2. rewrite H1, H2. reflexivity.
Qed.

Lemma wf_pseg_b_iff j : wf_pseg_b j = true <-> wf_pseg j.
Proof.
  split.
  - destruct j; simpl; try discriminate.
    + intros H. right. exists z. split; [reflexivity|apply Z.leb_le; exact H].
    + intros _. left. eauto.
  - intros [(k & ->)|(i & -> & Hi)]; simpl; [reflexivity|apply Z.leb_le; exact Hi].
Qed.

Lemma wf_error_b_iff doc j : wf_error_b doc j = true <-> wf_error doc j.
Proof.
  split.
  - destruct j as [| | | | | |kvs]; simpl; try discriminate.
    rewrite !andb_true_iff. intros [[[[[Hnd Hkeys] Hm] Hl] Hp] He].
    exists kvs. split; [reflexivity|]. split; [apply nodup_b_iff; exact Hnd|].
    split.
    { intros k Hk. rewrite forallb_forall in Hkeys. apply mem_str_In. apply Hkeys. exact Hk. }
    split.
    { destruct (alookup k_message kvs) as [[| | | |m| |]|]; try discriminate. eauto. }
    split.
    { intros v Hv. rewrite Hv in Hl. destruct v as [| | | | |ls|]; try discriminate.
      exists ls. split; [reflexivity|].
      apply (forallb_Forall_iff _ _ (wf_location_b_iff doc)). exact Hl. }
    split.
    { intros v Hv. rewrite Hv in Hp. destruct v as [| | | | |ps|]; try discriminate.
      exists ps. split; [reflexivity|].
      apply (forallb_Forall_iff _ _ wf_pseg_b_iff). exact Hp. }
    intros v Hv. rewrite Hv in He. destruct v; try discriminate. eauto.
  - intros (kvs & -> & Hnd & Hkeys & (m & Hm) & Hl & Hp & He). unfold wf_error_b.
    rewrite !andb_true_iff. repeat split.
    + apply nodup_b_iff; exact Hnd.
    + apply forallb_forall. intros k Hk. apply mem_str_In. apply Hkeys. exact Hk.
    + rewrite Hm. reflexivity.
    + destruct (alookup k_locations kvs) as [v|]; [|reflexivity].
      destruct (Hl v eq_refl) as (ls & -> & Hf).
      apply (forallb_Forall_iff _ _ (wf_location_b_iff doc)). exact Hf.
    + destruct (alookup k_path kvs) as [v|]; [|reflexivity].
      destruct (Hp v eq_refl) as (ps & -> & Hf).
      apply (forallb_Forall_iff _ _ wf_pseg_b_iff). exact Hf.
    + destruct (alookup k_extensions kvs) as [v|]; [|reflexivity].
      destruct (He v eq_refl) as (o & ->). reflexivity.
Qed.

Lemma wf_response_b_iff doc r : wf_response_b doc r = true <-> wf_response doc r.
Proof.
  split.
  - destruct r as [| | | | | |kvs]; try discriminate.
    unfold wf_response_b. rewrite !andb_true_iff. intros [[[[Hnd Hkeys] Hs] He] Hd].
    exists kvs. split; [reflexivity|]. split; [apply nodup_b_iff; exact Hnd|].
    split.
    { intros k Hk. rewrite forallb_forall in Hkeys. apply mem_str_In. apply Hkeys. exact Hk. }
    split; [exact Hs|]. split.
    { intros v Hv. rewrite Hv in He. destruct v as [| | | | |[|e es]|]; try discriminate.
      exists (e :: es). split; [reflexivity|]. split; [discriminate|].
      apply (forallb_Forall_iff _ _ (wf_error_b_iff doc)). exact He. }
    intros Hnone. rewrite Hnone in Hd.
    destruct (alookup k_errors kvs); [discriminate|discriminate Hd].
  - intros (kvs & -> & Hnd & Hkeys & Hs & He & Hd).
    unfold wf_response_b. rewrite !andb_true_iff. repeat split.
    + apply nodup_b_iff; exact Hnd.
    + apply forallb_forall. intros k Hk. apply mem_str_In. apply Hkeys. exact Hk.
    + exact Hs.
    + destruct (alookup k_errors kvs) as [v|]; [|reflexivity].
      destruct (He v eq_refl) as (es & -> & Hne & Hf).
      destruct es as [|e es]; [congruence|].
      apply (forallb_Forall_iff _ _ (wf_error_b_iff doc)). exact Hf.
    + destruct (alookup k_data kvs) eqn:Ed; [reflexivity|].
      destruct (alookup k_errors kvs) eqn:Ee; [reflexivity|].
      exfalso. apply (Hd eq_refl). reflexivity.
Qed.

Lemma data_presence_b_iff early r : data_presence_b early r = true <-> data_presence early r.
Proof.
  split.
  - destruct r as [| | | | | |kvs]; simpl; try discriminate.
    intros H. apply Bool.eqb_prop in H. exists kvs. split; [reflexivity|].
    destruct (alookup k_data kvs); subst early; split; congruence.
  - intros (kvs & -> & H). simpl.
    destruct (alookup k_data kvs); destruct early; try reflexivity; exfalso.
    + destruct H as [_ H]. specialize (H eq_refl). discriminate.
    + destruct H as [H _]. specialize (H eq_refl). discriminate.
Qed.

Lemma null_error_match_b_iff obligated r :
  null_error_match_b obligated r = true <-> null_error_match obligated r.
Proof.
  unfold null_error_match_b, null_error_match. rewrite forallb_forall. split.
  - intros H p d Hin Hd Hg. specialize (H p Hin). rewrite Hd, Hg in H.
    apply Nat.eqb_eq. exact H.
  - intros H p Hin. destruct (response_data r) as [d|] eqn:Ed; [|reflexivity].
    destruct (jget d p) as [[| | | | | |]|] eqn:Eg; try reflexivity.
    apply Nat.eqb_eq. apply (H p d Hin eq_refl Eg).
Qed.

(* ------------------------------------------------ strict_json equations *)
Lemma strict_arr_cons a l : strict_json (JArr (a :: l)) = strict_json a && strict_json (JArr l).
Proof. reflexivity. Qed.

Lemma strict_obj_cons k a l :
  strict_json (JObj ((k, a) :: l)) = strict_json a && strict_json (JObj l).
Proof. reflexivity. Qed.

Lemma strict_obj_app a b :
  strict_json (JObj (a ++ b)) = strict_json (JObj a) && strict_json (JObj b).
Proof.
  induction a as [|[k v] a IH]; [reflexivity|].
  rewrite <- app_comm_cons, !strict_obj_cons, IH, andb_assoc. reflexivity.
Qed.

Lemma strict_arr_forallb l : strict_json (JArr l) = forallb strict_json l.
Proof. induction l as [|a l IH]; [reflexivity|]. rewrite strict_arr_cons, IH. reflexivity. Qed.

(* ------------------------------------------------ locations *)
Lemma index_to_loc_total doc p : p <= length doc -> exists lc, index_to_loc doc p = Ok lc.
Proof.
  intros Hp. unfold index_to_loc.
  assert (E : (length doc <? p) = false) by (apply Nat.ltb_ge; exact Hp).
  destruct doc as [|x s]; destruct p as [|p]; rewrite ?E; eauto.
Qed.

Lemma loc_json_wf doc p lc colkey :
  index_to_loc doc p = Ok lc -> colkey = k_column ->
  wf_location_b doc (loc_json colkey lc) = true /\ strict_json (loc_json colkey lc) = true.
Proof.
  intros H ->. destruct lc as [l c].
  apply index_to_loc_inside in H. destruct H as (Hl & Hc & Hin).
  split; [|reflexivity].
  unfold wf_location_b, loc_json. cbn [fst snd length alookup]. keys.
  cbn [Nat.eqb andb]. rewrite !Nat2Z.id, Hin.
  assert (E1 : (1 <=? Z.of_nat l)%Z = true) by (apply Z.leb_le; lia).
  assert (E2 : (1 <=? Z.of_nat c)%Z = true) by (apply Z.leb_le; lia).
  rewrite E1, E2. reflexivity.
Qed.

Lemma locations_of_ok doc nodes :
  nodes_ok_b doc nodes = true ->
  exists locs, locations_of doc nodes = Ok locs /\
               forallb (wf_location_b doc) locs = true /\ strict_json (JArr locs) = true.
Proof.
  induction nodes as [|n nodes IH]; intros H.
  - exists []. repeat split; reflexivity.
  - simpl in H. apply andb_true_iff in H. destruct H as [Hn Hr].
    destruct (IH Hr) as (locs & El & Hw & Hs). cbn [locations_of].
    destruct (nr_loc n) as [[st en]|]; [|eauto].
    destruct (nr_has_source n); [|eauto].
    apply Nat.leb_le in Hn. destruct (index_to_loc_total doc st Hn) as (lc & Elc).
    rewrite Elc. cbn [obind]. rewrite El. cbn [obind].
    destruct (loc_json_wf doc st lc k_column Elc eq_refl) as [W S].
    exists (loc_json k_column lc :: locs). split; [reflexivity|].
    split; [cbn [forallb]; rewrite W, Hw; reflexivity|].
    rewrite strict_arr_cons, S, Hs. reflexivity.
Qed.

Lemma pseg_json_wf sg : wf_pseg_b (pseg_json sg) = true /\ strict_json (pseg_json sg) = true.
Proof.
  destruct sg as [k|i]; simpl; split; try reflexivity. apply Z.leb_le. lia.
Qed.

Lemma path_json_wf (p : path) :
  forallb wf_pseg_b (map pseg_json p) = true /\ strict_json (JArr (map pseg_json p)) = true.
Proof.
  induction p as [|sg p [IH1 IH2]]; [split; reflexivity|].
  destruct (pseg_json_wf sg) as [W S]. split.
  - cbn [map forallb]. rewrite W, IH1. reflexivity.
  - cbn [map]. rewrite strict_arr_cons, S, IH2. reflexivity.
Qed.

(* ------------------------------------------------ to_dict *)
Definition ext_part (ext : option (list (str * json))) : list (str * json) :=
  match ext with Some (kv :: r) => [(k_extensions, JObj (kv :: r))] | _ => [] end.

Ltac wf_error_compute :=
  unfold wf_error_b;
  cbn [app map fst snd nodup_b forallb alookup mem_str existsb error_keys ext_part];
  keys; cbn [negb andb orb].

Lemma located_ext_ok doc msg nodes pth ext :
  nodes_ok_b doc nodes = true ->
  match ext with Some kvs => strict_json (JObj kvs) | None => true end = true ->
  exists d, located_to_dict doc msg nodes pth = Ok d /\
            wf_error_b doc (JObj (d ++ ext_part ext)) = true /\
            strict_json (JObj (d ++ ext_part ext)) = true.
Proof.
  intros Hn Hext. destruct (locations_of_ok doc nodes Hn) as (locs & El & Hw & Hs).
  unfold located_to_dict. rewrite El. cbn [obind].
  eexists. split; [reflexivity|].
  destruct locs as [|l0 locs]; destruct pth as [[|sg p]|]; destruct ext as [[|kv r]|];
    cbn [ext_part app];
    try (destruct (path_json_wf (sg :: p)) as [Hp1 Hp2];
         set (pj := map pseg_json (sg :: p)) in *; clearbody pj);
    try (set (ll := l0 :: locs) in *; clearbody ll);
    try (set (ee := kv :: r) in *; clearbody ee);
    (split; [wf_error_compute; rewrite ?Hw, ?Hp1; reflexivity|]);
    cbn [app ext_part]; rewrite ?strict_obj_cons, ?Hs, ?Hp2, ?Hext; reflexivity.
Qed.

Lemma to_dict_ok doc e :
  err_ok_b doc e = true -> is_syntax e = false ->
  exists j, to_dict doc e = Ok j /\ wf_error_b doc j = true /\ strict_json j = true.
Proof.
  intros Hok Hsyn. destruct e as [m p|m nodes pth|m nodes pth ext|m]; try discriminate; simpl in Hok.
  - destruct (located_ext_ok doc m nodes pth None Hok eq_refl) as (d & Ed & W & S).
    cbn [ext_part] in W, S. rewrite app_nil_r in W, S.
    exists (JObj d). cbn [to_dict]. rewrite Ed. cbn [obind]. repeat split; assumption.
  - apply andb_true_iff in Hok. destruct Hok as [Hn Hext].
    destruct (located_ext_ok doc m nodes pth ext Hn Hext) as (d & Ed & W & S).
    exists (JObj (d ++ ext_part ext)). cbn [to_dict]. rewrite Ed. cbn [obind].
    repeat split; assumption.
  - exists (JObj [(k_message, JStr m)]). repeat split; reflexivity.
Qed.

(* the syntax-error dictionary: total, well-formed once "columne" reads "column" *)
Lemma to_dict_syntax_ok doc m p :
  exists j, to_dict doc (ESyntax m p) = Ok j /\
            wf_error_b doc (rename_err j) = true /\ strict_json j = true /\
            wf_error_b doc j = false.
Proof.
  assert (Hp : Nat.min p (length doc) <= length doc) by lia.
  destruct (index_to_loc_total doc _ Hp) as (lc & Elc).
  cbn [to_dict]. rewrite Elc. cbn [obind]. eexists. split; [reflexivity|].
  destruct (loc_json_wf doc _ lc k_column Elc eq_refl) as [W S].
  split; [|split].
  - unfold rename_err, rename_loc, loc_json in *.
    cbn [map fst snd]. keys. cbn [map fst snd]. keys.
    wf_error_compute. cbn [forallb]. rewrite W. reflexivity.
  - reflexivity.
  - unfold wf_error_b, loc_json.
    cbn [app map fst snd nodup_b forallb alookup mem_str existsb error_keys]. keys.
    cbn [negb andb orb]. unfold wf_location_b. cbn [length alookup fst snd]. keys.
    cbn [Nat.eqb andb]. reflexivity.
Qed.

(* ------------------------------------------------ response() *)
Lemma map_outcome_ok doc errs :
  forallb (err_ok_b doc) errs = true ->
  forallb (fun e => negb (is_syntax e)) errs = true ->
  exists js, map_outcome (to_dict doc) errs = Ok js /\ length js = length errs /\
             forallb (wf_error_b doc) js = true /\ strict_json (JArr js) = true.
Proof.
  induction errs as [|e errs IH]; intros Hok Hsyn.
  - exists []. repeat split; reflexivity.
  - cbn [forallb] in Hok, Hsyn. apply andb_true_iff in Hok, Hsyn.
    destruct Hok as [Hok1 Hok2]. destruct Hsyn as [Hs1 Hs2].
    apply negb_true_iff in Hs1.
    destruct (to_dict_ok doc e Hok1 Hs1) as (j & Ej & Wj & Sj).
    destruct (IH Hok2 Hs2) as (js & Ejs & Hlen & Wjs & Sjs).
    exists (j :: js). cbn [map_outcome]. rewrite Ej. cbn [obind]. rewrite Ejs. cbn [obind].
    split; [reflexivity|]. split; [simpl; congruence|].
    split; [cbn [forallb]; rewrite Wj, Wjs; reflexivity|].
    rewrite strict_arr_cons, Sj, Sjs. reflexivity.
Qed.

Definition data_strict (data : option json) : bool :=
  match data with Some d => strict_json d | None => true end.
Definition data_unset (data : option json) : bool :=
  match data with None => true | Some _ => false end.

Lemma response_shape_ok doc data js :
  forallb (wf_error_b doc) js = true -> strict_json (JArr js) = true ->
  (data = None -> js <> []) -> data_strict data = true ->
  let r := JObj ((match js with [] => [] | _ => [(k_errors, JArr js)] end)
                   ++ (match data with Some d => [(k_data, d)] | None => [] end)) in
  wf_response_b doc r = true /\ data_presence_b (data_unset data) r = true.
Proof.
  intros Hw Hs Hne Hd r. subst r.
  destruct js as [|j js]; destruct data as [d|]; cbn [app data_unset data_strict] in *;
    try (exfalso; apply (Hne eq_refl); reflexivity);
    (split; [|cbn [data_presence_b alookup]; keys; reflexivity]);
    unfold wf_response_b; cbn [map fst alookup]; keys;
    rewrite ?strict_obj_cons, ?Hs, ?Hd, ?Hw; reflexivity.
Qed.

Lemma response_ok doc data errs :
  forallb (err_ok_b doc) errs = true ->
  forallb (fun e => negb (is_syntax e)) errs = true ->
  (data = None -> errs <> []) -> data_strict data = true ->
  exists r, response doc (Result data errs) = Ok r /\
            wf_response_b doc r = true /\ data_presence_b (data_unset data) r = true.
Proof.
  intros Hok Hsyn Hne Hd.
  destruct (map_outcome_ok doc errs Hok Hsyn) as (js & Ejs & Hlen & Hw & Hs).
  unfold response. cbn [r_errors r_data]. rewrite Ejs. cbn [obind].
  eexists. split; [reflexivity|].
  apply response_shape_ok; try assumption.
  intros Hn Hj. subst js. destruct errs; [apply (Hne Hn); reflexivity|discriminate].
Qed.

(* the syntax-error stage *)
Lemma response_syntax_ok doc m p :
  exists r, response doc (Result None [ESyntax m p]) = Ok r /\
            wf_response_b doc (rename_columne r) = true /\
            wf_response_b doc r = false /\
            data_presence_b true r = true.
Proof.
  destruct (to_dict_syntax_ok doc m p) as (j & Ej & W & S & Wbad).
  unfold response. cbn [r_errors r_data map_outcome]. rewrite Ej. cbn [obind app].
  eexists. split; [reflexivity|].
  assert (Sr : strict_json (rename_err j) = true).
  { cbn [to_dict] in Ej. destruct (index_to_loc doc (Nat.min p (length doc))); try discriminate.
    cbn [obind] in Ej. inversion Ej; subst j. reflexivity. }
  split; [|split].
  - unfold rename_columne. cbn [map fst snd]. keys. cbn [map].
    unfold wf_response_b. cbn [map fst alookup]. keys.
    rewrite strict_obj_cons, strict_arr_cons, Sr. cbn [forallb]. rewrite W. reflexivity.
  - unfold wf_response_b. cbn [map fst alookup]. keys.
    rewrite strict_obj_cons, strict_arr_cons, S. cbn [forallb]. rewrite Wbad. reflexivity.
  - cbn [data_presence_b alookup]. keys. reflexivity.
Qed.

(* ------------------------------------------------ the whole pipeline *)
Lemma float_check_is_finite l :
  forallb (fun f => match coerce_float (fun x => x) f with Ok _ => true | _ => false end) l
  = forallb is_finite l.
Proof.
  induction l as [|f l IH]; [reflexivity|]. cbn [forallb]. rewrite IH.
  destruct f; reflexivity.
Qed.

Lemma pipeline_core doc st :
  stages_wf_b doc st = true ->
  match pipeline_model doc st with
  | Ok r =>
      data_presence_b (failed_early st) r = true /\
      match st_parse st with
      | Some _ => wf_response_b doc (rename_columne r) = true /\ wf_response_b doc r = false
      | None => wf_response_b doc r = true
      end
  | Crash k =>
      k = crash_RuntimeError /\ failed_early st = false /\ st_opselect st = None /\
      st_varcoercion st = [] /\ st_rootcoercion st = [] /\
      forallb is_finite (st_float_returns st) = false
  | _ => False
  end.
Proof.
  unfold stages_wf_b. rewrite !andb_true_iff.
  intros [[[[[[[[V1 V2] C1] C2] R1] R2] X1] X2] XS].
  unfold pipeline_model, process, failed_early, failed_early_pre.
  destruct (st_parse st) as [[m p]|].
  - cbn [obind]. destruct (response_syntax_ok doc m p) as (r & Er & W & Wbad & D).
    rewrite Er. auto.
  - destruct (st_validation st) as [|e es] eqn:Ev.
    + destruct (st_opselect st) as [m|].
      * cbn [obind].
        destruct (response_ok doc (Some JNull) [EExecution m]) as (r & Er & W & D);
          try reflexivity; [intros; discriminate|].
        rewrite Er. auto.
      * destruct (st_varcoercion st) as [|c cs] eqn:Ec.
        -- destruct (st_rootcoercion st) as [|rc rcs] eqn:Er0.
           ++ rewrite float_check_is_finite.
              destruct (forallb is_finite (st_float_returns st)) eqn:Ef.
              ** cbn [obind].
                 destruct (response_ok doc (Some (fst (st_exec st))) (snd (st_exec st)))
                   as (r & Er & W & D); try assumption; [intros; discriminate|].
                 rewrite Er. auto.
              ** cbn [obind]. repeat split; reflexivity.
           ++ cbn [obind].
              destruct (response_ok doc (Some JNull) (rc :: rcs)) as (r & Er & W & D);
                try assumption; try reflexivity; [intros; discriminate|].
              rewrite Er. auto.
        -- cbn [obind].
           destruct (response_ok doc (Some JNull) (c :: cs)) as (r & Er & W & D);
             try assumption; try reflexivity; [intros; discriminate|].
           rewrite Er. auto.
    + cbn [obind].
      destruct (response_ok doc None (e :: es)) as (r & Er & W & D);
        try assumption; try reflexivity; [intros; discriminate|].
      rewrite Er. auto.
Qed.

Theorem pipeline_wf_partial doc st r :
  stages_wf_b doc st = true -> pipeline_model doc st = Ok r ->
  (st_parse st = None -> wf_response doc r) /\
  (st_parse st <> None -> wf_response doc (rename_columne r)).
Proof.
  intros Hwf E. pose proof (pipeline_core doc st Hwf) as H. rewrite E in H.
  destruct H as [_ H]. destruct (st_parse st) as [x|].
  - split; [discriminate|]. intros _. apply wf_response_b_iff. apply H.
  - split; [|congruence]. intros _. apply wf_response_b_iff. exact H.
Qed.

Theorem pipeline_wf_refuted :
  exists doc st r, stages_wf_b doc st = true /\ pipeline_model doc st = Ok r /\
                   ~ wf_response doc r.
Proof.
  exists [123%N], (Stages (Some ([120%N], 1)) [] None [] [] [] (JNull, [])).
  eexists. split; [reflexivity|]. split; [reflexivity|].
  intro H. apply wf_response_b_iff in H. vm_compute in H. discriminate.
Qed.

Theorem pipeline_syntax_never_wf doc st r :
  stages_wf_b doc st = true -> pipeline_model doc st = Ok r ->
  st_parse st <> None -> ~ wf_response doc r.
Proof.
  intros Hwf E Hp Hw. pose proof (pipeline_core doc st Hwf) as H. rewrite E in H.
  destruct H as [_ H]. destruct (st_parse st) as [x|]; [|congruence].
  apply wf_response_b_iff in Hw. destruct H as [_ H]. congruence.
Qed.

Theorem pipeline_data_presence doc st r :
  stages_wf_b doc st = true -> pipeline_model doc st = Ok r ->
  data_presence (failed_early st) r.
Proof.
  intros Hwf E. pose proof (pipeline_core doc st Hwf) as H. rewrite E in H.
  apply data_presence_b_iff. apply H.
Qed.

Theorem pipeline_total doc st :
  stages_wf_b doc st = true ->
  (exists r, pipeline_model doc st = Ok r) \/
  (pipeline_model doc st = Crash crash_RuntimeError /\ failed_early st = false /\
   exists f, In f (st_float_returns st) /\ is_finite f = false).
Proof.
  intros Hwf. pose proof (pipeline_core doc st Hwf) as H.
  destruct (pipeline_model doc st) as [r| |k p|k]; try contradiction.
  - left. eauto.
  - right. destruct H as (-> & He & _ & _ & _ & Hf). split; [reflexivity|]. split; [exact He|].
    clear - Hf. induction (st_float_returns st) as [|f l IH]; [discriminate|].
    cbn [forallb] in Hf. destruct (is_finite f) eqn:E.
    + destruct (IH Hf) as (g & Hg & Eg). exists g. split; [right; exact Hg|exact Eg].
    + exists f. split; [left; reflexivity|exact E].
Qed.

(* Float: whatever coerce_float lets through is finite *)
Theorem coerce_float_finite {A} (py_float : A -> jnum) x f :
  coerce_float py_float x = Ok f -> is_finite f = true.
Proof.
  unfold coerce_float. destruct (is_finite (py_float x)) eqn:E; [|discriminate].
  intros H. inversion H; subst. exact E.
Qed.

(* ------------------------------------------------ extensions and paths survive *)
Definition err_path (e : gql_error) : option path :=
  match e with
  | ELocated _ _ pth => pth
  | EResolver _ _ pth _ => pth
  | _ => None
  end.

Definition err_ext (e : gql_error) : option (list (str * json)) :=
  match e with EResolver _ _ _ (Some (kv :: r)) => Some (kv :: r) | _ => None end.

Definition nonempty_path (p : option path) : option path :=
  match p with Some (sg :: r) => Some (sg :: r) | _ => None end.

Lemma path_of_jsons_roundtrip (p : path) : path_of_jsons (map pseg_json p) = Some p.
Proof.
  induction p as [|sg p IH]; [reflexivity|]. cbn [map path_of_jsons]. rewrite IH.
  destruct sg as [k|i]; cbn [pseg_json pseg_of_json]; [reflexivity|].
  assert (E : (0 <=? Z.of_nat i)%Z = true) by (apply Z.leb_le; lia).
  rewrite E, Nat2Z.id. reflexivity.
Qed.

Lemma located_ext_lookup doc msg nodes pth ext d :
  located_to_dict doc msg nodes pth = Ok d ->
  error_path (JObj (d ++ ext_part ext)) = nonempty_path pth /\
  alookup k_extensions (d ++ ext_part ext)
  = match ext with Some (kv :: r) => Some (JObj (kv :: r)) | _ => None end.
Proof.
  unfold located_to_dict. destruct (locations_of doc nodes) as [locs| | |]; try discriminate.
  cbn [obind]. intros H. inversion H; subst d. clear H.
  destruct locs as [|l0 locs]; destruct pth as [[|sg p]|]; destruct ext as [[|kv r]|];
    cbn [ext_part app nonempty_path];
    try (pose proof (path_of_jsons_roundtrip (sg :: p)) as Hrt;
         change (map pseg_json (sg :: p)) with (pseg_json sg :: map pseg_json p) in *;
         set (pj := pseg_json sg :: map pseg_json p) in *; clearbody pj);
    unfold error_path; repeat (progress (cbn [alookup]; keys)); cbn [alookup];
    rewrite ?Hrt; split; reflexivity.
Qed.

Lemma to_dict_path_ext doc e j :
  to_dict doc e = Ok j ->
  error_path j = nonempty_path (err_path e) /\
  match j with
  | JObj kvs => alookup k_extensions kvs = option_map JObj (err_ext e)
  | _ => False
  end.
Proof.
  destruct e as [m p|m nodes pth|m nodes pth ext|m]; cbn [to_dict err_path err_ext].
  - destruct (index_to_loc doc (Nat.min p (length doc))); try discriminate.
    cbn [obind]. intros H; inversion H; subst j.
    unfold error_path. cbn [alookup]. keys. split; reflexivity.
  - destruct (located_to_dict doc m nodes pth) as [d| | |] eqn:Ed; try discriminate.
    cbn [obind]. intros H; inversion H; subst j.
    destruct (located_ext_lookup doc m nodes pth None d Ed) as [H1 H2].
    cbn [ext_part] in H1, H2. rewrite app_nil_r in H1, H2. split; assumption.
  - destruct (located_to_dict doc m nodes pth) as [d| | |] eqn:Ed; try discriminate.
    cbn [obind]. intros H; inversion H; subst j.
    destruct (located_ext_lookup doc m nodes pth ext d Ed) as [H1 H2].
    split; [exact H1|]. fold (ext_part ext). rewrite H2.
    destruct ext as [[|kv r]|]; reflexivity.
  - intros H; inversion H; subst j. unfold error_path. cbn [alookup]. keys. split; reflexivity.
Qed.

Lemma map_outcome_nth {A B} (f : A -> outcome B) l js i x :
  map_outcome f l = Ok js -> nth_error l i = Some x ->
  exists y, nth_error js i = Some y /\ f x = Ok y.
Proof.
  revert js i. induction l as [|a l IH]; intros js i H Hn.
  - destruct i; discriminate.
  - cbn [map_outcome] in H. destruct (f a) as [y| | |] eqn:Ea; try discriminate.
    cbn [obind] in H. destruct (map_outcome f l) as [ys| | |] eqn:El; try discriminate.
    cbn [obind] in H. inversion H; subst js. destruct i as [|i]; cbn [nth_error] in *.
    + inversion Hn; subst. eauto.
    + apply (IH ys i eq_refl Hn).
Qed.

Lemma map_outcome_paths doc errs js :
  map_outcome (to_dict doc) errs = Ok js ->
  map error_path js = map (fun e => nonempty_path (err_path e)) errs.
Proof.
  revert js. induction errs as [|e errs IH]; intros js H.
  - inversion H. reflexivity.
  - cbn [map_outcome] in H. destruct (to_dict doc e) as [j| | |] eqn:Ej; try discriminate.
    cbn [obind] in H. destruct (map_outcome (to_dict doc) errs) as [ys| | |]; try discriminate.
    cbn [obind] in H. inversion H; subst js. cbn [map].
    rewrite (IH ys eq_refl). destruct (to_dict_path_ext doc e j Ej) as [-> _]. reflexivity.
Qed.

Lemma response_parts doc data errs r :
  response doc (Result data errs) = Ok r ->
  exists js, map_outcome (to_dict doc) errs = Ok js /\
             response_errors r = js /\ response_data r = data.
Proof.
  unfold response. cbn [r_errors r_data].
  destruct (map_outcome (to_dict doc) errs) as [js| | |]; try discriminate.
  cbn [obind]. intros H; inversion H; subst r. exists js. split; [reflexivity|].
  destruct js as [|j js]; destruct data as [d|]; cbn [app];
    unfold response_errors, response_data; cbn [alookup]; keys; split; reflexivity.
Qed.

Theorem extensions_passthrough doc res r i m nodes pth kv ext :
  response doc res = Ok r ->
  nth_error (r_errors res) i = Some (EResolver m nodes pth (Some (kv :: ext))) ->
  exists kvs, nth_error (response_errors r) i = Some (JObj kvs) /\
              alookup k_extensions kvs = Some (JObj (kv :: ext)).
Proof.
  destruct res as [data errs]. cbn [r_errors]. intros Hr Hn.
  destruct (response_parts doc data errs r Hr) as (js & Ejs & -> & _).
  destruct (map_outcome_nth _ _ _ _ _ Ejs Hn) as (j & Hj & Ej).
  pose proof (to_dict_path_ext doc _ j Ej) as [_ H2].
  destruct j as [| | | | | |kvs]; try contradiction.
  exists kvs. split; [exact Hj|]. exact H2.
Qed.

Theorem no_extensions_invented doc res r i e kvs :
  response doc res = Ok r ->
  nth_error (r_errors res) i = Some e -> err_ext e = None ->
  nth_error (response_errors r) i = Some (JObj kvs) ->
  alookup k_extensions kvs = None.
Proof.
  destruct res as [data errs]. cbn [r_errors]. intros Hr Hn He Hk.
  destruct (response_parts doc data errs r Hr) as (js & Ejs & Ee & _).
  destruct (map_outcome_nth _ _ _ _ _ Ejs Hn) as (j & Hj & Ej).
  rewrite Ee, Hj in Hk. inversion Hk; subst j.
  pose proof (to_dict_path_ext doc _ _ Ej) as [_ H2]. cbn beta iota in H2.
  rewrite He in H2. exact H2.
Qed.

Lemma count_path_nonempty p ps :
  p <> [] -> count_path p (map nonempty_path ps) = count_path p ps.
Proof.
  intros Hp. unfold count_path. induction ps as [|q ps IH]; [reflexivity|].
  cbn [map filter].
  assert (E : match nonempty_path q with Some q' => path_eqb p q' | None => false end
              = match q with Some q' => path_eqb p q' | None => false end).
  { destruct q as [[|sg r]|]; cbn [nonempty_path]; try reflexivity.
    destruct p; [congruence|reflexivity]. }
  rewrite E. destruct (match q with Some q' => path_eqb p q' | None => false end);
    cbn [length]; rewrite IH; reflexivity.
Qed.

(* the executor's bijection between nulls and errors (C04), stated on the
   abstract result, is what the response shows *)
Definition exec_null_match (obligated : list path) (d : json) (errs : list gql_error) : Prop :=
  forall p, In p obligated -> jget d p = Some JNull ->
            count_path p (map err_path errs) = 1.

Theorem null_error_match_transport doc d errs r obligated :
  response doc (Result (Some d) errs) = Ok r ->
  (forall p, In p obligated -> p <> []) ->
  exec_null_match obligated d errs ->
  null_error_match obligated r.
Proof.
  intros Hr Hne Hm p d' Hin Hd Hg.
  destruct (response_parts doc (Some d) errs r Hr) as (js & Ejs & Ee & Ed).
  rewrite Ed in Hd. inversion Hd; subst d'.
  rewrite Ee, (map_outcome_paths doc errs js Ejs).
  rewrite <- (map_map err_path nonempty_path).
  rewrite count_path_nonempty; [|apply Hne; exact Hin].
  apply Hm; assumption.
Qed.

Lemma map_outcome_length {A B} (f : A -> outcome B) : forall l js,
  map_outcome f l = Ok js -> length js = length l.
Proof.
  induction l as [|a l IH]; intros js H; cbn [map_outcome] in H.
  - inversion H; reflexivity.
  - destruct (f a); try discriminate. cbn [obind] in H.
    destruct (map_outcome f l) as [ys| | |]; try discriminate. cbn [obind] in H.
    inversion H; subst. simpl. f_equal. apply IH. reflexivity.
Qed.

(* aborted after validation, before any field ran (operation selection,
   variable coercion, @skip/@include arguments of the root selection set):
   "data" is present and null *)
Theorem pipeline_abort_data doc st r :
  pipeline_model doc st = Ok r -> aborted_before_execution st = true ->
  response_data r = Some JNull /\ response_errors r <> [].
Proof.
  unfold pipeline_model, process, aborted_before_execution, failed_early_pre.
  destruct (st_parse st) as [[m p]|]; [intros _ H; discriminate|].
  destruct (st_validation st) as [|e es]; [|intros _ H; discriminate].
  assert (Hgo : forall errs, errs <> [] -> response doc (Result (Some JNull) errs) = Ok r ->
                             response_data r = Some JNull /\ response_errors r <> []).
  { intros errs Hne Hr. destruct (response_parts doc _ _ _ Hr) as (js & Ejs & Ee & Ed).
    split; [exact Ed|]. rewrite Ee. intro Hj. subst js.
    apply map_outcome_length in Ejs. rewrite Hj in Ejs. destruct errs; [congruence|simpl in Ejs; discriminate]. }
  destruct (st_opselect st) as [m|].
  - cbn [obind]. intros Hr _. apply (Hgo [EExecution m]); [discriminate|exact Hr].
  - destruct (st_varcoercion st) as [|c cs].
    + destruct (st_rootcoercion st) as [|rc rcs]; [intros _ H; discriminate|].
      cbn [obind]. intros Hr _. apply (Hgo (rc :: rcs)); [discriminate|exact Hr].
    + cbn [obind]. intros Hr _. apply (Hgo (c :: cs)); [discriminate|exact Hr].
Qed.

