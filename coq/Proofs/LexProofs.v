(* C01 (2) / C02 (2,3): the number automaton of the lexer model accepts
   exactly IntValue / FloatValue with the look-ahead restriction; quoted
   strings are decoded as the StringValue semantics prescribes. *)
From PyGql Require Import Lang.Lexer Spec.LexSpec.
Local Open Scope N_scope.

(* ---- character classes ---- *)
Lemma is_digit_spec c : is_digit c = true <-> Digit c.
Proof. unfold is_digit, Digit. rewrite andb_true_iff, !N.leb_le. tauto. Qed.

Lemma is_digit_false c : is_digit c = false <-> ~ Digit c.
Proof. rewrite <- is_digit_spec. destruct (is_digit c); split; congruence. Qed.

Lemma is_name_start_spec c : is_name_start c = true <-> NameStart c.
Proof.
  unfold is_name_start, is_letter, NameStart, Letter.
  rewrite !orb_true_iff, !andb_true_iff, !N.leb_le, N.eqb_eq. tauto.
Qed.

Lemma is_name_start_false c : is_name_start c = false <-> ~ NameStart c.
Proof. rewrite <- is_name_start_spec. destruct (is_name_start c); split; congruence. Qed.

Definition nodigit_head (r : str) : Prop :=
  match r with [] => True | c :: _ => ~ Digit c end.

(* ---- span ---- *)
Lemma span_sound p l a b : span p l = (a, b) ->
  l = a ++ b /\ Forall (fun c => p c = true) a /\
  match b with [] => True | c :: _ => p c = false end.
Proof.
  revert a b; induction l as [|c r IH]; intros a b H; simpl in H.
  - inversion H; subst. repeat split; constructor.
  - destruct (p c) eqn:E.
    + destruct (span p r) as [a' b'] eqn:E2. inversion H; subst.
      destruct (IH a' b eq_refl) as (-> & Hf & Hb). repeat split; auto.
    + inversion H; subst. repeat split; [constructor|exact E].
Qed.

Lemma span_complete p a b : Forall (fun c => p c = true) a ->
  match b with [] => True | c :: _ => p c = false end ->
  span p (a ++ b) = (a, b).
Proof.
  intros Ha Hb; induction Ha as [|c a Hc Ha IH]; simpl.
  - destruct b as [|c b]; [reflexivity|]. simpl. rewrite Hb. reflexivity.
  - rewrite Hc, IH. reflexivity.
Qed.

Lemma Forall_digit ds : Forall (fun c => is_digit c = true) ds <-> Forall Digit ds.
Proof. split; intros H; eapply Forall_impl; try exact H; intros c; apply is_digit_spec. Qed.

Lemma nodigit_head_span r : nodigit_head r <->
  match r with [] => True | c :: _ => is_digit c = false end.
Proof. destruct r as [|c r]; simpl; [tauto|]. symmetry; apply is_digit_false. Qed.

(* ---- _read_over_digits ---- *)
Lemma read_over_digits_sound rest pos r p :
  read_over_digits rest pos = Ok (r, p) ->
  exists ds, rest = ds ++ r /\ Digits1 ds /\ p = (pos + length ds)%nat /\ nodigit_head r.
Proof.
  unfold read_over_digits. destruct rest as [|c rest']; [discriminate|].
  destruct (is_digit c) eqn:Ec; [|discriminate].
  destruct (span is_digit (c :: rest')) as [ds r'] eqn:Es. intros H; inversion H; subst.
  destruct (span_sound _ _ _ _ Es) as (Hl & Hf & Hb).
  exists ds. repeat split; auto.
  - simpl in Es. rewrite Ec in Es. destruct (span is_digit rest'); inversion Es; discriminate.
  - apply Forall_digit; assumption.
  - apply nodigit_head_span; assumption.
Qed.

Lemma read_over_digits_complete ds r pos :
  Digits1 ds -> nodigit_head r ->
  read_over_digits (ds ++ r) pos = Ok (r, (pos + length ds)%nat).
Proof.
  intros [Hne Hd] Hr.
  destruct ds as [|d ds]; [congruence|].
  assert (Ed : is_digit d = true) by (apply is_digit_spec; inversion Hd; assumption).
  change ((d :: ds) ++ r) with (d :: (ds ++ r)). unfold read_over_digits. lazy iota beta.
  rewrite Ed. change (d :: ds ++ r) with ((d :: ds) ++ r).
  rewrite (span_complete is_digit (d :: ds) r); [reflexivity| |].
  - apply Forall_digit; assumption.
  - apply nodigit_head_span; assumption.
Qed.

(* ---- _read_over_integer ---- *)
Lemma read_over_integer_sound rest pos r p :
  read_over_integer rest pos = Ok (r, p) ->
  exists u, rest = u ++ r /\ UnsignedIntegerPart u /\ p = (pos + length u)%nat /\ nodigit_head r.
Proof.
  unfold read_over_integer. destruct rest as [|c rest']; [discriminate|].
  destruct (N.eqb_spec c 48) as [->|Hc].
  - destruct rest' as [|d rest''].
    + intros H; inversion H; subst. exists [48]. repeat split; try constructor. simpl; lia.
    + destruct (is_digit d) eqn:Ed; [discriminate|]. intros H; inversion H; subst.
      exists [48]. repeat split; try constructor; [simpl; lia|].
      simpl. apply is_digit_false; assumption.
  - intros H. destruct (read_over_digits_sound _ _ _ _ H) as (ds & Hl & [Hne Hd] & Hp & Hr).
    exists ds. repeat split; auto.
    destruct ds as [|d ds]; [congruence|]. simpl in Hl. inversion Hl; subst.
    inversion Hd; subst. constructor; [|assumption].
    unfold NonZeroDigit. unfold Digit in *. lia.
Qed.

Lemma read_over_integer_complete u r pos :
  UnsignedIntegerPart u -> nodigit_head r ->
  read_over_integer (u ++ r) pos = Ok (r, (pos + length u)%nat).
Proof.
  intros Hu Hr. destruct Hu as [|d ds Hd Hds].
  - simpl. destruct r as [|c r]; [f_equal; f_equal; lia|].
    simpl in Hr. apply is_digit_false in Hr. rewrite Hr. f_equal; f_equal; lia.
  - change ((d :: ds) ++ r) with (d :: (ds ++ r)). unfold read_over_integer. lazy iota beta.
    destruct (N.eqb_spec d 48) as [->|Hne]; [unfold NonZeroDigit in Hd; lia|].
    change (d :: ds ++ r) with ((d :: ds) ++ r).
    apply read_over_digits_complete; [|assumption].
    split; [discriminate|]. constructor; [|assumption]. unfold NonZeroDigit, Digit in *; lia.
Qed.

(* ---- fraction / exponent stages ---- *)
Lemma read_fraction_sound r2 p2 fl r3 p3 :
  read_fraction r2 p2 = Ok (fl, r3, p3) ->
  (fl = false /\ r3 = r2 /\ p3 = p2 /\ match r2 with c :: _ => c <> 46 | [] => True end)
  \/ (fl = true /\ exists fp, r2 = fp ++ r3 /\ FractionalPart fp /\ p3 = (p2 + length fp)%nat
                               /\ nodigit_head r3).
Proof.
  unfold read_fraction. destruct r2 as [|c r].
  - intros H; inversion H; subst. left; auto.
  - destruct (N.eqb_spec c 46) as [->|Hc].
    + destruct (read_over_digits r (S p2)) as [[r' p']| | |] eqn:E; simpl; try discriminate.
      intros H; inversion H; subst.
      destruct (read_over_digits_sound _ _ _ _ E) as (ds & -> & Hd & -> & Hr).
      right; split; [reflexivity|]. exists (46 :: ds).
      split; [reflexivity|]. split; [constructor; assumption|]. split; [simpl; lia|assumption].
    + intros H; inversion H; subst. left; auto.
Qed.

Lemma read_exponent_sound fl3 r3 p3 fl r4 p4 :
  read_exponent fl3 r3 p3 = Ok (fl, r4, p4) ->
  (fl = fl3 /\ r4 = r3 /\ p4 = p3)
  \/ (fl = true /\ exists ep, r3 = ep ++ r4 /\ ExponentPart ep /\ p4 = (p3 + length ep)%nat
                               /\ nodigit_head r4).
Proof.
  unfold read_exponent. destruct r3 as [|c r].
  - intros H; inversion H; subst. left; auto.
  - destruct ((c =? 101) || (c =? 69)) eqn:Ec.
    + destruct (read_over_digits (fst (read_exp_sign r (S p3))) (snd (read_exp_sign r (S p3))))
        as [[r' p']| | |] eqn:E; simpl; try discriminate.
      intros H; inversion H; subst.
      destruct (read_over_digits_sound _ _ _ _ E) as (ds & Hl & Hd & -> & Hr).
      right; split; [reflexivity|].
      assert (He : c = 101 \/ c = 69).
      { apply orb_true_iff in Ec. rewrite !N.eqb_eq in Ec. exact Ec. }
      unfold read_exp_sign in *. destruct r as [|sg r''].
      * simpl in Hl. destruct ds; [destruct Hd; congruence|discriminate].
      * destruct ((sg =? 43) || (sg =? 45)) eqn:Es; simpl in Hl, Hr |- *.
        -- exists (c :: [sg] ++ ds).
           split; [simpl; rewrite Hl; reflexivity|]. split; [|split; [simpl; lia|assumption]].
           constructor; auto. apply orb_true_iff in Es. rewrite !N.eqb_eq in Es.
           destruct Es as [->| ->]; auto.
        -- exists (c :: [] ++ ds).
           split; [simpl; rewrite Hl; reflexivity|]. split; [|split; [simpl; lia|assumption]].
           constructor; auto.
    + intros H; inversion H; subst. left; auto.
Qed.

(* ---- _read_number ---- *)
Theorem read_number_sound rest pos fl r e :
  read_number rest pos = Ok (fl, r, e) ->
  exists lexeme, rest = lexeme ++ r /\ e = (pos + length lexeme)%nat /\
    (fl = false -> IntValue lexeme) /\ (fl = true -> FloatValue lexeme) /\ follow_impl fl r.
Proof.
  unfold read_number.
  destruct (read_over_integer (fst (read_sign rest pos)) (snd (read_sign rest pos)))
    as [[r2 p2]| | |] eqn:E2; simpl; try discriminate.
  destruct (read_fraction r2 p2) as [[[fl3 r3] p3]| | |] eqn:E3; simpl; try discriminate.
  destruct (read_exponent fl3 r3 p3) as [[[fl4 r4] p4]| | |] eqn:E4; simpl; try discriminate.
  unfold number_lookahead; simpl. intros H.
  destruct (read_over_integer_sound _ _ _ _ E2) as (u & Hu & HU & Hp2 & Hr2).
  (* the integer part with its sign *)
  assert (Hip : exists ip, rest = ip ++ r2 /\ IntegerPart ip /\ p2 = (pos + length ip)%nat).
  { unfold read_sign in *. destruct rest as [|c rest'].
    - simpl in Hu, Hp2. exists u. repeat split; auto. constructor; assumption.
    - destruct (N.eqb_spec c 45) as [->|Hc]; simpl in Hu, Hp2.
      + exists (45 :: u). repeat split; [simpl; rewrite Hu; reflexivity|constructor 2; assumption|simpl; lia].
      + exists u. repeat split; auto. constructor; assumption. }
  destruct Hip as (ip & Hrest & HIP & Hp2').
  assert (Hla : r = r4 /\ fl = fl4 /\ e = p4 /\
                match r4 with c :: _ => ~ NameStart c | [] => True end).
  { destruct r4 as [|c r4'].
    - inversion H; subst; auto.
    - destruct (is_name_start c) eqn:En; [discriminate|]. inversion H; subst.
      repeat split; auto. apply is_name_start_false; assumption. }
  destruct Hla as (-> & -> & -> & Hns). clear H.
  destruct (read_fraction_sound _ _ _ _ _ E3) as [(-> & -> & -> & Hdot)|(-> & fp & Hfp & HFP & Hp3 & Hr3)];
  destruct (read_exponent_sound _ _ _ _ _ _ E4) as [(-> & -> & ->)|(-> & ep & Hep & HEP & Hp4 & Hr4)].
  - (* integer *)
    exists ip. repeat split; auto; try discriminate.
    unfold follow_impl. destruct r2 as [|c r2']; [exact I|]. simpl in Hr2. repeat split; auto.
  - (* integer exponent *)
    exists (ip ++ ep). subst. rewrite <- app_assoc. repeat split; auto; try discriminate.
    + rewrite app_length; lia.
    + intros _. constructor 2; assumption.
    + unfold follow_impl. destruct r4 as [|c r4']; [exact I|]. simpl in Hr4. repeat split; auto; discriminate.
  - (* integer fraction *)
    exists (ip ++ fp). subst. rewrite <- app_assoc. repeat split; auto; try discriminate.
    + rewrite app_length; lia.
    + intros _. constructor 1; assumption.
    + unfold follow_impl. destruct r3 as [|c r3']; [exact I|]. simpl in Hr3. repeat split; auto; discriminate.
  - (* integer fraction exponent *)
    exists (ip ++ fp ++ ep). subst. rewrite <- !app_assoc. repeat split; auto; try discriminate.
    + rewrite !app_length; lia.
    + intros _. constructor 3; assumption.
    + unfold follow_impl. destruct r4 as [|c r4']; [exact I|]. simpl in Hr4. repeat split; auto; discriminate.
Qed.

(* ---- completeness ---- *)
Lemma read_int_stage_complete ip tail pos :
  IntegerPart ip -> nodigit_head tail ->
  read_over_integer (fst (read_sign (ip ++ tail) pos)) (snd (read_sign (ip ++ tail) pos))
  = Ok (tail, (pos + length ip)%nat).
Proof.
  intros Hip Ht. destruct Hip as [u Hu|u Hu].
  - assert (Hs : read_sign (u ++ tail) pos = (u ++ tail, pos)).
    { destruct Hu as [|d ds Hd Hds]; simpl; [reflexivity|].
      destruct (N.eqb_spec d 45) as [->|]; [unfold NonZeroDigit in Hd; lia|reflexivity]. }
    rewrite Hs. simpl. apply read_over_integer_complete; assumption.
  - simpl. rewrite (read_over_integer_complete u tail (S pos) Hu Ht). f_equal; f_equal; lia.
Qed.

Lemma read_fraction_complete fp tail p :
  FractionalPart fp -> nodigit_head tail ->
  read_fraction (fp ++ tail) p = Ok (true, tail, (p + length fp)%nat).
Proof.
  intros [ds Hds] Ht. simpl. rewrite (read_over_digits_complete ds tail (S p) Hds Ht). simpl.
  f_equal; f_equal; lia.
Qed.

Lemma read_fraction_skip tail p :
  match tail with c :: _ => c <> 46 | [] => True end ->
  read_fraction tail p = Ok (false, tail, p).
Proof.
  destruct tail as [|c t]; simpl; [reflexivity|]. intros H.
  destruct (N.eqb_spec c 46); [contradiction|reflexivity].
Qed.

Lemma read_exponent_complete fl ep tail p :
  ExponentPart ep -> nodigit_head tail ->
  read_exponent fl (ep ++ tail) p = Ok (true, tail, (p + length ep)%nat).
Proof.
  intros [e sign ds He Hs Hds] Ht.
  assert (Ee : (e =? 101) || (e =? 69) = true).
  { apply orb_true_iff. rewrite !N.eqb_eq. exact He. }
  change ((e :: sign ++ ds) ++ tail) with (e :: ((sign ++ ds) ++ tail)).
  unfold read_exponent. lazy iota beta. rewrite Ee.
  assert (Hsg : read_exp_sign ((sign ++ ds) ++ tail) (S p) = (ds ++ tail, (S p + length sign)%nat)).
  { destruct Hs as [->|[->| ->]]; simpl.
    - destruct Hds as [Hne Hd]. destruct ds as [|d ds]; [congruence|]. simpl.
      inversion Hd; subst. unfold Digit in *.
      destruct (N.eqb_spec d 43); [lia|]. destruct (N.eqb_spec d 45); [lia|].
      simpl. f_equal; lia.
    - f_equal; lia.
    - f_equal; lia. }
  rewrite Hsg. cbn [fst snd]. rewrite (read_over_digits_complete ds tail _ Hds Ht). cbn [obind fst snd].
  f_equal; f_equal. simpl. rewrite app_length. unfold str, char in *. lia.
Qed.

Lemma read_exponent_skip fl tail p :
  match tail with c :: _ => c <> 101 /\ c <> 69 | [] => True end ->
  read_exponent fl tail p = Ok (fl, tail, p).
Proof.
  destruct tail as [|c t]; simpl; [reflexivity|]. intros [H1 H2].
  destruct (N.eqb_spec c 101); [contradiction|]. destruct (N.eqb_spec c 69); [contradiction|reflexivity].
Qed.

Lemma number_lookahead_ok fl tail p :
  match tail with c :: _ => ~ NameStart c | [] => True end ->
  number_lookahead (fl, tail, p) = Ok (fl, tail, p).
Proof.
  unfold number_lookahead; simpl. destruct tail as [|c t]; [reflexivity|].
  intros H. apply is_name_start_false in H. rewrite H. reflexivity.
Qed.

Lemma follow_ok_parts r : follow_ok r ->
  nodigit_head r /\ match r with c :: _ => c <> 46 | [] => True end
  /\ match r with c :: _ => c <> 101 /\ c <> 69 | [] => True end
  /\ match r with c :: _ => ~ NameStart c | [] => True end.
Proof.
  destruct r as [|c r]; simpl; [tauto|]. intros (Hd & Hdot & Hn). repeat split; auto.
  - intros ->. apply Hn. right. right. lia.
  - intros ->. apply Hn. right. left. lia.
Qed.

Lemma frac_head fp tail : FractionalPart fp -> nodigit_head (fp ++ tail).
Proof. intros [ds _]. simpl. unfold Digit; lia. Qed.

Lemma exp_head ep tail : ExponentPart ep ->
  nodigit_head (ep ++ tail) /\ match ep ++ tail with c :: _ => c <> 46 | [] => True end.
Proof.
  intros [e sign ds He _ _]. simpl. unfold Digit. destruct He as [->| ->]; split; lia.
Qed.

Theorem read_number_complete lexeme r pos :
  follow_ok r ->
  (IntValue lexeme -> read_number (lexeme ++ r) pos = Ok (false, r, (pos + length lexeme)%nat)) /\
  (FloatValue lexeme -> read_number (lexeme ++ r) pos = Ok (true, r, (pos + length lexeme)%nat)).
Proof.
  intros Hf. destruct (follow_ok_parts r Hf) as (Hnd & Hdot & Hexp & Hns).
  split.
  - intros Hi. unfold read_number.
    rewrite (read_int_stage_complete lexeme r pos Hi Hnd). cbn [obind fst snd].
    rewrite (read_fraction_skip r _ Hdot). cbn [obind fst snd].
    rewrite (read_exponent_skip false r _ Hexp). cbn [obind].
    apply number_lookahead_ok; assumption.
  - intros Hfl. unfold read_number. destruct Hfl as [ip fp Hip Hfp|ip ep Hip Hep|ip fp ep Hip Hfp Hep].
    + rewrite <- app_assoc.
      rewrite (read_int_stage_complete ip (fp ++ r) pos Hip (frac_head fp r Hfp)). cbn [obind fst snd].
      rewrite (read_fraction_complete fp r _ Hfp Hnd). cbn [obind fst snd].
      rewrite (read_exponent_skip true r _ Hexp). cbn [obind].
      rewrite number_lookahead_ok by assumption. rewrite app_length. f_equal; f_equal; lia.
    + rewrite <- app_assoc. destruct (exp_head ep r Hep) as [Hh1 Hh2].
      rewrite (read_int_stage_complete ip (ep ++ r) pos Hip Hh1). cbn [obind fst snd].
      rewrite (read_fraction_skip (ep ++ r) _ Hh2). cbn [obind fst snd].
      rewrite (read_exponent_complete false ep r _ Hep Hnd). cbn [obind].
      rewrite number_lookahead_ok by assumption. rewrite app_length. f_equal; f_equal; lia.
    + rewrite <- !app_assoc. destruct (exp_head ep r Hep) as [Hh1 Hh2].
      rewrite (read_int_stage_complete ip (fp ++ ep ++ r) pos Hip (frac_head fp (ep ++ r) Hfp)).
      cbn [obind fst snd].
      rewrite (read_fraction_complete fp (ep ++ r) _ Hfp Hh1). cbn [obind fst snd].
      rewrite (read_exponent_complete true ep r _ Hep Hnd). cbn [obind].
      rewrite number_lookahead_ok by assumption. rewrite !app_length. f_equal; f_equal; lia.
Qed.

(* ------------------------------------------------------------------ *)
(* quoted strings *)
Lemma quoted_char_spec e d : quoted_char e = Some d <-> EscapedCharacter e d.
Proof.
  split.
  - unfold quoted_char.
    repeat match goal with
           | |- context [?x =? ?k] => destruct (N.eqb_spec x k) as [->|?]
           end; intros H; inversion H; subst; constructor.
  - intros H; destruct H; reflexivity.
Qed.

Lemma is_hex_spec c : is_hex c = true -> HexDigit c (hex_val c).
Proof.
  unfold is_hex, hex_val, is_digit.
  rewrite !orb_true_iff, !andb_true_iff, !N.leb_le. intros H.
  destruct (N.leb_spec 48 c); destruct (N.leb_spec c 57); simpl.
  - constructor 1; lia.
  - destruct (N.leb_spec c 70); [constructor 2; lia|constructor 3; lia].
  - destruct (N.leb_spec c 70); [constructor 2; lia|constructor 3; lia].
  - destruct (N.leb_spec c 70); [constructor 2; lia|constructor 3; lia].
Qed.

Lemma HexDigit_is_hex c v : HexDigit c v -> is_hex c = true /\ hex_val c = v.
Proof.
  unfold is_hex, hex_val, is_digit. intros H; destruct H as [c H|c H|c H].
  - assert (E1 : (48 <=? c) = true) by (apply N.leb_le; lia).
    assert (E2 : (c <=? 57) = true) by (apply N.leb_le; lia). rewrite E1, E2. auto.
  - assert (E1 : (c <=? 57) = false) by (apply N.leb_gt; lia).
    assert (E2 : (65 <=? c) = true) by (apply N.leb_le; lia).
    assert (E3 : (c <=? 70) = true) by (apply N.leb_le; lia).
    rewrite E1, E2, E3, andb_false_r. auto.
  - assert (E1 : (c <=? 57) = false) by (apply N.leb_gt; lia).
    assert (E3 : (c <=? 70) = false) by (apply N.leb_gt; lia).
    assert (E4 : (97 <=? c) = true) by (apply N.leb_le; lia).
    assert (E5 : (c <=? 102) = true) by (apply N.leb_le; lia).
    rewrite E1, E3, E4, E5, !andb_false_r. auto.
Qed.

Lemma printable_plain c :
  is_printable c = true -> c <> 34 -> c <> 92 -> c <> 10 -> c <> 13 -> PlainStringCharacter c.
Proof.
  unfold is_printable, PlainStringCharacter, SourceCharacter.
  rewrite orb_true_iff, N.leb_le, N.eqb_eq. intros [H|H] ? ? ? ?; repeat split; auto.
Qed.

Lemma read_string_sound : forall n rest pos acc v r' e, (length rest <= n)%nat ->
  read_string rest pos acc = Ok (v, r', e) ->
  exists raw body, rest = raw ++ 34 :: r' /\ string_body raw body /\
                   v = rev acc ++ body /\ e = (pos + length raw + 1)%nat.
Proof.
  induction n as [|n IH]; intros rest pos acc v r' e Hn H.
  - destruct rest; [discriminate|simpl in Hn; lia].
  - destruct rest as [|c r]; [discriminate|]. simpl in Hn. simpl in H.
    destruct (N.eqb_spec c 34) as [->|Hq].
    { inversion H; subst. exists [], []. repeat split; [constructor|rewrite app_nil_r; reflexivity|simpl; lia]. }
    destruct (N.eqb_spec c 92) as [->|Hb].
    { destruct r as [|x r2]; [discriminate|]. simpl in Hn.
      destruct (quoted_char x) as [d|] eqn:Eq.
      - apply IH in H; [|lia]. destruct H as (raw & body & -> & Hb & -> & ->).
        exists (92 :: x :: raw), (d :: body). repeat split.
        + constructor 3; [apply quoted_char_spec; assumption|assumption].
        + simpl. rewrite <- app_assoc. reflexivity.
        + simpl; lia.
      - destruct (N.eqb_spec x 117) as [->|]; [|discriminate]. simpl in H.
        destruct r2 as [|h1 r3]; [discriminate|]. destruct (is_hex h1) eqn:E1; [|discriminate]. simpl in H.
        destruct r3 as [|h2 r4]; [discriminate|]. destruct (is_hex h2) eqn:E2; [|discriminate]. simpl in H.
        destruct r4 as [|h3 r5]; [discriminate|]. destruct (is_hex h3) eqn:E3; [|discriminate]. simpl in H.
        destruct r5 as [|h4 r6]; [discriminate|]. destruct (is_hex h4) eqn:E4; [|discriminate]. simpl in H.
        simpl in Hn. apply IH in H; [|lia]. destruct H as (raw & body & -> & Hb & -> & ->).
        exists (92 :: 117 :: h1 :: h2 :: h3 :: h4 :: raw),
               (hex_val h1 * 4096 + hex_val h2 * 256 + hex_val h3 * 16 + hex_val h4 :: body).
        repeat split.
        + constructor 4; auto using is_hex_spec.
        + simpl. rewrite <- app_assoc. simpl. f_equal. f_equal. lia.
        + simpl; lia. }
    destruct ((c =? 10) || (c =? 13)) eqn:Enl; [discriminate|].
    destruct (is_printable c) eqn:Ep; [|discriminate]. simpl in H.
    apply IH in H; [|lia]. destruct H as (raw & body & -> & Hbd & -> & ->).
    apply orb_false_iff in Enl. rewrite !N.eqb_neq in Enl. destruct Enl.
    exists (c :: raw), (c :: body). repeat split.
    + constructor 2; [apply printable_plain; assumption|assumption].
    + simpl. rewrite <- app_assoc. reflexivity.
    + simpl; lia.
Qed.

Lemma read_string_complete raw body : string_body raw body ->
  forall pos acc r', read_string (raw ++ 34 :: r') pos acc
                     = Ok (rev acc ++ body, r', (pos + length raw + 1)%nat).
Proof.
  induction 1 as [|c raw v Hc Hb IH|x d raw v Hx Hb IH|h1 h2 h3 h4 v1 v2 v3 v4 raw v H1 H2 H3 H4 Hb IH];
    intros pos acc r'.
  - simpl. rewrite app_nil_r. f_equal; f_equal; lia.
  - destruct Hc as (Hs & Hq & Hbs & Hlf & Hcr). simpl.
    destruct (N.eqb_spec c 34); [contradiction|]. destruct (N.eqb_spec c 92); [contradiction|].
    destruct (N.eqb_spec c 10); [contradiction|]. destruct (N.eqb_spec c 13); [contradiction|]. simpl.
    assert (Ep : is_printable c = true).
    { unfold is_printable. apply orb_true_iff. rewrite N.leb_le, N.eqb_eq.
      unfold SourceCharacter in Hs. destruct Hs as [?|[?|[?|?]]]; auto; contradiction. }
    rewrite Ep. simpl. rewrite IH. simpl. rewrite <- app_assoc. simpl. f_equal; f_equal; lia.
  - simpl. apply quoted_char_spec in Hx. rewrite Hx. rewrite IH. simpl. rewrite <- app_assoc. simpl.
    f_equal; f_equal; lia.
  - apply HexDigit_is_hex in H1, H2, H3, H4.
    destruct H1 as [E1 <-], H2 as [E2 <-], H3 as [E3 <-], H4 as [E4 <-].
    simpl. rewrite E1, E2, E3, E4. simpl. rewrite IH. simpl. rewrite <- app_assoc. simpl.
    f_equal. f_equal; [|lia]. f_equal. f_equal. f_equal. lia.
Qed.

Theorem string_decoding_iff rest pos v r' e :
  read_string rest pos [] = Ok (v, r', e) <->
  exists raw, rest = raw ++ 34 :: r' /\ string_body raw v /\ e = (pos + length raw + 1)%nat.
Proof.
  split.
  - intros H. destruct (read_string_sound (length rest) rest pos [] v r' e (le_n _) H)
      as (raw & body & Hr & Hb & Hv & He).
    simpl in Hv. subst v. exists raw. auto.
  - intros (raw & -> & Hb & ->). exact (read_string_complete raw v Hb pos [] r').
Qed.

(* ------------------------------------------------------------------ *)
(* block strings: the raw body *)
Lemma starts_3q_spec l : starts_3q l = true <-> triple_quote l.
Proof.
  split.
  - destruct l as [|a [|b [|c r]]]; simpl; try discriminate.
    rewrite !andb_true_iff, !N.eqb_eq. intros [[-> ->] ->]. exists r. reflexivity.
  - intros [r ->]. reflexivity.
Qed.

Lemma starts_3q_false l : starts_3q l = false <-> ~ triple_quote l.
Proof. rewrite <- starts_3q_spec. destruct (starts_3q l); split; congruence. Qed.

Lemma block_source_char c :
  negb ((32 <=? c) || (c =? 9) || (c =? 10) || (c =? 13)) = false <-> SourceCharacter c.
Proof.
  unfold SourceCharacter. rewrite negb_false_iff, !orb_true_iff, N.leb_le, !N.eqb_eq. tauto.
Qed.

Lemma read_block_sound : forall n rest pos acc raw r' e, (length rest <= n)%nat ->
  read_block rest pos acc = Ok (raw, r', e) ->
  exists body, block_scan rest body r' /\ raw = rev acc ++ body
               /\ (e + length r' = pos + length rest)%nat.
Proof.
  induction n as [|n IH]; intros rest pos acc raw r' e Hn H.
  - destruct rest; [discriminate|simpl in Hn; lia].
  - destruct rest as [|c r]; [discriminate|]. simpl in Hn. cbn [read_block] in H.
    destruct (starts_3q (c :: r)) eqn:E3.
    { apply starts_3q_spec in E3. destruct E3 as [r0 E3]. rewrite E3 in *. simpl in H.
      inversion H; subst. exists []. repeat split; [constructor|rewrite app_nil_r; reflexivity|simpl; lia]. }
    apply starts_3q_false in E3.
    assert (Hplain : forall (Hnesc : ~ (c = 92 /\ triple_quote r)),
              SourceCharacter c -> read_block r (S pos) (c :: acc) = Ok (raw, r', e) ->
              exists body, block_scan (c :: r) body r' /\ raw = rev acc ++ body
                           /\ (e + length r' = pos + length (c :: r))%nat).
    { intros Hnesc Hsc Hr. apply IH in Hr; [|lia]. destruct Hr as (body & Hb & -> & He).
      exists (c :: body). repeat split.
      - constructor; assumption.
      - simpl. rewrite <- app_assoc. reflexivity.
      - simpl; lia. }
    destruct (N.eqb_spec c 92) as [->|Hc].
    + assert (Hsc : SourceCharacter 92) by (unfold SourceCharacter; lia).
      destruct r as [|q1 [|q2 [|q3 r3]]];
        try (apply Hplain; [intros [_ [x Hx]]; discriminate|exact Hsc|exact H]).
      destruct ((q1 =? 34) && (q2 =? 34) && (q3 =? 34)) eqn:Eq.
      * rewrite !andb_true_iff, !N.eqb_eq in Eq. destruct Eq as [[-> ->] ->].
        apply IH in H; [|simpl in Hn; lia]. destruct H as (body & Hb & -> & He).
        exists (34 :: 34 :: 34 :: body). repeat split.
        -- constructor; assumption.
        -- simpl. rewrite <- !app_assoc. reflexivity.
        -- simpl in *; lia.
      * apply Hplain; [|exact Hsc|exact H].
        intros [_ [x Hx]]. inversion Hx; subst. simpl in Eq. discriminate.
    + destruct (negb ((32 <=? c) || (c =? 9) || (c =? 10) || (c =? 13))) eqn:Es; [discriminate|].
      apply Hplain; [intros [? _]; contradiction|apply block_source_char; exact Es|exact H].
Qed.

Lemma read_block_complete rest body r' : block_scan rest body r' ->
  forall pos acc, read_block rest pos acc
                  = Ok (rev acc ++ body, r', (pos + (length rest - length r'))%nat).
Proof.
  induction 1 as [r'|rest raw r' Hb IH|c rest raw r' Hsc Hnt Hne Hb IH]; intros pos acc.
  - match goal with
    | |- context [(?a - ?b)%nat] =>
        replace (a - b)%nat with 3%nat by (unfold str, char in *; simpl length; lia)
    end.
    simpl. rewrite app_nil_r. reflexivity.
  - assert (Hl : (length r' <= length rest)%nat).
    { clear -Hb. unfold str, char in *. induction Hb; simpl length in *; lia. }
    match goal with
    | |- context [(pos + (?a - ?b))%nat] =>
        replace (pos + (a - b))%nat with (pos + 4 + (length rest - length r'))%nat
          by (unfold str, char in *; simpl length; lia)
    end.
    cbn [read_block]. replace (starts_3q (92 :: 34 :: 34 :: 34 :: rest)) with false by reflexivity.
    replace (92 =? 92) with true by reflexivity.
    replace ((34 =? 34) && (34 =? 34) && (34 =? 34)) with true by reflexivity.
    rewrite IH. simpl rev. rewrite <- !app_assoc. reflexivity.
  - cbn [read_block]. apply starts_3q_false in Hnt. rewrite Hnt.
    assert (Hl : (length r' <= length rest)%nat).
    { clear -Hb. unfold str, char in *. induction Hb; simpl length in *; lia. }
    assert (Hgo : read_block rest (S pos) (c :: acc)
                  = Ok (rev acc ++ c :: raw, r', (pos + (length (c :: rest) - length r'))%nat)).
    { rewrite IH. simpl rev. rewrite <- app_assoc. simpl app. f_equal. f_equal.
      unfold str, char in *. simpl length. lia. }
    destruct (N.eqb_spec c 92) as [->|Hc].
    + destruct rest as [|q1 [|q2 [|q3 r3]]]; try exact Hgo.
      destruct ((q1 =? 34) && (q2 =? 34) && (q3 =? 34)) eqn:Eq; [|exact Hgo].
      rewrite !andb_true_iff, !N.eqb_eq in Eq. destruct Eq as [[-> ->] ->].
      exfalso. apply Hne. split; [reflexivity|exists r3; reflexivity].
    + apply block_source_char in Hsc. rewrite Hsc. exact Hgo.
Qed.

Lemma block_scan_length rest raw r' : block_scan rest raw r' -> (length r' + 3 <= length rest)%nat.
Proof. unfold str, char in *. induction 1; simpl length in *; lia. Qed.

Theorem block_body_iff rest pos raw r' e :
  read_block rest pos [] = Ok (raw, r', e) <->
  block_scan rest raw r' /\ e = (pos + (length rest - length r'))%nat.
Proof.
  split.
  - intros H. destruct (read_block_sound (length rest) rest pos [] raw r' e (le_n _) H) as (body & Hb & -> & He).
    simpl. split; [exact Hb|]. pose proof (block_scan_length _ _ _ Hb). unfold str, char in *. lia.
  - intros [Hb ->]. exact (read_block_complete rest raw r' Hb pos []).
Qed.
