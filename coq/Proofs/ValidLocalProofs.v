(* The events of the TypeInfo model are exactly the nodes met by static
   descent, with the context the specification assigns to them; the local
   rules follow. *)
From PyGql Require Import Valid.ValidOverlap Spec.ValidSpec Spec.ValidLocalSpec Proofs.ValidCloseProofs
     Proofs.ValidGraphProofs Proofs.ValidVarProofs Proofs.ValidPermProofs Proofs.ValidStaticProofs
     Proofs.ValidUniqueProofs.
From Coq Require Import Lia.

(* the events of a node itself *)
Definition node_events (s : schema) (ty_ : option tref) (q : option str) (cf : option sfield)
           (z : selection) : list ev :=
  match z with
  | SField a n args dirs sl sub l =>
      let fdef := field_def_of s q (n_val n) in
      EField q fdef a n args dirs sl l :: map (EDirective (S_ "FIELD") fdef) dirs
      ++ match sl with
         | Some l0 => [ESelSet (sel_parent s (field_type_of s fdef)) l0 sub]
         | None => []
         end
  | SSpread n dirs l => ESpread q n dirs l :: map (EDirective (S_ "FRAGMENT_SPREAD") cf) dirs
  | SInline tc dirs ssl sub l =>
      let ity := match tc with
                 | Some t => out_filter s (type_from_ast s t)
                 | None => out_filter s ty_
                 end in
      EInline ity q tc dirs l :: map (EDirective (S_ "INLINE_FRAGMENT") cf) dirs
      ++ [ESelSet (sel_parent s ity) ssl sub]
  end.

Lemma field_parent_eq s p n :
  sel_parent s (field_type_of s (field_def_of s p n))
  = composite_name s (option_map sf_type (field_lookup s p n)).
Proof.
  unfold field_type_of, field_def_of, field_lookup.
  destruct p as [p0|]; [|reflexivity]. destruct (get_field_def s p0 n) as [f|]; [|reflexivity].
  simpl option_map. rewrite sel_parent_out_filter. reflexivity.
Qed.

Lemma node_events_incl s ty_ q cf z e : In e (node_events s ty_ q cf z) -> In e (sel_events s ty_ q cf z).
Proof.
  destruct z as [a n args dirs sl sub l|n dirs l|tc dirs ssl sub l].
  - rewrite sel_events_field. cbv zeta. simpl node_events. intros [H|H]; [left; exact H|right].
    apply in_app_or in H. apply in_or_app. destruct H as [H|H]; [left; exact H|right].
    destruct sl; [destruct H as [H|[]]; left; exact H|destruct H].
  - simpl. tauto.
  - rewrite sel_events_inline. cbv zeta. simpl node_events. intros [H|H]; [left; exact H|right].
    apply in_app_or in H. apply in_or_app. destruct H as [H|H]; [left; exact H|right].
    destruct H as [H|[]]. left. exact H.
Qed.

(* every event of a selection is an event of a node met by descent *)
Lemma sel_events_inv s : forall x ty_ p cf e,
  sel_parent s ty_ = p -> In e (sel_events s ty_ p cf x) ->
  exists q z ty' cf', descends s p x q z /\ sel_parent s ty' = q /\ In e (node_events s ty' q cf' z).
Proof.
  induction x as [a n args dirs sl sub l IH|n dirs l|tc dirs ssl sub l IH] using selection_ind';
    intros ty_ p cf e Hp Hin.
  - rewrite sel_events_field in Hin. cbv zeta in Hin.
    assert (Hhere : In e (node_events s ty_ p cf (SField a n args dirs sl sub l)) \/
                    exists l0 y, sl = Some l0 /\ In y sub /\
                      In e (sel_events s (field_type_of s (field_def_of s p (n_val n)))
                                       (sel_parent s (field_type_of s (field_def_of s p (n_val n))))
                                       (field_def_of s p (n_val n)) y)).
    { simpl node_events. destruct Hin as [H|H]; [left; left; exact H|].
      apply in_app_or in H. destruct H as [H|H]; [left; right; apply in_or_app; left; exact H|].
      destruct sl as [l0|]; [|destruct H]. destruct H as [H|H].
      - left. right. apply in_or_app. right. left. exact H.
      - right. apply in_flat_map in H. destruct H as [y [Hy H]]. exists l0, y. tauto. }
    destruct Hhere as [H|(l0 & y & -> & Hy & H)].
    + exists p, (SField a n args dirs sl sub l), ty_, cf. split; [constructor|]. split; [exact Hp|exact H].
    + rewrite Forall_forall in IH.
      destruct (IH y Hy _ _ _ e eq_refl H) as (q & z & ty' & cf' & Hd & Hq & He).
      exists q, z, ty', cf'. split; [|tauto].
      eapply desc_field; [exact Hy|]. rewrite <- field_parent_eq. exact Hd.
  - exists p, (SSpread n dirs l), ty_, cf. split; [constructor|]. split; [exact Hp|exact Hin].
  - rewrite sel_events_inline in Hin. cbv zeta in Hin.
    set (ity := match tc with Some t => out_filter s (type_from_ast s t) | None => out_filter s ty_ end) in *.
    assert (Hhere : In e (node_events s ty_ p cf (SInline tc dirs ssl sub l)) \/
                    exists y, In y sub /\ In e (sel_events s ity (sel_parent s ity) cf y)).
    { simpl node_events. fold ity. destruct Hin as [H|H]; [left; left; exact H|].
      apply in_app_or in H. destruct H as [H|H]; [left; right; apply in_or_app; left; exact H|].
      destruct H as [H|H]; [left; right; apply in_or_app; right; left; exact H|].
      right. apply in_flat_map in H. exact H. }
    destruct Hhere as [H|(y & Hy & H)].
    + exists p, (SInline tc dirs ssl sub l), ty_, cf. split; [constructor|]. split; [exact Hp|exact H].
    + rewrite Forall_forall in IH.
      destruct (IH y Hy _ _ _ e eq_refl H) as (q & z & ty' & cf' & Hd & Hq & He).
      exists q, z, ty', cf'. split; [|tauto]. subst ity. destruct tc as [t|].
      * eapply desc_inline_on; [exact Hy|]. rewrite sel_parent_out_filter in Hd. exact Hd.
      * eapply desc_inline; [exact Hy|]. rewrite sel_parent_out_filter, Hp in Hd. exact Hd.
Qed.

(* document level *)
Lemma def_events_inv s df e :
  In e (def_events s df) ->
  (exists dr w, In dr (def_dirs df) /\ def_location df = Some w /\ e = EDirective w None dr)
  \/ (exists l, e = ESelSet (def_parent s df) l (def_sels df))
  \/ (exists x q z ty' cf', In x (def_sels df) /\ descends s (def_parent s df) x q z /\
                            sel_parent s ty' = q /\ In e (node_events s ty' q cf' z)).
Proof.
  destruct df; simpl def_events; try (intros []).
  - intros Hin. apply in_app_or in Hin. destruct Hin as [Hin|Hin].
    + left. apply in_map_iff in Hin. destruct Hin as [dr [<- Hdr]]. exists dr, (op_loc_name k).
      split; [exact Hdr|]. split; [destruct k; reflexivity|reflexivity].
    + assert (Hsp : sel_parent s (op_root s k) = def_parent s (DOperation k n vds dirs ssl sels l)).
      { simpl. unfold op_root. destruct (root_type s k) as [r|]; [|reflexivity].
        destruct (is_object s r) eqn:Ho; [|reflexivity]. simpl. rewrite (object_is_composite _ _ Ho). reflexivity. }
      destruct Hin as [<-|Hin]; [right; left; exists ssl; rewrite Hsp; reflexivity|].
      right. right. apply in_flat_map in Hin. destruct Hin as [x [Hx Hin]]. rewrite Hsp in Hin.
      destruct (sel_events_inv s x _ _ _ e Hsp Hin) as (q & z & ty' & cf' & Hd & Hq & He).
      exists x, q, z, ty', cf'. tauto.
  - intros Hin. apply in_app_or in Hin. destruct Hin as [Hin|Hin].
    + left. apply in_map_iff in Hin. destruct Hin as [dr [<- Hdr]]. exists dr, (S_ "FRAGMENT_DEFINITION"). tauto.
    + assert (Hsp : sel_parent s (out_filter s (type_from_ast s tc)) = def_parent s (DFragment n vds tc dirs ssl sels l))
        by apply sel_parent_out_filter.
      destruct Hin as [<-|Hin]; [right; left; exists ssl; rewrite Hsp; reflexivity|].
      right. right. apply in_flat_map in Hin. destruct Hin as [x [Hx Hin]]. rewrite Hsp in Hin.
      destruct (sel_events_inv s x _ _ _ e Hsp Hin) as (q & z & ty' & cf' & Hd & Hq & He).
      exists x, q, z, ty', cf'. tauto.
Qed.

Lemma def_dir_event s df dr w :
  In dr (def_dirs df) -> def_location df = Some w -> In (EDirective w None dr) (def_events s df).
Proof.
  destruct df; simpl; try discriminate; intros Hdr Hw.
  - apply in_or_app. left. apply in_map_iff. exists dr. split; [|exact Hdr].
    destruct k; inversion Hw; reflexivity.
  - apply in_or_app. left. inversion Hw; subst. apply in_map. exact Hdr.
Qed.

(* the master characterisation: a property of events that does not look at
   the components the specification has no name for (the enclosing field
   definition of a directive, the type kept by an inline fragment without type
   condition, selection set events) holds of all events iff it holds of all
   nodes met by descent *)
Section Master.
  Variables (s : schema) (d : document) (P : ev -> Prop).
  Hypothesis P_dir : forall w cf cf' dr, P (EDirective w cf dr) -> P (EDirective w cf' dr).
  Hypothesis P_sel : forall p l sels, P (ESelSet p l sels).
  Hypothesis P_inl : forall ity ity' q dirs l, P (EInline ity q None dirs l) -> P (EInline ity' q None dirs l).

  Definition nodes_ok : Prop :=
    (forall q a n args dirs sl sub l, reaches s d q (SField a n args dirs sl sub l) ->
        P (EField q (field_lookup s q (n_val n)) a n args dirs sl l))
    /\ (forall q n dirs l, reaches s d q (SSpread n dirs l) -> P (ESpread q n dirs l))
    /\ (forall q t dirs ssl sub l, reaches s d q (SInline (Some t) dirs ssl sub l) ->
          P (EInline (out_filter s (type_from_ast s t)) q (Some t) dirs l))
    /\ (forall q dirs ssl sub l, reaches s d q (SInline None dirs ssl sub l) -> P (EInline None q None dirs l))
    /\ (forall w dr, directive_at s d w dr -> P (EDirective w None dr)).

  Lemma events_forall : (forall e, In e (doc_events s d) -> P e) <-> nodes_ok.
  Proof.
    split.
    - intros Hall. unfold nodes_ok.
      assert (Hnode : forall q z, reaches s d q z -> exists ty' cf', sel_parent s ty' = q /\
                        forall e, In e (node_events s ty' q cf' z) -> P e).
      { intros q z Hr. destruct (reaches_events _ _ _ _ Hr) as (ty' & cf' & Hq & Hin).
        exists ty', cf'. split; [exact Hq|]. intros e He. apply Hall. apply Hin. apply node_events_incl. exact He. }
      repeat split.
      + intros q a n args dirs sl sub l Hr. destruct (Hnode _ _ Hr) as (ty' & cf' & _ & Hn).
        apply Hn. left. reflexivity.
      + intros q n dirs l Hr. destruct (Hnode _ _ Hr) as (ty' & cf' & _ & Hn). apply Hn. left. reflexivity.
      + intros q t dirs ssl sub l Hr. destruct (Hnode _ _ Hr) as (ty' & cf' & _ & Hn). apply Hn. left. reflexivity.
      + intros q dirs ssl sub l Hr. destruct (Hnode _ _ Hr) as (ty' & cf' & _ & Hn).
        eapply P_inl. apply Hn. left. reflexivity.
      + intros w dr [(q & z & Hr & Hdr & ->)|(df & Hdf & Hdr & Hw)].
        * destruct (Hnode _ _ Hr) as (ty' & cf' & _ & Hn).
          destruct z as [a n args dirs sl sub l|n dirs l|tc dirs ssl sub l]; simpl in Hdr |- *.
          -- eapply P_dir. apply Hn. right. apply in_or_app. left. apply in_map. exact Hdr.
          -- eapply P_dir. apply Hn. right. apply in_map. exact Hdr.
          -- eapply P_dir. apply Hn. right. apply in_or_app. left. apply in_map. exact Hdr.
        * apply Hall. apply doc_events_In. exists df. split; [exact Hdf|]. apply def_dir_event; assumption.
    - intros (Hf & Hs & Hi & Hn & Hd) e He. apply doc_events_In in He. destruct He as [df [Hdf He]].
      destruct (def_events_inv s df e He) as [(dr & w & Hdr & Hw & ->)|[[l ->]|(x & q & z & ty' & cf' & Hx & Hdesc & Hq & Hne)]].
      + apply Hd. right. exists df. tauto.
      + apply P_sel.
      + assert (Hr : reaches s d q z) by (exists df, x; tauto).
        destruct z as [a n args dirs sl sub l|n dirs l|tc dirs ssl sub l]; simpl in Hne.
        * destruct Hne as [<-|Hne]; [apply Hf with (sub := sub); exact Hr|].
          apply in_app_or in Hne. destruct Hne as [Hne|Hne].
          -- apply in_map_iff in Hne. destruct Hne as [dr [<- Hdr]]. eapply P_dir. apply Hd. left.
             exists q, (SField a n args dirs sl sub l). simpl. tauto.
          -- destruct sl; [destruct Hne as [<-|[]]; apply P_sel|destruct Hne].
        * destruct Hne as [<-|Hne]; [apply Hs; exact Hr|].
          apply in_map_iff in Hne. destruct Hne as [dr [<- Hdr]]. eapply P_dir. apply Hd. left.
          exists q, (SSpread n dirs l). simpl. tauto.
        * destruct Hne as [<-|Hne].
          -- destruct tc as [t|]; [eapply Hi; exact Hr|eapply P_inl; eapply Hn; exact Hr].
          -- apply in_app_or in Hne. destruct Hne as [Hne|Hne].
             ++ apply in_map_iff in Hne. destruct Hne as [dr [<- Hdr]]. eapply P_dir. apply Hd. left.
                exists q, (SInline tc dirs ssl sub l). simpl. tauto.
             ++ destruct Hne as [<-|[]]. apply P_sel.
  Qed.
End Master.

Lemma rule_events_iff s d (g : ev -> list viol) :
  (forall w cf cf' dr, g (EDirective w cf dr) = [] -> g (EDirective w cf' dr) = []) ->
  (forall p l sels, g (ESelSet p l sels) = []) ->
  (forall ity ity' q dirs l, g (EInline ity q None dirs l) = [] -> g (EInline ity' q None dirs l) = []) ->
  (flat_map g (doc_events s d) = [] <-> nodes_ok s d (fun e => g e = [])).
Proof. intros H1 H2 H3. rewrite flat_map_nil_iff. apply events_forall; assumption. Qed.

Lemma map_mk_nil r (l : list loc) : map (mk r) l = [] <-> l = [].
Proof. destruct l; simpl; split; congruence. Qed.

Lemma dups_nil r (l : list (str * loc)) : map (mk r) (dup_locs l) = [] <-> NoDup (map fst l).
Proof. rewrite map_mk_nil. apply dup_locs_nil. Qed.

(* ---- FieldsOnCorrectType ---- *)
Theorem r09_equiv s d : r09_fields_on_correct_type s d = [] <-> spec_fields_on_correct_type s d.
Proof.
  unfold r09_fields_on_correct_type, spec_fields_on_correct_type.
  rewrite rule_events_iff; [|intros; reflexivity..]. unfold nodes_ok. split.
  - intros (Hf & _) p a n args dirs sl sub l Hr Hnone. specialize (Hf _ _ _ _ _ _ _ _ Hr). simpl in Hf.
    rewrite Hnone in Hf. discriminate.
  - intros H. repeat split; try (intros; reflexivity).
    intros q a n args dirs sl sub l Hr. destruct q as [p|]; [|reflexivity]. simpl.
    destruct (get_field_def s p (n_val n)) eqn:E; [reflexivity|]. exfalso. eapply H; eassumption.
Qed.

(* ---- ScalarLeafs ---- *)
Theorem r08_equiv s d : r08_scalar_leafs s d = [] <-> spec_scalar_leafs s d.
Proof.
  split; [apply shape_static|].
  intros Hs. unfold r08_scalar_leafs. apply rule_events_iff; try (intros; reflexivity).
  repeat split; try (intros; reflexivity).
  intros q a n args dirs sl sub l Hr. simpl.
  destruct q as [p|]; [|reflexivity]. simpl.
  destruct (get_field_def s p (n_val n)) as [f|] eqn:E; [|reflexivity]. simpl.
  destruct (is_output_type s (sf_type f)); [|reflexivity].
  destruct (is_leaf s (unwrap (sf_type f))) eqn:Hl; destruct (is_composite s (unwrap (sf_type f))) eqn:Hc;
    destruct sl as [l0|]; simpl; try reflexivity; exfalso; apply Hs;
    exists p, a, n, args, dirs; eexists; exists sub, l, f; (split; [exact Hr|split; [exact E|]]);
    ((left; split; [exact Hl|discriminate]) || (right; split; [exact Hc|reflexivity])).
Qed.

(* ---- argument rules ---- *)
Lemma unknown_args_nil r defs args :
  unknown_args r defs args = [] <-> forall x, In x (arg_names args) -> find_arg x defs <> None.
Proof.
  unfold unknown_args. rewrite flat_map_nil_iff. unfold arg_names. split.
  - intros H x Hx. apply in_map_iff in Hx. destruct Hx as [a [<- Ha]]. specialize (H a Ha).
    destruct (find_arg (n_val (a_name a)) defs); [discriminate|discriminate H].
  - intros H a Ha. destruct (find_arg (n_val (a_name a)) defs) eqn:E; [reflexivity|].
    exfalso. apply (H (n_val (a_name a))); [apply in_map_iff; eauto|exact E].
Qed.

Theorem r20_equiv s d : r20_known_argument_names s d = [] <-> spec_known_argument_names s d.
Proof.
  unfold r20_known_argument_names, spec_known_argument_names.
  rewrite rule_events_iff; [|intros; try reflexivity; assumption..]. unfold nodes_ok. split.
  - intros (Hf & _ & _ & _ & Hd). split.
    + intros p a n args dirs sl sub l f Hr E. specialize (Hf _ _ _ _ _ _ _ _ Hr). simpl in Hf. rewrite E in Hf.
      exact (proj1 (unknown_args_nil _ _ _) Hf).
    + intros w dr dd Hat E. specialize (Hd w dr Hat). simpl in Hd. rewrite E in Hd.
      exact (proj1 (unknown_args_nil _ _ _) Hd).
  - intros [Hf Hd]. repeat split; try (intros; reflexivity).
    + intros q a n args dirs sl sub l Hr. simpl. destruct q as [p|]; [|reflexivity]. simpl.
      destruct (get_field_def s p (n_val n)) as [f|] eqn:E; [|reflexivity].
      apply (proj2 (unknown_args_nil _ _ _)). eapply Hf; eassumption.
    + intros w dr Hat. simpl. destruct (alookup (n_val (d_name dr)) (s_dirs s)) as [dd|] eqn:E; [|reflexivity].
      apply (proj2 (unknown_args_nil _ _ _)). eapply Hd; eassumption.
Qed.

Lemma dup_args_nil args : dup_args args = [] <-> NoDup (arg_names args).
Proof.
  unfold dup_args, arg_names. rewrite dups_nil, map_map. simpl. tauto.
Qed.

Theorem r21_equiv s d : r21_unique_argument_names s d = [] <-> spec_unique_argument_names s d.
Proof.
  unfold r21_unique_argument_names, spec_unique_argument_names.
  rewrite rule_events_iff; [|intros; try reflexivity; assumption..]. unfold nodes_ok. split.
  - intros (Hf & _ & _ & _ & Hd). split.
    + intros q a n args dirs sl sub l Hr. exact (proj1 (dup_args_nil _) (Hf _ _ _ _ _ _ _ _ Hr)).
    + intros w dr Hat. exact (proj1 (dup_args_nil _) (Hd w dr Hat)).
  - intros [Hf Hd]. repeat split; try (intros; reflexivity).
    + intros q a n args dirs sl sub l Hr. apply (proj2 (dup_args_nil _)). eapply Hf. exact Hr.
    + intros w dr Hat. apply (proj2 (dup_args_nil _)). eapply Hd. exact Hat.
Qed.

Lemma missing_args_nil l defs args : missing_args l defs args = [] <-> required_provided defs args.
Proof.
  unfold missing_args, required_provided. rewrite flat_map_nil_iff. split.
  - intros H ad Had Hr. specialize (H ad Had). rewrite Hr in H. simpl in H.
    destruct (mem_str (sa_name ad) (map (fun a => n_val (a_name a)) args)) eqn:Hm; [|discriminate].
    apply mem_str_In. exact Hm.
  - intros H ad Had. destruct (sarg_required ad) eqn:Hr; [|reflexivity]. simpl.
    specialize (H ad Had Hr). apply mem_str_In in H. unfold arg_names in H. rewrite H. reflexivity.
Qed.

Theorem r23_equiv s d : r23_provided_required_arguments s d = [] <-> spec_provided_required_arguments s d.
Proof.
  unfold r23_provided_required_arguments, spec_provided_required_arguments.
  rewrite rule_events_iff; [|intros; try reflexivity; assumption..]. unfold nodes_ok. split.
  - intros (Hf & _ & _ & _ & Hd). split.
    + intros p a n args dirs sl sub l f Hr E. specialize (Hf _ _ _ _ _ _ _ _ Hr). simpl in Hf. rewrite E in Hf.
      exact (proj1 (missing_args_nil _ _ _) Hf).
    + intros w dr dd Hat E. specialize (Hd w dr Hat). simpl in Hd. rewrite E in Hd.
      exact (proj1 (missing_args_nil _ _ _) Hd).
  - intros [Hf Hd]. repeat split; try (intros; reflexivity).
    + intros q a n args dirs sl sub l Hr. simpl. destruct q as [p|]; [|reflexivity]. simpl.
      destruct (get_field_def s p (n_val n)) as [f|] eqn:E; [|reflexivity].
      apply (proj2 (missing_args_nil _ _ _)). eapply Hf; eassumption.
    + intros w dr Hat. simpl. destruct (alookup (n_val (d_name dr)) (s_dirs s)) as [dd|] eqn:E; [|reflexivity].
      apply (proj2 (missing_args_nil _ _ _)). eapply Hd; eassumption.
Qed.

(* ---- directive rules ---- *)
Theorem r18_equiv s d : r18_known_directives s d = [] <-> spec_known_directives s d.
Proof.
  unfold r18_known_directives, spec_known_directives.
  rewrite rule_events_iff; [|intros; try reflexivity; assumption..]. unfold nodes_ok. split.
  - intros (_ & _ & _ & _ & Hd) w dr Hat. specialize (Hd w dr Hat). simpl in Hd.
    destruct (alookup (n_val (d_name dr)) (s_dirs s)) as [dd|]; [|discriminate].
    exists dd. split; [reflexivity|]. destruct (mem_str w (sd_locs dd)) eqn:Hm; [|discriminate].
    apply mem_str_In. exact Hm.
  - intros H. repeat split; try (intros; reflexivity).
    intros w dr Hat. simpl. destruct (H w dr Hat) as [dd [E Hin]]. rewrite E.
    apply mem_str_In in Hin. rewrite Hin. reflexivity.
Qed.

Lemma dup_dirs_nil dirs : dup_dirs dirs = [] <-> NoDup (dir_names dirs).
Proof. unfold dup_dirs, dir_names. rewrite dups_nil, map_map. simpl. tauto. Qed.

Theorem r19_equiv s d : r19_unique_directives s d = [] <-> spec_unique_directives s d.
Proof.
  unfold r19_unique_directives, spec_unique_directives.
  split.
  - intros H. apply app_eq_nil in H. destruct H as [Hdefs Hev].
    rewrite flat_map_nil_iff in Hdefs.
    apply rule_events_iff in Hev; [|intros; try reflexivity; assumption..].
    destruct Hev as (Hf & Hs & Hi & Hn & _). split.
    + intros q z Hr. apply (proj1 (dup_dirs_nil _)).
      destruct z as [a n args dirs sl sub l|n dirs l|[t|] dirs ssl sub l]; simpl.
      * exact (Hf _ _ _ _ _ _ _ _ Hr).
      * exact (Hs _ _ _ _ Hr).
      * exact (Hi _ _ _ _ _ _ Hr).
      * exact (Hn _ _ _ _ _ Hr).
    + intros df Hdf Hloc. apply (proj1 (dup_dirs_nil _)). specialize (Hdefs df Hdf).
      destruct df; simpl in *; try congruence; exact Hdefs.
  - intros [Hnodes Hdefs].
    assert (H1 : flat_map (fun x => match x with
                  | DOperation _ _ _ dirs _ _ _ => dup_dirs dirs
                  | DFragment _ _ _ dirs _ _ _ => dup_dirs dirs
                  | _ => [] end) (doc_defs d) = []).
    { apply flat_map_nil_iff. intros df Hdf. destruct df; try reflexivity.
      - apply (proj2 (dup_dirs_nil _)). apply (Hdefs _ Hdf). destruct k; discriminate.
      - apply (proj2 (dup_dirs_nil _)). apply (Hdefs _ Hdf). discriminate. }
    rewrite H1. simpl.
    apply rule_events_iff; try (intros; try reflexivity; assumption).
    repeat split; try (intros; reflexivity).
    + intros q a n args dirs sl sub l Hr. exact (proj2 (dup_dirs_nil _) (Hnodes _ _ Hr)).
    + intros q n dirs l Hr. exact (proj2 (dup_dirs_nil _) (Hnodes _ _ Hr)).
    + intros q t dirs ssl sub l Hr. exact (proj2 (dup_dirs_nil _) (Hnodes _ _ Hr)).
    + intros q dirs ssl sub l Hr. exact (proj2 (dup_dirs_nil _) (Hnodes _ _ Hr)).
Qed.

(* ---- FragmentsOnCompositeTypes ---- *)
Lemma bad_type_condition_nil s t : bad_type_condition s t = [] <-> composite_condition s t.
Proof.
  unfold bad_type_condition, composite_condition.
  destruct (type_from_ast s t) as [[n|r|r]|]; try (split; [discriminate|intros [n [E _]]; discriminate]).
  destruct (is_composite s n) eqn:Hc.
  - split; [intros _; exists n; tauto|reflexivity].
  - split; [discriminate|]. intros [m [E Hm]]. inversion E; subst. congruence.
Qed.

Theorem r06_equiv s d : r06_fragments_on_composite s d = [] <-> spec_fragments_on_composite s d.
Proof.
  unfold r06_fragments_on_composite, spec_fragments_on_composite. split.
  - intros H. apply app_eq_nil in H. destruct H as [Hdefs Hev]. rewrite flat_map_nil_iff in Hdefs.
    apply rule_events_iff in Hev; [|intros; try reflexivity; assumption..].
    destruct Hev as (_ & _ & Hi & _). split.
    + intros n vds tc dirs ssl sels l Hin. exact (proj1 (bad_type_condition_nil _ _) (Hdefs _ Hin)).
    + intros q t dirs ssl sub l Hr. exact (proj1 (bad_type_condition_nil _ _) (Hi _ _ _ _ _ _ Hr)).
  - intros [Hdefs Hi].
    assert (H1 : flat_map (fun x => match x with DFragment _ _ tc _ _ _ _ => bad_type_condition s tc | _ => [] end)
                          (doc_defs d) = []).
    { apply flat_map_nil_iff. intros df Hdf. destruct df; try reflexivity.
      apply (proj2 (bad_type_condition_nil _ _)). eapply Hdefs. exact Hdf. }
    rewrite H1. simpl. apply rule_events_iff; try (intros; reflexivity).
    repeat split; try (intros; reflexivity).
    intros q t dirs ssl sub l Hr. apply (proj2 (bad_type_condition_nil _ _)). eapply Hi. exact Hr.
Qed.

(* ---- definition level rules ---- *)
Theorem r15_equiv d : r15_unique_variable_names d = [] <-> spec_unique_variable_names d.
Proof.
  unfold r15_unique_variable_names, spec_unique_variable_names. rewrite flat_map_nil_iff.
  split; intros H df Hdf; specialize (H df Hdf).
  - apply dups_nil in H. rewrite map_map in H. simpl in H. destruct df; exact H.
  - apply dups_nil. rewrite map_map. simpl. destruct df; exact H.
Qed.

Theorem r05_equiv s d : r05_known_type_names s d = [] <-> spec_known_type_names s d.
Proof.
  unfold r05_known_type_names, spec_known_type_names. rewrite flat_map_nil_iff. split.
  - intros H df vd Hdf Hvd. specialize (H df Hdf). rewrite flat_map_nil_iff in H.
    assert (Hvd' : In vd (op_vardefs df)) by (destruct df; exact Hvd). specialize (H vd Hvd').
    destruct (type_from_ast s (vd_type vd)); [discriminate|discriminate H].
  - intros H df Hdf. apply flat_map_nil_iff. intros vd Hvd.
    assert (Hvd' : In vd (op_vars df)) by (destruct df; exact Hvd).
    destruct (type_from_ast s (vd_type vd)) eqn:E; [reflexivity|]. exfalso. eapply H; eassumption.
Qed.

Theorem r07_equiv s d : r07_variables_are_input_types s d = [] <-> spec_variables_are_input_types s d.
Proof.
  unfold r07_variables_are_input_types, spec_variables_are_input_types. rewrite flat_map_nil_iff. split.
  - intros H df vd Hdf Hvd. specialize (H df Hdf). rewrite flat_map_nil_iff in H.
    assert (Hvd' : In vd (op_vardefs df)) by (destruct df; exact Hvd). specialize (H vd Hvd').
    destruct (type_from_ast s (vd_type vd)) as [r|]; [|discriminate].
    exists r. split; [reflexivity|]. destruct (is_input_type s r); [reflexivity|discriminate].
  - intros H df Hdf. apply flat_map_nil_iff. intros vd Hvd.
    assert (Hvd' : In vd (op_vars df)) by (destruct df; exact Hvd).
    destruct (H df vd Hdf Hvd') as [r [E Hi]]. rewrite E, Hi. reflexivity.
Qed.

Theorem r04_equiv d : r04_single_field_subscription d = [] <-> spec_single_field_subscriptions d.
Proof.
  unfold r04_single_field_subscription, spec_single_field_subscriptions. rewrite flat_map_nil_iff. split.
  - intros H n vds dirs ssl sels l Hin. specialize (H _ Hin). simpl in H.
    destruct (Nat.eqb (length sels) 1) eqn:E; [apply Nat.eqb_eq; exact E|discriminate].
  - intros H df Hdf. destruct df; try reflexivity. destruct k; try reflexivity.
    rewrite (H _ _ _ _ _ _ Hdf). reflexivity.
Qed.

Theorem r01_equiv d : r01_executable d = [] <-> spec_executable_definitions d.
Proof.
  unfold r01_executable, spec_executable_definitions. rewrite flat_map_nil_iff. split.
  - intros H df Hdf. specialize (H df Hdf). destruct df; simpl in *; try discriminate; [left; exact I|right; eexists; reflexivity].
  - intros H df Hdf. destruct (H df Hdf) as [Ho|[f Hf]]; destruct df; simpl in *; try contradiction; reflexivity.
Qed.

(* ---- UniqueInputFieldNames ---- *)
Lemma value_dup_fields_nil : forall v, value_dup_fields v = [] <-> objects_unique v.
Proof.
  induction v as [n l|y l|y l|y b l|b l|l|y l|vs l IH|fs l IH] using value_ind';
    try (simpl; split; [intros _; constructor|reflexivity]).
  - simpl. rewrite (go_is_flat_map value_dup_fields vs), flat_map_nil_iff. rewrite Forall_forall in IH. split.
    + intros H. constructor. apply Forall_forall. intros x Hx. apply (IH x Hx). apply H. exact Hx.
    + intros H x Hx. inversion H; subst. apply (IH x Hx).
      match goal with F : Forall objects_unique vs |- _ => rewrite Forall_forall in F; apply F; exact Hx end.
  - assert (Hgo : value_dup_fields (VObject fs l) =
              map (mk 26) (dup_locs (map (fun f => (n_val (fst (fst f)), snd f)) fs))
              ++ flat_map (fun f => value_dup_fields (snd (fst f))) fs).
    { simpl. f_equal. induction fs as [|[[n x] fl] fs IHfs]; simpl; [reflexivity|].
      f_equal. apply IHfs. inversion IH; assumption. }
    rewrite Hgo. rewrite Forall_forall in IH. split.
    + intros H. apply app_eq_nil in H. destruct H as [H1 H2].
      apply dups_nil in H1. rewrite map_map in H1. simpl in H1. rewrite flat_map_nil_iff in H2.
      constructor; [exact H1|]. apply Forall_forall. intros f Hf. apply (IH f Hf). apply H2. exact Hf.
    + intros H. inversion H as [| | | | | | | |fs' l' N F]; subst.
      assert (H1 : map (mk 26) (dup_locs (map (fun f => (n_val (fst (fst f)), snd f)) fs)) = []).
      { apply dups_nil. rewrite map_map. exact N. }
      assert (H2 : flat_map (fun f => value_dup_fields (snd (fst f))) fs = []).
      { apply flat_map_nil_iff. intros f Hf. apply (IH f Hf). rewrite Forall_forall in F. apply F. exact Hf. }
      rewrite H1, H2. reflexivity.
Qed.

Lemma typed_args_dups s ctx args :
  flat_map (fun p => value_dup_fields (snd p)) (typed_args s ctx args) = [] <->
  forall x, In x args -> objects_unique (a_val x).
Proof.
  unfold typed_args. rewrite flat_map_nil_iff. split.
  - intros H x Hx. apply value_dup_fields_nil.
    apply (H (fst (arg_slot s ctx (n_val (a_name x))), snd (arg_slot s ctx (n_val (a_name x))), a_val x)).
    apply in_map_iff. exists x. tauto.
  - intros H p Hp. apply in_map_iff in Hp. destruct Hp as [x [<- Hx]]. simpl.
    apply value_dup_fields_nil. apply H. exact Hx.
Qed.

Lemma flat_map_flat_map {A B C} (f : B -> list C) (g : A -> list B) l :
  flat_map f (flat_map g l) = flat_map (fun x => flat_map f (g x)) l.
Proof. induction l as [|a l IH]; simpl; [reflexivity|]. rewrite flat_map_app, IH. reflexivity. Qed.

Theorem r26_equiv s d : r26_unique_input_field_names s d = [] <-> spec_unique_input_field_names s d.
Proof.
  unfold r26_unique_input_field_names, doc_typed_values, spec_unique_input_field_names.
  rewrite flat_map_flat_map.
  assert (Hsplit : flat_map (fun x => flat_map (fun p => value_dup_fields (snd p))
                      (typed_defaults s x ++ flat_map (typed_values_ev s) (def_events s x))) (doc_defs d) = [] <->
                   (forall df vd v, In df (doc_defs d) -> In vd (op_vars df) -> vd_default vd = Some v -> objects_unique v)
                   /\ flat_map (fun e => flat_map (fun p => value_dup_fields (snd p)) (typed_values_ev s e)) (doc_events s d) = []).
  { unfold doc_events. rewrite flat_map_flat_map, !flat_map_nil_iff. split.
    - intros H. split.
      + intros df vd v Hdf Hvd Hv. specialize (H df Hdf). rewrite flat_map_app in H.
        apply app_eq_nil in H. destruct H as [H _]. unfold typed_defaults in H.
        rewrite flat_map_flat_map, flat_map_nil_iff in H.
        assert (Hvd' : In vd (op_vardefs df)) by (destruct df; exact Hvd).
        specialize (H vd Hvd'). rewrite Hv in H. simpl in H. rewrite app_nil_r in H.
        apply value_dup_fields_nil. exact H.
      + intros df Hdf. specialize (H df Hdf). rewrite flat_map_app in H.
        apply app_eq_nil in H. destruct H as [_ H]. rewrite flat_map_flat_map in H. exact H.
    - intros [H1 H2] df Hdf. rewrite flat_map_app.
      assert (Ha : flat_map (fun p => value_dup_fields (snd p)) (typed_defaults s df) = []).
      { unfold typed_defaults. rewrite flat_map_flat_map. apply flat_map_nil_iff. intros vd Hvd.
        assert (Hvd' : In vd (op_vars df)) by (destruct df; exact Hvd).
        destruct (vd_default vd) as [v|] eqn:Hv; [|reflexivity]. simpl. rewrite app_nil_r.
        apply value_dup_fields_nil. eapply H1; eassumption. }
      rewrite Ha. simpl. rewrite flat_map_flat_map. apply H2. exact Hdf. }
  rewrite Hsplit. clear Hsplit.
  rewrite rule_events_iff.
  - unfold nodes_ok. split.
    + intros [Hdef (Hf & _ & _ & _ & Hd)] v [(q & a & n & args & dirs & sl & sub & l & x & Hr & Hx & <-)
                                              |[(w & dr & x & Hat & Hx & <-)|(df & vd & Hdf & Hvd & Hv)]].
      * specialize (Hf _ _ _ _ _ _ _ _ Hr). simpl in Hf. exact (proj1 (typed_args_dups _ _ _) Hf x Hx).
      * specialize (Hd w dr Hat). simpl in Hd. exact (proj1 (typed_args_dups _ _ _) Hd x Hx).
      * eapply Hdef; eassumption.
    + intros H. split; [intros df vd v Hdf Hvd Hv; apply H; right; right; exists df, vd; tauto|].
      repeat split; try (intros; reflexivity).
      * intros q a n args dirs sl sub l Hr. simpl. apply (proj2 (typed_args_dups _ _ _)).
        intros x Hx. apply H. left. exists q, a, n, args, dirs, sl, sub, l, x. tauto.
      * intros w dr Hat. simpl. apply (proj2 (typed_args_dups _ _ _)).
        intros x Hx. apply H. right. left. exists w, dr, x. tauto.
  - intros w cf cf' dr H. simpl in *. apply (proj2 (typed_args_dups _ _ _)).
    exact (proj1 (typed_args_dups _ _ _) H).
  - intros; reflexivity.
  - intros; reflexivity.
Qed.

(* ---- PossibleFragmentSpreads ---- *)
Lemma inline_none_event s d ity q dirs l :
  In (EInline ity q None dirs l) (doc_events s d) ->
  exists ty', ity = out_filter s ty' /\ sel_parent s ty' = q.
Proof.
  intros He. apply doc_events_In in He. destruct He as [df [Hdf He]].
  destruct (def_events_inv s df _ He) as [(dr & w & _ & _ & E)|[[l0 E]|(x & q' & z & ty' & cf' & _ & _ & Hq & Hne)]];
    try discriminate.
  destruct z as [a n args dirs0 sl sub l1|n dirs0 l1|tc dirs0 ssl sub l1]; simpl in Hne.
  - destruct Hne as [E|Hne]; [discriminate|]. apply in_app_or in Hne. destruct Hne as [Hne|Hne].
    + apply in_map_iff in Hne. destruct Hne as [x0 [E _]]. discriminate.
    + destruct sl; [destruct Hne as [E|[]]; discriminate|destruct Hne].
  - destruct Hne as [E|Hne]; [discriminate|]. apply in_map_iff in Hne. destruct Hne as [x0 [E _]]. discriminate.
  - destruct Hne as [E|Hne].
    + inversion E; subst. exists ty'. tauto.
    + apply in_app_or in Hne. destruct Hne as [Hne|Hne].
      * apply in_map_iff in Hne. destruct Hne as [x0 [E _]]. discriminate.
      * destruct Hne as [E|[]]. discriminate.
Qed.

Lemma named_composite_out_filter s ty' n :
  named_composite s (out_filter s ty') = Some n -> sel_parent s ty' = Some n.
Proof.
  destruct ty' as [[m|r|r]|]; simpl; try discriminate.
  - unfold is_output_type. simpl. destruct (is_output_named s m); simpl; [|discriminate].
    destruct (is_composite s m); [intros E; inversion E; reflexivity|discriminate].
  - unfold is_output_type. simpl. destruct (is_output_named s (unwrap r)); simpl; discriminate.
  - unfold is_output_type. simpl. destruct (is_output_named s (unwrap r)); simpl; discriminate.
Qed.

Lemma types_overlap_refl s n : types_overlap s n n = true.
Proof. unfold types_overlap. rewrite str_eqb_refl. reflexivity. Qed.

Theorem r13_equiv s d :
  r13_possible_spreads s d = [] <-> spec_possible_spreads s d (frag_type_of s (doc_defs d)).
Proof.
  unfold r13_possible_spreads, spec_possible_spreads.
  set (g := fun e : ev => match e with
     | ESpread (Some p) n _ l =>
         match named_composite s (frag_type_of s (doc_defs d) (n_val n)) with
         | Some ft => if types_overlap s ft p then [] else [mk 13 l]
         | None => []
         end
     | EInline ity (Some p) _ _ l =>
         match named_composite s ity with
         | Some t => if types_overlap s t p then [] else [mk 13 l]
         | None => []
         end
     | _ => [] end).
  (* events of inline fragments without type condition never report *)
  assert (Hnone : forall e, In e (doc_events s d) ->
            match e with EInline _ _ None _ _ => g e = [] | _ => True end).
  { intros e He. destruct e; try exact I. destruct tc; [exact I|].
    destruct (inline_none_event _ _ _ _ _ _ He) as [ty' [-> Hq]]. simpl.
    destruct parent as [p|]; [|reflexivity].
    destruct (named_composite s (out_filter s ty')) as [t|] eqn:E; [|reflexivity].
    apply named_composite_out_filter in E. rewrite Hq in E. inversion E; subst.
    rewrite types_overlap_refl. reflexivity. }
  set (g' := fun e : ev => match e with EInline _ _ None _ _ => [] | _ => g e end).
  assert (Hgg : flat_map g (doc_events s d) = [] <-> flat_map g' (doc_events s d) = []).
  { rewrite !flat_map_nil_iff. split; intros H e He; specialize (H e He); specialize (Hnone e He);
      destruct e; try exact H; destruct tc; try exact H; [reflexivity|exact Hnone]. }
  apply (iff_trans Hgg). clear Hgg Hnone.
  rewrite rule_events_iff; [|intros; reflexivity..]. unfold nodes_ok. split.
  - intros (_ & Hs & Hi & _). split.
    + intros p n dirs l ft Hr Hft Hc. specialize (Hs _ _ _ _ Hr). simpl in Hs. rewrite Hft in Hs. simpl in Hs.
      rewrite Hc in Hs. destruct (types_overlap s ft p); [reflexivity|discriminate].
    + intros p t dirs ssl sub l ft Hr Hft Hc. specialize (Hi _ _ _ _ _ _ Hr). simpl in Hi.
      rewrite Hft in Hi. simpl in Hi. unfold is_output_type in Hi. simpl in Hi.
      rewrite (composite_is_output _ _ Hc) in Hi. simpl in Hi. rewrite Hc in Hi.
      destruct (types_overlap s ft p); [reflexivity|discriminate].
  - intros [Hs Hi]. repeat split; try (intros; reflexivity).
    + intros q n dirs l Hr. simpl. destruct q as [p|]; [|reflexivity].
      destruct (frag_type_of s (doc_defs d) (n_val n)) as [[ft|r|r]|] eqn:Hft; try reflexivity. simpl.
      destruct (is_composite s ft) eqn:Hc; [|reflexivity].
      rewrite (Hs _ _ _ _ _ Hr Hft Hc). reflexivity.
    + intros q t dirs ssl sub l Hr. simpl. destruct q as [p|]; [|reflexivity].
      destruct (type_from_ast s t) as [[ft|r|r]|] eqn:Hft; simpl; try reflexivity;
        try (unfold is_output_type; simpl; destruct (is_output_named s (unwrap r)); reflexivity).
      unfold is_output_type. simpl. destruct (is_output_named s ft) eqn:Ho; [|reflexivity]. simpl.
      destruct (is_composite s ft) eqn:Hc; [|reflexivity].
      rewrite (Hi _ _ _ _ _ _ _ Hr Hft Hc). reflexivity.
Qed.
