(* Where a rejection comes from.  A rejection of parse / parse_value /
   parse_type with one of the lexical classes (InvalidCharacter,
   UnexpectedCharacter, NonTerminatedString, InvalidEscapeSequence) is the
   rejection of the lexer on the same text, class and position; the parser
   itself only ever raises UnexpectedToken and UnexpectedEOF, at positions
   inside the text. *)
From PyGql Require Import Lang.Parser Spec.LocSpec Spec.LexErrorSpec Proofs.LexTotal.
From PyGql Require Proofs.ParserFramework Proofs.ParserTop.
From PyGql Require Import Proofs.ParserFrameworkE Proofs.ParserTotalE.

(* either raised by the parser (syntactic class, inside the text) or the error the lexer stream ends with *)
Definition origin (s : str) (k p : nat) : Prop :=
  (syntactic k /\ p <= length s) \/ In (LE k p) (lex_stream s).

Lemma origin_HE s : forall k p, p <= length s -> k = E_UnexpectedToken \/ k = E_UnexpectedEOF -> origin s k p.
Proof. intros k p Hp Hk. left. split; assumption. Qed.

Lemma lex_stream_ok_origin s :
  Forall (lx_ok (length s) (origin s)) (lex_stream s) /\ wf_stream (lex_stream s).
Proof.
  destruct (ParserTop.lex_stream_ok s) as [Hf Hw]. split; [|exact Hw].
  rewrite Forall_forall in Hf |- *. intros x Hx. specialize (Hf x Hx).
  destruct x as [t|k p|]; simpl in *; [exact Hf|right; exact Hx|exact Hf].
Qed.

Section Run.
Variable fl : flags.
Variable s : str.

Lemma run_origin {A} (Q : A -> Prop) (p : flags -> nat -> parser A) :
  (forall n m, m < n -> pgoodP (length s) (origin s) (fun _ => True) Q true m (p fl n)) ->
  forall k pos, run p fl s = Rejected k pos -> origin s k pos.
Proof.
  intros Hp k pos. unfold run, parse_fuel.
  destruct (lex_stream_ok_origin s) as [Hf Hw].
  pose proof (Hp (S (length (lex_stream s))) (length (lex_stream s)) (le_n _)
                 (PSt (lex_stream s) 0) (conj Hf (conj Hw (Nat.le_0_l _))) I (le_n _)) as H.
  destruct (p fl (S (length (lex_stream s))) (PSt (lex_stream s) 0)) as [[a st']| | |]; try discriminate.
  intros E. injection E as <- <-. exact H.
Qed.

Let phi : loc -> Prop := fun _ => True.
Let Hphi : forall t e, tok_ok (length s) t -> e <= length s ->
  phi (if no_location fl then None else Some (tstart t, e)) := fun _ _ _ _ => I.

Theorem parse_document_origin k pos : parse_document fl s = Rejected k pos -> origin s k pos.
Proof.
  apply (run_origin (q_doc phi) parse_document_p). intros n m Hm.
  apply (pg_parse_document_p (length s) (origin s) (origin_HE s) fl phi Hphi n m Hm).
Qed.

Theorem parse_value_origin k pos : parse_value_str fl s = Rejected k pos -> origin s k pos.
Proof.
  apply (run_origin (q_value phi) parse_value_p). intros n m Hm.
  apply (pg_parse_value_p (length s) (origin s) (origin_HE s) fl phi Hphi n m Hm).
Qed.

Theorem parse_type_origin k pos : parse_type_str fl s = Rejected k pos -> origin s k pos.
Proof.
  apply (run_origin (q_ty phi) parse_type_p). intros n m Hm.
  apply (pg_parse_type_p (length s) (origin s) (origin_HE s) fl phi Hphi n m Hm).
Qed.
End Run.

(* a stream holds at most one error, at its end, after tokens only: the eager lexer reports it *)
Lemma lex_from_error : forall fuel rest pos k p,
  In (LE k p) (lex_from fuel rest pos) -> collect (lex_from fuel rest pos) = Rejected k p.
Proof.
  induction fuel as [|f IH]; intros rest pos k p Hin; simpl in *.
  - destruct Hin as [E|[]]; discriminate.
  - destruct (skip_ws false rest pos) as [r1 p1].
    destruct (next_token r1 p1) as [[t r2]| |k' p'|]; simpl in *.
    + destruct Hin as [E|Hin]; [discriminate|].
      destruct (is_kind KEOF t); [destruct Hin|]. rewrite (IH _ _ _ _ Hin). reflexivity.
    + destruct Hin as [E|[]]; discriminate.
    + destruct Hin as [E|[]]. injection E as -> ->. reflexivity.
    + destruct Hin as [E|[]]; discriminate.
Qed.

Lemma lex_stream_error s k p : In (LE k p) (lex_stream s) -> lex s = Rejected k p.
Proof.
  unfold lex, lex_stream. intros [E|Hin]; [discriminate|]. cbn [collect]. rewrite (lex_from_error _ _ _ _ _ Hin). reflexivity.
Qed.

Lemma origin_cases s k p : origin s k p ->
  (syntactic k /\ p <= length s) \/ lex s = Rejected k p.
Proof. intros [H|H]; [left; exact H|right; apply lex_stream_error; exact H]. Qed.

Lemma lexical_not_syntactic k : lexical k -> ~ syntactic k.
Proof. intros [ -> | [ -> | [ -> | -> ] ] ] [H|H]; discriminate H. Qed.

(* the statement *)
Theorem rejection_origin fl s :
  (forall k p, parse_document fl s = Rejected k p -> (syntactic k /\ p <= length s) \/ lex s = Rejected k p)
  /\ (forall k p, parse_value_str fl s = Rejected k p -> (syntactic k /\ p <= length s) \/ lex s = Rejected k p)
  /\ (forall k p, parse_type_str fl s = Rejected k p -> (syntactic k /\ p <= length s) \/ lex s = Rejected k p).
Proof.
  repeat split; intros k p H; apply origin_cases;
    [eapply parse_document_origin|eapply parse_value_origin|eapply parse_type_origin]; exact H.
Qed.

Corollary lexical_rejection_is_lexer fl s k p : lexical k ->
  (parse_document fl s = Rejected k p \/ parse_value_str fl s = Rejected k p \/ parse_type_str fl s = Rejected k p) ->
  lex s = Rejected k p.
Proof.
  intros Hk H. destruct (rejection_origin fl s) as (H1 & H2 & H3).
  destruct H as [H|[H|H]]; [apply H1 in H|apply H2 in H|apply H3 in H];
    (destruct H as [[Hs _]|H]; [exfalso; exact (lexical_not_syntactic k Hk Hs)|exact H]).
Qed.

(* hence: class and offset of every rejection with a lexer-only class are the
   ones Spec/LexErrorSpec.v prescribes for the text *)
From PyGql Require Import Proofs.LexErrorProofs.

Corollary lexical_rejection_spec fl s k p : lexical k ->
  (parse_document fl s = Rejected k p \/ parse_value_str fl s = Rejected k p \/ parse_type_str fl s = Rejected k p) ->
  lex_error s k p.
Proof. intros Hk H. apply lex_error_sound. eapply lexical_rejection_is_lexer; eassumption. Qed.
