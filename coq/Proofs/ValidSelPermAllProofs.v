(* Invariance of the verdict of the 23 rules with a specification form under
   reordering of the selections of every selection set and of the arguments
   of every field and directive, at every depth ([doc_perm]). *)
From PyGql Require Import Valid.ValidOverlap Spec.ValidSpec Spec.ValidLocalSpec Proofs.ValidCloseProofs
     Proofs.ValidGraphProofs Proofs.ValidVarProofs Proofs.ValidPermProofs Proofs.ValidStaticProofs
     Proofs.ValidUniqueProofs Proofs.ValidUnusedProofs Proofs.ValidLocalProofs Proofs.ValidVerdictProofs
     Proofs.ValidSelPermProofs Proofs.ValidPermAllProofs.
From Coq Require Import Lia Permutation.

(* ---- symmetry ---- *)
Lemma Forall2_perm {A B} (R : A -> B -> Prop) l1 l2 :
  Permutation l1 l2 -> forall m1, Forall2 R l1 m1 -> exists m2, Forall2 R l2 m2 /\ Permutation m1 m2.
Proof.
  induction 1 as [|x l l' Hp IH|x y l|l l' l'' H1 IH1 H2 IH2]; intros m1 HF.
  - inversion HF; subst. exists []. split; constructor.
  - inversion HF as [|a b la lb Hab Hrest]; subst. destruct (IH _ Hrest) as [m2 [HF2 Hp2]].
    exists (b :: m2). split; constructor; assumption.
  - inversion HF as [|a b la lb Hab Hrest]; subst. inversion Hrest as [|a' b' la' lb' Hab' Hrest']; subst.
    exists (b' :: b :: lb'). split; [repeat constructor; assumption|apply perm_swap].
  - destruct (IH1 _ HF) as [m2 [HF2 Hp2]]. destruct (IH2 _ HF2) as [m3 [HF3 Hp3]].
    exists m3. split; [exact HF3|eapply Permutation_trans; eassumption].
Qed.

Lemma Forall2_flip {A B} (R : A -> B -> Prop) l m : Forall2 R l m -> Forall2 (fun b a => R a b) m l.
Proof. induction 1; constructor; assumption. Qed.

Lemma dir_perm_sym a b : dir_perm a b -> dir_perm b a.
Proof. intros [n args args' l Hp]. constructor. symmetry. exact Hp. Qed.

Lemma Forall2_sym_map {A} (R : A -> A -> Prop) l m :
  (forall a b, In a l -> R a b -> R b a) -> Forall2 R l m -> Forall2 R m l.
Proof.
  intros Hs HF. induction HF as [|a b l m Hab HF IH]; constructor.
  - apply Hs; [left; reflexivity|exact Hab].
  - apply IH. intros x y Hx. apply Hs. right. exact Hx.
Qed.

Lemma dirs_perm_sym l m : Forall2 dir_perm l m -> Forall2 dir_perm m l.
Proof. apply Forall2_sym_map. intros a b _. apply dir_perm_sym. Qed.

Lemma sub_perm_sym sub sub' sub'' :
  (forall y, In y sub -> forall y', sel_perm y y' -> sel_perm y' y) ->
  Forall2 sel_perm sub sub' -> Permutation sub' sub'' ->
  exists m, Forall2 sel_perm sub'' m /\ Permutation m sub.
Proof.
  intros IH HF HP.
  assert (HF' : Forall2 sel_perm sub' sub)
    by (apply Forall2_sym_map; [intros a b Ha Hab; exact (IH a Ha b Hab)|exact HF]).
  destruct (Forall2_perm sel_perm _ _ HP _ HF') as [m [HF2 Hp2]].
  exists m. split; [exact HF2|symmetry; exact Hp2].
Qed.

Lemma sel_perm_sym : forall x x', sel_perm x x' -> sel_perm x' x.
Proof.
  induction x as [a n args dirs sl sub l IH|n dirs l|tc dirs ssl sub l IH] using selection_ind';
    intros x' Hp; inversion Hp; subst.
  - rewrite Forall_forall in IH.
    match goal with HF : Forall2 sel_perm sub ?s1, HP : Permutation ?s1 _ |- _ =>
      destruct (sub_perm_sym _ _ _ IH HF HP) as [m [HF2 Hp2]] end.
    econstructor; [symmetry; eassumption|apply dirs_perm_sym; eassumption|exact HF2|exact Hp2].
  - constructor. apply dirs_perm_sym. assumption.
  - rewrite Forall_forall in IH.
    match goal with HF : Forall2 sel_perm sub ?s1, HP : Permutation ?s1 _ |- _ =>
      destruct (sub_perm_sym _ _ _ IH HF HP) as [m [HF2 Hp2]] end.
    econstructor; [apply dirs_perm_sym; eassumption|exact HF2|exact Hp2].
Qed.

Lemma sels_perm_sym a b : sels_perm a b -> sels_perm b a.
Proof.
  intros [m [HF HP]].
  destruct (sub_perm_sym a m b (fun y _ y' H => sel_perm_sym y y' H) HF HP) as [m' [HF' HP']].
  exists m'. tauto.
Qed.

Lemma def_perm_sym a b : def_perm a b -> def_perm b a.
Proof.
  intros H. destruct H; constructor; try (apply dirs_perm_sym; assumption); apply sels_perm_sym; assumption.
Qed.

Lemma doc_perm_sym d d' : doc_perm d d' -> doc_perm d' d.
Proof. unfold doc_perm. apply Forall2_sym_map. intros a b _. apply def_perm_sym. Qed.

(* ---- nodes correspond ---- *)
Lemma sub_member sub sub' sub'' y :
  Forall2 sel_perm sub sub' -> Permutation sub' sub'' -> In y sub ->
  exists y', In y' sub'' /\ sel_perm y y'.
Proof.
  intros HF HP Hy. destruct (Forall2_In_l _ _ _ _ HF Hy) as [y' [Hy' Hr]].
  exists y'. split; [eapply Permutation_in; eassumption|exact Hr].
Qed.

Lemma descends_perm s p x q z :
  descends s p x q z -> forall x', sel_perm x x' -> exists z', descends s p x' q z' /\ sel_perm z z'.
Proof.
  induction 1 as [p x|p a n args dirs l0 sub l y q z Hy Hd IH|p t dirs ssl sub l y q z Hy Hd IH
                  |p dirs ssl sub l y q z Hy Hd IH]; intros x' Hp.
  - exists x'. split; [constructor|exact Hp].
  - inversion Hp; subst.
    match goal with HF : Forall2 sel_perm sub ?s1, HP : Permutation ?s1 _ |- _ =>
      destruct (sub_member _ _ _ _ HF HP Hy) as [y' [Hy' Hr]] end.
    destruct (IH y' Hr) as [z' [Hd' Hz]]. exists z'. split; [|exact Hz].
    eapply desc_field; eassumption.
  - inversion Hp; subst.
    match goal with HF : Forall2 sel_perm sub ?s1, HP : Permutation ?s1 _ |- _ =>
      destruct (sub_member _ _ _ _ HF HP Hy) as [y' [Hy' Hr]] end.
    destruct (IH y' Hr) as [z' [Hd' Hz]]. exists z'. split; [|exact Hz].
    eapply desc_inline_on; eassumption.
  - inversion Hp; subst.
    match goal with HF : Forall2 sel_perm sub ?s1, HP : Permutation ?s1 _ |- _ =>
      destruct (sub_member _ _ _ _ HF HP Hy) as [y' [Hy' Hr]] end.
    destruct (IH y' Hr) as [z' [Hd' Hz]]. exists z'. split; [|exact Hz].
    eapply desc_inline; eassumption.
Qed.

Lemma def_perm_parent s df df' : def_perm df df' -> def_parent s df = def_parent s df'.
Proof. intros H. destruct H; reflexivity. Qed.

Lemma reaches_perm s d d' q z :
  doc_perm d d' -> reaches s d q z -> exists z', reaches s d' q z' /\ sel_perm z z'.
Proof.
  intros Hdp (df & x & Hdf & Hx & Hd).
  destruct (Forall2_In_l _ _ _ _ Hdp Hdf) as [df' [Hdf' Hr]].
  destruct (def_sels_perm df df' Hr) as [m [HF HP]].
  destruct (sub_member _ _ _ _ HF HP Hx) as [x' [Hx' Hxp]].
  destruct (descends_perm _ _ _ _ _ Hd x' Hxp) as [z' [Hd' Hz]].
  exists z'. split; [|exact Hz]. exists df', x'. split; [exact Hdf'|]. split; [exact Hx'|].
  rewrite <- (def_perm_parent s df df' Hr). exact Hd'.
Qed.

Lemma dirs_member dirs dirs' dr :
  Forall2 dir_perm dirs dirs' -> In dr dirs -> exists dr', In dr' dirs' /\ dir_perm dr dr'.
Proof. intros HF H. destruct (Forall2_In_l _ _ _ _ HF H) as [dr' H']. exists dr'. exact H'. Qed.

Lemma sel_perm_node z z' :
  sel_perm z z' -> Forall2 dir_perm (node_dirs z) (node_dirs z') /\ node_location z = node_location z'.
Proof. intros H. destruct H; simpl; tauto. Qed.

Lemma def_perm_dirs df df' :
  def_perm df df' -> Forall2 dir_perm (def_dirs df) (def_dirs df') /\ def_location df = def_location df'.
Proof. intros H. destruct H; simpl; tauto. Qed.

Lemma directive_at_perm s d d' w dr :
  doc_perm d d' -> directive_at s d w dr -> exists dr', directive_at s d' w dr' /\ dir_perm dr dr'.
Proof.
  intros Hdp [(q & z & Hr & Hdr & ->)|(df & Hdf & Hdr & Hw)].
  - destruct (reaches_perm s d d' q z Hdp Hr) as [z' [Hr' Hz]].
    destruct (sel_perm_node z z' Hz) as [HF Hloc].
    destruct (dirs_member _ _ _ HF Hdr) as [dr' [Hdr' Hp]].
    exists dr'. split; [|exact Hp]. left. exists q, z'. rewrite Hloc. tauto.
  - destruct (Forall2_In_l _ _ _ _ Hdp Hdf) as [df' [Hdf' Hr]].
    destruct (def_perm_dirs df df' Hr) as [HF Hloc].
    destruct (dirs_member _ _ _ HF Hdr) as [dr' [Hdr' Hp]].
    exists dr'. split; [|exact Hp]. right. exists df'. rewrite <- Hloc. tauto.
Qed.

(* ---- node properties are insensitive to the order ---- *)
Lemma arg_names_perm a b : Permutation a b -> Permutation (arg_names a) (arg_names b).
Proof. apply Permutation_map. Qed.

Lemma dir_names_perm l m : Forall2 dir_perm l m -> dir_names l = dir_names m.
Proof.
  induction 1 as [|a b l m Hab HF IH]; [reflexivity|]. unfold dir_names in *. simpl. rewrite IH.
  destruct Hab. reflexivity.
Qed.

Lemma frag_type_of_perm s ds ds' f : Forall2 def_perm ds ds' -> frag_type_of s ds f = frag_type_of s ds' f.
Proof.
  induction 1 as [|a b l m Hab HF IH]; [reflexivity|]. simpl. rewrite IH.
  assert (Hex : existsb (fun y => match frag_name y with Some f' => str_eqb f f' | None => false end) l
              = existsb (fun y => match frag_name y with Some f' => str_eqb f f' | None => false end) m).
  { clear IH. induction HF as [|x y l m Hxy HF IHF]; [reflexivity|]. simpl. rewrite IHF.
    destruct (def_perm_facts _ _ Hxy) as (Hn & _). rewrite Hn. reflexivity. }
  rewrite Hex. destruct Hab; reflexivity.
Qed.

Lemma filter_is_op_len ds ds' : Forall2 def_perm ds ds' ->
  length (filter (fun x => match x with DOperation _ _ _ _ _ _ _ => true | _ => false end) ds)
  = length (filter (fun x => match x with DOperation _ _ _ _ _ _ _ => true | _ => false end) ds').
Proof. induction 1 as [|a b l m Hab HF IH]; [reflexivity|]. simpl. destruct Hab; simpl; lia. Qed.

Lemma Forall2_len {A B} (R : A -> B -> Prop) l m : Forall2 R l m -> length l = length m.
Proof. induction 1; simpl; congruence. Qed.

Lemma valid_spec_doc_perm s d d' : doc_perm d d' -> valid_spec s d -> valid_spec s d'.
Proof.
  intros Hdp (H1 & H2 & H3 & H4 & H5 & H6 & H7 & H8 & H9 & H10 & H11 & H12 & H13 & H14 & H15 & H16 & H17 &
              H18 & H19 & H20 & H21 & H23 & H26).
  pose proof (doc_perm_sym _ _ Hdp) as Hdp'.
  destruct (doc_perm_names _ _ Hdp) as [Hfn Hkl].
  (* every node / directive / definition of d' comes from one of d *)
  assert (R : forall q z', reaches s d' q z' -> exists z, reaches s d q z /\ sel_perm z z').
  { intros q z' Hr. destruct (reaches_perm s d' d q z' Hdp' Hr) as [z [Hr0 Hz]].
    exists z. split; [exact Hr0|apply sel_perm_sym; exact Hz]. }
  assert (D : forall w dr', directive_at s d' w dr' -> exists dr, directive_at s d w dr /\ dir_perm dr dr').
  { intros w dr' Hat. destruct (directive_at_perm s d' d w dr' Hdp' Hat) as [dr [Hat0 Hp]].
    exists dr. split; [exact Hat0|apply dir_perm_sym; exact Hp]. }
  assert (F : forall df', In df' (doc_defs d') -> exists df, In df (doc_defs d) /\ def_perm df df').
  { intros df' Hdf'. destruct (Forall2_In_r _ _ _ _ Hdp Hdf') as [df [Hdf Hr]]. eauto. }
  unfold valid_spec. repeat match goal with |- _ /\ _ => split end.
  - intros df' Hdf'. destruct (F df' Hdf') as [df [Hdf Hr]]. specialize (H1 df Hdf).
    destruct Hr; simpl in *; [left; exact I|right; eexists; reflexivity].
  - rewrite <- Hkl. exact H2.
  - unfold spec_lone_anonymous in *. intros [a' [Ha' Han]]. rewrite <- (filter_is_op_len _ _ Hdp). apply H3.
    destruct (F a' Ha') as [a [Ha Hr]]. exists a. split; [exact Ha|]. destruct Hr; simpl in *; [exact Han|contradiction].
  - intros n vds dirs ssl sels' l Hin. destruct (F _ Hin) as [df [Hdf Hr]].
    inversion Hr as [k0 n0 vds0 dirs0 dirs0' ssl0 sels0 sels0' l0 HD HS|]; subst.
    destruct HS as [m [HF HP]]. rewrite <- (Permutation_length HP), <- (Forall2_len _ _ _ HF). eapply H4. exact Hdf.
  - intros df' vd Hdf' Hvd. destruct (F df' Hdf') as [df [Hdf Hr]].
    apply (H5 df vd Hdf). destruct Hr; exact Hvd.
  - destruct H6 as [Ha Hb]. split.
    + intros n vds tc dirs ssl sels l Hin. destruct (F _ Hin) as [df [Hdf Hr]]. inversion Hr; subst.
      eapply Ha. exact Hdf.
    + intros q t dirs ssl sub l Hr. destruct (R _ _ Hr) as [z [Hr0 Hz]]. inversion Hz; subst.
      eapply Hb. exact Hr0.
  - intros df' vd Hdf' Hvd. destruct (F df' Hdf') as [df [Hdf Hr]].
    apply (H7 df vd Hdf). destruct Hr; exact Hvd.
  - intros (p & a & n & args & dirs & sl & sub & l & f & Hr & H). apply H8.
    destruct (R _ _ Hr) as [z [Hr0 Hz]]. inversion Hz; subst.
    do 9 eexists. split; [exact Hr0|exact H].
  - intros p a n args dirs sl sub l Hr. destruct (R _ _ Hr) as [z [Hr0 Hz]]. inversion Hz; subst.
    eapply H9. exact Hr0.
  - rewrite <- Hfn. exact H10.
  - apply (spec_known_perm d d' Hdp). exact H11.
  - intros f Hf. apply (defined_fragment_perm d d' Hdp) in Hf. destruct (H12 f Hf) as (op & Hop & Hisop & Hreach).
    destruct (Forall2_In_l _ _ _ _ Hdp Hop) as [op' [Hop' Hr]].
    exists op'. split; [exact Hop'|]. split; [destruct Hr; simpl in *; tauto|].
    apply (frag_reach_perm d d' Hdp _ _ f (def_sels_perm _ _ Hr)). exact Hreach.
  - destruct H13 as [Ha Hb]. split.
    + intros p n dirs l ft Hr Hft Hc. destruct (R _ _ Hr) as [z [Hr0 Hz]]. inversion Hz; subst.
      eapply Ha; [exact Hr0| |exact Hc]. rewrite (frag_type_of_perm s _ _ (n_val n) Hdp). exact Hft.
    + intros p t dirs ssl sub l ft Hr. destruct (R _ _ Hr) as [z [Hr0 Hz]]. inversion Hz; subst.
      eapply Hb. exact Hr0.
  - intros Hc. apply H14. apply (has_cycle_perm d d' Hdp). exact Hc.
  - intros df' Hdf'. destruct (F df' Hdf') as [df [Hdf Hr]]. specialize (H15 df Hdf). destruct Hr; exact H15.
  - apply (spec_undefined_perm d d' Hdp). exact H16.
  - apply (spec_unused_perm d d' Hdp). exact H17.
  - intros w dr' Hat. destruct (D w dr' Hat) as [dr [Hat0 Hp]]. destruct (H18 w dr Hat0) as [dd H].
    exists dd. destruct Hp. exact H.
  - destruct H19 as [Ha Hb]. split.
    + intros q z' Hr. destruct (R _ _ Hr) as [z [Hr0 Hz]]. destruct (sel_perm_node z z' Hz) as [HF _].
      rewrite <- (dir_names_perm _ _ HF). eapply Ha. exact Hr0.
    + intros df' Hdf' Hloc. destruct (F df' Hdf') as [df [Hdf Hr]]. destruct (def_perm_dirs df df' Hr) as [HF Hl].
      rewrite <- (dir_names_perm _ _ HF). apply (Hb df Hdf). rewrite Hl. exact Hloc.
  - destruct H20 as [Ha Hb]. split.
    + intros p a n args' dirs sl sub l f Hr E x Hx. destruct (R _ _ Hr) as [z [Hr0 Hz]]. inversion Hz; subst.
      eapply Ha; [exact Hr0|exact E|].
      eapply Permutation_in; [symmetry; apply arg_names_perm; eassumption|exact Hx].
    + intros w dr' dd Hat E x Hx. destruct (D w dr' Hat) as [dr [Hat0 Hp]]. destruct Hp as [n args args' l Hp].
      eapply (Hb w _ dd Hat0 E). eapply Permutation_in; [symmetry; apply arg_names_perm; exact Hp|exact Hx].
  - destruct H21 as [Ha Hb]. split.
    + intros q a n args' dirs sl sub l Hr. destruct (R _ _ Hr) as [z [Hr0 Hz]]. inversion Hz; subst.
      eapply Permutation_NoDup; [apply arg_names_perm; eassumption|]. eapply Ha. exact Hr0.
    + intros w dr' Hat. destruct (D w dr' Hat) as [dr [Hat0 Hp]]. destruct Hp as [n args args' l Hp].
      eapply Permutation_NoDup; [apply arg_names_perm; exact Hp|]. exact (Hb w _ Hat0).
  - destruct H23 as [Ha Hb]. split.
    + intros p a n args' dirs sl sub l f Hr E ad Had Hreq. destruct (R _ _ Hr) as [z [Hr0 Hz]]. inversion Hz; subst.
      eapply Permutation_in; [apply arg_names_perm; eassumption|]. eapply Ha; eassumption.
    + intros w dr' dd Hat E ad Had Hreq. destruct (D w dr' Hat) as [dr [Hat0 Hp]]. destruct Hp as [n args args' l Hp].
      eapply Permutation_in; [apply arg_names_perm; exact Hp|]. exact (Hb w _ dd Hat0 E ad Had Hreq).
  - intros v [(q & a & n & args' & dirs & sl & sub & l & x & Hr & Hx & Hv)|[(w & dr' & x & Hat & Hx & Hv)|(df' & vd & Hdf' & Hvd & Hv)]]; apply H26.
    + destruct (R _ _ Hr) as [z [Hr0 Hz]]. inversion Hz; subst. left.
      do 9 eexists. split; [exact Hr0|]. split; [eapply Permutation_in; [symmetry; eassumption|exact Hx]|reflexivity].
    + destruct (D w dr' Hat) as [dr [Hat0 Hp]]. destruct Hp as [n args args' l Hp]. right. left.
      eexists w, _, x. split; [exact Hat0|]. split; [simpl in *; eapply Permutation_in; [symmetry; exact Hp|exact Hx]|exact Hv].
    + destruct (F df' Hdf') as [df [Hdf Hr]]. right. right. exists df, vd. split; [exact Hdf|].
      split; [destruct Hr; exact Hvd|exact Hv].
Qed.

Theorem perm_selections_arguments_all fuel s d d' :
  doc_perm d d' ->
  (validate_rules fuel s d rules_with_spec = Ok [] <-> validate_rules fuel s d' rules_with_spec = Ok []).
Proof.
  intros Hp. rewrite !verdict. split; apply valid_spec_doc_perm; [exact Hp|apply doc_perm_sym; exact Hp].
Qed.
