(* The memoised search of OverlappingFieldsCanBeMerged reports a conflict only
   if the memo-free search meets one: with ValidMemoProofs, the rule is silent
   exactly when every call it makes for a visited selection set is
   [conflict_free]. *)
From PyGql Require Import Valid.ValidOverlap Spec.ValidSpec Proofs.ValidCloseProofs Proofs.ValidVarProofs
     Proofs.ValidMergeProofs Proofs.ValidFuelProofs Proofs.ValidMemoProofs.
From Coq Require Import Lia.

(* ---- the pairwise conditions are symmetric ---- *)
Lemma str_eqb_sym a b : str_eqb a b = str_eqb b a.
Proof. destruct (str_eqb_spec a b), (str_eqb_spec b a); congruence. Qed.

Lemma same_value_sym : forall a b, same_value a b = same_value b a.
Proof.
  induction a as [n l|y l|y l|y bl l|bo l|l|y l|vs l IH|fs l IH] using value_ind';
    intros b; destruct b; simpl; try reflexivity; try apply str_eqb_sym.
  - destruct bo, b; reflexivity.
  - revert vs0. induction vs as [|x xs IHxs]; intros [|y ys]; try reflexivity.
    inversion IH; subst. rewrite (H1 y). rewrite (IHxs H2 ys). reflexivity.
  - revert fs0. induction fs as [|[[n x] fl] xs IHxs]; intros [|[[m y] gl] ys]; try reflexivity.
    inversion IH; subst. simpl in H1. rewrite (H1 y), (str_eqb_sym (n_val n) (n_val m)). rewrite (IHxs H2 ys). reflexivity.
Qed.

Lemma args_pairwise_sym : forall l1 l2, args_pairwise l1 l2 = args_pairwise l2 l1.
Proof.
  induction l1 as [|a l1 IH]; intros [|b l2]; simpl; try reflexivity.
  rewrite (str_eqb_sym (n_val (a_name a))), (same_value_sym (a_val a)), IH. reflexivity.
Qed.

Lemma same_arguments_sym l1 l2 : same_arguments l1 l2 = same_arguments l2 l1.
Proof. unfold same_arguments. rewrite Nat.eqb_sym, args_pairwise_sym. reflexivity. Qed.

Lemma types_conflict_sym s : forall a b, types_conflict s a b = types_conflict s b a.
Proof.
  induction a as [x|a IH|a IH]; intros [y|b|b]; simpl; try reflexivity; try apply IH.
  rewrite (Bool.orb_comm (is_leaf s x)), (str_eqb_sym x y). reflexivity.
Qed.

Lemma opt_name_eqb_sym a b : opt_name_eqb a b = opt_name_eqb b a.
Proof. destruct a, b; simpl; try reflexivity. apply str_eqb_sym. Qed.

Lemma mexf_sym s me f1 f2 : mexf s me f1 f2 = mexf s me f2 f1.
Proof.
  unfold mexf. rewrite (opt_name_eqb_sym (fi_parent f1)).
  destruct (opt_is_object s (fi_parent f1)), (opt_is_object s (fi_parent f2)); rewrite ?Bool.andb_true_r, ?Bool.andb_false_r; reflexivity.
Qed.

Lemma tconf_sym s f1 f2 : tconf s f1 f2 = tconf s f2 f1.
Proof. unfold tconf. destruct (ft f1), (ft f2); try reflexivity. apply types_conflict_sym. Qed.

(* ---- field maps have one entry per response key ---- *)
Lemma In_alookup {A} k (v : A) m : NoDup (map fst m) -> In (k, v) m -> alookup k m = Some v.
Proof.
  induction m as [|[k' v'] m IH]; intros Hnd Hin; [destruct Hin|]. simpl in Hnd. inversion Hnd as [|x xs Hnotin Hnd']; subst.
  simpl. destruct Hin as [E|Hin].
  - inversion E; subst. rewrite str_eqb_refl. reflexivity.
  - destruct (str_eqb_spec k k') as [->|Hne]; [|apply IH; assumption].
    exfalso. apply Hnotin. apply in_map_iff. exists (k', v). tauto.
Qed.

Lemma fmap_add_key_in k x m k' : In k' (map fst (fmap_add k x m)) -> k' = k \/ In k' (map fst m).
Proof.
  induction m as [|[k0 xs] m IH]; simpl.
  - intros [E|[]]. left. symmetry. exact E.
  - destruct (str_eqb k k0); simpl; [tauto|]. intros [E|H]; [tauto|]. destruct (IH H); tauto.
Qed.

Lemma fmap_add_keys k x m : NoDup (map fst m) -> NoDup (map fst (fmap_add k x m)).
Proof.
  induction m as [|[k0 xs] m IH]; simpl; intros Hnd.
  - constructor; [intros []|constructor].
  - inversion Hnd as [|y ys Hnotin Hnd']; subst. destruct (str_eqb_spec k k0) as [->|Hne]; simpl.
    + constructor; assumption.
    + constructor; [|apply IH; exact Hnd']. intros Hin. apply fmap_add_key_in in Hin. destruct Hin as [E|Hin]; [congruence|contradiction].
Qed.

Lemma collect_keys s : forall x po acc,
  NoDup (map fst (fst acc)) -> NoDup (map fst (fst (ov_collect_sel s po x acc))).
Proof.
  induction x as [alias nm args dirs sl sub l IH|nm dirs l|tc dirs ssl sub l IH] using selection_ind'; intros po acc Hacc.
  - simpl ov_collect_sel. simpl fst. apply fmap_add_keys. exact Hacc.
  - simpl. exact Hacc.
  - simpl ov_collect_sel.
    set (p := match tc with Some t => ov_type_name s t | None => po end). clearbody p.
    revert acc Hacc. induction sub as [|y ys IHys]; intros acc Hacc; [exact Hacc|].
    inversion IH; subst. apply IHys; [assumption|]. match goal with Hy : forall po acc, _ |- _ => apply Hy end. exact Hacc.
Qed.

Lemma ff_keys s p sels : NoDup (map fst (fst (fields_and_fragments s p sels))).
Proof.
  unfold fields_and_fragments. simpl fst.
  assert (H : forall ss acc, NoDup (map fst (fst acc)) ->
                             NoDup (map fst (fst (fold_left (fun a y => ov_collect_sel s p y a) ss acc)))).
  { induction ss as [|y ys IH]; intros acc Hacc; simpl; [exact Hacc|]. apply IH. apply collect_keys. exact Hacc. }
  apply H. constructor.
Qed.

Lemma frag_ff_keys s frs g fm fns : frag_ff s frs g = Some (fm, fns) -> NoDup (map fst fm).
Proof.
  unfold frag_ff. destruct (alookup g frs) as [[tc sels]|]; [|discriminate]. intros H. inversion H; subst. apply ff_keys.
Qed.

(* ---- the memo-free search is symmetric ---- *)
Definition keys_ok (m : fmap) : Prop := NoDup (map fst m).
Definition keyed (c : call) : Prop :=
  match c with
  | CBetween _ m1 m2 => keys_ok m1 /\ keys_ok m2
  | _ => True
  end.
Definition mirror_call (c : call) : call :=
  match c with
  | CFind me f1 f2 => CFind me f2 f1
  | CBetween me m1 m2 => CBetween me m2 m1
  | CFieldsFrag me mid m g => CFieldsFrag me mid m g
  | CFrags me a b => CFrags me b a
  | CSub me p1 l1 s1 p2 l2 s2 => CSub me p2 l2 s2 p1 l1 s1
  end.

Section Sym.
  Variables (s : schema) (frs : list (str * (ty * list selection))).
  Notation cf := (conflict_free s frs).
  Definition cf_sym_set (c : call) : Prop := cf c \/ (cf (mirror_call c) /\ keyed (mirror_call c)).

  Lemma cf_sym_closed c : cf_sym_set c -> step s frs cf_sym_set c.
  Proof.
    intros [H|[H Hwk]].
    - eapply step_mono; [|apply conflict_free_unfold; exact H]. intros c' Hc'. left. exact Hc'.
    - apply conflict_free_unfold in H.
      destruct c as [me f1 f2|me m1 m2|me mid m g|me a b|me p1 l1 s1 p2 l2 s2]; cbn [mirror_call step keyed] in *.
      + destruct H as (E1 & E2 & E3 & Hsub).
        rewrite (mexf_sym s me f2 f1), (str_eqb_sym (fi_name f2)) in E1.
        rewrite (mexf_sym s me f2 f1), (same_arguments_sym (fi_args f2)) in E2. rewrite (tconf_sym s f2 f1) in E3.
        split; [exact E1|]. split; [exact E2|]. split; [exact E3|]. intros l1 s1 l2 s2 S1 S2. right. cbn [mirror_call keyed].
        split; [|exact I]. rewrite (mexf_sym s me f1 f2). apply Hsub; assumption.
      + destruct Hwk as [K2 K1]. intros c' Hc'. apply between_calls_in in Hc'.
        destruct Hc' as (k & fs1 & fs2 & g1 & g2 & Hk & E & Hg1 & Hg2 & ->). right. cbn [mirror_call keyed]. split; [|exact I].
        apply H. apply between_calls_in. exists k, fs2, fs1, g2, g1.
        split; [apply alookup_In; exact E|]. split; [apply In_alookup; assumption|]. tauto.
      + intros fm fns E. destruct (H fm fns E) as [H1 H2]. split; [left; exact H1|intros g' Hg'; left; apply H2; exact Hg'].
      + destruct H as [E|H]; [left; symmetry; exact E|right]. intros fm1 fns1 fm2 fns2 E1 E2.
        destruct (H _ _ _ _ E2 E1) as (Hb & Hl & Hr). split; [|split].
        * destruct Hb as [Hb|Hb]; [right|left]; left; exact Hb.
        * intros x Hx. right. cbn [mirror_call keyed]. split; [apply Hr; exact Hx|exact I].
        * intros x Hx. right. cbn [mirror_call keyed]. split; [apply Hl; exact Hx|exact I].
      + intros c' Hc'. unfold sub_calls in Hc', H. cbv zeta in Hc', H. destruct Hc' as [<-|Hc'].
        * right. cbn [mirror_call keyed]. split; [apply H; left; reflexivity|split; apply ff_keys].
        * apply in_app_or in Hc'. destruct Hc' as [Hc'|Hc'].
          -- left. apply H. right. apply in_or_app. right. apply in_or_app. left. exact Hc'.
          -- apply in_app_or in Hc'. destruct Hc' as [Hc'|Hc'].
             ++ left. apply H. right. apply in_or_app. left. exact Hc'.
             ++ apply in_map_iff in Hc'. destruct Hc' as [[a b] [<- Hab]]. apply in_cross in Hab. simpl.
                right. cbn [mirror_call keyed]. split; [|exact I]. apply H. right. apply in_or_app. right. apply in_or_app. right.
                apply in_map_iff. exists (b, a). split; [reflexivity|apply in_cross; tauto].
  Qed.

  Theorem conflict_free_mirror c : keyed c -> cf c -> cf (mirror_call c).
  Proof.
    intros Hwk H. exists cf_sym_set. split; [|exact cf_sym_closed]. right.
    assert (Em : mirror_call (mirror_call c) = c) by (destruct c; reflexivity). rewrite Em. tauto.
  Qed.
End Sym.

(* ---- the memoised search reports nothing the memo-free search does not meet ---- *)
Section Complete.
  Variables (s : schema) (frs : list (str * (ty * list selection))).
  Notation cf := (conflict_free s frs).

  Lemma seqf_complete f
    (IHf : forall c st b st', cf c -> run f s frs c st = Ok (b, st') -> b = false) :
    forall cs st0 b0 b st', (forall c, In c cs -> cf c) -> seqf f s frs cs st0 b0 = Ok (b, st') -> b = b0.
  Proof.
    induction cs as [|c cs IH]; intros st0 b0 b st' Hall H; simpl in H.
    - inversion H; reflexivity.
    - destruct (run f s frs c st0) as [[b1 st1]| | |] eqn:Hr; try discriminate.
      rewrite (IHf c st0 b1 st1 (Hall c (or_introl eq_refl)) Hr), Bool.orb_false_r in H.
      apply (IH st1 b0 b st'); [intros c' Hc'; apply Hall; right; exact Hc'|exact H].
  Qed.

  Theorem run_complete : forall fuel c st b st', cf c -> run fuel s frs c st = Ok (b, st') -> b = false.
  Proof.
    induction fuel as [|f IHf]; intros c st b st' Hcf H; [discriminate|].
    pose proof (seqf_complete f IHf) as Hseq. apply conflict_free_unfold in Hcf.
    destruct c as [me f1 f2|me m1 m2|me mid m g|me a b0|me p1 l1 s1 p2 l2 s2]; cbn [step] in Hcf.
    - rewrite run_S_find in H. destruct Hcf as (E1 & E2 & E3 & Hsub). rewrite E1, E2, E3 in H.
      destruct (fi_sub f1) as [[l1 s1]|] eqn:S1; [|inversion H; reflexivity].
      destruct (fi_sub f2) as [[l2 s2]|] eqn:S2; [|inversion H; reflexivity].
      eapply IHf; [|exact H]. apply Hsub; reflexivity.
    - rewrite run_S_between in H. eapply Hseq; [|exact H]. exact Hcf.
    - rewrite run_S_ff in H. destruct (q_take mid g me (snd st)) as [q'|]; [|inversion H; reflexivity].
      destruct (frag_ff s frs g) as [[fm2 fns]|] eqn:Ef; [|inversion H; reflexivity].
      destruct (Hcf fm2 fns eq_refl) as [H1 H2]. eapply Hseq; [|exact H].
      intros c [<-|Hc]; [exact H1|]. apply in_map_iff in Hc. destruct Hc as [x [<- Hx]]. apply H2. exact Hx.
    - rewrite run_S_frags in H. destruct (str_eqb_spec a b0) as [Eab|Nab]; [inversion H; reflexivity|].
      destruct (existsb (pkey_match a b0 me) (fst st)); cbv beta iota zeta delta [negb] in H; [|inversion H; reflexivity].
      destruct (frag_ff s frs a) as [[fm1 fns1]|] eqn:Ea; [|inversion H; reflexivity].
      destruct (frag_ff s frs b0) as [[fm2 fns2]|] eqn:Eb; [|inversion H; reflexivity].
      destruct Hcf as [E|Hcf]; [contradiction|]. destruct (Hcf _ _ _ _ eq_refl eq_refl) as (Hb & Hl & Hr).
      eapply Hseq; [|exact H]. intros c [<-|Hc].
      + destruct Hb as [Hb|Hb]; [exact Hb|].
        apply (conflict_free_mirror s frs (CBetween me fm2 fm1)); [|exact Hb].
        split; eapply frag_ff_keys; eassumption.
      + apply in_app_or in Hc. destruct Hc as [Hc|Hc]; apply in_map_iff in Hc; destruct Hc as [x [<- Hx]]; [apply Hl|apply Hr]; exact Hx.
    - rewrite run_S_sub in H. eapply Hseq; [|exact H]. exact Hcf.
  Qed.

  Lemma run_list_complete fuel : forall cs st b0 b st', (forall c, In c cs -> cf c) ->
    run_list fuel s frs cs st b0 = Ok (b, st') -> b = b0.
  Proof.
    induction cs as [|c cs IH]; intros st b0 b st' Hall H; simpl in H.
    - inversion H; reflexivity.
    - destruct (run fuel s frs c st) as [[b1 st1]| | |] eqn:Hr; simpl in H; try discriminate.
      rewrite (run_complete _ _ _ _ _ (Hall c (or_introl eq_refl)) Hr), Bool.orb_false_r in H.
      apply (IH st1 b0 b st'); [intros c' Hc'; apply Hall; right; exact Hc'|exact H].
  Qed.

  Theorem overlap_events_complete fuel : forall es st r,
    (forall parent l sels, In (ESelSet parent l sels) es -> forall c, In c (selset_calls s parent l sels) -> cf c) ->
    overlap_events fuel s frs es st = Ok r -> r = [].
  Proof.
    induction es as [|e es IH]; intros st r Hall H; [inversion H; reflexivity|].
    assert (Hall' : forall parent l sels, In (ESelSet parent l sels) es ->
                      forall c, In c (selset_calls s parent l sels) -> cf c)
      by (intros p l0 ss Hin; apply Hall; right; exact Hin).
    destruct e as [| parent l sels | | |]; try (simpl in H; eapply IH; eassumption).
    simpl in H.
    destruct (run_list fuel s frs (selset_calls s parent l sels) st false) as [[b1 st1]| | |] eqn:Hr; simpl in H; try discriminate.
    destruct (overlap_events fuel s frs es st1) as [rest| | |] eqn:Hrest; simpl in H; try discriminate.
    rewrite (run_list_complete _ _ _ _ _ _ (Hall parent l sels (or_introl eq_refl)) Hr) in H.
    rewrite (IH st1 rest Hall' Hrest) in H. inversion H; reflexivity.
  Qed.
End Complete.

(* ---- the rule, with its stated fuel, is silent exactly when the memo-free
        search from every call made for a visited selection set meets no conflict ---- *)
Theorem r25_equiv_memo_free s d :
  faithful_locations s d ->
  (r25_overlapping_fields (overlap_fuel s d) s d = Ok [] <->
   forall parent l sels, In (ESelSet parent l sels) (doc_events s d) ->
     forall c, In c (selset_calls s parent l sels) -> conflict_free s (frag_table (doc_defs d)) c).
Proof.
  intros Hf. split.
  - apply merge_deep. exact Hf.
  - intros Hall. destruct (r25_total s d) as [r Hr]. rewrite Hr. f_equal.
    unfold r25_overlapping_fields in Hr. eapply overlap_events_complete; eassumption.
Qed.

(* the half that needs no hypothesis: a conflict is reported, with whatever
   fuel, only if the memo-free search meets one *)
Theorem r25_reports_only_conflicts fuel s d r :
  r25_overlapping_fields fuel s d = Ok r -> r <> [] ->
  ~ (forall parent l sels, In (ESelSet parent l sels) (doc_events s d) ->
       forall c, In c (selset_calls s parent l sels) -> conflict_free s (frag_table (doc_defs d)) c).
Proof.
  intros Hr Hne Hall. apply Hne. unfold r25_overlapping_fields in Hr. eapply overlap_events_complete; eassumption.
Qed.
