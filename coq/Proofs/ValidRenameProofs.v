(* Consistent renaming: fragments by an injective [rho], variables by an
   injective [sigma], aliases arbitrarily. The graph / set rules (fragment
   cycles, known / unused fragments, undefined / unused variables) keep their
   verdict. *)
From PyGql Require Import Valid.ValidOverlap Spec.ValidSpec Proofs.ValidCloseProofs
     Proofs.ValidGraphProofs Proofs.ValidVarProofs Proofs.ValidPermProofs Proofs.ValidUnusedProofs
     Proofs.ValidSelPermProofs.
From Coq Require Import Lia.

Section Rename.
  Variables rho sigma : str -> str.
  Hypothesis rho_inj : forall a b, rho a = rho b -> a = b.
  Hypothesis sigma_inj : forall a b, sigma a = sigma b -> a = b.

  Inductive ren_value : value -> value -> Prop :=
  | rv_var n n' l l' : n_val n' = sigma (n_val n) -> ren_value (VVar n l) (VVar n' l')
  | rv_int x l : ren_value (VInt x l) (VInt x l)
  | rv_float x l : ren_value (VFloat x l) (VFloat x l)
  | rv_string x b l : ren_value (VString x b l) (VString x b l)
  | rv_bool b l : ren_value (VBool b l) (VBool b l)
  | rv_null l : ren_value (VNull l) (VNull l)
  | rv_enum x l : ren_value (VEnum x l) (VEnum x l)
  | rv_list vs vs' l : Forall2 ren_value vs vs' -> ren_value (VList vs l) (VList vs' l)
  | rv_obj fs fs' l :
      Forall2 (fun f f' => n_val (fst (fst f')) = n_val (fst (fst f))
                           /\ ren_value (snd (fst f)) (snd (fst f'))) fs fs' ->
      ren_value (VObject fs l) (VObject fs' l).

  (* argument, directive and input field names are not renamed *)
  Definition ren_args (a a' : list argument) : Prop :=
    Forall2 (fun x x' => n_val (a_name x') = n_val (a_name x) /\ ren_value (a_val x) (a_val x')) a a'.
  Definition ren_dirs (d d' : list directive) : Prop :=
    Forall2 (fun x x' => n_val (d_name x') = n_val (d_name x) /\ ren_args (d_args x) (d_args x')) d d'.
  Definition ren_default (a b : option value) : Prop :=
    match a, b with Some v, Some v' => ren_value v v' | None, None => True | _, _ => False end.

  Inductive ren_sel : selection -> selection -> Prop :=
  | rs_field a a' n args args' dirs dirs' sl sub sub' l :
      ren_args args args' -> ren_dirs dirs dirs' -> Forall2 ren_sel sub sub' ->
      ren_sel (SField a n args dirs sl sub l) (SField a' n args' dirs' sl sub' l)
  | rs_spread n n' dirs dirs' l :
      n_val n' = rho (n_val n) -> ren_dirs dirs dirs' -> ren_sel (SSpread n dirs l) (SSpread n' dirs' l)
  | rs_inline tc dirs dirs' ssl sub sub' l :
      ren_dirs dirs dirs' -> Forall2 ren_sel sub sub' ->
      ren_sel (SInline tc dirs ssl sub l) (SInline tc dirs' ssl sub' l).

  Inductive ren_def : definition -> definition -> Prop :=
  | rd_op k n vds vds' dirs dirs' ssl sels sels' l :
      Forall2 (fun vd vd' => n_val (vd_var vd') = sigma (n_val (vd_var vd)) /\ vd_type vd' = vd_type vd
                             /\ ren_default (vd_default vd) (vd_default vd')) vds vds' ->
      ren_dirs dirs dirs' -> Forall2 ren_sel sels sels' ->
      ren_def (DOperation k n vds dirs ssl sels l) (DOperation k n vds' dirs' ssl sels' l)
  | rd_frag n n' vds tc dirs dirs' ssl sels sels' l :
      n_val n' = rho (n_val n) -> ren_dirs dirs dirs' -> Forall2 ren_sel sels sels' ->
      ren_def (DFragment n vds tc dirs ssl sels l) (DFragment n' vds tc dirs' ssl sels' l).

  Definition ren_doc (d d' : document) : Prop := Forall2 ren_def (doc_defs d) (doc_defs d').

  (* a property of the renamed list members is the image of the property *)
  Lemma list_image {A} (r : str -> str) (R : A -> A -> Prop) (P : A -> str -> Prop) l l' :
    (forall y, In y l -> forall y', R y y' -> forall g, P y' g <-> exists f, g = r f /\ P y f) ->
    Forall2 R l l' ->
    forall g, (exists y', In y' l' /\ P y' g) <-> exists f, g = r f /\ exists y, In y l /\ P y f.
  Proof.
    intros IH HF g. split.
    - intros [y' [Hy' Hp]]. destruct (Forall2_In_r _ _ _ _ HF Hy') as [y [Hy Hr]].
      apply (IH y Hy y' Hr) in Hp. destruct Hp as [f [-> Hp]]. exists f. split; [reflexivity|eauto].
    - intros [f [-> [y [Hy Hp]]]]. destruct (Forall2_In_l _ _ _ _ HF Hy) as [y' [Hy' Hr]].
      exists y'. split; [exact Hy'|]. apply (IH y Hy y' Hr). eauto.
  Qed.

  (* ---- variables ---- *)
  Lemma ren_value_vars : forall v v', ren_value v v' ->
    forall y, value_has_var v' y <-> exists x, y = sigma x /\ value_has_var v x.
  Proof.
    induction v as [n l|x l|x l|x b l|b l|l|x l|vs l IH|fs l IH] using value_ind';
      intros v' Hr y; inversion Hr; subst;
      try (split; [intros H; inversion H|intros [x0 [_ H]]; inversion H]; fail).
    - split.
      + intros H. inversion H; subst. exists (n_val n). split; [assumption|constructor].
      + intros [x [-> H]]. inversion H; subst.
        match goal with E : n_val _ = sigma _ |- _ => rewrite <- E end. constructor.
    - rewrite Forall_forall in IH.
      match goal with HF : Forall2 ren_value vs _ |- _ =>
        pose proof (list_image sigma ren_value (fun v y => value_has_var v y) vs _ IH HF y) as Himg end.
      split.
      + intros H. inversion H; subst. destruct (proj1 Himg) as [x [-> [v0 [Hv0 Hp]]]]; [eauto|].
        exists x. split; [reflexivity|eapply vh_list; eassumption].
      + intros [x [-> H]]. inversion H; subst. destruct (proj2 Himg) as [v0 [Hv0 Hp]]; [eauto|].
        eapply vh_list; eassumption.
    - rewrite Forall_forall in IH.
      match goal with HF : Forall2 _ fs _ |- _ =>
        pose proof (list_image sigma (fun f f' => n_val (fst (fst f')) = n_val (fst (fst f))
                                                  /\ ren_value (snd (fst f)) (snd (fst f')))
                      (fun f y => value_has_var (snd (fst f)) y) fs _
                      (fun f Hf f' Hr' g => IH f Hf (snd (fst f')) (proj2 Hr') g) HF y) as Himg end.
      split.
      + intros H. inversion H; subst.
        destruct (proj1 Himg) as [x [-> [[[n0 v0] l0] [Hv0 Hp]]]]; [eexists; split; [eassumption|simpl; assumption]|].
        exists x. split; [reflexivity|eapply vh_obj; eassumption].
      + intros [x [-> H]]. inversion H; subst.
        destruct (proj2 Himg) as [[[n0 v0] l0] [Hv0 Hp]]; [eexists; split; [reflexivity|eexists; split; [eassumption|simpl; assumption]]|].
        eapply vh_obj; eassumption.
  Qed.

  Lemma ren_args_vars a a' : ren_args a a' ->
    forall y, args_have_var a' y <-> exists x, y = sigma x /\ args_have_var a x.
  Proof.
    intros HF y. unfold args_have_var.
    apply (list_image sigma (fun x x' => n_val (a_name x') = n_val (a_name x) /\ ren_value (a_val x) (a_val x'))
                      (fun x y => value_has_var (a_val x) y) a a');
      [|exact HF]. intros x _ x' Hr g. apply ren_value_vars. exact (proj2 Hr).
  Qed.

  Lemma ren_dirs_vars d d' : ren_dirs d d' ->
    forall y, dirs_have_var d' y <-> exists x, y = sigma x /\ dirs_have_var d x.
  Proof.
    intros HF y. unfold dirs_have_var.
    apply (list_image sigma (fun x x' => n_val (d_name x') = n_val (d_name x) /\ ren_args (d_args x) (d_args x'))
                      (fun x y => args_have_var (d_args x) y) d d');
      [|exact HF]. intros x _ x' Hr g. apply ren_args_vars. exact (proj2 Hr).
  Qed.

  Lemma ex_or (A B : str -> Prop) (r : str -> str) y :
    ((exists x, y = r x /\ A x) \/ (exists x, y = r x /\ B x)) <-> exists x, y = r x /\ (A x \/ B x).
  Proof.
    split.
    - intros [[x [E H]]|[x [E H]]]; exists x; tauto.
    - intros [x [E [H|H]]]; [left|right]; exists x; tauto.
  Qed.

  Lemma ren_sel_vars : forall x x', ren_sel x x' ->
    forall y, sel_has_var x' y <-> exists v, y = sigma v /\ sel_has_var x v.
  Proof.
    induction x as [a n args dirs sl sub l IH|n dirs l|tc dirs ssl sub l IH] using selection_ind';
      intros x' Hr y; inversion Hr; subst.
    - rewrite Forall_forall in IH. rewrite has_var_field.
      match goal with HA : ren_args args _, HD : ren_dirs dirs _, HF : Forall2 ren_sel sub _ |- _ =>
        rewrite (ren_args_vars _ _ HA y), (ren_dirs_vars _ _ HD y);
        pose proof (list_image sigma ren_sel (fun z v => sel_has_var z v) sub _ IH HF y) as Himg end.
      split.
      + intros [[v [-> H]]|[[v [-> H]]|[Hsl Hs]]].
        * exists v. split; [reflexivity|apply has_var_field; tauto].
        * exists v. split; [reflexivity|apply has_var_field; tauto].
        * destruct (proj1 Himg Hs) as [v [-> Hv]]. exists v. split; [reflexivity|apply has_var_field; tauto].
      + intros [v [-> H]]. apply has_var_field in H. destruct H as [H|[H|[Hsl Hs]]].
        * left. eauto.
        * right. left. eauto.
        * right. right. split; [exact Hsl|]. apply (proj2 Himg). eauto.
    - rewrite has_var_spread.
      match goal with HD : ren_dirs dirs _ |- _ => rewrite (ren_dirs_vars _ _ HD y) end.
      split; intros [v [-> H]]; exists v; (split; [reflexivity|]);
        [exact (proj2 (has_var_spread _ _ _ _) H)|exact (proj1 (has_var_spread _ _ _ _) H)].
    - rewrite Forall_forall in IH. rewrite has_var_inline.
      match goal with HD : ren_dirs dirs _, HF : Forall2 ren_sel sub _ |- _ =>
        rewrite (ren_dirs_vars _ _ HD y);
        pose proof (list_image sigma ren_sel (fun z v => sel_has_var z v) sub _ IH HF y) as Himg end.
      split.
      + intros [[v [-> H]]|Hs].
        * exists v. split; [reflexivity|apply has_var_inline; tauto].
        * destruct (proj1 Himg Hs) as [v [-> Hv]]. exists v. split; [reflexivity|apply has_var_inline; tauto].
      + intros [v [-> H]]. apply has_var_inline in H. destruct H as [H|Hs].
        * left. eauto.
        * right. apply (proj2 Himg). eauto.
  Qed.

  (* ---- spreads ---- *)
  Lemma ren_sel_spreads : forall x x', ren_sel x x' ->
    forall g, sel_spreads x' g <-> exists f, g = rho f /\ sel_spreads x f.
  Proof.
    induction x as [a n args dirs sl sub l IH|n dirs l|tc dirs ssl sub l IH] using selection_ind';
      intros x' Hr g; inversion Hr; subst.
    - rewrite Forall_forall in IH. rewrite spreads_field.
      match goal with HF : Forall2 ren_sel sub _ |- _ =>
        pose proof (list_image rho ren_sel (fun z f => sel_spreads z f) sub _ IH HF g) as Himg end.
      split.
      + intros [Hsl Hs]. destruct (proj1 Himg Hs) as [f [-> Hf]]. exists f. split; [reflexivity|apply spreads_field; tauto].
      + intros [f [-> H]]. apply spreads_field in H. destruct H as [Hsl Hs]. split; [exact Hsl|].
        apply (proj2 Himg). eauto.
    - split.
      + intros H. inversion H; subst. exists (n_val n). split; [assumption|constructor].
      + intros [f [-> H]]. inversion H; subst.
        match goal with E : n_val _ = rho _ |- _ => rewrite <- E end. constructor.
    - rewrite Forall_forall in IH. rewrite spreads_inline.
      match goal with HF : Forall2 ren_sel sub _ |- _ =>
        pose proof (list_image rho ren_sel (fun z f => sel_spreads z f) sub _ IH HF g) as Himg end.
      split.
      + intros Hs. destruct (proj1 Himg Hs) as [f [-> Hf]]. exists f. split; [reflexivity|apply spreads_inline; exact Hf].
      + intros [f [-> H]]. apply spreads_inline in H. apply (proj2 Himg). eauto.
  Qed.

  Lemma ren_sels_spread sels sels' : Forall2 ren_sel sels sels' ->
    forall g, sels_spread sels' g <-> exists f, g = rho f /\ sels_spread sels f.
  Proof.
    intros HF g. unfold sels_spread.
    apply (list_image rho ren_sel (fun z f => sel_spreads z f) sels sels'); [|exact HF].
    intros y _ y' Hr g0. apply ren_sel_spreads. exact Hr.
  Qed.

  Lemma ren_sels_vars sels sels' : Forall2 ren_sel sels sels' ->
    forall y, (exists z, In z sels' /\ sel_has_var z y) <-> exists v, y = sigma v /\ exists z, In z sels /\ sel_has_var z v.
  Proof.
    intros HF y. apply (list_image sigma ren_sel (fun z v => sel_has_var z v) sels sels'); [|exact HF].
    intros z _ z' Hr g0. apply ren_sel_vars. exact Hr.
  Qed.

  (* ---- definitions ---- *)
  Lemma ren_def_facts df df' : ren_def df df' ->
    op_key df = op_key df' /\ (is_operation df <-> is_operation df') /\
    frag_name df' = option_map rho (frag_name df) /\
    (forall g, sels_spread (def_sels df') g <-> exists f, g = rho f /\ sels_spread (def_sels df) f) /\
    (forall y, def_has_var df' y <-> exists v, y = sigma v /\ def_has_var df v) /\
    (forall y, op_defines df' y <-> exists v, y = sigma v /\ op_defines df v).
  Proof.
    intros H. destruct H as [k n vds vds' dirs dirs' ssl sels sels' l HV HD HS|n n' vds tc dirs dirs' ssl sels sels' l HN HD HS];
      simpl.
    - split; [reflexivity|]. split; [tauto|]. split; [reflexivity|]. split; [apply ren_sels_spread; exact HS|].
      split.
      + intros y. unfold def_has_var. simpl. rewrite (ren_dirs_vars _ _ HD y), (ren_sels_vars _ _ HS y).
        apply ex_or.
      + intros y. split.
        * intros [vd' [Hvd' E]]. destruct (Forall2_In_r _ _ _ _ HV Hvd') as [vd [Hvd [Hr _]]].
          exists (n_val (vd_var vd)). split; [congruence|eauto].
        * intros [v [-> [vd [Hvd E]]]]. destruct (Forall2_In_l _ _ _ _ HV Hvd) as [vd' [Hvd' [Hr _]]].
          exists vd'. split; [exact Hvd'|congruence].
    - split; [reflexivity|]. split; [tauto|]. split; [rewrite HN; reflexivity|]. split; [apply ren_sels_spread; exact HS|].
      split.
      + intros y. unfold def_has_var. simpl. rewrite (ren_dirs_vars _ _ HD y), (ren_sels_vars _ _ HS y).
        apply ex_or.
      + intros y. split; [intros []|intros [v [_ []]]].
  Qed.

  Lemma ren_doc_names d d' : ren_doc d d' ->
    frag_names d' = map rho (frag_names d) /\ op_key_list d' = op_key_list d.
  Proof.
    unfold ren_doc, frag_names, op_key_list. induction 1 as [|a b l m Hab Hl [IH1 IH2]]; [split; reflexivity|].
    destruct (ren_def_facts _ _ Hab) as (Hk & _ & Hn & _). simpl. unfold key_of at 1 3. rewrite Hn, <- Hk, IH1, IH2.
    rewrite map_app. split; [|reflexivity]. destruct (frag_name a); reflexivity.
  Qed.

  Lemma NoDup_map_inj l : NoDup l -> NoDup (map rho l).
  Proof.
    induction 1 as [|x l Hx Hl IH]; simpl; constructor; [|exact IH].
    intros Hin. apply in_map_iff in Hin. destruct Hin as [y [E Hy]]. apply rho_inj in E. subst. contradiction.
  Qed.

  Section Doc.
    Variables d d' : document.
    Hypothesis Hdp : ren_doc d d'.

    Lemma fragment_named_ren df df' f : ren_def df df' -> (fragment_named df' (rho f) <-> fragment_named df f).
    Proof.
      intros Hr. destruct (ren_def_facts _ _ Hr) as (_ & _ & Hn & _).
      rewrite <- !frag_name_named, Hn. destruct (frag_name df); simpl; split; intros E; inversion E; subst;
        try reflexivity. f_equal. apply rho_inj. assumption.
    Qed.

    Lemma frag_edge_fwd f x : frag_edge d f x -> frag_edge d' (rho f) (rho x).
    Proof.
      intros [df [Hdf [Hn Hs]]]. destruct (Forall2_In_l _ _ _ _ Hdp Hdf) as [df' [Hdf' Hr]].
      destruct (ren_def_facts _ _ Hr) as (_ & _ & _ & Hsp & _).
      exists df'. split; [exact Hdf'|]. split; [apply (fragment_named_ren df df' f Hr); exact Hn|].
      apply Hsp. eauto.
    Qed.

    Lemma frag_edge_bwd g h : frag_edge d' g h -> exists f x, g = rho f /\ h = rho x /\ frag_edge d f x.
    Proof.
      intros [df' [Hdf' [Hn Hs]]]. destruct (Forall2_In_r _ _ _ _ Hdp Hdf') as [df [Hdf Hr]].
      destruct (ren_def_facts _ _ Hr) as (_ & _ & Hfn & Hsp & _).
      apply Hsp in Hs. destruct Hs as [x [-> Hs]].
      apply frag_name_named in Hn. rewrite Hfn in Hn. destruct (frag_name df) as [f|] eqn:Ef; [|discriminate].
      simpl in Hn. inversion Hn; subst. exists f, x. split; [reflexivity|]. split; [reflexivity|].
      exists df. split; [exact Hdf|]. split; [apply frag_name_named; exact Ef|exact Hs].
    Qed.

    Lemma walk_fwd f x : walk d f x -> walk d' (rho f) (rho x).
    Proof.
      induction 1 as [f x He|f y x Hw IH He]; [apply walk_one; apply frag_edge_fwd; exact He|].
      eapply walk_step; [exact IH|apply frag_edge_fwd; exact He].
    Qed.

    Lemma walk_bwd g h : walk d' g h -> exists f x, g = rho f /\ h = rho x /\ walk d f x.
    Proof.
      induction 1 as [g h He|g k h Hw IH He].
      - destruct (frag_edge_bwd _ _ He) as (f0 & x0 & E1 & E2 & H). subst. exists f0, x0.
        split; [reflexivity|]. split; [reflexivity|apply walk_one; exact H].
      - destruct IH as (f0 & y0 & E1 & E2 & Hw0). subst. destruct (frag_edge_bwd _ _ He) as (y' & x0 & E & E3 & H).
        apply rho_inj in E. subst. exists f0, x0. split; [reflexivity|]. split; [reflexivity|eapply walk_step; eassumption].
    Qed.

    Lemma has_cycle_ren : has_cycle d <-> has_cycle d'.
    Proof.
      split.
      - intros [f Hw]. exists (rho f). apply walk_fwd. exact Hw.
      - intros [g Hw]. destruct (walk_bwd _ _ Hw) as (f0 & x0 & E1 & E2 & Hw0).
        assert (E : f0 = x0) by (apply rho_inj; congruence). subst x0. exists f0. exact Hw0.
    Qed.

    Lemma frag_reach_fwd sels sels' f : Forall2 ren_sel sels sels' -> frag_reach d sels f -> frag_reach d' sels' (rho f).
    Proof.
      intros HS. induction 1 as [x Hx|y x Hy IH He].
      - apply fr_direct. apply (ren_sels_spread _ _ HS). eauto.
      - eapply fr_step; [exact IH|apply frag_edge_fwd; exact He].
    Qed.

    Lemma frag_reach_bwd sels sels' g : Forall2 ren_sel sels sels' -> frag_reach d' sels' g ->
      exists f, g = rho f /\ frag_reach d sels f.
    Proof.
      intros HS. induction 1 as [x Hx|y x Hy IH He].
      - apply (ren_sels_spread _ _ HS) in Hx. destruct Hx as [f [-> Hf]]. exists f. split; [reflexivity|apply fr_direct; exact Hf].
      - destruct IH as [f0 [E0 Hf]]. subst. destruct (frag_edge_bwd _ _ He) as (f' & x0 & E & E2 & H).
        assert (E3 : f0 = f') by (apply rho_inj; exact E). subst. exists x0. split; [reflexivity|eapply fr_step; eassumption].
    Qed.

    Lemma def_sels_ren df df' : ren_def df df' -> Forall2 ren_sel (def_sels df) (def_sels df').
    Proof. intros H. destruct H; simpl; assumption. Qed.

    Lemma defined_fragment_ren f : defined_fragment d f <-> defined_fragment d' (rho f).
    Proof.
      split.
      - intros [df [Hdf Hn]]. destruct (Forall2_In_l _ _ _ _ Hdp Hdf) as [df' [Hdf' Hr]].
        exists df'. split; [exact Hdf'|apply (fragment_named_ren df df' f Hr); exact Hn].
      - intros [df' [Hdf' Hn]]. destruct (Forall2_In_r _ _ _ _ Hdp Hdf') as [df [Hdf Hr]].
        exists df. split; [exact Hdf|apply (fragment_named_ren df df' f Hr); exact Hn].
    Qed.

    Lemma defined_fragment_img g : defined_fragment d' g -> exists f, g = rho f.
    Proof.
      intros [df' [Hdf' Hn]]. destruct (Forall2_In_r _ _ _ _ Hdp Hdf') as [df [Hdf Hr]].
      destruct (ren_def_facts _ _ Hr) as (_ & _ & Hfn & _). apply frag_name_named in Hn. rewrite Hfn in Hn.
      destruct (frag_name df) as [f|]; [|discriminate]. inversion Hn. eauto.
    Qed.

    Lemma op_uses_var_ren op op' : ren_def op op' ->
      forall y, op_uses_var d' op' y <-> exists v, y = sigma v /\ op_uses_var d op v.
    Proof.
      intros Hr y. destruct (ren_def_facts _ _ Hr) as (_ & _ & _ & _ & Hv & _).
      pose proof (def_sels_ren _ _ Hr) as HS. unfold op_uses_var. rewrite (Hv y). split.
      - intros [[v [-> H]]|(g & df' & Hfr & Hdf' & Hn & Hdv)]; [exists v; tauto|].
        destruct (frag_reach_bwd _ _ _ HS Hfr) as [f [-> Hf]].
        destruct (Forall2_In_r _ _ _ _ Hdp Hdf') as [df [Hdf Hr']].
        destruct (ren_def_facts _ _ Hr') as (_ & _ & _ & _ & Hv' & _). apply Hv' in Hdv. destruct Hdv as [v [-> Hdv]].
        exists v. split; [reflexivity|]. right. exists f, df. split; [exact Hf|]. split; [exact Hdf|].
        split; [apply (fragment_named_ren df df' f Hr'); exact Hn|exact Hdv].
      - intros [v [-> [H|(f & df & Hfr & Hdf & Hn & Hdv)]]]; [left; eauto|right].
        destruct (Forall2_In_l _ _ _ _ Hdp Hdf) as [df' [Hdf' Hr']].
        destruct (ren_def_facts _ _ Hr') as (_ & _ & _ & _ & Hv' & _).
        exists (rho f), df'. split; [apply (frag_reach_fwd _ _ f HS); exact Hfr|]. split; [exact Hdf'|].
        split; [apply (fragment_named_ren df df' f Hr'); exact Hn|apply Hv'; eauto].
    Qed.

    Lemma spec_undefined_ren : spec_no_undefined_variables d <-> spec_no_undefined_variables d'.
    Proof.
      split; intros Hs op x Hop Hisop Hu.
      - destruct (Forall2_In_r _ _ _ _ Hdp Hop) as [op0 [Hop0 Hr]].
        destruct (ren_def_facts _ _ Hr) as (_ & Hio & _ & _ & _ & Hod).
        apply (op_uses_var_ren _ _ Hr) in Hu. destruct Hu as [v [-> Hu]].
        apply Hod. exists v. split; [reflexivity|]. apply (Hs op0 v Hop0); [apply Hio; exact Hisop|exact Hu].
      - destruct (Forall2_In_l _ _ _ _ Hdp Hop) as [op' [Hop' Hr]].
        destruct (ren_def_facts _ _ Hr) as (_ & Hio & _ & _ & _ & Hod).
        assert (Hd' : op_defines op' (sigma x)).
        { apply (Hs op' (sigma x) Hop'); [apply Hio; exact Hisop|]. apply (op_uses_var_ren _ _ Hr). eauto. }
        apply Hod in Hd'. destruct Hd' as [v [E Hd']]. apply sigma_inj in E. subst. exact Hd'.
    Qed.

    Lemma spec_unused_ren : spec_no_unused_variables d <-> spec_no_unused_variables d'.
    Proof.
      split; intros Hs op x Hop Hisop Hd.
      - destruct (Forall2_In_r _ _ _ _ Hdp Hop) as [op0 [Hop0 Hr]].
        destruct (ren_def_facts _ _ Hr) as (_ & Hio & _ & _ & _ & Hod).
        apply Hod in Hd. destruct Hd as [v [-> Hd]].
        apply (op_uses_var_ren _ _ Hr). exists v. split; [reflexivity|]. apply (Hs op0 v Hop0); [apply Hio; exact Hisop|exact Hd].
      - destruct (Forall2_In_l _ _ _ _ Hdp Hop) as [op' [Hop' Hr]].
        destruct (ren_def_facts _ _ Hr) as (_ & Hio & _ & _ & _ & Hod).
        assert (Hu' : op_uses_var d' op' (sigma x)).
        { apply (Hs op' (sigma x) Hop'); [apply Hio; exact Hisop|]. apply Hod. eauto. }
        apply (op_uses_var_ren _ _ Hr) in Hu'. destruct Hu' as [v [E Hu']]. apply sigma_inj in E. subst. exact Hu'.
    Qed.

    Lemma spec_known_ren : spec_known_fragment_names d <-> spec_known_fragment_names d'.
    Proof.
      split; intros Hs df x Hdf Hsp.
      - destruct (Forall2_In_r _ _ _ _ Hdp Hdf) as [df0 [Hdf0 Hr]].
        destruct (ren_def_facts _ _ Hr) as (_ & _ & _ & Hspr & _). apply Hspr in Hsp. destruct Hsp as [f [-> Hf]].
        apply defined_fragment_ren. apply (Hs df0 f Hdf0 Hf).
      - destruct (Forall2_In_l _ _ _ _ Hdp Hdf) as [df' [Hdf' Hr]].
        destruct (ren_def_facts _ _ Hr) as (_ & _ & _ & Hspr & _).
        apply defined_fragment_ren. apply (Hs df' (rho x) Hdf'). apply Hspr. eauto.
    Qed.

    Lemma spec_unused_fragments_ren : spec_no_unused_fragments d <-> spec_no_unused_fragments d'.
    Proof.
      split; intros Hs f Hf.
      - destruct (defined_fragment_img _ Hf) as [f0 ->]. apply defined_fragment_ren in Hf.
        destruct (Hs f0 Hf) as (op & Hop & Hisop & Hr). destruct (Forall2_In_l _ _ _ _ Hdp Hop) as [op' [Hop' Hrd]].
        destruct (ren_def_facts _ _ Hrd) as (_ & Hio & _). exists op'. split; [exact Hop'|]. split; [apply Hio; exact Hisop|].
        apply (frag_reach_fwd _ _ f0 (def_sels_ren _ _ Hrd)). exact Hr.
      - apply defined_fragment_ren in Hf. destruct (Hs (rho f) Hf) as (op' & Hop' & Hisop & Hr).
        destruct (Forall2_In_r _ _ _ _ Hdp Hop') as [op [Hop Hrd]].
        destruct (ren_def_facts _ _ Hrd) as (_ & Hio & _). exists op. split; [exact Hop|]. split; [apply Hio; exact Hisop|].
        destruct (frag_reach_bwd _ _ _ (def_sels_ren _ _ Hrd) Hr) as [f1 [E Hr1]]. apply rho_inj in E. subst. exact Hr1.
    Qed.
  End Doc.

  Theorem rename_graph_rules s d d' :
    ren_doc d d' -> NoDup (frag_names d) -> NoDup (op_key_list d) ->
    (r14_no_fragment_cycles s d = Ok [] <-> r14_no_fragment_cycles s d' = Ok []) /\
    (r16_no_undefined_variables s d = Ok [] <-> r16_no_undefined_variables s d' = Ok []) /\
    (r17_no_unused_variables s d = Ok [] <-> r17_no_unused_variables s d' = Ok []) /\
    (r11_known_fragment_names s d = [] <-> r11_known_fragment_names s d' = []) /\
    (r14_no_fragment_cycles s d = Ok [] ->
     (r12_no_unused_fragments s d = [] <-> r12_no_unused_fragments s d' = [])).
  Proof.
    intros Hdp Hf Hk. destruct (ren_doc_names _ _ Hdp) as [Hfn Hkl].
    assert (Hf' : NoDup (frag_names d')) by (rewrite Hfn; apply NoDup_map_inj; exact Hf).
    assert (Hk' : NoDup (op_key_list d')) by (rewrite Hkl; exact Hk).
    assert (H14 : r14_no_fragment_cycles s d = Ok [] <-> r14_no_fragment_cycles s d' = Ok []).
    { rewrite (r14_equiv s d Hf), (r14_equiv s d' Hf'), (has_cycle_ren d d' Hdp). tauto. }
    split; [exact H14|]. split; [|split; [|split]].
    - rewrite (r16_equiv s d Hk), (r16_equiv s d' Hk'). apply spec_undefined_ren. exact Hdp.
    - rewrite (r17_equiv s d Hk), (r17_equiv s d' Hk'). apply spec_unused_ren. exact Hdp.
    - rewrite (r11_equiv s d), (r11_equiv s d'). apply spec_known_ren. exact Hdp.
    - intros Hc. rewrite (r12_joint s d Hf Hc), (r12_joint s d' Hf' (proj1 H14 Hc)).
      apply spec_unused_fragments_ren. exact Hdp.
  Qed.
End Rename.
