(* ValuesOfCorrectType lifted from positions to documents. *)
From PyGql Require Import Valid.ValidOverlap Spec.ValidSpec Spec.ValidLocalSpec Spec.ValidValueSpec Spec.ValidTypedSpec
     Proofs.ValidCloseProofs Proofs.ValidGraphProofs Proofs.ValidVarProofs Proofs.ValidPermProofs
     Proofs.ValidStaticProofs Proofs.ValidUniqueProofs Proofs.ValidLocalProofs Proofs.ValidValueProofs.
From Coq Require Import Lia.

Lemma check_value_none s : forall v, check_value s None v = [].
Proof.
  induction v as [n l|y l|y l|y b l|b l|l|y l|vs l IH|fs l IH] using value_ind'; try reflexivity.
  rewrite check_value_list. simpl. apply flat_map_nil_iff. intros x Hx. rewrite Forall_forall in IH. exact (IH x Hx).
Qed.

(* the per-document list of typed values splits into defaults and events *)
Lemma typed_values_split s d (h : option tref * bool * value -> list viol) :
  flat_map h (doc_typed_values s d) = [] <->
  (forall df, In df (doc_defs d) -> flat_map h (typed_defaults s df) = [])
  /\ flat_map (fun e => flat_map h (typed_values_ev s e)) (doc_events s d) = [].
Proof.
  unfold doc_typed_values, doc_events. rewrite !flat_map_flat_map, !flat_map_nil_iff. split.
  - intros H. split; intros df Hdf; specialize (H df Hdf); rewrite flat_map_app in H;
      apply app_eq_nil in H; destruct H as [H1 H2]; [exact H1|rewrite flat_map_flat_map in H2; exact H2].
  - intros [H1 H2] df Hdf. rewrite flat_map_app, (H1 df Hdf). simpl. rewrite flat_map_flat_map. exact (H2 df Hdf).
Qed.

Section Values.
  Variable s : schema.
  Hypothesis Hwf : wf_inputs s.

  Lemma typed_args_check defs args :
    (forall ad, In ad defs -> wf_tref (sa_type ad)) ->
    (flat_map (fun p => check_value s (fst (fst p)) (snd p)) (typed_args s (Some defs) args) = [] <->
     args_coercible s defs args).
  Proof.
    intros Hw. unfold typed_args, args_coercible. rewrite flat_map_nil_iff. split.
    - intros H a ad Ha Hf Hi.
      specialize (H (fst (arg_slot s (Some defs) (n_val (a_name a))), snd (arg_slot s (Some defs) (n_val (a_name a))), a_val a)).
      simpl in H. rewrite Hf in H. unfold in_filter in H. rewrite Hi in H. simpl in H.
      apply (check_value_spec s Hwf (a_val a) (sa_type ad) Hi).
      + apply Hw. apply find_some in Hf. tauto.
      + apply H. apply in_map_iff. exists a. split; [|exact Ha]. simpl. rewrite Hf. unfold in_filter. rewrite Hi. reflexivity.
    - intros H p Hp. apply in_map_iff in Hp. destruct Hp as [a [<- Ha]]. simpl.
      destruct (find_arg (n_val (a_name a)) defs) as [ad|] eqn:Hf; simpl; [|apply check_value_none].
      unfold in_filter. destruct (is_input_type s (sa_type ad)) eqn:Hi; [|apply check_value_none].
      apply (check_value_spec s Hwf (a_val a) (sa_type ad) Hi).
      + apply Hw. apply find_some in Hf. tauto.
      + exact (H a ad Ha Hf Hi).
  Qed.

  Lemma typed_args_none args :
    flat_map (fun p => check_value s (fst (fst p)) (snd p)) (typed_args s None args) = [].
  Proof.
    unfold typed_args. apply flat_map_nil_iff. intros p Hp. apply in_map_iff in Hp. destruct Hp as [a [<- _]].
    simpl. apply check_value_none.
  Qed.

  Theorem r22_equiv d :
    wf_arg_types s -> wf_var_types s d -> spec_known_directives s d ->
    (r22_values_of_correct_type s d = [] <-> spec_values_of_correct_type s d).
  Proof.
    intros [Hwa Hwd] Hwv Hkd. unfold r22_values_of_correct_type, spec_values_of_correct_type.
    rewrite (typed_values_split s d (fun p => check_value s (fst (fst p)) (snd p))).
    (* the events part, on events whose directive is known *)
    set (g := fun e => flat_map (fun p => check_value s (fst (fst p)) (snd p)) (typed_values_ev s e)).
    set (g' := fun e => match e with
                        | EDirective w cf dr => match alookup (n_val (d_name dr)) (s_dirs s) with
                                                | Some _ => g e | None => [] end
                        | _ => g e end).
    assert (Hgg : flat_map g (doc_events s d) = [] <-> flat_map g' (doc_events s d) = []).
    { rewrite !flat_map_nil_iff. split; intros H e He; specialize (H e He); destruct e; try exact H.
      - simpl. destruct (alookup (n_val (d_name d0)) (s_dirs s)); [exact H|reflexivity].
      - simpl in H. destruct (alookup (n_val (d_name d0)) (s_dirs s)) eqn:E; [exact H|].
        exfalso. apply doc_events_In in He. destruct He as [df [Hdf He]].
        assert (Hat : directive_at s d where_ d0).
        { destruct (def_events_inv s df _ He) as [(dr & w & Hdr & Hw & E0)|[[l0 E0]|(x & q & z & ty' & cf' & Hx & Hdesc & Hq & Hne)]];
            try discriminate.
          - inversion E0; subst. right. exists df. tauto.
          - left. exists q, z. split; [exists df, x; tauto|].
            destruct z as [a n args dirs sl sub l|n dirs l|tc dirs ssl sub l]; simpl in Hne |- *.
            + destruct Hne as [E0|Hne]; [discriminate|]. apply in_app_or in Hne. destruct Hne as [Hne|Hne].
              * apply in_map_iff in Hne. destruct Hne as [dr [E0 Hdr]]. inversion E0; subst. tauto.
              * destruct sl; [destruct Hne as [E0|[]]; discriminate|destruct Hne].
            + destruct Hne as [E0|Hne]; [discriminate|]. apply in_map_iff in Hne. destruct Hne as [dr [E0 Hdr]].
              inversion E0; subst. tauto.
            + destruct Hne as [E0|Hne]; [discriminate|]. apply in_app_or in Hne. destruct Hne as [Hne|Hne].
              * apply in_map_iff in Hne. destruct Hne as [dr [E0 Hdr]]. inversion E0; subst. tauto.
              * destruct Hne as [E0|[]]. discriminate. }
        destruct (Hkd _ _ Hat) as [dd [Edd _]]. congruence. }
    apply (iff_trans (and_iff_compat_l _ Hgg)). clear Hgg.
    rewrite (rule_events_iff s d g').
    - unfold nodes_ok. split.
      + intros [Hdef (Hf & _ & _ & _ & Hd)]. split; [|split].
        * intros p a n args dirs sl sub l f Hr E. specialize (Hf _ _ _ _ _ _ _ _ Hr). simpl in Hf.
          unfold g in Hf. simpl in Hf. rewrite E in Hf.
          apply (typed_args_check (sf_args f) args); [intros ad Had; eapply Hwa; eassumption|exact Hf].
        * intros w dr dd Hat E. specialize (Hd w dr Hat). simpl in Hd. rewrite E in Hd. unfold g in Hd. simpl in Hd.
          unfold dir_arg_ctx in Hd. rewrite E in Hd.
          apply (typed_args_check (sd_args dd) (d_args dr)); [intros ad Had; eapply Hwd; eassumption|exact Hd].
        * intros df vd v t Hdf Hvd Hv Ht Hi. specialize (Hdef df Hdf). unfold typed_defaults in Hdef.
          rewrite flat_map_flat_map, flat_map_nil_iff in Hdef.
          assert (Hvd' : In vd (op_vardefs df)) by (destruct df; exact Hvd).
          specialize (Hdef vd Hvd'). rewrite Hv in Hdef. simpl in Hdef. rewrite app_nil_r, Ht in Hdef.
          unfold in_filter in Hdef. rewrite Hi in Hdef.
          apply (check_value_spec s Hwf v t Hi); [eapply Hwv; eassumption|exact Hdef].
      + intros (Hf & Hd & Hdef). split.
        * intros df Hdf. unfold typed_defaults. rewrite flat_map_flat_map. apply flat_map_nil_iff. intros vd Hvd.
          assert (Hvd' : In vd (op_vars df)) by (destruct df; exact Hvd).
          destruct (vd_default vd) as [v|] eqn:Hv; [|reflexivity]. simpl. rewrite app_nil_r.
          destruct (type_from_ast s (vd_type vd)) as [t|] eqn:Ht; simpl; [|apply check_value_none].
          destruct (is_input_type s t) eqn:Hi; [|apply check_value_none].
          apply (check_value_spec s Hwf v t Hi); [eapply Hwv; eassumption|eapply Hdef; eassumption].
        * repeat split; try (intros; reflexivity).
          -- intros q a n args dirs sl sub l Hr. simpl. unfold g. simpl.
             destruct q as [p|]; [|apply typed_args_none]. simpl.
             destruct (get_field_def s p (n_val n)) as [f|] eqn:E; [|apply typed_args_none].
             apply (typed_args_check (sf_args f) args); [intros ad Had; eapply Hwa; eassumption|eapply Hf; eassumption].
          -- intros w dr Hat. simpl. destruct (alookup (n_val (d_name dr)) (s_dirs s)) as [dd|] eqn:E; [|reflexivity].
             unfold g. simpl. unfold dir_arg_ctx. rewrite E.
             apply (typed_args_check (sd_args dd) (d_args dr)); [intros ad Had; eapply Hwd; eassumption|eapply Hd; eassumption].
    - intros w cf cf' dr H. simpl in *. destruct (alookup (n_val (d_name dr)) (s_dirs s)) eqn:E; [|reflexivity].
      unfold g in *. simpl in *. unfold dir_arg_ctx in *. rewrite E in *. exact H.
    - intros; reflexivity.
    - intros; reflexivity.
  Qed.
End Values.
