(* C12 at text level with descriptions on types and directive definitions:
   the printer's text is (description block ++ the text of the undescribed
   definition); the parser model reads the whole document back. *)
From PyGql Require Import Lang.PrinterModel Spec.PrinterSpec Lang.Parser Spec.LexSpec Spec.GrammarSpec Spec.SdlGrammarSpec
                          Proofs.PrinterRoundtrip Proofs.PrinterValueRoundtrip Proofs.PrinterExecRoundtrip Proofs.PrinterSdlRoundtrip.
From PyGql Require Import Schema.SdlSchema Schema.SdlBuild Schema.SdlPrint Spec.SdlRoundtripSpec
                          Proofs.SdlTextProofs Proofs.SdlTextSchemaProofs Proofs.SdlDescLexProofs.
From Coq Require Import Lia.

Definition clear_tdesc (t : tdef) : tdef :=
  match t with
  | TScalar n _ ds => TScalar n None ds
  | TObject n _ is_ fs ds => TObject n None is_ fs ds
  | TInterface n _ fs ds => TInterface n None fs ds
  | TUnion n _ ms ds => TUnion n None ms ds
  | TEnum n _ vs ds => TEnum n None vs ds
  | TInput n _ fs ds => TInput n None fs ds
  end.

Definition clear_ddesc (d : ddef) : ddef := DD (dd_name d) None (dd_locs d) (dd_args d).

Definition set_desc (sv : option strval) (d : definition) : definition :=
  match sv with Some s => with_description s d | None => d end.

Section DescTexts.
  Variable o : popts.
  Variable E : env.
  Variable E0 : env.
  Hypothesis Hext : env_le E0 E.
  Let cf := Cfg (po_indent o) true.

  (* descriptions the text-level theorem covers: printed (options), without
     double quotes, not ending with a backslash, source characters only, and
     read back by BlockStringValue (C12_description_roundtrip_partial / _block
     give the last for the one-line and the block layout) *)
  Definition desc_ok (d : option str) : Prop :=
    match d with
    | None => True
    | Some desc => desc <> [] /\ po_descriptions o = true
                   /\ desc_body_ok (description_body o desc 0) desc
    end.

  Definition desc_text (d : option str) : str :=
    match d with
    | Some (c :: r) => (Q3s ++ description_body o (c :: r) 0 ++ Q3s) ++ nl
    | _ => []
    end.

  Lemma print_description_top d : desc_ok d -> print_description o d 0 true = desc_text d.
  Proof.
    destruct d as [[|c r]|]; try reflexivity. intros (_ & Hp & _). unfold print_description, desc_text.
    rewrite Hp. cbn [negb]. unfold ind. cbn [repeat_str nonempty andb app]. unfold triple, Q3s.
    rewrite <- !app_assoc. reflexivity.
  Qed.

  Lemma strval_of_ok d : desc_ok d ->
    strval_of d = match d with Some (c :: r) => Some (StrVal (c :: r) true None) | _ => None end.
  Proof. destruct d as [[|c r]|]; reflexivity. Qed.

  (* ---- types ----------------------------------------------------------- *)
  Definition dt_tdef (t : tdef) : Prop := plain_tdef o E0 (clear_tdesc t) /\ desc_ok (tdef_desc t).

  Lemma print_type_clear t :
    print_type o E print_fuel t
    = match print_type o E print_fuel (clear_tdesc t) with
      | Ok x => Ok (print_description o (tdef_desc t) 0 true ++ x)
      | OutOfFuel => OutOfFuel | Rejected k p => Rejected k p | Crash k => Crash k
      end.
  Proof.
    destruct t as [n d ds|n d is_ fs ds|n d fs ds|n d ms ds|n d vs ds|n d fs ds];
      cbn [print_type clear_tdesc tdef_desc]; try reflexivity.
    - destruct (print_fields o E print_fuel fs); reflexivity.
    - destruct (print_fields o E print_fuel fs); reflexivity.
    - match goal with |- obind ?x _ = _ => destruct x; reflexivity end.
  Qed.

  Definition text_d (t : tdef) : str := desc_text (tdef_desc t) ++ type_text o E0 (clear_tdesc t).

  Lemma print_type_desc t : dt_tdef t -> print_type o E print_fuel t = Ok (text_d t).
  Proof.
    intros [Hp Hd]. rewrite print_type_clear, (print_type_plain o E E0 Hext _ Hp), (print_description_top _ Hd). reflexivity.
  Qed.

  Definition def_d (t : tdef) : definition := set_desc (strval_of (tdef_desc t)) (def1_of E0 (clear_tdesc t)).

  Lemma def_of_tdef_clear t :
    def_of_tdef E0 t
    = match def_of_tdef E0 (clear_tdesc t) with
      | Ok x => Ok (set_desc (strval_of (tdef_desc t)) x)
      | OutOfFuel => OutOfFuel | Rejected k p => Rejected k p | Crash k => Crash k
      end.
  Proof.
    destruct t as [n d ds|n d is_ fs ds|n d fs ds|n d ms ds|n d vs ds|n d fs ds];
      cbn [def_of_tdef clear_tdesc tdef_desc];
      try (match goal with |- obind ?x _ = _ => destruct x; cbn [obind] end);
      try reflexivity; destruct (strval_of d); reflexivity.
  Qed.

  Lemma def_of_tdef_desc t : dt_tdef t -> def_of_tdef E0 t = Ok (def_d t).
  Proof. intros [Hp _]. rewrite def_of_tdef_clear, (def_of_tdef_plain o E0 _ Hp). reflexivity. Qed.

  (* ---- directive definitions ------------------------------------------ *)
  Definition dt_ddef (d : ddef) : Prop := plain_ddef o E0 (clear_ddesc d) /\ desc_ok (dd_desc d).

  Definition dtext_d (d : ddef) : str := desc_text (dd_desc d) ++ ddef_text o E0 (clear_ddesc d).

  Lemma print_ddef_desc d : dt_ddef d -> print_directive_definition o E print_fuel d = Ok (dtext_d d).
  Proof.
    intros [Hp Hd]. pose proof (print_ddef_plain o E E0 Hext _ Hp) as H.
    unfold print_directive_definition in *. cbn [clear_ddesc dd_args dd_desc dd_name dd_locs] in H.
    destruct (print_arguments o E print_fuel (dd_args d) 0); cbn [obind] in *; try discriminate.
    apply (f_equal (fun r => match r with Ok x => x | _ => [] end)) in H. cbv beta iota in H.
    cbn [print_description app] in H. unfold dtext_d. rewrite (print_description_top _ Hd).
    do 2 f_equal. exact H.
  Qed.

  Definition ddef_d (d : ddef) : definition := set_desc (strval_of (dd_desc d)) (ddef1_of E0 (clear_ddesc d)).

  Lemma def_of_ddef_desc d : dt_ddef d -> def_of_ddef E0 d = Ok (ddef_d d).
  Proof.
    intros [Hp _]. pose proof (def_of_ddef_plain o E0 _ Hp) as H. unfold def_of_ddef in *.
    cbn [clear_ddesc dd_args dd_desc dd_name dd_locs] in H.
    destruct (omap (ivdef_of E0) (dd_args d)); cbn [obind] in *; try discriminate.
    apply (f_equal (fun r => match r with Ok x => x | _ => DSchema false [] [] None end)) in H. cbv beta iota in H.
    cbn [strval_of] in H. unfold ddef_d. rewrite <- H. destruct (strval_of (dd_desc d)); reflexivity.
  Qed.
End DescTexts.

(* ------------------------------------------------------------------ *)
(* every definition text lexes to its definition                        *)
Section Items.
  Variable o : popts.
  Variable E0 : env.
  Variable fv : bool.
  Hypothesis Hws : all_ws (po_indent o).
  Let cf := Cfg (po_indent o) true.

  Lemma fulldef_item (text : str) (d : definition) :
    wf_fulldef fv d -> strip_def d = d -> pr_definition cf d = text -> text <> [] ->
    (forall l sels l', d <> DOperation OpQuery None [] [] l sels l') ->
    item_ok fv (text, d).
  Proof.
    intros Hwf Hs Ht Hne Hop. split; [exact Hne|]. split.
    - cbn [fst snd]. rewrite <- Ht. pose proof (anydef_lexok cf Hws eq_refl fv d Hwf) as H.
      unfold PD in H. rewrite Hs in H. exact H.
    - intros (l & sels & l' & He). cbn [snd] in He. exact (Hop _ _ _ He).
  Qed.

  Lemma plain_tdef_item t : plain_tdef o E0 t -> item_ok fv (type_text o E0 t, def1_of E0 t).
  Proof.
    intros Hp. apply fulldef_item.
    - apply (wf_def1_of o); exact Hp.
    - apply (strip_def1_of o); exact Hp.
    - apply pr_definition_plain; exact Hp.
    - destruct t; discriminate.
    - intros l sels l'. destruct t; discriminate.
  Qed.

  Lemma plain_ddef_item d :
    plain_ddef o E0 d -> Forall (fun l => In l (map str_of_string directive_location_names)) (dd_locs d) ->
    item_ok fv (ddef_text o E0 d, ddef1_of E0 d).
  Proof.
    intros Hp Hl. apply fulldef_item.
    - apply (wf_ddef1_of o); assumption.
    - apply (strip_ddef1_of o); exact Hp.
    - apply pr_ddef_plain; exact Hp.
    - discriminate.
    - intros l sels l'. discriminate.
  Qed.

  Lemma sdef_item sc : plain_roots o sc -> item_ok fv (sdef_text o sc, sdef_of sc).
  Proof.
    intros Hp. apply fulldef_item.
    - apply (wf_sdef_of o); exact Hp.
    - apply (strip_sdef_of o); exact Hp.
    - apply pr_sdef_plain; exact Hp.
    - discriminate.
    - intros l sels l'. discriminate.
  Qed.

  (* a described definition: the description block in front *)
  Lemma described_item (d : option str) (text : str) (d0 : definition) :
    desc_ok o d -> undescribed d0 -> item_ok fv (text, d0) ->
    item_ok fv (desc_text o d ++ text, set_desc (strval_of d) d0).
  Proof.
    intros Hd Hu (Hne & HL & Hns). destruct d as [[|c r]|]; try (split; [exact Hne|split; [exact HL|exact Hns]]).
    destruct Hd as (_ & _ & Hb). cbn [desc_text strval_of set_desc fst snd] in *.
    split; [discriminate|]. split.
    - rewrite <- app_assoc.
      eapply lexok_weaken; [|apply (desc_prefix_lexok _ (c :: r) text _ Hb HL)].
      intros ts (dsts & rest & -> & HD & HP). apply add_description; assumption.
    - intros (l & sels & l' & He). destruct d0; simpl in Hu; try contradiction; discriminate.
  Qed.

  Lemma undescribed_def1 t : undescribed (def1_of E0 (clear_tdesc t)).
  Proof. destruct t; exact I. Qed.

  Lemma dt_tdef_item t : dt_tdef o E0 t -> item_ok fv (text_d o E0 t, def_d E0 t).
  Proof.
    intros [Hp Hd]. unfold text_d, def_d. apply described_item; [exact Hd|apply undescribed_def1|].
    apply plain_tdef_item; exact Hp.
  Qed.

  Lemma dt_ddef_item d :
    dt_ddef o E0 d -> Forall (fun l => In l (map str_of_string directive_location_names)) (dd_locs d) ->
    item_ok fv (dtext_d o E0 d, ddef_d E0 d).
  Proof.
    intros [Hp Hd] Hl. unfold dtext_d, ddef_d. apply described_item; [exact Hd|exact I|].
    apply plain_ddef_item; [exact Hp|exact Hl].
  Qed.
End Items.

(* ------------------------------------------------------------------ *)
(* the document                                                         *)
Definition desc_schema (o : popts) (sc : schema) : Prop :=
  let E0 := env_of_schema [] sc in
  Forall (dt_tdef o E0) (s_types sc) /\ Forall (dt_ddef o E0) (s_ddefs sc) /\ plain_roots o sc /\ s_types sc <> [].

Definition doc_items (o : popts) (sc : schema) : list (str * definition) :=
  let E0 := env_of_schema [] sc in
  (if schema_def_needed sc then [(sdef_text o sc, sdef_of sc)] else [])
  ++ map (fun d => (dtext_d o E0 d, ddef_d E0 d)) (sort_by dd_name (s_ddefs sc))
  ++ map (fun t => (text_d o E0 t, def_d E0 t)) (sort_by tdef_name (s_types sc)).

Definition doc_d (o : popts) (sc : schema) : document := Doc (map snd (doc_items o sc)) None.

Lemma doc_d_indep o o' sc : doc_d o sc = doc_d o' sc.
Proof.
  unfold doc_d, doc_items. rewrite !map_app, !map_map. cbn [snd].
  destruct (schema_def_needed sc); reflexivity.
Qed.

Lemma ast_of_schema_desc o sc : desc_schema o sc -> ast_of_schema sc = Ok (doc_d o sc).
Proof.
  intros (Ht & Hd & Hr & Hne). set (E0 := env_of_schema [] sc) in *.
  set (st := sort_by tdef_name (s_types sc)). set (sd := sort_by dd_name (s_ddefs sc)).
  assert (Hst : Forall (dt_tdef o E0) st) by (apply sort_by_Forall; exact Ht).
  assert (Hsd : Forall (dt_ddef o E0) sd) by (apply sort_by_Forall; exact Hd).
  unfold ast_of_schema, doc_d, doc_items. fold E0 sd st.
  assert (H1 : omap (def_of_ddef E0) sd = Ok (map (ddef_d E0) sd)).
  { clear -Hsd. induction Hsd as [|x l Hx Hl IH]; [reflexivity|]. cbn [omap map].
    rewrite (def_of_ddef_desc o E0 x Hx). cbn [obind]. rewrite IH. reflexivity. }
  assert (H2 : omap (def_of_tdef E0) st = Ok (map (def_d E0) st)).
  { clear -Hst. induction Hst as [|x l Hx Hl IH]; [reflexivity|]. cbn [omap map].
    rewrite (def_of_tdef_desc o E0 x Hx). cbn [obind]. rewrite IH. reflexivity. }
  rewrite H1, H2. cbn [obind]. rewrite !map_app, !map_map. cbn [snd].
  unfold sdef_of, ot_of. destruct (schema_def_needed sc); reflexivity.
Qed.

Lemma text_d_ne o E0 t : text_d o E0 t <> [].
Proof. unfold text_d. intros H. apply app_eq_nil in H. destruct H as [_ H]. destruct t; discriminate. Qed.

Lemma dtext_d_ne o E0 d : dtext_d o E0 d <> [].
Proof. unfold dtext_d. intros H. apply app_eq_nil in H. destruct H as [_ H]. discriminate. Qed.

Theorem print_schema_desc intro spec o sc :
  desc_schema o sc -> po_introspection o = false ->
  print_schema intro spec o sc = Ok (join (nl ++ nl) (map fst (doc_items o sc)) ++ nl).
Proof.
  intros (Ht & Hd & Hr & Hne) Hi. set (E0 := env_of_schema [] sc) in *.
  set (E := env_of_schema intro sc). pose proof (env_le_intro intro sc) as Hext. fold E0 E in Hext.
  set (st := sort_by tdef_name (s_types sc)). set (sd := sort_by dd_name (s_ddefs sc)).
  assert (Hst : Forall (dt_tdef o E0) st) by (apply sort_by_Forall; exact Ht).
  assert (Hsd : Forall (dt_ddef o E0) sd) by (apply sort_by_Forall; exact Hd).
  unfold doc_items. fold E0 sd st.
  unfold print_schema. rewrite Hi. rewrite app_nil_r. fold st sd E. cbn [obind].
  assert (H1 : omap (print_directive_definition o E print_fuel) sd = Ok (map (dtext_d o E0) sd)).
  { clear -Hsd Hext. induction Hsd as [|x l Hx Hl IH]; [reflexivity|]. cbn [omap map].
    rewrite (print_ddef_desc o E E0 Hext x Hx). cbn [obind]. rewrite IH. reflexivity. }
  assert (H2 : omap (print_type o E print_fuel) st = Ok (map (text_d o E0) st)).
  { clear -Hst Hext. induction Hst as [|x l Hx Hl IH]; [reflexivity|]. cbn [omap map].
    rewrite (print_type_desc o E E0 Hext x Hx). cbn [obind]. rewrite IH. reflexivity. }
  rewrite H1, H2. cbn [obind app].
  rewrite (print_schema_definition_plain o sc Hr).
  set (Stexts := if schema_def_needed sc then [sdef_text o sc] else []).
  assert (Hrest : Forall (fun x : str => x <> []) (map (dtext_d o E0) sd ++ map (text_d o E0) st)).
  { apply Forall_app; split; apply Forall_forall; intros x Hx; apply in_map_iff in Hx; destruct Hx as [y [<- _]].
    - apply dtext_d_ne.
    - apply text_d_ne. }
  assert (Hparts : filter nonempty ((if schema_def_needed sc then sdef_text o sc else [])
                                    :: map (dtext_d o E0) sd ++ map (text_d o E0) st)
                   = Stexts ++ map (dtext_d o E0) sd ++ map (text_d o E0) st).
  { assert (Hk : forall l : list str, Forall (fun x => x <> []) l -> filter nonempty l = l).
    { induction 1 as [|x l Hx Hl IH]; [reflexivity|]. cbn [filter]. destruct x; [congruence|]. cbn [nonempty].
      rewrite IH. reflexivity. }
    unfold Stexts. destruct (schema_def_needed sc); cbn [filter nonempty].
    - unfold sdef_text at 1. cbn [app lit str_of_string nonempty]. rewrite (Hk _ Hrest). reflexivity.
    - apply Hk; exact Hrest. }
  rewrite Hparts.
  assert (Hst_ne : st <> []) by (apply sort_by_nonempty; exact Hne).
  assert (Hfst : map fst ((if schema_def_needed sc then [(sdef_text o sc, sdef_of sc)] else [])
                          ++ map (fun d => (dtext_d o E0 d, ddef_d E0 d)) sd
                          ++ map (fun t => (text_d o E0 t, def_d E0 t)) st)
                 = Stexts ++ map (dtext_d o E0) sd ++ map (text_d o E0) st).
  { rewrite !map_app, !map_map. cbn [fst]. unfold Stexts. destruct (schema_def_needed sc); reflexivity. }
  rewrite Hfst.
  destruct (Stexts ++ map (dtext_d o E0) sd ++ map (text_d o E0) st) as [|p0 ps] eqn:Hp; [|reflexivity].
  exfalso. apply app_eq_nil in Hp. destruct Hp as [_ Hp]. apply app_eq_nil in Hp. destruct Hp as [_ Hp].
  destruct st; [congruence|discriminate].
Qed.

(* the printed text of a schema with described types and directive
   definitions parses to the document of the schema *)
Theorem text_parses_desc intro spec o fl sc text :
  desc_schema o sc -> valid_locations sc -> po_introspection o = false ->
  no_location fl = true -> allow_type_system fl = true -> all_ws (po_indent o) ->
  print_schema intro spec o sc = Ok text ->
  parse_document fl text = Ok (doc_d o sc) /\ ast_of_schema sc = Ok (doc_d o sc).
Proof.
  intros Hp Hl Hi Hnl Hts Hws Hprint.
  rewrite (print_schema_desc intro spec o sc Hp Hi) in Hprint. injection Hprint as <-.
  split; [|apply ast_of_schema_desc; exact Hp].
  destruct Hp as (Ht & Hd & Hr & Hne). set (E0 := env_of_schema [] sc) in *.
  change (nl ++ nl) with [10%N; 10%N]. change nl with [10%N].
  apply items_parse; try assumption.
  - unfold doc_items. intros He. apply app_eq_nil in He. destruct He as [_ He]. apply app_eq_nil in He.
    destruct He as [_ He]. apply map_eq_nil in He. exact (sort_by_nonempty _ _ Hne He).
  - unfold doc_items. fold E0. apply Forall_app; split; [|apply Forall_app; split].
    + destruct (schema_def_needed sc); [|constructor]. constructor; [|constructor]. apply sdef_item; assumption.
    + apply Forall_forall. intros x Hx. apply in_map_iff in Hx. destruct Hx as (d & <- & Hin).
      apply sort_by_in in Hin. unfold valid_locations in Hl. rewrite Forall_forall in Hd, Hl.
      apply dt_ddef_item; [exact Hws|apply Hd; exact Hin|apply Hl; exact Hin].
    + apply Forall_forall. intros x Hx. apply in_map_iff in Hx. destruct Hx as (t & <- & Hin).
      apply sort_by_in in Hin. rewrite Forall_forall in Ht. apply dt_tdef_item; [exact Hws|apply Ht; exact Hin].
Qed.
