(* C13: the verdict does not depend on the order in which the members of a
   type (fields, input fields, enum values, union members, implemented
   interfaces) are declared.  (The reported list does: see
   C13_example_field_order.) *)
From PyGql Require Import Schema.SchemaFull Schema.SchemaValidateModel Spec.SchemaValidSpec
  Proofs.SchemaFullLemmas Proofs.SchemaValProofs Proofs.SchemaVerdictProofs.
From Coq Require Import Permutation.

Definition body_rel (b b' : type_body) : Prop :=
  match b, b' with
  | BScalar, BScalar => True
  | BObject i fs r, BObject i' fs' r' => Permutation i i' /\ Permutation fs fs' /\ r = r'
  | BInterface fs, BInterface fs' => Permutation fs fs'
  | BUnion ms, BUnion ms' => Permutation ms ms'
  | BEnum vs, BEnum vs' => Permutation vs vs'
  | BInput fs, BInput fs' => Permutation fs fs'
  | _, _ => False
  end.

Definition type_rel (t t' : type_def) : Prop :=
  t_name t = t_name t' /\ t_intro t = t_intro t' /\ t_spec t = t_spec t' /\ body_rel (t_body t) (t_body t').

Definition member_order_rel (s s' : schema) : Prop :=
  Forall2 type_rel (s_types s) (s_types s')
  /\ s_dirs s = s_dirs s' /\ s_query s = s_query s' /\ s_mutation s = s_mutation s'
  /\ s_subscription s = s_subscription s' /\ s_default_resolver s = s_default_resolver s'.

Lemma body_rel_sym b b' : body_rel b b' -> body_rel b' b.
Proof.
  destruct b, b'; simpl; try tauto; try apply Permutation_sym.
  intros (H1 & H2 & H3). repeat split; auto using Permutation_sym.
Qed.

Lemma type_rel_sym t t' : type_rel t t' -> type_rel t' t.
Proof. intros (H1 & H2 & H3 & H4). repeat split; auto using body_rel_sym. Qed.

Lemma Forall2_sym {A} (R : A -> A -> Prop) l l' :
  (forall x y, R x y -> R y x) -> Forall2 R l l' -> Forall2 R l' l.
Proof. intros Hs H. induction H; constructor; auto. Qed.

Lemma member_order_rel_sym s s' : member_order_rel s s' -> member_order_rel s' s.
Proof.
  intros (H1 & H2 & H3 & H4 & H5 & H6). repeat split; try congruence.
  apply Forall2_sym; [apply type_rel_sym|exact H1].
Qed.

Lemma find_type_rel ts ts' k t :
  Forall2 type_rel ts ts' -> find_type ts k = Some t ->
  exists t', find_type ts' k = Some t' /\ type_rel t t'.
Proof.
  intros H. induction H as [|x y l l' Hxy _ IH]; simpl; [discriminate|].
  destruct Hxy as (Hn & Hr). rewrite <- Hn.
  destruct (str_eqb k (t_name x)).
  - intros E; inversion E; subst. exists y. split; [reflexivity|split; assumption].
  - exact IH.
Qed.

Lemma kind_rel b b' : body_rel b b' -> kind_code b = kind_code b'.
Proof. destruct b, b'; simpl; tauto. Qed.

Section Rel.
  Variables s s' : schema.
  Hypothesis R : member_order_rel s s'.
  Let RT : Forall2 type_rel (s_types s) (s_types s') := proj1 R.

  Lemma kind_is_rel n ks : kind_is s n ks -> kind_is s' n ks.
  Proof.
    intros (t & Hf & Hk). destruct (find_type_rel _ _ _ _ RT Hf) as (t' & Hf' & (_ & _ & _ & Hb)).
    exists t'. split; [exact Hf'|]. rewrite <- (kind_rel _ _ Hb). exact Hk.
  Qed.

  Lemma possible_rel a b : possible_type (s_types s) a b -> possible_type (s_types s') a b.
  Proof.
    intros (ot & ifaces & fs & dr & at_ & Ho & Hb & Ha & H).
    destruct (find_type_rel _ _ _ _ RT Ho) as (ot' & Ho' & (_ & _ & _ & Hbo)).
    destruct (find_type_rel _ _ _ _ RT Ha) as (at' & Ha' & (_ & _ & _ & Hba)).
    rewrite Hb in Hbo. destruct (t_body ot') as [|i' fs' r'| | | |] eqn:Eo; simpl in Hbo; try contradiction.
    destruct Hbo as (Pi & _ & _).
    exists ot', i', fs', r', at'. repeat split; try assumption.
    destruct H as [(ms & Hm & Hin)|(ifs & Hi & Hin)].
    - left. rewrite Hm in Hba. destruct (t_body at') as [| | |ms'| |]; simpl in Hba; try contradiction.
      exists ms'. split; [reflexivity|]. eapply Permutation_in; eassumption.
    - right. rewrite Hi in Hba. destruct (t_body at') as [| |ifs'| | |]; simpl in Hba; try contradiction.
      exists ifs'. split; [reflexivity|]. eapply Permutation_in; eassumption.
  Qed.

  Lemma subtype_rel t u : subtype (s_types s) t u -> subtype (s_types s') t u.
  Proof.
    induction 1; [apply sub_refl|apply sub_non_null_left|apply sub_list|apply sub_non_null|apply sub_possible];
      auto using possible_rel.
  Qed.

  Lemma args_ok_rel args : args_ok s args -> args_ok s' args.
  Proof.
    intros [H1 H2]. split; [exact H1|]. eapply Forall_impl; [|exact H2].
    intros a [Ha Hb]. split; [exact Ha|]. apply kind_is_rel. exact Hb.
  Qed.

  Lemma fields_ok_rel fs fs' : Permutation fs fs' -> fields_ok s fs -> fields_ok s' fs'.
  Proof.
    intros P (Hne & Hnd & Hf). split; [|split].
    - intros E. rewrite E in P. apply Permutation_sym, Permutation_nil in P. contradiction.
    - eapply Permutation_NoDup; [apply Permutation_map; exact P|exact Hnd].
    - eapply Permutation_Forall; [exact P|]. eapply Forall_impl; [|exact Hf].
      intros f (H1 & H2 & H3). split; [exact H1|]. split; [apply kind_is_rel; exact H2|apply args_ok_rel; exact H3].
  Qed.

  Lemma resolvers_ok_rel tdr fs fs' : Permutation fs fs' -> resolvers_ok s tdr fs -> resolvers_ok s' tdr fs'.
  Proof.
    intros P H. unfold resolvers_ok in *. eapply Permutation_Forall; [exact P|].
    eapply Forall_impl; [|exact H]. intros f Hf. unfold resolver_of in *.
    pose proof R as (_ & _ & _ & _ & _ & Hd). rewrite <- Hd. exact Hf.
  Qed.

  Lemma implementation_ok_rel ofs ofs' ifs ifs' :
    Permutation ofs ofs' -> Permutation ifs ifs' ->
    implementation_ok s ofs ifs -> implementation_ok s' ofs' ifs'.
  Proof.
    intros Po Pi H. unfold implementation_ok in *. eapply Permutation_Forall; [exact Pi|].
    eapply Forall_impl; [|exact H]. intros f (g & Hg & Hn & Hs & Ha & Hb).
    exists g. split; [eapply Permutation_in; eassumption|]. split; [exact Hn|].
    split; [apply subtype_rel; exact Hs|]. split; assumption.
  Qed.

  Lemma implements_ok_rel fs fs' i i' :
    Permutation fs fs' -> Permutation i i' ->
    implements_ok_with s (implementation_ok s) fs i -> implements_ok_with s' (implementation_ok s') fs' i'.
  Proof.
    intros Pf Pi [Hnd H]. split; [eapply Permutation_NoDup; eassumption|].
    eapply Permutation_Forall; [exact Pi|]. eapply Forall_impl; [|exact H].
    intros x (it & ifs & Hf & Hb & Hi).
    destruct (find_type_rel _ _ _ _ RT Hf) as (it' & Hf' & (_ & _ & _ & Hbr)).
    rewrite Hb in Hbr. destruct (t_body it') as [| |ifs'| | |] eqn:E; simpl in Hbr; try contradiction.
    exists it', ifs'. split; [exact Hf'|]. split; [exact E|].
    eapply implementation_ok_rel; eassumption.
  Qed.

  Lemma type_ok_rel t t' :
    type_rel t t' -> type_ok_with s (implementation_ok s) t -> type_ok_with s' (implementation_ok s') t'.
  Proof.
    intros (Hn & Hi & Hs & Hb) [H1 H2]. split; [rewrite <- Hn, <- Hi, <- Hs; exact H1|].
    destruct (t_body t) as [|i fs r|fs|ms|vs|fs], (t_body t') as [|i' fs' r'|fs'|ms'|vs'|fs']; simpl in Hb;
      try contradiction; try exact I.
    - destruct Hb as (Pi & Pf & <-). destruct H2 as (F & Rs & Im).
      split; [eapply fields_ok_rel; eassumption|]. split; [eapply resolvers_ok_rel; eassumption|].
      eapply implements_ok_rel; eassumption.
    - destruct H2 as (F & Rs). split; [eapply fields_ok_rel; eassumption|eapply resolvers_ok_rel; eassumption].
    - destruct H2 as (Hne & Hnd & Hf). split; [|split].
      + intros E. rewrite E in Hb. apply Permutation_sym, Permutation_nil in Hb. contradiction.
      + eapply Permutation_NoDup; eassumption.
      + eapply Permutation_Forall; [exact Hb|]. eapply Forall_impl; [|exact Hf]. intros m. apply kind_is_rel.
    - destruct H2 as (Hne & Hf). split.
      + intros E. rewrite E in Hb. apply Permutation_sym, Permutation_nil in Hb. contradiction.
      + eapply Permutation_Forall; eassumption.
    - destruct H2 as (Hne & Hnd & Hf). split; [|split].
      + intros E. rewrite E in Hb. apply Permutation_sym, Permutation_nil in Hb. contradiction.
      + eapply Permutation_NoDup; [apply Permutation_map; exact Hb|exact Hnd].
      + eapply Permutation_Forall; [exact Hb|]. eapply Forall_impl; [|exact Hf].
        intros f [Ha Hk]. split; [exact Ha|apply kind_is_rel; exact Hk].
  Qed.

  Lemma schema_ok_rel : schema_ok s -> schema_ok s'.
  Proof.
    intros (Hr & Ht & Hd). pose proof R as (_ & Rd & Rq & Rm & Rs & _). split; [|split].
    - destruct Hr as ((q & Hq & Hk) & Hm & Hs). split; [|split].
      + exists q. split; [congruence|apply kind_is_rel; exact Hk].
      + intros q2 Hq'. apply kind_is_rel. apply Hm. congruence.
      + intros q2 Hq'. apply kind_is_rel. apply Hs. congruence.
    - clear Hr Hd. revert Ht. generalize RT. generalize (s_types s) (s_types s').
      intros l l' H. induction H as [|x y l l' Hxy _ IH]; intros Hf; [constructor|].
      inversion Hf; subst. constructor; [eapply type_ok_rel; eassumption|apply IH; assumption].
    - unfold directives_ok in *. rewrite <- Rd. eapply Forall_impl; [|exact Hd].
      intros d [H1 H2]. split; [exact H1|apply args_ok_rel; exact H2].
  Qed.
End Rel.

Theorem verdict_member_order s s' :
  member_order_rel s s' -> sigs_wf s -> types_wf s -> sigs_wf s' -> types_wf s' ->
  (validate_model s = [] <-> validate_model s' = []).
Proof.
  intros R S1 T1 S2 T2. rewrite (verdict_full s S1 T1), (verdict_full s' S2 T2). split.
  - apply schema_ok_rel; exact R.
  - apply schema_ok_rel. apply member_order_rel_sym; exact R.
Qed.
