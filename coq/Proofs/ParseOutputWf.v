(* The trees the parser model returns for executable documents satisfy the
   well-formedness predicate of the printer round trip (C03): names are Names,
   numbers are IntValue / FloatValue lexemes, block string values are canonical
   and made of source characters, enum values are not reserved, fragment names
   are not "on", selection sets are non-empty, ... *)
From PyGql Require Import Lang.Parser Spec.LexSpec Spec.LexicalSpec Spec.GrammarSpec Spec.DocGrammarSpec
  Spec.SdlGrammarSpec Spec.ExecOnlySpec
  Proofs.LexProofs Proofs.BlockStringProofs Proofs.LexicalProofs Proofs.GrammarProofs Proofs.SdlEntryProofs.
From PyGql Require Import Spec.PrinterSpec Proofs.PrinterProofs Proofs.PrinterRoundtrip
  Proofs.PrinterValueRoundtrip Proofs.PrinterExecRoundtrip.
Local Open Scope N_scope.

(* ---- what the lexer guarantees about token values ---- *)
Definition tok_wf (t : ptok) : Prop :=
  (tk t = KName -> valid_name (tval t)) /\
  (tk t = KInt -> IntValue (tval t)) /\
  (tk t = KFloat -> FloatValue (tval t)) /\
  (tk t = KBlockString -> canon (tval t) /\ forall c, In c (tval t) -> SourceCharacter c).

Lemma block_scan_source txt raw r : block_scan txt raw r -> Forall SourceCharacter raw.
Proof.
  induction 1; [constructor| |constructor; assumption].
  repeat constructor; try assumption; unfold SourceCharacter; lia.
Qed.

(* every character of a block string value comes from the raw text or is LF *)
Lemma in_skipn {A} n (l : list A) x : In x (skipn n l) -> In x l.
Proof. revert l; induction n; intros l H; [exact H|]. destruct l; [exact H|]. right. apply IHn. exact H. Qed.

Lemma split_lines_acc_in_n : forall n raw cur l c, (length raw <= n)%nat ->
  In l (BlockString.split_lines_acc cur raw) -> In c l -> In c cur \/ In c raw.
Proof.
  induction n as [|n IH]; intros raw cur l c Hn Hl Hc.
  - destruct raw; [|simpl in Hn; lia]. simpl in Hl. destruct Hl as [<-|[]]. left. apply in_rev. exact Hc.
  - destruct raw as [|x r]; simpl in Hl.
    + destruct Hl as [<-|[]]. left. apply in_rev. exact Hc.
    + simpl in Hn. destruct (x =? 13).
      * destruct r as [|d r'].
        -- destruct Hl as [<-|Hl]; [left; apply in_rev; exact Hc|].
           simpl in Hl. destruct Hl as [<-|[]]. destruct Hc.
        -- simpl in Hn. destruct (d =? 10).
           ++ destruct Hl as [<-|Hl]; [left; apply in_rev; exact Hc|].
              destruct (IH r' [] l c ltac:(lia) Hl Hc) as [[]|H]. right. right. right. exact H.
           ++ destruct Hl as [<-|Hl]; [left; apply in_rev; exact Hc|].
              destruct (IH (d :: r') [] l c ltac:(simpl; lia) Hl Hc) as [[]|H]. right. right. exact H.
      * destruct (x =? 10).
        -- destruct Hl as [<-|Hl]; [left; apply in_rev; exact Hc|].
           destruct (IH r [] l c ltac:(lia) Hl Hc) as [[]|H]. right. right. exact H.
        -- destruct (IH r (x :: cur) l c ltac:(lia) Hl Hc) as [[<-|H]|H];
             [right; left; reflexivity|left; exact H|right; right; exact H].
Qed.

Lemma split_lines_acc_in raw cur l c :
  In l (BlockString.split_lines_acc cur raw) -> In c l -> In c cur \/ In c raw.
Proof. apply (split_lines_acc_in_n (length raw)). lia. Qed.

Lemma pop_front_in lines l : In l (BlockString.pop_blank_front lines) -> In l lines.
Proof.
  induction lines as [|x ls IH]; simpl; [tauto|]. destruct (BlockString.blank_line x); [right; auto|auto].
Qed.

Lemma flat_lf_in ls c : In c (flat_map (fun x : str => 10 :: x) ls) -> c = 10 \/ exists l, In l ls /\ In c l.
Proof.
  induction ls as [|x ls IH]; intros H; [destruct H|]. cbn [flat_map] in H.
  change ((10 :: x) ++ flat_map (fun x0 : str => 10 :: x0) ls)
    with (10 :: (x ++ flat_map (fun x0 : str => 10 :: x0) ls)) in H.
  destruct H as [E|H]; [left; symmetry; exact E|]. apply in_app_or in H. destruct H as [H|H].
  - right. exists x. split; [left; reflexivity|exact H].
  - destruct (IH H) as [E|(l0 & Hl & Hc)]; [left; exact E|right; exists l0; split; [right; exact Hl|exact Hc]].
Qed.

Lemma join_lf_in lines c : In c (BlockString.join_lf lines) -> c = 10 \/ exists l, In l lines /\ In c l.
Proof.
  destruct lines as [|l ls]; intros H; [destruct H|]. unfold BlockString.join_lf in H.
  apply in_app_or in H. destruct H as [H|H].
  - right. exists l. split; [left; reflexivity|exact H].
  - destruct (flat_lf_in ls c H) as [E|(l0 & Hl & Hc)]; [left; exact E|right; exists l0; split; [right; exact Hl|exact Hc]].
Qed.

Lemma block_model_chars raw c : In c (BlockString.block_string_model raw) -> c = 10 \/ In c raw.
Proof.
  unfold BlockString.block_string_model. intros H.
  apply join_lf_in in H. destruct H as [E|(l & Hl & Hc)]; [left; exact E|right].
  unfold BlockString.pop_blank_back in Hl. apply in_rev in Hl. apply pop_front_in in Hl. apply in_rev in Hl.
  apply pop_front_in in Hl.
  assert (Hsrc : forall l0, In l0 (BlockString.split_lines raw) -> In c l0 -> In c raw).
  { intros l0 H0 Hc0. destruct (split_lines_acc_in raw [] l0 c H0 Hc0) as [[]|H]. exact H. }
  destruct (BlockString.split_lines raw) as [|first rest] eqn:El; [destruct Hl|].
  destruct (BlockString.common_indent rest) as [n|].
  - destruct Hl as [<-|Hl]; [apply (Hsrc first); simpl; auto|].
    apply in_map_iff in Hl. destruct Hl as (l0 & <- & Hl0). apply (Hsrc l0); [simpl; auto|].
    eapply in_skipn. exact Hc.
  - apply (Hsrc l); assumption.
Qed.

Lemma Token_tok_wf F lexeme rest k v a b : Token F lexeme rest k v -> tok_wf (PTok k v a b).
Proof.
  intros H. unfold tok_wf. simpl.
  destruct H as [c k rest Hp|rest|c cs rest Hc Hcs Hh|l rest Hi Hf|l rest Hfl Hf|raw v rest Hb Hn|body raw rest Hb].
  - split; [|split; [|split]]; intros E; destruct Hp; discriminate.
  - split; [|split; [|split]]; discriminate.
  - split; [|split; [|split]]; try discriminate.
    intros _. exists c, cs. split; [reflexivity|]. split; [apply is_name_start_spec; exact Hc|].
    apply Forall_name_cont. exact Hcs.
  - split; [|split; [|split]]; try discriminate. intros _. exact Hi.
  - split; [|split; [|split]]; try discriminate. intros _. exact Hfl.
  - split; [|split; [|split]]; discriminate.
  - split; [|split; [|split]]; try discriminate. intros _. split.
    + rewrite block_string_value_specs_agree. apply block_string_value_canon.
    + intros c Hc. rewrite <- block_string_model_correct in Hc. apply block_model_chars in Hc.
      destruct Hc as [->|Hc]; [unfold SourceCharacter; lia|].
      pose proof (block_scan_source _ _ _ Hb) as Hs. rewrite Forall_forall in Hs. apply Hs. exact Hc.
Qed.

Lemma lexes_from_tok_wf F txt pos ts : lexes_from F txt pos ts -> Forall tok_wf ts.
Proof.
  induction 1 as [ign pos Hi|ign lexeme rest k v ts pos Hi Htok Hl IH].
  - constructor; [|constructor]. unfold tok_wf; simpl. split; [|split; [|split]]; discriminate.
  - constructor; [eapply Token_tok_wf; eassumption|exact IH].
Qed.

Lemma lex_tok_wf s ts : lex s = Ok ts -> Forall tok_wf ts.
Proof.
  intros H. apply lex_lexes_slack in H. destruct H as (ts' & -> & Hl).
  constructor; [unfold tok_wf; simpl; split; [|split; [|split]]; discriminate|eapply lexes_from_tok_wf; exact Hl].
Qed.

(* ---- derivations over well-formed tokens give well-formed trees ---- *)
Notation twf := (Forall tok_wf).

Lemma twf_app a b : twf (a ++ b) <-> twf a /\ twf b.
Proof. apply Forall_app. Qed.

Lemma twf_cons t r : twf (t :: r) <-> tok_wf t /\ twf r.
Proof. split; [intros H; inversion H; auto|intros [H1 H2]; constructor; auto]. Qed.

Ltac twf_split :=
  repeat match goal with
         | H : twf (_ ++ _) |- _ => apply twf_app in H; destruct H
         | H : twf (_ :: _) |- _ => apply twf_cons in H; destruct H
         end.

Lemma tok_name t : tok_wf t -> tk t = KName -> valid_name (tval t).
Proof. intros (H & _) K. auto. Qed.

Lemma D_list_wf {A} (R : list ptok -> A -> Prop) (Q : A -> Prop) ts xs :
  D_list R ts xs -> (forall ts x, R ts x -> twf ts -> Q x) -> twf ts -> Forall Q xs.
Proof.
  intros Hl HR. induction Hl as [|ts x ts' xs Hx Hxs IH]; intros Ht; [constructor|].
  apply twf_app in Ht. destruct Ht. constructor; eauto.
Qed.

Section Wf.
Variable nl : bool.

Lemma D_type_wf ts t : D_type nl ts t -> twf ts -> wf_ty t.
Proof.
  induction 1 as [t Hk|o ts c inner Ho Hc Hd IH|ts b inner Hb Hd IH Hnn]; intros Ht; simpl.
  - twf_split. apply tok_name; assumption.
  - twf_split. auto.
  - twf_split. auto.
Qed.

Lemma D_value_wf_all :
  (forall c ts v, D_value nl c ts v -> twf ts -> wf_value c v)
  /\ (forall c ts vs, D_values nl c ts vs -> twf ts -> wf_value c (VList vs None))
  /\ (forall c ts fs, D_fields nl c ts fs -> twf ts -> wf_value c (VObject fs None)).
Proof.
  apply (D_value_mutind nl
    (fun c ts v => twf ts -> wf_value c v)
    (fun c ts vs => twf ts -> wf_value c (VList vs None))
    (fun c ts fs => twf ts -> wf_value c (VObject fs None))); intros; twf_split; simpl.
  - split; [reflexivity|apply tok_name; assumption].
  - match goal with Hw : tok_wf ?t |- _ => destruct Hw as (_ & Hi & _); auto end.
  - match goal with Hw : tok_wf ?t |- _ => destruct Hw as (_ & _ & Hf & _); auto end.
  - exact I.
  - match goal with Hw : tok_wf ?t |- _ => destruct Hw as (_ & _ & _ & Hb); auto end.
  - exact I.
  - exact I.
  - exact I.
  - split; [apply tok_name; assumption|assumption].
  - match goal with IH : twf ?ts -> wf_value _ (VList _ _) |- _ => apply IH; assumption end.
  - match goal with IH : twf ?ts -> wf_value _ (VObject _ _) |- _ => apply IH; assumption end.
  - exact I.
  - split; [auto|].
    match goal with IH : twf ?x -> wf_value _ (VList _ _), Ht : twf ?x |- _ => exact (IH Ht) end.
  - exact I.
  - split; [apply tok_name; assumption|]. split; [auto|].
    match goal with IH : twf ?x -> wf_value _ (VObject _ _), Ht : twf ?x |- _ => exact (IH Ht) end.
Qed.

Lemma D_value_wf c ts v : D_value nl c ts v -> twf ts -> wf_value c v.
Proof. apply (proj1 D_value_wf_all). Qed.

Lemma D_argument_wf c ts a : D_argument nl c ts a -> twf ts -> wf_arg c a.
Proof.
  intros [t colon vts v Kt Kc Dv] Ht. twf_split. split; simpl; [apply tok_name; assumption|].
  eapply D_value_wf; eassumption.
Qed.

Lemma D_arguments_wf c ts args : D_arguments nl c ts args -> twf ts -> Forall (wf_arg c) args.
Proof.
  intros [|o body cl args0 Ko Kc Hl Hne] Ht; [constructor|]. twf_split.
  eapply D_list_wf; [exact Hl|intros; eapply D_argument_wf; eassumption|assumption].
Qed.

Lemma D_directive_wf c ts d : D_directive nl c ts d -> twf ts -> wf_dir c d.
Proof.
  intros [a t ats args Ka Kt Da] Ht. twf_split. split; simpl; [apply tok_name; assumption|].
  eapply D_arguments_wf; eassumption.
Qed.

Lemma D_directives_wf c ts ds : D_directives nl c ts ds -> twf ts -> Forall (wf_dir c) ds.
Proof. intros Hd Ht. eapply D_list_wf; [exact Hd|intros; eapply D_directive_wf; eassumption|assumption]. Qed.

Lemma all_of_forall sub : Forall wf_sel sub ->
  (fix all (l : list selection) : Prop :=
     match l with [] => True | x :: l' => wf_sel x /\ all l' end) sub.
Proof. induction 1; simpl; auto. Qed.

Lemma D_selection_wf_all :
  (forall ts s, D_selection nl ts s -> twf ts -> wf_sel s)
  /\ (forall ts sl sub, D_opt_selection_set nl ts sl sub -> twf ts ->
        match sl with Some _ => sub <> [] | None => sub = [] end /\ Forall wf_sel sub)
  /\ (forall ts ss, D_selections nl ts ss -> twf ts -> Forall wf_sel ss).
Proof.
  apply (D_selection_mutind nl
    (fun ts s => twf ts -> wf_sel s)
    (fun ts sl sub => twf ts -> match sl with Some _ => sub <> [] | None => sub = [] end /\ Forall wf_sel sub)
    (fun ts ss => twf ts -> Forall wf_sel ss)).
  - intros ats al nt argts args dts dirs ssts sl sub Dal Kn Da Dd Dss IH Ht. twf_split.
    destruct (IH ltac:(assumption)) as [Hsl Hsub]. simpl.
    split; [|split; [apply tok_name; assumption|split; [eapply D_arguments_wf; eassumption|
            split; [eapply D_directives_wf; eassumption|split; [exact Hsl|apply all_of_forall; exact Hsub]]]]].
    destruct Dal as [|a colon Ka Kc]; [exact I|]. simpl. twf_split. apply tok_name; assumption.
  - intros e nt dts dirs Ke Kn Hon Dd Ht. twf_split. simpl.
    split; [apply tok_name; assumption|split; [exact Hon|eapply D_directives_wf; eassumption]].
  - intros e tcts tc dts dirs o body cl sub Ke Dtc Dd Ko Kc Dsub IH Hne Ht. twf_split. simpl.
    split; [|split; [eapply D_directives_wf; eassumption|split; [exact Hne|apply all_of_forall; auto]]].
    destruct Dtc as [|on tn _ Ktn]; [exact I|]. simpl. twf_split. apply tok_name; assumption.
  - intros _. split; [reflexivity|constructor].
  - intros o body cl sub Ko Kc Dsub IH Hne Ht. twf_split. split; [exact Hne|auto].
  - intros _. constructor.
  - intros ts s ts' ss Ds IHs Dss IHss Ht. twf_split. constructor; auto.
Qed.

Lemma D_selection_set_wf ts sels l : D_selection_set nl ts sels l -> twf ts -> sels <> [] /\ Forall wf_sel sels.
Proof.
  intros [o body cl sub Ko Kc Ds Hne] Ht. twf_split. split; [exact Hne|].
  apply (proj2 (proj2 D_selection_wf_all) _ _ Ds). assumption.
Qed.

Lemma D_variable_definition_wf ts vd : D_variable_definition nl ts vd -> twf ts -> wf_vardef vd.
Proof.
  intros [d nm colon tyts t defts dv dts dirs Kd Kn Kc Dt Ddef Dd] Ht. twf_split. unfold wf_vardef. simpl.
  split; [apply tok_name; assumption|]. split; [eapply D_type_wf; eassumption|].
  split; [|eapply D_directives_wf; eassumption].
  destruct Ddef as [|eq vts v Ke Dv]; [exact I|]. twf_split. eapply D_value_wf; eassumption.
Qed.

Lemma D_variable_definitions_wf ts vds : D_variable_definitions nl ts vds -> twf ts -> Forall wf_vardef vds.
Proof.
  intros [|o body cl vds0 Ko Kc Hl Hne] Ht; [constructor|]. twf_split.
  eapply D_list_wf; [exact Hl|intros; eapply D_variable_definition_wf; eassumption|assumption].
Qed.

Lemma D_executable_definition_wf fv ts d : D_executable_definition nl fv ts d -> twf ts -> wf_def fv d.
Proof.
  intros [ts0 d0 Do|ts0 d0 Df] Ht.
  - destruct Do as [ts1 sels l Dss|k kind nts nm vdts vds dts dirs ssts sels ssl Dk Dn Dv Dd Dss].
    + destruct (D_selection_set_wf _ _ _ Dss Ht) as [Hne Hs]. simpl.
      split; [exact I|split; [constructor|split; [constructor|split; assumption]]].
    + twf_split. destruct (D_selection_set_wf _ _ _ Dss ltac:(assumption)) as [Hne Hs]. simpl.
      split; [|split; [eapply D_variable_definitions_wf; eassumption|
              split; [eapply D_directives_wf; eassumption|split; assumption]]].
      destruct Dn as [|n1 Kn1]; [exact I|]. twf_split. simpl. apply tok_name; assumption.
  - destruct Df as [f nm vdts vds o tcn dts dirs ssts sels ssl Wf Kn Hon Dv Wo Ktc Dd Dss].
    twf_split. destruct (D_selection_set_wf _ _ _ Dss ltac:(assumption)) as [Hne Hs]. simpl.
    split; [apply tok_name; assumption|]. split; [exact Hon|].
    split; [destruct fv; [eapply D_variable_definitions_wf; eassumption|destruct Dv; assumption]|].
    split; [eexists _, _; split; [reflexivity|simpl; apply tok_name; assumption]|].
    split; [eapply D_directives_wf; eassumption|split; assumption].
Qed.

Lemma tsd_not_exec ts d : D_type_system_definition nl ts d -> ~ exec_def d.
Proof. intros H; destruct H; simpl; auto. Qed.

Lemma tse_not_exec ts d : D_type_system_extension nl ts d -> ~ exec_def d.
Proof. intros H; destruct H; simpl; auto. Qed.

Lemma D_document_wf fv en ts d : D_document nl fv en ts d -> exec_only d -> twf ts -> wf_exec_doc fv d.
Proof.
  intros [sof body eof defs Ks Ke Hl Hne] Hex Ht. unfold wf_exec_doc, exec_only in *. simpl in *.
  split; [exact Hne|]. twf_split.
  match goal with Hb : twf body |- _ => revert Hb end. clear -Hl Hex.
  induction Hl as [|ts x ts' xs Hx Hxs IH]; intros Hb; [constructor|].
  inversion Hex; subst. apply twf_app in Hb. destruct Hb as [Hb1 Hb2]. constructor; [|apply IH; assumption].
  destruct Hx as [ts0 d0 He|ts0 d0 _ Htd|ts0 d0 _ Hte].
  - eapply D_executable_definition_wf; eassumption.
  - exfalso. eapply tsd_not_exec; eassumption.
  - exfalso. eapply tse_not_exec; eassumption.
Qed.

End Wf.

Theorem parse_output_wf fl s d :
  parse_document fl s = Ok d -> exec_only d -> wf_exec_doc (fragment_variables fl) d.
Proof.
  intros H Hex. destruct (parse_document_sound_full fl s d H) as (ts & Hl & Dd).
  eapply D_document_wf; [exact Dd|exact Hex|]. eapply lex_tok_wf; exact Hl.
Qed.

(* ---- the predicate ignores locations ---- *)
Lemma wf_ty_strip t : wf_ty t -> wf_ty (strip_ty t).
Proof.
  induction t as [n l|t IH l|t IH l]; simpl; auto. intros [H1 H2]. split; [auto|].
  destruct t; simpl in *; auto.
Qed.

Lemma wf_value_strip cst : forall v, wf_value cst v -> wf_value cst (strip_value v).
Proof.
  fix IH 1. intros v. destruct v as [n l|s l|s l|s b l|b l|l|s l|vs l|fs l]; simpl; auto.
  - induction vs as [|x vs IHvs]; simpl; [auto|]. intros [H1 H2]. split; [apply IH; exact H1|apply IHvs; exact H2].
  - induction fs as [|[[nm x] fl0] fs IHfs]; simpl; [auto|]. intros (H1 & H2 & H3).
    split; [exact H1|split; [apply IH; exact H2|apply IHfs; exact H3]].
Qed.

Lemma wf_arg_strip cst a : wf_arg cst a -> wf_arg cst (strip_arg a).
Proof. intros [H1 H2]. split; simpl; [exact H1|apply wf_value_strip; exact H2]. Qed.

Lemma Forall_map_strip {A} (P : A -> Prop) (f : A -> A) l : (forall x, P x -> P (f x)) -> Forall P l -> Forall P (map f l).
Proof. intros Hf H. induction H; simpl; constructor; auto. Qed.

Lemma wf_dir_strip cst d : wf_dir cst d -> wf_dir cst (strip_dir d).
Proof. intros [H1 H2]. split; simpl; [exact H1|apply Forall_map_strip; [apply wf_arg_strip|exact H2]]. Qed.

Lemma wf_sel_strip : forall s, wf_sel s -> wf_sel (strip_sel s).
Proof.
  fix IH 1. intros s. destruct s as [al nm args dirs sl sub l|nm dirs l|tc dirs ssl sub l]; simpl.
  - intros (H1 & H2 & H3 & H4 & H5 & H6).
    split; [destruct al; simpl; auto|]. split; [exact H2|].
    split; [apply Forall_map_strip; [apply wf_arg_strip|exact H3]|].
    split; [apply Forall_map_strip; [apply wf_dir_strip|exact H4]|].
    split; [destruct sl; simpl; [destruct sub; [congruence|discriminate]|subst sub; reflexivity]|].
    clear -IH H6. induction sub as [|x sub IHsub]; simpl; [exact I|]. destruct H6 as [Hx Hs].
    split; [apply IH; exact Hx|apply IHsub; exact Hs].
  - intros (H1 & H2 & H3). split; [exact H1|split; [exact H2|apply Forall_map_strip; [apply wf_dir_strip|exact H3]]].
  - intros (H1 & H2 & H3 & H4).
    split; [destruct tc as [[n0 l0|t0 l0|t0 l0]|]; simpl in *; auto|].
    split; [apply Forall_map_strip; [apply wf_dir_strip|exact H2]|].
    split; [destruct sub; [congruence|discriminate]|].
    clear -IH H4. induction sub as [|x sub IHsub]; simpl; [exact I|]. destruct H4 as [Hx Hs].
    split; [apply IH; exact Hx|apply IHsub; exact Hs].
Qed.

Lemma wf_vardef_strip v : wf_vardef v -> wf_vardef (strip_var_def v).
Proof.
  intros (H1 & H2 & H3 & H4). unfold wf_vardef. simpl.
  split; [exact H1|split; [apply wf_ty_strip; exact H2|split; [|apply Forall_map_strip; [apply wf_dir_strip|exact H4]]]].
  destruct (vd_default v); simpl; [apply wf_value_strip; exact H3|exact I].
Qed.

Lemma map_nonempty {A B} (f : A -> B) l : l <> [] -> map f l <> [].
Proof. destruct l; [congruence|discriminate]. Qed.

Lemma wf_def_strip fv d : wf_def fv d -> wf_def fv (strip_def d).
Proof.
  destruct d; simpl; try tauto.
  - intros (H1 & H2 & H3 & H4 & H5).
    split; [destruct n; simpl; auto|]. split; [apply Forall_map_strip; [apply wf_vardef_strip|exact H2]|].
    split; [apply Forall_map_strip; [apply wf_dir_strip|exact H3]|].
    split; [apply map_nonempty; exact H4|apply Forall_map_strip; [apply wf_sel_strip|exact H5]].
  - intros (H1 & H2 & H3 & (tn & l0 & -> & H4) & H5 & H6 & H7).
    split; [exact H1|]. split; [exact H2|].
    split; [destruct fv; [apply Forall_map_strip; [apply wf_vardef_strip|exact H3]|subst; reflexivity]|].
    split; [eexists _, _; split; [reflexivity|exact H4]|].
    split; [apply Forall_map_strip; [apply wf_dir_strip|exact H5]|].
    split; [apply map_nonempty; exact H6|apply Forall_map_strip; [apply wf_sel_strip|exact H7]].
Qed.

Lemma wf_exec_doc_strip fv d : wf_exec_doc fv d -> wf_exec_doc fv (strip_doc d).
Proof.
  intros [H1 H2]. unfold wf_exec_doc, strip_doc. simpl.
  split; [apply map_nonempty; exact H1|apply Forall_map_strip; [apply wf_def_strip|exact H2]].
Qed.

Theorem parse_output_wf_strip fl s d :
  parse_document fl s = Ok d -> exec_only d -> wf_exec_doc (fragment_variables fl) (strip_doc d).
Proof. intros H Hex. apply wf_exec_doc_strip. eapply parse_output_wf; eassumption. Qed.
