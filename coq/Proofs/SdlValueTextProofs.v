(* C12, defaults at the text level: the literal [node_of_value] emits for a
   default value is one the AST printer round trip of C03 covers
   (wf_value), it has no locations, no line feed, and the schema printer's
   text for it is the AST printer's. *)
From PyGql Require Import Lang.PrinterModel Spec.PrinterSpec Lang.Parser Spec.LexSpec Spec.GrammarSpec
                          Proofs.PrinterProofs Proofs.PrinterRoundtrip Proofs.PrinterValueRoundtrip Proofs.PrinterExecRoundtrip.
From PyGql Require Import Schema.SdlSchema Schema.SdlBuild Schema.SdlPrint Spec.SdlRoundtripSpec Proofs.SdlPrintProofs.
From Coq Require Import Lia ZArith.

Notation vname := PrinterRoundtrip.valid_name.

(* ---- number texts ------------------------------------------------------ *)
Lemma digit_spec c : SdlBuild.is_digit c = true -> Digit c.
Proof. unfold SdlBuild.is_digit, Digit. intros H. apply andb_prop in H. destruct H as [H1 H2]. apply N.leb_le in H1, H2. lia. Qed.

Lemma all_digits_spec s : all_digits s = true -> Forall Digit s.
Proof.
  unfold all_digits. induction s as [|c s IH]; intros H; [constructor|]. cbn [forallb] in H.
  apply andb_prop in H. destruct H as [H1 H2]. constructor; [apply digit_spec; exact H1|apply IH; exact H2].
Qed.

Definition uip_re (body : str) : bool :=
  match body with
  | [48%N] => true
  | c :: r => SdlBuild.is_digit c && negb (c =? 48)%N && all_digits r
  | [] => false
  end.

Lemma uip_re_spec body : uip_re body = true -> UnsignedIntegerPart body.
Proof.
  unfold uip_re. destruct body as [|c r]; [discriminate|].
  destruct (N.eq_dec c 48) as [->|Hc].
  - destruct r; [intros _; constructor|]. cbn. discriminate.
  - assert (Hm : (match c with 48%N => match r with [] => true | _ :: _ => SdlBuild.is_digit c && negb (c =? 48)%N && all_digits r end
                              | _ => SdlBuild.is_digit c && negb (c =? 48)%N && all_digits r end)
                 = SdlBuild.is_digit c && negb (c =? 48)%N && all_digits r).
    { destruct c as [|p]; [reflexivity|]. do 6 (destruct p as [p|p|]; try reflexivity). congruence. }
    intros H. rewrite Hm in H. apply andb_prop in H. destruct H as [H Hr]. apply andb_prop in H. destruct H as [Hd _].
    apply UIP_nz; [|apply all_digits_spec; exact Hr]. apply digit_spec in Hd. unfold Digit, NonZeroDigit in *. lia.
Qed.

Lemma int_re_uip s : int_re s = uip_re (match s with 45%N :: r => r | _ => s end).
Proof. reflexivity. Qed.

Lemma int_re_spec s : int_re s = true -> IntValue s.
Proof.
  rewrite int_re_uip. intros H. unfold IntValue.
  destruct s as [|c r]; [discriminate|]. destruct (N.eq_dec c 45) as [->|Hc].
  - apply IP_neg. apply uip_re_spec. exact H.
  - apply IP_pos. apply uip_re_spec.
    destruct c as [|p]; [exact H|]. do 6 (destruct p as [p|p|]; try exact H). congruence.
Qed.

(* span_digits *)
Lemma span_digits_spec s : forall a b, span_digits s = (a, b) -> s = a ++ b /\ Forall Digit a
  /\ match b with c :: _ => SdlBuild.is_digit c = false | [] => True end.
Proof.
  induction s as [|c s IH]; intros a b H; cbn [span_digits] in H.
  - inversion H. repeat split. constructor.
  - destruct (SdlBuild.is_digit c) eqn:Hc.
    + destruct (span_digits s) as [a' b'] eqn:Hs. inversion H; subst. destruct (IH a' b eq_refl) as (E & F & T).
      repeat split; [cbn; f_equal; exact E|constructor; [apply digit_spec; exact Hc|exact F]|exact T].
    + inversion H; subst. repeat split; [constructor|exact Hc].
Qed.

Lemma exp_part_spec s : exp_part s = true -> ExponentPart s.
Proof.
  unfold exp_part. destruct s as [|c r]; [discriminate|]. intros H. apply andb_prop in H. destruct H as [Hc Hr].
  assert (He : c = 101%N \/ c = 69%N).
  { apply Bool.orb_true_iff in Hc. destruct Hc as [Hc|Hc]; apply N.eqb_eq in Hc; auto. }
  destruct r as [|x y]; [discriminate|].
  destruct ((x =? 43)%N || (x =? 45)%N) eqn:Hx.
  - assert (Hs : [x] = [43%N] \/ [x] = [45%N]).
    { apply Bool.orb_true_iff in Hx. destruct Hx as [Hx|Hx]; apply N.eqb_eq in Hx; subst; auto. }
    destruct y as [|y0 y']; [discriminate|].
    change (c :: x :: y0 :: y') with (c :: [x] ++ (y0 :: y')). apply EP; [exact He|tauto|].
    split; [discriminate|apply all_digits_spec; exact Hr].
  - change (c :: x :: y) with (c :: [] ++ (x :: y)). apply EP; [exact He|tauto|].
    split; [discriminate|apply all_digits_spec; exact Hr].
Qed.

Lemma uip_of_span ip :
  Forall Digit ip ->
  match ip with [48%N] => true | c :: _ => negb (c =? 48)%N | [] => false end = true ->
  UnsignedIntegerPart ip.
Proof.
  intros F H. destruct ip as [|c r]; [discriminate|]. inversion F as [|? ? Hc Hr]; subst.
  destruct (N.eq_dec c 48) as [->|Hne].
  - destruct r; [constructor|]. cbn in H. discriminate.
  - apply UIP_nz; [|exact Hr]. unfold Digit, NonZeroDigit in *. lia.
Qed.

Lemma float_re_spec s : float_re s = true -> FloatValue s.
Proof.
  unfold float_re.
  remember (match s with 45%N :: r => r | _ => s end) as body eqn:Hbody.
  destruct (span_digits body) as [ip rest] eqn:Hsp. destruct (span_digits_spec body ip rest Hsp) as (Eb & Fip & _).
  intros H. apply andb_prop in H. destruct H as [Hip Hrest].
  pose proof (uip_of_span ip Fip Hip) as Uip.
  assert (Hs : exists sign, s = sign ++ body /\ IntegerPart (sign ++ ip)).
  { destruct s as [|c r]; [exists []; split; [rewrite Hbody; reflexivity|apply IP_pos; exact Uip]|].
    destruct (N.eq_dec c 45) as [->|Hc].
    - exists [45%N]. split; [rewrite Hbody; reflexivity|apply IP_neg; exact Uip].
    - exists []. split; [|apply IP_pos; exact Uip]. rewrite Hbody.
      destruct c as [|p]; [reflexivity|]. do 6 (destruct p as [p|p|]; try reflexivity). congruence. }
  clear Hbody. destruct Hs as (sign & -> & IPs). rewrite Eb.
  assert (Hcase : (exists r, rest = 46%N :: r) \/ (exp_part rest = true /\ forall r, rest <> 46%N :: r)).
  { destruct rest as [|c r]; [right; split; [exact Hrest|discriminate]|].
    destruct (N.eq_dec c 46) as [->|Hc]; [left; eexists; reflexivity|]. right. split; [|congruence].
    destruct c as [|p]; [exact Hrest|]. do 6 (destruct p as [p|p|]; try exact Hrest). congruence. }
  destruct Hcase as [[r ->]|[He _]].
  - destruct (span_digits r) as [fp rest'] eqn:Hf. destruct (span_digits_spec r fp rest' Hf) as (Er & Ffp & _).
    apply andb_prop in Hrest. destruct Hrest as [Hfp Hex].
    assert (FPp : FractionalPart (46%N :: fp)).
    { apply FP. split; [destruct fp; [discriminate|discriminate]|exact Ffp]. }
    rewrite Er. destruct rest' as [|c r'].
    + rewrite app_nil_r, app_assoc. change (46%N :: fp) with ([46%N] ++ fp). rewrite <- (app_assoc sign).
      change ([46%N] ++ fp) with (46%N :: fp). rewrite app_assoc. apply FV_frac; assumption.
    + replace (sign ++ ip ++ 46%N :: fp ++ c :: r') with ((sign ++ ip) ++ (46%N :: fp) ++ (c :: r'))
        by (rewrite <- !app_assoc; reflexivity).
      apply FV_frac_exp; [assumption|assumption|apply exp_part_spec; exact Hex].
  - rewrite app_assoc. apply FV_exp; [exact IPs|apply exp_part_spec; exact He].
Qed.

(* str(int) *)
Local Open Scope Z_scope.

Lemma digit_char d : 0 <= d < 10 -> Digit (N.add 48 (Z.to_N d)).
Proof. intros H. unfold Digit. lia. Qed.

Lemma digits_pos_shape fuel : forall z acc,
  1 <= z < 2 ^ Z.of_nat fuel ->
  exists d ds, Z_digits_pos fuel z acc = d :: ds ++ acc /\ NonZeroDigit d /\ Forall Digit ds.
Proof.
  induction fuel as [|f IH]; intros z acc Hz.
  - simpl in Hz. lia.
  - cbn [Z_digits_pos]. destruct (z <? 10) eqn:Hlt.
    + apply Z.ltb_lt in Hlt. exists (N.add 48 (Z.to_N z)), []. split; [reflexivity|]. split; [unfold NonZeroDigit; lia|constructor].
    + apply Z.ltb_ge in Hlt.
      assert (Hs : 2 ^ Z.of_nat (S f) = 2 * 2 ^ Z.of_nat f).
      { rewrite Nat2Z.inj_succ, Z.pow_succ_r by lia. reflexivity. }
      assert (Hdiv : 1 <= z / 10 < 2 ^ Z.of_nat f).
      { split; [apply Z.div_le_lower_bound; lia|]. apply Z.div_lt_upper_bound; lia. }
      destruct (IH (z / 10) (N.add 48 (Z.to_N (z mod 10)) :: acc) Hdiv) as (d & ds & E & Hd & Hds).
      exists d, (ds ++ [N.add 48 (Z.to_N (z mod 10))]). rewrite E, <- app_assoc. split; [reflexivity|]. split; [exact Hd|].
      apply Forall_app; split; [exact Hds|]. constructor; [|constructor]. apply digit_char. apply Z.mod_pos_bound. lia.
Qed.

Lemma str_of_Z_int z : IntValue (str_of_Z z).
Proof.
  unfold IntValue, str_of_Z. set (a := Z.abs z).
  assert (U : UnsignedIntegerPart (Z_digits_pos (S (Z.to_nat (Z.log2 a))) a [])).
  { destruct (Z.eq_dec a 0) as [Ha|Ha].
    - rewrite Ha. cbn. constructor.
    - assert (Hpos : 0 < a) by (unfold a in *; lia).
      destruct (digits_pos_shape (S (Z.to_nat (Z.log2 a))) a []) as (d & ds & E & Hd & Hds).
      { split; [lia|]. pose proof (Z.log2_spec a Hpos) as [_ H]. pose proof (Z.log2_nonneg a).
        rewrite Nat2Z.inj_succ, Z2Nat.id by lia. exact H. }
      rewrite E, app_nil_r. apply UIP_nz; assumption. }
  destruct (z <? 0); [apply IP_neg|apply IP_pos]; exact U.
Qed.

Lemma str_of_Z_float z : FloatValue (str_of_Z z ++ lit ".0").
Proof.
  change (lit ".0") with (46%N :: [48%N]). apply FV_frac; [apply str_of_Z_int|]. apply FP. split; [discriminate|].
  constructor; [unfold Digit; lia|constructor].
Qed.
Local Close Scope Z_scope.

(* ---- literals the schema printer can emit ------------------------------ *)
Fixpoint good_value (v : value) : Prop :=
  match v with
  | VVar _ _ => False
  | VInt s l => IntValue s /\ l = None
  | VFloat s l => (int_re s = true \/ (int_re s = false /\ FloatValue s)) /\ l = None
  | VString s b l => b = false /\ l = None
  | VBool _ l => l = None
  | VNull l => l = None
  | VEnum s l => (vname s /\ ~ is_reserved s) /\ l = None
  | VList vs l => l = None /\
      (fix all (xs : list value) : Prop := match xs with [] => True | x :: r => good_value x /\ all r end) vs
  | VObject fs l => l = None /\
      (fix all (xs : list (name * value * loc)) : Prop :=
         match xs with
         | [] => True
         | f :: r => (vname (n_val (fst (fst f))) /\ n_loc (fst (fst f)) = None /\ snd f = None)
                     /\ good_value (snd (fst f)) /\ all r
         end) fs
  end.

Lemma good_list vs l : good_value (VList vs l) <-> l = None /\ Forall good_value vs.
Proof.
  cbn [good_value]. split; intros [Hl H]; (split; [exact Hl|]).
  - induction vs as [|x r IH]; [constructor|]. destruct H as [Hx Hr]. constructor; [exact Hx|apply IH; exact Hr].
  - induction H as [|x r Hx _ IH]; [exact I|]. split; assumption.
Qed.

Definition good_field (f : name * value * loc) : Prop :=
  (vname (n_val (fst (fst f))) /\ n_loc (fst (fst f)) = None /\ snd f = None) /\ good_value (snd (fst f)).

Lemma good_object fs l : good_value (VObject fs l) <-> l = None /\ Forall good_field fs.
Proof.
  cbn [good_value]. split; intros [Hl H]; (split; [exact Hl|]).
  - induction fs as [|x r IH]; [constructor|]. destruct H as (Hx & Hv & Hr). constructor; [split; assumption|apply IH; exact Hr].
  - induction H as [|x r [Hx Hv] _ IH]; [exact I|]. repeat split; try assumption; apply Hx.
Qed.

Lemma relex_list vs l : relex (VList vs l) = VList (map relex vs) l.
Proof. reflexivity. Qed.

Lemma relex_object fs l :
  relex (VObject fs l) = VObject (map (fun f => (fst (fst f), relex (snd (fst f)), snd f)) fs) l.
Proof.
  cbn [relex]. f_equal. induction fs as [|[[k x] lf] r IH]; [reflexivity|]. cbn [map fst snd]. rewrite <- IH. reflexivity.
Qed.

Lemma wf_list_intro cst vs l : Forall (wf_value cst) vs -> wf_value cst (VList vs l).
Proof. cbn [wf_value]. induction 1 as [|x r Hx _ IH]; [exact I|]. split; assumption. Qed.

Lemma wf_object_intro cst fs l :
  Forall (fun f : name * value * loc => vname (n_val (fst (fst f))) /\ wf_value cst (snd (fst f))) fs ->
  wf_value cst (VObject fs l).
Proof. cbn [wf_value]. induction 1 as [|x r [Hx Hv] _ IH]; [exact I|]. repeat split; assumption. Qed.

Lemma good_wf v : good_value v -> wf_value true (relex v).
Proof.
  induction v using value_ind'; intros G.
  - destruct G.
  - destruct G as [G _]. exact G.
  - destruct G as [[G|[G1 G2]] _]; cbn [relex]; [rewrite G; cbn [wf_value]; apply int_re_spec; exact G|].
    rewrite G1. exact G2.
  - destruct G as [-> _]. exact I.
  - exact I.
  - exact I.
  - destruct G as [G _]. exact G.
  - apply good_list in G. destruct G as [_ G]. rewrite relex_list. apply wf_list_intro.
    apply Forall_forall. intros y Hy. apply in_map_iff in Hy. destruct Hy as (x & <- & Hx).
    rewrite Forall_forall in H, G. apply H; [exact Hx|apply G; exact Hx].
  - apply good_object in G. destruct G as [_ G]. rewrite relex_object. apply wf_object_intro.
    apply Forall_forall. intros y Hy. apply in_map_iff in Hy. destruct Hy as (x & <- & Hx).
    rewrite Forall_forall in H, G. destruct (G x Hx) as [(Hn & _) Hv]. cbn [fst snd]. split; [exact Hn|apply H; assumption].
Qed.

Lemma good_strip v : good_value v -> strip_value (relex v) = relex v.
Proof.
  induction v using value_ind'; intros G.
  - destruct G.
  - destruct G as [_ ->]. reflexivity.
  - destruct G as [_ ->]. cbn [relex]. destruct (int_re s); reflexivity.
  - destruct G as [_ ->]. reflexivity.
  - cbn in G. rewrite G. reflexivity.
  - cbn in G. rewrite G. reflexivity.
  - destruct G as [_ ->]. reflexivity.
  - apply good_list in G. destruct G as [-> G]. rewrite relex_list. cbn [strip_value]. f_equal. rewrite map_map.
    apply map_ext_in. intros x Hx. rewrite Forall_forall in H, G. apply H; [exact Hx|apply G; exact Hx].
  - apply good_object in G. destruct G as [-> G]. rewrite relex_object. cbn [strip_value]. f_equal. rewrite map_map.
    apply map_ext_in. intros x Hx. rewrite Forall_forall in H, G. destruct (G x Hx) as [(_ & Hl & Hs) Hv].
    destruct x as [[k y] lf]. pose proof (H _ Hx Hv) as Hy. cbn [fst snd] in *. subst lf. rewrite Hy.
    destruct k as [kn kl]. cbn in Hl. subst kl. reflexivity.
Qed.

(* the text does not depend on the printer's indent (no block strings), nor on relex *)
Lemma good_print cf cf' v : good_value v -> pr_value cf (relex v) = pr_value cf' v.
Proof.
  induction v using value_ind'; intros G.
  - destruct G.
  - reflexivity.
  - cbn [relex]. destruct (int_re s); reflexivity.
  - destruct G as [-> _]. reflexivity.
  - reflexivity.
  - reflexivity.
  - reflexivity.
  - apply good_list in G. destruct G as [_ G]. rewrite relex_list. cbn [pr_value]. rewrite map_map. do 2 f_equal.
    f_equal. apply map_ext_in. intros x Hx. rewrite Forall_forall in H, G. apply H; [exact Hx|apply G; exact Hx].
  - apply good_object in G. destruct G as [_ G]. rewrite relex_object. cbn [pr_value]. rewrite map_map. do 2 f_equal.
    f_equal. apply map_ext_in. intros x Hx. rewrite Forall_forall in H, G. destruct (G x Hx) as [_ Hv].
    cbn [fst snd]. rewrite (H _ Hx Hv). reflexivity.
Qed.

Lemma int_no_dot s : IntegerPart s -> ~ In 46%N s.
Proof.
  assert (Hd : forall u, UnsignedIntegerPart u -> ~ In 46%N u).
  { intros u Hu Hin. assert (F : Forall Digit u).
    { inversion Hu; subst; constructor; auto; unfold Digit, NonZeroDigit in *; lia. }
    rewrite Forall_forall in F. specialize (F _ Hin). unfold Digit in F. lia. }
  intros H Hin. inversion H as [u Hu|u Hu]; subst.
  - exact (Hd _ Hu Hin).
  - destruct Hin as [Hl|Hl]; [discriminate|exact (Hd _ Hu Hl)].
Qed.

Lemma uip_re_complete u : UnsignedIntegerPart u -> uip_re u = true /\ hd 0%N u <> 45%N.
Proof.
  intros Hu. inversion Hu as [|d ds Hd Hds]; subst; [split; [reflexivity|discriminate]|].
  assert (D1 : SdlBuild.is_digit d = true).
  { unfold NonZeroDigit in Hd. unfold SdlBuild.is_digit. apply andb_true_intro; split; apply N.leb_le; lia. }
  assert (D2 : (d =? 48)%N = false) by (unfold NonZeroDigit in Hd; apply N.eqb_neq; lia).
  assert (Had : all_digits ds = true).
  { unfold all_digits. apply forallb_forall. intros c Hc. rewrite Forall_forall in Hds. specialize (Hds c Hc).
    unfold Digit in Hds. unfold SdlBuild.is_digit. apply andb_true_intro; split; apply N.leb_le; lia. }
  split; [|cbn [hd]; unfold NonZeroDigit in Hd; lia].
  unfold uip_re. destruct d as [|p]; [discriminate|].
  do 6 (destruct p as [p|p|]; try (rewrite ?D1, ?D2, ?Had; reflexivity)); discriminate.
Qed.

Lemma int_value_re s : IntValue s -> int_re s = true.
Proof.
  unfold IntValue. intros H. rewrite int_re_uip. destruct H as [u Hu|u Hu].
  - destruct (uip_re_complete u Hu) as [H1 H2]. destruct u as [|c r]; [exact H1|]. cbn [hd] in H2.
    destruct c as [|p]; [exact H1|]. do 6 (destruct p as [p|p|]; try exact H1). congruence.
  - apply (uip_re_complete u Hu).
Qed.

(* ---- node_of_value emits such literals --------------------------------- *)
(* float reprs that are GraphQL number literals (repr of a finite float) *)
Fixpoint floats_ok (v : pv) : Prop :=
  match v with
  | PFloat r => int_re r = true \/ float_re r = true
  | PList l => (fix all (xs : list pv) : Prop := match xs with [] => True | x :: r => floats_ok x /\ all r end) l
  | PDict kvs => (fix all (xs : list (str * pv)) : Prop :=
                    match xs with [] => True | kv :: r => floats_ok (snd kv) /\ all r end) kvs
  | _ => True
  end.

Lemma floats_ok_list l : floats_ok (PList l) -> Forall floats_ok l.
Proof. cbn [floats_ok]. induction l as [|x r IH]; intros H; [constructor|]. destruct H. constructor; auto. Qed.

Lemma floats_ok_dict kvs k x : floats_ok (PDict kvs) -> alookup k kvs = Some x -> floats_ok x.
Proof.
  cbn [floats_ok]. induction kvs as [|[k' y] r IH]; intros H Hl; [discriminate|]. destruct H as [Hy Hr].
  cbn [alookup] in Hl. destruct (str_eqb k k'); [inversion Hl; subst; exact Hy|apply IH; assumption].
Qed.

(* names of the environment: enum values and input fields *)
Definition env_names_ok (E : env) : Prop :=
  forall n info, alookup n E = Some info ->
    match info with
    | IEnum vals => Forall (fun p => vname (fst p) /\ ~ is_reserved (fst p)) vals
    | IInput fs => Forall (fun fd => vname (if_name fd)) fs
    | _ => True
    end.

Lemma float_good r : int_re r = true \/ float_re r = true -> good_value (VFloat r None).
Proof.
  intros H. split; [|reflexivity]. destruct (int_re r) eqn:Hi; [left; reflexivity|right].
  split; [reflexivity|]. destruct H as [H|H]; [discriminate|apply float_re_spec; exact H].
Qed.

Lemma scalar_node_good n v x : floats_ok v -> scalar_node n v = Ok x -> good_value x.
Proof.
  intros Hf. unfold scalar_node.
  assert (Hint : forall z, good_value (VInt (str_of_Z z) None)) by (intros z; split; [apply str_of_Z_int|reflexivity]).
  assert (Hstr : forall s, good_value (VString s false None)) by (intros s; split; reflexivity).
  assert (Hbool : forall b, good_value (VBool b None)) by (intros b; reflexivity).
  destruct (str_eqb n (S_ "Int")).
  { destruct v; try discriminate.
    - intros H; inversion H; apply Hbool.
    - destruct (strict_int32 z); intros H; inversion H. apply Hint.
    - destruct (float_integral repr) as [z|]; [|discriminate]. destruct (strict_int32 z); intros H; inversion H. apply Hint. }
  destruct (str_eqb n (S_ "Float")).
  { destruct v; try discriminate.
    - destruct (strict_int32 z); intros H; inversion H; [apply Hint|].
      split; [|reflexivity]. right. split; [|apply str_of_Z_float].
      destruct (int_re (str_of_Z z ++ lit ".0")) eqn:Hi; [|exact Hi]. exfalso.
      apply int_re_spec in Hi. unfold IntValue in Hi.
      apply (int_no_dot _ Hi). apply in_or_app; right; left; reflexivity.
    - cbn [floats_ok] in Hf. destruct (float_integral repr) as [z|].
      + destruct (strict_int32 z); intros H; inversion H; [apply Hint|apply float_good; exact Hf].
      + intros H; inversion H. apply float_good; exact Hf. }
  destruct (str_eqb n (S_ "String")).
  { destruct v; try discriminate; intros H; inversion H; apply Hstr. }
  destruct (str_eqb n (S_ "Boolean")).
  { intros H; inversion H; apply Hbool. }
  destruct (str_eqb n (S_ "ID")).
  { destruct v; try discriminate.
    - intros H; inversion H; apply Hstr.
    - intros H; inversion H; apply Hint.
    - destruct (int_re repr) eqn:Hi; intros H; inversion H; [split; [apply int_re_spec; exact Hi|reflexivity]|apply Hstr].
    - destruct (int_re s) eqn:Hi; intros H; inversion H; [split; [apply int_re_spec; exact Hi|reflexivity]|apply Hstr]. }
  destruct v; try discriminate.
  - intros H; inversion H; apply Hbool.
  - intros H; inversion H. apply float_good. left.
    apply int_value_re. apply str_of_Z_int.
  - cbn [floats_ok] in Hf. intros H; inversion H. apply float_good; exact Hf.
  - destruct (int_re s) eqn:Hi.
    + destruct (Z_of_str s) as [z|]; [|intros H; inversion H; apply Hstr].
      destruct (strict_int32 z); intros H; inversion H; [split; [apply int_re_spec; exact Hi|reflexivity]|].
      apply float_good. left. exact Hi.
    + destruct (float_re s) eqn:Hfl; intros H; inversion H; [apply float_good; right; exact Hfl|apply Hstr].
Qed.

Lemma enum_name_in v vals m : enum_name_of v vals = Some m -> In m (map fst vals).
Proof.
  induction vals as [|[n x] r IH]; [discriminate|]. cbn [enum_name_of map fst].
  destruct (enum_name_of v r) as [m'|].
  - intros H; inversion H; subst. right. apply IH. reflexivity.
  - destruct (pv_eqb x v); [intros H; inversion H; left; reflexivity|discriminate].
Qed.

Lemma Forall_concat {A} (P : A -> Prop) (ls : list (list A)) : Forall (Forall P) ls -> Forall P (concat ls).
Proof. induction 1 as [|x r Hx _ IH]; [constructor|]. cbn [concat]. apply Forall_app; split; assumption. Qed.

Theorem node_good E : env_names_ok E -> forall fuel v t n,
  floats_ok v -> node_of_value fuel E v t = Ok n -> good_value n.
Proof.
  intros HE. induction fuel as [|f IH]; intros v t n Hf H; [discriminate|]. cbn [node_of_value] in H.
  assert (Hnull : good_value (VNull None)) by reflexivity.
  destruct t as [tn|t'|t'].
  - (* named *)
    destruct v; try (inversion H; exact Hnull);
      (destruct (mem_str tn specified_scalars); [eapply scalar_node_good; eassumption|]);
      (destruct (alookup tn E) as [[| vals | fs |]|] eqn:Hl; try discriminate; try (eapply scalar_node_good; eassumption)).
    all: try (destruct (enum_name_of _ vals) as [m|] eqn:Hm; [|discriminate]; inversion H; subst;
              pose proof (HE tn _ Hl) as Hv; cbn beta iota in Hv; rewrite Forall_forall in Hv;
              apply enum_name_in in Hm; apply in_map_iff in Hm; destruct Hm as (p & <- & Hp);
              split; [apply Hv; exact Hp|reflexivity]).
    (* input object *)
    match type of H with obind ?o _ = _ => destruct o as [fns| | |] eqn:Ho; cbn [obind] in H; try discriminate end.
    inversion H; subst. apply good_object. split; [reflexivity|]. apply Forall_concat.
    pose proof (HE tn _ Hl) as Hnames. cbn beta iota in Hnames.
    apply omap_inv in Ho. clear -Ho IH Hf Hnames.
    induction Ho as [|fd x fs' fns' Hx _ IHo]; [constructor|].
    inversion Hnames as [|? ? Hn Hns]; subst. constructor; [|apply IHo; exact Hns].
    destruct (alookup (if_py fd) kvs) as [y|] eqn:Hy.
    + destruct (node_of_value f E y (if_type fd)) as [ny| | |] eqn:Hny; cbn [obind] in Hx; try discriminate.
      inversion Hx; subst. constructor; [|constructor]. split; [cbn [fst snd n_val n_loc]; repeat split; exact Hn|].
      cbn [fst snd]. eapply IH; [|exact Hny]. eapply floats_ok_dict; eassumption.
    + destruct (is_nonnull (if_type fd) && match if_def fd with DNo => true | _ => false end); inversion Hx. constructor.
  - (* list *)
    destruct v; try (inversion H; exact Hnull); try (eapply IH; eassumption).
    destruct (omap (fun x => node_of_value f E x t') l) as [ns| | |] eqn:Ho; cbn [obind] in H; try discriminate.
    inversion H; subst. apply good_list. split; [reflexivity|].
    apply floats_ok_list in Hf. apply omap_inv in Ho. clear -Ho IH Hf.
    induction Ho as [|x y l' ns' Hx _ IHo]; [constructor|]. inversion Hf; subst.
    constructor; [eapply IH; eassumption|apply IHo; assumption].
  - (* non-null *)
    destruct (node_of_value f E v t') as [n'| | |] eqn:Hn; cbn [obind] in H; try discriminate.
    destruct (is_null n'); [discriminate|]. inversion H; subst. eapply IH; eassumption.
Qed.

(* a larger environment gives the same literal *)
Definition env_le (E E' : env) : Prop := forall n info, alookup n E = Some info -> alookup n E' = Some info.

Lemma omap_mono {A B} (g g' : A -> outcome B) l r :
  (forall x y, In x l -> g x = Ok y -> g' x = Ok y) -> omap g l = Ok r -> omap g' l = Ok r.
Proof.
  revert r. induction l as [|x l IH]; intros r H Ho; [exact Ho|]. cbn [omap] in *.
  destruct (g x) as [y| | |] eqn:Hx; cbn [obind] in Ho; try discriminate.
  rewrite (H x y (or_introl eq_refl) Hx). cbn [obind].
  destruct (omap g l) as [ys| | |] eqn:Hl; cbn [obind] in Ho; try discriminate.
  rewrite (IH ys (fun a b Ha => H a b (or_intror Ha)) eq_refl). exact Ho.
Qed.

Theorem node_env_mono E E' : env_le E E' -> forall fuel v t n,
  node_of_value fuel E v t = Ok n -> node_of_value fuel E' v t = Ok n.
Proof.
  intros HE. induction fuel as [|f IH]; intros v t n H; [discriminate|]. cbn [node_of_value] in H |- *.
  destruct t as [tn|t'|t'].
  - destruct v; try exact H;
      (destruct (mem_str tn specified_scalars); [exact H|]);
      (destruct (alookup tn E) as [info|] eqn:Hl; [rewrite (HE _ _ Hl)|discriminate]); try exact H.
    destruct info; try exact H.
    match type of H with obind ?o _ = _ => destruct o as [fns| | |] eqn:Ho; cbn [obind] in H; try discriminate end.
    erewrite omap_mono; [exact H| |exact Ho]. cbn beta. intros fd y _ Hy.
    destruct (alookup (if_py fd) kvs) as [x|]; [|exact Hy].
    destruct (node_of_value f E x (if_type fd)) as [nx| | |] eqn:Hx; cbn [obind] in Hy; try discriminate.
    rewrite (IH _ _ _ Hx). exact Hy.
  - destruct v; try exact H; try (apply IH; exact H).
    destruct (omap (fun x => node_of_value f E x t') l) as [ns| | |] eqn:Ho; cbn [obind] in H; try discriminate.
    erewrite omap_mono; [exact H| |exact Ho]. intros x y _ Hx. apply IH; exact Hx.
  - destruct (node_of_value f E v t') as [n'| | |] eqn:Hn; cbn [obind] in H; try discriminate.
    rewrite (IH _ _ _ Hn). exact H.
Qed.

(* ---- applied directives kept in the schema ------------------------------ *)
Definition good_arg (a : argument) : Prop :=
  vname (n_val (a_name a)) /\ n_loc (a_name a) = None /\ a_loc a = None
  /\ good_value (a_val a) /\ relex (a_val a) = a_val a.

Definition good_dir (d : directive) : Prop :=
  vname (n_val (d_name d)) /\ n_loc (d_name d) = None /\ d_loc d = None /\ Forall good_arg (d_args d).

Lemma good_dir_wf d : good_dir d -> wf_dir true d.
Proof.
  intros (Hn & _ & _ & Ha). split; [exact Hn|]. eapply Forall_impl; [|exact Ha].
  intros a (Han & _ & _ & Hv & Hr). split; [exact Han|]. rewrite <- Hr. apply good_wf. exact Hv.
Qed.

Lemma good_dir_strip d : good_dir d -> strip_dir d = d.
Proof.
  intros (_ & Hl & Hdl & Ha). destruct d as [[dn dl] args l]. cbn in *. subst. unfold strip_dir, strip_name. cbn. f_equal.
  induction Ha as [|a r (_ & Hnl & Hal & Hv & Hr) _ IH]; [reflexivity|]. cbn [map]. rewrite IH. f_equal.
  destruct a as [[an anl] av al]. cbn in *. subst. unfold strip_arg, strip_name. cbn. rewrite <- Hr at 2.
  rewrite <- Hr at 1. rewrite (good_strip av Hv). rewrite Hr. reflexivity.
Qed.

Lemma good_dir_print cf cf' d : good_dir d -> pr_directive cf d = pr_directive cf' d.
Proof.
  intros (_ & _ & _ & Ha). unfold pr_directive, pr_arguments.
  replace (map (pr_argument cf) (d_args d)) with (map (pr_argument cf') (d_args d)); [reflexivity|].
  symmetry. apply map_ext_in. intros a Hin. rewrite Forall_forall in Ha. destruct (Ha a Hin) as (_ & _ & _ & Hv & Hr).
  unfold pr_argument. do 2 f_equal. rewrite <- Hr at 1. apply good_print. exact Hv.
Qed.
