(* Where a rejection (the library's CoercionError) can come from inside the
   executor model: only from collecting a selection set (invalid @skip /
   @include arguments). A nested one is turned into a field error by
   complete_field, so exec_sel is rejected exactly when its own collect is. *)
From PyGql Require Import Spec.ExecSpec Proofs.ExecProofs.

Arguments field_definition : simpl never.
Arguments collect_for : simpl never.
Arguments complete_named : simpl never.

Lemma dir_if_rej dn ds vs k q : dir_if dn ds vs = Rejected k q -> k = REJ_COERCION.
Proof.
  unfold dir_if. destruct (find_dir dn ds); [|discriminate].
  destruct (find_arg_last s_if (d_args d)); [|intros H; inversion H; reflexivity].
  destruct (a_val a); try (intros H; inversion H; reflexivity); try discriminate.
  destruct (alookup (n_val n) vs) as [[]|]; try discriminate; intros H; inversion H; reflexivity.
Qed.

Lemma skip_selection_rej ds vs k q : skip_selection ds vs = Rejected k q -> k = REJ_COERCION.
Proof.
  unfold skip_selection. destruct (dir_if s_skip ds vs) eqn:E1; simpl; try discriminate.
  - destruct (dir_if s_include ds vs) eqn:E2; simpl; try discriminate.
    intros H; inversion H; subst. eapply dir_if_rej; exact E2.
  - intros H; inversion H; subst. eapply dir_if_rej; exact E1.
Qed.

Lemma collect_into_rej applies frags vs mc : forall fuel ss g local k q,
  collect_into applies frags vs mc fuel ss g local = Rejected k q -> k = REJ_COERCION.
Proof.
  induction fuel as [|fuel IH]; intros ss g local k q H; simpl in H; [discriminate|].
  destruct ss as [|x ss]; [discriminate|].
  destruct x as [alias n args dirs sl sub l|n dirs l|tc dirs ssl sub l].
  - destruct (skip_selection dirs vs) as [sk| | |] eqn:Es; simpl in H; try discriminate.
    + destruct sk; eapply IH; exact H.
    + inversion H; subst. eapply skip_selection_rej; exact Es.
  - destruct (alookup (n_val n) frags) as [[tc fsels]|].
    + destruct (skip_selection dirs vs) as [sk| | |] eqn:Es; simpl in H; try discriminate.
      * destruct (sk || mem_str (n_val n) local || negb (applies (Some tc))); [eapply IH; exact H|].
        destruct (collect_into applies frags vs mc fuel fsels [] local) eqn:E1; simpl in H; try discriminate.
        -- eapply IH; exact H.
        -- inversion H; subst. eapply IH; exact E1.
      * inversion H; subst. eapply skip_selection_rej; exact Es.
    + destruct mc; [discriminate|].
      destruct (skip_selection dirs vs) as [sk| | |] eqn:Es; simpl in H; try discriminate.
      * eapply IH; exact H.
      * inversion H; subst. eapply skip_selection_rej; exact Es.
  - destruct (skip_selection dirs vs) as [sk| | |] eqn:Es; simpl in H; try discriminate.
    + destruct (sk || negb (applies tc)); [eapply IH; exact H|].
      destruct (collect_into applies frags vs mc fuel sub [] local) eqn:E1; simpl in H; try discriminate.
      * eapply IH; exact H.
      * inversion H; subst. eapply IH; exact E1.
    + inversion H; subst. eapply skip_selection_rej; exact Es.
Qed.

Section Rej.
  Variable sch : schema.
  Variable frags : frag_table.
  Variable vs : vars.
  Variable coerce_args : fdef -> selection -> outcome (list (str * pv)).
  Variable world : world_t.
  Variable tyres : str -> option (pv -> tyname_res).
  Variable cfuel : nat.

  Lemma resolve_type_not_rej n v k q : resolve_type sch tyres n v <> Rejected k q.
  Proof.
    unfold resolve_type. intros H.
    repeat match type of H with
           | match ?x with _ => _ end = _ => destruct x; try discriminate
           | (if ?x then _ else _) = _ => destruct x; try discriminate
           end.
  Qed.

  Lemma of_ser_not_rej s k q : of_ser s <> Rejected k q.
  Proof. destruct s; discriminate. Qed.

  Section Level.
    Variable sub_exec : str -> pv -> path -> list selection -> result.
    Hypothesis HsubK : forall tn v p ss k q, sub_exec tn v p ss = Rejected k q -> k = REJ_COERCION.

    Lemma complete_items_rej (f : path -> pv -> result) :
      (forall p x k q, f p x = Rejected k q -> k = REJ_COERCION) ->
      forall items p i k q, complete_items f p i items = Rejected k q -> k = REJ_COERCION.
    Proof.
      intros Hf. induction items as [|x items IH]; intros p i k q H; simpl in H; [discriminate|].
      destruct (f (p ++ [PIdx i]) x) eqn:E1; simpl in H; try discriminate.
      - destruct (complete_items f p (N.succ i) items) eqn:E2; simpl in H; try discriminate.
        inversion H; subst. eapply IH; exact E2.
      - inversion H; subst. eapply Hf; exact E1.
    Qed.

    Lemma complete_named_rej nodes n p v k q :
      complete_named sch tyres sub_exec nodes n p v = Rejected k q -> k = REJ_COERCION.
    Proof.
      unfold complete_named. destruct (get_type sch n) as [[fs ifs|fs|ts|vals|sk|]|]; try discriminate.
      - apply HsubK.
      - destruct (resolve_type sch tyres n v) eqn:E; simpl; try discriminate; [apply HsubK|].
        intros H; inversion H; subst. exfalso. eapply resolve_type_not_rej; exact E.
      - destruct (resolve_type sch tyres n v) eqn:E; simpl; try discriminate; [apply HsubK|].
        intros H; inversion H; subst. exfalso. eapply resolve_type_not_rej; exact E.
      - destruct (hashable v); [|discriminate]. intros H. exfalso. eapply of_ser_not_rej; exact H.
      - intros H. exfalso. eapply of_ser_not_rej; exact H.
    Qed.

    Lemma complete_value_rej nodes : forall t p v k q,
      complete_value sch tyres sub_exec nodes t p v = Rejected k q -> k = REJ_COERCION.
    Proof.
      induction t as [n|t IH|t IH]; intros p v k q H; simpl in H.
      - destruct v; try discriminate; eapply complete_named_rej; exact H.
      - assert (Hi : forall items, (do r <- complete_items (complete_value sch tyres sub_exec nodes t) p 0%N items;
                                    Ok (PList (fst r), snd r)) = Rejected k q -> k = REJ_COERCION).
        { intros items Hx. destruct (complete_items (complete_value sch tyres sub_exec nodes t) p 0%N items) eqn:E;
            simpl in Hx; try discriminate. inversion Hx; subst.
          eapply complete_items_rej; [|exact E]. intros; eapply IH; eassumption. }
        destruct v; simpl in H; try discriminate; eapply Hi; exact H.
      - destruct (complete_value sch tyres sub_exec nodes t p v) eqn:E; simpl in H; try discriminate.
        + destruct (fst a); discriminate.
        + inversion H; subst. eapply IH; exact E.
    Qed.

    Lemma complete_field_not_rej nodes t p v k q :
      complete_field sch tyres sub_exec nodes t p v <> Rejected k q.
    Proof.
      unfold complete_field. destruct (complete_value sch tyres sub_exec nodes t p v) eqn:E; try discriminate.
      pose proof (complete_value_rej _ _ _ _ _ _ E) as ->. rewrite Nat.eqb_refl. discriminate.
    Qed.

    Lemma resolve_field_not_rej tname parent fk fd nodes p k q :
      resolve_field sch coerce_args world tyres sub_exec tname parent fk fd nodes p <> Rejected k q.
    Proof.
      unfold resolve_field. destruct nodes as [|node nodes]; [discriminate|].
      destruct (coerce_args fd node); try discriminate.
      destruct fk; try discriminate; [|apply complete_field_not_rej].
      destruct (world p parent tname (f_name fd) a); try discriminate; apply complete_field_not_rej.
    Qed.

    Lemma exec_groups_not_rej tname parent p : forall g k q,
      exec_groups sch coerce_args world tyres sub_exec tname parent p g <> Rejected k q.
    Proof.
      induction g as [|[key nodes] g IH]; intros k q; simpl; [discriminate|].
      destruct nodes as [|node nodes]; [discriminate|].
      destruct (field_definition sch tname (sel_name node)) as [[[fk fd]|]| | |] eqn:Ed; simpl; try discriminate.
      - destruct (resolve_field sch coerce_args world tyres sub_exec tname parent fk fd (node :: nodes) (p ++ [PKey key])) eqn:E1;
          simpl; try discriminate.
        + destruct (exec_groups sch coerce_args world tyres sub_exec tname parent p g) eqn:E2; simpl; try discriminate.
          intros H; inversion H; subst. apply (IH k q). reflexivity.
        + intros H; inversion H; subst. eapply resolve_field_not_rej; exact E1.
      - apply IH.
      - intros H. unfold field_definition in Ed.
        repeat match type of Ed with
               | match ?x with _ => _ end = _ => destruct x; try discriminate
               | (if ?x then _ else _) = _ => destruct x; try discriminate
               end.
    Qed.
  End Level.

  (* a selection set is rejected exactly when collecting its fields is *)
  Lemma exec_sel_rej : forall fuel tname v p sels k q,
    exec_sel sch frags vs coerce_args world tyres cfuel fuel tname v p sels = Rejected k q ->
    collect_for sch frags vs cfuel tname sels = Rejected k q /\ k = REJ_COERCION.
  Proof.
    induction fuel as [|fuel IH]; intros tname v p sels k q H; simpl in H; [discriminate|].
    destruct (collect_for sch frags vs cfuel tname sels) as [g| | |] eqn:Eg; simpl in H; try discriminate.
    - destruct (exec_groups sch coerce_args world tyres
                  (exec_sel sch frags vs coerce_args world tyres cfuel fuel) tname v p g) eqn:E; simpl in H; try discriminate.
      inversion H; subst. exfalso. eapply exec_groups_not_rej; [|exact E].
      intros tn x p' ss k' q' Hx. apply IH in Hx. tauto.
    - inversion H; subst. split; [reflexivity|]. unfold collect_for, collect in Eg.
      destruct (collect_into (applies sch tname) frags vs true cfuel sels [] []) eqn:Ec; simpl in Eg; try discriminate.
      inversion Eg; subst. eapply collect_into_rej; exact Ec.
  Qed.
End Rej.
