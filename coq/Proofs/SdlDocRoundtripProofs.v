(* C12, document level: the document [ast_of_schema sc] of a schema that SDL
   can express declares that schema again (up to the order of the types and
   directive definitions, and applied directives named like a specified one);
   with C11_exact_build the builder returns it. *)
From PyGql Require Import Spec.SdlSpec Schema.SdlPrint Spec.SdlRoundtripSpec.
From PyGql Require Import Proofs.SdlProofs Proofs.SdlExactProofs Proofs.SdlOrderProofs Proofs.SdlPrintProofs.
From Coq Require Import Lia Sorting.Permutation.

(* ---- shape of the emitted definitions --------------------------------- *)

Definition is_schema_def (d : definition) : bool :=
  match d with DSchema _ _ _ _ => true | _ => false end.

Lemma def_of_tdef_shape E t x :
  def_of_tdef E t = Ok x ->
  typedef_name x = Some (tdef_name t) /\ typeext_name x = None
  /\ is_schema_def x = false /\ is_directive_def x = false.
Proof.
  destruct t; cbn [def_of_tdef tdef_name]; intros H;
    repeat match type of H with
           | obind ?o _ = Ok _ => destruct o eqn:?; cbn [obind] in H; try discriminate
           end; inversion H; subst x; repeat split; reflexivity.
Qed.

Lemma def_of_ddef_shape E dd x :
  def_of_ddef E dd = Ok x ->
  exists args, x = DDirective (strval_of (dd_desc dd)) (mk_name (dd_name dd)) args (map mk_name (dd_locs dd)) None
               /\ omap (ivdef_of E) (dd_args dd) = Ok args.
Proof.
  unfold def_of_ddef. intros H. destruct (omap (ivdef_of E) (dd_args dd)) as [args| | |]; cbn [obind] in H; try discriminate.
  inversion H. exists args. split; reflexivity.
Qed.

Section DocShape.
  Variables (S dds tds : list definition).
  Hypothesis HS : Forall (fun x => exists dirs ots, x = DSchema false dirs ots None) S.
  Hypothesis Hdds : Forall (fun x => is_directive_def x = true) dds.
  Hypothesis Htds : Forall (fun x => typedef_name x <> None /\ typeext_name x = None
                                      /\ is_schema_def x = false /\ is_directive_def x = false) tds.
  Let ds := S ++ dds ++ tds.

  Lemma filter_none {A} (p : A -> bool) l : Forall (fun x => p x = false) l -> filter p l = [].
  Proof. induction 1 as [|x l Hx _ IH]; [reflexivity|]. cbn [filter]. rewrite Hx. exact IH. Qed.
  Lemma filter_all {A} (p : A -> bool) l : Forall (fun x => p x = true) l -> filter p l = l.
  Proof. induction 1 as [|x l Hx _ IH]; [reflexivity|]. cbn [filter]. rewrite Hx, IH. reflexivity. Qed.

  Lemma shape_typedefs : filter is_typedef ds = tds.
  Proof.
    unfold ds. rewrite !filter_app.
    rewrite (filter_none is_typedef S), (filter_none is_typedef dds), (filter_all is_typedef tds); [reflexivity| | |].
    - eapply Forall_impl; [|exact Htds]. intros x (Hn & _). unfold is_typedef. destruct (typedef_name x); congruence.
    - eapply Forall_impl; [|exact Hdds]. intros x Hx. destruct x; try discriminate. reflexivity.
    - eapply Forall_impl; [|exact HS]. intros x (dirs & ots & ->). reflexivity.
  Qed.

  Lemma shape_no_typeext : Forall (fun x => typeext_name x = None) ds.
  Proof.
    unfold ds. apply Forall_app; split; [|apply Forall_app; split].
    - eapply Forall_impl; [|exact HS]. intros x (dirs & ots & ->). reflexivity.
    - eapply Forall_impl; [|exact Hdds]. intros x Hx. destruct x; try discriminate. reflexivity.
    - eapply Forall_impl; [|exact Htds]. intros x (_ & Hn & _). exact Hn.
  Qed.

  Lemma shape_exts_for n : exts_for n ds = [].
  Proof.
    unfold exts_for. apply filter_none. eapply Forall_impl; [|exact shape_no_typeext].
    intros x Hx. cbn beta. rewrite Hx. reflexivity.
  Qed.

  Lemma shape_type_exts : type_exts ds = [].
  Proof.
    unfold type_exts. apply filter_none. eapply Forall_impl; [|exact shape_no_typeext].
    intros x Hx. cbn beta. rewrite Hx. reflexivity.
  Qed.

  Lemma shape_schema_exts : schema_exts ds = [].
  Proof.
    unfold schema_exts, ds. apply filter_none. apply Forall_app; split; [|apply Forall_app; split].
    - eapply Forall_impl; [|exact HS]. intros x (dirs & ots & ->). reflexivity.
    - eapply Forall_impl; [|exact Hdds]. intros x Hx. destruct x; try discriminate. reflexivity.
    - eapply Forall_impl; [|exact Htds]. intros x (_ & _ & Hn & _). destruct x; try discriminate; reflexivity.
  Qed.

  Lemma shape_schema_def : schema_def_of ds = hd_error S.
  Proof.
    unfold schema_def_of, ds. destruct HS as [|x l (dirs & ots & ->) _]; [|reflexivity].
    cbn [app hd_error].
    assert (H : forall l, Forall (fun x => is_schema_def x = false) l ->
                          find (fun d => match d with DSchema false _ _ _ => true | _ => false end) l = None).
    { induction 1 as [|y l' Hy _ IH]; [reflexivity|]. cbn [find]. destruct y; try discriminate; exact IH. }
    apply H. apply Forall_app; split.
    - eapply Forall_impl; [|exact Hdds]. intros x Hx. destruct x; try discriminate. reflexivity.
    - eapply Forall_impl; [|exact Htds]. intros x (_ & _ & Hn & _). exact Hn.
  Qed.

  Lemma shape_directives E : flat_map (decl_directive E) ds = flat_map (decl_directive E) dds.
  Proof.
    unfold ds. rewrite !flat_map_app.
    assert (H : forall l, Forall (fun x => is_directive_def x = false) l -> flat_map (decl_directive E) l = []).
    { induction 1 as [|y l' Hy _ IH]; [reflexivity|]. cbn [flat_map]. rewrite IH.
      destruct y; try discriminate; reflexivity. }
    rewrite (H S), (H tds), app_nil_r; [reflexivity| |].
    - eapply Forall_impl; [|exact Htds]. intros x (_ & _ & _ & Hn). exact Hn.
    - eapply Forall_impl; [|exact HS]. intros x (dirs & ots & ->). reflexivity.
  Qed.

  Lemma merged_no_ext x : merged ds x = x.
  Proof.
    unfold merged. destruct (typedef_name x) as [n|]; [|reflexivity]. rewrite shape_exts_for.
    destruct x; cbn [flat_map]; rewrite ?app_nil_r; reflexivity.
  Qed.

  Lemma shape_declared_defs l : declared_defs (Doc ds l) = tds.
  Proof.
    unfold declared_defs. cbn [doc_defs]. fold ds. rewrite shape_typedefs.
    rewrite (map_ext _ id) by (intros; apply merged_no_ext). apply map_id.
  Qed.
End DocShape.

(* ---- sorting is a permutation ----------------------------------------- *)
Lemma insert_by_perm {A} (key : A -> str) x l : Permutation (insert_by key x l) (x :: l).
Proof.
  induction l as [|y l IH]; [apply Permutation_refl|]. cbn [insert_by].
  destruct (str_leb (key y) (key x)); [|apply Permutation_refl].
  eapply perm_trans; [apply perm_skip; exact IH|apply perm_swap].
Qed.

Lemma sort_by_perm {A} (key : A -> str) l : Permutation (sort_by key l) l.
Proof.
  unfold sort_by.
  assert (H : forall acc, Permutation (fold_left (fun a x => insert_by key x a) l acc) (acc ++ l)).
  { induction l as [|x l IH]; intros acc; cbn [fold_left].
    - rewrite app_nil_r. apply Permutation_refl.
    - eapply perm_trans; [apply IH|]. eapply perm_trans; [apply Permutation_app_tail; apply insert_by_perm|].
      cbn [app]. apply Permutation_middle. }
  apply (H []).
Qed.

Lemma has_dup_perm l l' : Permutation l l' -> has_dup l = false -> has_dup l' = false.
Proof. intros Hp H. apply has_dup_NoDup. apply has_dup_NoDup in H. eapply Permutation_NoDup; eassumption. Qed.

(* ---- equality up to [strip_tdef] -------------------------------------- *)
Lemma strip_tdef_name t : tdef_name (strip_tdef t) = tdef_name t.
Proof. destruct t; reflexivity. Qed.

Lemma strip_names l : map tdef_name (map strip_tdef l) = map tdef_name l.
Proof. rewrite map_map. apply map_ext. apply strip_tdef_name. Qed.

Lemma strip_eq_name a b : strip_tdef a = strip_tdef b -> tdef_name a = tdef_name b.
Proof. intros H. rewrite <- (strip_tdef_name a), <- (strip_tdef_name b), H. reflexivity. Qed.

Lemma strip_eq_filter (q : str -> bool) : forall l1 l2,
  map strip_tdef l1 = map strip_tdef l2 ->
  map strip_tdef (filter (fun t => q (tdef_name t)) l1) = map strip_tdef (filter (fun t => q (tdef_name t)) l2).
Proof.
  induction l1 as [|a l1 IH]; intros [|b l2] H; try discriminate; [reflexivity|].
  cbn [map] in H. injection H as Hab Hl. cbn [filter]. rewrite (strip_eq_name a b Hab).
  destruct (q (tdef_name b)); cbn [map]; rewrite ?Hab, (IH l2 Hl); reflexivity.
Qed.

Lemma strip_eq_find n : forall l1 l2,
  map strip_tdef l1 = map strip_tdef l2 ->
  option_map strip_tdef (find_type n l1) = option_map strip_tdef (find_type n l2).
Proof.
  induction l1 as [|a l1 IH]; intros [|b l2] H; try discriminate; [reflexivity|].
  cbn [map] in H. injection H as Hab Hl. cbn [find_type]. rewrite (strip_eq_name a b Hab).
  destruct (str_eqb n (tdef_name b)); [cbn [option_map]; rewrite Hab; reflexivity|apply IH; exact Hl].
Qed.

Definition is_object_def (t : tdef) : bool := match t with TObject _ _ _ _ _ => true | _ => false end.
Lemma strip_is_object t : is_object_def (strip_tdef t) = is_object_def t.
Proof. destruct t; reflexivity. Qed.

Lemma default_root_alt ts n :
  default_root ts n = match find_type n ts with
                      | Some t => if is_object_def t then Some n else None
                      | None => None end.
Proof. unfold default_root. destruct (find_type n ts) as [[]|]; reflexivity. Qed.

Lemma strip_eq_default_root n l1 l2 :
  map strip_tdef l1 = map strip_tdef l2 -> default_root l1 n = default_root l2 n.
Proof.
  intros H. rewrite !default_root_alt. pose proof (strip_eq_find n l1 l2 H) as Hf.
  destruct (find_type n l1) as [a|], (find_type n l2) as [b|]; cbn [option_map] in Hf; try discriminate; [|reflexivity].
  injection Hf as Hf. rewrite <- (strip_is_object a), Hf, strip_is_object. reflexivity.
Qed.

(* ---- inclusion up to a permutation ------------------------------------ *)
Lemma types_sub_perm a b :
  Permutation a b -> has_dup (map tdef_name b) = false -> types_sub a b = true.
Proof.
  intros Hp Hd. unfold types_sub. apply forallb_forall. intros t Hin.
  rewrite (find_type_unique b t Hd (Permutation_in _ Hp Hin)). apply tdef_eqb_refl.
Qed.

Lemma ddefs_sub_perm a b :
  Permutation a b -> has_dup (map dd_name b) = false -> ddefs_sub a b = true.
Proof.
  intros Hp Hd. unfold ddefs_sub. apply forallb_forall. intros t Hin.
  rewrite (find_ddef_unique b t Hd (Permutation_in _ Hp Hin)). apply ddef_eqb_refl.
Qed.

(* ---- the document of a schema ----------------------------------------- *)
Definition schema_ops (sc : schema) : list op_type_def :=
  let op (k : op_kind) (r : option str) : list op_type_def :=
    match r with Some n => [OTDef k (named_ty n) None] | None => [] end in
  op OpQuery (s_query sc) ++ op OpMutation (s_mutation sc) ++ op OpSubscription (s_subscription sc).

Definition schema_defs (sc : schema) : list definition :=
  if schema_def_needed sc then [DSchema false (custom_dirs (s_dirs sc)) (schema_ops sc) None] else [].

Lemma ast_of_schema_inv sc d :
  ast_of_schema sc = Ok d ->
  exists dds tds,
    Forall2 (fun dd x => def_of_ddef (env_of_schema [] sc) dd = Ok x) (sort_by dd_name (s_ddefs sc)) dds
    /\ Forall2 (fun t x => def_of_tdef (env_of_schema [] sc) t = Ok x) (sort_by tdef_name (s_types sc)) tds
    /\ d = Doc (schema_defs sc ++ dds ++ tds) None.
Proof.
  unfold ast_of_schema. cbn zeta. intros H.
  destruct (omap (def_of_ddef (env_of_schema [] sc)) (sort_by dd_name (s_ddefs sc))) as [dds| | |] eqn:H1;
    cbn [obind] in H; try discriminate.
  destruct (omap (def_of_tdef (env_of_schema [] sc)) (sort_by tdef_name (s_types sc))) as [tds| | |] eqn:H2;
    cbn [obind] in H; try discriminate.
  exists dds, tds. split; [apply omap_inv; exact H1|]. split; [apply omap_inv; exact H2|].
  inversion H. reflexivity.
Qed.

Definition strip_ddef (d : ddef) : ddef :=
  DD (dd_name d) (dd_desc d) (dd_locs d) (map strip_siv (dd_args d)).

Definition schema_ivalues (sc : schema) : list sivalue :=
  flat_map tdef_ivalues (s_types sc) ++ flat_map dd_args (s_ddefs sc).

Lemma first_ops sc :
  first_op OpQuery (schema_ops sc) = s_query sc
  /\ first_op OpMutation (schema_ops sc) = s_mutation sc
  /\ first_op OpSubscription (schema_ops sc) = s_subscription sc.
Proof.
  unfold schema_ops. destruct (s_query sc), (s_mutation sc), (s_subscription sc); repeat split; reflexivity.
Qed.

Lemma default_root_of_default sc r dn :
  default_kind dn = None -> root_is_default sc r dn = true -> valid_root sc r = true ->
  default_root (s_types sc) dn = r.
Proof.
  intros Hk Hr Hv. unfold root_is_default in Hr. rewrite default_root_alt. destruct r as [n|].
  - apply str_eqb_eq in Hr. subst n. cbn [valid_root] in Hv. unfold s_is_object, skind in Hv. rewrite Hk in Hv.
    destruct (find_type dn (s_types sc)) as [[]|]; cbn [option_map tdef_kind] in Hv; try discriminate. reflexivity.
  - destruct (find_type dn (s_types sc)) as [[]|]; try discriminate; reflexivity.
Qed.

Lemma strip_flat_types E : forall st tds,
  Forall2 (fun t x => map strip_tdef (decl_type E x) = [strip_tdef t]) st tds ->
  map strip_tdef (flat_map (decl_type E) tds) = map strip_tdef st.
Proof.
  induction 1 as [|t x st tds Hx _ IH]; [reflexivity|]. cbn [flat_map map]. rewrite map_app, Hx, IH. reflexivity.
Qed.

Lemma strip_flat_ddefs E : forall sd dds,
  Forall2 (fun dd x => map strip_ddef (decl_directive E x) = [strip_ddef dd]) sd dds ->
  map strip_ddef (flat_map (decl_directive E) dds) = map strip_ddef sd.
Proof.
  induction 1 as [|t x st tds Hx _ IH]; [reflexivity|]. cbn [flat_map map]. rewrite map_app, Hx, IH. reflexivity.
Qed.

Lemma Forall2_impl_in {A B} (P Q : A -> B -> Prop) l1 l2 :
  (forall a b, In a l1 -> P a b -> Q a b) -> Forall2 P l1 l2 -> Forall2 Q l1 l2.
Proof.
  intros H F. induction F as [|a b l1 l2 Hab _ IH]; constructor.
  - apply H; [left; reflexivity|exact Hab].
  - apply IH. intros; eapply H; [right; eassumption|assumption].
Qed.

Lemma Forall2_right {A B} (P : A -> B -> Prop) (Q : B -> Prop) l1 l2 :
  (forall a b, P a b -> Q b) -> Forall2 P l1 l2 -> Forall Q l2.
Proof. intros H F. induction F; constructor; eauto. Qed.

Lemma strip_ddef_names l : map dd_name (map strip_ddef l) = map dd_name l.
Proof. rewrite map_map. apply map_ext. reflexivity. Qed.

Lemma dk_query : default_kind (S_ "Query") = None. Proof. vm_compute. reflexivity. Qed.
Lemma dk_mutation : default_kind (S_ "Mutation") = None. Proof. vm_compute. reflexivity. Qed.
Lemma dk_subscription : default_kind (S_ "Subscription") = None. Proof. vm_compute. reflexivity. Qed.

(* the declared schema of the document of [sc]: the sorted types and directive
   definitions of [sc] up to [strip], and the roots of [sc] *)
Definition declares_again (sc sc' : schema) : Prop :=
  map strip_tdef (s_types sc') = map strip_tdef (sort_by tdef_name (s_types sc))
  /\ map strip_ddef (s_ddefs sc') = map strip_ddef (sort_by dd_name (s_ddefs sc))
  /\ s_query sc' = s_query sc /\ s_mutation sc' = s_mutation sc /\ s_subscription sc' = s_subscription sc
  /\ custom_dirs (s_dirs sc') = custom_dirs (s_dirs sc).

Lemma declared_of_ast_struct sc d :
  schema_okb sc = true -> ast_of_schema sc = Ok d ->
  (forall a, In a (schema_ivalues sc) -> default_rt (env_of_schema [] sc) (declared_env d) a) ->
  declares_again sc (declared d).
Proof.
  intros Hok Hast Hrt.
  unfold schema_okb in Hok.
  apply andb_prop in Hok; destruct Hok as [Hok _].
  apply andb_prop in Hok; destruct Hok as [Hok Hrefs].
  apply andb_prop in Hok; destruct Hok as [Hok Hnoover].
  apply andb_prop in Hok; destruct Hok as [Hok Hnodef].
  apply andb_prop in Hok; destruct Hok as [Hok Hdupd].
  apply andb_prop in Hok; destruct Hok as [Hok Hdupt].
  apply andb_prop in Hok; destruct Hok as [Hok Hdsdl].
  apply andb_prop in Hok; destruct Hok as [Hvalid Htsdl].
  apply Bool.negb_true_iff in Hdupd, Hdupt.
  destruct (ast_of_schema_inv sc d Hast) as (dds & tds & Fd & Ft & ->).
  set (Ep := env_of_schema [] sc) in *.
  set (st := sort_by tdef_name (s_types sc)) in *. set (sd := sort_by dd_name (s_ddefs sc)) in *.
  assert (Pst : Permutation st (s_types sc)) by apply sort_by_perm.
  assert (Psd : Permutation sd (s_ddefs sc)) by apply sort_by_perm.
  (* shape *)
  assert (HS : Forall (fun x => exists dirs ots, x = DSchema false dirs ots None) (schema_defs sc)).
  { unfold schema_defs. destruct (schema_def_needed sc); repeat constructor. eexists _, _. reflexivity. }
  assert (Hdds : Forall (fun x => is_directive_def x = true) dds).
  { eapply Forall2_right; [|exact Fd]. intros a b Hab. cbn beta in Hab.
    destruct (def_of_ddef_shape _ _ _ Hab) as (args & -> & _). reflexivity. }
  assert (Htds : Forall (fun x => typedef_name x <> None /\ typeext_name x = None
                                   /\ is_schema_def x = false /\ is_directive_def x = false) tds).
  { eapply Forall2_right; [|exact Ft]. intros a b Hab. cbn beta in Hab.
    destruct (def_of_tdef_shape _ _ _ Hab) as (H1 & H2 & H3 & H4). repeat split; try assumption. congruence. }
  set (ds := schema_defs sc ++ dds ++ tds) in *.
  assert (X1 : declared_defs (Doc ds None) = tds) by (apply (shape_declared_defs _ _ _ HS Hdds Htds)).
  assert (X2 : forall E, flat_map (decl_directive E) ds = flat_map (decl_directive E) dds)
    by (apply (shape_directives _ dds _ HS Htds)).
  assert (X3 : schema_def_of ds = hd_error (schema_defs sc)) by (apply (shape_schema_def _ _ _ HS Hdds Htds)).
  assert (X4 : schema_exts ds = []) by (apply (shape_schema_exts _ _ _ HS Hdds Htds)).
  set (Ed := declared_env (Doc ds None)) in *.
  (* types *)
  assert (HT : map strip_tdef (flat_map (decl_type Ed) tds) = map strip_tdef st).
  { apply strip_flat_types. eapply Forall2_impl_in; [|exact Ft]. intros t x Hin Hx. cbn beta in Hx.
    assert (Hin' : In t (s_types sc)) by (eapply Permutation_in; eassumption).
    apply (kind_roundtrip Ep Ed t x); [|exact Hx|].
    - rewrite forallb_forall in Htsdl. apply Htsdl; exact Hin'.
    - intros a Ha. apply Hrt. unfold schema_ivalues. apply in_or_app; left. apply in_flat_map. exists t; split; assumption. }
  assert (Hfilter_st : filter (fun t => negb (default_type_name (tdef_name t))) st = st).
  { apply filter_all. apply Forall_forall. intros t Hin. rewrite forallb_forall in Hnodef. apply Hnodef.
    eapply Permutation_in; eassumption. }
  set (ts := filter (fun t => negb (default_type_name (tdef_name t))) (flat_map (decl_type Ed) tds)).
  assert (Hts : map strip_tdef ts = map strip_tdef st).
  { unfold ts. rewrite (strip_eq_filter (fun n => negb (default_type_name n)) _ _ HT), Hfilter_st. reflexivity. }
  (* directive definitions *)
  assert (HD : map strip_ddef (flat_map (decl_directive Ed) dds) = map strip_ddef sd).
  { apply strip_flat_ddefs. eapply Forall2_impl_in; [|exact Fd]. intros dd x Hin Hx. cbn beta in Hx.
    assert (Hin' : In dd (s_ddefs sc)) by (eapply Permutation_in; eassumption).
    rewrite forallb_forall in Hdsdl. pose proof (Hdsdl dd Hin') as Hdd. apply andb_prop in Hdd. destruct Hdd as [Ha Hde].
    destruct (directive_roundtrip Ep Ed dd x Ha Hde Hx) as [H1 H2].
    { intros a Hain. apply Hrt. unfold schema_ivalues. apply in_or_app; right. apply in_flat_map. exists dd; split; assumption. }
    rewrite H1 in H2 |- *. cbn [map]. unfold strip_ddef at 1. cbn [dd_name dd_desc dd_locs dd_args] in H2 |- *.
    rewrite H2. reflexivity. }
  (* the declared schema *)
  assert (Hdecl : declared (Doc ds None)
                  = Sch ts (flat_map (decl_directive Ed) dds)
                        (declared_root ds ts OpQuery (S_ "Query"))
                        (declared_root ds ts OpMutation (S_ "Mutation"))
                        (declared_root ds ts OpSubscription (S_ "Subscription"))
                        (flat_map (fun d => match d with DSchema _ dirs _ _ => dirs | _ => [] end) (schema_defs sc))).
  { unfold declared. cbn [doc_defs]. fold Ed. rewrite X1. fold ts. rewrite X2, X3, X4.
    rewrite app_nil_r. f_equal. unfold schema_defs. destruct (schema_def_needed sc); reflexivity. }
  (* roots *)
  assert (Hnd : NoDup (map tdef_name st)).
  { apply has_dup_NoDup. eapply has_dup_perm; [apply Permutation_map; apply Permutation_sym; exact Pst|exact Hdupt]. }
  assert (Hroot_default : forall n, default_root ts n = default_root (s_types sc) n).
  { intros n. rewrite (strip_eq_default_root n ts st Hts). unfold default_root.
    rewrite (find_type_perm st (s_types sc) n Pst Hnd). reflexivity. }
  unfold validate_schema in Hvalid.
  apply andb_prop in Hvalid; destruct Hvalid as [Hvalid _].
  apply andb_prop in Hvalid; destruct Hvalid as [Hvalid _].
  apply andb_prop in Hvalid; destruct Hvalid as [Hvalid Hvs].
  apply andb_prop in Hvalid; destruct Hvalid as [Hvalid Hvm].
  apply andb_prop in Hvalid; destruct Hvalid as [_ Hvq].
  assert (Hroots : declared_root ds ts OpQuery (S_ "Query") = s_query sc
                   /\ declared_root ds ts OpMutation (S_ "Mutation") = s_mutation sc
                   /\ declared_root ds ts OpSubscription (S_ "Subscription") = s_subscription sc
                   /\ custom_dirs (flat_map (fun d => match d with DSchema _ dirs _ _ => dirs | _ => [] end) (schema_defs sc))
                      = custom_dirs (s_dirs sc)).
  { unfold declared_root, all_ops.
    rewrite X3, X4.
    unfold schema_defs. destruct (schema_def_needed sc) eqn:Hneed; cbn [hd_error app flat_map].
    - rewrite !app_nil_r. destruct (first_ops sc) as (H1 & H2 & H3). rewrite H1, H2, H3, custom_dirs_idem. repeat split.
    - unfold schema_def_needed in Hneed. apply Bool.orb_false_iff in Hneed. destruct Hneed as [Hn1 Hn2].
      apply Bool.negb_false_iff in Hn1. apply andb_prop in Hn1. destruct Hn1 as [Hn1 Hs]. apply andb_prop in Hn1.
      destruct Hn1 as [Hq Hm]. rewrite !Hroot_default.
      rewrite (default_root_of_default sc _ _ dk_query Hq Hvq), (default_root_of_default sc _ _ dk_mutation Hm Hvm),
        (default_root_of_default sc _ _ dk_subscription Hs Hvs).
      repeat split; try (destruct (s_query sc); reflexivity); try (destruct (s_mutation sc); reflexivity);
        try (destruct (s_subscription sc); reflexivity).
      cbn [custom_dirs filter]. destruct (custom_dirs (s_dirs sc)); [reflexivity|discriminate]. }
  destruct Hroots as (Rq & Rm & Rs & Rd).
  unfold declares_again. rewrite Hdecl. cbn [s_types s_ddefs s_query s_mutation s_subscription s_dirs].
  repeat split; assumption.
Qed.

Lemma declares_again_equiv sc sc' :
  has_dup (map tdef_name (s_types sc)) = false -> has_dup (map dd_name (s_ddefs sc)) = false ->
  declares_again sc sc' -> roundtrip_equiv sc' sc = true.
Proof.
  intros Hdupt Hdupd (Hts & HD & Rq & Rm & Rs & Rd).
  set (st := sort_by tdef_name (s_types sc)) in *. set (sd := sort_by dd_name (s_ddefs sc)) in *.
  assert (Pst : Permutation st (s_types sc)) by apply sort_by_perm.
  assert (Psd : Permutation sd (s_ddefs sc)) by apply sort_by_perm.
  assert (Hnd : NoDup (map tdef_name st)).
  { apply has_dup_NoDup. eapply has_dup_perm; [apply Permutation_map; apply Permutation_sym; exact Pst|exact Hdupt]. }
  unfold roundtrip_equiv, strip_schema.
  rewrite Rq, Rm, Rs, Rd, Hts.
  change (map (fun d0 : ddef => DD (dd_name d0) (dd_desc d0) (dd_locs d0) (map strip_siv (dd_args d0))))
    with (map strip_ddef). rewrite HD.
  unfold schema_equiv. cbn [s_types s_ddefs s_query s_mutation s_subscription s_dirs].
  assert (P1 : Permutation (map strip_tdef st) (map strip_tdef (s_types sc))) by (apply Permutation_map; exact Pst).
  assert (P2 : Permutation (map strip_ddef sd) (map strip_ddef (s_ddefs sc))) by (apply Permutation_map; exact Psd).
  rewrite (types_sub_perm _ _ P1) by (rewrite strip_names; exact Hdupt).
  rewrite (types_sub_perm _ _ (Permutation_sym P1))
    by (rewrite strip_names; apply has_dup_NoDup; exact Hnd).
  rewrite (ddefs_sub_perm _ _ P2) by (rewrite strip_ddef_names; exact Hdupd).
  rewrite (ddefs_sub_perm _ _ (Permutation_sym P2))
    by (rewrite strip_ddef_names; eapply has_dup_perm; [apply Permutation_map; apply Permutation_sym; exact Psd|exact Hdupd]).
  rewrite (Permutation_length P1), (Permutation_length P2), !Nat.eqb_refl.
  rewrite !(oeqb_refl str_eqb _ str_eqb_refl), (leqb_refl dir_eqb _ dir_eqb_refl). reflexivity.
Qed.

Theorem declared_of_ast sc d :
  schema_okb sc = true -> ast_of_schema sc = Ok d ->
  (forall a, In a (schema_ivalues sc) -> default_rt (env_of_schema [] sc) (declared_env d) a) ->
  roundtrip_equiv (declared d) sc = true.
Proof.
  intros Hok Hast Hrt. pose proof (declared_of_ast_struct sc d Hok Hast Hrt) as Hs.
  unfold schema_okb in Hok.
  apply andb_prop in Hok; destruct Hok as [Hok _].
  apply andb_prop in Hok; destruct Hok as [Hok _].
  apply andb_prop in Hok; destruct Hok as [Hok _].
  apply andb_prop in Hok; destruct Hok as [Hok _].
  apply andb_prop in Hok; destruct Hok as [Hok Hdupd].
  apply andb_prop in Hok; destruct Hok as [Hok Hdupt].
  apply Bool.negb_true_iff in Hdupd, Hdupt.
  apply declares_again_equiv; assumption.
Qed.

Lemma ast_no_extensions sc d : ast_of_schema sc = Ok d -> strip_extensions d = d.
Proof.
  intros Hast. destruct (ast_of_schema_inv sc d Hast) as (dds & tds & Fd & Ft & ->).
  unfold strip_extensions. cbn [doc_defs doc_loc]. f_equal. apply filter_all.
  apply Forall_app; split; [|apply Forall_app; split].
  - unfold schema_defs. destruct (schema_def_needed sc); repeat constructor.
  - eapply Forall2_right; [|exact Fd]. intros a b Hab. cbn beta in Hab.
    destruct (def_of_ddef_shape _ _ _ Hab) as (args & -> & _). reflexivity.
  - eapply Forall2_right; [|exact Ft]. intros a b Hab. cbn beta in Hab.
    destruct (def_of_tdef_shape _ _ _ Hab) as (_ & H2 & H3 & _).
    unfold non_ext, is_extension, is_typeext. rewrite H2. destruct b; try discriminate; reflexivity.
Qed.

(* C12_members_roundtrip at the document level: for a schema SDL can express
   whose document obeys the type-system rules and lies outside the two open
   findings of C11 (defaults_stable), and whose defaults print to literals
   that coerce back (default_rt: C12_default_roundtrip_partial gives this for
   conforming values; it fails exactly for the open finding of C12), the
   builder returns a schema equivalent to the one printed. *)
Theorem members_roundtrip_doc sc d :
  schema_okb sc = true -> ast_of_schema sc = Ok d ->
  (forall a, In a (schema_ivalues sc) -> default_rt (env_of_schema [] sc) (declared_env d) a) ->
  sdl_rules_ok d -> defaults_stable d ->
  build_model (BOpts true []) d = Ok (declared d)
  /\ roundtrip_equiv (declared d) sc = true
  /\ members_roundtrip sc = true.
Proof.
  intros Hok Hast Hrt Hrules Hstable.
  assert (Hb : build_model (BOpts true []) d = Ok (declared d)).
  { destruct (ignore_extensions_strip [] d) as [H _]. rewrite H, (ast_no_extensions sc d Hast).
    apply exact_build_rules; assumption. }
  pose proof (declared_of_ast sc d Hok Hast Hrt) as He.
  split; [exact Hb|]. split; [exact He|]. unfold members_roundtrip. rewrite Hast, Hb. exact He.
Qed.
