(* OverlappingFieldsCanBeMerged through NAMED fragments: the two memo sets of
   the search (compared fragment pairs; compared (field map, fragment) pairs)
   never drop an obligation. A silent rule guarantees, for every selection set
   the rule visits, that its fields are pairwise mergeable with the fields of
   every fragment spread in it directly or transitively, and that the fields
   of the fragments reached from two of its spreads are pairwise mergeable.

   The search identifies a field map by the location of its selection set
   (Python: by the identity of the cached dict). The statements therefore have
   the hypothesis that locations are faithful: distinct selection sets have
   distinct locations (parser output), expressed by a function [M] from
   locations to field maps that every call of the search agrees with. *)
From PyGql Require Import Valid.ValidOverlap Spec.ValidSpec Proofs.ValidCloseProofs Proofs.ValidVarProofs
     Proofs.ValidMergeProofs.
From Coq Require Import Lia.

(* the inner loop of [run] *)
Section Seqf.
  Variables (f : nat) (s : schema) (frs : list (str * (ty * list selection))).
  Fixpoint seqf (cs : list call) (st0 : ostate) (b : bool) : outcome (bool * ostate) :=
    match cs with
    | [] => Ok (b, st0)
    | c' :: cs' =>
        match run f s frs c' st0 with
        | Ok (b', st') => seqf cs' st' (b || b')
        | OutOfFuel => OutOfFuel
        | Rejected k p => Rejected k p
        | Crash k => Crash k
        end
    end.
End Seqf.

Section Memo.
  Variables (s : schema) (frs : list (str * (ty * list selection))).

  Definition mexf (me : bool) (f1 f2 : finfo) : bool :=
    me || (negb (opt_name_eqb (fi_parent f1) (fi_parent f2))
           && opt_is_object s (fi_parent f1) && opt_is_object s (fi_parent f2)).
  Definition ft (f : finfo) : option tref := match fi_def f with Some d => Some (sf_type d) | None => None end.
  Definition tconf (f1 f2 : finfo) : bool :=
    match ft f1, ft f2 with Some a, Some b => types_conflict s a b | _, _ => false end.
  Definition between_calls (me : bool) (m1 m2 : fmap) : list call :=
    flat_map (fun kv => match alookup (fst kv) m2 with
                        | Some fs2 => map (fun p => CFind me (fst p) (snd p)) (cross (snd kv) fs2)
                        | None => []
                        end) m1.
  Definition sub_calls (me : bool) (p1 : option str) (l1 : loc) (s1 : list selection)
             (p2 : option str) (l2 : loc) (s2 : list selection) : list call :=
    let ff1 := fields_and_fragments s p1 s1 in
    let ff2 := fields_and_fragments s p2 s2 in
    CBetween me (fst ff1) (fst ff2)
    :: map (CFieldsFrag me l1 (fst ff1)) (snd ff2)
    ++ map (CFieldsFrag me l2 (fst ff2)) (snd ff1)
    ++ map (fun p => CFrags me (fst p) (snd p)) (cross (snd ff1) (snd ff2)).

  (* ---- one step of [run] ---- *)
  Lemma run_S_find f me f1 f2 st :
    run (S f) s frs (CFind me f1 f2) st =
    if negb (mexf me f1 f2) && negb (str_eqb (fi_name f1) (fi_name f2)) then Ok (true, st)
    else if negb (mexf me f1 f2) && negb (same_arguments (fi_args f1) (fi_args f2)) then Ok (true, st)
    else if tconf f1 f2 then Ok (true, st)
    else match fi_sub f1, fi_sub f2 with
         | Some (l1, s1), Some (l2, s2) =>
             run f s frs (CSub (mexf me f1 f2) (option_map unwrap (ft f1)) l1 s1 (option_map unwrap (ft f2)) l2 s2) st
         | _, _ => Ok (false, st)
         end.
  Proof. reflexivity. Qed.
  Lemma run_S_between f me m1 m2 st :
    run (S f) s frs (CBetween me m1 m2) st = seqf f s frs (between_calls me m1 m2) st false.
  Proof. reflexivity. Qed.
  Lemma run_S_ff f me mid m fr st :
    run (S f) s frs (CFieldsFrag me mid m fr) st =
    match q_take mid fr me (snd st) with
    | None => Ok (false, st)
    | Some q' =>
        match frag_ff s frs fr with
        | None => Ok (false, (fst st, q'))
        | Some (fm2, fns) => seqf f s frs (CBetween me m fm2 :: map (CFieldsFrag me mid m) fns) (fst st, q') false
        end
    end.
  Proof. reflexivity. Qed.
  Lemma run_S_frags f me a b st :
    run (S f) s frs (CFrags me a b) st =
    if str_eqb a b then Ok (false, st)
    else if negb (existsb (pkey_match a b me) (fst st)) then Ok (false, st)
    else let st1 := (filter (fun k => negb (pkey_match a b me k)) (fst st), snd st) in
         match frag_ff s frs a, frag_ff s frs b with
         | Some (fm1, fns1), Some (fm2, fns2) =>
             seqf f s frs (CBetween me fm1 fm2
                           :: map (fun x => CFrags me x b) fns1 ++ map (fun x => CFrags me a x) fns2) st1 false
         | _, _ => Ok (false, st1)
         end.
  Proof. reflexivity. Qed.
  Lemma run_S_sub f me p1 l1 s1 p2 l2 s2 st :
    run (S f) s frs (CSub me p1 l1 s1 p2 l2 s2) st = seqf f s frs (sub_calls me p1 l1 s1 p2 l2 s2) st false.
  Proof. reflexivity. Qed.

  (* ---- what a silent call has established, relative to a memo state ---- *)
  Definition qdone (st : ostate) (mid : loc) (g : str) (me : bool) : Prop := q_take mid g me (snd st) = None.
  Definition pdone (st : ostate) (a b : str) (me : bool) : Prop :=
    a = b \/ existsb (pkey_match a b me) (fst st) = false.

  Inductive sat (st : ostate) : call -> Prop :=
  | sat_find me f1 f2 :
      negb (mexf me f1 f2) && negb (str_eqb (fi_name f1) (fi_name f2)) = false ->
      negb (mexf me f1 f2) && negb (same_arguments (fi_args f1) (fi_args f2)) = false ->
      tconf f1 f2 = false ->
      (forall l1 s1 l2 s2, fi_sub f1 = Some (l1, s1) -> fi_sub f2 = Some (l2, s2) ->
         sat st (CSub (mexf me f1 f2) (option_map unwrap (ft f1)) l1 s1 (option_map unwrap (ft f2)) l2 s2)) ->
      sat st (CFind me f1 f2)
  | sat_between me m1 m2 : (forall c, In c (between_calls me m1 m2) -> sat st c) -> sat st (CBetween me m1 m2)
  | sat_ff me mid m g : qdone st mid g me -> sat st (CFieldsFrag me mid m g)
  | sat_frags me a b : pdone st a b me -> sat st (CFrags me a b)
  | sat_sub me p1 l1 s1 p2 l2 s2 :
      (forall c, In c (sub_calls me p1 l1 s1 p2 l2 s2) -> sat st c) -> sat st (CSub me p1 l1 s1 p2 l2 s2).

  Definition st_le (st' st : ostate) : Prop :=
    (forall mid g me, qdone st mid g me -> qdone st' mid g me)
    /\ (forall a b me, existsb (pkey_match a b me) (fst st) = false -> existsb (pkey_match a b me) (fst st') = false).

  Lemma st_le_refl st : st_le st st.
  Proof. split; auto. Qed.
  Lemma st_le_trans a b c : st_le a b -> st_le b c -> st_le a c.
  Proof. intros [H1 H2] [H3 H4]. split; intros; auto. Qed.

  Lemma pdone_mono st st' a b me : st_le st' st -> pdone st a b me -> pdone st' a b me.
  Proof. intros [_ H] [E|E]; [left; exact E|right; apply H; exact E]. Qed.

  Lemma sat_mono st st' c : st_le st' st -> sat st c -> sat st' c.
  Proof.
    intros Hle H. induction H as [me f1 f2 H1 H2 H3 _ IH|me m1 m2 _ IH|me mid m g Hq|me a b Hp|me p1 l1 s1 p2 l2 s2 _ IH].
    - apply sat_find; assumption.
    - apply sat_between. exact IH.
    - apply sat_ff. apply (proj1 Hle). exact Hq.
    - apply sat_frags. eapply pdone_mono; eassumption.
    - apply sat_sub. exact IH.
  Qed.

  Lemma pkey_match_sym a b me k : pkey_match a b me k = pkey_match b a me k.
  Proof. destruct k as [[x y] m]. simpl. rewrite Bool.orb_comm. reflexivity. Qed.
  Lemma pdone_sym st a b me : pdone st a b me -> pdone st b a me.
  Proof.
    intros [E|E]; [left; symmetry; exact E|right]. rewrite <- E. clear E. induction (fst st) as [|k P IH]; simpl; [reflexivity|].
    rewrite IH, (pkey_match_sym b a me k). reflexivity.
  Qed.

  (* ---- faithful locations ---- *)
  Variable M : loc -> fmap.
  Variable locs : list loc.

  Inductive fok : finfo -> Prop :=
  | fok_intro f :
      (forall l1 s1, fi_sub f = Some (l1, s1) ->
         M l1 = fst (fields_and_fragments s (option_map unwrap (ft f)) s1)
         /\ (forall k fs f', In (k, fs) (M l1) -> In f' fs -> fok f')
         /\ In l1 locs) ->
      fok f.
  Definition mok (m : fmap) : Prop := forall k fs f, In (k, fs) m -> In f fs -> fok f.

  Definition wfc (c : call) : Prop :=
    match c with
    | CFind _ f1 f2 => fok f1 /\ fok f2
    | CBetween _ m1 m2 => mok m1 /\ mok m2
    | CFieldsFrag _ mid m _ => m = M mid /\ mok m /\ In mid locs
    | CFrags _ _ _ => True
    | CSub _ p1 l1 s1 p2 l2 s2 =>
        (M l1 = fst (fields_and_fragments s p1 s1) /\ mok (M l1) /\ In l1 locs)
        /\ (M l2 = fst (fields_and_fragments s p2 s2) /\ mok (M l2) /\ In l2 locs)
    end.
  Hypothesis frs_ok : forall g fm fns, frag_ff s frs g = Some (fm, fns) -> mok fm.

  Lemma in_cross {A B} (l1 : list A) (l2 : list B) x y : In (x, y) (cross l1 l2) <-> In x l1 /\ In y l2.
  Proof.
    unfold cross. rewrite in_flat_map. split.
    - intros [a [Ha Hin]]. apply in_map_iff in Hin. destruct Hin as [b [E Hb]]. inversion E; subst. tauto.
    - intros [Hx Hy]. exists x. split; [exact Hx|]. apply in_map_iff. exists y. tauto.
  Qed.

  Lemma between_calls_in me m1 m2 c :
    In c (between_calls me m1 m2) <->
    exists k fs1 fs2 g1 g2, In (k, fs1) m1 /\ alookup k m2 = Some fs2 /\ In g1 fs1 /\ In g2 fs2 /\ c = CFind me g1 g2.
  Proof.
    unfold between_calls. rewrite in_flat_map. split.
    - intros [[k fs1] [Hk Hc]]. simpl in Hc. destruct (alookup k m2) as [fs2|] eqn:E; [|destruct Hc].
      apply in_map_iff in Hc. destruct Hc as [[g1 g2] [<- Hp]]. apply in_cross in Hp. simpl.
      exists k, fs1, fs2, g1, g2. tauto.
    - intros (k & fs1 & fs2 & g1 & g2 & Hk & E & H1 & H2 & ->). exists (k, fs1). split; [exact Hk|]. simpl. rewrite E.
      apply in_map_iff. exists (g1, g2). split; [reflexivity|]. apply in_cross. tauto.
  Qed.

  Lemma wfc_between me m1 m2 c : mok m1 -> mok m2 -> In c (between_calls me m1 m2) -> wfc c.
  Proof.
    intros H1 H2 Hc. apply between_calls_in in Hc. destruct Hc as (k & fs1 & fs2 & g1 & g2 & Hk & E & Hg1 & Hg2 & ->).
    simpl. split; [eapply H1; eassumption|eapply H2; [apply alookup_In; exact E|exact Hg2]].
  Qed.

  Lemma wfc_sub me p1 l1 s1 p2 l2 s2 c :
    wfc (CSub me p1 l1 s1 p2 l2 s2) -> In c (sub_calls me p1 l1 s1 p2 l2 s2) -> wfc c.
  Proof.
    intros [[E1 [K1 L1]] [E2 [K2 L2]]] Hc. unfold sub_calls in Hc. cbv zeta in Hc. destruct Hc as [<-|Hc].
    - unfold wfc. rewrite <- E1, <- E2. tauto.
    - apply in_app_or in Hc. destruct Hc as [Hc|Hc].
      + apply in_map_iff in Hc. destruct Hc as [x [<- _]]. unfold wfc. rewrite <- E1. tauto.
      + apply in_app_or in Hc. destruct Hc as [Hc|Hc].
        * apply in_map_iff in Hc. destruct Hc as [x [<- _]]. unfold wfc. rewrite <- E2. tauto.
        * apply in_map_iff in Hc. destruct Hc as [x [<- _]]. exact I.
  Qed.

  (* ---- the memo sets ---- *)
  Lemma loc_eqb_true a b : loc_eqb a b = true -> a = b.
  Proof.
    destruct a as [[x y]|], b as [[x' y']|]; simpl; try discriminate; [|reflexivity].
    intros H. apply andb_prop in H. destruct H as [H1 H2]. apply Nat.eqb_eq in H1. apply Nat.eqb_eq in H2. subst. reflexivity.
  Qed.
  Lemma loc_eqb_refl a : loc_eqb a a = true.
  Proof. destruct a as [[x y]|]; simpl; [|reflexivity]. rewrite !Nat.eqb_refl. reflexivity. Qed.

  Lemma existsb_filter_neg {A} (p : A -> bool) l : existsb p (filter (fun k => negb (p k)) l) = false.
  Proof.
    induction l as [|x l IH]; simpl; [reflexivity|]. destruct (p x) eqn:E; simpl; [exact IH|]. rewrite E, IH. reflexivity.
  Qed.
  Lemma existsb_filter_le {A} (p q : A -> bool) l : existsb p l = false -> existsb p (filter q l) = false.
  Proof.
    induction l as [|x l IH]; simpl; [reflexivity|]. intros H. apply Bool.orb_false_iff in H. destruct H as [H1 H2].
    destruct (q x); simpl; [rewrite H1|]; apply IH; exact H2.
  Qed.

  Lemma ematch_both g me g2 me2 k : ematch g me k = true -> ematch g2 me2 k = true -> g2 = g /\ me2 = me.
  Proof.
    unfold ematch. intros H1 H2. apply andb_prop in H1. apply andb_prop in H2. destruct H1 as [A1 B1], H2 as [A2 B2].
    apply Bool.eqb_prop in A1. apply Bool.eqb_prop in A2. apply str_eqb_eq in B1. apply str_eqb_eq in B2. split; congruence.
  Qed.

  (* a key leaves the set only when it is the key taken *)
  Lemma q_take_other mid g me : forall q q', q_take mid g me q = Some q' ->
    forall mid2 g2 me2, q_take mid2 g2 me2 q <> None -> q_take mid2 g2 me2 q' = None ->
    mid2 = mid /\ g2 = g /\ me2 = me.
  Proof.
    induction q as [|[l' es] q IH]; intros q' H mid2 g2 me2 Hav Hgone; simpl in H; [discriminate|].
    destruct (loc_eqb l' mid && existsb (ematch g me) es) eqn:E.
    - inversion H; subst q'. clear H. simpl in Hav, Hgone. apply andb_prop in E. destruct E as [El Ee].
      destruct (loc_eqb l' mid2) eqn:El2; simpl in Hav, Hgone.
      + destruct (existsb (ematch g2 me2) (filter (fun k => negb (ematch g me k)) es)) eqn:Ef; [discriminate|].
        destruct (q_take mid2 g2 me2 q) as [r|] eqn:Er; [discriminate|].
        destruct (existsb (ematch g2 me2) es) eqn:Ee2; [|exfalso; apply Hav; reflexivity].
        apply existsb_exists in Ee2. destruct Ee2 as [k [Hk Hm2]].
        destruct (ematch g me k) eqn:Hm.
        * destruct (ematch_both _ _ _ _ _ Hm Hm2) as [-> ->]. apply loc_eqb_true in El. apply loc_eqb_true in El2.
          split; [congruence|tauto].
        * exfalso. assert (Hin : In k (filter (fun k => negb (ematch g me k)) es)) by (apply filter_In; rewrite Hm; tauto).
          assert (Ht : existsb (ematch g2 me2) (filter (fun k => negb (ematch g me k)) es) = true)
            by (apply existsb_exists; exists k; tauto).
          rewrite Ht in Ef. discriminate.
      + destruct (q_take mid2 g2 me2 q) as [r|] eqn:Er; [discriminate|]. exfalso. apply Hav. reflexivity.
    - destruct (q_take mid g me q) as [r|] eqn:Er; [|discriminate]. inversion H; subst q'. clear H. simpl in Hav, Hgone.
      destruct (loc_eqb l' mid2 && existsb (ematch g2 me2) es) eqn:E2; [discriminate|].
      destruct (q_take mid2 g2 me2 r) as [r2|] eqn:Er2; [discriminate|].
      apply (IH r eq_refl mid2 g2 me2); [|exact Er2]. intros Hn. apply Hav. rewrite Hn. reflexivity.
  Qed.

  Lemma q_take_le mid g me : forall q q', q_take mid g me q = Some q' ->
    forall mid2 g2 me2, q_take mid2 g2 me2 q = None -> q_take mid2 g2 me2 q' = None.
  Proof.
    induction q as [|[l' es] q IH]; intros q' H mid2 g2 me2 Hn; simpl in H; [discriminate|].
    destruct (loc_eqb l' mid && existsb (ematch g me) es) eqn:E.
    - inversion H; subst q'. simpl in Hn |- *.
      destruct (loc_eqb l' mid2 && existsb (ematch g2 me2) es) eqn:E2; [discriminate|].
      destruct (q_take mid2 g2 me2 q) as [r|]; [discriminate|].
      destruct (loc_eqb l' mid2); simpl in E2 |- *; [|reflexivity]. rewrite (existsb_filter_le _ _ _ E2). reflexivity.
    - destruct (q_take mid g me q) as [r|] eqn:Er; [|discriminate]. inversion H; subst q'. simpl in Hn |- *.
      destruct (loc_eqb l' mid2 && existsb (ematch g2 me2) es); [discriminate|].
      destruct (q_take mid2 g2 me2 q) as [r2|] eqn:Er2; [discriminate|]. rewrite (IH r eq_refl _ _ _ Er2). reflexivity.
  Qed.

  Lemma q_take_fst mid g me : forall q q', q_take mid g me q = Some q' -> map fst q' = map fst q.
  Proof.
    induction q as [|[l' es] q IH]; intros q' H; simpl in H; [discriminate|].
    destruct (loc_eqb l' mid && existsb (ematch g me) es).
    - inversion H; reflexivity.
    - destruct (q_take mid g me q) as [r|]; [|discriminate]. inversion H; subst. simpl. rewrite (IH r eq_refl). reflexivity.
  Qed.

  Lemma q_take_absent mid g me : forall q, ~ In mid (map fst q) -> q_take mid g me q = None.
  Proof.
    induction q as [|[l' es] q IH]; intros Hn; simpl; [reflexivity|].
    destruct (loc_eqb l' mid) eqn:El; simpl.
    - apply loc_eqb_true in El. exfalso. apply Hn. left. exact El.
    - rewrite IH; [reflexivity|]. intros Hin. apply Hn. right. exact Hin.
  Qed.

  Lemma q_take_gone mid g me : forall q q', NoDup (map fst q) -> q_take mid g me q = Some q' -> q_take mid g me q' = None.
  Proof.
    induction q as [|[l' es] q IH]; intros q' Hnd H; simpl in H; [discriminate|]. simpl in Hnd. inversion Hnd as [|x xs Hnotin Hnd']; subst.
    destruct (loc_eqb l' mid && existsb (ematch g me) es) eqn:E.
    - inversion H; subst q'. simpl. rewrite existsb_filter_neg. rewrite Bool.andb_false_r.
      apply andb_prop in E. destruct E as [El _]. apply loc_eqb_true in El. subst l'.
      rewrite (q_take_absent mid g me q Hnotin). reflexivity.
    - destruct (q_take mid g me q) as [r|] eqn:Er; [|discriminate]. inversion H; subst q'. simpl. rewrite E.
      rewrite (IH r Hnd' eq_refl). reflexivity.
  Qed.

  Lemma p_other a b me P a2 b2 me2 :
    existsb (pkey_match a2 b2 me2) P = true ->
    existsb (pkey_match a2 b2 me2) (filter (fun k => negb (pkey_match a b me k)) P) = false ->
    me2 = me /\ ((a2 = a /\ b2 = b) \/ (a2 = b /\ b2 = a)).
  Proof.
    intros H1 H2. apply existsb_exists in H1. destruct H1 as [k [Hk Hm2]].
    destruct (pkey_match a b me k) eqn:Hm.
    - destruct k as [[x y] m]. simpl in Hm, Hm2. apply andb_prop in Hm. apply andb_prop in Hm2.
      destruct Hm as [A1 B1], Hm2 as [A2 B2]. apply Bool.eqb_prop in A1. apply Bool.eqb_prop in A2.
      split; [congruence|].
      apply Bool.orb_true_iff in B1. apply Bool.orb_true_iff in B2.
      destruct B1 as [B1|B1], B2 as [B2|B2]; apply andb_prop in B1; apply andb_prop in B2;
        destruct B1 as [C1 D1], B2 as [C2 D2];
        apply str_eqb_eq in C1; apply str_eqb_eq in D1; apply str_eqb_eq in C2; apply str_eqb_eq in D2; subst; tauto.
    - exfalso. assert (Hin : In k (filter (fun k => negb (pkey_match a b me k)) P)) by (apply filter_In; rewrite Hm; tauto).
      assert (Ht : existsb (pkey_match a2 b2 me2) (filter (fun k => negb (pkey_match a b me k)) P) = true)
        by (apply existsb_exists; exists k; tauto).
      rewrite Ht in H2. discriminate.
  Qed.

  (* ---- coverage of the keys taken ---- *)
  Definition covQ (st : ostate) (mid : loc) (g : str) (me : bool) : Prop :=
    forall fm2 fns, frag_ff s frs g = Some (fm2, fns) ->
      sat st (CBetween me (M mid) fm2) /\ forall g', In g' fns -> qdone st mid g' me.
  Definition covP (st : ostate) (a b : str) (me : bool) : Prop :=
    forall fm1 fns1 fm2 fns2, frag_ff s frs a = Some (fm1, fns1) -> frag_ff s frs b = Some (fm2, fns2) ->
      (sat st (CBetween me fm1 fm2) \/ sat st (CBetween me fm2 fm1))
      /\ (forall x, In x fns1 -> pdone st x b me) /\ (forall x, In x fns2 -> pdone st a x me).
  Definition newcov (st st' : ostate) : Prop :=
    (forall mid g me, ~ qdone st mid g me -> qdone st' mid g me -> covQ st' mid g me)
    /\ (forall a b me, existsb (pkey_match a b me) (fst st) = true -> existsb (pkey_match a b me) (fst st') = false ->
                       covP st' a b me).

  Lemma covQ_mono st st' mid g me : st_le st' st -> covQ st mid g me -> covQ st' mid g me.
  Proof.
    intros Hle H fm2 fns E. destruct (H fm2 fns E) as [H1 H2]. split; [eapply sat_mono; eassumption|].
    intros g' Hg'. apply (proj1 Hle). apply H2. exact Hg'.
  Qed.
  Lemma covP_mono st st' a b me : st_le st' st -> covP st a b me -> covP st' a b me.
  Proof.
    intros Hle H fm1 fns1 fm2 fns2 E1 E2. destruct (H _ _ _ _ E1 E2) as (H1 & H2 & H3). split; [|split].
    - destruct H1 as [H1|H1]; [left|right]; eapply sat_mono; eassumption.
    - intros x Hx. eapply pdone_mono; [exact Hle|apply H2; exact Hx].
    - intros x Hx. eapply pdone_mono; [exact Hle|apply H3; exact Hx].
  Qed.
  Lemma covP_sym st a b me : covP st a b me -> covP st b a me.
  Proof.
    intros H fm1 fns1 fm2 fns2 E1 E2. destruct (H _ _ _ _ E2 E1) as (H1 & H2 & H3). split; [tauto|]. split.
    - intros x Hx. apply pdone_sym. apply H3. exact Hx.
    - intros x Hx. apply pdone_sym. apply H2. exact Hx.
  Qed.

  Lemma newcov_refl st : newcov st st.
  Proof. split; [intros mid g me H1 H2; contradiction|intros a b me H1 H2; congruence]. Qed.
  Lemma newcov_trans st st1 st2 : st_le st2 st1 -> newcov st st1 -> newcov st1 st2 -> newcov st st2.
  Proof.
    intros Hle [A1 B1] [A2 B2]. split.
    - intros mid g me Hav Hd. destruct (q_take mid g me (snd st1)) as [r|] eqn:E.
      + apply A2; [unfold qdone; rewrite E; discriminate|exact Hd].
      + eapply covQ_mono; [exact Hle|]. apply A1; [exact Hav|exact E].
    - intros a b me Hav Hd. destruct (existsb (pkey_match a b me) (fst st1)) eqn:E.
      + apply B2; assumption.
      + eapply covP_mono; [exact Hle|]. apply B1; assumption.
  Qed.

  Definition post (st st' : ostate) : Prop :=
    st_le st' st /\ map fst (snd st') = map fst (snd st) /\ newcov st st'.

  Lemma seqf_sound f
    (IHf : forall c st st', run f s frs c st = Ok (false, st') -> wfc c -> NoDup (map fst (snd st)) ->
                            post st st' /\ sat st' c) :
    forall cs st0 b st', seqf f s frs cs st0 b = Ok (false, st') -> (forall c, In c cs -> wfc c) ->
      NoDup (map fst (snd st0)) ->
      b = false /\ post st0 st' /\ forall c, In c cs -> sat st' c.
  Proof.
    induction cs as [|c cs IH]; intros st0 b st' H Hwf Hnd; simpl in H.
    - inversion H; subst. split; [reflexivity|]. split; [|intros c []].
      split; [apply st_le_refl|]. split; [reflexivity|apply newcov_refl].
    - destruct (run f s frs c st0) as [[b1 st1]| | |] eqn:Hr; try discriminate.
      assert (Hnd1 : forall (E : b1 = false), NoDup (map fst (snd st1))).
      { intros ->. destruct (IHf c st0 st1 Hr (Hwf c (or_introl eq_refl)) Hnd) as [(_ & Ef & _) _]. rewrite Ef. exact Hnd. }
      destruct b1.
      + (* a conflict: the accumulated flag stays true *)
        exfalso. rewrite Bool.orb_true_r in H. clear -H. revert st1 H. induction cs as [|c' cs IHc]; intros st1 H; simpl in H.
        * discriminate.
        * destruct (run f s frs c' st1) as [[b2 st2]| | |]; try discriminate. simpl in H. eapply IHc. exact H.
      + rewrite Bool.orb_false_r in H.
        destruct (IHf c st0 st1 Hr (Hwf c (or_introl eq_refl)) Hnd) as [(Hle1 & Ef1 & Hn1) Hs1].
        destruct (IH st1 b st' H (fun c' Hc' => Hwf c' (or_intror Hc')) (Hnd1 eq_refl)) as (Eb & (Hle2 & Ef2 & Hn2) & Hs2).
        split; [exact Eb|]. split.
        * split; [eapply st_le_trans; eassumption|]. split; [congruence|eapply newcov_trans; eassumption].
        * intros c' [<-|Hc']; [eapply sat_mono; eassumption|apply Hs2; exact Hc'].
  Qed.

  Theorem run_sound : forall fuel c st st',
    run fuel s frs c st = Ok (false, st') -> wfc c -> NoDup (map fst (snd st)) -> post st st' /\ sat st' c.
  Proof.
    induction fuel as [|f IHf]; intros c st st' H Hwf Hnd; [discriminate|].
    pose proof (seqf_sound f IHf) as Hseq.
    destruct c as [me f1 f2|me m1 m2|me mid m g|me a b|me p1 l1 s1 p2 l2 s2].
    - (* CFind *)
      rewrite run_S_find in H.
      destruct (negb (mexf me f1 f2) && negb (str_eqb (fi_name f1) (fi_name f2))) eqn:E1; [discriminate|].
      destruct (negb (mexf me f1 f2) && negb (same_arguments (fi_args f1) (fi_args f2))) eqn:E2; [discriminate|].
      destruct (tconf f1 f2) eqn:E3; [discriminate|].
      destruct Hwf as [K1 K2].
      destruct (fi_sub f1) as [[l1 s1]|] eqn:S1.
      + destruct (fi_sub f2) as [[l2 s2]|] eqn:S2.
        * destruct (IHf _ _ _ H) as [Hp Hs]; [|exact Hnd|].
          { inversion K1 as [x Hx]; subst. inversion K2 as [y Hy]; subst. simpl. split; [apply Hx; exact S1|apply Hy; exact S2]. }
          split; [exact Hp|]. apply sat_find; try assumption.
          intros l1' s1' l2' s2' Ea Eb. rewrite S1 in Ea. rewrite S2 in Eb. inversion Ea; inversion Eb; subst. exact Hs.
        * inversion H; subst. split; [split; [apply st_le_refl|split; [reflexivity|apply newcov_refl]]|].
          apply sat_find; try assumption. intros l1' s1' l2' s2' _ Eb. rewrite S2 in Eb. discriminate.
      + inversion H; subst. split; [split; [apply st_le_refl|split; [reflexivity|apply newcov_refl]]|].
        apply sat_find; try assumption. intros l1' s1' l2' s2' Ea _. rewrite S1 in Ea. discriminate.
    - (* CBetween *)
      rewrite run_S_between in H. destruct Hwf as [K1 K2].
      destruct (Hseq _ _ _ _ H) as (_ & Hp & Hs); [intros c Hc; exact (wfc_between me m1 m2 c K1 K2 Hc)|exact Hnd|].
      split; [exact Hp|apply sat_between; exact Hs].
    - (* CFieldsFrag *)
      rewrite run_S_ff in H. destruct Hwf as [EM [Km Lm]].
      destruct (q_take mid g me (snd st)) as [q'|] eqn:Eq.
      + assert (Hle1 : st_le (fst st, q') st).
        { split; [|intros a b me0 E; exact E]. intros mid2 g2 me2 Hd. unfold qdone in *. simpl. eapply q_take_le; eassumption. }
        assert (Hgone : qdone (fst st, q') mid g me) by (unfold qdone; simpl; eapply q_take_gone; eassumption).
        assert (Hf1 : map fst (snd (fst st, q')) = map fst (snd st)) by (simpl; eapply q_take_fst; eassumption).
        assert (Hother : forall stf, st_le stf (fst st, q') -> newcov (fst st, q') stf -> covQ stf mid g me -> newcov st stf).
        { intros stf Hlef [A B] Hc. split.
          - intros mid2 g2 me2 Hav Hd. destruct (q_take mid2 g2 me2 q') as [r|] eqn:E2.
            + apply A; [unfold qdone; simpl; rewrite E2; discriminate|exact Hd].
            + destruct (q_take_other _ _ _ _ _ Eq mid2 g2 me2 Hav E2) as (-> & -> & ->). exact Hc.
          - intros a b me2 Hav Hd. apply B; [exact Hav|exact Hd]. }
        destruct (frag_ff s frs g) as [[fm2 fns]|] eqn:Ef.
        * destruct (Hseq _ _ _ _ H) as (_ & (Hle2 & Ef2 & Hn2) & Hs).
          { intros c [<-|Hc]; [simpl; split; [exact Km|eapply frs_ok; exact Ef]|].
            apply in_map_iff in Hc. destruct Hc as [x [<- _]]. simpl. tauto. }
          { rewrite Hf1. exact Hnd. }
          assert (Hcov : covQ st' mid g me).
          { intros fm2' fns' E'. rewrite Ef in E'. inversion E'; subst fm2' fns'. split.
            - rewrite <- EM. apply Hs. left. reflexivity.
            - intros g' Hg'. assert (Hsat : sat st' (CFieldsFrag me mid m g')) by (apply Hs; right; apply in_map; exact Hg').
              inversion Hsat; subst. assumption. }
          split; [split; [eapply st_le_trans; eassumption|split; [congruence|apply Hother; assumption]]|].
          apply sat_ff. apply (proj1 Hle2). exact Hgone.
        * inversion H; subst st'. split; [split; [exact Hle1|split; [exact Hf1|]]|apply sat_ff; exact Hgone].
          apply Hother; [apply st_le_refl|apply newcov_refl|]. intros fm2 fns E'. congruence.
      + inversion H; subst. split; [split; [apply st_le_refl|split; [reflexivity|apply newcov_refl]]|apply sat_ff; exact Eq].
    - (* CFrags *)
      rewrite run_S_frags in H.
      destruct (str_eqb_spec a b) as [Eab|Nab].
      { inversion H; subst. split; [split; [apply st_le_refl|split; [reflexivity|apply newcov_refl]]|apply sat_frags; left; reflexivity]. }
      destruct (existsb (pkey_match a b me) (fst st)) eqn:Ex; cbv beta iota zeta delta [negb] in H.
      2:{ inversion H; subst. split; [split; [apply st_le_refl|split; [reflexivity|apply newcov_refl]]|apply sat_frags; right; exact Ex]. }
      set (st1 := (filter (fun k => negb (pkey_match a b me k)) (fst st), snd st)) in *.
      assert (Hle1 : st_le st1 st).
      { split; [intros mid2 g2 me2 Hd; exact Hd|]. intros a2 b2 me2 E. unfold st1. simpl. apply existsb_filter_le. exact E. }
      assert (Hgone : existsb (pkey_match a b me) (fst st1) = false) by (unfold st1; simpl; apply existsb_filter_neg).
      assert (Hother : forall stf, st_le stf st1 -> newcov st1 stf -> covP stf a b me -> newcov st stf).
      { intros stf Hlef [A B] Hc. split.
        - intros mid2 g2 me2 Hav Hd. apply A; [exact Hav|exact Hd].
        - intros a2 b2 me2 Hav Hd. destruct (existsb (pkey_match a2 b2 me2) (fst st1)) eqn:E2.
          + apply B; assumption.
          + unfold st1 in E2. simpl in E2. destruct (p_other _ _ _ _ _ _ _ Hav E2) as [-> [[-> ->]|[-> ->]]]; [exact Hc|].
            apply covP_sym. exact Hc. }
      destruct (frag_ff s frs a) as [[fm1 fns1]|] eqn:Ea.
      + destruct (frag_ff s frs b) as [[fm2 fns2]|] eqn:Eb.
        * destruct (Hseq _ _ _ _ H) as (_ & (Hle2 & Ef2 & Hn2) & Hs).
          { intros c [<-|Hc]; [simpl; split; eapply frs_ok; eassumption|].
            apply in_app_or in Hc. destruct Hc as [Hc|Hc]; apply in_map_iff in Hc; destruct Hc as [x [<- _]]; exact I. }
          { exact Hnd. }
          assert (Hcov : covP st' a b me).
          { intros fm1' fns1' fm2' fns2' E1' E2'. rewrite Ea in E1'. rewrite Eb in E2'. inversion E1'; inversion E2'; subst. split; [|split].
            - left. apply Hs. left. reflexivity.
            - intros x Hx. assert (Hsat : sat st' (CFrags me x b)).
              { apply Hs. right. apply in_or_app. left. apply in_map_iff. exists x. tauto. }
              inversion Hsat; subst. assumption.
            - intros x Hx. assert (Hsat : sat st' (CFrags me a x)).
              { apply Hs. right. apply in_or_app. right. apply in_map_iff. exists x. tauto. }
              inversion Hsat; subst. assumption. }
          split; [split; [eapply st_le_trans; eassumption|split; [rewrite Ef2; reflexivity|apply Hother; assumption]]|].
          apply sat_frags. right. apply (proj2 Hle2). exact Hgone.
        * inversion H; subst st'. split; [split; [exact Hle1|split; [reflexivity|]]|apply sat_frags; right; exact Hgone].
          apply Hother; [apply st_le_refl|apply newcov_refl|]. intros fm1' fns1' fm2' fns2' _ E'. congruence.
      + inversion H; subst st'. split; [split; [exact Hle1|split; [reflexivity|]]|apply sat_frags; right; exact Hgone].
        apply Hother; [apply st_le_refl|apply newcov_refl|]. intros fm1' fns1' fm2' fns2' E' _. congruence.
    - (* CSub *)
      rewrite run_S_sub in H.
      destruct (Hseq _ _ _ _ H) as (_ & Hp & Hs); [intros c Hc; eapply wfc_sub; eassumption|exact Hnd|].
      split; [exact Hp|apply sat_sub; exact Hs].
  Qed.

  Lemma run_list_sound fuel : forall cs st0 b st', run_list fuel s frs cs st0 b = Ok (false, st') ->
    (forall c, In c cs -> wfc c) -> NoDup (map fst (snd st0)) ->
    post st0 st' /\ forall c, In c cs -> sat st' c.
  Proof.
    induction cs as [|c cs IH]; intros st0 b st' H Hwf Hnd; simpl in H.
    - inversion H; subst. split; [|intros c []]. split; [apply st_le_refl|]. split; [reflexivity|apply newcov_refl].
    - destruct (run fuel s frs c st0) as [[b1 st1]| | |] eqn:Hr; simpl in H; try discriminate.
      destruct (run_list_silent _ _ _ _ _ _ _ H) as [Eb _]. apply Bool.orb_false_iff in Eb. destruct Eb as [-> ->].
      destruct (run_sound _ _ _ _ Hr (Hwf c (or_introl eq_refl)) Hnd) as [(Hle1 & Ef1 & Hn1) Hs1].
      destruct (IH st1 _ st' H (fun c' Hc' => Hwf c' (or_intror Hc'))) as ((Hle2 & Ef2 & Hn2) & Hs2); [rewrite Ef1; exact Hnd|].
      split.
      + split; [eapply st_le_trans; eassumption|]. split; [congruence|eapply newcov_trans; eassumption].
      + intros c' [<-|Hc']; [eapply sat_mono; eassumption|apply Hs2; exact Hc'].
  Qed.

  Definition events_ok (es : list ev) : Prop :=
    forall parent l sels, In (ESelSet parent l sels) es ->
      M l = fst (fields_and_fragments s parent sels) /\ mok (M l) /\ In l locs.

  Lemma in_perms {A} (l : list A) x y : In (x, y) (perms l) -> In x l /\ In y l.
  Proof.
    induction l as [|z zs IH]; simpl; [tauto|]. intros H. apply in_app_or in H. destruct H as [H|H].
    - apply in_map_iff in H. destruct H as [w [E Hw]]. inversion E; subst. tauto.
    - destruct (IH H). tauto.
  Qed.

  Lemma wfc_selset parent l sels c :
    M l = fst (fields_and_fragments s parent sels) -> mok (M l) -> In l locs -> In c (selset_calls s parent l sels) -> wfc c.
  Proof.
    intros EM Km Ll Hc. unfold selset_calls in Hc. cbv zeta in Hc. rewrite <- EM in Hc.
    apply in_app_or in Hc. destruct Hc as [Hc|Hc].
    - apply in_flat_map in Hc. destruct Hc as [[k fs] [Hk Hc]]. apply in_map_iff in Hc. destruct Hc as [[g1 g2] [<- Hp]].
      apply in_perms in Hp. simpl in *. split; eapply Km; try exact Hk; tauto.
    - apply in_app_or in Hc. destruct Hc as [Hc|Hc]; apply in_map_iff in Hc; destruct Hc as [x [<- _]]; simpl; tauto.
  Qed.

  Theorem overlap_events_sound fuel : forall es st,
    overlap_events fuel s frs es st = Ok [] -> events_ok es -> NoDup (map fst (snd st)) ->
    exists stf, post st stf /\
      forall parent l sels, In (ESelSet parent l sels) es ->
        forall c, In c (selset_calls s parent l sels) -> sat stf c.
  Proof.
    induction es as [|e es IH]; intros st H Hok Hnd.
    - exists st. split; [|intros ? ? ? []]. split; [apply st_le_refl|]. split; [reflexivity|apply newcov_refl].
    - assert (Hok' : events_ok es) by (intros p l0 ss Hin; apply Hok; right; exact Hin).
      destruct e as [| parent l sels | | |];
        try (simpl in H; destruct (IH st H Hok' Hnd) as [stf [Hp Hs]]; exists stf; split; [exact Hp|];
             intros p0 l0 ss0 [E|Hin]; [discriminate|apply Hs; exact Hin]).
      simpl in H.
      destruct (run_list fuel s frs (selset_calls s parent l sels) st false) as [[b1 st1]| | |] eqn:Hr; simpl in H; try discriminate.
      destruct (overlap_events fuel s frs es st1) as [rest| | |] eqn:Hrest; simpl in H; try discriminate.
      inversion H as [Happ]. apply app_eq_nil in Happ. destruct Happ as [Hb ->]. destruct b1; [discriminate|].
      destruct (Hok parent l sels (or_introl eq_refl)) as [EM [Km Ll]].
      destruct (run_list_sound _ _ _ _ _ Hr) as ((Hle1 & Ef1 & Hn1) & Hs1);
        [intros c Hc; eapply wfc_selset; eassumption|exact Hnd|].
      destruct (IH st1 Hrest Hok') as [stf [(Hle2 & Ef2 & Hn2) Hs2]]; [rewrite Ef1; exact Hnd|].
      exists stf. split.
      + split; [eapply st_le_trans; eassumption|]. split; [congruence|eapply newcov_trans; eassumption].
      + intros p0 l0 ss0 [E|Hin].
        * inversion E; subst. intros c Hc. eapply sat_mono; [exact Hle2|apply Hs1; exact Hc].
        * apply Hs2. exact Hin.
  Qed.

  (* ---- from the final memo state to the fields of the fragments ---- *)
  Lemma cond_mergeable f1 f2 :
    negb (mexf false f1 f2) && negb (str_eqb (fi_name f1) (fi_name f2)) = false ->
    negb (mexf false f1 f2) && negb (same_arguments (fi_args f1) (fi_args f2)) = false ->
    tconf f1 f2 = false -> pair_mergeable s f1 f2.
  Proof.
    intros E1 E2 E3. unfold pair_mergeable, exclusive_parents.
    unfold mexf in E1, E2. simpl in E1, E2. split.
    - destruct (negb (opt_name_eqb (fi_parent f1) (fi_parent f2)) && opt_is_object s (fi_parent f1)
                && opt_is_object s (fi_parent f2)) eqn:Hm; simpl in E1, E2.
      + left. apply andb_prop in Hm. destruct Hm as [H12 H3]. apply andb_prop in H12. destruct H12 as [H1 H2].
        apply Bool.negb_true_iff in H1. tauto.
      + right. apply Bool.negb_false_iff in E1. apply Bool.negb_false_iff in E2. apply str_eqb_eq in E1.
        split; [exact E1|apply same_arguments_sound; exact E2].
    - intros d1 d2 D1 D2. unfold tconf, ft in E3. rewrite D1, D2 in E3. apply types_conflict_sound. exact E3.
  Qed.

  Lemma sat_find_mergeable st f1 f2 : sat st (CFind false f1 f2) -> pair_mergeable s f1 f2.
  Proof. intros H. inversion H as [me g1 g2 E1 E2 E3 _| | | |]; subst. apply cond_mergeable; assumption. Qed.

  (* fragment g' is spread, directly or through other fragments, by fragment g *)
  Inductive sreach : str -> str -> Prop :=
  | sr_refl g : sreach g g
  | sr_step g g1 g' fm fns : sreach g g1 -> frag_ff s frs g1 = Some (fm, fns) -> In g' fns -> sreach g g'.

  (* the pairs the comparison of two fragments unfolds to (an identical pair is
     not unfolded: it is the business of that fragment's own selection set) *)
  Inductive preach (a b : str) : str -> str -> Prop :=
  | pr_here : preach a b a b
  | pr_left x y x' fm fns fm' fns' : preach a b x y -> x <> y -> frag_ff s frs x = Some (fm, fns) ->
      frag_ff s frs y = Some (fm', fns') -> In x' fns -> preach a b x' y
  | pr_right x y y' fm fns fm' fns' : preach a b x y -> x <> y -> frag_ff s frs x = Some (fm', fns') ->
      frag_ff s frs y = Some (fm, fns) -> In y' fns -> preach a b x y'.

  Definition maps_mergeable (m1 m2 : fmap) : Prop :=
    forall k fs1 fs2 f1 f2, In (k, fs1) m1 -> alookup k m2 = Some fs2 -> In f1 fs1 -> In f2 fs2 -> pair_mergeable s f1 f2.

  Lemma sat_between_mergeable st m1 m2 : sat st (CBetween false m1 m2) -> maps_mergeable m1 m2.
  Proof.
    intros H k fs1 fs2 f1 f2 Hk E H1 H2. inversion H as [|me a b Hall| | |]; subst.
    eapply sat_find_mergeable. apply Hall. apply between_calls_in. exists k, fs1, fs2, f1, f2. tauto.
  Qed.

  Section Final.
    Variables (st0 stf : ostate).
    Hypothesis Hcov : newcov st0 stf.

    Lemma closure_Q l g0 g : qdone stf l g0 false ->
      (forall x fm fns, frag_ff s frs x = Some (fm, fns) -> ~ qdone st0 l x false) ->
      sreach g0 g -> qdone stf l g false.
    Proof.
      intros H0 Hav Hr. induction Hr as [g|g g1 g' fm fns Hr IH Ef Hin]; [exact H0|].
      specialize (IH H0). destruct (proj1 Hcov l g1 false (Hav _ _ _ Ef) IH fm fns Ef) as [_ Hall]. apply Hall. exact Hin.
    Qed.

    Lemma closure_P a b x y :
      (forall u v fm fns fm' fns', frag_ff s frs u = Some (fm, fns) -> frag_ff s frs v = Some (fm', fns') ->
                                   existsb (pkey_match u v false) (fst st0) = true) ->
      pdone stf a b false -> preach a b x y -> pdone stf x y false.
    Proof.
      intros Hav H0 Hr. induction Hr as [|x y x' fm fns fm' fns' Hr IH Hne Ex Ey Hin|x y y' fm fns fm' fns' Hr IH Hne Ex Ey Hin];
        [exact H0| |].
      - destruct IH as [E|E]; [contradiction|].
        destruct (proj2 Hcov x y false (Hav _ _ _ _ _ _ Ex Ey) E _ _ _ _ Ex Ey) as (_ & Hl & _). apply Hl. exact Hin.
      - destruct IH as [E|E]; [contradiction|].
        destruct (proj2 Hcov x y false (Hav _ _ _ _ _ _ Ex Ey) E _ _ _ _ Ex Ey) as (_ & _ & Hr'). apply Hr'. exact Hin.
    Qed.
  End Final.

  (* ---- the memo-free search ---- *)
  (* one unfolding of a call without the memo sets: the local conditions of a
     pair of fields, and the calls it makes *)
  Definition step (X : call -> Prop) (c : call) : Prop :=
    match c with
    | CFind me f1 f2 =>
        negb (mexf me f1 f2) && negb (str_eqb (fi_name f1) (fi_name f2)) = false
        /\ negb (mexf me f1 f2) && negb (same_arguments (fi_args f1) (fi_args f2)) = false
        /\ tconf f1 f2 = false
        /\ forall l1 s1 l2 s2, fi_sub f1 = Some (l1, s1) -> fi_sub f2 = Some (l2, s2) ->
             X (CSub (mexf me f1 f2) (option_map unwrap (ft f1)) l1 s1 (option_map unwrap (ft f2)) l2 s2)
    | CBetween me m1 m2 => forall c', In c' (between_calls me m1 m2) -> X c'
    | CFieldsFrag me mid m g =>
        forall fm fns, frag_ff s frs g = Some (fm, fns) ->
          X (CBetween me m fm) /\ forall g', In g' fns -> X (CFieldsFrag me mid m g')
    | CFrags me a b =>
        a = b \/
        forall fm1 fns1 fm2 fns2, frag_ff s frs a = Some (fm1, fns1) -> frag_ff s frs b = Some (fm2, fns2) ->
          (X (CBetween me fm1 fm2) \/ X (CBetween me fm2 fm1))
          /\ (forall x, In x fns1 -> X (CFrags me x b)) /\ (forall x, In x fns2 -> X (CFrags me a x))
    | CSub me p1 l1 s1 p2 l2 s2 => forall c', In c' (sub_calls me p1 l1 s1 p2 l2 s2) -> X c'
    end.

  (* the memo-free search from [c] meets no conflict, at any depth (greatest
     fixed point of [step]: the search tree is infinite on cyclic fragments) *)
  Definition conflict_free (c : call) : Prop := exists X : call -> Prop, X c /\ forall c', X c' -> step X c'.

  Lemma step_mono (X Y : call -> Prop) c : (forall c', X c' -> Y c') -> step X c -> step Y c.
  Proof.
    intros HXY. destruct c as [me f1 f2|me m1 m2|me mid m g|me a b|me p1 l1 s1 p2 l2 s2]; cbn [step].
    - intros (H1 & H2 & H3 & H4). split; [exact H1|]. split; [exact H2|]. split; [exact H3|]. intros l1 s1 l2 s2 E1 E2. apply HXY. eapply H4; eassumption.
    - intros H c' Hc'. apply HXY. apply H. exact Hc'.
    - intros H fm fns E. destruct (H fm fns E) as [H1 H2]. split; [apply HXY; exact H1|intros g' Hg'; apply HXY; apply H2; exact Hg'].
    - intros [E|H]; [left; exact E|right]. intros fm1 fns1 fm2 fns2 E1 E2. destruct (H _ _ _ _ E1 E2) as (H1 & H2 & H3).
      split; [destruct H1 as [H1|H1]; [left|right]; apply HXY; exact H1|].
      split; intros x Hx; apply HXY; [apply H2|apply H3]; exact Hx.
    - intros H c' Hc'. apply HXY. apply H. exact Hc'.
  Qed.

  Lemma conflict_free_unfold c : conflict_free c -> step conflict_free c.
  Proof.
    intros [X [Hc HX]]. eapply step_mono; [|apply HX; exact Hc]. intros c' Hc'. exists X. split; [exact Hc'|exact HX].
  Qed.

  Section Deep.
    Variables (st0 stf : ostate).
    Hypothesis Hcov : newcov st0 stf.
    Hypothesis HavQ : forall mid g me fm fns, In mid locs -> frag_ff s frs g = Some (fm, fns) -> ~ qdone st0 mid g me.
    Hypothesis HavP : forall u v me fm fns fm' fns', frag_ff s frs u = Some (fm, fns) -> frag_ff s frs v = Some (fm', fns') ->
                        existsb (pkey_match u v me) (fst st0) = true.

    Lemma sat_closed c : wfc c /\ sat stf c -> step (fun c' => wfc c' /\ sat stf c') c.
    Proof.
      intros [Hwf Hs]. destruct c as [me f1 f2|me m1 m2|me mid m g|me a b|me p1 l1 s1 p2 l2 s2].
      - inversion Hs as [me' g1 g2 E1 E2 E3 Hsub| | | |]; subst. cbn [step]. split; [exact E1|]. split; [exact E2|]. split; [exact E3|].
        intros l1 s1 l2 s2 S1 S2. split; [|apply Hsub; assumption].
        destruct Hwf as [K1 K2]. inversion K1 as [x Hx]; subst. inversion K2 as [y Hy]; subst.
        split; [apply Hx; exact S1|apply Hy; exact S2].
      - inversion Hs as [|me' a' b' Hall| | |]; subst. cbn [step]. intros c' Hc'. destruct Hwf as [K1 K2].
        split; [exact (wfc_between me m1 m2 c' K1 K2 Hc')|apply Hall; exact Hc'].
      - inversion Hs as [| |me' mid' m' g' Hq| |]; subst. destruct Hwf as [EM [Km Lm]]. cbn [step]. intros fm fns E.
        destruct (proj1 Hcov mid g me (HavQ mid g me fm fns Lm E) Hq fm fns E) as [Hb Hall]. split.
        + split; [split; [exact Km|eapply frs_ok; exact E]|]. rewrite EM. exact Hb.
        + intros g' Hg'. split; [cbn [wfc]; tauto|apply sat_ff; apply Hall; exact Hg'].
      - inversion Hs as [| | |me' a' b' Hp|]; subst. cbn [step]. destruct Hp as [E|E]; [left; exact E|right].
        intros fm1 fns1 fm2 fns2 E1 E2.
        destruct (proj2 Hcov a b me (HavP a b me _ _ _ _ E1 E2) E _ _ _ _ E1 E2) as (Hb & Hl & Hr). split; [|split].
        * destruct Hb as [Hb|Hb]; [left|right]; (split; [split; eapply frs_ok; eassumption|exact Hb]).
        * intros x Hx. split; [exact I|apply sat_frags; apply Hl; exact Hx].
        * intros x Hx. split; [exact I|apply sat_frags; apply Hr; exact Hx].
      - inversion Hs as [| | | |me' p1' l1' s1' p2' l2' s2' Hall]; subst. cbn [step]. intros c' Hc'.
        split; [eapply wfc_sub; eassumption|apply Hall; exact Hc'].
    Qed.

    Lemma sat_conflict_free c : wfc c -> sat stf c -> conflict_free c.
    Proof. intros Hwf Hs. exists (fun c' => wfc c' /\ sat stf c'). split; [tauto|]. intros c' Hc'. apply sat_closed. exact Hc'. Qed.
  End Deep.
End Memo.

(* ---- the initial memo state holds every key of the document ---- *)
Lemma existsb_ematch_universe g me names :
  In g names -> existsb (ematch g me) (flat_map both_flags names) = true.
Proof.
  intros H. apply existsb_exists. exists (g, me). split.
  - apply in_flat_map. exists g. split; [exact H|]. unfold both_flags. destruct me; simpl; tauto.
  - unfold ematch. simpl. rewrite Bool.eqb_reflx, str_eqb_refl. reflexivity.
Qed.

Lemma q_take_universe l g me locs names :
  In l locs -> In g names -> q_take l g me (ff_universe locs names) <> None.
Proof.
  intros Hl Hg. induction locs as [|l' locs IH]; [destruct Hl|]. simpl.
  destruct (loc_eqb l' l && existsb (ematch g me) (flat_map both_flags names)) eqn:E; [discriminate|].
  destruct Hl as [->|Hl].
  - rewrite loc_eqb_refl, existsb_ematch_universe in E by exact Hg. discriminate.
  - specialize (IH Hl). destruct (q_take l g me (ff_universe locs names)); [discriminate|contradiction].
Qed.

Lemma pair_universe_in a b me names :
  In a names -> In b names -> existsb (pkey_match a b me) (pair_universe names) = true.
Proof.
  intros Ha Hb. apply existsb_exists. exists (a, b, me). split.
  - unfold pair_universe. apply in_flat_map. exists a. split; [exact Ha|]. apply in_flat_map. exists b. split; [exact Hb|].
    unfold both_flags. destruct me; simpl; tauto.
  - simpl. rewrite Bool.eqb_reflx, !str_eqb_refl. reflexivity.
Qed.

Lemma frag_ff_name s frs g fm fns : frag_ff s frs g = Some (fm, fns) -> In g (map fst frs).
Proof.
  unfold frag_ff. destruct (alookup g frs) as [[tc sels]|] eqn:E; [|discriminate]. intros _.
  apply alookup_In in E. apply in_map_iff. exists (g, (tc, sels)). tauto.
Qed.

Lemma selset_locs_in p l sels es : In (ESelSet p l sels) es -> In l (selset_locs es).
Proof. intros H. unfold selset_locs. apply in_flat_map. exists (ESelSet p l sels). simpl. tauto. Qed.

Lemma ff_universe_fst locs names : map fst (ff_universe locs names) = locs.
Proof. unfold ff_universe. rewrite map_map. simpl. apply map_id. Qed.

(* ---- the theorem ---- *)
(* locations identify selection sets: distinct locations in the event list, and
   a map from locations to field maps that the visited selection sets, the
   sub-selections of their fields (hereditarily) and the fragments agree with *)
Definition faithful_locations (s : schema) (d : document) : Prop :=
  NoDup (selset_locs (doc_events s d)) /\
  exists M, events_ok s M (selset_locs (doc_events s d)) (doc_events s d)
            /\ forall g fm fns, frag_ff s (frag_table (doc_defs d)) g = Some (fm, fns) ->
                               mok s M (selset_locs (doc_events s d)) fm.

Theorem merge_named fuel s d :
  faithful_locations s d ->
  r25_overlapping_fields fuel s d = Ok [] ->
  forall parent l sels, In (ESelSet parent l sels) (doc_events s d) ->
    let frs := frag_table (doc_defs d) in
    let ff := fields_and_fragments s parent sels in
    (* the fields of the set against the fields of every fragment spread in it, transitively *)
    (forall g0 g fm fns, In g0 (snd ff) -> sreach s frs g0 g -> frag_ff s frs g = Some (fm, fns) ->
                         maps_mergeable s (fst ff) fm)
    (* the fields of the fragments reached from two spreads of the set *)
    /\ (forall a b x y fm1 fns1 fm2 fns2, In (a, b) (perms (snd ff)) -> preach s frs a b x y -> x <> y ->
          frag_ff s frs x = Some (fm1, fns1) -> frag_ff s frs y = Some (fm2, fns2) ->
          maps_mergeable s fm1 fm2 \/ maps_mergeable s fm2 fm1).
Proof.
  intros [Hnd [M [Hev Hfr]]] H parent l sels Hin frs ff.
  unfold r25_overlapping_fields in H.
  destruct (overlap_events_sound s frs M _ Hfr fuel _ _ H Hev) as [stf [(Hle & Ef & Hcov) Hsat]].
  { unfold initial_state. simpl. rewrite ff_universe_fst. exact Hnd. }
  specialize (Hsat parent l sels Hin). destruct (Hev parent l sels Hin) as [EM [Km Ll]].
  assert (HavQ : forall x fm fns, frag_ff s frs x = Some (fm, fns) -> ~ qdone (initial_state s d) l x false).
  { intros x fm fns E. unfold qdone, initial_state. simpl. apply q_take_universe.
    - eapply selset_locs_in. exact Hin.
    - eapply frag_ff_name. exact E. }
  assert (HavP : forall u v fm fns fm' fns', frag_ff s frs u = Some (fm, fns) -> frag_ff s frs v = Some (fm', fns') ->
                   existsb (pkey_match u v false) (fst (initial_state s d)) = true).
  { intros u v fm fns fm' fns' Eu Ev. unfold initial_state. simpl.
    apply pair_universe_in; eapply frag_ff_name; eassumption. }
  split.
  - intros g0 g fm fns Hg0 Hr Eg.
    assert (H0 : qdone stf l g0 false).
    { assert (Hs : sat s stf (CFieldsFrag false l (fst ff) g0)).
      { apply Hsat. unfold selset_calls. apply in_or_app. right. apply in_or_app. left. apply in_map. exact Hg0. }
      inversion Hs; subst. assumption. }
    pose proof (closure_Q s frs M _ _ Hcov l g0 g H0 HavQ Hr) as Hd.
    destruct (proj1 Hcov l g false (HavQ _ _ _ Eg) Hd fm fns Eg) as [Hb _].
    unfold ff. rewrite <- EM. eapply sat_between_mergeable. exact Hb.
  - intros a b x y fm1 fns1 fm2 fns2 Hab Hr Hne Ex Ey.
    assert (H0 : pdone stf a b false).
    { assert (Hs : sat s stf (CFrags false a b)).
      { apply Hsat. unfold selset_calls. apply in_or_app. right. apply in_or_app. right.
        apply in_map_iff. exists (a, b). split; [reflexivity|exact Hab]. }
      inversion Hs; subst. assumption. }
    destruct (closure_P s frs M _ _ Hcov a b x y HavP H0 Hr) as [E|E]; [contradiction|].
    destruct (proj2 Hcov x y false (HavP _ _ _ _ _ _ Ex Ey) E _ _ _ _ Ex Ey) as ([Hb|Hb] & _).
    + left. eapply sat_between_mergeable. exact Hb.
    + right. eapply sat_between_mergeable. exact Hb.
Qed.

(* ---- every depth: the memo-free search meets no conflict ---- *)
Theorem merge_deep fuel s d :
  faithful_locations s d ->
  r25_overlapping_fields fuel s d = Ok [] ->
  forall parent l sels, In (ESelSet parent l sels) (doc_events s d) ->
    forall c, In c (selset_calls s parent l sels) -> conflict_free s (frag_table (doc_defs d)) c.
Proof.
  intros [Hnd [M [Hev Hfr]]] H parent l sels Hin c Hc.
  unfold r25_overlapping_fields in H.
  destruct (overlap_events_sound s _ M _ Hfr fuel _ _ H Hev) as [stf [(Hle & Ef & Hcov) Hsat]].
  { unfold initial_state. simpl. rewrite ff_universe_fst. exact Hnd. }
  destruct (Hev parent l sels Hin) as [EM [Km Ll]].
  apply (sat_conflict_free s _ M _ Hfr (initial_state s d) stf Hcov).
  - intros mid g me fm fns Hmid E. unfold qdone, initial_state. simpl. apply q_take_universe; [exact Hmid|].
    eapply frag_ff_name. exact E.
  - intros u v me fm fns fm' fns' Eu Ev. unfold initial_state. simpl. apply pair_universe_in; eapply frag_ff_name; eassumption.
  - eapply wfc_selset; eassumption.
  - apply (Hsat parent l sels Hin). exact Hc.
Qed.

(* what [conflict_free] says of a pair of fields compared without the
   exclusivity flag: the pairwise conditions, and the memo-free search of the
   two sub-selections against each other *)
Lemma conflict_free_find s frs f1 f2 :
  conflict_free s frs (CFind false f1 f2) ->
  pair_mergeable s f1 f2 /\
  forall l1 s1 l2 s2, fi_sub f1 = Some (l1, s1) -> fi_sub f2 = Some (l2, s2) ->
    conflict_free s frs (CSub (mexf s false f1 f2) (option_map unwrap (ft f1)) l1 s1 (option_map unwrap (ft f2)) l2 s2).
Proof.
  intros H. apply conflict_free_unfold in H. cbn [step] in H. destruct H as (E1 & E2 & E3 & Hsub).
  split; [apply cond_mergeable; assumption|exact Hsub].
Qed.
