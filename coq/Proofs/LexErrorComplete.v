(* Converse of Proofs/LexErrorProofs.v: whenever Spec/LexErrorSpec.v gives a
   text the first lexical error (k, p), the lexer model rejects it with exactly
   that class and offset.  Hence the relation is functional and characterises
   the lexer's rejections. *)
From PyGql Require Import Lang.Lexer Spec.LexSpec Spec.LexicalSpec Spec.LexErrorSpec
  Proofs.LexProofs Proofs.LexTotal Proofs.LexicalProofs Proofs.LexErrorProofs.
Local Open Scope N_scope.

Lemma bad_dots_complete rest k off pos : bad_dots rest k off -> read_ellipsis rest pos = Rejected k (pos + off)%nat.
Proof.
  intros [|c r Hc| |c r Hc]; simpl; try reflexivity.
  - destruct (N.eqb_spec c 46); [contradiction|reflexivity].
  - destruct (N.eqb_spec c 46); [contradiction|reflexivity].
Qed.

Lemma HexChar_is_hex c : HexChar c -> is_hex c = true.
Proof. apply is_hex_true. Qed.

Lemma source_printable c : SourceCharacter c -> c <> 10 -> c <> 13 -> is_printable c = true.
Proof. unfold is_printable, SourceCharacter. rewrite orb_true_iff, N.leb_le, N.eqb_eq. lia. Qed.

Lemma not_source_facts c : ~ SourceCharacter c ->
  c <> 34 /\ c <> 92 /\ c <> 10 /\ c <> 13 /\ is_printable c = false.
Proof.
  intros H. unfold SourceCharacter in H.
  assert (c <> 9 /\ c <> 10 /\ c <> 13 /\ c < 32) by lia.
  repeat split; try lia. unfold is_printable. apply orb_false_iff. rewrite N.leb_gt, N.eqb_neq. lia.
Qed.

Lemma bad_string_tail_complete bad k off : bad_string_tail bad k off ->
  forall pos acc, read_string bad pos acc = Rejected k (pos + off)%nat.
Proof.
  intros H pos acc. destruct H as [|c r Hc|c r Hc| |e r He Hu|hs Hh Hl|hs x r Hh Hl Hx].
  - simpl. f_equal. lia.
  - simpl. destruct Hc as [-> | ->]; simpl; f_equal; lia.
  - destruct (not_source_facts c Hc) as (H1 & H2 & H3 & H4 & H5). simpl.
    destruct (N.eqb_spec c 34); [contradiction|]. destruct (N.eqb_spec c 92); [contradiction|].
    destruct (N.eqb_spec c 10); [contradiction|]. destruct (N.eqb_spec c 13); [contradiction|]. simpl.
    rewrite H5. simpl. f_equal. lia.
  - reflexivity.
  - simpl. apply quoted_char_none in He. rewrite He.
    destruct (N.eqb_spec e 117); [contradiction|]. reflexivity.
  - destruct hs as [|h1 [|h2 [|h3 [|h4 hs]]]]; simpl in Hl; try lia;
      repeat match goal with
             | H : Forall HexChar (_ :: _) |- _ => inversion H; subst; clear H
             end;
      repeat match goal with
             | H : HexChar _ |- _ => apply HexChar_is_hex in H
             end; simpl;
      repeat match goal with
             | H : is_hex _ = true |- _ => rewrite H; clear H
             end; simpl; f_equal; lia.
  - apply is_hex_false in Hx.
    destruct hs as [|h1 [|h2 [|h3 [|h4 hs]]]]; simpl in Hl; try lia;
      repeat match goal with
             | H : Forall HexChar (_ :: _) |- _ => inversion H; subst; clear H
             end;
      repeat match goal with
             | H : HexChar _ |- _ => apply HexChar_is_hex in H
             end; simpl;
      repeat match goal with
             | H : is_hex _ = true |- _ => rewrite H; clear H
             end; rewrite Hx; simpl; reflexivity.
Qed.

Lemma bad_string_complete rest k off : bad_string rest k off ->
  forall pos acc, read_string rest pos acc = Rejected k (pos + off)%nat.
Proof.
  induction 1 as [bad k off Ht|c r k off Hc Hb IH|e d r k off He Hb IH|h1 h2 h3 h4 r k off H1 H2 H3 H4 Hb IH];
    intros pos acc.
  - apply bad_string_tail_complete; exact Ht.
  - destruct Hc as (Hs & Hq & Hbs & Hlf & Hcr). simpl.
    destruct (N.eqb_spec c 34); [contradiction|]. destruct (N.eqb_spec c 92); [contradiction|].
    destruct (N.eqb_spec c 10); [contradiction|]. destruct (N.eqb_spec c 13); [contradiction|]. simpl.
    rewrite (source_printable c Hs Hlf Hcr). simpl. rewrite IH. f_equal. lia.
  - simpl. apply quoted_char_spec in He. rewrite He. rewrite IH. f_equal. lia.
  - apply HexChar_is_hex in H1, H2, H3, H4. simpl. rewrite H1, H2, H3, H4. simpl. rewrite IH. f_equal. lia.
Qed.

Lemma bad_block_complete rest k off : bad_block rest k off ->
  forall pos acc, read_block rest pos acc = Rejected k (pos + off)%nat.
Proof.
  induction 1 as [|c r Hc|rest k off Hb IH|c rest k off Hsc Hnt Hne Hb IH]; intros pos acc.
  - simpl. f_equal. lia.
  - destruct (not_source_facts c Hc) as (H1 & H2 & H3 & H4 & H5). cbn [read_block].
    assert (E3 : starts_3q (c :: r) = false).
    { apply starts_3q_false. intros [x Hx]. injection Hx as -> _. contradiction. }
    rewrite E3. destruct (N.eqb_spec c 92); [contradiction|].
    assert (Es : negb ((32 <=? c) || (c =? 9) || (c =? 10) || (c =? 13)) = true).
    { destruct (negb ((32 <=? c) || (c =? 9) || (c =? 10) || (c =? 13))) eqn:E; [reflexivity|].
      apply block_source_char in E. contradiction. }
    rewrite Es. f_equal. lia.
  - cbn [read_block]. replace (starts_3q (92 :: 34 :: 34 :: 34 :: rest)) with false by reflexivity.
    replace (92 =? 92) with true by reflexivity.
    replace ((34 =? 34) && (34 =? 34) && (34 =? 34)) with true by reflexivity.
    rewrite IH. f_equal. lia.
  - cbn [read_block]. apply starts_3q_false in Hnt. rewrite Hnt.
    destruct (N.eqb_spec c 92) as [->|Hc].
    + destruct rest as [|q1 [|q2 [|q3 r3]]]; try (rewrite IH; f_equal; lia).
      destruct ((q1 =? 34) && (q2 =? 34) && (q3 =? 34)) eqn:Eq.
      * exfalso. apply Hne. split; [reflexivity|].
        rewrite !andb_true_iff, !N.eqb_eq in Eq. destruct Eq as [[-> ->] ->]. exists r3. reflexivity.
      * rewrite IH. f_equal. lia.
    + apply block_source_char in Hsc. rewrite Hsc. rewrite IH. f_equal. lia.
Qed.

(* ---- numbers ---- *)
Lemma no_digits_complete r k pos : no_digits r k -> read_over_digits r pos = Rejected k pos.
Proof.
  intros [|c r' Hc]; [reflexivity|]. unfold read_over_digits. apply is_digit_false in Hc. rewrite Hc. reflexivity.
Qed.

Lemma no_digits_integer r k pos : no_digits r k -> read_over_integer r pos = Rejected k pos.
Proof.
  intros H. pose proof (no_digits_complete r k pos H) as Hd. destruct H as [|c r' Hc]; [reflexivity|].
  unfold read_over_integer. destruct (N.eqb_spec c 48) as [->|]; [|exact Hd].
  exfalso. apply Hc. unfold Digit. lia.
Qed.

Lemma no_digits_head r k : no_digits r k -> nodigit_head r.
Proof. intros [|c r' Hc]; simpl; auto. Qed.

(* the stages up to and including the mantissa *)
Lemma mantissa_stages m tail pos :
  Mantissa m -> nodigit_head tail ->
  (forall ip, m = ip -> IntegerPart ip -> match tail with c :: _ => c <> 46 | [] => True end) ->
  exists fl,
    (do rp2 <- read_over_integer (fst (read_sign (m ++ tail) pos)) (snd (read_sign (m ++ tail) pos));
     read_fraction (fst rp2) (snd rp2)) = Ok (fl, tail, (pos + length m)%nat).
Proof.
  intros Hm Ht Hdot. destruct Hm as [ip Hip|ip fp Hip Hfp].
  - rewrite (read_int_stage_complete ip tail pos Hip Ht). cbn [obind fst snd].
    exists false. apply read_fraction_skip. apply (Hdot ip eq_refl Hip).
  - rewrite <- app_assoc.
    rewrite (read_int_stage_complete ip (fp ++ tail) pos Hip (frac_head fp tail Hfp)). cbn [obind fst snd].
    exists true. rewrite (read_fraction_complete fp tail _ Hfp Ht). rewrite app_length. f_equal; f_equal; lia.
Qed.

Lemma read_number_stages rest pos :
  read_number rest pos =
  (do x3 <- (do rp2 <- read_over_integer (fst (read_sign rest pos)) (snd (read_sign rest pos));
             read_fraction (fst rp2) (snd rp2));
   do x4 <- read_exponent (fst (fst x3)) (snd (fst x3)) (snd x3);
   number_lookahead x4).
Proof.
  unfold read_number.
  destruct (read_over_integer (fst (read_sign rest pos)) (snd (read_sign rest pos))) as [[r2 p2]| | |]; reflexivity.
Qed.

Lemma exp_indicator_facts e : exp_indicator e -> ~ Digit e /\ e <> 46 /\ (e =? 101) || (e =? 69) = true.
Proof. intros H. split; [|split; [|apply exp_indicator_b; exact H]]; destruct H as [-> | ->]; unfold Digit; lia. Qed.

Lemma NameStart_facts c : NameStart c -> ~ Digit c /\ c <> 46 /\ c <> 43 /\ c <> 45.
Proof. unfold NameStart, Letter, Digit. lia. Qed.

Lemma bad_number_complete rest k off pos : bad_number rest k off -> read_number rest pos = Rejected k (pos + off)%nat.
Proof.
  intros H. destruct H as [r k Hnd|sg d r Hsg Hd|ip r k Hip Hnd|m e sg r k Hm He Hsg Hns Hnd|m c r Hm Hc Hne|m ep c r Hm Hep Hc].
  - unfold read_number, read_sign. cbn [fst snd]. replace (45 =? 45) with true by reflexivity. cbn [fst snd].
    rewrite (no_digits_integer r k (S pos) Hnd). cbn [obind]. f_equal. lia.
  - apply is_digit_spec in Hd. destruct Hsg as [-> | ->]; unfold read_number, read_sign; simpl; rewrite Hd; simpl; f_equal; lia.
  - unfold read_number.
    rewrite (read_int_stage_complete ip (46 :: r) pos Hip) by (simpl; unfold Digit; lia). cbn [obind fst snd].
    unfold read_fraction. replace (46 =? 46) with true by reflexivity.
    rewrite (no_digits_complete r k _ Hnd). cbn [obind]. f_equal. lia.
  - destruct (exp_indicator_facts e He) as (Hed & He46 & Heb).
    rewrite read_number_stages.
    destruct (mantissa_stages m (e :: sg ++ r) pos Hm Hed (fun _ _ _ => He46)) as (fl & ->). cbn [obind fst snd].
    unfold read_exponent. rewrite Heb.
    assert (Hs : read_exp_sign (sg ++ r) (S (pos + length m)) = (r, (S (pos + length m) + length sg)%nat)).
    { destruct Hsg as [->|[->| ->]]; simpl; try (f_equal; lia).
      destruct r as [|x r']; simpl; [f_equal; lia|].
      destruct ((x =? 43) || (x =? 45)) eqn:Ex; [|f_equal; lia].
      exfalso. apply (Hns eq_refl). simpl. apply orb_true_iff in Ex. rewrite !N.eqb_eq in Ex. exact Ex. }
    rewrite Hs. cbn [fst snd]. rewrite (no_digits_complete r k _ Hnd). cbn [obind]. f_equal. lia.
  - destruct (NameStart_facts c Hc) as (Hcd & Hc46 & _).
    rewrite read_number_stages.
    destruct (mantissa_stages m (c :: r) pos Hm Hcd (fun _ _ _ => Hc46)) as (fl & ->). cbn [obind fst snd].
    rewrite read_exponent_skip by (simpl; unfold exp_indicator in Hne; tauto). cbn [obind].
    unfold number_lookahead. cbn [fst snd]. apply is_name_start_spec in Hc. rewrite Hc. reflexivity.
  - destruct (NameStart_facts c Hc) as (Hcd & Hc46 & _). destruct (exp_head ep (c :: r) Hep) as [Hh1 Hh2].
    rewrite read_number_stages.
    destruct (mantissa_stages m (ep ++ c :: r) pos Hm Hh1 (fun _ _ _ => Hh2)) as (fl & ->). cbn [obind fst snd].
    rewrite (read_exponent_complete fl ep (c :: r) _ Hep Hcd). cbn [obind].
    unfold number_lookahead. cbn [fst snd]. apply is_name_start_spec in Hc. rewrite Hc. f_equal. lia.
Qed.

(* ---- one lexeme ---- *)
Lemma bad_lexeme_complete rest k off pos : lexeme_start rest -> bad_lexeme rest k off ->
  next_token rest pos = Rejected k (pos + off)%nat.
Proof.
  intros Hls H. destruct H as [c r Hc|rest k off Hd|rest k off Hb|rest k off Hnt Hb|c r k off Hc Hb|c r Hs Hn].
  - destruct (not_source_facts c Hc) as (_ & _ & _ & _ & Hp). unfold next_token. rewrite Hp. simpl. f_equal. lia.
  - assert (E : exists r, rest = 46 :: r) by (destruct Hd; eexists; reflexivity). destruct E as [r ->].
    change (next_token (46 :: r) pos) with (read_ellipsis (46 :: r) pos). apply bad_dots_complete; exact Hd.
  - change (next_token (34 :: 34 :: 34 :: rest) pos)
      with (do x <- read_block rest (pos + 3) [];
            let '(raw, r', e) := x in Ok (PTok KBlockString (block_string_model raw) pos e, r')).
    rewrite (bad_block_complete rest k off Hb). cbn [obind]. f_equal. lia.
  - apply starts_3q_false in Hnt. unfold next_token.
    replace (negb (is_printable 34)) with false by reflexivity.
    replace (symbol_kind 34) with (@None tkind) by reflexivity.
    replace (34 =? 46) with false by reflexivity. rewrite Hnt.
    replace (34 =? 34) with true by reflexivity.
    rewrite (bad_string_complete rest k off Hb). cbn [obind]. f_equal. lia.
  - rewrite (next_token_number c r pos Hc). rewrite (bad_number_complete _ _ _ pos Hb). reflexivity.
  - destruct Hn as (Hp & H46 & H34 & H45 & Hnd & Hns). simpl in Hls. destruct Hls as [Hig _].
    assert (Hpr : is_printable c = true).
    { unfold is_printable. apply orb_true_iff. rewrite N.leb_le, N.eqb_eq.
      unfold SourceCharacter in Hs. unfold IgnoredChar in Hig. lia. }
    unfold next_token. rewrite Hpr. simpl negb. cbv iota.
    assert (Es : symbol_kind c = None).
    { destruct (symbol_kind c) as [kd|] eqn:E; [|reflexivity]. apply symbol_kind_punct in E. exfalso. exact (Hp kd E). }
    rewrite Es. destruct (N.eqb_spec c 46); [contradiction|].
    assert (E3 : starts_3q (c :: r) = false).
    { apply starts_3q_false. intros [x Hx]. injection Hx as -> _. contradiction. }
    rewrite E3. destruct (N.eqb_spec c 34); [contradiction|].
    assert (En : (c =? 45) || is_digit c = false).
    { apply orb_false_iff. rewrite N.eqb_neq, is_digit_false. auto. }
    rewrite En. apply is_name_start_false in Hns. rewrite Hns. f_equal. lia.
Qed.

(* ---- the whole text ---- *)
Lemma lex_from_error_complete rest pos k p : lex_error_from rest pos k p ->
  forall fuel, (length rest < fuel)%nat -> collect (lex_from fuel rest pos) = Rejected k p.
Proof.
  induction 1 as [ign rest pos k off Hi Hls Hb|ign lexeme rest kd v pos k p Hi Htok Hl IH]; intros fuel Hf.
  - destruct fuel as [|f]; [lia|]. simpl.
    rewrite (skip_ws_complete ign rest Hi (proj2 (token_start_lexeme_start rest) Hls) pos).
    rewrite (bad_lexeme_complete rest k off _ Hls Hb). reflexivity.
  - destruct fuel as [|f]; [lia|]. simpl.
    destruct (Token_start _ _ _ _ _ Htok) as [Hts Hne].
    rewrite (skip_ws_complete ign (lexeme ++ rest) Hi Hts pos).
    rewrite (Token_next_token _ _ _ _ (pos + length ign)%nat Htok).
    assert (Ek : is_kind KEOF (PTok kd v (pos + length ign) (pos + length ign + length lexeme)) = false).
    { unfold is_kind. simpl. destruct (tkind_eqb kd KEOF) eqn:E; [|reflexivity].
      apply tkind_eqb_eq in E. exfalso. exact (Token_not_eof _ _ _ _ _ Htok E). }
    rewrite Ek. simpl. rewrite IH; [reflexivity|].
    rewrite !app_length in Hf. destruct lexeme; [congruence|simpl in Hf; lia].
Qed.

Theorem lex_error_complete s k p : lex_error s k p -> lex s = Rejected k p.
Proof.
  unfold lex, lex_stream, lex_error. intros H. cbn [collect].
  rewrite (lex_from_error_complete s 0%nat k p H (lex_fuel s)); [reflexivity|unfold lex_fuel; lia].
Qed.

Theorem lex_error_iff s k p : lex s = Rejected k p <-> lex_error s k p.
Proof. split; [apply lex_error_sound|apply lex_error_complete]. Qed.

(* the specification is functional, and excludes acceptance *)
Corollary lex_error_functional s k p k' p' : lex_error s k p -> lex_error s k' p' -> k = k' /\ p = p'.
Proof.
  intros H1 H2. apply lex_error_complete in H1, H2. rewrite H1 in H2. injection H2 as -> ->. split; reflexivity.
Qed.

Corollary lex_error_not_lexes s k p ts : lex_error s k p -> ~ lexes_slack s ts.
Proof. intros H1 H2. apply lex_error_complete in H1. apply lex_lexes_slack in H2. congruence. Qed.

(* every text has a token sequence or a first lexical error, never both *)
From PyGql Require Proofs.ParserTop.

Theorem lexes_or_lex_error s : (exists ts, lexes_slack s ts) \/ (exists k p, lex_error s k p).
Proof.
  pose proof (ParserTop.lex_total s) as H. destruct (lex s) as [ts| |k p|] eqn:E; try contradiction.
  - left. exists ts. apply lex_lexes_slack. exact E.
  - right. exists k, p. apply lex_error_sound. exact E.
Qed.
