(* End-to-end: a text is accepted iff some lexing of it (declarative lexical
   grammar) derives a tree (declarative syntactic grammar). *)
From PyGql Require Import Lang.Parser Spec.LexSpec Spec.LexicalSpec Spec.GrammarSpec Spec.DocGrammarSpec
  Proofs.LexicalProofs Proofs.EntryProofs Proofs.DocEntryProofs.

Theorem accepts_exec fl s d : allow_type_system fl = false ->
  (parse_document fl s = Ok d <->
   exists ts, lexes_slack s ts /\ D_document_exec (no_location fl) (fragment_variables fl) ts d).
Proof.
  intros Hts. split.
  - intros H. destruct (parse_document_exec_sound fl s d Hts H) as (ts & Hl & Dd).
    exists ts. split; [apply lex_lexes_slack; exact Hl|exact Dd].
  - intros (ts & Hl & Dd). apply lex_lexes_slack in Hl. eapply parse_document_exec_complete; eassumption.
Qed.

Theorem accepts_exec_strict fl s ts d :
  lexes s ts -> D_document_exec (no_location fl) (fragment_variables fl) ts d ->
  parse_document fl s = Ok d.
Proof. intros Hl Dd. apply lexes_lex in Hl. eapply parse_document_exec_complete; eassumption. Qed.

Theorem accepts_value fl s v :
  parse_value_str fl s = Ok v <->
  exists ts body, lexes_slack s ts /\ whole ts body /\ D_value (no_location fl) false body v.
Proof.
  split.
  - intros H. destruct (parse_value_str_sound fl s v H) as (ts & body & Hl & Hw & Dv).
    exists ts, body. split; [apply lex_lexes_slack; exact Hl|auto].
  - intros (ts & body & Hl & Hw & Dv). apply lex_lexes_slack in Hl. eapply parse_value_str_complete; eassumption.
Qed.

Theorem accepts_type fl s t :
  parse_type_str fl s = Ok t <->
  exists ts body, lexes_slack s ts /\ whole ts body /\ D_type (no_location fl) body t.
Proof.
  split.
  - intros H. destruct (parse_type_str_sound fl s t H) as (ts & body & Hl & Hw & Dt).
    exists ts, body. split; [apply lex_lexes_slack; exact Hl|auto].
  - intros (ts & body & Hl & Hw & Dt). apply lex_lexes_slack in Hl. eapply parse_type_str_complete; eassumption.
Qed.
