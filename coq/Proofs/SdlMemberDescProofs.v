(* C12 at text level, descriptions on members (fields, arguments, enum values,
   input fields): the lines the schema printer writes inside a block lex to the
   member definitions with their descriptions. *)
From PyGql Require Import Lang.PrinterModel Spec.PrinterSpec Lang.Lexer Lang.Parser Spec.LexSpec Spec.GrammarSpec
                          Spec.DocGrammarSpec Spec.SdlGrammarSpec
                          Proofs.PrinterProofs Proofs.PrinterRoundtrip Proofs.PrinterValueRoundtrip Proofs.PrinterExecRoundtrip
                          Proofs.PrinterSdlRoundtrip.
From PyGql Require Import Schema.SdlSchema Schema.SdlBuild Schema.SdlPrint Spec.SdlRoundtripSpec
                          Proofs.SdlTextProofs Proofs.SdlTextSchemaProofs Proofs.SdlDescLexProofs Proofs.SdlTextDescProofs.
From Coq Require Import Lia.

(* ---- a description in front of a member ---------------------------------- *)
Lemma add_desc_field dsts sv ts n args t dirs l :
  D_description true dsts (Some sv) -> D_field_def true ts (FDef None n args t dirs l) ->
  D_field_def true (dsts ++ ts) (FDef (Some sv) n args t dirs l).
Proof.
  intros HD H. inversion H as [dsts0 desc nt ats args0 colon tyts t0 dts dirs0 Hd Hk Ha Hc Ht Hdi]; subst.
  inversion Hd; subst. cbn [app].
  apply (DFd true dsts (Some sv) nt ats args colon tyts t dts dirs); assumption.
Qed.

Lemma add_desc_enum_value dsts sv ts n dirs l :
  D_description true dsts (Some sv) -> D_enum_value true ts (EVDef None n dirs l) ->
  D_enum_value true (dsts ++ ts) (EVDef (Some sv) n dirs l).
Proof.
  intros HD H. inversion H as [dsts0 desc nt dts dirs0 Hd Hk Hr Hdi]; subst.
  inversion Hd; subst. cbn [app]. apply (DEv true dsts (Some sv) nt dts dirs); assumption.
Qed.

Lemma add_desc_input_value dsts sv ts n t dv dirs l :
  D_description true dsts (Some sv) -> D_input_value true ts (IVDef None n t dv dirs l) ->
  D_input_value true (dsts ++ ts) (IVDef (Some sv) n t dv dirs l).
Proof.
  intros HD H. inversion H as [dsts0 desc nt colon tyts t0 defts dv0 dts dirs0 Hd Hk Hc Ht Hdf Hdi]; subst.
  inversion Hd; subst. cbn [app]. apply (DIv true dsts (Some sv) nt colon tyts t defts dv dts dirs); assumption.
Qed.

(* ---- a block of lines ------------------------------------------------------ *)
Lemma lines_block_lexok {A B} (o c : N) (ko kc : tkind) (lead trail : str)
      (Q : A -> list ptok -> Prop) (R : list ptok -> B -> Prop) (g : A -> B)
      (items : list (str * A)) :
  symbol_kind o = Some ko -> ko <> KEOF -> symbol_kind c = Some kc -> kc <> KEOF ->
  ignorable lead -> ignorable trail ->
  items <> [] -> (forall x ts, Q x ts -> R ts (g x)) ->
  Forall (fun it => fst it <> [] /\ LexOK (fst it) (Q (snd it))) items ->
  LexOK ([o] ++ lead ++ join nl (map fst items) ++ trail ++ [c])
        (fun ts => D_opt_block R ko kc ts (map (fun it => g (snd it)) items)).
Proof.
  intros Ho Hko Hc Hkc Hl Ht Hne HQ HF.
  assert (Hj : join nl (map fst items) = p_join (map fst items) [10%N]).
  { symmetry. apply p_join_all. apply Forall_forall. intros x Hx. apply in_map_iff in Hx.
    destruct Hx as (it & <- & Hin). rewrite Forall_forall in HF. apply (HF it Hin). }
  rewrite Hj.
  apply (lexok_weaken _ (fun ts => exists to body tc, ts = to :: body ++ [tc] /\ tk to = ko /\ tk tc = kc
                                   /\ D_list R body (map (fun it => g (snd it)) items))).
  - intros ts H. apply D_opt_block_some; [apply map_ne; assumption|assumption].
  - apply (wrapped_list_lexok o c ko kc lead [10%N] trail fst (fun it ts => Q (snd it) ts) R (fun it => g (snd it)) items);
      try assumption; try (repeat constructor); try discriminate.
    + intros x ts H. apply HQ. exact H.
    + eapply Forall_impl; [|exact HF]. intros it [_ H]. exact H.
Qed.

(* ---- described member lines ------------------------------------------------ *)
Section MemberLines.
  Variable o : popts.
  Hypothesis Hws : all_ws (po_indent o).

  Definition desc_okd (depth : nat) (d : option str) : Prop :=
    match d with
    | None => True
    | Some desc => desc <> [] /\ po_descriptions o = true
                   /\ desc_body_ok (description_body o desc depth) desc
    end.

  Lemma ind1 : ind o 1 = po_indent o.
  Proof. unfold ind. cbn [repeat_str]. apply app_nil_r. Qed.

  Lemma ind_ws depth : all_ws (ind o depth).
  Proof. unfold ind. induction depth as [|n IH]; [reflexivity|]. cbn [repeat_str]. apply all_ws_app; assumption. Qed.

  (* print_description d depth first ++ indent' ++ core *)
  Lemma member_line_lexok depth (d : option str) (first : bool) (lead core : str)
        (P0 : list ptok -> Prop) (P1 : strval -> list ptok -> Prop) :
    desc_okd depth d -> all_ws lead -> LexOK core P0 ->
    (forall sv dsts rest, D_description true dsts (Some sv) -> P0 rest -> P1 sv (dsts ++ rest)) ->
    LexOK (print_description o d depth first ++ lead ++ core)
          (match d with Some (c :: r) => P1 (StrVal (c :: r) true None) | _ => P0 end).
  Proof.
    intros Hd Hlead HL Hadd.
    assert (Hplain : LexOK (lead ++ core) P0) by (apply lexok_lead; [apply ws_ignorable; exact Hlead|exact HL]).
    destruct d as [[|c r]|]; try exact Hplain.
    destruct Hd as (_ & Hp & Hb). unfold print_description. rewrite Hp. cbn [negb].
    set (pre := if nonempty (ind o depth) && negb first then nl else []).
    assert (Hpre : ignorable (pre ++ ind o depth)).
    { unfold pre. destruct (nonempty (ind o depth) && negb first).
      - constructor; [reflexivity|apply ws_ignorable; apply ind_ws].
      - apply ws_ignorable; apply ind_ws. }
    rewrite <- !app_assoc. rewrite (app_assoc pre). apply lexok_lead; [exact Hpre|].
    pose proof (desc_prefix_lexok (description_body o (c :: r) depth) (c :: r) (lead ++ core) P0 Hb Hplain) as H.
    unfold Q3s, triple in *. rewrite <- !app_assoc in H. cbn [app] in H |- *.
    eapply lexok_weaken; [|exact H]. intros ts (dsts & rest & -> & HD & HP). apply Hadd; assumption.
  Qed.
End MemberLines.

(* ---- kinds with a block of member lines ------------------------------------ *)
Section Kinds.
  Variable o : popts.
  Variable E0 : env.
  Variable fv : bool.
  Hypothesis Hws : all_ws (po_indent o).
  Let cf := Cfg (po_indent o) true.

  Definition block_lines_text (lines : list str) : str :=
    lit "{" ++ nl ++ join nl lines ++ nl ++ lit "}".

  (* kw name directives { lines } *)
  Lemma kind_block_lexok {A B} (K : string) (n : str) (dirs : list directive)
        (Q : A -> list ptok -> Prop) (R : list ptok -> B -> Prop) (g : A -> B)
        (items : list (str * A)) (P : list ptok -> Prop) :
    vname (str_of_string K) -> vname n -> Forall (wf_dir true) dirs ->
    items <> [] -> (forall x ts, Q x ts -> R ts (g x)) ->
    Forall (fun it => fst it <> [] /\ LexOK (fst it) (Q (snd it))) items ->
    (forall k nt dts bts, is_word K k -> tk nt = KName -> tval nt = n ->
        D_directives true true dts (map strip_dir dirs) ->
        D_opt_block R KCurlyO KCurlyC bts (map (fun it => g (snd it)) items) ->
        P (k :: nt :: dts ++ bts)) ->
    LexOK (p_join [kw false K; n; pr_directives cf dirs; block_lines_text (map fst items)] (lit " ")) P.
  Proof.
    intros HK Hn Hdirs Hne HQ HF HP.
    eapply lexok_weaken;
      [|apply (header_lexok false K n
                 [(pr_directives cf dirs, fun ts => D_directives true true ts (map strip_dir dirs));
                  (block_lines_text (map fst items),
                   fun ts => D_opt_block R KCurlyO KCurlyC ts (map (fun it => g (snd it)) items))] HK Hn)].
    - intros ts (kws & nt & rest & -> & Hkw & Hk & Ht & HPp).
      inversion HPp as [|? ? ts1 ? tss1 H1 Hr1]; subst. inversion Hr1 as [|? ? ts2 ? tss2 H2 Hr2]; subst.
      inversion Hr2; subst. rewrite app_nil_r. unfold Pkw in Hkw. destruct Hkw as (k & -> & Hkk).
      cbn [app]. exact (HP k nt ts1 ts2 Hkk Hk eq_refl H1 H2).
    - constructor; [cbn [fst snd]; apply (dirs_top cf Hws); exact Hdirs|].
      constructor; [|constructor]. cbn [fst snd]. unfold block_lines_text.
      change (lit "{") with [123%N]. change (lit "}") with [125%N].
      apply (lines_block_lexok 123%N 125%N KCurlyO KCurlyC nl nl Q R g items); try reflexivity; try discriminate;
        try assumption; repeat constructor.
  Qed.

  (* ---- enum values --------------------------------------------------- *)
  Definition clear_sev (v : sevalue) : sevalue := SEV (sev_name v) (sev_value v) None (sev_dep v) (sev_dirs v).

  Definition d_sev (v : sevalue) : Prop := plain_sev o (clear_sev v) /\ desc_okd o 1 (sev_desc v).

  Definition ev_d (v : sevalue) : enum_value_def :=
    EVDef (strval_of (sev_desc v)) (mk_name (sev_name v)) (edirs v) None.

  Lemma evdef_of_d v : evdef_of v = ev_d v.
  Proof. reflexivity. Qed.

  Definition ev_line (first : bool) (v : sevalue) : str :=
    print_description o (sev_desc v) 1 first ++ po_indent o ++ et o v.

  Lemma et_clear v : et o (clear_sev v) = et o v.
  Proof. reflexivity. Qed.

  Lemma strval_some c r : strval_of (Some (c :: r)) = Some (StrVal (c :: r) true None).
  Proof. reflexivity. Qed.

  Lemma ev_line_lexok first v : d_sev v ->
    ev_line first v <> [] /\ LexOK (ev_line first v) (fun ts => D_enum_value true ts (ev_d v))
    /\ py_space (last (ev_line first v) 0%N) = false.
  Proof.
    intros [Hp Hd]. destruct (et_facts o (clear_sev v) Hp) as (E1 & E2 & E3 & E4). rewrite et_clear in *.
    pose proof (wf_ev_of o (clear_sev v) Hp) as [Hwf Hnd]. pose proof (strip_ev_of o (clear_sev v) Hp) as Hs.
    destruct (evdef_lexp cf Hws (ev_of (clear_sev v)) Hwf Hnd) as [_ HL].
    specialize (HL [] eq_refl). rewrite reindent_nil in HL. unfold cf in HL. rewrite E1, Hs in HL.
    split; [|split].
    - unfold ev_line. intros H. apply app_eq_nil in H. destruct H as [_ H]. apply app_eq_nil in H. tauto.
    - unfold ev_line, ev_d.
      pose proof (member_line_lexok o Hws 1 (sev_desc v) first (po_indent o) (et o v)
                    (fun ts => D_enum_value true ts (ev_of (clear_sev v)))
                    (fun sv ts => D_enum_value true ts (EVDef (Some sv) (mk_name (sev_name v)) (edirs v) None))
                    Hd Hws HL) as H.
      destruct (sev_desc v) as [[|c r]|]; apply H; intros; apply add_desc_enum_value; assumption.
    - unfold ev_line. rewrite app_assoc, last_app_ne by exact E3. exact E4.
  Qed.

  Fixpoint ev_items (first : bool) (vs : list sevalue) : list (str * sevalue) :=
    match vs with
    | [] => []
    | v :: r => (ev_line first v, v) :: ev_items false r
    end.

  Lemma ev_items_snd first vs : map snd (ev_items first vs) = vs.
  Proof. revert first. induction vs as [|v r IH]; intros first; [reflexivity|]. cbn [ev_items map snd]. rewrite IH. reflexivity. Qed.

  Lemma ev_items_ok first vs : Forall d_sev vs ->
    Forall (fun it => fst it <> [] /\ LexOK (fst it) (fun ts => D_enum_value true ts (ev_d (snd it)))) (ev_items first vs).
  Proof.
    intros H. revert first. induction H as [|v r Hv _ IH]; intros first; [constructor|]. cbn [ev_items].
    constructor; [|apply IH]. cbn [fst snd]. destruct (ev_line_lexok first v Hv) as (H1 & H2 & _). split; assumption.
  Qed.

  (* what print_type writes for the values *)
  Lemma enum_lines vs : Forall d_sev vs -> forall i,
    (fix go (i : nat) (vs : list sevalue) : list str :=
       match vs with
       | [] => []
       | v :: r =>
           rstrip (print_description o (sev_desc v) 1 (Nat.eqb i 0) ++ po_indent o
                   ++ sev_name v ++ print_deprecated (sev_dep v)
                   ++ print_directives o (sev_dirs v)) :: go (S i) r
       end) i vs = map fst (ev_items (Nat.eqb i 0) vs).
  Proof.
    induction 1 as [|v r Hv _ IH]; intros i; [reflexivity|]. cbn [ev_items map fst]. rewrite (IH (S i)). cbn [Nat.eqb].
    f_equal. destruct Hv as [Hp Hd]. pose proof Hp as (_ & Hn & _). cbn [clear_sev sev_dirs] in Hn.
    rewrite (print_directives_ok o _ Hn), <- (dtext_deprecated o), <- (dtext_app o).
    change (sev_name v ++ dtext o (deprecated_dir (sev_dep v) ++ custom_dirs (sev_dirs v))) with (et o v).
    destruct (ev_line_lexok (Nat.eqb i 0) v (conj Hp Hd)) as (H1 & _ & H3).
    apply rstrip_id; assumption.
  Qed.

  (* ---- input fields ---------------------------------------------------- *)
  Definition clear_siv (a : sivalue) : sivalue :=
    SIV (siv_name a) (siv_py a) (siv_type a) (siv_default a) None (siv_dirs a).

  Definition d_siv (a : sivalue) : Prop := plain_siv o E0 (clear_siv a) /\ desc_okd o 1 (siv_desc a).

  Definition iv_d (a : sivalue) : input_value_def :=
    IVDef (strval_of (siv_desc a)) (mk_name (siv_name a)) (ty_of_tref (siv_type a)) (dflt_of E0 a)
          (custom_dirs (siv_dirs a)) None.

  Lemma ivdef_of_d a : d_siv a -> ivdef_of E0 a = Ok (iv_d a).
  Proof.
    intros [(Hd & _) _]. unfold dflt_ok in Hd. cbn [clear_siv siv_default siv_type] in Hd.
    unfold ivdef_of, iv_d, dflt_of. destruct (siv_default a) as [v|]; [|reflexivity].
    destruct Hd as (n & Hn & _). rewrite Hn. reflexivity.
  Qed.

  Definition iv_line (first : bool) (a : sivalue) : str :=
    print_description o (siv_desc a) 1 first ++ po_indent o ++ iv_text o E0 a.

  Lemma iv_line_lexok first a : d_siv a ->
    iv_line first a <> [] /\ LexOK (iv_line first a) (fun ts => D_input_value true ts (iv_d a)).
  Proof.
    intros [Hp Hd]. destruct (iv_text_facts o E0 _ Hp) as [T1 (T2 & _)].
    change (iv_text o E0 (clear_siv a)) with (iv_text o E0 a) in *.
    pose proof (wf_iv_of o E0 _ Hp) as [Hwf Hnd]. pose proof (strip_iv_of o E0 _ Hp) as Hs.
    destruct (ivdef_lexp cf Hws (iv_of E0 (clear_siv a)) Hwf Hnd) as [_ HL].
    specialize (HL [] eq_refl). rewrite reindent_nil in HL. unfold cf in HL.
    rewrite (pr_input_value_plain o E0 _ Hp), Hs in HL.
    change (iv_text o E0 (clear_siv a)) with (iv_text o E0 a) in HL.
    split.
    - unfold iv_line. intros H. apply app_eq_nil in H. destruct H as [_ H]. apply app_eq_nil in H. tauto.
    - unfold iv_line, iv_d.
      pose proof (member_line_lexok o Hws 1 (siv_desc a) first (po_indent o) (iv_text o E0 a)
                    (fun ts => D_input_value true ts (iv_of E0 (clear_siv a)))
                    (fun sv ts => D_input_value true ts
                       (IVDef (Some sv) (mk_name (siv_name a)) (ty_of_tref (siv_type a)) (dflt_of E0 a)
                              (custom_dirs (siv_dirs a)) None))
                    Hd Hws HL) as H.
      destruct (siv_desc a) as [[|c r]|]; apply H; intros; apply add_desc_input_value; assumption.
  Qed.

  Fixpoint iv_items (first : bool) (fs : list sivalue) : list (str * sivalue) :=
    match fs with
    | [] => []
    | a :: r => (iv_line first a, a) :: iv_items false r
    end.

  Lemma iv_items_ok first fs : Forall d_siv fs ->
    Forall (fun it => fst it <> [] /\ LexOK (fst it) (fun ts => D_input_value true ts (iv_d (snd it)))) (iv_items first fs).
  Proof.
    intros H. revert first. induction H as [|v r Hv _ IH]; intros first; [constructor|]. cbn [iv_items].
    constructor; [|apply IH]. cbn [fst snd]. apply iv_line_lexok; exact Hv.
  Qed.

  (* ---- arguments, inline or one per line with descriptions ------------------ *)
  Definition d_arg (depth : nat) (a : sivalue) : Prop :=
    plain_siv o E0 (clear_siv a) /\ desc_okd o (S depth) (siv_desc a).

  Definition arg_line (depth : nat) (first : bool) (a : sivalue) : str :=
    print_description o (siv_desc a) (S depth) first ++ (po_indent o ++ ind o depth) ++ iv_text o E0 a.

  Lemma arg_line_lexok depth first a : d_arg depth a ->
    arg_line depth first a <> [] /\ LexOK (arg_line depth first a) (fun ts => D_input_value true ts (iv_d a)).
  Proof.
    intros [Hp Hd]. destruct (iv_text_facts o E0 _ Hp) as [T1 (T2 & _)].
    change (iv_text o E0 (clear_siv a)) with (iv_text o E0 a) in *.
    pose proof (wf_iv_of o E0 _ Hp) as [Hwf Hnd]. pose proof (strip_iv_of o E0 _ Hp) as Hs.
    destruct (ivdef_lexp cf Hws (iv_of E0 (clear_siv a)) Hwf Hnd) as [_ HL].
    specialize (HL [] eq_refl). rewrite reindent_nil in HL. unfold cf in HL.
    rewrite (pr_input_value_plain o E0 _ Hp), Hs in HL.
    change (iv_text o E0 (clear_siv a)) with (iv_text o E0 a) in HL.
    split.
    - unfold arg_line. intros H. apply app_eq_nil in H. destruct H as [_ H]. apply app_eq_nil in H. tauto.
    - unfold arg_line, iv_d.
      pose proof (member_line_lexok o Hws (S depth) (siv_desc a) first (po_indent o ++ ind o depth) (iv_text o E0 a)
                    (fun ts => D_input_value true ts (iv_of E0 (clear_siv a)))
                    (fun sv ts => D_input_value true ts
                       (IVDef (Some sv) (mk_name (siv_name a)) (ty_of_tref (siv_type a)) (dflt_of E0 a)
                              (custom_dirs (siv_dirs a)) None))
                    Hd (all_ws_app _ _ Hws (ind_ws o Hws depth)) HL) as H.
      destruct (siv_desc a) as [[|c r]|]; apply H; intros; apply add_desc_input_value; assumption.
  Qed.

  Fixpoint arg_items (depth : nat) (first : bool) (args : list sivalue) : list (str * sivalue) :=
    match args with
    | [] => []
    | a :: r => (arg_line depth first a, a) :: arg_items depth false r
    end.

  Lemma arg_items_ok depth first args : Forall (d_arg depth) args ->
    Forall (fun it => fst it <> [] /\ LexOK (fst it) (fun ts => D_input_value true ts (iv_d (snd it)))) (arg_items depth first args).
  Proof.
    intros H. revert first. induction H as [|v r Hv _ IH]; intros first; [constructor|]. cbn [arg_items].
    constructor; [|apply IH]. cbn [fst snd]. apply arg_line_lexok; exact Hv.
  Qed.

  Lemma arg_items_map depth first args : map (fun it => iv_d (snd it)) (arg_items depth first args) = map iv_d args.
  Proof. revert first. induction args as [|f r IH]; intros first; [reflexivity|]. cbn [arg_items map snd]. rewrite IH. reflexivity. Qed.

  Definition hasdesc (a : sivalue) : bool := match siv_desc a with Some (_ :: _) => true | _ => false end.

  Definition args_block (depth : nat) (args : list sivalue) : str :=
    ind o depth ++ lit "(" ++ nl ++ join nl (map fst (arg_items depth true args)) ++ (nl ++ ind o depth) ++ lit ")".

  (* print_arguments: what it writes *)
  Definition gargs (depth : nat) (args : list sivalue) : str :=
    if existsb hasdesc args then args_block depth args else args_text o E0 args.

  Lemma ws_head_ok (w : str) rest : all_ws w -> vrest_ok rest -> vrest_ok (w ++ rest).
  Proof.
    intros Hw Hr. destruct w as [|c w']; [exact Hr|]. cbn [app vrest_ok].
    apply all_ws_cons in Hw. destruct Hw as [Hc _]. unfold PrinterSpec.is_ws in Hc.
    apply Bool.orb_true_iff in Hc. destruct Hc as [Hc|Hc]; apply N.eqb_eq in Hc; subst c; repeat split; discriminate.
  Qed.

  Lemma nodesc_plain depth args :
    Forall (d_arg depth) args -> existsb hasdesc args = false ->
    Forall (plain_siv o E0) args /\ map iv_d args = map (iv_of E0) args.
  Proof.
    induction 1 as [|a r [Hp Hd] _ IH]; intros He; [split; [constructor|reflexivity]|].
    cbn [existsb] in He. apply Bool.orb_false_iff in He. destruct He as [Ha Hr]. destruct (IH Hr) as [I1 I2].
    assert (Hnone : siv_desc a = None).
    { unfold hasdesc in Ha. destruct (siv_desc a) as [[|c s0]|]; [|discriminate|reflexivity].
      destruct Hd as [Hne _]. congruence. }
    assert (Hc : clear_siv a = a) by (destruct a; cbn in *; subst; reflexivity).
    rewrite Hc in Hp. split; [constructor; assumption|]. cbn [map]. rewrite I2. f_equal.
    unfold iv_d, iv_of. rewrite Hnone. reflexivity.
  Qed.

  Lemma gargs_lexok depth args : Forall (d_arg depth) args ->
    LexOK (gargs depth args) (fun ts => D_args_def true ts (map iv_d args))
    /\ (forall rest, vrest_ok rest -> vrest_ok (gargs depth args ++ rest)).
  Proof.
    intros H. unfold gargs. destruct (existsb hasdesc args) eqn:He.
    - assert (Hne : args <> []) by (destruct args; [discriminate|discriminate]).
      split.
      + unfold args_block, D_args_def. apply lexok_lead; [apply ws_ignorable; apply ind_ws; exact Hws|].
        change (lit "(") with [40%N]. change (lit ")") with [41%N].
        rewrite <- (arg_items_map depth true args).
        apply (lines_block_lexok 40%N 41%N KParenO KParenC nl (nl ++ ind o depth)
                 (fun a ts => D_input_value true ts (iv_d a)) (D_input_value true) iv_d (arg_items depth true args));
          try reflexivity; try discriminate.
        * repeat constructor.
        * constructor; [reflexivity|apply ws_ignorable; apply ind_ws; exact Hws].
        * destruct args; [congruence|discriminate].
        * intros x ts Hx; exact Hx.
        * apply arg_items_ok; exact H.
      + intros rest Hr. unfold args_block. rewrite <- app_assoc. apply ws_head_ok; [apply ind_ws; exact Hws|].
        apply vrest_sym. left. discriminate.
    - destruct (nodesc_plain depth args H He) as [Hp Hm]. rewrite Hm. split.
      + assert (Hwf : Forall wf_ivdef (map (iv_of E0) args)).
        { apply Forall_forall. intros x Hx. apply in_map_iff in Hx. destruct Hx as (a & <- & Ha).
          rewrite Forall_forall in Hp. apply (wf_iv_of o E0 a (Hp a Ha)). }
        assert (Hnd : Forall (fun i => iv_desc i = None) (map (iv_of E0) args)).
        { apply Forall_forall. intros x Hx. apply in_map_iff in Hx. destruct Hx as (a & <- & Ha). reflexivity. }
        pose proof (argdefs_lexp cf Hws (map (iv_of E0) args) Hwf Hnd [] eq_refl) as HA.
        rewrite reindent_nil in HA. unfold cf in HA. rewrite (pr_arg_defs_plain o E0 _ Hp) in HA.
        rewrite map_map in HA. rewrite (map_ext_in _ (iv_of E0)) in HA; [exact HA|].
        intros a Ha. rewrite Forall_forall in Hp. apply (strip_iv_of o E0 a (Hp a Ha)).
      + intros rest Hr. pose proof (argdefs_head_ok cf [] (map (iv_of E0) args) rest Hr) as Hh.
        rewrite reindent_nil in Hh. unfold cf in Hh. rewrite (pr_arg_defs_plain o E0 _ Hp) in Hh. exact Hh.
  Qed.

  (* ---- fields ------------------------------------------------------------ *)
  Definition clear_sf (f : sfield) : sfield :=
    SF (sf_name f) (sf_py f) (sf_args f) (sf_type f) None (sf_dep f) (sf_dirs f).

  Definition d_sf (f : sfield) : Prop :=
    (dirs_ok o (sf_dirs f) /\ vname (sf_name f) /\ wf_tref (sf_type f))
    /\ Forall (d_arg 1) (sf_args f) /\ desc_okd o 1 (sf_desc f).

  Definition fd_d (f : sfield) : field_def :=
    FDef (strval_of (sf_desc f)) (mk_name (sf_name f)) (map iv_d (sf_args f)) (ty_of_tref (sf_type f))
         (fdirs f) None.

  Lemma omap_args_d depth args : Forall (d_arg depth) args -> omap (ivdef_of E0) args = Ok (map iv_d args).
  Proof.
    induction 1 as [|a l Ha _ IH]; [reflexivity|]. cbn [omap map].
    destruct Ha as [(Hd & _) _]. unfold dflt_ok in Hd. cbn [clear_siv siv_default siv_type] in Hd.
    assert (Hiv : ivdef_of E0 a = Ok (iv_d a)).
    { unfold ivdef_of, iv_d, dflt_of. destruct (siv_default a) as [v|]; [|reflexivity].
      destruct Hd as (n & Hn & _). rewrite Hn. reflexivity. }
    rewrite Hiv. cbn [obind]. rewrite IH. reflexivity.
  Qed.

  Lemma fdef_of_d f : d_sf f -> fdef_of E0 f = Ok (fd_d f).
  Proof.
    intros (_ & Ha & _). unfold fdef_of, fd_d, fdirs. rewrite (omap_args_d 1 _ Ha). reflexivity.
  Qed.

  (* the field without its description *)
  Definition ftd (f : sfield) : str :=
    sf_name f ++ gargs 1 (sf_args f) ++ lit ": " ++ print_tref (sf_type f) ++ dtext o (fdirs f).

  Lemma ftd_lexok f : d_sf f ->
    LexOK (ftd f) (fun ts => D_field_def true ts
                     (FDef None (mk_name (sf_name f)) (map iv_d (sf_args f)) (ty_of_tref (sf_type f)) (fdirs f) None))
    /\ ftd f <> [] /\ py_space (last (ftd f) 0%N) = false.
  Proof.
    intros ((Hdirs & Hn & Ht) & Ha & _).
    destruct (gargs_lexok 1 _ Ha) as [HA HAv].
    pose proof (good_fdirs o (sf_dep f) _ Hdirs) as Hg. fold (fdirs f) in Hg.
    pose proof (good_dirs_wf _ Hg) as Hwfd. pose proof (good_dirs_strip _ Hg) as Hsd.
    pose proof (wf_ty_of_tref _ Ht) as Hwt.
    split; [|split].
    - unfold ftd. rewrite print_tref_pr_type, <- (wrap_dirs o).
      change (lit ": ") with ([58%N] ++ [32%N]). rewrite <- !app_assoc.
      apply (lexok_weaken _ (fun ts => exists n xs, ts = n :: xs /\ tk n = KName /\ tval n = sf_name f /\
                (exists ats colon tyts dts, xs = ats ++ colon :: tyts ++ dts
                   /\ D_args_def true ats (map iv_d (sf_args f)) /\ tk colon = KColon
                   /\ D_type true tyts (strip_ty (ty_of_tref (sf_type f)))
                   /\ D_directives true true dts (map strip_dir (fdirs f))))).
      + intros ts (n & xs & -> & Hk & Htv & ats & colon & tyts & dts & -> & HDa & Hc & HDt & HDd).
        rewrite strip_ty_of_tref in HDt. rewrite Hsd in HDd.
        pose proof (DFd true [] None n ats _ colon tyts _ dts _ (DDesc_none true) Hk HDa Hc HDt HDd) as D.
        unfold name_node in D. rewrite Htv in D. exact D.
      + apply name_then; [exact Hn| |].
        * apply (lexok_app _ _ (fun ts => D_args_def true ts (map iv_d (sf_args f)))
                   (fun ts => exists colon tyts dts, ts = colon :: tyts ++ dts /\ tk colon = KColon
                      /\ D_type true tyts (strip_ty (ty_of_tref (sf_type f)))
                      /\ D_directives true true dts (map strip_dir (fdirs f)))).
          -- exact HA.
          -- cbn [app].
             apply (lexok_symbol_app 58%N KColon _ (fun ts => exists tyts dts, ts = tyts ++ dts
                      /\ D_type true tyts (strip_ty (ty_of_tref (sf_type f)))
                      /\ D_directives true true dts (map strip_dir (fdirs f))));
               [reflexivity|discriminate| |].
             ++ change (32%N :: ?x) with ([32%N] ++ x). apply lexok_lead; [repeat constructor|].
                apply (lexok_app _ _ (fun ts => D_type true ts (strip_ty (ty_of_tref (sf_type f))))
                         (fun ts => D_directives true true ts (map strip_dir (fdirs f)))).
                ** apply type_lexok. exact Hwt.
                ** pose proof (dirs_wrap_lexp cf Hws (fdirs f) Hwfd [] eq_refl) as HD. rewrite reindent_nil in HD. exact HD.
                ** intros rest Hr. pose proof (dirs_wrap_head_ok cf [] (fdirs f) rest Hr) as HH. rewrite reindent_nil in HH. exact HH.
                ** intros ts1 ts2 H1 H2. exists ts1, ts2. auto.
             ++ intros tok ts Hk (tyts & dts & -> & H1 & H2). exists tok, tyts, dts. auto.
          -- intros rest _. apply vrest_sym. left. discriminate.
          -- intros ts1 ts2 H1 (colon & tyts & dts & -> & H2). exists ts1, colon, tyts, dts. tauto.
        * intros rest Hr. rewrite <- app_assoc. apply HAv. apply vrest_sym. left. discriminate.
    - unfold ftd. destruct (vname_nolf _ Hn) as (_ & _ & Hne). intros H. apply app_eq_nil in H. tauto.
    - unfold ftd. destruct (print_tref_facts _ Ht) as [_ (T2 & _ & T4)].
      destruct (dtext_facts o _ Hg) as [_ D3].
      destruct (dtext o (fdirs f)) as [|c r] eqn:Hd.
      + rewrite app_nil_r, !app_assoc, last_app_ne by exact T2. exact T4.
      + rewrite !app_assoc, last_app_ne by discriminate. apply D3. discriminate.
  Qed.

  Definition f_line (first : bool) (f : sfield) : str :=
    print_description o (sf_desc f) 1 first ++ po_indent o ++ ftd f.

  Lemma f_line_lexok first f : d_sf f ->
    f_line first f <> [] /\ LexOK (f_line first f) (fun ts => D_field_def true ts (fd_d f))
    /\ py_space (last (f_line first f) 0%N) = false.
  Proof.
    intros Hf. destruct (ftd_lexok f Hf) as (HL & F3 & F4). destruct Hf as (_ & _ & Hd).
    split; [|split].
    - unfold f_line. intros H. apply app_eq_nil in H. destruct H as [_ H]. apply app_eq_nil in H. tauto.
    - unfold f_line, fd_d.
      pose proof (member_line_lexok o Hws 1 (sf_desc f) first (po_indent o) (ftd f) _
                    (fun sv ts => D_field_def true ts
                       (FDef (Some sv) (mk_name (sf_name f)) (map iv_d (sf_args f)) (ty_of_tref (sf_type f))
                             (fdirs f) None))
                    Hd Hws HL) as H.
      destruct (sf_desc f) as [[|c r]|]; apply H; intros; apply add_desc_field; assumption.
    - unfold f_line. rewrite app_assoc, last_app_ne by exact F3. exact F4.
  Qed.

  Fixpoint f_items (first : bool) (fs : list sfield) : list (str * sfield) :=
    match fs with
    | [] => []
    | f :: r => (f_line first f, f) :: f_items false r
    end.

  Lemma f_items_ok first fs : Forall d_sf fs ->
    Forall (fun it => fst it <> [] /\ LexOK (fst it) (fun ts => D_field_def true ts (fd_d (snd it)))) (f_items first fs).
  Proof.
    intros H. revert first. induction H as [|v r Hv _ IH]; intros first; [constructor|]. cbn [f_items].
    constructor; [|apply IH]. cbn [fst snd]. destruct (f_line_lexok first v Hv) as (H1 & H2 & _). split; assumption.
  Qed.

  (* ---- types whose members carry descriptions ----------------------------- *)
  Definition m_tdef (t : tdef) : Prop :=
    tdef_desc t = None /\ dirs_ok o (tdef_dirs t) /\ vname (tdef_name t) /\
    match t with
    | TScalar _ _ _ => True
    | TObject _ _ is_ fs _ => fs <> [] /\ Forall d_sf fs /\ Forall (fun n => vname n) is_
    | TInterface _ _ fs _ => fs <> [] /\ Forall d_sf fs
    | TUnion _ _ ms _ => ms <> [] /\ Forall (fun n => vname n) ms
    | TEnum _ _ vs _ => vs <> [] /\ Forall d_sev vs
    | TInput _ _ fs _ => fs <> [] /\ Forall d_siv fs
    end.

  Definition mblock (lines : list str) : str := lit " " ++ block_lines_text lines.

  Definition mtext (t : tdef) : str :=
    match t with
    | TScalar _ _ _ | TUnion _ _ _ _ => type_text o E0 t
    | TObject n _ is_ fs ds =>
        lit "type " ++ n ++ (match is_ with [] => [] | _ => lit " implements " ++ join (lit " & ") is_ end)
        ++ dtext o (custom_dirs ds) ++ mblock (map fst (f_items true fs))
    | TInterface n _ fs ds => lit "interface " ++ n ++ dtext o (custom_dirs ds) ++ mblock (map fst (f_items true fs))
    | TEnum n _ vs ds => lit "enum " ++ n ++ dtext o (custom_dirs ds) ++ mblock (map fst (ev_items true vs))
    | TInput n _ fs ds => lit "input " ++ n ++ dtext o (custom_dirs ds) ++ mblock (map fst (iv_items true fs))
    end.

  Definition mdef (t : tdef) : definition :=
    match t with
    | TScalar _ _ _ | TUnion _ _ _ _ => def1_of E0 t
    | TObject n _ is_ fs ds =>
        DObject false None (mk_name n) (map named_ty is_) (custom_dirs ds) (map fd_d fs) None
    | TInterface n _ fs ds => DInterface false None (mk_name n) (custom_dirs ds) (map fd_d fs) None
    | TEnum n _ vs ds => DEnum false None (mk_name n) (custom_dirs ds) (map ev_d vs) None
    | TInput n _ fs ds => DInput false None (mk_name n) (custom_dirs ds) (map iv_d fs) None
    end.

  Lemma items_snd_map {A B} (items : A -> bool -> list (str * A)) (h : A -> B) : True.
  Proof. exact I. Qed.

  Lemma f_items_map first fs : map (fun it => fd_d (snd it)) (f_items first fs) = map fd_d fs.
  Proof. revert first. induction fs as [|f r IH]; intros first; [reflexivity|]. cbn [f_items map snd]. rewrite IH. reflexivity. Qed.
  Lemma ev_items_map first vs : map (fun it => ev_d (snd it)) (ev_items first vs) = map ev_d vs.
  Proof. revert first. induction vs as [|f r IH]; intros first; [reflexivity|]. cbn [ev_items map snd]. rewrite IH. reflexivity. Qed.
  Lemma iv_items_map first fs : map (fun it => iv_d (snd it)) (iv_items first fs) = map iv_d fs.
  Proof. revert first. induction fs as [|f r IH]; intros first; [reflexivity|]. cbn [iv_items map snd]. rewrite IH. reflexivity. Qed.

  Lemma f_items_ne first fs : fs <> [] -> f_items first fs <> [].
  Proof. destruct fs; [congruence|discriminate]. Qed.
  Lemma ev_items_ne first fs : fs <> [] -> ev_items first fs <> [].
  Proof. destruct fs; [congruence|discriminate]. Qed.
  Lemma iv_items_ne first fs : fs <> [] -> iv_items first fs <> [].
  Proof. destruct fs; [congruence|discriminate]. Qed.

  Lemma vname_lit (K : string) : forall c r, str_of_string K = c :: r -> is_name_start c = true ->
    Forall (fun x => is_name_cont x = true) r -> vname (str_of_string K).
  Proof. intros c r E H1 H2. exists c, r. auto. Qed.

  Lemma block_sp lines : lines <> [] -> sp (block_lines_text lines) = mblock lines.
  Proof. intros _. reflexivity. Qed.

  Lemma mdef_lexok t : m_tdef t -> LexOK (mtext t) (fun ts => D_definition true fv true ts (mdef t)).
  Proof.
    intros Hm. pose proof Hm as (Hde & Hdirs & Hname & Hk). destruct Hdirs as [Hg Hc].
    pose proof (good_dirs_wf _ Hg) as Hwf. pose proof (good_dirs_strip _ Hg) as Hstrip.
    destruct (vname_nolf _ Hname) as (_ & _ & Hne).
    destruct t as [n d ds|n d ifaces fs ds|n d fs ds|n d members ds|n d vs ds|n d fs ds];
      cbn [tdef_desc tdef_dirs tdef_name] in *; subst d.
    - (* scalar *) assert (Hp : plain_tdef o E0 (TScalar n None ds)) by (repeat split; assumption).
      apply (plain_tdef_item o E0 fv Hws _ Hp).
    - (* object *) destruct Hk as (Hfne & Hf & Hi).
      set (items := f_items true fs).
      set (It := p_wrap (lit "implements ") (p_join (map pr_type (map named_ty ifaces)) (lit " & ")) []).
      set (parts := [(It, fun ts => D_implements true ts (map strip_ty (map named_ty ifaces)));
                     (pr_directives cf (custom_dirs ds), fun ts => D_directives true true ts (map strip_dir (custom_dirs ds)));
                     (block_lines_text (map fst items),
                      fun ts => D_opt_block (D_field_def true) KCurlyO KCurlyC ts (map (fun it => fd_d (snd it)) items))]).
      assert (HK : vname (str_of_string "type")) by (exists 116%N, (lit "ype"); repeat split; repeat constructor).
      assert (Htext : mtext (TObject n None ifaces fs ds) = p_join (kw false "type" :: n :: map fst parts) (lit " ")).
      { cbn [mtext map fst parts]. rewrite p_join_sp by discriminate. cbn [map concat].
        rewrite (sp_dirs o), (sp_ne n Hne), app_nil_r. fold items.
        unfold It. rewrite (names_join _ _ Hi). destruct ifaces as [|i0 ir].
        - cbn [join p_wrap is_empty sp app lit str_of_string kw]. rewrite <- ?app_assoc. reflexivity.
        - assert (Hj : join (lit " & ") (i0 :: ir) <> []).
          { apply join_ne_ne; [discriminate|]. apply Forall_forall; intros x Hx. rewrite Forall_forall in Hi.
            apply (vname_nolf x (Hi x Hx)). }
          unfold p_wrap. destruct (join (lit " & ") (i0 :: ir)) as [|j0 jr] eqn:Hje; [congruence|].
          cbn [is_empty sp app lit str_of_string kw]. rewrite app_nil_r. cbn [app]. rewrite <- ?app_assoc. reflexivity. }
      rewrite Htext.
      eapply lexok_weaken; [|apply (header_lexok false "type" n parts HK Hname)].
      + intros ts (kws & nt & rest & -> & Hkw & Hkn & Ht & HPp). unfold parts in HPp.
        inversion HPp as [|? ? ts1 ? tss1 H1 Hr1]; subst. inversion Hr1 as [|? ? ts2 ? tss2 H2 Hr2]; subst.
        inversion Hr2 as [|? ? ts3 ? tss3 H3 Hr3]; subst. inversion Hr3; subst. rewrite app_nil_r.
        unfold Pkw in Hkw. destruct Hkw as (k & -> & Hkk). cbn [app mdef].
        unfold items in H3. rewrite f_items_map in H3. rewrite Hstrip in H2. rewrite strip_named_tys in H1.
        pose proof (DT_object true [] None k nt ts1 _ ts2 _ ts3 _ (DDesc_none true) Hkk Hkn H1 H2 H3) as D.
        unfold name_node in D. apply DD_tsd; [reflexivity|exact D].
      + unfold parts. constructor; [cbn [fst snd]; apply implements_lexok; apply wf_named_tys; exact Hi|].
        constructor; [cbn [fst snd]; apply (dirs_top cf Hws); exact Hwf|].
        constructor; [|constructor]. cbn [fst snd]. unfold block_lines_text.
        change (lit "{") with [123%N]. change (lit "}") with [125%N].
        apply (lines_block_lexok 123%N 125%N KCurlyO KCurlyC nl nl (fun f ts => D_field_def true ts (fd_d f))
                 (D_field_def true) fd_d items); try reflexivity; try discriminate; try (repeat constructor).
        * apply f_items_ne; exact Hfne.
        * intros x ts H; exact H.
        * apply f_items_ok; exact Hf.
    - (* interface *) destruct Hk as (Hfne & Hf).
      assert (HK : vname (str_of_string "interface")) by (exists 105%N, (lit "nterface"); repeat split; repeat constructor).
      assert (Htext : mtext (TInterface n None fs ds)
                      = p_join [kw false "interface"; n; pr_directives cf (custom_dirs ds);
                                block_lines_text (map fst (f_items true fs))] (lit " ")).
      { cbn [mtext]. rewrite p_join_sp by discriminate. cbn [map concat].
        rewrite (sp_dirs o), (sp_ne n Hne), app_nil_r. cbn [kw app lit str_of_string]. rewrite <- ?app_assoc. reflexivity. }
      rewrite Htext.
      apply (kind_block_lexok "interface" n (custom_dirs ds) (fun f ts => D_field_def true ts (fd_d f))
               (D_field_def true) fd_d (f_items true fs)); try assumption.
      + apply f_items_ne; exact Hfne.
      + intros x ts H; exact H.
      + apply f_items_ok; exact Hf.
      + intros k nt dts bts Hkk Hkn Ht HDd HDb. rewrite f_items_map in HDb. rewrite Hstrip in HDd.
        pose proof (DT_interface true [] None k nt dts _ bts _ (DDesc_none true) Hkk Hkn HDd HDb) as D.
        unfold name_node in D. rewrite Ht in D. apply DD_tsd; [reflexivity|exact D].
    - (* union *) destruct Hk as (Hmne & Hmm).
      assert (Hp : plain_tdef o E0 (TUnion n None members ds)) by (repeat split; assumption).
      apply (plain_tdef_item o E0 fv Hws _ Hp).
    - (* enum *) destruct Hk as (Hvne & Hv).
      assert (HK : vname (str_of_string "enum")) by (exists 101%N, (lit "num"); repeat split; repeat constructor).
      assert (Htext : mtext (TEnum n None vs ds)
                      = p_join [kw false "enum"; n; pr_directives cf (custom_dirs ds);
                                block_lines_text (map fst (ev_items true vs))] (lit " ")).
      { cbn [mtext]. rewrite p_join_sp by discriminate. cbn [map concat].
        rewrite (sp_dirs o), (sp_ne n Hne), app_nil_r. cbn [kw app lit str_of_string]. rewrite <- ?app_assoc. reflexivity. }
      rewrite Htext.
      apply (kind_block_lexok "enum" n (custom_dirs ds) (fun f ts => D_enum_value true ts (ev_d f))
               (D_enum_value true) ev_d (ev_items true vs)); try assumption.
      + apply ev_items_ne; exact Hvne.
      + intros x ts H; exact H.
      + apply ev_items_ok; exact Hv.
      + intros k nt dts bts Hkk Hkn Ht HDd HDb. rewrite ev_items_map in HDb. rewrite Hstrip in HDd.
        pose proof (DT_enum true [] None k nt dts _ bts _ (DDesc_none true) Hkk Hkn HDd HDb) as D.
        unfold name_node in D. rewrite Ht in D. apply DD_tsd; [reflexivity|exact D].
    - (* input *) destruct Hk as (Hfne & Hf).
      assert (HK : vname (str_of_string "input")) by (exists 105%N, (lit "nput"); repeat split; repeat constructor).
      assert (Htext : mtext (TInput n None fs ds)
                      = p_join [kw false "input"; n; pr_directives cf (custom_dirs ds);
                                block_lines_text (map fst (iv_items true fs))] (lit " ")).
      { cbn [mtext]. rewrite p_join_sp by discriminate. cbn [map concat].
        rewrite (sp_dirs o), (sp_ne n Hne), app_nil_r. cbn [kw app lit str_of_string]. rewrite <- ?app_assoc. reflexivity. }
      rewrite Htext.
      apply (kind_block_lexok "input" n (custom_dirs ds) (fun f ts => D_input_value true ts (iv_d f))
               (D_input_value true) iv_d (iv_items true fs)); try assumption.
      + apply iv_items_ne; exact Hfne.
      + intros x ts H; exact H.
      + apply iv_items_ok; exact Hf.
      + intros k nt dts bts Hkk Hkn Ht HDd HDb. rewrite iv_items_map in HDb. rewrite Hstrip in HDd.
        pose proof (DT_input true [] None k nt dts _ bts _ (DDesc_none true) Hkk Hkn HDd HDb) as D.
        unfold name_node in D. rewrite Ht in D. apply DD_tsd; [reflexivity|exact D].
  Qed.
End Kinds.

(* ------------------------------------------------------------------ *)
(* what the printer writes, and the document of the schema              *)
Fixpoint first_map {A B} (g : bool -> A -> B) (first : bool) (l : list A) : list B :=
  match l with
  | [] => []
  | x :: r => g first x :: first_map g false r
  end.

Lemma imap_first {A B} (f : nat -> A -> outcome B) (g : bool -> A -> B) l :
  (forall i x, In x l -> f i x = Ok (g (Nat.eqb i 0) x)) -> imap f l = Ok (first_map g true l).
Proof.
  intros H. unfold imap.
  assert (G : forall l0 n, (forall i x, In x l0 -> f i x = Ok (g (Nat.eqb i 0) x)) ->
            (fix go (i : nat) (l : list A) : outcome (list B) :=
               match l with
               | [] => Ok []
               | x :: r => do y <- f i x; do ys <- go (S i) r; Ok (y :: ys)
               end) n l0 = Ok (first_map g (Nat.eqb n 0) l0)).
  { induction l0 as [|x l0 IH]; intros n H0; [reflexivity|]. cbn [first_map].
    rewrite (H0 n x (or_introl eq_refl)). cbn [obind].
    rewrite (IH (S n)) by (intros; apply H0; right; assumption). reflexivity. }
  exact (G l 0 H).
Qed.

Section MemberPrint.
  Variable o : popts.
  Variable E : env.
  Variable E0 : env.
  Hypothesis Hext : env_le E0 E.
  Hypothesis Hws : all_ws (po_indent o).
  Let cf := Cfg (po_indent o) true.

  Lemma f_items_first first fs : map fst (f_items o E0 first fs) = first_map (f_line o E0) first fs.
  Proof. revert first. induction fs as [|f r IH]; intros first; [reflexivity|]. cbn [f_items first_map map fst]. rewrite IH. reflexivity. Qed.
  Lemma iv_items_first first fs : map fst (iv_items o E0 first fs) = first_map (iv_line o E0) first fs.
  Proof. revert first. induction fs as [|f r IH]; intros first; [reflexivity|]. cbn [iv_items first_map map fst]. rewrite IH. reflexivity. Qed.

  Lemma arg_items_first depth first args :
    map fst (arg_items o E0 depth first args) = first_map (arg_line o E0 depth) first args.
  Proof. revert first. induction args as [|f r IH]; intros first; [reflexivity|]. cbn [arg_items first_map map fst]. rewrite IH. reflexivity. Qed.

  Lemma print_arguments_d depth args :
    Forall (d_arg o E0 depth) args -> print_arguments o E print_fuel args depth = Ok (gargs o E0 depth args).
  Proof.
    intros H. unfold gargs. destruct (existsb (hasdesc) args) eqn:He.
    - assert (Hpd : po_descriptions o = true).
      { apply existsb_exists in He. destruct He as (a & Ha & Hh). rewrite Forall_forall in H. destruct (H a Ha) as [_ Hd].
        unfold hasdesc in Hh. destruct (siv_desc a) as [[|c r]|]; try discriminate. apply Hd. }
      unfold print_arguments. destruct args as [|a0 r0] eqn:Ea; [discriminate|]. rewrite <- Ea in *.
      change (existsb (fun a => match siv_desc a with Some (_ :: _) => true | _ => false end) args) with (existsb hasdesc args).
      rewrite Hpd, He. cbn [andb].
      rewrite (imap_first _ (arg_line o E0 depth)).
      + cbn [obind]. unfold args_block. rewrite arg_items_first, <- !app_assoc. reflexivity.
      + intros i a Ha. rewrite Forall_forall in H. destruct (H a Ha) as [Hp _].
        pose proof (print_input_value_plain o E E0 Hext _ Hp) as Hpi.
        change (print_input_value o E print_fuel (clear_siv a)) with (print_input_value o E print_fuel a) in Hpi.
        rewrite Hpi. cbn [obind]. unfold arg_line. rewrite <- !app_assoc. reflexivity.
    - destruct (nodesc_plain o E0 depth args H He) as [Hp _]. apply (print_arguments_plain o E E0 Hext); exact Hp.
  Qed.

  Lemma print_fields_d fs :
    Forall (d_sf o E0) fs -> print_fields o E print_fuel fs = Ok (join nl (map fst (f_items o E0 true fs))).
  Proof.
    intros H. unfold print_fields. rewrite f_items_first.
    rewrite (imap_first _ (f_line o E0)); [reflexivity|].
    intros i f Hf. rewrite Forall_forall in H. pose proof (H f Hf) as Hd. pose proof Hd as ((Hn & _) & Ha & _).
    rewrite (print_arguments_d 1 _ Ha). cbn [obind].
    rewrite (print_directives_ok o _ Hn), <- (dtext_deprecated o), <- (dtext_app o). f_equal.
    destruct (f_line_lexok o E0 Hws (Nat.eqb i 0) f Hd) as (H1 & _ & H3).
    change (print_description o (sf_desc f) 1 (Nat.eqb i 0) ++ po_indent o ++ sf_name f ++ gargs o E0 1 (sf_args f)
            ++ lit ": " ++ print_tref (sf_type f) ++ dtext o (deprecated_dir (sf_dep f) ++ custom_dirs (sf_dirs f)))
      with (f_line o E0 (Nat.eqb i 0) f).
    exact (rstrip_id _ H1 H3).
  Qed.

  Lemma print_type_m t : m_tdef o E0 t -> print_type o E print_fuel t = Ok (mtext o E0 t).
  Proof.
    intros Hm. pose proof Hm as (Hde & Hdirs & Hname & Hk).
    destruct t as [n d ds|n d ifaces fs ds|n d fs ds|n d members ds|n d vs ds|n d fs ds];
      cbn [tdef_desc tdef_dirs tdef_name] in *; subst d.
    - apply (print_type_plain o E E0 Hext). split; [reflexivity|]. split; [exact Hdirs|]. split; [exact Hname|exact I].
    - destruct Hk as (_ & Hf & _). cbn [print_type mtext print_description app].
      rewrite (print_fields_d _ Hf). cbn [obind]. rewrite (print_directives_ok o _ Hdirs).
      unfold mblock, block_lines_text. rewrite <- ?app_assoc. reflexivity.
    - destruct Hk as (_ & Hf). cbn [print_type mtext print_description app].
      rewrite (print_fields_d _ Hf). cbn [obind]. rewrite (print_directives_ok o _ Hdirs).
      unfold mblock, block_lines_text. rewrite <- ?app_assoc. reflexivity.
    - apply (print_type_plain o E E0 Hext). split; [reflexivity|]. split; [exact Hdirs|]. split; [exact Hname|exact Hk].
    - destruct Hk as (_ & Hv). cbn [print_type mtext print_description app].
      rewrite (print_directives_ok o _ Hdirs), (enum_lines o Hws vs Hv 0).
      unfold mblock, block_lines_text. rewrite <- ?app_assoc. reflexivity.
    - destruct Hk as (_ & Hf). cbn [print_type mtext print_description app].
      rewrite (imap_first _ (iv_line o E0)).
      + cbn [obind]. rewrite (print_directives_ok o _ Hdirs), iv_items_first.
        unfold mblock, block_lines_text. rewrite <- ?app_assoc. reflexivity.
      + intros i a Ha. rewrite Forall_forall in Hf. destruct (Hf a Ha) as [Hp _].
        pose proof (print_input_value_plain o E E0 Hext _ Hp) as Hpi.
        change (print_input_value o E print_fuel (clear_siv a)) with (print_input_value o E print_fuel a) in Hpi.
        rewrite Hpi. reflexivity.
  Qed.

  Lemma omap_fd_d fs : Forall (d_sf o E0) fs -> omap (fdef_of E0) fs = Ok (map (fd_d E0) fs).
  Proof.
    induction 1 as [|a l Ha _ IH]; [reflexivity|]. cbn [omap map]. rewrite (fdef_of_d o E0 a Ha). cbn [obind]. rewrite IH. reflexivity.
  Qed.
  Lemma omap_iv_d fs : Forall (d_siv o E0) fs -> omap (ivdef_of E0) fs = Ok (map (iv_d E0) fs).
  Proof.
    induction 1 as [|a l Ha _ IH]; [reflexivity|]. cbn [omap map]. rewrite (ivdef_of_d o E0 a Ha). cbn [obind]. rewrite IH. reflexivity.
  Qed.

  Lemma def_of_tdef_m t : m_tdef o E0 t -> def_of_tdef E0 t = Ok (mdef E0 t).
  Proof.
    intros Hm. pose proof Hm as (Hde & Hdirs & Hname & Hk).
    destruct t as [n d ds|n d ifaces fs ds|n d fs ds|n d members ds|n d vs ds|n d fs ds];
      cbn [tdef_desc tdef_dirs tdef_name] in *; subst d; cbn [def_of_tdef mdef strval_of].
    - reflexivity.
    - destruct Hk as (_ & Hf & _). rewrite (omap_fd_d _ Hf). reflexivity.
    - destruct Hk as (_ & Hf). rewrite (omap_fd_d _ Hf). reflexivity.
    - reflexivity.
    - reflexivity.
    - destruct Hk as (_ & Hf). rewrite (omap_iv_d _ Hf). reflexivity.
  Qed.
End MemberPrint.

(* ------------------------------------------------------------------ *)
(* schemas with descriptions on types, directive definitions, fields, enum
   values and input fields (arguments carry none)                         *)
Section FullTexts.
  Variable o : popts.
  Variable E : env.
  Variable E0 : env.
  Hypothesis Hext : env_le E0 E.
  Hypothesis Hws : all_ws (po_indent o).

  Definition full_tdef (t : tdef) : Prop := m_tdef o E0 (clear_tdesc t) /\ desc_ok o (tdef_desc t).
  Definition ftext (t : tdef) : str := desc_text o (tdef_desc t) ++ mtext o E0 (clear_tdesc t).
  Definition fdef (t : tdef) : definition := set_desc (strval_of (tdef_desc t)) (mdef E0 (clear_tdesc t)).

  Lemma print_type_full t : full_tdef t -> print_type o E print_fuel t = Ok (ftext t).
  Proof.
    intros [Hm Hd]. rewrite print_type_clear, (print_type_m o E E0 Hext Hws _ Hm), (print_description_top o _ Hd). reflexivity.
  Qed.

  Lemma def_of_tdef_full t : full_tdef t -> def_of_tdef E0 t = Ok (fdef t).
  Proof. intros [Hm _]. rewrite def_of_tdef_clear, (def_of_tdef_m o E0 _ Hm). reflexivity. Qed.

  Lemma undescribed_mdef t : undescribed (mdef E0 (clear_tdesc t)).
  Proof. destruct t; exact I. Qed.

  Lemma mtext_ne t : mtext o E0 t <> [].
  Proof. destruct t; discriminate. Qed.

  Lemma full_tdef_item fv t : full_tdef t -> item_ok fv (ftext t, fdef t).
  Proof.
    intros [Hm Hd]. unfold ftext, fdef. apply described_item; [exact Hd|apply undescribed_mdef|].
    split; [apply mtext_ne|]. split; [apply (mdef_lexok o E0 fv Hws); exact Hm|].
    intros (l & sels & l' & He). cbn [snd] in He. destruct t; discriminate.
  Qed.

  (* ---- directive definitions with described arguments ---------------------- *)
  Definition m_ddef (d : ddef) : Prop :=
    vname (dd_name d) /\ Forall (d_arg o E0 0) (dd_args d) /\ dd_locs d <> []
    /\ Forall (fun l => In l (map str_of_string directive_location_names)) (dd_locs d)
    /\ desc_ok o (dd_desc d).

  Definition mdcore (d : ddef) : str :=
    lit "directive @" ++ dd_name d ++ gargs o E0 0 (dd_args d) ++ lit " on " ++ join (lit " | ") (dd_locs d).
  Definition mdtext (d : ddef) : str := desc_text o (dd_desc d) ++ mdcore d.
  Definition mdcore_def (d : ddef) : definition :=
    DDirective None (mk_name (dd_name d)) (map (iv_d E0) (dd_args d)) (map mk_name (dd_locs d)) None.
  Definition mddef (d : ddef) : definition := set_desc (strval_of (dd_desc d)) (mdcore_def d).

  Lemma print_ddef_m d : m_ddef d -> print_directive_definition o E print_fuel d = Ok (mdtext d).
  Proof.
    intros (_ & Ha & _ & _ & Hd). unfold print_directive_definition, mdtext, mdcore.
    rewrite (print_arguments_d o E E0 Hext 0 _ Ha). cbn [obind]. rewrite (print_description_top o _ Hd). reflexivity.
  Qed.

  Lemma def_of_ddef_m d : m_ddef d -> def_of_ddef E0 d = Ok (mddef d).
  Proof.
    intros (_ & Ha & _). unfold def_of_ddef, mddef, mdcore_def. rewrite (omap_args_d o E0 0 _ Ha). cbn [obind].
    destruct (strval_of (dd_desc d)); reflexivity.
  Qed.

  Lemma loc_vname l : In l (map str_of_string directive_location_names) -> vname l.
  Proof.
    intros H. simpl in H.
    repeat (destruct H as [<-|H]; [eexists _, _; split; [reflexivity|]; split; [reflexivity|repeat constructor]|]).
    contradiction.
  Qed.

  Lemma mdcore_lexok fv d : m_ddef d ->
    LexOK (mdcore d) (fun ts => D_definition true fv true ts (mdcore_def d)).
  Proof.
    intros (Hn & Hargs & Hlne & Hlocs & _). unfold mdcore, mdcore_def.
    destruct (gargs_lexok o E0 Hws 0 _ Hargs) as [HA HAv].
    assert (HL : LexOK (join (lit " | ") (dd_locs d))
                   (fun ts => D_sep_list (D_directive_location true) KPipe ts (map mk_name (dd_locs d)))).
    { change (lit " | ") with [32%N; 124%N; 32%N].
      assert (Hj : join [32%N; 124%N; 32%N] (dd_locs d) = join_ne (map (fun x : str => x) (dd_locs d)) [32%N; 124%N; 32%N]).
      { rewrite map_id. symmetry. apply join_ne_join. }
      rewrite Hj.
      apply (lex_sep_joined 124%N KPipe (fun x : str => x)
               (fun x ts => exists t, ts = [t] /\ tk t = KName /\ tval t = x
                                      /\ In x (map str_of_string directive_location_names))
               (D_directive_location true) mk_name); try reflexivity; try discriminate; try assumption.
      - intros x ts (t & -> & Hk & Ht & Hw).
        pose proof (DDl true t Hk) as D. unfold name_node in D. rewrite Ht in D. apply D. exact Hw.
      - apply Forall_forall. intros x Hx. rewrite Forall_forall in Hlocs.
        apply name_lexok; [apply loc_vname; auto|]. intros t Hk Ht. exists t. auto. }
    set (Q := fun ts => exists k a nt ats o' lts, ts = k :: a :: nt :: ats ++ o' :: lts
                /\ is_word "directive" k /\ tk a = KAt /\ tk nt = KName /\ tval nt = dd_name d
                /\ D_args_def true ats (map (iv_d E0) (dd_args d)) /\ is_word "on" o'
                /\ D_sep_list (D_directive_location true) KPipe lts (map mk_name (dd_locs d))).
    apply (lexok_weaken _ Q).
    - intros ts (k & a & nt & ats & o' & lts & -> & Hk & Ha & Hkn & Ht & HDa & Ho & HDl).
      pose proof (DT_directive true [] None k a nt ats _ o' [] lts _ (DDesc_none true) Hk Ha Hkn HDa Ho (DLead_none KPipe) HDl) as D.
      unfold name_node in D. rewrite Ht in D. apply DD_tsd; [reflexivity|exact D].
    - change (lit "directive @") with (str_of_string "directive" ++ [32%N] ++ [64%N]).
      change (lit " on ") with ([32%N] ++ lit "on" ++ [32%N]).
      rewrite <- !app_assoc.
      apply (lexok_weaken _ (fun ts => exists k xs, ts = k :: xs /\ tk k = KName /\ tval k = str_of_string "directive" /\
                (exists a nt ats o' lts, xs = a :: nt :: ats ++ o' :: lts /\ tk a = KAt /\ tk nt = KName
                   /\ tval nt = dd_name d /\ D_args_def true ats (map (iv_d E0) (dd_args d)) /\ is_word "on" o'
                   /\ D_sep_list (D_directive_location true) KPipe lts (map mk_name (dd_locs d))))).
      + intros ts (k & xs & -> & Hk & Htk & a & nt & ats & o' & lts & -> & H1 & H2 & H3 & H4 & H5 & H6).
        unfold Q. exists k, a, nt, ats, o', lts. repeat split; auto; apply H5.
      + apply name_then; [exists 100%N, (lit "irective"); repeat split; repeat constructor| |].
        * apply lexok_lead; [repeat constructor|]. cbn [app].
          apply (lexok_symbol_app 64%N KAt _ (fun ts => exists nt ats o' lts, ts = nt :: ats ++ o' :: lts
                    /\ tk nt = KName /\ tval nt = dd_name d /\ D_args_def true ats (map (iv_d E0) (dd_args d))
                    /\ is_word "on" o'
                    /\ D_sep_list (D_directive_location true) KPipe lts (map mk_name (dd_locs d))));
            [reflexivity|discriminate| |].
          -- apply (lexok_weaken _ (fun ts => exists nt xs, ts = nt :: xs /\ tk nt = KName /\ tval nt = dd_name d /\
                       (exists ats o' lts, xs = ats ++ o' :: lts /\ D_args_def true ats (map (iv_d E0) (dd_args d))
                          /\ is_word "on" o'
                          /\ D_sep_list (D_directive_location true) KPipe lts (map mk_name (dd_locs d))))).
             ++ intros ts (nt & xs & -> & Hk & Ht & ats & o' & lts & -> & H). exists nt, ats, o', lts. tauto.
             ++ apply name_then; [exact Hn| |].
                ** apply (lexok_app _ _ (fun ts => D_args_def true ts (map (iv_d E0) (dd_args d)))
                           (fun ts => exists o' lts, ts = o' :: lts /\ is_word "on" o'
                              /\ D_sep_list (D_directive_location true) KPipe lts (map mk_name (dd_locs d)))).
                   --- exact HA.
                   --- change (32%N :: lit "on" ++ 32%N :: ?x) with ([32%N] ++ lit "on" ++ [32%N] ++ x).
                       apply lexok_lead; [repeat constructor|].
                       apply (lexok_weaken _ (fun ts => exists o' xs, ts = o' :: xs /\ tk o' = KName /\ tval o' = lit "on"
                                /\ D_sep_list (D_directive_location true) KPipe xs (map mk_name (dd_locs d)))).
                       +++ intros ts (o' & xs & -> & Hk & Ht & H). exists o', xs. unfold is_word. auto.
                       +++ apply name_then; [apply valid_name_on| |].
                           *** apply lexok_lead; [repeat constructor|exact HL].
                           *** intros rest _. apply vrest_sym. auto.
                   --- intros rest _. apply vrest_sym. auto.
                   --- intros ts1 ts2 H1 (o' & lts & -> & H2). exists ts1, o', lts. tauto.
                ** intros rest Hr. rewrite <- app_assoc. apply HAv. apply vrest_sym. auto.
          -- intros tok ts Hk (nt & ats & o' & lts & -> & H). exists tok, nt, ats, o', lts. tauto.
        * intros rest _. apply vrest_sym. auto.
  Qed.

  Lemma m_ddef_item fv d : m_ddef d -> item_ok fv (mdtext d, mddef d).
  Proof.
    intros Hm. pose proof Hm as (_ & _ & _ & _ & Hd). unfold mdtext, mddef.
    apply described_item; [exact Hd|exact I|]. split; [discriminate|]. split; [apply mdcore_lexok; exact Hm|].
    intros (l & sels & l' & He). discriminate.
  Qed.
End FullTexts.

Definition full_schema (o : popts) (sc : schema) : Prop :=
  let E0 := env_of_schema [] sc in
  Forall (full_tdef o E0) (s_types sc) /\ Forall (m_ddef o E0) (s_ddefs sc) /\ plain_roots o sc /\ s_types sc <> [].

Definition full_items (o : popts) (sc : schema) : list (str * definition) :=
  let E0 := env_of_schema [] sc in
  (if schema_def_needed sc then [(sdef_text o sc, sdef_of sc)] else [])
  ++ map (fun d => (mdtext o E0 d, mddef E0 d)) (sort_by dd_name (s_ddefs sc))
  ++ map (fun t => (ftext o E0 t, fdef E0 t)) (sort_by tdef_name (s_types sc)).

Definition doc_f (o : popts) (sc : schema) : document := Doc (map snd (full_items o sc)) None.

Lemma doc_f_indep o o' sc : doc_f o sc = doc_f o' sc.
Proof.
  unfold doc_f, full_items. rewrite !map_app, !map_map. cbn [snd].
  destruct (schema_def_needed sc); reflexivity.
Qed.

Lemma ast_of_schema_full o sc : full_schema o sc -> ast_of_schema sc = Ok (doc_f o sc).
Proof.
  intros (Ht & Hd & Hr & Hne). set (E0 := env_of_schema [] sc) in *.
  set (st := sort_by tdef_name (s_types sc)). set (sd := sort_by dd_name (s_ddefs sc)).
  assert (Hst : Forall (full_tdef o E0) st) by (apply sort_by_Forall; exact Ht).
  assert (Hsd : Forall (m_ddef o E0) sd) by (apply sort_by_Forall; exact Hd).
  unfold ast_of_schema, doc_f, full_items. fold E0 sd st.
  assert (H1 : omap (def_of_ddef E0) sd = Ok (map (mddef E0) sd)).
  { clear -Hsd. induction Hsd as [|x l Hx Hl IH]; [reflexivity|]. cbn [omap map].
    rewrite (def_of_ddef_m o E0 x Hx). cbn [obind]. rewrite IH. reflexivity. }
  assert (H2 : omap (def_of_tdef E0) st = Ok (map (fdef E0) st)).
  { clear -Hst. induction Hst as [|x l Hx Hl IH]; [reflexivity|]. cbn [omap map].
    rewrite (def_of_tdef_full o E0 x Hx). cbn [obind]. rewrite IH. reflexivity. }
  rewrite H1, H2. cbn [obind]. rewrite !map_app, !map_map. cbn [snd].
  unfold sdef_of, ot_of. destruct (schema_def_needed sc); reflexivity.
Qed.

Lemma ftext_ne o E0 t : ftext o E0 t <> [].
Proof. unfold ftext. intros H. apply app_eq_nil in H. destruct H as [_ H]. exact (mtext_ne o E0 _ H). Qed.

Theorem print_schema_full intro spec o sc :
  full_schema o sc -> all_ws (po_indent o) -> po_introspection o = false ->
  print_schema intro spec o sc = Ok (join (nl ++ nl) (map fst (full_items o sc)) ++ nl).
Proof.
  intros (Ht & Hd & Hr & Hne) Hws Hi. set (E0 := env_of_schema [] sc) in *.
  set (E := env_of_schema intro sc). pose proof (env_le_intro intro sc) as Hext. fold E0 E in Hext.
  set (st := sort_by tdef_name (s_types sc)). set (sd := sort_by dd_name (s_ddefs sc)).
  assert (Hst : Forall (full_tdef o E0) st) by (apply sort_by_Forall; exact Ht).
  assert (Hsd : Forall (m_ddef o E0) sd) by (apply sort_by_Forall; exact Hd).
  unfold full_items. fold E0 sd st.
  unfold print_schema. rewrite Hi. rewrite app_nil_r. fold st sd E. cbn [obind].
  assert (H1 : omap (print_directive_definition o E print_fuel) sd = Ok (map (mdtext o E0) sd)).
  { clear -Hsd Hext Hws. induction Hsd as [|x l Hx Hl IH]; [reflexivity|]. cbn [omap map].
    rewrite (print_ddef_m o E E0 Hext x Hx). cbn [obind]. rewrite IH. reflexivity. }
  assert (H2 : omap (print_type o E print_fuel) st = Ok (map (ftext o E0) st)).
  { clear -Hst Hext Hws. induction Hst as [|x l Hx Hl IH]; [reflexivity|]. cbn [omap map].
    rewrite (print_type_full o E E0 Hext Hws x Hx). cbn [obind]. rewrite IH. reflexivity. }
  rewrite H1, H2. cbn [obind app].
  rewrite (print_schema_definition_plain o sc Hr).
  set (Stexts := if schema_def_needed sc then [sdef_text o sc] else []).
  assert (Hrest : Forall (fun x : str => x <> []) (map (mdtext o E0) sd ++ map (ftext o E0) st)).
  { apply Forall_app; split; apply Forall_forall; intros x Hx; apply in_map_iff in Hx; destruct Hx as [y [<- _]].
    - unfold mdtext. intros H0. apply app_eq_nil in H0. destruct H0 as [_ H0]. discriminate.
    - apply ftext_ne. }
  assert (Hparts : filter nonempty ((if schema_def_needed sc then sdef_text o sc else [])
                                    :: map (mdtext o E0) sd ++ map (ftext o E0) st)
                   = Stexts ++ map (mdtext o E0) sd ++ map (ftext o E0) st).
  { assert (Hk : forall l : list str, Forall (fun x => x <> []) l -> filter nonempty l = l).
    { induction 1 as [|x l Hx Hl IH]; [reflexivity|]. cbn [filter]. destruct x; [congruence|]. cbn [nonempty].
      rewrite IH. reflexivity. }
    unfold Stexts. destruct (schema_def_needed sc); cbn [filter nonempty].
    - unfold sdef_text at 1. cbn [app lit str_of_string nonempty]. rewrite (Hk _ Hrest). reflexivity.
    - apply Hk; exact Hrest. }
  rewrite Hparts.
  assert (Hst_ne : st <> []) by (apply sort_by_nonempty; exact Hne).
  assert (Hfst : map fst ((if schema_def_needed sc then [(sdef_text o sc, sdef_of sc)] else [])
                          ++ map (fun d => (mdtext o E0 d, mddef E0 d)) sd
                          ++ map (fun t => (ftext o E0 t, fdef E0 t)) st)
                 = Stexts ++ map (mdtext o E0) sd ++ map (ftext o E0) st).
  { rewrite !map_app, !map_map. cbn [fst]. unfold Stexts. destruct (schema_def_needed sc); reflexivity. }
  rewrite Hfst.
  destruct (Stexts ++ map (mdtext o E0) sd ++ map (ftext o E0) st) as [|p0 ps] eqn:Hp; [|reflexivity].
  exfalso. apply app_eq_nil in Hp. destruct Hp as [_ Hp]. apply app_eq_nil in Hp. destruct Hp as [_ Hp].
  destruct st; [congruence|discriminate].
Qed.

Theorem text_parses_full intro spec o fl sc text :
  full_schema o sc -> valid_locations sc -> po_introspection o = false ->
  no_location fl = true -> allow_type_system fl = true -> all_ws (po_indent o) ->
  print_schema intro spec o sc = Ok text ->
  parse_document fl text = Ok (doc_f o sc) /\ ast_of_schema sc = Ok (doc_f o sc).
Proof.
  intros Hp Hl Hi Hnl Hts Hws Hprint.
  rewrite (print_schema_full intro spec o sc Hp Hws Hi) in Hprint. injection Hprint as <-.
  split; [|apply ast_of_schema_full; exact Hp].
  destruct Hp as (Ht & Hd & Hr & Hne). set (E0 := env_of_schema [] sc) in *.
  change (nl ++ nl) with [10%N; 10%N]. change nl with [10%N].
  apply items_parse; try assumption.
  - unfold full_items. intros He. apply app_eq_nil in He. destruct He as [_ He]. apply app_eq_nil in He.
    destruct He as [_ He]. apply map_eq_nil in He. exact (sort_by_nonempty _ _ Hne He).
  - unfold full_items. fold E0. apply Forall_app; split; [|apply Forall_app; split].
    + destruct (schema_def_needed sc); [|constructor]. constructor; [|constructor]. apply sdef_item; assumption.
    + apply Forall_forall. intros x Hx. apply in_map_iff in Hx. destruct Hx as (d & <- & Hin).
      apply sort_by_in in Hin. rewrite Forall_forall in Hd.
      apply m_ddef_item; [exact Hws|apply Hd; exact Hin].
    + apply Forall_forall. intros x Hx. apply in_map_iff in Hx. destruct Hx as (t & <- & Hin).
      apply sort_by_in in Hin. rewrite Forall_forall in Ht. apply full_tdef_item; [exact Hws|apply Ht; exact Hin].
Qed.
