(* The declarative relations of Spec/ExecSpec.v are functional: CollectFields
   (SFlat / SCollect) has at most one result, and so have ExecuteSelectionSet /
   ExecuteField / CompleteValue (SSel, ...) for a functional CollectFields. *)
From PyGql Require Import Spec.ExecSpec.

Section FlatDet.
  Variable applies : option ty -> bool.
  Variable frags : frag_table.
  Variable vs : vars.

  Ltac contra :=
    exfalso;
    repeat match goal with
           | H : _ \/ _ |- _ => destruct H
           | H : exists _, _ |- _ => destruct H
           | H : _ /\ _ |- _ => destruct H
           end;
    try congruence; try tauto;
    repeat match goal with
           | H1 : alookup ?n ?f = Some _, H2 : alookup ?n ?f = Some _ |- _ =>
               rewrite H1 in H2; inversion H2; subst; clear H2
           end; try congruence; tauto.

  Ltac use_ih :=
    repeat match goal with
           | IH : forall fs2 V2, SFlat _ _ _ ?ss ?V fs2 V2 -> _, Hs : SFlat _ _ _ ?ss ?V _ _ |- _ =>
               destruct (IH _ _ Hs) as [-> ->]; clear IH Hs
           end.

  Lemma SFlat_det : forall ss V fs V', SFlat applies frags vs ss V fs V' ->
    forall fs2 V2, SFlat applies frags vs ss V fs2 V2 -> fs = fs2 /\ V' = V2.
  Proof.
    induction 1; intros fsx Vx Hx; inversion Hx; subst; clear Hx; try (contra; fail);
      repeat match goal with
             | H1 : alookup ?n frags = Some _, H2 : alookup ?n frags = Some _ |- _ =>
                 rewrite H1 in H2; inversion H2; subst; clear H2
             end;
      use_ih; auto.
  Qed.

  Theorem SCollect_det ss g g' :
    SCollect applies frags vs ss g -> SCollect applies frags vs ss g' -> g = g'.
  Proof.
    intros (fs & V & H & ->) (fs' & V' & H' & ->). destruct (SFlat_det _ _ _ _ H _ _ H') as [-> _]. reflexivity.
  Qed.
End FlatDet.

Scheme SC_mind := Minimality for SComplete Sort Prop
  with SI_mind := Minimality for SItems Sort Prop
  with SS_mind := Minimality for SSel Sort Prop
  with SG_mind := Minimality for SGroups Sort Prop
  with SF_mind := Minimality for SField_ Sort Prop
  with SA_mind := Minimality for SAbort Sort Prop
  with SAI_mind := Minimality for SAbortItems Sort Prop.
Combined Scheme S_mutind from SC_mind, SI_mind, SS_mind, SG_mind, SF_mind, SA_mind, SAI_mind.

Section SelDet.
  Variable sch : schema.
  Variable coerce_args : fdef -> selection -> outcome (list (str * pv)).
  Variable world : world_t.
  Variable tyres : str -> option (pv -> tyname_res).
  Variable G : str -> list selection -> groups -> Prop.
  Hypothesis Gdet : forall tn ss g g', G tn ss g -> G tn ss g' -> g = g'.

  Notation SC := (SComplete sch coerce_args world tyres G).
  Notation SI := (SItems sch coerce_args world tyres G).
  Notation SS := (SSel sch coerce_args world tyres G).
  Notation SG := (SGroups sch coerce_args world tyres G).
  Notation SF := (SField_ sch coerce_args world tyres G).
  Notation SA := (SAbort sch coerce_args world tyres G).
  Notation SAI := (SAbortItems sch coerce_args world tyres G).

  Lemma runtime_type_det n v rt rt' :
    spec_runtime_type sch tyres n v rt -> spec_runtime_type sch tyres n v rt' -> rt = rt'.
  Proof.
    unfold spec_runtime_type. intros [[H|[H ->]] _] [[H'|[H' ->]] _]; congruence.
  Qed.

  Lemma field_def_det tn node k fd k' fd' :
    spec_field_def sch tn node k fd -> spec_field_def sch tn node k' fd' -> k = k' /\ fd = fd'.
  Proof.
    unfold spec_field_def.
    intros [(A & -> & ->)|(A & _ & _ & -> & fs & ifs & Hg & Hf)] [(B & -> & ->)|(B & _ & _ & -> & fs' & ifs' & Hg' & Hf')];
      try congruence; auto.
    rewrite Hg in Hg'. inversion Hg'; subst. rewrite Hf in Hf'. inversion Hf'; auto.
  Qed.

  Lemma field_def_undef tn node k fd :
    spec_field_def sch tn node k fd -> spec_field_undef sch tn node -> False.
  Proof.
    unfold spec_field_def, spec_field_undef.
    intros [(A & _)|(_ & _ & _ & _ & fs & ifs & Hg & Hf)] (B & _ & _ & fs' & ifs' & Hg' & Hf'); [congruence|].
    rewrite Hg in Hg'. inversion Hg'; subst. congruence.
  Qed.

  Lemma resolved_det tn parent k fd p args r r' :
    spec_resolved world tn parent k fd p args r -> spec_resolved world tn parent k fd p args r' -> r = r'.
  Proof.
    unfold spec_resolved. destruct k; try contradiction; [|congruence].
    destruct (world p parent tn (f_name fd) args); congruence.
  Qed.

  Definition PC nodes t p v r es :=
    (forall r' es', SC nodes t p v r' es' -> r = r' /\ es = es') /\ (forall es', SA nodes t p v es' -> False).
  Definition PI nodes t p i items rs es :=
    (forall rs' es', SI nodes t p i items rs' es' -> rs = rs' /\ es = es') /\
    (forall es', SAI nodes t p i items es' -> False).
  Definition PS tn v p sels d es := forall d' es', SS tn v p sels d' es' -> d = d' /\ es = es'.
  Definition PG tn v p g kvs es := forall kvs' es', SG tn v p g kvs' es' -> kvs = kvs' /\ es = es'.
  Definition PF tn v k fd nodes p r es := forall r' es', SF tn v k fd nodes p r' es' -> r = r' /\ es = es'.
  Definition PA nodes t p v es :=
    (forall es', SA nodes t p v es' -> es = es') /\ (forall r es', SC nodes t p v r es' -> False).
  Definition PAI nodes t p i items es :=
    (forall es', SAI nodes t p i items es' -> es = es') /\ (forall rs es', SI nodes t p i items rs es' -> False).

  Ltac same_lookups :=
    repeat match goal with
           | H1 : get_type sch ?n = Some _, H2 : get_type sch ?n = Some _ |- _ =>
               rewrite H1 in H2; inversion H2; subst; clear H2
           | H1 : iter_items ?v = Some _, H2 : iter_items ?v = Some _ |- _ =>
               rewrite H1 in H2; inversion H2; subst; clear H2
           | H1 : coerce_args ?f ?n = _, H2 : coerce_args ?f ?n = _ |- _ =>
               rewrite H1 in H2; inversion H2; subst; clear H2
           | H1 : serialize_scalar ?k ?v = _, H2 : serialize_scalar ?k ?v = _ |- _ =>
               rewrite H1 in H2; inversion H2; subst; clear H2
           | H1 : enum_get_name ?k ?v = _, H2 : enum_get_name ?k ?v = _ |- _ =>
               rewrite H1 in H2; inversion H2; subst; clear H2
           | H1 : spec_runtime_type sch tyres ?n ?v ?a, H2 : spec_runtime_type sch tyres ?n ?v ?b |- _ =>
               pose proof (runtime_type_det _ _ _ _ H1 H2); subst; clear H2
           | H1 : spec_resolved world ?a ?b ?c ?d ?e ?f ?x, H2 : spec_resolved world ?a ?b ?c ?d ?e ?f ?y |- _ =>
               pose proof (resolved_det _ _ _ _ _ _ _ _ H1 H2) as Hrd; inversion Hrd; subst; clear H2 Hrd
           | H1 : G ?a ?b ?x, H2 : G ?a ?b ?y |- _ =>
               pose proof (Gdet _ _ _ _ H1 H2); subst; clear H2
           | H1 : spec_field_def sch ?a ?b ?k ?f, H2 : spec_field_def sch ?a ?b ?k' ?f' |- _ =>
               destruct (field_def_det _ _ _ _ _ _ H1 H2); subst; clear H2
           | H1 : spec_field_def sch ?a ?b ?k ?f, H2 : spec_field_undef sch ?a ?b |- _ =>
               exfalso; exact (field_def_undef _ _ _ _ H1 H2)
           end.

  Ltac is_abs_vs_obj :=
    try match goal with
        | H1 : get_type sch ?n = Some _, H2 : is_abstract sch ?n = true |- _ =>
            unfold is_abstract in H2; rewrite H1 in H2; discriminate
        end.

  Ltac use_ihs :=
    repeat match goal with
           | IH : PC ?a ?b ?c ?d ?r ?e, H : SC ?a ?b ?c ?d ?r' ?e' |- _ =>
               tryif constr_eq e e' then fail else (destruct (proj1 IH _ _ H); subst; clear H)
           | IH : PC ?a ?b ?c ?d ?r ?e, H : SA ?a ?b ?c ?d _ |- _ => exfalso; exact (proj2 IH _ H)
           | IH : PI ?a ?b ?c ?d ?i ?r ?e, H : SI ?a ?b ?c ?d ?i ?r' ?e' |- _ =>
               tryif constr_eq e e' then fail else (destruct (proj1 IH _ _ H); subst; clear H)
           | IH : PI ?a ?b ?c ?d ?i ?r ?e, H : SAI ?a ?b ?c ?d ?i _ |- _ => exfalso; exact (proj2 IH _ H)
           | IH : PS ?a ?b ?c ?d ?r ?e, H : SS ?a ?b ?c ?d ?r' ?e' |- _ =>
               tryif constr_eq e e' then fail else (destruct (IH _ _ H); subst; clear H)
           | IH : PG ?a ?b ?c ?d ?r ?e, H : SG ?a ?b ?c ?d ?r' ?e' |- _ =>
               tryif constr_eq e e' then fail else (destruct (IH _ _ H); subst; clear H)
           | IH : PF ?a ?b ?c ?d ?f ?g ?r ?e, H : SF ?a ?b ?c ?d ?f ?g ?r' ?e' |- _ =>
               tryif constr_eq e e' then fail else (destruct (IH _ _ H); subst; clear H)
           | IH : PA ?a ?b ?c ?d ?e, H : SA ?a ?b ?c ?d ?e' |- _ =>
               tryif constr_eq e e' then fail else (pose proof (proj1 IH _ H); subst; clear H)
           | IH : PA ?a ?b ?c ?d ?e, H : SC ?a ?b ?c ?d _ _ |- _ => exfalso; exact (proj2 IH _ _ H)
           | IH : PAI ?a ?b ?c ?d ?i ?e, H : SAI ?a ?b ?c ?d ?i ?e' |- _ =>
               tryif constr_eq e e' then fail else (pose proof (proj1 IH _ H); subst; clear H)
           | IH : PAI ?a ?b ?c ?d ?i ?e, H : SI ?a ?b ?c ?d ?i _ _ |- _ => exfalso; exact (proj2 IH _ _ H)
           end.

  Ltac no_group :=
    try match goal with
        | H : SS ?n _ _ ?ss _ _, Hn : forall g, ~ G ?n ?ss g |- _ =>
            inversion H; subst; exfalso; eapply Hn; eassumption
        end.

  Ltac inv_last H := inversion H; subst; clear H; same_lookups; is_abs_vs_obj; no_group; use_ihs;
                     try congruence; try (split; congruence); auto.

  Theorem S_det :
    (forall nodes t p v r es, SC nodes t p v r es -> PC nodes t p v r es) /\
    (forall nodes t p i items rs es, SI nodes t p i items rs es -> PI nodes t p i items rs es) /\
    (forall tn v p sels d es, SS tn v p sels d es -> PS tn v p sels d es) /\
    (forall tn v p g kvs es, SG tn v p g kvs es -> PG tn v p g kvs es) /\
    (forall tn v k fd nodes p r es, SF tn v k fd nodes p r es -> PF tn v k fd nodes p r es) /\
    (forall nodes t p v es, SA nodes t p v es -> PA nodes t p v es) /\
    (forall nodes t p i items es, SAI nodes t p i items es -> PAI nodes t p i items es).
  Proof.
    apply S_mutind; intros;
      first [ (split; [intros ? ? Hx|intros ? Hx]) | (split; [intros ? Hx|intros ? ? Hx]) | intros ? ? Hx ];
      inv_last Hx.
  Qed.
End SelDet.

Theorem SSel_det sch coerce_args world tyres (G : str -> list selection -> groups -> Prop) :
  (forall tn ss g g', G tn ss g -> G tn ss g' -> g = g') ->
  forall tn v p sels d es d' es',
    SSel sch coerce_args world tyres G tn v p sels d es ->
    SSel sch coerce_args world tyres G tn v p sels d' es' -> d = d' /\ es = es'.
Proof.
  intros Gdet tn v p sels d es d' es' H H'.
  exact (proj1 (proj2 (proj2 (S_det sch coerce_args world tyres G Gdet))) _ _ _ _ _ _ H _ _ H').
Qed.

(* ---- the executor's result is THE specification's result *)
From PyGql Require Import Proofs.ExecProofs Proofs.DepthTermination Proofs.ExecCollectFull Proofs.ExecSpecFull.

Theorem exec_is_the_spec_result sch frags vs coerce_args world tyres cfuel rank :
  acyclic frags rank ->
  forall fuel tname v p sels r,
    exec_sel sch frags vs coerce_args world tyres cfuel fuel tname v p sels = Ok r ->
    no_abort (snd r) ->
    (* a specification result exists ... *)
    (exists es', SSel sch coerce_args world tyres (fun tn ss g => SCollect (applies sch tn) frags vs ss g)
                      tname v p sels (fst r) es' /\ errs_sim (snd r) es') /\
    (* ... and every specification result is it *)
    (forall d es', SSel sch coerce_args world tyres (fun tn ss g => SCollect (applies sch tn) frags vs ss g)
                        tname v p sels d es' ->
                   d = fst r /\ errs_sim (snd r) es').
Proof.
  intros Hacyc fuel tname v p sels r H NA.
  destruct (exec_eq_spec_full sch frags vs coerce_args world tyres cfuel rank Hacyc fuel tname v p sels r H NA)
    as [es0 [S0 E0]].
  split; [exists es0; split; [exact S0|exact E0]|].
  intros d es' S'.
  destruct (SSel_det sch coerce_args world tyres _
              (fun tn ss g g' => SCollect_det (applies sch tn) frags vs ss g g') _ _ _ _ _ _ _ _ S0 S') as [-> ->].
  split; [reflexivity|exact E0].
Qed.
