(* Proofs about the executor machine, part B: terms stay in normal form (a
   continuation fires as soon as its source is done), the pending list is
   exactly the multiset of tasks the terms wait for, and a failed term carries
   an exception that was raised => termination, unexpected exceptions. *)
From Coq Require Import List NArith ZArith Bool Arith Lia Permutation.
Import ListNotations.
From PyGql Require Import Exec.RuntimeMachine Proofs.RuntimeMachineProofs.

Definition tid_eq_dec : forall a b : tid, {a = b} + {a <> b}.
Proof. decide equality; [apply Nat.eq_dec|apply (list_eq_dec N.eq_dec)]. Defined.
Definition cnt (u : tid) (l : list tid) : nat := count_occ tid_eq_dec l u.

Lemma cnt_app u a b : cnt u (a ++ b) = cnt u a + cnt u b.
Proof. apply count_occ_app. Qed.
Lemma cnt_nil u : cnt u [] = 0.
Proof. reflexivity. Qed.
Lemma cnt_all_zero l : (forall u, cnt u l = 0) -> l = [].
Proof.
  destruct l as [|t l]; [reflexivity|]. intros H. specialize (H t). unfold cnt in H.
  rewrite count_occ_cons_eq in H by reflexivity. discriminate.
Qed.

Fixpoint tasks_of (d : D) : list tid :=
  match d with
  | Task t _ => [t]
  | Bind d1 _ => tasks_of d1
  | Gather ds => (fix go (ds : list D) : list tid :=
                    match ds with [] => [] | d :: r => tasks_of d ++ go r end) ds
  | _ => []
  end.
Fixpoint tasks_l (ds : list D) : list tid :=
  match ds with [] => [] | d :: r => tasks_of d ++ tasks_l r end.
Lemma tasks_of_gather ds : tasks_of (Gather ds) = tasks_l ds.
Proof. simpl. induction ds as [|d ds IH]; [reflexivity|]. simpl. rewrite IH. reflexivity. Qed.
Lemma tasks_l_app a b : tasks_l (a ++ b) = tasks_l a ++ tasks_l b.
Proof. induction a as [|d a IH]; simpl; [reflexivity|]. rewrite IH, app_assoc. reflexivity. Qed.

Definition is_exn (d : D) : bool := match d with Exn _ => true | _ => false end.

Inductive nf : D -> Prop :=
| nf_val v : nf (Val v)
| nf_exn x : nf (Exn x)
| nf_task t m : nf (Task t m)
| nf_bind d k : nf d -> is_done d = false -> nf (Bind d k)
| nf_gather ds : Forall nf ds -> first_exn ds = None -> all_vals ds = None -> nf (Gather ds).

Lemma all_vals_tasks ds vs : all_vals ds = Some vs -> tasks_l ds = [].
Proof.
  revert vs. induction ds as [|d ds IH]; intros vs H; [reflexivity|]. simpl in H.
  destruct d; try discriminate. destruct (all_vals ds) as [vs'|]; [|discriminate].
  simpl. apply (IH vs'). reflexivity.
Qed.

Lemma done_tasks d : is_done d = true -> tasks_of d = [].
Proof. destruct d; simpl; intros H; try discriminate; reflexivity. Qed.

(* the heart of termination: a normal form that waits for no task is done *)
Lemma nf_no_tasks_done : forall d, nf d -> tasks_of d = [] -> is_done d = true.
Proof.
  induction d as [v|x|t more|d1 k IH|ds IH] using D_ind2; intros Hn Ht; try reflexivity.
  - simpl in Ht. discriminate.
  - inversion Hn; subst. simpl in Ht. rewrite (IH H1 Ht) in H2. discriminate.
  - inversion Hn as [| | | |ds' Hall Hex Hav]; subst. rewrite tasks_of_gather in Ht. exfalso.
    assert (Hvals : exists vs, all_vals ds = Some vs).
    { clear Hn Hav. induction ds as [|d ds IHds]; [exists []; reflexivity|].
      inversion IH as [|? ? Hd Hds]; subst. inversion Hall as [|? ? Hnd Hnds]; subst.
      simpl in Ht. apply app_eq_nil in Ht. destruct Ht as [Ht1 Ht2].
      pose proof (Hd Hnd Ht1) as Hdone.
      destruct d; try discriminate.
      simpl in Hex. destruct (IHds Hds Ht2 Hnds Hex) as [vs Hvs]. exists (v :: vs). simpl. rewrite Hvs. reflexivity. }
    destruct Hvals as [vs Hvs]. congruence.
Qed.

(* ---------------------------------------------------------------- *)
(* what a synchronous call does to the bookkeeping part of the state *)
Definition wf_out (tasks : list tid) (st st' : mstate) (exn : option N) : Prop :=
  exists newp newo newr,
    pending st' = pending st ++ newp /\ orphans st' = orphans st ++ newo /\
    raised st' = raised st ++ newr /\
    Forall nf newo /\ Forall (fun d => is_done d = false) newo /\
    (forall u, cnt u newp = cnt u tasks + cnt u (tasks_l newo)) /\
    match exn with Some x => In x newr | None => True end.

Lemma wf_out_refl st : wf_out [] st st None.
Proof.
  exists [], [], []. rewrite !app_nil_r. repeat split; try constructor.
Qed.

Lemma wf_out_trans t1 t2 st st1 st2 o1 o2 :
  wf_out t1 st st1 o1 -> wf_out t2 st1 st2 o2 ->
  wf_out (t1 ++ t2) st st2 (match o1 with Some x => Some x | None => o2 end).
Proof.
  intros (p1 & q1 & r1 & Hp1 & Hq1 & Hr1 & Hn1 & Hd1 & Hc1 & Hx1)
         (p2 & q2 & r2 & Hp2 & Hq2 & Hr2 & Hn2 & Hd2 & Hc2 & Hx2).
  exists (p1 ++ p2), (q1 ++ q2), (r1 ++ r2).
  rewrite Hp2, Hp1, Hq2, Hq1, Hr2, Hr1, !app_assoc. repeat split.
  - apply Forall_app. split; assumption.
  - apply Forall_app. split; assumption.
  - intros u. rewrite tasks_l_app, !cnt_app, Hc1, Hc2. lia.
  - destruct o1 as [x|]; [apply in_or_app; left; exact Hx1|].
    destruct o2 as [x|]; [apply in_or_app; right; exact Hx2|exact I].
Qed.

Lemma wf_out_weaken ts st st' x : wf_out ts st st' (Some x) -> wf_out ts st st' None.
Proof.
  intros (p & q & r & H1 & H2 & H3 & H4 & H5 & H6 & _). exists p, q, r. repeat split; assumption.
Qed.

Lemma wf_out_tasks ts ts' st st' o :
  (forall u, cnt u ts = cnt u ts') -> wf_out ts st st' o -> wf_out ts' st st' o.
Proof.
  intros He (p & q & r & H1 & H2 & H3 & H4 & H5 & H6 & H7). exists p, q, r.
  repeat split; try assumption. intros u. rewrite H6, He. reflexivity.
Qed.

(* the task of an abandoned term moves from "waited for" to "orphan" *)
Lemma wf_out_orphan d ts st st' o :
  nf d -> wf_out (tasks_of d ++ ts) st st' o -> wf_out ts st (add_orphan d st') o.
Proof.
  intros Hn (p & q & r & H1 & H2 & H3 & H4 & H5 & H6 & H7). unfold add_orphan.
  destruct (is_done d) eqn:Ed.
  - exists p, q, r. repeat split; try assumption. intros u. rewrite H6, (done_tasks d Ed). reflexivity.
  - exists p, (q ++ [d]), r. cbn [pending orphans raised]. rewrite H2, app_assoc. repeat split; try assumption.
    + apply Forall_app. split; [assumption|]. constructor; [assumption|constructor].
    + apply Forall_app. split; [assumption|]. constructor; [assumption|constructor].
    + intros u. rewrite H6, tasks_l_app, !cnt_app. simpl. rewrite app_nil_r. lia.
Qed.

Lemma add_orphans_spec ds : forall st,
  pending (add_orphans ds st) = pending st /\ raised (add_orphans ds st) = raised st /\
  orphans (add_orphans ds st) = orphans st ++ filter (fun d => negb (is_done d)) ds.
Proof.
  unfold add_orphans. induction ds as [|d ds IH]; intros st; simpl.
  - rewrite app_nil_r. auto.
  - destruct (IH (add_orphan d st)) as (A & B & C). rewrite A, B, C. unfold add_orphan.
    destruct (is_done d); simpl; [auto|]. rewrite <- app_assoc. auto.
Qed.

Lemma tasks_l_filter ds : tasks_l (filter (fun d => negb (is_done d)) ds) = tasks_l ds.
Proof.
  induction ds as [|d ds IH]; [reflexivity|]. simpl. destruct (is_done d) eqn:E; simpl.
  - rewrite (done_tasks d E). exact IH.
  - rewrite IH. reflexivity.
Qed.

Lemma first_exn_in ds x : first_exn ds = Some x -> In (Exn x) ds.
Proof.
  induction ds as [|d ds IH]; simpl; [discriminate|].
  destruct d; intros H; try (right; apply IH; exact H). inversion H; subst. left. reflexivity.
Qed.

Lemma gather_norm_wf ds st : Forall nf ds ->
  let r := gather_norm ds st in
  nf (fst r) /\ pending (snd r) = pending st /\ raised (snd r) = raised st /\
  exists newo, orphans (snd r) = orphans st ++ newo /\ Forall nf newo /\
    Forall (fun d => is_done d = false) newo /\
    (forall u, cnt u (tasks_l ds) = cnt u (tasks_of (fst r)) + cnt u (tasks_l newo)) /\
    (forall x, fst r = Exn x -> In (Exn x) ds).
Proof.
  intros Hn. unfold gather_norm. destruct (first_exn ds) as [x|] eqn:Ex.
  - destruct (add_orphans_spec ds st) as (A & B & C). cbn [fst snd].
    split; [constructor|]. split; [exact A|]. split; [exact B|].
    exists (filter (fun d => negb (is_done d)) ds). split; [exact C|]. split.
    { apply Forall_forall. intros d Hd. apply filter_In in Hd. destruct Hd as [Hd _].
      apply (proj1 (Forall_forall nf ds) Hn d Hd). }
    split.
    { apply Forall_forall. intros d Hd. apply filter_In in Hd. destruct Hd as [_ Hd].
      destruct (is_done d); [discriminate|reflexivity]. }
    split; [intros u; rewrite tasks_l_filter; simpl; lia|].
    intros y Hy. inversion Hy; subst. apply first_exn_in. exact Ex.
  - destruct (all_vals ds) as [vs|] eqn:Ev; cbn [fst snd].
    + split; [constructor|]. split; [reflexivity|]. split; [reflexivity|].
      exists []. rewrite app_nil_r. repeat split; try constructor.
      * intros u. rewrite (all_vals_tasks ds vs Ev). reflexivity.
      * intros x Hx. discriminate.
    + split; [constructor; assumption|]. split; [reflexivity|]. split; [reflexivity|].
      exists []. rewrite app_nil_r. repeat split; try constructor.
      * intros u. rewrite tasks_of_gather. simpl. lia.
      * intros x Hx. discriminate.
Qed.


Definition sync_wf (r : sres * mstate) (st : mstate) : Prop :=
  match fst r with
  | SOk d => nf d /\ wf_out (tasks_of d) st (snd r) None /\
             (forall x, d = Exn x -> In x (raised (snd r)))
  | SRaise x => wf_out [] st (snd r) (Some x)
  end.
Definition syncf_wf (r : fres * mstate) (st : mstate) : Prop :=
  match fst r with
  | FOk ds => Forall nf ds /\ wf_out (tasks_l ds) st (snd r) None /\
              (forall x, In (Exn x) ds -> In x (raised (snd r)))
  | FRaise x => wf_out [] st (snd r) (Some x)
  end.

(* a gather in the synchronous phase: some waited-for terms become orphans *)
Lemma wf_out_regroup ts ts' st st1 st2 o newo2 :
  wf_out ts st st1 o ->
  pending st2 = pending st1 -> raised st2 = raised st1 -> orphans st2 = orphans st1 ++ newo2 ->
  Forall nf newo2 -> Forall (fun d => is_done d = false) newo2 ->
  (forall u, cnt u ts = cnt u ts' + cnt u (tasks_l newo2)) ->
  wf_out ts' st st2 o.
Proof.
  intros (p & q & r & H1 & H2 & H3 & H4 & H5 & H6 & H7) Hp Hr Ho Hn Hd Hc.
  exists p, (q ++ newo2), r. rewrite Hp, Hr, Ho, H1, H2, H3, app_assoc. repeat split; try assumption.
  - apply Forall_app. split; assumption.
  - apply Forall_app. split; assumption.
  - intros u. rewrite H6, Hc, tasks_l_app, cnt_app. lia.
Qed.

Lemma gather_to_sync_wf r st :
  syncf_wf r st ->
  sync_wf (match r with
           | (FOk ds, st1) => let '(d, st2) := gather_sync ds st1 in (SOk d, st2)
           | (FRaise x, st1) => (SRaise x, st1)
           end) st.
Proof.
  destruct r as [[ds|x] st1]; unfold syncf_wf, sync_wf; cbn [fst snd]; [|auto].
  intros (Hn & Hw & Hx). unfold gather_sync.
  pose proof (gather_norm_wf ds st1 Hn) as Hg. cbv zeta in Hg.
  destruct (gather_norm ds st1) as [d st2]. cbn [fst snd] in *.
  destruct Hg as (Hnd & Hp & Hr & newo & Ho & Hno & Hdo & Hc & Hex).
  split; [exact Hnd|]. split.
  - apply (wf_out_regroup _ _ _ _ _ _ newo Hw Hp Hr Ho Hno Hdo Hc).
  - intros x Hd. rewrite Hr. apply Hx. apply Hex. exact Hd.
Qed.

Lemma fields_to_sync_wf keys r st :
  syncf_wf r st ->
  sync_wf (match r with
           | (FOk ds, st1) => let '(d, st2) := collect_sync keys ds st1 in (SOk d, st2)
           | (FRaise x, st1) => (SRaise x, st1)
           end) st.
Proof.
  intros H. pose proof (gather_to_sync_wf r st H) as G.
  destruct r as [[ds|x] st1]; [|exact G]. unfold collect_sync. unfold gather_sync in G.
  destruct (gather_norm ds st1) as [g st2]. unfold sync_wf in *. cbn [fst snd] in *.
  destruct G as (Hn & Hw & Hx).
  assert (Hdef : is_done g = false ->
            nf (Bind g (KCollect keys)) /\ wf_out (tasks_of (Bind g (KCollect keys))) st st2 None /\
            (forall x, Bind g (KCollect keys) = Exn x -> In x (raised st2))).
  { intros Hd. split; [constructor; assumption|]. split; [exact Hw|]. intros x Hc. discriminate. }
  destruct g as [v|x| | |]; try (apply Hdef; reflexivity).
  - split; [constructor|]. split; [exact Hw|]. intros x Hc. discriminate.
  - split; [constructor|]. split; [exact Hw|]. exact Hx.
Qed.

Definition items_to_sync_wf := gather_to_sync_wf.

Lemma nonnull_wrap_wf nn p r st : sync_wf r st -> sync_wf (nonnull_wrap nn p r) st.
Proof.
  unfold nonnull_wrap. destruct nn; [|auto]. destruct r as [[d|x] st']; [|auto].
  unfold sync_wf. cbn [fst snd]. intros (Hn & Hw & Hx).
  destruct d as [v| | | |]; cbn [fst snd].
  - destruct (is_null v); (split; [constructor|]; split; [exact Hw|]; intros y Hy; discriminate).
  - split; [constructor|]. split; [exact Hw|exact Hx].
  - split; [constructor; [assumption|reflexivity]|]. split; [exact Hw|]. intros y Hy. discriminate.
  - split; [constructor; [assumption|reflexivity]|]. split; [exact Hw|]. intros y Hy. discriminate.
  - split; [constructor; [assumption|reflexivity]|]. split; [exact Hw|]. intros y Hy. discriminate.
Qed.

Lemma wf_out_raised ts st st' o x : wf_out ts st st' o -> In x (raised st) -> In x (raised st').
Proof.
  intros (p & q & r & _ & _ & Hr & _) H. rewrite Hr. apply in_or_app. left. exact H.
Qed.

Lemma syncf_cons r1 st1 st (rest : mstate -> fres * mstate) :
  sync_wf (r1, st1) st -> (forall s, syncf_wf (rest s) s) ->
  syncf_wf (match r1 with
            | SRaise x => (FRaise x, st1)
            | SOk d => match rest st1 with
                       | (FOk ds, st2) => (FOk (d :: ds), st2)
                       | (FRaise x, st2) => (FRaise x, add_orphan d st2)
                       end
            end) st.
Proof.
  unfold sync_wf. cbn [fst snd]. intros H1 Hrest. destruct r1 as [d|x]; [|exact H1].
  destruct H1 as (Hn & Hw1 & Hx1). specialize (Hrest st1).
  destruct (rest st1) as [[ds|x] st2]; unfold syncf_wf in *; cbn [fst snd] in *.
  - destruct Hrest as (Hns & Hw2 & Hx2). split; [constructor; assumption|]. split.
    + apply (wf_out_trans _ _ _ _ _ _ _ Hw1 Hw2).
    + intros x [Hd|Hd]; [|apply Hx2; exact Hd].
      apply (wf_out_raised _ _ _ _ _ Hw2). apply Hx1. exact Hd.
  - pose proof (wf_out_trans _ _ _ _ _ _ _ Hw1 Hrest) as Hw. cbn in Hw.
    apply wf_out_orphan; [exact Hn|]. rewrite app_nil_r in Hw. rewrite app_nil_r. exact Hw.
Qed.

Lemma run_eager_wf : forall e t more st,
  wf_out (match fst (run_eager t more e st) with Some (t', _) => [t'] | None => [] end)
         st (snd (run_eager t more e st)) None.
Proof.
  induction e as [|e IH]; intros t more st; cbn [run_eager].
  - cbn [fst snd]. exists [t], [], []. cbn. rewrite !app_nil_r. repeat split; try constructor.
    intros u. lia.
  - destruct more as [|m]; [exact (wf_out_refl st)|].
    exact (IH (next_tid t) m (emit (LFinish t) (emit (LInvoke t) st))).
Qed.

Lemma capture_wf r st : sync_wf r st -> sync_wf (capture r) st.
Proof.
  destruct r as [[d|x] st']; [auto|]. unfold sync_wf. cbn [fst snd capture]. intros H.
  split; [constructor|]. split; [apply (wf_out_weaken _ _ _ _ H)|].
  intros y Hy. injection Hy as <-.
  destruct H as (p & q & r & _ & _ & Hr & _ & _ & _ & Hin). rewrite Hr. apply in_or_app. right. exact Hin.
Qed.

Lemma sync_wf_after r st st1 : wf_out [] st st1 None -> sync_wf r st1 -> sync_wf r st.
Proof.
  intros H0. unfold sync_wf. destruct (fst r) as [d|x].
  - intros (A & C & E). split; [exact A|]. split; [|exact E].
    exact (wf_out_trans _ _ _ _ _ _ _ H0 C).
  - intros C. exact (wf_out_trans _ _ _ _ _ _ _ H0 C).
Qed.

Lemma sync_wf_all :
  (forall f p st, sync_wf (resolve_field p f st) st) /\
  (forall b nn p st, sync_wf (complete_field nn b p st) st) /\
  (forall fs p st, syncf_wf (start_fields p fs st) st) /\
  (forall its inn p i st, syncf_wf (start_items inn p i its st) st) /\
  (forall it inn p st, sync_wf (complete_item inn it p st) st).
Proof.
  assert (Hval : forall v st st', wf_out [] st st' None -> sync_wf (SOk (Val v), st') st).
  { intros v st st' H. unfold sync_wf. cbn. split; [constructor|]. split; [exact H|]. intros x Hx. discriminate. }
  apply prog_mutind.
  - intros k dfr nn b IH p st. cbn [resolve_field]. destruct dfr as [[n e]|].
    + pose proof (run_eager_wf e (p ++ [k], O) n st) as Hr.
      destruct (run_eager (p ++ [k], O) n e st) as [[[t m]|] st1]; cbn [fst snd] in Hr.
      * unfold sync_wf. cbn [fst snd]. split; [constructor; [constructor|reflexivity]|].
        split; [exact Hr|]. intros x Hx. discriminate.
      * apply capture_wf. apply (sync_wf_after _ st st1 Hr). apply IH.
    + exact (IH nn (p ++ [k]) (emit (LFinish (p ++ [k], O)) (emit (LInvoke (p ++ [k], O)) st))).
  - intros z nn p st. apply Hval. exact (wf_out_refl st).
  - intros nn p st. cbn [complete_field]. apply Hval. destruct nn; exact (wf_out_refl st).
  - intros nn p st. apply Hval. exact (wf_out_refl st).
  - intros x nn p st. unfold sync_wf. cbn [complete_field fst snd].
    exists [], [], [x]. cbn. rewrite !app_nil_r. repeat split; try constructor; reflexivity.
  - intros fs IH nn p st. cbn [complete_field]. apply nonnull_wrap_wf. apply fields_to_sync_wf. apply IH.
  - intros inn its IH nn p st. cbn [complete_field]. apply nonnull_wrap_wf. apply items_to_sync_wf. apply IH.
  - intros p st. unfold syncf_wf. cbn. split; [constructor|]. split; [exact (wf_out_refl st)|]. intros x [].
  - intros f IHf fs IHfs p st. cbn [start_fields].
    pose proof (IHf p st) as H1. destruct (resolve_field p f st) as [r1 st1].
    apply (syncf_cons r1 st1 st (start_fields p fs) H1 (IHfs p)).
  - intros inn p i st. unfold syncf_wf. cbn. split; [constructor|]. split; [exact (wf_out_refl st)|]. intros x [].
  - intros it IHit its IHits inn p i st. cbn [start_items].
    pose proof (IHit inn (p ++ [i]) st) as H1. destruct (complete_item inn it (p ++ [i]) st) as [r1 st1].
    apply (syncf_cons r1 st1 st (start_items inn p (N.succ i) its) H1 (IHits inn p (N.succ i))).
  - intros inn p st. cbn [complete_item]. apply Hval. destruct inn; exact (wf_out_refl st).
  - intros z inn p st. apply Hval. exact (wf_out_refl st).
  - intros fs IH inn p st. cbn [complete_item]. apply nonnull_wrap_wf. apply fields_to_sync_wf. apply IH.
Qed.

Definition sync_wf_field := proj1 sync_wf_all.
Definition sync_wf_complete := proj1 (proj2 sync_wf_all).
Definition sync_wf_fields := proj1 (proj2 (proj2 sync_wf_all)).

Lemma serial_next_wf : forall rest acc st, sync_wf (serial_next acc rest st) st.
Proof.
  induction rest as [|f rest IH]; intros acc st; cbn [serial_next].
  - unfold sync_wf. cbn. split; [constructor|]. split; [exact (wf_out_refl st)|]. intros x Hx. discriminate.
  - pose proof (sync_wf_field f [] st) as H1. destruct (resolve_field [] f st) as [r1 st1].
    destruct r1 as [d|x]; [|exact H1].
    assert (Hdef : is_done d = false ->
              sync_wf (SOk (Bind d (KSerial (key_of f) acc rest)), st1) st).
    { intros Hd. unfold sync_wf in *. cbn [fst snd] in *. destruct H1 as (Hn & Hw & Hx).
      split; [constructor; assumption|]. split; [exact Hw|]. intros x Hc. discriminate. }
    destruct d as [v| | | |]; try (apply Hdef; reflexivity); [|exact H1].
    unfold sync_wf in H1. cbn [fst snd] in H1. destruct H1 as (_ & Hw & _).
    apply (sync_wf_after _ st st1 Hw). apply IH.
Qed.

(* results of continuations / completion steps on terms *)
Definition dres_wf (r : D * mstate) (st : mstate) : Prop :=
  nf (fst r) /\ wf_out (tasks_of (fst r)) st (snd r) None /\
  (forall x, fst r = Exn x -> In x (raised (snd r))).

Lemma lift_wf r st : sync_wf r st -> dres_wf (lift r) st.
Proof.
  destruct r as [[d|x] st']; unfold sync_wf, dres_wf; cbn [fst snd lift].
  - intros (A & C & E). split; [exact A|]. split; [exact C|exact E].
  - intros H. split; [constructor|]. split; [apply (wf_out_weaken _ _ _ _ H)|].
    intros y Hy. inversion Hy; subst y.
    destruct H as (p & q & r & _ & _ & Hr & _ & _ & _ & Hin). rewrite Hr. apply in_or_app. right. exact Hin.
Qed.

Lemma apply_k_wf k v st : dres_wf (apply_k k v st) st.
Proof.
  destruct k as [f p|keys|p|k acc rest|]; cbn [apply_k].
  - destruct f as [kk dfr nn b]. apply lift_wf. apply sync_wf_complete.
  - split; [constructor|]. split; [exact (wf_out_refl st)|]. intros x Hx. discriminate.
  - split; [constructor|]. split; [destruct (is_null v); exact (wf_out_refl st)|]. intros x Hx. discriminate.
  - apply lift_wf. apply serial_next_wf.
  - split; [constructor|]. split; [exact (wf_out_refl st)|]. intros x Hx. discriminate.
Qed.

Lemma cnt_single u t : cnt u [t] = if tid_eq_dec t u then 1 else 0.
Proof. unfold cnt. simpl. destruct (tid_eq_dec t u); reflexivity. Qed.

Lemma cnt_remove t : forall l, 1 <= cnt t l ->
  forall u, cnt u (remove_tid t l) + cnt u [t] = cnt u l.
Proof.
  induction l as [|x l IH]; intros H u; [simpl in H; lia|].
  cbn [remove_tid]. destruct (tid_eqb t x) eqn:E.
  - apply tid_eqb_eq in E. subst x. change (t :: l) with ([t] ++ l). rewrite cnt_app. lia.
  - assert (Hne : x <> t) by (intros ->; rewrite tid_eqb_refl in E; discriminate).
    assert (H' : 1 <= cnt t l).
    { unfold cnt in *. rewrite count_occ_cons_neq in H by exact Hne. exact H. }
    specialize (IH H' u). change (x :: remove_tid t l) with ([x] ++ remove_tid t l).
    change (x :: l) with ([x] ++ l). rewrite !cnt_app. lia.
Qed.

(* what one completion does to a term in normal form whose tasks are pending *)
Definition fire_wf (d : D) (st : mstate) (r : D * mstate) : Prop :=
  nf (fst r) /\
  exists newo newr,
    orphans (snd r) = orphans st ++ newo /\ raised (snd r) = raised st ++ newr /\
    Forall nf newo /\ Forall (fun d => is_done d = false) newo /\
    (forall u, cnt u (pending (snd r)) + cnt u (tasks_of d) =
               cnt u (pending st) + cnt u (tasks_of (fst r)) + cnt u (tasks_l newo)) /\
    (forall x, fst r = Exn x -> d = Exn x \/ In x (raised (snd r))).

Definition fire_list_wf (ds : list D) (st : mstate) (r : list D * mstate) : Prop :=
  Forall nf (fst r) /\
  exists newo newr,
    orphans (snd r) = orphans st ++ newo /\ raised (snd r) = raised st ++ newr /\
    Forall nf newo /\ Forall (fun d => is_done d = false) newo /\
    (forall u, cnt u (pending (snd r)) + cnt u (tasks_l ds) =
               cnt u (pending st) + cnt u (tasks_l (fst r)) + cnt u (tasks_l newo)) /\
    (forall x, In (Exn x) (fst r) -> In (Exn x) ds \/ In x (raised (snd r))).

Lemma fire_wf_all t : forall d st,
  nf d -> (forall u, cnt u (tasks_of d) <= cnt u (pending st)) -> fire_wf d st (fire t d st).
Proof.
  induction d as [v|x|t' more|d1 k IH|ds IH] using D_ind2; intros st Hn Hle.
  - split; [constructor|]. exists [], []. cbn. rewrite !app_nil_r. repeat split; try apply Forall_nil.
    + intros u. lia.
    + intros x Hx. discriminate.
  - split; [constructor|]. exists [], []. cbn. rewrite !app_nil_r. repeat split; try apply Forall_nil.
    + intros u. lia.
    + intros y Hy. left. exact Hy.
  - cbn [fire]. destruct (tid_eqb t t') eqn:Et.
    + apply tid_eqb_eq in Et. subst t'.
      assert (H1 : 1 <= cnt t (pending st)).
      { specialize (Hle t). cbn [tasks_of] in Hle. rewrite cnt_single in Hle.
        destruct (tid_eq_dec t t); [lia|congruence]. }
      pose proof (cnt_remove t (pending st) H1) as Hrm.
      destruct more as [|n]; (split; [constructor|]); exists [], []; cbn [fst snd pending orphans raised tasks_of tasks_l];
        rewrite !app_nil_r; repeat split; try apply Forall_nil.
      * intros u. specialize (Hrm u). rewrite cnt_nil. lia.
      * intros x Hx. discriminate.
      * intros u. specialize (Hrm u). rewrite cnt_app, cnt_nil. lia.
      * intros x Hx. discriminate.
    + split; [constructor|]. exists [], []. cbn [fst snd]. rewrite !app_nil_r. repeat split; try apply Forall_nil.
      * intros u. cbn [tasks_l]. rewrite cnt_nil. lia.
      * intros x Hx. discriminate.
  - inversion Hn as [| | |d1' k' Hn1 Hnd|]; subst. cbn [fire tasks_of] in *.
    specialize (IH st Hn1 Hle). destruct (fire t d1 st) as [d1' st1].
    destruct IH as (Hn1' & newo1 & newr1 & Ho1 & Hr1 & Hno1 & Hdo1 & Hc1 & Hx1). cbn [fst snd] in *.
    assert (Hdef : is_done d1' = false -> fire_wf (Bind d1 k) st (Bind d1' k, st1)).
    { intros Hd. split; [constructor; assumption|]. exists newo1, newr1. cbn [fst snd tasks_of].
      repeat split; try assumption. intros x Hx. discriminate. }
    destruct d1' as [v|x| | |]; try (apply Hdef; reflexivity).
    + (* the continuation fires *)
      pose proof (apply_k_wf k v st1) as Hk. destruct (apply_k k v st1) as [d' st'].
      destruct Hk as (Hn' & (p2 & q2 & r2 & Hp2 & Hq2 & Hr2 & Hnq2 & Hdq2 & Hc2 & _) & Hx2).
      cbn [fst snd] in *.
      split; [exact Hn'|]. exists (newo1 ++ q2), (newr1 ++ r2). cbn [fst snd tasks_of].
      split; [rewrite Hq2, Ho1, app_assoc; reflexivity|].
      split; [rewrite Hr2, Hr1, app_assoc; reflexivity|].
      split; [apply Forall_app; split; assumption|].
      split; [apply Forall_app; split; assumption|]. split.
      * intros u. specialize (Hc1 u). specialize (Hc2 u). rewrite Hp2, tasks_l_app, !cnt_app.
        cbn [tasks_of] in Hc1. rewrite cnt_nil in Hc1. lia.
      * intros x Hx. right. apply Hx2. exact Hx.
    + (* failure propagates *)
      split; [constructor|]. exists newo1, newr1. cbn [fst snd tasks_of]. repeat split; try assumption.
      intros y Hy. inversion Hy; subst y. destruct (Hx1 x eq_refl) as [Hc|Hc]; [|right; exact Hc].
      subst d1. discriminate.
  - inversion Hn as [| | | |ds' Hall Hex Hav]; subst. rewrite fire_gather.
    rewrite tasks_of_gather in Hle.
    assert (Hl : forall st, (forall u, cnt u (tasks_l ds) <= cnt u (pending st)) ->
                            fire_list_wf ds st (fire_list t ds st)).
    { clear st Hle Hn Hex Hav. induction ds as [|d ds IHds]; intros st Hle.
      - split; [constructor|]. exists [], []. cbn. rewrite !app_nil_r. repeat split; try apply Forall_nil.
        + intros u. lia.
        + intros x [].
      - inversion IH as [|? ? Hd Hds]; subst. inversion Hall as [|? ? Hnd Hnds]; subst.
        cbn [fire_list]. cbn [tasks_l] in Hle.
        assert (Hle1 : forall u, cnt u (tasks_of d) <= cnt u (pending st)).
        { intros u. specialize (Hle u). rewrite cnt_app in Hle. lia. }
        specialize (Hd st Hnd Hle1). destruct (fire t d st) as [d' s1].
        destruct Hd as (Hn1 & newo1 & newr1 & Ho1 & Hr1 & Hno1 & Hdo1 & Hc1 & Hx1). cbn [fst snd] in *.
        assert (Hle2 : forall u, cnt u (tasks_l ds) <= cnt u (pending s1)).
        { intros u. specialize (Hle u). specialize (Hc1 u). rewrite cnt_app in Hle. lia. }
        specialize (IHds Hds Hnds s1 Hle2). destruct (fire_list t ds s1) as [r' s2].
        destruct IHds as (Hn2 & newo2 & newr2 & Ho2 & Hr2 & Hno2 & Hdo2 & Hc2 & Hx2). cbn [fst snd] in *.
        split; [constructor; assumption|]. exists (newo1 ++ newo2), (newr1 ++ newr2). cbn [fst snd].
        split; [rewrite Ho2, Ho1, app_assoc; reflexivity|].
        split; [rewrite Hr2, Hr1, app_assoc; reflexivity|].
        split; [apply Forall_app; split; assumption|].
        split; [apply Forall_app; split; assumption|]. split.
        + intros u. specialize (Hc1 u). specialize (Hc2 u). cbn [tasks_l]. rewrite tasks_l_app, !cnt_app. lia.
        + intros x [Hx|Hx].
          * destruct (Hx1 x Hx) as [Hc|Hc]; [left; left; exact Hc|].
            right. rewrite Hr2. apply in_or_app. left. exact Hc.
          * destruct (Hx2 x Hx) as [Hc|Hc]; [left; right; exact Hc|right; exact Hc]. }
    specialize (Hl st Hle). destruct (fire_list t ds st) as [ds' st1].
    destruct Hl as (Hn1 & newo1 & newr1 & Ho1 & Hr1 & Hno1 & Hdo1 & Hc1 & Hx1). cbn [fst snd] in *.
    pose proof (gather_norm_wf ds' st1 Hn1) as Hg. cbv zeta in Hg.
    destruct (gather_norm ds' st1) as [d' st'].
    destruct Hg as (Hn' & Hp' & Hr' & newo2 & Ho2 & Hno2 & Hdo2 & Hc2 & Hx2). cbn [fst snd] in *.
    split; [exact Hn'|]. exists (newo1 ++ newo2), newr1. cbn [fst snd].
    split; [rewrite Ho2, Ho1, app_assoc; reflexivity|].
    split; [rewrite Hr', Hr1; reflexivity|].
    split; [apply Forall_app; split; assumption|].
    split; [apply Forall_app; split; assumption|]. split.
    + intros u. specialize (Hc1 u). specialize (Hc2 u). rewrite Hp', tasks_of_gather, tasks_l_app, cnt_app. lia.
    + intros x Hx. destruct (Hx1 x (Hx2 x Hx)) as [Hc|Hc]; [|right; rewrite Hr'; exact Hc].
      exfalso. clear - Hc Hex. induction ds as [|d ds IHds]; [contradiction|].
      simpl in Hex. destruct Hc as [->|Hc]; [discriminate|]. destruct d; try (apply IHds; assumption). discriminate.
Qed.

Lemma fire_list_wf_all t : forall ds st,
  Forall nf ds -> (forall u, cnt u (tasks_l ds) <= cnt u (pending st)) ->
  fire_list_wf ds st (fire_list t ds st).
Proof.
  induction ds as [|d ds IHds]; intros st Hall Hle.
  - split; [constructor|]. exists [], []. cbn. rewrite !app_nil_r. repeat split; try apply Forall_nil.
    + intros u. lia.
    + intros x [].
  - inversion Hall as [|? ? Hnd Hnds]; subst. cbn [fire_list]. cbn [tasks_l] in Hle.
    assert (Hle1 : forall u, cnt u (tasks_of d) <= cnt u (pending st)).
    { intros u. specialize (Hle u). rewrite cnt_app in Hle. lia. }
    pose proof (fire_wf_all t d st Hnd Hle1) as Hd. destruct (fire t d st) as [d' s1].
    destruct Hd as (Hn1 & newo1 & newr1 & Ho1 & Hr1 & Hno1 & Hdo1 & Hc1 & Hx1). cbn [fst snd] in *.
    assert (Hle2 : forall u, cnt u (tasks_l ds) <= cnt u (pending s1)).
    { intros u. specialize (Hle u). specialize (Hc1 u). rewrite cnt_app in Hle. lia. }
    specialize (IHds s1 Hnds Hle2). destruct (fire_list t ds s1) as [r' s2].
    destruct IHds as (Hn2 & newo2 & newr2 & Ho2 & Hr2 & Hno2 & Hdo2 & Hc2 & Hx2). cbn [fst snd] in *.
    split; [constructor; assumption|]. exists (newo1 ++ newo2), (newr1 ++ newr2). cbn [fst snd].
    split; [rewrite Ho2, Ho1, app_assoc; reflexivity|].
    split; [rewrite Hr2, Hr1, app_assoc; reflexivity|].
    split; [apply Forall_app; split; assumption|].
    split; [apply Forall_app; split; assumption|]. split.
    + intros u. specialize (Hc1 u). specialize (Hc2 u). cbn [tasks_l]. rewrite tasks_l_app, !cnt_app. lia.
    + intros x [Hx|Hx].
      * destruct (Hx1 x Hx) as [Hc|Hc]; [left; left; exact Hc|].
        right. rewrite Hr2. apply in_or_app. left. exact Hc.
      * destruct (Hx2 x Hx) as [Hc|Hc]; [left; right; exact Hc|right; exact Hc].
Qed.

(* ---------------------------------------------------------------- *)
(* the state invariant                                               *)
Record wf_state (s : state) : Prop := {
  ws_nf : nf (term s);
  ws_onf : Forall nf (orphans (ms s));
  ws_ond : Forall (fun d => is_done d = false) (orphans (ms s));
  ws_cnt : forall u, cnt u (pending (ms s)) =
                     cnt u (tasks_of (term s)) + cnt u (tasks_l (orphans (ms s)));
  ws_exn : forall x, term s = Exn x -> In x (raised (ms s))
}.

Lemma wf_finish r :
  sync_wf r st0 ->
  wf_state (match r with
            | (SOk (Val v), st) => MkState (Val v) st
            | (SOk (Exn x), st) => MkState (Exn x) st
            | (SOk d, st) => MkState (Bind d KFinish) st
            | (SRaise x, st) => MkState (Exn x) st
            end).
Proof.
  destruct r as [[d|x] st]; unfold sync_wf; cbn [fst snd].
  - intros (Hn & (p & q & r & Hp & Hq & Hr & Hnq & Hdq & Hc & _) & Hx). cbn in Hp, Hq.
    assert (Hsame : forall t, tasks_of t = tasks_of d -> nf t ->
              (forall y, t = Exn y -> In y (raised st)) -> wf_state (MkState t st)).
    { intros t Ht Hnt Hxt. constructor; cbn [term ms].
      - exact Hnt.
      - rewrite Hq. exact Hnq.
      - rewrite Hq. exact Hdq.
      - intros u. rewrite Hp, Hq, Ht. apply Hc.
      - exact Hxt. }
    destruct d as [v|y| | |].
    + apply Hsame; [reflexivity|constructor|intros y Hy; discriminate].
    + apply Hsame; [reflexivity|constructor|exact Hx].
    + apply Hsame; [reflexivity|constructor; [assumption|reflexivity]|intros y Hy; discriminate].
    + apply Hsame; [reflexivity|constructor; [assumption|reflexivity]|intros y Hy; discriminate].
    + apply Hsame; [reflexivity|constructor; [assumption|reflexivity]|intros y Hy; discriminate].
  - intros (p & q & r & Hp & Hq & Hr & Hnq & Hdq & Hc & Hin). cbn in Hp, Hq, Hr.
    constructor; cbn [term ms].
    + constructor.
    + rewrite Hq. exact Hnq.
    + rewrite Hq. exact Hdq.
    + intros u. rewrite Hp, Hq. apply Hc.
    + intros y Hy. injection Hy as <-. rewrite Hr. exact Hin.
Qed.

Lemma wf_start pr : wf_state (start pr).
Proof.
  destruct pr as [mut fs]. unfold start. destruct mut.
  - apply wf_finish. apply serial_next_wf.
  - apply wf_finish. apply (fields_to_sync_wf (keys_of fs) (start_fields [] fs st0) st0).
    apply sync_wf_fields.
Qed.

Lemma wf_step s t s' : wf_state s -> step s t = Some s' -> wf_state s'.
Proof.
  intros W Hs. unfold step in Hs. destruct (mem_tid t (pending (ms s))); [|discriminate].
  set (st := MkSt (pending (ms s)) (log (ms s)) [] (raised (ms s))) in *.
  assert (Hle : forall u, cnt u (tasks_of (term s)) <= cnt u (pending st)).
  { intros u. unfold st. cbn [pending]. rewrite (ws_cnt s W u). lia. }
  pose proof (fire_wf_all t (term s) st (ws_nf s W) Hle) as Hf.
  destruct (fire t (term s) st) as [d' st1].
  destruct Hf as (Hn1 & newo1 & newr1 & Ho1 & Hr1 & Hno1 & Hdo1 & Hc1 & Hx1). cbn [fst snd] in *.
  unfold st in Ho1, Hr1, Hc1. cbn [orphans raised pending app] in Ho1, Hr1, Hc1.
  assert (Hle2 : forall u, cnt u (tasks_l (orphans (ms s))) <= cnt u (pending st1)).
  { intros u. specialize (Hc1 u). pose proof (ws_cnt s W u). lia. }
  pose proof (fire_list_wf_all t (orphans (ms s)) st1 (ws_onf s W) Hle2) as Hl.
  destruct (fire_list t (orphans (ms s)) st1) as [os' st2].
  destruct Hl as (Hn2 & newo2 & newr2 & Ho2 & Hr2 & Hno2 & Hdo2 & Hc2 & Hx2). cbn [fst snd] in *.
  inversion Hs; subst s'. clear Hs. constructor; cbn [term ms pending orphans raised].
  - exact Hn1.
  - apply Forall_app. split.
    + apply Forall_forall. intros d Hd. apply filter_In in Hd. destruct Hd as [Hd _].
      apply (proj1 (Forall_forall nf os') Hn2 d Hd).
    + rewrite Ho2, Ho1. apply Forall_app. split; assumption.
  - apply Forall_app. split.
    + apply Forall_forall. intros d Hd. apply filter_In in Hd. destruct Hd as [_ Hd].
      destruct (is_done d); [discriminate|reflexivity].
    + rewrite Ho2, Ho1. apply Forall_app. split; assumption.
  - intros u. specialize (Hc1 u). specialize (Hc2 u). pose proof (ws_cnt s W u) as Hc0.
    rewrite Ho2, Ho1, !tasks_l_app, tasks_l_filter, !cnt_app. lia.
  - intros x Hx. destruct (Hx1 x Hx) as [Hc|Hc].
    + rewrite Hr2, Hr1. apply in_or_app. left. apply in_or_app. left. apply (ws_exn s W x Hc).
    + rewrite Hr2. apply in_or_app. left. exact Hc.
Qed.

Lemma wf_run : forall sigma s s', wf_state s -> run_from s sigma = Some s' -> wf_state s'.
Proof.
  induction sigma as [|t sigma IH]; intros s s' W H; simpl in H.
  - inversion H; subst. exact W.
  - destruct (step s t) as [s1|] eqn:Es; [|discriminate].
    apply (IH s1 s'); [|exact H]. apply (wf_step s t s1 W Es).
Qed.

(* nothing pending => the result is there and nothing is left running *)
Lemma wf_terminal s : wf_state s -> pending (ms s) = [] -> terminal s.
Proof.
  intros W Hp.
  assert (Hz : forall u, cnt u (tasks_of (term s)) = 0 /\ cnt u (tasks_l (orphans (ms s))) = 0).
  { intros u. pose proof (ws_cnt s W u) as H. rewrite Hp in H. simpl in H. lia. }
  split.
  - apply nf_no_tasks_done; [apply (ws_nf s W)|]. apply cnt_all_zero. intros u. apply (Hz u).
  - destruct (orphans (ms s)) as [|d os] eqn:Eo; [reflexivity|]. exfalso.
    pose proof (ws_onf s W) as Hn. pose proof (ws_ond s W) as Hd. rewrite Eo in Hn, Hd.
    inversion Hn; subst. inversion Hd; subst.
    assert (Ht : tasks_of d = []).
    { apply cnt_all_zero. intros u. destruct (Hz u) as [_ H]. cbn [tasks_l] in H. rewrite cnt_app in H. lia. }
    rewrite (nf_no_tasks_done d H1 Ht) in H3. discriminate.
Qed.

(* ---------------------------------------------------------------- *)
(* main results about complete runs                                  *)
Theorem run_terminates sigma pr s :
  run sigma pr = Some s -> pending (ms s) = [] -> terminal s.
Proof.
  intros H Hp. apply wf_terminal; [|exact Hp]. apply (wf_run sigma (start pr) s (wf_start pr) H).
Qed.

Theorem run_confluent sigma pr s v es :
  run sigma pr = Some s -> pending (ms s) = [] -> bs_prog pr = (Some v, es) ->
  term s = Val v /\ orphans (ms s) = [] /\ Permutation (log (ms s)) es.
Proof.
  intros H Hp Hb.
  destruct (run_terminates sigma pr s H Hp) as [Hdone Horph].
  destruct (den_inv_run pr sigma (start pr) s (den_inv_start pr) H) as [Hv Hperm].
  rewrite Hb in Hv, Hperm. cbn [fst snd] in *.
  destruct (Hperm ltac:(discriminate)) as [Pm _].
  destruct (term s) as [v'| | | |]; try discriminate.
  cbn in Hv, Pm. inversion Hv; subst. rewrite app_nil_r in Pm. auto.
Qed.

Theorem run_unexpected sigma pr s es :
  run sigma pr = Some s -> pending (ms s) = [] -> bs_prog pr = (None, es) ->
  exists x, term s = Exn x /\ In x (raised (ms s)).
Proof.
  intros H Hp Hb.
  destruct (run_terminates sigma pr s H Hp) as [Hdone _].
  destruct (den_inv_run pr sigma (start pr) s (den_inv_start pr) H) as [Hv _].
  rewrite Hb in Hv. cbn [fst] in Hv.
  pose proof (wf_run sigma (start pr) s (wf_start pr) H) as W.
  destruct (term s) as [v'|x| | |] eqn:Et; try discriminate.
  exists x. split; [reflexivity|]. apply (ws_exn s W x Et).
Qed.
