(* Uniqueness rules against NoDup: they discharge the hypotheses of the graph
   rule equivalences. *)
From PyGql Require Import Valid.ValidOverlap Spec.ValidSpec Proofs.ValidCloseProofs Proofs.ValidGraphProofs.
From Coq Require Import Lia.

Lemma dup_locs_aux_nil seen l :
  dup_locs_aux seen l = [] <-> NoDup (map fst l) /\ (forall x, In x (map fst l) -> ~ In x seen).
Proof.
  revert seen. induction l as [|[n lc] l IH]; intros seen; simpl.
  - split; [intros _; split; [constructor|intros x []]|reflexivity].
  - destruct (mem_str n seen) eqn:Hm.
    + split; [discriminate|]. intros [_ H]. exfalso. apply (H n); [left; reflexivity|apply mem_str_In; exact Hm].
    + assert (Hn : ~ In n seen) by (intros H; apply mem_str_In in H; congruence).
      rewrite IH. split.
      * intros [Hnd Hdis]. split.
        -- constructor; [|exact Hnd]. intros Hin. apply (Hdis n Hin). left. reflexivity.
        -- intros x [<-|Hx]; [exact Hn|]. intros Hs. apply (Hdis x Hx). right. exact Hs.
      * intros [Hnd Hdis]. inversion Hnd; subst. split; [assumption|].
        intros x Hx [<-|Hs]; [contradiction|]. apply (Hdis x); [right; exact Hx|exact Hs].
Qed.

Lemma dup_locs_nil l : dup_locs l = [] <-> NoDup (map fst l).
Proof. unfold dup_locs. rewrite dup_locs_aux_nil. split; [tauto|]. intros H. split; [exact H|intros x _ []]. Qed.

Theorem r10_equiv d : r10_unique_fragment_names d = [] <-> NoDup (frag_names d).
Proof.
  unfold r10_unique_fragment_names.
  assert (Hmap : map fst (flat_map (fun x => match x with
                    | DFragment n _ _ _ _ _ l => [(n_val n, l)] | _ => [] end) (doc_defs d)) = frag_names d).
  { unfold frag_names. induction (doc_defs d) as [|a l IH]; simpl; [reflexivity|].
    rewrite map_app, IH. destruct a; reflexivity. }
  rewrite <- Hmap, <- dup_locs_nil. split.
  - intros H. apply map_eq_nil in H. exact H.
  - intros H. rewrite H. reflexivity.
Qed.
