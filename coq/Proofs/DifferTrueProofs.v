(* C20: every change the differ reports names an element whose description
   really differs between the two schemas (no spurious change). *)
From PyGql Require Import Schema.SchemaFull Schema.DifferModel Spec.DifferSpec Spec.DifferChangeSpec
  Proofs.SchemaFullLemmas Proofs.DifferProofs.

Lemma safe_in_neq a b : safe_in a b = false -> a <> b.
Proof. intros H E. subst. rewrite safe_in_refl in H. discriminate. Qed.
Lemma safe_out_neq a b : safe_out a b = false -> a <> b.
Proof. intros H E. subst. rewrite safe_out_refl in H. discriminate. Qed.
Lemma default_changed_neq' a b : default_changed a b = true -> a <> b.
Proof. intros H E. subst. rewrite default_changed_refl in H. discriminate. Qed.

Lemma in_single {A} (x y : A) : In x [y] -> x = y.
Proof. intros [H|[]]; auto. Qed.

(* arguments *)
Lemma diff_args_truthful R C D Ad path oa na c :
  names_unique a_name oa -> names_unique a_name na ->
  In c (diff_args R C D Ad path oa na) ->
  exists an, c_path c = path ++ [an] /\ find_arg oa an <> find_arg na an
             /\ (c_class c = R \/ c_class c = C \/ c_class c = D \/ c_class c = Ad).
Proof.
  intros Ho Hn Hc. unfold diff_args in Hc. apply in_app_iff in Hc. destruct Hc as [Hc|Hc];
    apply in_flat_map in Hc; destruct Hc as (a & Hin & Hc).
  - pose proof (find_unique a_name oa a Ho Hin) as Hf. fold (find_arg oa (a_name a)) in Hf.
    exists (a_name a). destruct (find_arg na (a_name a)) as [b|] eqn:Eb.
    + destruct (negb (safe_in (a_type a) (a_type b))) eqn:Es.
      * apply in_single in Hc. subst c. simpl. rewrite Hf. repeat split; auto.
        intros E. inversion E; subst. apply negb_true_iff in Es. rewrite safe_in_refl in Es. discriminate.
      * destruct (default_changed (a_default a) (a_default b)) eqn:Ed; [|destruct Hc].
        apply in_single in Hc. subst c. simpl. rewrite Hf. repeat split; auto.
        intros E. inversion E; subst. rewrite default_changed_refl in Ed. discriminate.
    + apply in_single in Hc. subst c. simpl. rewrite Hf. repeat split; auto. discriminate.
  - destruct (find_arg oa (a_name a)) eqn:Ea; [destruct Hc|].
    apply in_single in Hc. subst c. simpl. exists (a_name a).
    pose proof (find_unique a_name na a Hn Hin) as Hf. fold (find_arg na (a_name a)) in Hf.
    rewrite Ea, Hf. repeat split; auto. discriminate.
Qed.

(* one field *)
Lemma diff_field_truthful tn f g c :
  names_unique a_name (f_args f) -> names_unique a_name (f_args g) ->
  In c (diff_field tn f g) ->
  (c_path c = [tn; f_name f] /\ family_of (c_class c) = FField
   /\ (f_type f, f_depr f) <> (f_type g, f_depr g))
  \/ (exists an, c_path c = [tn; f_name f; an] /\ family_of (c_class c) = FFieldArg
                 /\ find_arg (f_args f) an <> find_arg (f_args g) an).
Proof.
  intros Ho Hn Hc. unfold diff_field in Hc. apply in_app_iff in Hc. destruct Hc as [Hc|Hc].
  - left. destruct (negb (safe_out (f_type f) (f_type g))) eqn:Es; [|destruct Hc].
    apply in_single in Hc. subst c. repeat split.
    intros E. inversion E as [[E1 E2]]. apply negb_true_iff in Es. rewrite E1, safe_out_refl in Es. discriminate.
  - apply in_app_iff in Hc. destruct Hc as [Hc|Hc].
    + right. destruct (diff_args_truthful _ _ _ _ _ _ _ _ Ho Hn Hc) as (an & Hp & Hne & Hcl).
      exists an. split; [exact Hp|]. split; [|exact Hne].
      destruct Hcl as [->|[->|[->| ->]]]; reflexivity.
    + left.
      assert (Hd : f_depr f = f_depr g -> field_deprecated f = field_deprecated g)
        by (unfold field_deprecated; intros ->; reflexivity).
      destruct (field_deprecated f) eqn:Df, (field_deprecated g) eqn:Dg; simpl in Hc; try contradiction.
      * destruct (opt_eqb str_eqb (f_depr f) (f_depr g)) eqn:Eq; simpl in Hc; [contradiction|].
        apply in_single in Hc. subst c. repeat split. intros E. inversion E as [[Et Ed]].
        rewrite Ed, opt_str_eqb_refl in Eq. discriminate.
      * apply in_single in Hc. subst c. repeat split. intros E. inversion E as [[Et Ed]].
        specialize (Hd Ed). discriminate.
      * apply in_single in Hc. subst c. repeat split. intros E. inversion E as [[Et Ed]].
        specialize (Hd Ed). discriminate.
Qed.

Section Truthful.
  Variables o n : schema.
  Hypothesis Hwo : wf_schema o.
  Hypothesis Hwn : wf_schema n.
  Notation ots := (s_types o).
  Notation nts := (s_types n).

  Lemma o_find t : In t ots -> find_type ots (t_name t) = Some t.
  Proof. intros H. destruct Hwo as (Hu & _). apply (find_unique t_name); assumption. Qed.
  Lemma n_find t : In t nts -> find_type nts (t_name t) = Some t.
  Proof. intros H. destruct Hwn as (Hu & _). apply (find_unique t_name); assumption. Qed.
  Lemma o_body t : In t ots -> wf_body (t_body t).
  Proof. intros H. destruct Hwo as (_ & _ & Hb & _). rewrite Forall_forall in Hb. auto. Qed.
  Lemma n_body_found k t : find_type nts k = Some t -> wf_body (t_body t).
  Proof.
    intros H. destruct Hwn as (_ & _ & Hb & _). rewrite Forall_forall in Hb. apply Hb.
    apply (find_name_some t_name _ _ _ H).
  Qed.

  Lemma fields_truthful tn fs fs' c :
    names_unique f_name fs -> Forall (fun f => names_unique a_name (f_args f)) fs ->
    names_unique f_name fs' -> Forall (fun f => names_unique a_name (f_args f)) fs' ->
    In c (diff_fields tn fs fs') ->
    (exists fn, c_path c = [tn; fn] /\ family_of (c_class c) = FField
       /\ option_map (fun fd => (f_type fd, f_depr fd)) (find_field fs fn)
          <> option_map (fun fd => (f_type fd, f_depr fd)) (find_field fs' fn))
    \/ (exists fn an, c_path c = [tn; fn; an] /\ family_of (c_class c) = FFieldArg
          /\ match find_field fs fn with Some fd => find_arg (f_args fd) an | None => None end
             <> match find_field fs' fn with Some fd => find_arg (f_args fd) an | None => None end).
  Proof.
    intros Hu Ha Hu' Ha' Hc. rewrite Forall_forall in Ha, Ha'.
    unfold diff_fields in Hc. apply in_app_iff in Hc. destruct Hc as [Hc|Hc];
      apply in_flat_map in Hc; destruct Hc as (f & Hin & Hc).
    - pose proof (find_unique f_name fs f Hu Hin) as Hf. fold (find_field fs (f_name f)) in Hf.
      destruct (find_field fs' (f_name f)) as [g|] eqn:Eg.
      + destruct (find_name_some f_name _ _ _ Eg) as [Hgin _].
        destruct (diff_field_truthful tn f g c (Ha f Hin) (Ha' g Hgin) Hc) as [(Hp & Hfam & Hne)|(an & Hp & Hfam & Hne)].
        * left. exists (f_name f). rewrite Hf, Eg. simpl. repeat split; auto. congruence.
        * right. exists (f_name f), an. rewrite Hf, Eg. auto.
      + apply in_single in Hc. subst c. left. exists (f_name f). rewrite Hf, Eg. simpl. repeat split. discriminate.
    - destruct (find_field fs (f_name f)) eqn:Ef; [destruct Hc|].
      apply in_single in Hc. subst c. left. exists (f_name f).
      pose proof (find_unique f_name fs' f Hu' Hin) as Hf. fold (find_field fs' (f_name f)) in Hf.
      rewrite Ef, Hf. simpl. repeat split. discriminate.
  Qed.

  Lemma dedup_filter_truth l l' x :
    In x (filter (fun y => negb (mem_str y l')) (dedup l)) -> mem_str x l = true /\ mem_str x l' = false.
  Proof.
    intros H. apply filter_In in H. destruct H as [H1 H2]. apply dedup_In in H1.
    split; [apply mem_str_In; exact H1|apply negb_true_iff; exact H2].
  Qed.

  Ltac el_neq := let E := fresh in intros E; inversion E; congruence.

  Theorem changes_truthful c : In c (diff_model o n) -> truthful o n c.
  Proof.
    intros Hc. unfold truthful. unfold diff_model in Hc.
    apply in_app_or in Hc; destruct Hc as [Hc|Hc]; [|apply in_app_or in Hc; destruct Hc as [Hc|Hc]; [|apply in_app_or in Hc; destruct Hc as [Hc|Hc]; [|apply in_app_or in Hc; destruct Hc as [Hc|Hc]; [|apply in_app_or in Hc; destruct Hc as [Hc|Hc]; [|apply in_app_or in Hc; destruct Hc as [Hc|Hc]; [|apply in_app_or in Hc; destruct Hc as [Hc|Hc]; [|apply in_app_or in Hc; destruct Hc as [Hc|Hc]]]]]]]].
    - (* removed *)
      apply in_flat_map in Hc. destruct Hc as (t & Hin & Hc). unfold removed_of in Hc.
      destruct (find_type nts (t_name t)) eqn:E; [destruct Hc|]. apply in_single in Hc. subst c. simpl.
      unfold kind_of. rewrite (o_find t Hin), E. discriminate.
    - (* added *)
      apply in_flat_map in Hc. destruct Hc as (t & Hin & Hc). unfold added_of in Hc.
      destruct (find_type ots (t_name t)) eqn:E; [destruct Hc|]. apply in_single in Hc. subst c. simpl.
      unfold kind_of. rewrite (n_find t Hin), E. discriminate.
    - (* directives *)
      destruct Hwo as (_ & Hdo & _ & Hao). destruct Hwn as (_ & Hdn & _ & Han).
      rewrite Forall_forall in Hao, Han.
      unfold diff_directives in Hc. apply in_app_iff in Hc. destruct Hc as [Hc|Hc];
        apply in_flat_map in Hc; destruct Hc as (d & Hin & Hc); destruct (d_specified d); try contradiction.
      + pose proof (find_unique d_name _ d Hdo Hin) as Hf. fold (find_dir (s_dirs o) (d_name d)) in Hf.
        destruct (find_dir (s_dirs n) (d_name d)) as [d'|] eqn:Ed.
        * destruct (find_name_some d_name _ _ _ Ed) as [Hin' _].
          apply in_app_iff in Hc. destruct Hc as [Hc|Hc]; [|apply in_app_iff in Hc; destruct Hc as [Hc|Hc]].
          -- apply in_map_iff in Hc. destruct Hc as (l & <- & Hl). simpl. rewrite Hf, Ed.
             apply dedup_filter_truth in Hl. destruct Hl as [-> ->]. discriminate.
          -- apply in_map_iff in Hc. destruct Hc as (l & <- & Hl). simpl. rewrite Hf, Ed.
             apply dedup_filter_truth in Hl. destruct Hl as [-> ->]. discriminate.
          -- destruct (diff_args_truthful _ _ _ _ _ _ _ _ (Hao d Hin) (Han d' Hin') Hc) as (an & Hp & Hne & Hcl).
             rewrite Hp. destruct Hcl as [->|[->|[->| ->]]]; simpl; rewrite Hf, Ed; intros E; inversion E; congruence.
        * apply in_single in Hc. subst c. simpl. rewrite Hf, Ed. discriminate.
      + destruct (find_dir (s_dirs o) (d_name d)) eqn:Ed; [destruct Hc|]. apply in_single in Hc. subst c. simpl.
        pose proof (find_unique d_name _ d Hdn Hin) as Hf. fold (find_dir (s_dirs n) (d_name d)) in Hf.
        rewrite Ed, Hf. discriminate.
    - (* kind *)
      apply in_flat_map in Hc. destruct Hc as (t & Hin & Hc). unfold changed_kind_of in Hc.
      destruct (find_type nts (t_name t)) as [t'|] eqn:E; [|destruct Hc].
      destruct (N.eqb_spec (kind_code (t_body t)) (kind_code (t_body t'))); [destruct Hc|].
      apply in_single in Hc. subst c. simpl. unfold kind_of. rewrite (o_find t Hin), E. congruence.
    - (* union *)
      apply in_flat_map in Hc. destruct Hc as (t & Hin & Hc). unfold union_of in Hc.
      destruct (t_intro t); [destruct Hc|]. destruct (t_body t) as [| | |ms| |] eqn:Eb; try contradiction.
      destruct (find_type nts (t_name t)) as [t'|] eqn:E; [|destruct Hc].
      destruct (t_body t') as [| | |ms'| |] eqn:Eb'; try contradiction.
      unfold diff_union in Hc. apply in_app_iff in Hc. destruct Hc as [Hc|Hc];
        apply in_map_iff in Hc; destruct Hc as (m & <- & Hm); simpl; unfold body_at;
        rewrite (o_find t Hin), E, Eb, Eb'; apply dedup_filter_truth in Hm; destruct Hm as [-> ->]; discriminate.
    - (* enum *)
      apply in_flat_map in Hc. destruct Hc as (t & Hin & Hc). unfold enum_of in Hc.
      destruct (t_intro t); [destruct Hc|]. destruct (t_body t) as [| | | |vs|] eqn:Eb; try contradiction.
      destruct (find_type nts (t_name t)) as [t'|] eqn:E; [|destruct Hc].
      destruct (t_body t') as [| | | |vs'|] eqn:Eb'; try contradiction.
      pose proof (o_body t Hin) as Hw. rewrite Eb in Hw. pose proof (n_body_found _ _ E) as Hw'. rewrite Eb' in Hw'.
      simpl in Hw, Hw'.
      unfold diff_enum in Hc. apply in_app_iff in Hc. destruct Hc as [Hc|Hc];
        apply in_flat_map in Hc; destruct Hc as (v & Hvin & Hc).
      + pose proof (find_unique e_name vs v Hw Hvin) as Hf. fold (find_enum vs (e_name v)) in Hf.
        destruct (find_enum vs' (e_name v)) as [v'|] eqn:Ev.
        * assert (Hne : v <> v' -> ElEnum (Some v) <> ElEnum (Some v')) by (intros H1 H2; inversion H2; auto).
          unfold enum_deprecated in Hc.
          destruct (e_depr v) as [r|] eqn:E0; destruct (e_depr v') as [r'|] eqn:E1; simpl in Hc; try contradiction.
          -- destruct (str_eqb_spec r r'); simpl in Hc; [destruct Hc|]. apply in_single in Hc. subst c. simpl.
             unfold body_at. rewrite (o_find t Hin), E, Eb, Eb', Hf, Ev. apply Hne. intros ->. congruence.
          -- apply in_single in Hc. subst c. simpl.
             unfold body_at. rewrite (o_find t Hin), E, Eb, Eb', Hf, Ev. apply Hne. intros ->. congruence.
          -- apply in_single in Hc. subst c. simpl.
             unfold body_at. rewrite (o_find t Hin), E, Eb, Eb', Hf, Ev. apply Hne. intros ->. congruence.
        * apply in_single in Hc. subst c. simpl.
          unfold body_at. rewrite (o_find t Hin), E, Eb, Eb', Hf, Ev. discriminate.
      + destruct (find_enum vs (e_name v)) eqn:Ev; [destruct Hc|]. apply in_single in Hc. subst c. simpl.
        pose proof (find_unique e_name vs' v Hw' Hvin) as Hf. fold (find_enum vs' (e_name v)) in Hf.
        unfold body_at. rewrite (o_find t Hin), E, Eb, Eb', Hf, Ev. discriminate.
    - (* object *)
      apply in_flat_map in Hc. destruct Hc as (t & Hin & Hc). unfold object_of in Hc.
      destruct (t_intro t); [destruct Hc|]. destruct (t_body t) as [|is_ fs r| | | |] eqn:Eb; try contradiction.
      destruct (find_type nts (t_name t)) as [t'|] eqn:E; [|destruct Hc].
      destruct (t_body t') as [|is' fs' r'| | | |] eqn:Eb'; try contradiction.
      pose proof (o_body t Hin) as Hw. rewrite Eb in Hw. pose proof (n_body_found _ _ E) as Hw'. rewrite Eb' in Hw'.
      simpl in Hw, Hw'. destruct Hw as [Hu Ha], Hw' as [Hu' Ha'].
      apply in_app_iff in Hc. destruct Hc as [Hc|Hc].
      + destruct (fields_truthful _ _ _ _ Hu Ha Hu' Ha' Hc) as [(fn & Hp & Hfam & Hne)|(fn & an & Hp & Hfam & Hne)];
          rewrite Hp, Hfam; simpl; unfold fields_at, body_at; rewrite (o_find t Hin), E, Eb, Eb'.
        * intros H; inversion H as [H']. apply Hne.
          destruct (find_field fs fn), (find_field fs' fn); simpl; congruence.
        * intros H; inversion H. congruence.
      + unfold diff_interfaces_of in Hc. apply in_app_iff in Hc. destruct Hc as [Hc|Hc];
          apply in_map_iff in Hc; destruct Hc as (i & <- & Hm); simpl; unfold body_at;
          rewrite (o_find t Hin), E, Eb, Eb'; apply dedup_filter_truth in Hm; destruct Hm as [-> ->]; discriminate.
    - (* interface *)
      apply in_flat_map in Hc. destruct Hc as (t & Hin & Hc). unfold interface_of in Hc.
      destruct (t_intro t); [destruct Hc|]. destruct (t_body t) as [| |fs| | |] eqn:Eb; try contradiction.
      destruct (find_type nts (t_name t)) as [t'|] eqn:E; [|destruct Hc].
      destruct (t_body t') as [| |fs'| | |] eqn:Eb'; try contradiction.
      pose proof (o_body t Hin) as Hw. rewrite Eb in Hw. pose proof (n_body_found _ _ E) as Hw'. rewrite Eb' in Hw'.
      simpl in Hw, Hw'. destruct Hw as [Hu Ha], Hw' as [Hu' Ha'].
      destruct (fields_truthful _ _ _ _ Hu Ha Hu' Ha' Hc) as [(fn & Hp & Hfam & Hne)|(fn & an & Hp & Hfam & Hne)];
        rewrite Hp, Hfam; simpl; unfold fields_at, body_at; rewrite (o_find t Hin), E, Eb, Eb'.
      + intros H; inversion H as [H']. apply Hne.
        destruct (find_field fs fn), (find_field fs' fn); simpl; congruence.
      + intros H; inversion H. congruence.
    - (* input *)
      apply in_flat_map in Hc. destruct Hc as (t & Hin & Hc). unfold input_of in Hc.
      destruct (t_intro t); [destruct Hc|]. destruct (t_body t) as [| | | | |fs] eqn:Eb; try contradiction.
      destruct (find_type nts (t_name t)) as [t'|] eqn:E; [|destruct Hc].
      destruct (t_body t') as [| | | | |fs'] eqn:Eb'; try contradiction.
      pose proof (o_body t Hin) as Hw. rewrite Eb in Hw. pose proof (n_body_found _ _ E) as Hw'. rewrite Eb' in Hw'.
      simpl in Hw, Hw'.
      unfold diff_input in Hc. apply in_app_iff in Hc. destruct Hc as [Hc|Hc];
        apply in_flat_map in Hc; destruct Hc as (f & Hfin & Hc).
      + pose proof (find_unique i_name fs f Hw Hfin) as Hf. fold (find_input fs (i_name f)) in Hf.
        destruct (find_input fs' (i_name f)) as [g|] eqn:Eg.
        * destruct (negb (safe_in (i_type f) (i_type g))) eqn:Es.
          -- apply in_single in Hc. subst c. simpl. unfold body_at. rewrite (o_find t Hin), E, Eb, Eb', Hf, Eg.
             intros H; inversion H; subst. apply negb_true_iff in Es. rewrite safe_in_refl in Es. discriminate.
          -- destruct (default_changed (i_default f) (i_default g)) eqn:Ed; [|destruct Hc].
             apply in_single in Hc. subst c. simpl. unfold body_at. rewrite (o_find t Hin), E, Eb, Eb', Hf, Eg.
             intros H; inversion H; subst. rewrite default_changed_refl in Ed. discriminate.
        * apply in_single in Hc. subst c. simpl. unfold body_at. rewrite (o_find t Hin), E, Eb, Eb', Hf, Eg. discriminate.
      + destruct (find_input fs (i_name f)) eqn:Ef; [destruct Hc|]. apply in_single in Hc. subst c. simpl.
        pose proof (find_unique i_name fs' f Hw' Hfin) as Hf. fold (find_input fs' (i_name f)) in Hf.
        unfold body_at. rewrite (o_find t Hin), E, Eb, Eb', Hf, Ef. discriminate.
  Qed.
End Truthful.
