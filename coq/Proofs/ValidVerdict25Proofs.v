(* The verdict of all rules but OverlappingFieldsCanBeMerged against the
   conjunction of their declarative forms, and its invariance under
   permutation of the definitions. *)
From PyGql Require Import Valid.ValidOverlap Spec.ValidSpec Spec.ValidLocalSpec Spec.ValidValueSpec Spec.ValidTypedSpec
     Proofs.ValidCloseProofs Proofs.ValidGraphProofs Proofs.ValidVarProofs Proofs.ValidPermProofs
     Proofs.ValidStaticProofs Proofs.ValidUniqueProofs Proofs.ValidUnusedProofs Proofs.ValidLocalProofs
     Proofs.ValidVerdictProofs Proofs.ValidPermAllProofs Proofs.ValidValuesDocProofs Proofs.ValidVarPosProofs.
From Coq Require Import Lia Permutation.

Definition valid_spec25 (s : schema) (d : document) : Prop :=
  valid_spec s d /\ spec_values_of_correct_type s d /\ spec_variables_in_allowed_position s d.

Lemma valid_spec_parts s d : valid_spec s d ->
  NoDup (op_key_list d) /\ spec_unique_variable_names d /\ spec_known_directives s d.
Proof.
  intros (H1 & H2 & H3 & H4 & H5 & H6 & H7 & H8 & H9 & H10 & H11 & H12 & H13 & H14 & H15 & H16 & H17 &
          H18 & _). tauto.
Qed.

Theorem verdict25 fuel s d :
  wf_inputs s -> wf_arg_types s -> wf_var_types s d ->
  (validate_rules fuel s d rules_but_overlap = Ok [] <-> valid_spec25 s d).
Proof.
  intros Hwi Hwa Hwv. unfold valid_spec25. rewrite <- (verdict fuel s d).
  unfold validate_rules. rewrite !ocat_all_nil.
  assert (Hsplit : Forall (fun x => rule_model fuel s d x = Ok []) rules_but_overlap <->
                   Forall (fun x => rule_model fuel s d x = Ok []) rules_with_spec
                   /\ rule_model fuel s d 22 = Ok [] /\ rule_model fuel s d 24 = Ok []).
  { unfold rules_but_overlap, rules_with_spec. repeat rewrite Forall_cons_iff. rewrite Forall_nil_iff. tauto. }
  rewrite Hsplit. clear Hsplit. cbn [rule_model]. rewrite ok_nil.
  split.
  - intros (H23 & H22 & H24). pose proof H23 as Hv. rewrite <- ocat_all_nil in Hv.
    change (validate_rules fuel s d rules_with_spec = Ok []) in Hv. apply verdict in Hv.
    destruct (valid_spec_parts s d Hv) as (Hk & Hu & Hd).
    split; [exact H23|]. split.
    + apply (r22_equiv s Hwi d Hwa Hwv Hd). exact H22.
    + apply (r24_equiv s d Hk Hu Hd). exact H24.
  - intros (H23 & H22 & H24). pose proof H23 as Hv. rewrite <- ocat_all_nil in Hv.
    change (validate_rules fuel s d rules_with_spec = Ok []) in Hv. apply verdict in Hv.
    destruct (valid_spec_parts s d Hv) as (Hk & Hu & Hd).
    split; [exact H23|]. split.
    + apply (r22_equiv s Hwi d Hwa Hwv Hd). exact H22.
    + apply (r24_equiv s d Hk Hu Hd). exact H24.
Qed.

Lemma spec22_perm s d d' : Permutation (doc_defs d) (doc_defs d') ->
  spec_values_of_correct_type s d -> spec_values_of_correct_type s d'.
Proof.
  intros Hp (Ha & Hb & Hc). assert (Hp' : Permutation (doc_defs d') (doc_defs d)) by (symmetry; exact Hp).
  split; [|split].
  - intros p a n args dirs sl sub l f Hr. apply (Ha p a n args dirs sl sub l f). apply (reaches_same s d' d Hp'). exact Hr.
  - intros w dr dd Hat. apply (Hb w dr dd). apply (directive_at_same s d' d Hp'). exact Hat.
  - intros df vd v t Hdf. apply (Hc df vd v t). eapply Permutation_in; eassumption.
Qed.

Lemma spec24_perm s d d' : Permutation (doc_defs d) (doc_defs d') ->
  spec_variables_in_allowed_position s d -> spec_variables_in_allowed_position s d'.
Proof.
  intros Hp H op x it hd vd Hop Hisop Hat. assert (Hp' : Permutation (doc_defs d') (doc_defs d)) by (symmetry; exact Hp).
  apply (H op x it hd vd); [eapply Permutation_in; eassumption|exact Hisop|].
  destruct Hat as [Hd|(f & df & Hr & Hdf & Hrest)]; [left; exact Hd|right].
  exists f, df. split; [eapply frag_reach_same; [apply perm_same_defs; exact Hp'|exact Hr]|].
  split; [eapply Permutation_in; eassumption|exact Hrest].
Qed.

Lemma wf_var_types_perm s d d' : Permutation (doc_defs d) (doc_defs d') -> wf_var_types s d -> wf_var_types s d'.
Proof. intros Hp H df vd t Hdf. apply (H df vd t). eapply Permutation_in; [symmetry; exact Hp|exact Hdf]. Qed.

Theorem perm_definitions25 fuel s d d' :
  wf_inputs s -> wf_arg_types s -> wf_var_types s d ->
  Permutation (doc_defs d) (doc_defs d') ->
  (validate_rules fuel s d rules_but_overlap = Ok [] <-> validate_rules fuel s d' rules_but_overlap = Ok []).
Proof.
  intros Hwi Hwa Hwv Hp. assert (Hp' : Permutation (doc_defs d') (doc_defs d)) by (symmetry; exact Hp).
  rewrite (verdict25 fuel s d Hwi Hwa Hwv), (verdict25 fuel s d' Hwi Hwa (wf_var_types_perm s d d' Hp Hwv)).
  unfold valid_spec25. split; intros (H1 & H2 & H3); (split; [|split]).
  - eapply valid_spec_perm; eassumption.
  - eapply spec22_perm; eassumption.
  - eapply spec24_perm; eassumption.
  - eapply valid_spec_perm; eassumption.
  - eapply spec22_perm; eassumption.
  - eapply spec24_perm; eassumption.
Qed.
