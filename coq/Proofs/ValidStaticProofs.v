(* FieldsOnCorrectType / KnownFragmentNames / ScalarLeafs against the static
   `stuck` and `misshaped` predicates of Spec/ValidSpec.v. *)
From PyGql Require Import Valid.ValidOverlap Spec.ValidSpec Proofs.ValidCloseProofs
     Proofs.ValidGraphProofs Proofs.ValidVarProofs Proofs.ValidPermProofs.
From Coq Require Import Lia.

Lemma composite_is_output s n : is_composite s n = true -> is_output_named s n = true.
Proof. unfold is_composite, is_output_named. destruct (lookup_type s n) as [[]|]; try discriminate; reflexivity. Qed.
Lemma object_is_composite s n : is_object s n = true -> is_composite s n = true.
Proof. unfold is_composite, is_object. destruct (lookup_type s n) as [[]|]; try discriminate; reflexivity. Qed.
Lemma leaf_is_output s n : is_leaf s n = true -> is_output_named s n = true.
Proof. unfold is_leaf, is_output_named. destruct (lookup_type s n) as [[]|]; try discriminate; reflexivity. Qed.

Lemma sel_parent_composite_name s t : sel_parent s t = composite_name s t.
Proof. reflexivity. Qed.

Lemma sel_parent_out_filter s t : sel_parent s (out_filter s t) = sel_parent s t.
Proof.
  destruct t as [r|]; simpl; [|reflexivity]. unfold is_output_type.
  destruct (is_output_named s (unwrap r)) eqn:Ho; [reflexivity|]. simpl.
  destruct (is_composite s (unwrap r)) eqn:Hc; [|reflexivity].
  apply composite_is_output in Hc. congruence.
Qed.

Lemma descends_events s p x q z :
  descends s p x q z ->
  forall ty_ cf, sel_parent s ty_ = p ->
  exists ty' cf', sel_parent s ty' = q /\
     forall e, In e (sel_events s ty' q cf' z) -> In e (sel_events s ty_ p cf x).
Proof.
  induction 1 as [p x|p alias n args dirs l0 sub l y q z Hy Hd IH|p t dirs ssl sub l y q z Hy Hd IH
                  |p dirs ssl sub l y q z Hy Hd IH]; intros ty_ cf Hp.
  - exists ty_, cf. split; [exact Hp|auto].
  - set (fdef := field_def_of s p (n_val n)).
    destruct (IH (field_type_of s fdef) fdef) as [ty' [cf' [Hq Hin]]].
    { unfold field_type_of, fdef, field_def_of, field_lookup.
      destruct p as [p0|]; [|reflexivity]. destruct (get_field_def s p0 (n_val n)) as [f|]; [|reflexivity].
      simpl option_map. rewrite sel_parent_out_filter. reflexivity. }
    exists ty', cf'. split; [exact Hq|]. intros e He. rewrite sel_events_field. cbv zeta.
    right. apply in_or_app. right. right. apply in_flat_map. exists y. split; [exact Hy|].
    fold fdef. assert (Hsp : sel_parent s (field_type_of s fdef)
                           = composite_name s (option_map sf_type (field_lookup s p (n_val n)))).
    { unfold field_type_of, fdef, field_def_of, field_lookup.
      destruct p as [p0|]; [|reflexivity]. destruct (get_field_def s p0 (n_val n)) as [f|]; [|reflexivity].
      simpl option_map. rewrite sel_parent_out_filter. reflexivity. }
    rewrite Hsp. apply Hin. exact He.
  - destruct (IH (out_filter s (type_from_ast s t)) cf) as [ty' [cf' [Hq Hin]]];
      [rewrite sel_parent_out_filter; reflexivity|].
    exists ty', cf'. split; [exact Hq|]. intros e He. rewrite sel_events_inline. cbv zeta.
    right. apply in_or_app. right. right. apply in_flat_map. exists y. split; [exact Hy|].
    rewrite sel_parent_out_filter. apply Hin. exact He.
  - destruct (IH (out_filter s ty_) cf) as [ty' [cf' [Hq Hin]]];
      [rewrite sel_parent_out_filter; exact Hp|].
    exists ty', cf'. split; [exact Hq|]. intros e He. rewrite sel_events_inline. cbv zeta.
    right. apply in_or_app. right. right. apply in_flat_map. exists y. split; [exact Hy|].
    rewrite sel_parent_out_filter, Hp. apply Hin. exact He.
Qed.

Lemma def_events_sels s df x :
  In x (def_sels df) ->
  exists ty_, sel_parent s ty_ = def_parent s df /\
    forall e, In e (sel_events s ty_ (def_parent s df) None x) -> In e (def_events s df).
Proof.
  destruct df; simpl; try (intros []).
  - intros Hx. exists (op_root s k). split.
    + unfold op_root. destruct (root_type s k) as [r|]; [|reflexivity].
      destruct (is_object s r) eqn:Ho; [|reflexivity]. simpl. rewrite (object_is_composite _ _ Ho). reflexivity.
    + intros e He. apply in_or_app. right. right. apply in_flat_map. exists x. split; [exact Hx|].
      assert (Hsp : sel_parent s (op_root s k)
                    = match root_type s k with Some r => if is_object s r then Some r else None | None => None end).
      { unfold op_root. destruct (root_type s k) as [r|]; [|reflexivity].
        destruct (is_object s r) eqn:Ho; [|reflexivity]. simpl. rewrite (object_is_composite _ _ Ho). reflexivity. }
      rewrite Hsp. exact He.
  - intros Hx. exists (out_filter s (type_from_ast s tc)). split; [apply sel_parent_out_filter|].
    intros e He. apply in_or_app. right. right. apply in_flat_map. exists x. split; [exact Hx|].
    rewrite sel_parent_out_filter. exact He.
Qed.

Lemma reaches_events s d q z :
  reaches s d q z ->
  exists ty' cf', sel_parent s ty' = q /\
    forall e, In e (sel_events s ty' q cf' z) -> In e (doc_events s d).
Proof.
  intros [df [x [Hdf [Hx Hd]]]]. destruct (def_events_sels s df x Hx) as [ty_ [Hp Hin]].
  destruct (descends_events _ _ _ _ _ Hd ty_ None Hp) as [ty' [cf' [Hq Hin']]].
  exists ty', cf'. split; [exact Hq|]. intros e He. apply doc_events_In. exists df. split; [exact Hdf|].
  apply Hin. apply Hin'. exact He.
Qed.

Theorem progress_static s d :
  r09_fields_on_correct_type s d = [] -> r11_known_fragment_names s d = [] -> ~ static_stuck s d.
Proof.
  intros H9 H11 [(p & alias & n & args & dirs & sl & sub & l & Hr & Hnone)|(q & n & dirs & l & Hr & Hnd)].
  - destruct (reaches_events _ _ _ _ Hr) as [ty' [cf' [_ Hin]]].
    unfold r09_fields_on_correct_type in H9. rewrite flat_map_nil_iff in H9.
    specialize (H9 (EField (Some p) (field_def_of s (Some p) (n_val n)) alias n args dirs sl l)).
    simpl in H9. rewrite Hnone in H9.
    assert (Hnil : [mk 9 l] = []) by (apply H9; apply Hin; rewrite sel_events_field; cbv zeta; left; simpl; rewrite Hnone; reflexivity).
    discriminate.
  - destruct (reaches_events _ _ _ _ Hr) as [ty' [cf' [_ Hin]]].
    unfold r11_known_fragment_names in H11. rewrite flat_map_nil_iff in H11.
    specialize (H11 (ESpread q n dirs l)). simpl in H11.
    destruct (mem_str (n_val n) (frag_names d)) eqn:Hm.
    + apply Hnd. apply frag_names_In. apply mem_str_In. exact Hm.
    + assert (Hnil : [mk 11 l] = []) by (apply H11; apply Hin; left; reflexivity). discriminate.
Qed.

Theorem shape_static s d : r08_scalar_leafs s d = [] -> ~ static_misshaped s d.
Proof.
  intros H8 (p & alias & n & args & dirs & sl & sub & l & f & Hr & Hdef & Hbad).
  destruct (reaches_events _ _ _ _ Hr) as [ty' [cf' [_ Hin]]].
  unfold r08_scalar_leafs in H8. rewrite flat_map_nil_iff in H8.
  specialize (H8 (EField (Some p) (Some f) alias n args dirs sl l)).
  assert (Hev : In (EField (Some p) (Some f) alias n args dirs sl l) (doc_events s d)).
  { apply Hin. rewrite sel_events_field. cbv zeta. left. simpl. rewrite Hdef. reflexivity. }
  specialize (H8 Hev). simpl in H8.
  destruct Hbad as [[Hleaf Hsl]|[Hcomp Hsl]].
  - unfold is_output_type in H8. rewrite (leaf_is_output _ _ Hleaf) in H8. rewrite Hleaf in H8.
    destruct sl as [l0|]; [simpl in H8; discriminate|congruence].
  - unfold is_output_type in H8. rewrite (composite_is_output _ _ Hcomp) in H8. rewrite Hcomp in H8.
    subst sl. simpl in H8. apply app_eq_nil in H8. destruct H8 as [_ H8]. discriminate.
Qed.
