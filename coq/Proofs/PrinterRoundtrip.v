(* C03 -- a composed round trip through the parser model of Lang/Parser.v
   (another property's model, tied to py-gql's lexer/parser by C01/C02):
   printing a type and parsing the text gives the type back, locations erased.
   Uses the completeness half of C01 (acceptance = derivability). *)
From PyGql Require Import Lang.PrinterModel Spec.PrinterSpec Lang.Parser Spec.GrammarSpec
                          Proofs.LexProofs Proofs.EntryProofs.
From Coq Require Import Lia.
Local Open Scope N_scope.

(* what the parser guarantees about a type: names are Names, no "T!!" *)
Definition valid_name (s : str) : Prop :=
  exists c r, s = c :: r /\ is_name_start c = true /\ Forall (fun x => is_name_cont x = true) r.

Fixpoint wf_ty (t : ty) : Prop :=
  match t with
  | TNamed n _ => valid_name (n_val n)
  | TList t' _ => wf_ty t'
  | TNonNull t' _ => wf_ty t' /\ not_non_null t'
  end.

(* the tokens of the printed type, starting at offset [pos] *)
Fixpoint ttoks (t : ty) (pos : nat) : list ptok :=
  match t with
  | TNamed n _ => [PTok KName (n_val n) pos (pos + length (n_val n))]
  | TList t' _ =>
      PTok KBrackO [] pos (S pos) :: ttoks t' (S pos)
      ++ [PTok KBrackC [] (S pos + length (pr_type t')) (S (S pos + length (pr_type t')))]
  | TNonNull t' _ =>
      ttoks t' pos ++ [PTok KBang [] (pos + length (pr_type t')) (S (pos + length (pr_type t')))]
  end.

Fixpoint ntoks (t : ty) : nat :=
  match t with TNamed _ _ => 1 | TList t' _ => S (S (ntoks t')) | TNonNull t' _ => S (ntoks t') end.

Definition rest_ok (rest : str) : Prop :=
  match rest with [] => True | c :: _ => is_name_cont c = false end.

Ltac nb :=
  repeat match goal with
  | H : (_ =? _) = true |- _ => apply N.eqb_eq in H
  | H : (_ =? _) = false |- _ => apply N.eqb_neq in H
  | H : (_ <=? _) = true |- _ => apply N.leb_le in H
  | H : (_ <=? _) = false |- _ => apply N.leb_gt in H
  end.

Lemma letter_range c : is_name_start c = true ->
  c = 95 \/ (65 <= c /\ c <= 90) \/ (97 <= c /\ c <= 122).
Proof.
  unfold is_name_start, is_letter. intros H.
  destruct (c =? 95) eqn:E; [nb; auto|]. simpl in H. right.
  apply orb_prop in H. destruct H as [H|H]; apply andb_prop in H; destruct H; nb; auto.
Qed.

Lemma eqb_of_range c k : c <> k -> (c =? k) = false.
Proof. apply N.eqb_neq. Qed.

Lemma ns_facts c : is_name_start c = true ->
  is_printable c = true /\ symbol_kind c = None /\ (c =? 46) = false /\ (c =? 34) = false
  /\ ((c =? 45) || is_digit c) = false /\ is_ignored c = false /\ (c =? 35) = false
  /\ is_name_cont c = true.
Proof.
  intros H. pose proof (letter_range c H) as R.
  assert (Hne : forall k, (k < 65 \/ (90 < k /\ k < 95) \/ k = 96 \/ 122 < k) -> (c =? k) = false).
  { intros k Hk. apply N.eqb_neq. lia. }
  repeat split.
  - unfold is_printable. replace (32 <=? c) with true; [reflexivity|]. symmetry. apply N.leb_le. lia.
  - unfold symbol_kind. rewrite !Hne by lia. reflexivity.
  - apply Hne; lia.
  - apply Hne; lia.
  - rewrite Hne by lia. unfold is_digit. replace (c <=? 57) with false; [rewrite andb_false_r; reflexivity|].
    symmetry. apply N.leb_gt. lia.
  - unfold is_ignored. rewrite !Hne by lia. reflexivity.
  - apply Hne; lia.
  - unfold is_name_cont. unfold is_name_start in H. rewrite H. reflexivity.
Qed.

Lemma lex_name nm rest pos f : valid_name nm -> rest_ok rest ->
  lex_from (S f) (nm ++ rest) pos
  = LT (PTok KName nm pos (pos + length nm)) :: lex_from f rest (pos + length nm).
Proof.
  intros (c & r & -> & Hc & Hr) Hrest.
  destruct (ns_facts c Hc) as (Hp & Hs & H46 & H34 & Hd & Hi & H35 & Hcont).
  cbn [lex_from app skip_ws]. rewrite Hi, H35. simpl andb.
  cbn [next_token]. rewrite Hp, Hs, H46. simpl negb.
  assert (H3 : starts_3q (c :: r ++ rest) = false).
  { unfold starts_3q. destruct (r ++ rest) as [|b [|d l]]; try reflexivity. rewrite H34. reflexivity. }
  rewrite H3, H34, Hd, Hc.
  change (c :: r ++ rest) with ((c :: r) ++ rest).
  rewrite (span_complete is_name_cont (c :: r) rest).
  - reflexivity.
  - constructor; assumption.
  - destruct rest; [exact I|exact Hrest].
Qed.

Lemma lex_symbol c k rest pos f : symbol_kind c = Some k -> k <> KEOF ->
  lex_from (S f) (c :: rest) pos = LT (PTok k [] pos (S pos)) :: lex_from f rest (S pos).
Proof.
  intros Hs Hk.
  assert (Hc : c = 33 \/ c = 36 \/ c = 40 \/ c = 41 \/ c = 91 \/ c = 93 \/ c = 123 \/ c = 125
               \/ c = 58 \/ c = 61 \/ c = 64 \/ c = 124 \/ c = 38).
  { unfold symbol_kind in Hs.
    repeat match type of Hs with
           | (if ?a =? ?b then _ else _) = _ => destruct (N.eqb_spec a b); [subst; tauto|]
           end. discriminate. }
  assert (Hi : is_ignored c = false /\ (c =? 35) = false /\ is_printable c = true).
  { repeat destruct Hc as [Hc|Hc]; subst; repeat split; reflexivity. }
  destruct Hi as (Hi & H35 & Hp).
  cbn [lex_from skip_ws]. rewrite Hi, H35. simpl andb. cbn [next_token]. rewrite Hp, Hs. simpl negb.
  unfold is_kind. simpl tk. destruct (tkind_eqb k KEOF) eqn:E.
  - apply tkind_eqb_eq in E. contradiction.
  - reflexivity.
Qed.

Lemma lex_type t : wf_ty t -> forall pos rest f, rest_ok rest ->
  lex_from (ntoks t + f) (pr_type t ++ rest) pos
  = map LT (ttoks t pos) ++ lex_from f rest (pos + length (pr_type t)).
Proof.
  induction t as [n l|t' IH l|t' IH l]; intros Hwf pos rest f Hrest.
  - simpl. apply lex_name; assumption.
  - cbn [pr_type ntoks ttoks]. change (lit "[") with [91]. change (lit "]") with [93].
    change (([91] ++ pr_type t' ++ [93]) ++ rest) with (91 :: ((pr_type t' ++ [93]) ++ rest)).
    rewrite <- app_assoc. cbn [plus].
    rewrite (lex_symbol 91 KBrackO) by (reflexivity || discriminate).
    cbn [map app]. f_equal.
    replace (S (ntoks t' + f))%nat with (ntoks t' + S f)%nat by lia.
    etransitivity; [apply (IH Hwf (S pos) ([93] ++ rest) (S f)); reflexivity|].
    rewrite map_app, <- app_assoc. f_equal.
    etransitivity; [apply (lex_symbol 93 KBrackC); [reflexivity|discriminate]|].
    cbn [map app]. f_equal. f_equal. cbn [length]. rewrite app_length. cbn [length]. lia.
  - destruct Hwf as [Hwf Hnn]. cbn [pr_type ntoks ttoks]. change (lit "!") with [33].
    rewrite <- app_assoc. cbn [plus].
    replace (S (ntoks t' + f))%nat with (ntoks t' + S f)%nat by lia.
    etransitivity; [apply (IH Hwf pos ([33] ++ rest) (S f)); reflexivity|].
    rewrite map_app, <- app_assoc. f_equal.
    etransitivity; [apply (lex_symbol 33 KBang); [reflexivity|discriminate]|].
    cbn [map app]. f_equal. f_equal. rewrite app_length. cbn [length]. lia.
Qed.

Lemma ntoks_le t : wf_ty t -> (ntoks t <= length (pr_type t))%nat.
Proof.
  induction t as [n l|t' IH l|t' IH l]; intros Hwf; simpl.
  - destruct Hwf as (c & r & -> & _). simpl. lia.
  - specialize (IH Hwf). change (lit "[") with [91]. change (lit "]") with [93].
    simpl. rewrite app_length. simpl. lia.
  - destruct Hwf as [Hwf _]. specialize (IH Hwf). rewrite app_length. change (lit "!") with [33]. simpl. lia.
Qed.

Lemma ttoks_derive t : wf_ty t -> forall pos, D_type true (ttoks t pos) (strip_ty t).
Proof.
  induction t as [n l|t' IH l|t' IH l]; intros Hwf pos; simpl.
  - apply (DT_named true (PTok KName (n_val n) pos (pos + length (n_val n)))). reflexivity.
  - apply (DT_list true (PTok KBrackO [] pos (S pos)) (ttoks t' (S pos))
             (PTok KBrackC [] (S pos + length (pr_type t')) (S (S pos + length (pr_type t'))))
             (strip_ty t')); [reflexivity|reflexivity|]. apply IH. assumption.
  - destruct Hwf as [Hwf Hnn].
    apply (DT_non_null true (ttoks t' pos)
             (PTok KBang [] (pos + length (pr_type t')) (S (pos + length (pr_type t'))))
             (strip_ty t')); [reflexivity|apply IH; assumption|].
    destruct t'; simpl in *; auto.
Qed.

Theorem type_roundtrip fl t : no_location fl = true -> wf_ty t ->
  parse_type_str fl (pr_type t) = Ok (strip_ty t).
Proof.
  intros Hnl Hwf.
  set (body := ttoks t 0).
  set (eof := PTok KEOF [] (length (pr_type t)) (length (pr_type t))).
  apply (parse_type_str_complete fl (pr_type t) (PTok KSOF [] 0 0 :: body ++ [eof]) body).
  - unfold lex, lex_stream, lex_fuel. cbn [collect].
    pose proof (ntoks_le t Hwf) as Hle.
    replace (S (length (pr_type t))) with (ntoks t + S (length (pr_type t) - ntoks t))%nat by lia.
    rewrite <- (app_nil_r (pr_type t)) at 2.
    rewrite (lex_type t Hwf 0 [] _ I). fold body. cbn [lex_from skip_ws next_token plus].
    unfold is_kind. simpl tkind_eqb.
    assert (Hc : forall ts tail, collect (map LT ts ++ tail)
                 = do a <- collect tail; Ok (ts ++ a)).
    { induction ts as [|x ts IHts]; intros tail; simpl.
      - destruct (collect tail); reflexivity.
      - rewrite IHts. destruct (collect tail); reflexivity. }
    rewrite Hc. simpl. reflexivity.
  - exists (PTok KSOF [] 0 0), eof. auto.
  - rewrite Hnl. apply ttoks_derive. assumption.
Qed.
