(* C03 -- the round trip for EVERY document the parser accepts, member
   descriptions included: the printed text parses back to the original tree
   with the descriptions of fields, arguments, input fields and enum values
   removed (the open finding member-descriptions, stated exactly), and
   print (parse (print d)) = print d without any side hypothesis on d. *)
From PyGql Require Import Lang.Parser Spec.LexSpec Spec.GrammarSpec Spec.DocGrammarSpec Spec.ExecOnlySpec
                          Proofs.EntryProofs Proofs.ParseOutputWf.
From PyGql Require Import Lang.PrinterModel Spec.PrinterSpec Proofs.PrinterProofs Proofs.PrinterRoundtrip
                          Proofs.PrinterValueRoundtrip Proofs.PrinterExecRoundtrip.
From PyGql Require Import Spec.SdlGrammarSpec Proofs.SdlEntryProofs Proofs.PrinterSdlRoundtrip
                          Proofs.PrinterClosedRoundtrip.

(* what ASTPrinter forgets: the description of a field, an argument, an input
   field, an enum value *)
Definition forget_iv (i : input_value_def) : input_value_def :=
  IVDef None (iv_name i) (iv_type i) (iv_default i) (iv_dirs i) (iv_loc i).
Definition forget_fd (f : field_def) : field_def :=
  FDef None (fd_name f) (map forget_iv (fd_args f)) (fd_type f) (fd_dirs f) (fd_loc f).
Definition forget_ev (e : enum_value_def) : enum_value_def :=
  EVDef None (ev_name e) (ev_dirs e) (ev_loc e).
Definition forget_def (d : definition) : definition :=
  match d with
  | DObject e desc n ifs dirs fs l => DObject e desc n ifs dirs (map forget_fd fs) l
  | DInterface e desc n dirs fs l => DInterface e desc n dirs (map forget_fd fs) l
  | DEnum e desc n dirs vs l => DEnum e desc n dirs (map forget_ev vs) l
  | DInput e desc n dirs fs l => DInput e desc n dirs (map forget_iv fs) l
  | DDirective desc n args locs l => DDirective desc n (map forget_iv args) locs l
  | _ => d
  end.
Definition forget_member_descriptions (d : document) : document :=
  Doc (map forget_def (doc_defs d)) (doc_loc d).

(* nothing else changes: a document without member descriptions is a fixed point *)
Lemma forget_iv_id i : iv_desc i = None -> forget_iv i = i.
Proof. destruct i; simpl; intros ->; reflexivity. Qed.

Lemma map_id_on {A} (f : A -> A) l : Forall (fun x => f x = x) l -> map f l = l.
Proof. induction 1; simpl; congruence. Qed.

Lemma forget_fd_id f : nodesc_fdef f -> forget_fd f = f.
Proof.
  destruct f as [desc n args t dirs l]; unfold nodesc_fdef, forget_fd; simpl. intros [-> H].
  rewrite map_id_on; [reflexivity|]. eapply Forall_impl; [|exact H]. apply forget_iv_id.
Qed.

Lemma forget_ev_id e : ev_desc e = None -> forget_ev e = e.
Proof. destruct e; simpl; intros ->; reflexivity. Qed.

Lemma forget_def_id d : member_desc_free d -> forget_def d = d.
Proof.
  destruct d; simpl; intros H; try reflexivity; f_equal; apply map_id_on;
    (eapply Forall_impl; [|exact H]); first [apply forget_fd_id|apply forget_ev_id|apply forget_iv_id].
Qed.

Lemma forget_fixed d : no_member_descriptions d -> forget_member_descriptions d = d.
Proof.
  destruct d as [defs l]. unfold no_member_descriptions, forget_member_descriptions. simpl. intros H.
  f_equal. apply map_id_on. eapply Forall_impl; [|exact H]. apply forget_def_id.
Qed.

(* the result carries no member description *)
Lemma forget_def_free d : member_desc_free (forget_def d).
Proof.
  destruct d; simpl; try exact I; apply Forall_forall; intros x Hx; apply in_map_iff in Hx;
    destruct Hx as (y & <- & _); try reflexivity.
  all: split; [reflexivity|]; apply Forall_forall; intros a Ha; apply in_map_iff in Ha;
    destruct Ha as (b & <- & _); reflexivity.
Qed.

(* the printer does not look at them *)
Section Text.
  Variable cf : cfg.

  Lemma pr_iv_forget i : pr_input_value_def cf (forget_iv i) = pr_input_value_def cf i.
  Proof. reflexivity. Qed.

  Lemma map_pr_iv_forget l : map (pr_input_value_def cf) (map forget_iv l) = map (pr_input_value_def cf) l.
  Proof. rewrite map_map. reflexivity. Qed.

  Lemma pr_args_forget l : pr_arg_defs cf (map forget_iv l) = pr_arg_defs cf l.
  Proof. unfold pr_arg_defs. rewrite map_pr_iv_forget. reflexivity. Qed.

  Lemma pr_fd_forget f : pr_field_def cf (forget_fd f) = pr_field_def cf f.
  Proof. unfold pr_field_def. simpl. rewrite pr_args_forget. reflexivity. Qed.

  Lemma map_pr_fd_forget l : map (pr_field_def cf) (map forget_fd l) = map (pr_field_def cf) l.
  Proof. rewrite map_map. apply map_ext. apply pr_fd_forget. Qed.

  Lemma map_pr_ev_forget l : map (pr_enum_value_def cf) (map forget_ev l) = map (pr_enum_value_def cf) l.
  Proof. rewrite map_map. reflexivity. Qed.

  Lemma pr_definition_forget d : pr_definition cf (forget_def d) = pr_definition cf d.
  Proof.
    destruct d; try reflexivity; cbn [forget_def pr_definition];
      rewrite ?map_pr_fd_forget, ?map_pr_ev_forget, ?map_pr_iv_forget, ?pr_args_forget; reflexivity.
  Qed.

  Lemma pr_defs_forget ds prev : pr_defs cf prev (map forget_def ds) = pr_defs cf prev ds.
  Proof.
    revert prev. induction ds as [|d ds IH]; intros prev; [reflexivity|].
    cbn [map pr_defs]. rewrite pr_definition_forget. cbv zeta. rewrite IH. reflexivity.
  Qed.

  Lemma pr_document_forget d : pr_document cf (forget_member_descriptions d) = pr_document cf d.
  Proof. unfold pr_document, forget_member_descriptions. simpl. rewrite pr_defs_forget. reflexivity. Qed.
End Text.

(* well-formedness does not mention them *)
Lemma wf_ivdef_forget i : wf_ivdef i -> wf_ivdef (forget_iv i).
Proof. exact (fun H => H). Qed.

Lemma Forall_map_same {A} (P : A -> Prop) (f : A -> A) l :
  (forall x, P x -> P (f x)) -> Forall P l -> Forall P (map f l).
Proof. intros Hf H. induction H; simpl; constructor; auto. Qed.

Lemma wf_fdef_forget f : wf_fdef f -> wf_fdef (forget_fd f).
Proof.
  intros (H1 & H2 & H3 & H4). repeat split; simpl; try assumption.
  apply Forall_map_same; [apply wf_ivdef_forget|assumption].
Qed.

Lemma wf_evdef_forget e : wf_evdef e -> wf_evdef (forget_ev e).
Proof. exact (fun H => H). Qed.

Lemma map_nil_same {A} (f : A -> A) l : map f l = [] -> l = [].
Proof. destruct l; [reflexivity|discriminate]. Qed.

Lemma wf_sdef_forget d : wf_sdef d -> wf_sdef (forget_def d).
Proof.
  destruct d; simpl; try exact (fun H => H).
  - intros (H1 & H2 & H3 & H4 & H5 & H6). repeat split; try assumption; try apply H1.
    + apply Forall_map_same; [apply wf_fdef_forget|assumption].
    + intros He (Ha & Hb & Hc). apply (H6 He). repeat split; try assumption. eapply map_nil_same; eassumption.
  - intros (H1 & H2 & H3 & H4 & H5). repeat split; try assumption; try apply H1.
    + apply Forall_map_same; [apply wf_fdef_forget|assumption].
    + intros He (Ha & Hb). apply (H5 He). split; [assumption|]. eapply map_nil_same; eassumption.
  - intros (H1 & H2 & H3 & H4 & H5). repeat split; try assumption; try apply H1.
    + apply Forall_map_same; [apply wf_evdef_forget|assumption].
    + intros He (Ha & Hb). apply (H5 He). split; [assumption|]. eapply map_nil_same; eassumption.
  - intros (H1 & H2 & H3 & H4 & H5). repeat split; try assumption; try apply H1.
    + apply Forall_map_same; [apply wf_ivdef_forget|assumption].
    + intros He (Ha & Hb). apply (H5 He). split; [assumption|]. eapply map_nil_same; eassumption.
  - intros (H1 & H2 & H3 & H4 & H5). repeat split; try assumption.
    apply Forall_map_same; [apply wf_ivdef_forget|assumption].
Qed.

(* every accepted document is well-formed once its member descriptions are forgotten *)
Lemma D_document_forget_wf nl fv en ts d :
  D_document nl fv en ts d -> Forall tok_wf ts -> wf_doc fv (forget_member_descriptions d).
Proof.
  intros [sof body eof defs Ks Ke Hl Hne] Ht. unfold wf_doc, forget_member_descriptions. simpl in *.
  split; [intros E; apply Hne; eapply map_nil_same; exact E|].
  inversion Ht as [|? ? _ Hr]; subst. apply Forall_app in Hr. destruct Hr as [Hb _].
  revert Hb. clear -Hl.
  induction Hl as [|ts x ts' xs Hx Hxs IH]; intros Hb; [constructor|].
  apply Forall_app in Hb. destruct Hb as [Hb1 Hb2]. simpl. constructor; [|apply IH; assumption].
  destruct Hx as [ts d He|ts d _ Htd|ts d _ Hte].
  - pose proof (D_executable_definition_wf nl fv ts d He Hb1) as Hw.
    destruct He as [ts d Hop|ts d Hfr]; [destruct Hop|destruct Hfr]; exact Hw.
  - pose proof (wf_sdef_forget d (tsd_wf nl ts d Htd Hb1)) as Hw. pose proof (forget_def_free d) as Hf.
    destruct Htd; split; assumption.
  - pose proof (wf_sdef_forget d (tse_wf nl ts d Hte Hb1)) as Hw. pose proof (forget_def_free d) as Hf.
    destruct Hte; split; assumption.
Qed.

(* Property C03 for every document the parser accepts: printed with any space /
   tab indent and parsed again (locations off, type-system definitions allowed),
   it comes back up to positions and up to exactly the member descriptions. *)
Theorem roundtrip_document_total fl fl' s d ind :
  parse_document fl s = Ok d -> all_ws ind ->
  no_location fl' = true -> allow_type_system fl' = true ->
  (fragment_variables fl = true -> fragment_variables fl' = true) ->
  parse_document fl' (print_ast ind true d) = Ok (strip_doc (forget_member_descriptions d)).
Proof.
  intros Hp Hind Hnl Hts Hfv.
  replace (print_ast ind true d) with (print_ast ind true (forget_member_descriptions d))
    by apply pr_document_forget.
  apply (sdl_roundtrip fl' ind (forget_member_descriptions d) Hnl Hts Hind).
  destruct (parse_document_sound_full fl s d Hp) as (ts & Hl & Dd).
  pose proof (D_document_forget_wf _ _ _ _ _ Dd (lex_tok_wf s ts Hl)) as [Hne Hwf].
  split; [assumption|]. destruct (fragment_variables fl) eqn:E.
  - rewrite (Hfv eq_refl). assumption.
  - destruct (fragment_variables fl'); [|assumption].
    apply Forall_forall. intros x Hx. rewrite Forall_forall in Hwf. specialize (Hwf x Hx).
    destruct x; try exact Hwf; apply wf_def_mono; exact Hwf.
Qed.

(* the idempotence law, unconditionally: print (parse (print d)) = print d for
   every accepted document, member descriptions or not *)
Theorem idempotent_document_total fl fl' s d d' ind :
  parse_document fl s = Ok d -> all_ws ind ->
  no_location fl' = true -> allow_type_system fl' = true ->
  (fragment_variables fl = true -> fragment_variables fl' = true) ->
  parse_document fl' (print_ast ind true d) = Ok d' ->
  print_ast ind true d' = print_ast ind true d.
Proof.
  intros Hp Hind Hnl Hts Hfv Hp'.
  rewrite (roundtrip_document_total fl fl' s d ind Hp Hind Hnl Hts Hfv) in Hp'.
  inversion Hp'; subst. unfold print_ast. rewrite pr_document_strip. apply pr_document_forget.
Qed.

(* the second print is a fixed point of the whole pipeline: parsing it again
   gives the same tree as the first re-parse *)
Theorem reparse_stable fl fl' s d ind :
  parse_document fl s = Ok d -> all_ws ind ->
  no_location fl' = true -> allow_type_system fl' = true ->
  (fragment_variables fl = true -> fragment_variables fl' = true) ->
  forall d', parse_document fl' (print_ast ind true d) = Ok d' ->
  parse_document fl' (print_ast ind true d') = Ok d'.
Proof.
  intros Hp Hind Hnl Hts Hfv d' Hp'.
  rewrite (idempotent_document_total fl fl' s d d' ind Hp Hind Hnl Hts Hfv Hp'). exact Hp'.
Qed.

(* ------------------------------------------------------------------ the guard is exact *)
Lemma omap_none {A B} (h : A -> B) o : option_map h o = None -> o = None.
Proof. destruct o; [discriminate|reflexivity]. Qed.

Lemma strip_forget_iv i : strip_ivdef (forget_iv i) = strip_ivdef i -> iv_desc i = None.
Proof. unfold strip_ivdef, forget_iv. simpl. intros H. injection H as H. symmetry in H. eapply omap_none; eassumption. Qed.

Lemma strip_forget_ev e : strip_evdef (forget_ev e) = strip_evdef e -> ev_desc e = None.
Proof. unfold strip_evdef, forget_ev. simpl. intros H. injection H as H. symmetry in H. eapply omap_none; eassumption. Qed.

Lemma map_strip_forget {A} (st : A -> A) (fg : A -> A) (P : A -> Prop) l :
  (forall x, st (fg x) = st x -> P x) -> map st (map fg l) = map st l -> Forall P l.
Proof.
  intros HP. induction l as [|x l IH]; simpl; intros H; [constructor|].
  injection H as H1 H2. constructor; auto.
Qed.

Lemma strip_forget_fd f : strip_fdef (forget_fd f) = strip_fdef f -> nodesc_fdef f.
Proof.
  unfold strip_fdef, forget_fd, nodesc_fdef. simpl. intros H. injection H as H1 H2. split.
  - symmetry in H1. eapply omap_none; eassumption.
  - eapply (map_strip_forget strip_ivdef forget_iv); [apply strip_forget_iv|exact H2].
Qed.

Lemma strip_forget_def d : strip_def (forget_def d) = strip_def d -> member_desc_free d.
Proof.
  destruct d; simpl; intros H; try exact I; injection H as H.
  - eapply (map_strip_forget strip_fdef forget_fd); [apply strip_forget_fd|eassumption].
  - eapply (map_strip_forget strip_fdef forget_fd); [apply strip_forget_fd|eassumption].
  - eapply (map_strip_forget strip_evdef forget_ev); [apply strip_forget_ev|eassumption].
  - eapply (map_strip_forget strip_ivdef forget_iv); [apply strip_forget_iv|eassumption].
  - eapply (map_strip_forget strip_ivdef forget_iv); [apply strip_forget_iv|eassumption].
Qed.

Lemma strip_forget_doc d :
  strip_doc (forget_member_descriptions d) = strip_doc d -> no_member_descriptions d.
Proof.
  unfold strip_doc, forget_member_descriptions, no_member_descriptions. simpl. intros H. injection H as H.
  eapply (map_strip_forget strip_def forget_def); [apply strip_forget_def|exact H].
Qed.

(* Property C03 holds of an accepted document exactly when it carries no member
   description: the guard of the closed theorems cannot be weakened, and nothing
   else ever breaks the round trip. *)
Theorem roundtrip_iff fl fl' s d ind :
  parse_document fl s = Ok d -> all_ws ind ->
  no_location fl' = true -> allow_type_system fl' = true ->
  (fragment_variables fl = true -> fragment_variables fl' = true) ->
  (parse_document fl' (print_ast ind true d) = Ok (strip_doc d) <-> no_member_descriptions d).
Proof.
  intros Hp Hind Hnl Hts Hfv. split.
  - intros H. rewrite (roundtrip_document_total fl fl' s d ind Hp Hind Hnl Hts Hfv) in H.
    apply strip_forget_doc. congruence.
  - intros Hm. apply (roundtrip_document_closed fl fl' s d ind); assumption.
Qed.

(* print_ast(node, indent=n): every integer indent is covered by the theorems *)
Lemma int_indent_ws n : all_ws (indent_of_int n).
Proof. unfold all_ws, indent_of_int. induction n; simpl; auto. Qed.

Theorem roundtrip_int_indent fl fl' s d n :
  parse_document fl s = Ok d ->
  no_location fl' = true -> allow_type_system fl' = true ->
  (fragment_variables fl = true -> fragment_variables fl' = true) ->
  parse_document fl' (print_ast (indent_of_int n) true d) = Ok (strip_doc (forget_member_descriptions d)).
Proof. intros Hp. apply (roundtrip_document_total fl fl' s d _ Hp). apply int_indent_ws. Qed.
