(* shape of the text of default literals and applied directives: no line
   feed, non-blank at both ends *)
From PyGql Require Import Lang.PrinterModel Spec.PrinterSpec Lang.Parser Spec.LexSpec Spec.GrammarSpec
                          Proofs.PrinterProofs Proofs.PrinterRoundtrip Proofs.PrinterValueRoundtrip.
From PyGql Require Import Schema.SdlSchema Schema.SdlBuild Schema.SdlPrint Spec.SdlRoundtripSpec
                          Proofs.SdlTextProofs Proofs.SdlTextBaseProofs Proofs.SdlValueTextProofs.
From Coq Require Import Lia.

Definition numchar (c : N) : Prop :=
  (c = 45 \/ c = 43 \/ c = 46 \/ c = 101 \/ c = 69 \/ (48 <= c /\ c <= 57))%N.

Lemma numchar_facts c : numchar c -> (c =? PrinterModel.LF)%N = false /\ py_space c = false.
Proof.
  unfold numchar, PrinterModel.LF, py_space. intros H. split.
  - apply N.eqb_neq. lia.
  - repeat match goal with |- context [(?a =? ?b)%N] => destruct (N.eqb_spec a b); [lia|] end.
    repeat match goal with |- context [(?a <=? ?b)%N] => destruct (N.leb_spec a b); try lia end.
    all: cbn; try reflexivity.
Qed.

Lemma numchars_text s : s <> [] -> Forall numchar s -> has_lf s = false /\ tight s.
Proof.
  intros Hne H. assert (H' : has_lf s = false /\ nospace s).
  { induction H as [|c r Hc _ IH]; [split; [reflexivity|constructor]|].
    destruct (numchar_facts c Hc) as [H1 H2].
    assert (Hr : has_lf r = false /\ nospace r).
    { destruct r; [split; [reflexivity|constructor]|apply IH; discriminate]. }
    destruct Hr as [R1 R2]. split; [unfold has_lf in *; cbn [existsb]; rewrite H1, R1; reflexivity|constructor; assumption]. }
  destruct H' as [H1 H2]. split; [exact H1|apply nospace_tight; assumption].
Qed.

Lemma digits_numchars ds : Forall Digit ds -> Forall numchar ds.
Proof. apply Forall_impl. intros c Hc. unfold Digit in Hc. unfold numchar. lia. Qed.

Lemma uip_numchars u : UnsignedIntegerPart u -> u <> [] /\ Forall numchar u.
Proof.
  intros H. inversion H as [|d ds Hd Hds]; subst; (split; [discriminate|]).
  - constructor; [unfold numchar; lia|constructor].
  - constructor; [unfold NonZeroDigit in Hd; unfold numchar; lia|apply digits_numchars; exact Hds].
Qed.

Lemma ip_numchars s : IntegerPart s -> s <> [] /\ Forall numchar s.
Proof.
  intros H. destruct H as [u Hu|u Hu]; destruct (uip_numchars u Hu) as [H1 H2].
  - split; assumption.
  - split; [discriminate|constructor; [unfold numchar; lia|exact H2]].
Qed.

Lemma fp_numchars s : FractionalPart s -> Forall numchar s.
Proof. intros [ds [_ Hd]]. constructor; [unfold numchar; lia|apply digits_numchars; exact Hd]. Qed.

Lemma ep_numchars s : ExponentPart s -> Forall numchar s.
Proof.
  intros [e sign ds He Hs [_ Hd]]. constructor; [unfold numchar; lia|]. apply Forall_app; split; [|apply digits_numchars; exact Hd].
  destruct Hs as [Hs|[Hs|Hs]]; subst sign; repeat constructor; unfold numchar; lia.
Qed.

Lemma int_text s : IntValue s -> has_lf s = false /\ tight s.
Proof. intros H. destruct (ip_numchars s H). apply numchars_text; assumption. Qed.

Lemma float_text s : FloatValue s -> has_lf s = false /\ tight s.
Proof.
  intros H. apply numchars_text.
  - destruct H as [ip fp Hi _|ip ep Hi _|ip fp ep Hi _ _]; destruct (ip_numchars ip Hi) as [Hne _];
      destruct ip; try congruence; discriminate.
  - destruct H as [ip fp Hi Hf|ip ep Hi He|ip fp ep Hi Hf He]; destruct (ip_numchars ip Hi) as [_ Hc];
      repeat (apply Forall_app; split); auto using fp_numchars, ep_numchars.
Qed.

Lemma json_quote_tight s : tight (json_quote s).
Proof.
  unfold json_quote, tight. split; [discriminate|]. split; [reflexivity|].
  change (PrinterModel.QUOTE :: flat_map PrinterModel.json_char s ++ [PrinterModel.QUOTE])
    with ((PrinterModel.QUOTE :: flat_map PrinterModel.json_char s) ++ [PrinterModel.QUOTE]).
  rewrite last_app_ne by discriminate. reflexivity.
Qed.

Lemma has_lf_p_join (l : list str) sep :
  has_lf sep = false -> Forall (fun x => has_lf x = false) l -> has_lf (p_join l sep) = false.
Proof.
  intros Hs H. unfold p_join. rewrite join_ne_join. apply has_lf_join; [exact Hs|].
  apply Forall_forall. intros x Hx. apply filter_In in Hx. rewrite Forall_forall in H. apply H. apply Hx.
Qed.

Lemma bracket_tight (a m b : str) : a <> [] -> b <> [] -> py_space (hd 0%N a) = false -> py_space (last b 0%N) = false ->
  tight (a ++ m ++ b).
Proof.
  intros Ha Hb H1 H2. repeat split.
  - destruct a; [congruence|discriminate].
  - destruct a; [congruence|exact H1].
  - rewrite app_assoc, last_app_ne by exact Hb. exact H2.
Qed.

Lemma good_value_text cf v : good_value v -> has_lf (pr_value cf v) = false /\ tight (pr_value cf v).
Proof.
  induction v using value_ind'; intros G.
  - destruct G.
  - destruct G as [G _]. apply int_text; exact G.
  - destruct G as [[G|[_ G]] _]; [apply int_text; apply int_re_spec; exact G|apply float_text; exact G].
  - destruct G as [-> _]. cbn [pr_value pr_string]. split; [apply json_quote_nolf|apply json_quote_tight].
  - cbn [pr_value]. destruct b; split; try reflexivity; repeat split; discriminate || reflexivity.
  - cbn [pr_value]. split; [reflexivity|repeat split; discriminate || reflexivity].
  - destruct G as [[G _] _]. cbn [pr_value]. destruct (vname_nolf s G) as (H1 & H2 & H3).
    split; [exact H1|apply nospace_tight; assumption].
  - apply good_list in G. destruct G as [_ G]. cbn [pr_value]. split.
    + rewrite !has_lf_app. rewrite has_lf_p_join; [reflexivity|reflexivity|].
      apply Forall_forall. intros x Hx. apply in_map_iff in Hx. destruct Hx as (y & <- & Hy).
      rewrite Forall_forall in H, G. apply (H y Hy (G y Hy)).
    + apply bracket_tight; discriminate || reflexivity.
  - apply good_object in G. destruct G as [_ G]. cbn [pr_value]. split.
    + rewrite !has_lf_app. rewrite has_lf_p_join; [reflexivity|reflexivity|].
      apply Forall_forall. intros x Hx. apply in_map_iff in Hx. destruct Hx as (y & <- & Hy).
      rewrite Forall_forall in H, G. destruct (G y Hy) as [(Hn & _) Hv].
      rewrite !has_lf_app, (proj1 (vname_nolf _ Hn)), (proj1 (H y Hy Hv)). reflexivity.
    + apply bracket_tight; discriminate || reflexivity.
Qed.

Lemma good_dir_text cf d : good_dir d -> has_lf (pr_directive cf d) = false /\ tight (pr_directive cf d).
Proof.
  intros (Hn & _ & _ & Ha). destruct (vname_nolf _ Hn) as (N1 & N2 & N3).
  unfold pr_directive, pr_arguments.
  assert (Hargs : has_lf (p_join (map (pr_argument cf) (d_args d)) (lit ", ")) = false).
  { apply has_lf_p_join; [reflexivity|]. apply Forall_forall. intros x Hx. apply in_map_iff in Hx.
    destruct Hx as (a & <- & Hin). rewrite Forall_forall in Ha. destruct (Ha a Hin) as (Han & _ & _ & Hv & _).
    unfold pr_argument. rewrite !has_lf_app, (proj1 (vname_nolf _ Han)), (proj1 (good_value_text cf _ Hv)). reflexivity. }
  unfold p_wrap. destruct (is_empty (p_join (map (pr_argument cf) (d_args d)) (lit ", "))).
  - rewrite app_nil_r. split; [rewrite has_lf_app, N1; reflexivity|].
    apply tight_app; [repeat split; discriminate || reflexivity|apply nospace_tight; assumption].
  - split; [rewrite !has_lf_app, N1, Hargs; reflexivity|].
    rewrite app_assoc. apply tight_app; [apply tight_app; [repeat split; discriminate || reflexivity|apply nospace_tight; assumption]|].
    apply bracket_tight; discriminate || reflexivity.
Qed.
