(* C03 -- the composed round trip for executable documents through the parser
   model of Lang/Parser.v:  parse_document (print_ast ind true d) = strip_doc d. *)
From PyGql Require Import Lang.Parser Spec.LexSpec Spec.GrammarSpec Spec.DocGrammarSpec Proofs.LexProofs
                          Proofs.EntryProofs Proofs.DocEntryProofs.
From PyGql Require Import Lang.PrinterModel Spec.PrinterSpec Proofs.PrinterProofs Proofs.PrinterRoundtrip
                          Proofs.PrinterValueRoundtrip.
From Coq Require Import Lia.
Local Open Scope N_scope.

(* ------------------------------------------------------------------ generic pieces *)
Lemma lexok_nil (P : list ptok -> Prop) : P [] -> LexOK [] P.
Proof. intros HP rest pos _. exists [], pos. split; [assumption|]. split; [simpl; lia|]. intros f. reflexivity. Qed.

Lemma lexok_weaken text (P Q : list ptok -> Prop) : (forall ts, P ts -> Q ts) -> LexOK text P -> LexOK text Q.
Proof.
  intros H HL rest pos Hr. destruct (HL rest pos Hr) as (ts & pos' & HP & Hlen & Hlex).
  exists ts, pos'. auto.
Qed.

Lemma lexok_empty_tokens (P : list ptok -> Prop) : LexOK [] P -> P [].
Proof.
  intros H. destruct (H [] 0%nat I) as (ts & pos' & HP & Hlen & _).
  destruct ts; [assumption|simpl in Hlen; lia].
Qed.

(* adjacent texts *)
Lemma lexok_app t1 t2 (P1 P2 P : list ptok -> Prop) :
  LexOK t1 P1 -> LexOK t2 P2 -> (forall rest, vrest_ok rest -> vrest_ok (t2 ++ rest)) ->
  (forall ts1 ts2, P1 ts1 -> P2 ts2 -> P (ts1 ++ ts2)) -> LexOK (t1 ++ t2) P.
Proof.
  intros H1 H2 Hv HP rest pos Hr.
  destruct (H1 (t2 ++ rest) pos (Hv rest Hr)) as (ts1 & pos1 & HP1 & Hlen1 & Hlex1).
  destruct (H2 rest pos1 Hr) as (ts2 & pos2 & HP2 & Hlen2 & Hlex2).
  exists (ts1 ++ ts2), pos2. split; [apply HP; assumption|].
  split; [rewrite !app_length; lia|].
  intros f. rewrite app_length, <- Nat.add_assoc, <- app_assoc, Hlex1, Hlex2, map_app, <- app_assoc. reflexivity.
Qed.

(* one symbol *)
Lemma lexok_symbol c k (P : list ptok -> Prop) :
  symbol_kind c = Some k -> k <> KEOF -> (forall t, tk t = k -> P [t]) -> LexOK [c] P.
Proof.
  intros Hs Hk HP. apply lexok_single; [discriminate|].
  intros rest pos _. exists (PTok k [] pos (S pos)), (S pos). split; [apply HP; reflexivity|].
  intros f. apply lex_symbol; assumption.
Qed.

(* ignored characters (white space, commas, line feeds) between tokens *)
Definition ignorable (sep : str) : Prop := Forall (fun c => is_ignored c = true) sep.

Lemma lex_skip_ignored sep : ignorable sep ->
  forall fuel X pos, lex_from fuel (sep ++ X) pos = lex_from fuel X (pos + length sep).
Proof.
  induction 1 as [|c sep Hc _ IH]; intros fuel X pos; [simpl; f_equal; lia|].
  simpl app. transitivity (lex_from fuel (sep ++ X) (S pos)).
  - destruct fuel; [reflexivity|]. cbn [lex_from skip_ws andb]. rewrite Hc. reflexivity.
  - rewrite IH. f_equal. simpl. lia.
Qed.

Lemma ignored_vrest c rest : is_ignored c = true -> vrest_ok (c :: rest).
Proof.
  unfold is_ignored. intros H. simpl.
  repeat (apply orb_prop in H; destruct H as [H|H]); apply N.eqb_eq in H; subst;
    repeat split; (reflexivity || discriminate).
Qed.

Lemma ignorable_vrest sep rest : ignorable sep -> sep <> [] -> vrest_ok (sep ++ rest).
Proof. intros H Hne. destruct H; [contradiction|]. apply ignored_vrest. assumption. Qed.

Lemma ws_ignorable pre : all_ws pre -> ignorable pre.
Proof.
  induction pre as [|c pre IH]; intros H; [constructor|].
  apply all_ws_cons in H. destruct H as [Hc Hp]. constructor; [|apply IH; assumption].
  unfold PrinterSpec.is_ws in Hc. unfold is_ignored. apply orb_prop in Hc.
  destruct Hc as [Hc|Hc]; apply N.eqb_eq in Hc; subst; reflexivity.
Qed.

(* a leading run of ignored characters *)
Lemma lexok_lead sep t (P : list ptok -> Prop) : ignorable sep -> LexOK t P -> LexOK (sep ++ t) P.
Proof.
  intros Hs H rest pos Hr. destruct (H rest (pos + length sep)%nat Hr) as (ts & pos' & HP & Hlen & Hlex).
  exists ts, pos'. split; [assumption|]. split; [rewrite app_length; lia|].
  intros f. rewrite <- app_assoc. rewrite lex_skip_ignored by assumption. apply Hlex.
Qed.

Lemma lexok_trail sep t (P : list ptok -> Prop) : ignorable sep -> LexOK t P -> LexOK (t ++ sep) P.
Proof.
  intros Hs H rest pos Hr.
  destruct sep as [|c sep'] eqn:Es; [rewrite app_nil_r; apply H; assumption|].
  destruct (H ((c :: sep') ++ rest) pos) as (ts & pos' & HP & Hlen & Hlex);
    [apply ignorable_vrest; [assumption|discriminate]|].
  exists ts, (pos' + length (c :: sep'))%nat. split; [assumption|]. split; [rewrite app_length; lia|].
  intros f. rewrite <- app_assoc, Hlex. rewrite lex_skip_ignored by assumption. reflexivity.
Qed.

(* p_join of heterogeneous parts *)
Definition part := (str * (list ptok -> Prop))%type.

Inductive PartsP : list part -> list ptok -> Prop :=
| PP_nil : PartsP [] []
| PP_cons t (P : list ptok -> Prop) ts rest tss :
    P ts -> PartsP rest tss -> PartsP ((t, P) :: rest) (ts ++ tss).

Lemma join_ne_nonempty l sep : (forall x, In x l -> x <> []) -> l <> [] -> join_ne l sep <> [].
Proof.
  destruct l as [|x l]; [contradiction|]. intros H _.
  pose proof (H x (or_introl eq_refl)) as Hx. destruct l; simpl; destruct x; try contradiction; discriminate.
Qed.

Lemma filter_nonempty_spec (l : list str) x :
  In x (filter (fun s => negb (is_empty s)) l) -> x <> [].
Proof. intros H. apply filter_In in H. destruct H as [_ H]. destruct x; [discriminate|discriminate]. Qed.

Lemma p_join_cons t l sep :
  p_join (t :: l) sep =
  if is_empty t then p_join l sep
  else if is_empty (p_join l sep) then t else t ++ sep ++ p_join l sep.
Proof.
  unfold p_join. simpl. destruct t as [|c t]; [reflexivity|]. simpl.
  destruct (filter (fun x => negb (is_empty x)) l) as [|y fl] eqn:E; [reflexivity|].
  assert (Hne : join_ne (y :: fl) sep <> []).
  { apply join_ne_nonempty; [|discriminate]. intros x Hx. apply (filter_nonempty_spec l). rewrite E. assumption. }
  destruct (join_ne (y :: fl) sep) eqn:EJ; [contradiction|]. reflexivity.
Qed.

Lemma lex_pjoin sep (parts : list part) :
  ignorable sep -> sep <> [] ->
  Forall (fun p => LexOK (fst p) (snd p)) parts ->
  LexOK (p_join (map fst parts) sep) (PartsP parts).
Proof.
  intros Hs Hne. induction parts as [|[t P] parts IH]; intros HF.
  - apply lexok_nil. constructor.
  - inversion HF as [|? ? Ht Hrest]; subst. specialize (IH Hrest). cbn [map fst snd] in *.
    rewrite p_join_cons. destruct t as [|c t].
    + simpl. apply (lexok_weaken _ (PartsP parts)); [|assumption].
      intros ts Hts. change ts with ([] ++ ts). constructor; [apply lexok_empty_tokens; assumption|assumption].
    + cbn [is_empty]. destruct (p_join (map fst parts) sep) as [|d J] eqn:EJ.
      * cbn [is_empty]. apply (lexok_weaken _ P); [|assumption].
        intros ts Hts. rewrite <- (app_nil_r ts). constructor; [assumption|].
        apply lexok_empty_tokens. assumption.
      * cbn [is_empty].
        apply (lexok_app (c :: t) (sep ++ d :: J) P (PartsP parts)); [assumption| | |].
        -- apply lexok_lead; assumption.
        -- intros rest _. rewrite <- app_assoc. apply ignorable_vrest; assumption.
        -- intros ts1 ts2 H1 H2. constructor; assumption.
Qed.

(* re-indentation through the layout helpers *)
Lemma reindent_empty pre s : is_empty (reindent pre s) = is_empty s.
Proof. destruct s as [|c s]; [reflexivity|]. rewrite reindent_cons. destruct (c =? PrinterModel.LF); reflexivity. Qed.

Lemma reindent_p_join pre l sep :
  reindent pre (p_join l sep) = p_join (map (reindent pre) l) (reindent pre sep).
Proof.
  induction l as [|x l IH]; [reflexivity|]. cbn [map]. rewrite !p_join_cons, reindent_empty.
  destruct (is_empty x); [assumption|]. rewrite <- IH, reindent_empty.
  destruct (is_empty (p_join l sep)); [reflexivity|]. rewrite !reindent_app. reflexivity.
Qed.

Lemma reindent_p_wrap pre a s b :
  reindent pre (p_wrap a s b) = p_wrap (reindent pre a) (reindent pre s) (reindent pre b).
Proof. unfold p_wrap. rewrite reindent_empty. destruct (is_empty s); [reflexivity|]. rewrite !reindent_app. reflexivity. Qed.

Definition LexP (text : str) (P : list ptok -> Prop) : Prop :=
  forall pre, all_ws pre -> LexOK (reindent pre text) P.

Lemma lexok_symbol_app c k t (P2 P : list ptok -> Prop) :
  symbol_kind c = Some k -> k <> KEOF -> LexOK t P2 ->
  (forall tok ts, tk tok = k -> P2 ts -> P (tok :: ts)) -> LexOK (c :: t) P.
Proof.
  intros Hs Hk H2 HP rest pos Hr.
  destruct (H2 rest (S pos) Hr) as (ts & pos' & HP2 & Hlen & Hlex).
  exists (PTok k [] pos (S pos) :: ts), pos'. split; [apply HP; [reflexivity|assumption]|].
  split; [simpl; lia|]. intros f. cbn [length plus app].
  rewrite (lex_symbol c k) by assumption. rewrite Hlex. reflexivity.
Qed.

Lemma parts_of_list {A B} (pr : A -> str) (Q : A -> list ptok -> Prop) (R : list ptok -> B -> Prop)
      (g : A -> B) l ts :
  (forall x ts, Q x ts -> R ts (g x)) ->
  PartsP (map (fun x => (pr x, Q x)) l) ts -> D_list R ts (map g l).
Proof.
  intros HQ. revert ts. induction l as [|x l IH]; intros ts H; simpl in *.
  - inversion H; subst. constructor.
  - inversion H; subst. constructor; [apply HQ; assumption|apply IH; assumption].
Qed.

Lemma lex_pjoin_list {A B} sep (pr : A -> str) (Q : A -> list ptok -> Prop)
      (R : list ptok -> B -> Prop) (g : A -> B) l :
  ignorable sep -> sep <> [] -> (forall x ts, Q x ts -> R ts (g x)) ->
  Forall (fun x => LexOK (pr x) (Q x)) l ->
  LexOK (p_join (map pr l) sep) (fun ts => D_list R ts (map g l)).
Proof.
  intros Hs Hne HQ HF.
  apply (lexok_weaken _ (PartsP (map (fun x => (pr x, Q x)) l))).
  - intros ts. apply parts_of_list. assumption.
  - replace (map pr l) with (map fst (map (fun x => (pr x, Q x)) l)) by (rewrite map_map; reflexivity).
    apply lex_pjoin; try assumption. apply Forall_forall. intros p Hp. apply in_map_iff in Hp.
    destruct Hp as (x & <- & Hx). rewrite Forall_forall in HF. apply (HF x Hx).
Qed.

Lemma ignorable_space : ignorable (lit " ").
Proof. repeat constructor. Qed.
Lemma ignorable_comma_space : ignorable (lit ", ").
Proof. repeat constructor. Qed.

(* ------------------------------------------------------------------ arguments and directives *)
Section ArgsDirs.
  Variable cf : cfg.
  Hypothesis Hind : all_ws (c_indent cf).
  Variable cst : bool.

  Definition wf_arg (a : argument) : Prop := valid_name (n_val (a_name a)) /\ wf_value cst (a_val a).
  Definition wf_dir (d : directive) : Prop :=
    valid_name (n_val (d_name d)) /\ Forall wf_arg (d_args d).

  Lemma arg_lexp a : wf_arg a ->
    pr_argument cf a <> [] /\ LexP (pr_argument cf a) (fun ts => D_argument true cst ts (strip_arg a)).
  Proof.
    intros [Hn Hv]. unfold pr_argument.
    destruct (PV_all cf Hind cst (a_val a) Hv) as [Hne HL]. split.
    - pose proof (valid_name_ne _ Hn). destruct (n_val (a_name a)); [contradiction|discriminate].
    - intros pre Hpre. rewrite !reindent_app. rewrite (reindent_id pre _ (name_no_lf _ Hn)).
      change (reindent pre (lit ": ")) with (lit ": ").
      apply (named_lexok _ _ (fun ts => D_value true cst ts (strip_value (a_val a)))).
      + exact Hn.
      + apply HL. exact Hpre.
      + intros t colon ts Hk Htv Hc HD.
        pose proof (DArg true cst t colon ts _ Hk Hc HD) as D. unfold name_node in D. rewrite Htv in D. exact D.
  Qed.

  Lemma p_wrap_nonempty a s b : s <> [] -> p_wrap a s b = a ++ s ++ b.
  Proof. unfold p_wrap. destruct s; [contradiction|reflexivity]. Qed.

  Lemma args_lexp args : Forall wf_arg args ->
    LexP (pr_arguments cf args) (fun ts => D_arguments true cst ts (map strip_arg args)).
  Proof.
    intros HF pre Hpre. unfold pr_arguments.
    destruct args as [|a0 args0] eqn:Ea.
    - simpl. apply lexok_nil. constructor.
    - rewrite <- Ea in *. assert (Hne : args <> []) by (rewrite Ea; discriminate). clear Ea a0 args0.
      assert (HA : Forall (fun a => pr_argument cf a <> [] /\
                     LexP (pr_argument cf a) (fun ts => D_argument true cst ts (strip_arg a))) args).
      { apply Forall_forall. intros a Ha. apply arg_lexp. rewrite Forall_forall in HF. auto. }
      rewrite p_join_nonempty.
      2: { intros x Hx. apply in_map_iff in Hx. destruct Hx as (a & <- & Ha).
           rewrite Forall_forall in HA. apply (HA a Ha). }
      rewrite p_wrap_nonempty.
      2: { apply join_ne_nonempty; [|destruct args; [contradiction|discriminate]].
           intros x Hx. apply in_map_iff in Hx. destruct Hx as (a & <- & Ha).
           rewrite Forall_forall in HA. apply (HA a Ha). }
      change (lit "(") with [40]. change (lit ")") with [41].
      rewrite !reindent_app. change (reindent pre [40]) with [40]. change (reindent pre [41]) with [41].
      rewrite reindent_join_ne by (intros x [<-|[<-|[]]]; discriminate). rewrite map_map.
      apply (lex_bracketed 40 41 KParenO KParenC _ _
               (fun ts => D_list (D_argument true cst) ts (map strip_arg args)));
        try reflexivity; try discriminate.
      + intros rest pos Hr.
        apply (lex_joined (fun a => reindent pre (pr_argument cf a))
                          (fun a ts => D_argument true cst ts (strip_arg a))
                          (fun l ts => D_list (D_argument true cst) ts (map strip_arg l))).
        * constructor.
        * intros x xs ts ts' Hx Hxs. cbn [map]. constructor; assumption.
        * apply Forall_forall. intros a Ha. rewrite Forall_forall in HA. apply (HA a Ha). assumption.
        * assumption.
      + intros to tc ts Ho Hc HD. apply (DArgs_some true cst to ts tc _ Ho Hc HD).
        destruct args; [contradiction|discriminate].
  Qed.

  Lemma args_head_ok args rest : vrest_ok rest -> vrest_ok (pr_arguments cf args ++ rest).
  Proof.
    intros Hr. unfold pr_arguments, p_wrap.
    destruct (is_empty (p_join (map (pr_argument cf) args) (lit ", "))); [assumption|].
    apply vrest_sym. left. discriminate.
  Qed.

  Lemma reindent_head_ok pre t rest : (forall r, vrest_ok r -> vrest_ok (t ++ r)) ->
    vrest_ok rest -> vrest_ok (reindent pre t ++ rest).
  Proof.
    intros H Hr. destruct t as [|c t']; [assumption|]. rewrite reindent_cons.
    specialize (H rest Hr). simpl in H. destruct (c =? PrinterModel.LF) eqn:E; [|simpl; assumption].
    simpl. repeat split; (reflexivity || discriminate).
  Qed.

  Lemma dir_lexp d : wf_dir d ->
    pr_directive cf d <> [] /\ LexP (pr_directive cf d) (fun ts => D_directive true cst ts (strip_dir d)).
  Proof.
    intros [Hn Ha]. unfold pr_directive. change (lit "@") with [64]. split; [discriminate|].
    intros pre Hpre. rewrite !reindent_app. change (reindent pre [64]) with [64].
    rewrite (reindent_id pre _ (name_no_lf _ Hn)). cbn [app].
    apply (lexok_symbol_app 64 KAt _
             (fun ts => exists n ats, ts = n :: ats /\ tk n = KName /\ tval n = n_val (d_name d)
                                      /\ D_arguments true cst ats (map strip_arg (d_args d))));
      [reflexivity|discriminate| |].
    - apply (lexok_app _ _ (fun ts => exists n, ts = [n] /\ tk n = KName /\ tval n = n_val (d_name d))
                          (fun ts => D_arguments true cst ts (map strip_arg (d_args d)))).
      + apply name_lexok; [assumption|]. intros t Hk Hv. exists t. auto.
      + apply args_lexp; assumption.
      + intros rest Hr. apply reindent_head_ok; [apply args_head_ok|assumption].
      + intros ts1 ts2 (n & -> & Hk & Hv) H2. exists n, ts2. auto.
    - intros tok ts Hk (n & ats & -> & Hkn & Hvn & HA).
      pose proof (DDir true cst tok n ats _ Hk Hkn HA) as D. unfold name_node in D. rewrite Hvn in D. exact D.
  Qed.

  Lemma dirs_lexp ds : Forall wf_dir ds ->
    LexP (pr_directives cf ds) (fun ts => D_directives true cst ts (map strip_dir ds)).
  Proof.
    intros HF pre Hpre. unfold pr_directives, D_directives. rewrite reindent_p_join, map_map.
    change (reindent pre (lit " ")) with (lit " ").
    apply (lex_pjoin_list (lit " ") (fun d => reindent pre (pr_directive cf d))
             (fun d ts => D_directive true cst ts (strip_dir d))).
    - apply ignorable_space.
    - discriminate.
    - auto.
    - apply Forall_forall. intros d Hd. rewrite Forall_forall in HF. apply (dir_lexp d (HF d Hd)). assumption.
  Qed.

  Lemma dirs_head_ok ds rest : vrest_ok rest -> vrest_ok (pr_directives cf ds ++ rest).
  Proof.
    intros Hr. unfold pr_directives. induction ds as [|d ds IH]; [assumption|].
    cbn [map]. rewrite p_join_cons.
    assert (E : is_empty (pr_directive cf d) = false) by reflexivity. rewrite E.
    destruct (is_empty (p_join (map (pr_directive cf) ds) (lit " "))); apply vrest_sym; left; discriminate.
  Qed.
End ArgsDirs.

(* ------------------------------------------------------------------ selections *)
Lemma p_join_nil_sep l : p_join l [] = concat l.
Proof.
  induction l as [|t l IH]; [reflexivity|]. rewrite p_join_cons, IH. simpl.
  destruct t as [|c t]; [reflexivity|]. cbn [is_empty].
  destruct (concat l) eqn:E; simpl; [rewrite app_nil_r; reflexivity|reflexivity].
Qed.

Lemma lex_ellipsis rest pos f :
  lex_from (S f) (46 :: 46 :: 46 :: rest) pos = LT (PTok KEllip [] pos (pos + 3)) :: lex_from f rest (pos + 3).
Proof. reflexivity. Qed.

Lemma lexok_ellipsis_app t (P2 P : list ptok -> Prop) :
  LexOK t P2 -> (forall tok ts, tk tok = KEllip -> P2 ts -> P (tok :: ts)) -> LexOK (lit "..." ++ t) P.
Proof.
  intros H2 HP rest pos Hr.
  destruct (H2 rest (pos + 3)%nat Hr) as (ts & pos' & HP2 & Hlen & Hlex).
  exists (PTok KEllip [] pos (pos + 3) :: ts), pos'. split; [apply HP; [reflexivity|assumption]|].
  split; [simpl; lia|]. intros f. cbn [length plus].
  change ((lit "..." ++ t) ++ rest) with (46 :: 46 :: 46 :: t ++ rest).
  rewrite lex_ellipsis, Hlex. reflexivity.
Qed.

Lemma D_list_selections ts ss : D_list (D_selection true) ts ss -> D_selections true ts ss.
Proof. induction 1; constructor; assumption. Qed.

Lemma valid_name_on : valid_name (lit "on").
Proof. exists 111, (lit "n"). repeat split; repeat constructor. Qed.

Section Selections.
  Variable cf : cfg.
  Hypothesis Hind : all_ws (c_indent cf).
  Let ind := c_indent cf.

  Definition wf_tc (tc : option ty) : Prop :=
    match tc with
    | None => True
    | Some (TNamed n _) => valid_name (n_val n)
    | Some _ => False
    end.

  Fixpoint wf_sel (s : selection) : Prop :=
    let all := fix all (l : list selection) : Prop :=
                 match l with [] => True | x :: l' => wf_sel x /\ all l' end in
    match s with
    | SField al n args dirs sl sub _ =>
        match al with Some a => valid_name (n_val a) | None => True end /\ valid_name (n_val n)
        /\ Forall (wf_arg false) args /\ Forall (wf_dir false) dirs
        /\ match sl with Some _ => sub <> [] | None => sub = [] end /\ all sub
    | SSpread n dirs _ =>
        valid_name (n_val n) /\ n_val n <> str_of_string "on" /\ Forall (wf_dir false) dirs
    | SInline tc dirs _ sub _ =>
        wf_tc tc /\ Forall (wf_dir false) dirs /\ sub <> [] /\ all sub
    end.

  Definition PS (s : selection) : Prop :=
    wf_sel s ->
    pr_selection cf s <> [] /\
    LexP (pr_selection cf s) (fun ts => D_selection true ts (strip_sel s)).

  (* { items } given the items *)
  Lemma selset_lexp sub : sub <> [] -> Forall PS sub -> Forall wf_sel sub ->
    LexP (pr_selection_set cf sub)
         (fun ts => exists o body cl, ts = o :: body ++ [cl] /\ tk o = KCurlyO /\ tk cl = KCurlyC
                                      /\ D_selections true body (map strip_sel sub)).
  Proof.
    intros Hne HPS Hwf pre Hpre. unfold pr_selection_set, p_block.
    destruct (map (pr_selection cf) sub) as [|x0 l0] eqn:Em; [destruct sub; [contradiction|discriminate]|].
    rewrite <- Em. clear Em.
    change (lit "{") with [123]. change (lit "}") with [125].
    rewrite !reindent_app. change (reindent pre [123]) with [123]. change (reindent pre [125]) with [125].
    change (reindent pre [PrinterModel.LF]) with ((10 :: pre) ++ []). rewrite app_nil_r.
    rewrite reindent_p_join, !map_map. change (reindent pre [PrinterModel.LF]) with ((10 :: pre) ++ []).
    rewrite app_nil_r.
    assert (Hsep : ignorable (10 :: pre)) by (constructor; [reflexivity|apply ws_ignorable; assumption]).
    assert (Hitems : Forall (fun s => LexOK (reindent pre (p_indent (pr_selection cf s) (c_indent cf)))
                                            (fun ts => D_selection true ts (strip_sel s))) sub).
    { apply Forall_forall. intros s Hs. rewrite Forall_forall in HPS, Hwf.
      destruct (HPS s Hs (Hwf s Hs)) as [Hn HL]. unfold p_indent.
      destruct (is_empty (pr_selection cf s)) eqn:Ee;
        [destruct (pr_selection cf s); [contradiction|discriminate]|].
      rewrite reindent_app, (reindent_ws pre _ Hind), reindent_reindent by assumption.
      apply lexok_lead; [apply ws_ignorable; assumption|].
      apply HL. apply all_ws_app; assumption. }
    set (sep := 10 :: pre) in *.
    set (J := p_join (map (fun x => reindent pre (p_indent (pr_selection cf x) (c_indent cf))) sub) sep).
    change ([123] ++ sep ++ J ++ sep ++ [125]) with (123 :: (sep ++ J ++ sep ++ [125])).
    apply (lexok_symbol_app 123 KCurlyO _
             (fun ts => exists body cl, ts = body ++ [cl] /\ tk cl = KCurlyC
                                        /\ D_selections true body (map strip_sel sub)));
      [reflexivity|discriminate| |].
    - replace (sep ++ J ++ sep ++ [125]) with (((sep ++ J) ++ sep) ++ [125])
        by (rewrite <- !app_assoc; reflexivity).
      apply (lexok_app ((sep ++ J) ++ sep) [125] (fun ts => D_selections true ts (map strip_sel sub))
                       (fun ts => exists cl, ts = [cl] /\ tk cl = KCurlyC)).
      + apply lexok_trail; [assumption|]. apply lexok_lead; [assumption|].
        apply (lexok_weaken _ (fun ts => D_list (D_selection true) ts (map strip_sel sub)));
          [intros ts0; apply D_list_selections|].
        apply (lex_pjoin_list sep
                 (fun s => reindent pre (p_indent (pr_selection cf s) (c_indent cf)))
                 (fun s ts => D_selection true ts (strip_sel s))); try assumption; [discriminate|auto].
      + apply (lexok_symbol 125 KCurlyC); [reflexivity|discriminate|]. intros t Hk. exists t. auto.
      + intros rest _. apply vrest_sym. left. discriminate.
      + intros ts1 ts2 H1 (cl & -> & Hk). exists ts1, cl. auto.
    - intros tok ts Hk (body & cl & -> & Hcl & HD). exists tok, body, cl. auto.
  Qed.
End Selections.
