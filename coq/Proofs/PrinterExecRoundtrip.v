(* C03 -- the composed round trip for executable documents through the parser
   model of Lang/Parser.v:  parse_document (print_ast ind true d) = strip_doc d. *)
From PyGql Require Import Lang.Parser Spec.LexSpec Spec.GrammarSpec Spec.DocGrammarSpec Proofs.LexProofs
                          Proofs.EntryProofs Proofs.DocEntryProofs.
From PyGql Require Import Lang.PrinterModel Spec.PrinterSpec Proofs.PrinterProofs Proofs.PrinterRoundtrip
                          Proofs.PrinterValueRoundtrip.
From Coq Require Import Lia.
Local Open Scope N_scope.

(* ------------------------------------------------------------------ generic pieces *)
Lemma lexok_nil (P : list ptok -> Prop) : P [] -> LexOK [] P.
Proof. intros HP rest pos _. exists [], pos. split; [assumption|]. split; [simpl; lia|]. intros f. reflexivity. Qed.

Lemma lexok_weaken text (P Q : list ptok -> Prop) : (forall ts, P ts -> Q ts) -> LexOK text P -> LexOK text Q.
Proof.
  intros H HL rest pos Hr. destruct (HL rest pos Hr) as (ts & pos' & HP & Hlen & Hlex).
  exists ts, pos'. auto.
Qed.

Lemma lexok_empty_tokens (P : list ptok -> Prop) : LexOK [] P -> P [].
Proof.
  intros H. destruct (H [] 0%nat I) as (ts & pos' & HP & Hlen & _).
  destruct ts; [assumption|simpl in Hlen; lia].
Qed.

(* adjacent texts *)
Lemma lexok_app t1 t2 (P1 P2 P : list ptok -> Prop) :
  LexOK t1 P1 -> LexOK t2 P2 -> (forall rest, vrest_ok rest -> vrest_ok (t2 ++ rest)) ->
  (forall ts1 ts2, P1 ts1 -> P2 ts2 -> P (ts1 ++ ts2)) -> LexOK (t1 ++ t2) P.
Proof.
  intros H1 H2 Hv HP rest pos Hr.
  destruct (H1 (t2 ++ rest) pos (Hv rest Hr)) as (ts1 & pos1 & HP1 & Hlen1 & Hlex1).
  destruct (H2 rest pos1 Hr) as (ts2 & pos2 & HP2 & Hlen2 & Hlex2).
  exists (ts1 ++ ts2), pos2. split; [apply HP; assumption|].
  split; [rewrite !app_length; lia|].
  intros f. rewrite app_length, <- Nat.add_assoc, <- app_assoc, Hlex1, Hlex2, map_app, <- app_assoc. reflexivity.
Qed.

(* one symbol *)
Lemma lexok_symbol c k (P : list ptok -> Prop) :
  symbol_kind c = Some k -> k <> KEOF -> (forall t, tk t = k -> P [t]) -> LexOK [c] P.
Proof.
  intros Hs Hk HP. apply lexok_single; [discriminate|].
  intros rest pos _. exists (PTok k [] pos (S pos)), (S pos). split; [apply HP; reflexivity|].
  intros f. apply lex_symbol; assumption.
Qed.

(* ignored characters (white space, commas, line feeds) between tokens *)
Definition ignorable (sep : str) : Prop := Forall (fun c => is_ignored c = true) sep.

Lemma lex_skip_ignored sep : ignorable sep ->
  forall fuel X pos, lex_from fuel (sep ++ X) pos = lex_from fuel X (pos + length sep).
Proof.
  induction 1 as [|c sep Hc _ IH]; intros fuel X pos; [simpl; f_equal; lia|].
  simpl app. transitivity (lex_from fuel (sep ++ X) (S pos)).
  - destruct fuel; [reflexivity|]. cbn [lex_from skip_ws andb]. rewrite Hc. reflexivity.
  - rewrite IH. f_equal. simpl. lia.
Qed.

Lemma ignored_vrest c rest : is_ignored c = true -> vrest_ok (c :: rest).
Proof.
  unfold is_ignored. intros H. simpl.
  repeat (apply orb_prop in H; destruct H as [H|H]); apply N.eqb_eq in H; subst;
    repeat split; (reflexivity || discriminate).
Qed.

Lemma ignorable_vrest sep rest : ignorable sep -> sep <> [] -> vrest_ok (sep ++ rest).
Proof. intros H Hne. destruct H; [contradiction|]. apply ignored_vrest. assumption. Qed.

Lemma ws_ignorable pre : all_ws pre -> ignorable pre.
Proof.
  induction pre as [|c pre IH]; intros H; [constructor|].
  apply all_ws_cons in H. destruct H as [Hc Hp]. constructor; [|apply IH; assumption].
  unfold PrinterSpec.is_ws in Hc. unfold is_ignored. apply orb_prop in Hc.
  destruct Hc as [Hc|Hc]; apply N.eqb_eq in Hc; subst; reflexivity.
Qed.

(* a leading run of ignored characters *)
Lemma lexok_lead sep t (P : list ptok -> Prop) : ignorable sep -> LexOK t P -> LexOK (sep ++ t) P.
Proof.
  intros Hs H rest pos Hr. destruct (H rest (pos + length sep)%nat Hr) as (ts & pos' & HP & Hlen & Hlex).
  exists ts, pos'. split; [assumption|]. split; [rewrite app_length; lia|].
  intros f. rewrite <- app_assoc. rewrite lex_skip_ignored by assumption. apply Hlex.
Qed.

Lemma lexok_trail sep t (P : list ptok -> Prop) : ignorable sep -> LexOK t P -> LexOK (t ++ sep) P.
Proof.
  intros Hs H rest pos Hr.
  destruct sep as [|c sep'] eqn:Es; [rewrite app_nil_r; apply H; assumption|].
  destruct (H ((c :: sep') ++ rest) pos) as (ts & pos' & HP & Hlen & Hlex);
    [apply ignorable_vrest; [assumption|discriminate]|].
  exists ts, (pos' + length (c :: sep'))%nat. split; [assumption|]. split; [rewrite app_length; lia|].
  intros f. rewrite <- app_assoc, Hlex. rewrite lex_skip_ignored by assumption. reflexivity.
Qed.

(* p_join of heterogeneous parts *)
Definition part := (str * (list ptok -> Prop))%type.

Inductive PartsP : list part -> list ptok -> Prop :=
| PP_nil : PartsP [] []
| PP_cons t (P : list ptok -> Prop) ts rest tss :
    P ts -> PartsP rest tss -> PartsP ((t, P) :: rest) (ts ++ tss).

Lemma join_ne_nonempty l sep : (forall x, In x l -> x <> []) -> l <> [] -> join_ne l sep <> [].
Proof.
  destruct l as [|x l]; [contradiction|]. intros H _.
  pose proof (H x (or_introl eq_refl)) as Hx. destruct l; simpl; destruct x; try contradiction; discriminate.
Qed.

Lemma filter_nonempty_spec (l : list str) x :
  In x (filter (fun s => negb (is_empty s)) l) -> x <> [].
Proof. intros H. apply filter_In in H. destruct H as [_ H]. destruct x; [discriminate|discriminate]. Qed.

Lemma p_join_cons t l sep :
  p_join (t :: l) sep =
  if is_empty t then p_join l sep
  else if is_empty (p_join l sep) then t else t ++ sep ++ p_join l sep.
Proof.
  unfold p_join. simpl. destruct t as [|c t]; [reflexivity|]. simpl.
  destruct (filter (fun x => negb (is_empty x)) l) as [|y fl] eqn:E; [reflexivity|].
  assert (Hne : join_ne (y :: fl) sep <> []).
  { apply join_ne_nonempty; [|discriminate]. intros x Hx. apply (filter_nonempty_spec l). rewrite E. assumption. }
  destruct (join_ne (y :: fl) sep) eqn:EJ; [contradiction|]. reflexivity.
Qed.

Lemma lex_pjoin sep (parts : list part) :
  ignorable sep -> sep <> [] ->
  Forall (fun p => LexOK (fst p) (snd p)) parts ->
  LexOK (p_join (map fst parts) sep) (PartsP parts).
Proof.
  intros Hs Hne. induction parts as [|[t P] parts IH]; intros HF.
  - apply lexok_nil. constructor.
  - inversion HF as [|? ? Ht Hrest]; subst. specialize (IH Hrest). cbn [map fst snd] in *.
    rewrite p_join_cons. destruct t as [|c t].
    + simpl. apply (lexok_weaken _ (PartsP parts)); [|assumption].
      intros ts Hts. change ts with ([] ++ ts). constructor; [apply lexok_empty_tokens; assumption|assumption].
    + cbn [is_empty]. destruct (p_join (map fst parts) sep) as [|d J] eqn:EJ.
      * cbn [is_empty]. apply (lexok_weaken _ P); [|assumption].
        intros ts Hts. rewrite <- (app_nil_r ts). constructor; [assumption|].
        apply lexok_empty_tokens. assumption.
      * cbn [is_empty].
        apply (lexok_app (c :: t) (sep ++ d :: J) P (PartsP parts)); [assumption| | |].
        -- apply lexok_lead; assumption.
        -- intros rest _. rewrite <- app_assoc. apply ignorable_vrest; assumption.
        -- intros ts1 ts2 H1 H2. constructor; assumption.
Qed.

(* re-indentation through the layout helpers *)
Lemma reindent_empty pre s : is_empty (reindent pre s) = is_empty s.
Proof. destruct s as [|c s]; [reflexivity|]. rewrite reindent_cons. destruct (c =? PrinterModel.LF); reflexivity. Qed.

Lemma reindent_p_join pre l sep :
  reindent pre (p_join l sep) = p_join (map (reindent pre) l) (reindent pre sep).
Proof.
  induction l as [|x l IH]; [reflexivity|]. cbn [map]. rewrite !p_join_cons, reindent_empty.
  destruct (is_empty x); [assumption|]. rewrite <- IH, reindent_empty.
  destruct (is_empty (p_join l sep)); [reflexivity|]. rewrite !reindent_app. reflexivity.
Qed.

Lemma reindent_p_wrap pre a s b :
  reindent pre (p_wrap a s b) = p_wrap (reindent pre a) (reindent pre s) (reindent pre b).
Proof. unfold p_wrap. rewrite reindent_empty. destruct (is_empty s); [reflexivity|]. rewrite !reindent_app. reflexivity. Qed.

Definition LexP (text : str) (P : list ptok -> Prop) : Prop :=
  forall pre, all_ws pre -> LexOK (reindent pre text) P.

Lemma lexok_symbol_app c k t (P2 P : list ptok -> Prop) :
  symbol_kind c = Some k -> k <> KEOF -> LexOK t P2 ->
  (forall tok ts, tk tok = k -> P2 ts -> P (tok :: ts)) -> LexOK (c :: t) P.
Proof.
  intros Hs Hk H2 HP rest pos Hr.
  destruct (H2 rest (S pos) Hr) as (ts & pos' & HP2 & Hlen & Hlex).
  exists (PTok k [] pos (S pos) :: ts), pos'. split; [apply HP; [reflexivity|assumption]|].
  split; [simpl; lia|]. intros f. cbn [length plus app].
  rewrite (lex_symbol c k) by assumption. rewrite Hlex. reflexivity.
Qed.

Lemma parts_of_list {A B} (pr : A -> str) (Q : A -> list ptok -> Prop) (R : list ptok -> B -> Prop)
      (g : A -> B) l ts :
  (forall x ts, Q x ts -> R ts (g x)) ->
  PartsP (map (fun x => (pr x, Q x)) l) ts -> D_list R ts (map g l).
Proof.
  intros HQ. revert ts. induction l as [|x l IH]; intros ts H; simpl in *.
  - inversion H; subst. constructor.
  - inversion H; subst. constructor; [apply HQ; assumption|apply IH; assumption].
Qed.

Lemma lex_pjoin_list {A B} sep (pr : A -> str) (Q : A -> list ptok -> Prop)
      (R : list ptok -> B -> Prop) (g : A -> B) l :
  ignorable sep -> sep <> [] -> (forall x ts, Q x ts -> R ts (g x)) ->
  Forall (fun x => LexOK (pr x) (Q x)) l ->
  LexOK (p_join (map pr l) sep) (fun ts => D_list R ts (map g l)).
Proof.
  intros Hs Hne HQ HF.
  apply (lexok_weaken _ (PartsP (map (fun x => (pr x, Q x)) l))).
  - intros ts. apply parts_of_list. assumption.
  - replace (map pr l) with (map fst (map (fun x => (pr x, Q x)) l)) by (rewrite map_map; reflexivity).
    apply lex_pjoin; try assumption. apply Forall_forall. intros p Hp. apply in_map_iff in Hp.
    destruct Hp as (x & <- & Hx). rewrite Forall_forall in HF. apply (HF x Hx).
Qed.

Lemma ignorable_space : ignorable (lit " ").
Proof. repeat constructor. Qed.
Lemma ignorable_comma_space : ignorable (lit ", ").
Proof. repeat constructor. Qed.

(* ------------------------------------------------------------------ arguments and directives *)
Section ArgsDirs.
  Variable cf : cfg.
  Hypothesis Hind : all_ws (c_indent cf).
  Variable cst : bool.

  Definition wf_arg (a : argument) : Prop := valid_name (n_val (a_name a)) /\ wf_value cst (a_val a).
  Definition wf_dir (d : directive) : Prop :=
    valid_name (n_val (d_name d)) /\ Forall wf_arg (d_args d).

  Lemma arg_lexp a : wf_arg a ->
    pr_argument cf a <> [] /\ LexP (pr_argument cf a) (fun ts => D_argument true cst ts (strip_arg a)).
  Proof.
    intros [Hn Hv]. unfold pr_argument.
    destruct (PV_all cf Hind cst (a_val a) Hv) as [Hne HL]. split.
    - pose proof (valid_name_ne _ Hn). destruct (n_val (a_name a)); [contradiction|discriminate].
    - intros pre Hpre. rewrite !reindent_app. rewrite (reindent_id pre _ (name_no_lf _ Hn)).
      change (reindent pre (lit ": ")) with (lit ": ").
      apply (named_lexok _ _ (fun ts => D_value true cst ts (strip_value (a_val a)))).
      + exact Hn.
      + apply HL. exact Hpre.
      + intros t colon ts Hk Htv Hc HD.
        pose proof (DArg true cst t colon ts _ Hk Hc HD) as D. unfold name_node in D. rewrite Htv in D. exact D.
  Qed.

  Lemma p_wrap_nonempty a s b : s <> [] -> p_wrap a s b = a ++ s ++ b.
  Proof. unfold p_wrap. destruct s; [contradiction|reflexivity]. Qed.

  Lemma args_lexp args : Forall wf_arg args ->
    LexP (pr_arguments cf args) (fun ts => D_arguments true cst ts (map strip_arg args)).
  Proof.
    intros HF pre Hpre. unfold pr_arguments.
    destruct args as [|a0 args0] eqn:Ea.
    - simpl. apply lexok_nil. constructor.
    - rewrite <- Ea in *. assert (Hne : args <> []) by (rewrite Ea; discriminate). clear Ea a0 args0.
      assert (HA : Forall (fun a => pr_argument cf a <> [] /\
                     LexP (pr_argument cf a) (fun ts => D_argument true cst ts (strip_arg a))) args).
      { apply Forall_forall. intros a Ha. apply arg_lexp. rewrite Forall_forall in HF. auto. }
      rewrite p_join_nonempty.
      2: { intros x Hx. apply in_map_iff in Hx. destruct Hx as (a & <- & Ha).
           rewrite Forall_forall in HA. apply (HA a Ha). }
      rewrite p_wrap_nonempty.
      2: { apply join_ne_nonempty; [|destruct args; [contradiction|discriminate]].
           intros x Hx. apply in_map_iff in Hx. destruct Hx as (a & <- & Ha).
           rewrite Forall_forall in HA. apply (HA a Ha). }
      change (lit "(") with [40]. change (lit ")") with [41].
      rewrite !reindent_app. change (reindent pre [40]) with [40]. change (reindent pre [41]) with [41].
      rewrite reindent_join_ne by (intros x [<-|[<-|[]]]; discriminate). rewrite map_map.
      apply (lex_bracketed 40 41 KParenO KParenC _ _
               (fun ts => D_list (D_argument true cst) ts (map strip_arg args)));
        try reflexivity; try discriminate.
      + intros rest pos Hr.
        apply (lex_joined (fun a => reindent pre (pr_argument cf a))
                          (fun a ts => D_argument true cst ts (strip_arg a))
                          (fun l ts => D_list (D_argument true cst) ts (map strip_arg l))).
        * constructor.
        * intros x xs ts ts' Hx Hxs. cbn [map]. constructor; assumption.
        * apply Forall_forall. intros a Ha. rewrite Forall_forall in HA. apply (HA a Ha). assumption.
        * assumption.
      + intros to tc ts Ho Hc HD. apply (DArgs_some true cst to ts tc _ Ho Hc HD).
        destruct args; [contradiction|discriminate].
  Qed.

  Lemma args_head_ok args rest : vrest_ok rest -> vrest_ok (pr_arguments cf args ++ rest).
  Proof.
    intros Hr. unfold pr_arguments, p_wrap.
    destruct (is_empty (p_join (map (pr_argument cf) args) (lit ", "))); [assumption|].
    apply vrest_sym. left. discriminate.
  Qed.

  Lemma reindent_head_ok pre t rest : (forall r, vrest_ok r -> vrest_ok (t ++ r)) ->
    vrest_ok rest -> vrest_ok (reindent pre t ++ rest).
  Proof.
    intros H Hr. destruct t as [|c t']; [assumption|]. rewrite reindent_cons.
    specialize (H rest Hr). simpl in H. destruct (c =? PrinterModel.LF) eqn:E; [|simpl; assumption].
    simpl. repeat split; (reflexivity || discriminate).
  Qed.

  Lemma dir_lexp d : wf_dir d ->
    pr_directive cf d <> [] /\ LexP (pr_directive cf d) (fun ts => D_directive true cst ts (strip_dir d)).
  Proof.
    intros [Hn Ha]. unfold pr_directive. change (lit "@") with [64]. split; [discriminate|].
    intros pre Hpre. rewrite !reindent_app. change (reindent pre [64]) with [64].
    rewrite (reindent_id pre _ (name_no_lf _ Hn)). cbn [app].
    apply (lexok_symbol_app 64 KAt _
             (fun ts => exists n ats, ts = n :: ats /\ tk n = KName /\ tval n = n_val (d_name d)
                                      /\ D_arguments true cst ats (map strip_arg (d_args d))));
      [reflexivity|discriminate| |].
    - apply (lexok_app _ _ (fun ts => exists n, ts = [n] /\ tk n = KName /\ tval n = n_val (d_name d))
                          (fun ts => D_arguments true cst ts (map strip_arg (d_args d)))).
      + apply name_lexok; [assumption|]. intros t Hk Hv. exists t. auto.
      + apply args_lexp; assumption.
      + intros rest Hr. apply reindent_head_ok; [apply args_head_ok|assumption].
      + intros ts1 ts2 (n & -> & Hk & Hv) H2. exists n, ts2. auto.
    - intros tok ts Hk (n & ats & -> & Hkn & Hvn & HA).
      pose proof (DDir true cst tok n ats _ Hk Hkn HA) as D. unfold name_node in D. rewrite Hvn in D. exact D.
  Qed.

  Lemma dirs_lexp ds : Forall wf_dir ds ->
    LexP (pr_directives cf ds) (fun ts => D_directives true cst ts (map strip_dir ds)).
  Proof.
    intros HF pre Hpre. unfold pr_directives, D_directives. rewrite reindent_p_join, map_map.
    change (reindent pre (lit " ")) with (lit " ").
    apply (lex_pjoin_list (lit " ") (fun d => reindent pre (pr_directive cf d))
             (fun d ts => D_directive true cst ts (strip_dir d))).
    - apply ignorable_space.
    - discriminate.
    - auto.
    - apply Forall_forall. intros d Hd. rewrite Forall_forall in HF. apply (dir_lexp d (HF d Hd)). assumption.
  Qed.

  Lemma dirs_head_ok ds rest : vrest_ok rest -> vrest_ok (pr_directives cf ds ++ rest).
  Proof.
    intros Hr. unfold pr_directives. induction ds as [|d ds IH]; [assumption|].
    cbn [map]. rewrite p_join_cons.
    assert (E : is_empty (pr_directive cf d) = false) by reflexivity. rewrite E.
    destruct (is_empty (p_join (map (pr_directive cf) ds) (lit " "))); apply vrest_sym; left; discriminate.
  Qed.
End ArgsDirs.

(* ------------------------------------------------------------------ selections *)
Lemma p_join_nil_sep l : p_join l [] = concat l.
Proof.
  induction l as [|t l IH]; [reflexivity|]. rewrite p_join_cons, IH. simpl.
  destruct t as [|c t]; [reflexivity|]. cbn [is_empty].
  destruct (concat l) eqn:E; simpl; [rewrite app_nil_r; reflexivity|reflexivity].
Qed.

Lemma lex_ellipsis rest pos f :
  lex_from (S f) (46 :: 46 :: 46 :: rest) pos = LT (PTok KEllip [] pos (pos + 3)) :: lex_from f rest (pos + 3).
Proof. reflexivity. Qed.

Lemma lexok_ellipsis_app t (P2 P : list ptok -> Prop) :
  LexOK t P2 -> (forall tok ts, tk tok = KEllip -> P2 ts -> P (tok :: ts)) -> LexOK (lit "..." ++ t) P.
Proof.
  intros H2 HP rest pos Hr.
  destruct (H2 rest (pos + 3)%nat Hr) as (ts & pos' & HP2 & Hlen & Hlex).
  exists (PTok KEllip [] pos (pos + 3) :: ts), pos'. split; [apply HP; [reflexivity|assumption]|].
  split; [simpl; lia|]. intros f. cbn [length plus].
  change ((lit "..." ++ t) ++ rest) with (46 :: 46 :: 46 :: t ++ rest).
  rewrite lex_ellipsis, Hlex. reflexivity.
Qed.

Lemma D_list_selections ts ss : D_list (D_selection true) ts ss -> D_selections true ts ss.
Proof. induction 1; constructor; assumption. Qed.

Lemma valid_name_on : valid_name (lit "on").
Proof. exists 111, (lit "n"). repeat split; repeat constructor. Qed.

Section Selections.
  Variable cf : cfg.
  Hypothesis Hind : all_ws (c_indent cf).
  Let ind := c_indent cf.

  Definition wf_tc (tc : option ty) : Prop :=
    match tc with
    | None => True
    | Some (TNamed n _) => valid_name (n_val n)
    | Some _ => False
    end.

  Fixpoint wf_sel (s : selection) : Prop :=
    let all := fix all (l : list selection) : Prop :=
                 match l with [] => True | x :: l' => wf_sel x /\ all l' end in
    match s with
    | SField al n args dirs sl sub _ =>
        match al with Some a => valid_name (n_val a) | None => True end /\ valid_name (n_val n)
        /\ Forall (wf_arg false) args /\ Forall (wf_dir false) dirs
        /\ match sl with Some _ => sub <> [] | None => sub = [] end /\ all sub
    | SSpread n dirs _ =>
        valid_name (n_val n) /\ n_val n <> str_of_string "on" /\ Forall (wf_dir false) dirs
    | SInline tc dirs _ sub _ =>
        wf_tc tc /\ Forall (wf_dir false) dirs /\ sub <> [] /\ all sub
    end.

  Definition PS (s : selection) : Prop :=
    wf_sel s ->
    pr_selection cf s <> [] /\
    LexP (pr_selection cf s) (fun ts => D_selection true ts (strip_sel s)).

  (* { items } given the items *)
  Lemma selset_lexp sub : sub <> [] -> Forall PS sub -> Forall wf_sel sub ->
    LexP (pr_selection_set cf sub)
         (fun ts => exists o body cl, ts = o :: body ++ [cl] /\ tk o = KCurlyO /\ tk cl = KCurlyC
                                      /\ D_selections true body (map strip_sel sub)).
  Proof.
    intros Hne HPS Hwf pre Hpre. unfold pr_selection_set, p_block.
    destruct (map (pr_selection cf) sub) as [|x0 l0] eqn:Em; [destruct sub; [contradiction|discriminate]|].
    rewrite <- Em. clear Em.
    change (lit "{") with [123]. change (lit "}") with [125].
    rewrite !reindent_app. change (reindent pre [123]) with [123]. change (reindent pre [125]) with [125].
    change (reindent pre [PrinterModel.LF]) with ((10 :: pre) ++ []). rewrite app_nil_r.
    rewrite reindent_p_join, !map_map. change (reindent pre [PrinterModel.LF]) with ((10 :: pre) ++ []).
    rewrite app_nil_r.
    assert (Hsep : ignorable (10 :: pre)) by (constructor; [reflexivity|apply ws_ignorable; assumption]).
    assert (Hitems : Forall (fun s => LexOK (reindent pre (p_indent (pr_selection cf s) (c_indent cf)))
                                            (fun ts => D_selection true ts (strip_sel s))) sub).
    { apply Forall_forall. intros s Hs. rewrite Forall_forall in HPS, Hwf.
      destruct (HPS s Hs (Hwf s Hs)) as [Hn HL]. unfold p_indent.
      destruct (is_empty (pr_selection cf s)) eqn:Ee;
        [destruct (pr_selection cf s); [contradiction|discriminate]|].
      rewrite reindent_app, (reindent_ws pre _ Hind), reindent_reindent by assumption.
      apply lexok_lead; [apply ws_ignorable; assumption|].
      apply HL. apply all_ws_app; assumption. }
    set (sep := 10 :: pre) in *.
    set (J := p_join (map (fun x => reindent pre (p_indent (pr_selection cf x) (c_indent cf))) sub) sep).
    change ([123] ++ sep ++ J ++ sep ++ [125]) with (123 :: (sep ++ J ++ sep ++ [125])).
    apply (lexok_symbol_app 123 KCurlyO _
             (fun ts => exists body cl, ts = body ++ [cl] /\ tk cl = KCurlyC
                                        /\ D_selections true body (map strip_sel sub)));
      [reflexivity|discriminate| |].
    - replace (sep ++ J ++ sep ++ [125]) with (((sep ++ J) ++ sep) ++ [125])
        by (rewrite <- !app_assoc; reflexivity).
      apply (lexok_app ((sep ++ J) ++ sep) [125] (fun ts => D_selections true ts (map strip_sel sub))
                       (fun ts => exists cl, ts = [cl] /\ tk cl = KCurlyC)).
      + apply lexok_trail; [assumption|]. apply lexok_lead; [assumption|].
        apply (lexok_weaken _ (fun ts => D_list (D_selection true) ts (map strip_sel sub)));
          [intros ts0; apply D_list_selections|].
        apply (lex_pjoin_list sep
                 (fun s => reindent pre (p_indent (pr_selection cf s) (c_indent cf)))
                 (fun s ts => D_selection true ts (strip_sel s))); try assumption; [discriminate|auto].
      + apply (lexok_symbol 125 KCurlyC); [reflexivity|discriminate|]. intros t Hk. exists t. auto.
      + intros rest _. apply vrest_sym. left. discriminate.
      + intros ts1 ts2 H1 (cl & -> & Hk). exists ts1, cl. auto.
    - intros tok ts Hk (body & cl & -> & Hcl & HD). exists tok, body, cl. auto.
  Qed.

  Lemma name_then nn X (PX : list ptok -> Prop) :
    valid_name nn -> LexOK X PX -> (forall rest, vrest_ok rest -> vrest_ok (X ++ rest)) ->
    LexOK (nn ++ X) (fun ts => exists n xs, ts = n :: xs /\ tk n = KName /\ tval n = nn /\ PX xs).
  Proof.
    intros Hn HX Hv.
    apply (lexok_app nn X (fun ts => exists n, ts = [n] /\ tk n = KName /\ tval n = nn) PX);
      [|assumption|assumption|].
    - apply name_lexok; [assumption|]. intros t Hk Ht. exists t. auto.
    - intros ts1 ts2 (n & -> & Hk & Ht) H2. exists n, ts2. auto.
  Qed.

  Lemma wf_sub_forall sub :
    (fix all (l : list selection) : Prop :=
       match l with [] => True | x :: l' => wf_sel x /\ all l' end) sub -> Forall wf_sel sub.
  Proof. induction sub as [|x sub IH]; intros H; constructor; [tauto|apply IH; tauto]. Qed.

  Definition Qlead (al : option name) (nm : name) (args : list argument) (ts : list ptok) : Prop :=
    exists ats n argts, ts = ats ++ n :: argts /\ D_alias true ats (option_map strip_name al)
      /\ tk n = KName /\ tval n = n_val nm /\ D_arguments true false argts (map strip_arg args).

  Lemma lead_lexok al nm args pre :
    match al with Some a => valid_name (n_val a) | None => True end -> valid_name (n_val nm) ->
    Forall (wf_arg false) args -> all_ws pre ->
    LexOK (reindent pre
             (p_join [match al with
                      | Some a => p_join [p_wrap [] (n_val a) (lit ": "); n_val nm] []
                      | None => n_val nm
                      end; pr_arguments cf args] []))
          (Qlead al nm args).
  Proof.
    intros Hal Hn Hargs Hpre.
    pose proof (args_lexp cf Hind false args Hargs pre Hpre) as HA.
    assert (HAv : forall rest, vrest_ok rest -> vrest_ok (reindent pre (pr_arguments cf args) ++ rest)).
    { intros rest Hr. apply reindent_head_ok; [apply args_head_ok|assumption]. }
    rewrite p_join_nil_sep. cbn [concat]. rewrite app_nil_r, reindent_app.
    destruct al as [a|].
    - rewrite p_join_nil_sep. cbn [concat]. rewrite app_nil_r.
      rewrite p_wrap_nonempty by (apply valid_name_ne; assumption). cbn [app].
      rewrite !reindent_app, (reindent_id pre _ (name_no_lf _ Hal)), (reindent_id pre _ (name_no_lf _ Hn)).
      change (reindent pre (lit ": ")) with (lit ": "). rewrite <- !app_assoc.
      apply (named_lexok (n_val a) (n_val nm ++ reindent pre (pr_arguments cf args))
               (fun ts => exists n xs, ts = n :: xs /\ tk n = KName /\ tval n = n_val nm
                                       /\ D_arguments true false xs (map strip_arg args))).
      + assumption.
      + apply name_then; assumption.
      + intros t colon ts Hk Ht Hc (n & xs & -> & Hkn & Htn & HD).
        exists [t; colon], n, xs. split; [reflexivity|]. split; [|auto].
        pose proof (DAl_some true t colon Hk Hc) as D. unfold name_node in D. rewrite Ht in D. exact D.
    - rewrite (reindent_id pre _ (name_no_lf _ Hn)).
      apply (lexok_weaken _ (fun ts => exists n xs, ts = n :: xs /\ tk n = KName /\ tval n = n_val nm
                                       /\ D_arguments true false xs (map strip_arg args))).
      + intros ts (n & xs & -> & Hkn & Htn & HD). exists [], n, xs. split; [reflexivity|].
        split; [constructor|auto].
      + apply name_then; assumption.
  Qed.

  Lemma PS_field al nm args dirs sl sub l : Forall PS sub -> PS (SField al nm args dirs sl sub l).
  Proof.
    intros HPS (Hal & Hn & Hargs & Hdirs & Hsl & Hsub). apply wf_sub_forall in Hsub.
    cbn [pr_selection strip_sel]. fold (pr_selection_set cf sub).
    split.
    - rewrite p_join_cons.
      assert (E : is_empty (p_join [match al with
                      | Some a => p_join [p_wrap [] (n_val a) (lit ": "); n_val nm] []
                      | None => n_val nm end; pr_arguments cf args] []) = false).
      { rewrite p_join_nil_sep. cbn [concat]. pose proof (valid_name_ne _ Hn) as Hnn.
        destruct al as [a|].
        - rewrite p_join_nil_sep. cbn [concat]. rewrite p_wrap_nonempty by (apply valid_name_ne; assumption).
          pose proof (valid_name_ne _ Hal). destruct (n_val a); [contradiction|reflexivity].
        - destruct (n_val nm); [contradiction|reflexivity]. }
      rewrite E. clear Hal Hn.
      match goal with |- (if ?b then ?x else _) <> [] => destruct b; destruct x; try discriminate end.
    - intros pre Hpre. rewrite reindent_p_join. cbn [map]. change (reindent pre (lit " ")) with (lit " ").
      set (A := reindent pre (p_join [match al with
                      | Some a => p_join [p_wrap [] (n_val a) (lit ": "); n_val nm] []
                      | None => n_val nm end; pr_arguments cf args] [])).
      set (Dt := reindent pre (pr_directives cf dirs)).
      set (St := reindent pre (match sl with Some _ => pr_selection_set cf sub | None => [] end)).
      set (Q3 := fun ts => D_opt_selection_set true ts (option_map (fun _ : loc => @None (nat * nat)) sl)
                                                (map strip_sel sub)).
      apply (lexok_weaken _ (PartsP [(A, Qlead al nm args);
                                     (Dt, fun ts => D_directives true false ts (map strip_dir dirs));
                                     (St, Q3)])).
      + intros ts H. inversion H as [|? ? ts1 ? tss1 H1 Hr1]; subst.
        inversion Hr1 as [|? ? ts2 ? tss2 H2 Hr2]; subst.
        inversion Hr2 as [|? ? ts3 ? tss3 H3 Hr3]; subst. inversion Hr3; subst.
        destruct H1 as (ats & n & argts & -> & HDa & Hkn & Htn & HDargs). unfold Q3 in H3.
        pose proof (DS_field true ats _ n argts _ ts2 _ ts3 _ _ HDa Hkn HDargs H2 H3) as D.
        unfold name_node in D. rewrite Htn in D.
        rewrite app_nil_r. rewrite <- !app_assoc. cbn [app]. exact D.
      + change [A; Dt; St] with (map fst [(A, Qlead al nm args);
                                     (Dt, fun ts => D_directives true false ts (map strip_dir dirs));
                                     (St, Q3)]).
        apply lex_pjoin; [apply ignorable_space|discriminate|].
        repeat constructor; cbn [fst snd].
        * apply lead_lexok; assumption.
        * apply (dirs_lexp cf Hind false dirs Hdirs pre Hpre).
        * unfold St, Q3. destruct sl as [sl0|].
          -- apply (lexok_weaken _ (fun ts => exists o body cl, ts = o :: body ++ [cl] /\ tk o = KCurlyO
                       /\ tk cl = KCurlyC /\ D_selections true body (map strip_sel sub))).
             ++ intros ts (o & body & cl & -> & Ho & Hc & HD). cbn [option_map].
                apply (DOS_some true o body cl _ Ho Hc HD). destruct sub; [contradiction|discriminate].
             ++ apply selset_lexp; assumption.
          -- subst sub. simpl. apply lexok_nil. constructor.
  Qed.


  Lemma PS_spread nm dirs l : PS (SSpread nm dirs l).
  Proof.
    intros (Hn & Hon & Hdirs). cbn [pr_selection strip_sel]. split; [discriminate|].
    intros pre Hpre. rewrite !reindent_app, reindent_p_wrap.
    change (reindent pre (lit "...")) with (lit "..."). change (reindent pre (lit " ")) with (lit " ").
    change (reindent pre []) with (@nil N). rewrite (reindent_id pre _ (name_no_lf _ Hn)).
    pose proof (dirs_lexp cf Hind false dirs Hdirs pre Hpre) as HD.
    set (Dt := reindent pre (pr_directives cf dirs)) in *.
    apply (lexok_ellipsis_app _
             (fun ts => exists n xs, ts = n :: xs /\ tk n = KName /\ tval n = n_val nm
                                     /\ D_directives true false xs (map strip_dir dirs))).
    - apply name_then; [assumption| |].
      + unfold p_wrap. destruct (is_empty Dt) eqn:E.
        * destruct Dt; [|discriminate]. apply lexok_nil. apply (lexok_empty_tokens _ HD).
        * rewrite app_nil_r. apply lexok_lead; [apply ignorable_space|assumption].
      + intros rest Hr. unfold p_wrap. destruct (is_empty Dt); [assumption|].
        rewrite <- !app_assoc. apply vrest_sym. auto.
    - intros tok ts Hk (n & xs & -> & Hkn & Htn & HDs).
      pose proof (DS_spread true tok n xs (map strip_dir dirs) Hk Hkn) as D.
      unfold name_node in D. rewrite Htn in D. apply D; assumption.
  Qed.

  Lemma PS_inline tc dirs ssl sub l : Forall PS sub -> PS (SInline tc dirs ssl sub l).
  Proof.
    intros HPS (Htc & Hdirs & Hne & Hsub). apply wf_sub_forall in Hsub.
    cbn [pr_selection strip_sel]. fold (pr_selection_set cf sub). split.
    - rewrite p_join_cons. cbn [is_empty lit str_of_string].
      match goal with |- (if ?b then ?x else _) <> [] => destruct b; discriminate end.
    - intros pre Hpre. rewrite reindent_p_join. cbn [map]. change (reindent pre (lit " ")) with (lit " ").
      change (reindent pre (lit "...")) with (lit "...").
      set (Tt := reindent pre (p_wrap (lit "on ") match tc with Some t => pr_type t | None => [] end [])).
      set (Dt := reindent pre (pr_directives cf dirs)).
      set (St := reindent pre (pr_selection_set cf sub)).
      set (QS := fun ts => exists o body cl, ts = o :: body ++ [cl] /\ tk o = KCurlyO
                       /\ tk cl = KCurlyC /\ D_selections true body (map strip_sel sub)).
      apply (lexok_weaken _ (PartsP [(lit "...", fun ts => exists e, ts = [e] /\ tk e = KEllip);
                                     (Tt, fun ts => D_type_condition true ts (option_map strip_ty tc));
                                     (Dt, fun ts => D_directives true false ts (map strip_dir dirs));
                                     (St, QS)])).
      + intros ts H. inversion H as [|? ? ts1 ? tss1 H1 Hr1]; subst.
        inversion Hr1 as [|? ? ts2 ? tss2 H2 Hr2]; subst.
        inversion Hr2 as [|? ? ts3 ? tss3 H3 Hr3]; subst.
        inversion Hr3 as [|? ? ts4 ? tss4 H4 Hr4]; subst. inversion Hr4; subst.
        destruct H1 as (e & -> & Hke). destruct H4 as (o & body & cl & -> & Ho & Hc & HD).
        pose proof (DS_inline true e ts2 _ ts3 _ o body cl _ Hke H2 H3 Ho Hc HD) as D.
        rewrite app_nil_r. cbn [app]. apply D. destruct sub; [contradiction|discriminate].
      + change [lit "..."; Tt; Dt; St]
          with (map fst [(lit "...", fun ts : list ptok => exists e, ts = [e] /\ tk e = KEllip);
                         (Tt, fun ts => D_type_condition true ts (option_map strip_ty tc));
                         (Dt, fun ts => D_directives true false ts (map strip_dir dirs));
                         (St, QS)]).
        apply lex_pjoin; [apply ignorable_space|discriminate|].
        repeat constructor; cbn [fst snd].
        * rewrite <- (app_nil_r (lit "...")). apply (lexok_ellipsis_app [] (fun ts => ts = [])).
          -- apply lexok_nil. reflexivity.
          -- intros tok ts Hk ->. exists tok. auto.
        * unfold Tt. destruct tc as [[n ln|t0 l0|t0 l0]|]; try contradiction.
          -- cbn [pr_type option_map strip_ty]. rewrite p_wrap_nonempty by (apply valid_name_ne; assumption).
             rewrite app_nil_r, reindent_app, (reindent_id pre _ (name_no_lf _ Htc)).
             change (reindent pre (lit "on ")) with (lit "on" ++ lit " "). rewrite <- app_assoc.
             apply (lexok_app (lit "on") (lit " " ++ n_val n)
                      (fun ts => exists o, ts = [o] /\ tk o = KName /\ tval o = lit "on")
                      (fun ts => exists t, ts = [t] /\ tk t = KName /\ tval t = n_val n)).
             ++ apply name_lexok; [apply valid_name_on|]. intros t Hk Ht. exists t. auto.
             ++ apply lexok_lead; [apply ignorable_space|].
                apply name_lexok; [assumption|]. intros t Hk Ht. exists t. auto.
             ++ intros rest _. apply vrest_sym. auto.
             ++ intros ts1 ts2 (o & -> & Hko & Hto) (t & -> & Hkt & Htt).
                pose proof (DTc_some true o t (conj Hko Hto) Hkt) as D.
                unfold name_node in D. rewrite Htt in D. exact D.
          -- simpl. apply lexok_nil. constructor.
        * apply (dirs_lexp cf Hind false dirs Hdirs pre Hpre).
        * apply selset_lexp; assumption.
  Qed.

  Theorem PS_all s : PS s.
  Proof.
    induction s using selection_ind'.
    - apply PS_field; assumption.
    - apply PS_spread.
    - apply PS_inline; assumption.
  Qed.

End Selections.

(* ------------------------------------------------------------------ types and variable definitions *)
Lemma ttoks_length t : forall pos, length (ttoks t pos) = ntoks t.
Proof.
  induction t as [n l|t' IH l|t' IH l]; intros pos; simpl; [reflexivity| |].
  - rewrite app_length, IH. simpl. lia.
  - rewrite app_length, IH. simpl. lia.
Qed.

Lemma type_lexok t : wf_ty t -> LexOK (pr_type t) (fun ts => D_type true ts (strip_ty t)).
Proof.
  intros Hwf rest pos Hr. exists (ttoks t pos), (pos + length (pr_type t))%nat.
  split; [apply ttoks_derive; assumption|]. split; [rewrite ttoks_length; apply ntoks_le; assumption|].
  intros f. rewrite ttoks_length. apply lex_type; [assumption|apply vrest_rest_ok; assumption].
Qed.

Lemma type_no_lf t : wf_ty t -> no_lf (pr_type t).
Proof.
  induction t as [n l|t' IH l|t' IH l]; intros Hwf.
  - apply name_no_lf. assumption.
  - cbn [pr_type]. change (lit "[") with [91]. change (lit "]") with [93].
    intros x Hx. apply in_app_or in Hx. destruct Hx as [[<-|[]]|Hx]; [discriminate|].
    apply in_app_or in Hx. destruct Hx as [Hx|[<-|[]]]; [apply (IH Hwf x Hx)|discriminate].
  - destruct Hwf as [Hwf _]. cbn [pr_type]. change (lit "!") with [33].
    intros x Hx. apply in_app_or in Hx. destruct Hx as [Hx|[<-|[]]]; [apply (IH Hwf x Hx)|discriminate].
Qed.

Section VarDefs.
  Variable cf : cfg.
  Hypothesis Hind : all_ws (c_indent cf).

  Definition wf_vardef (v : var_def) : Prop :=
    valid_name (n_val (vd_var v)) /\ wf_ty (vd_type v)
    /\ match vd_default v with Some d => wf_value true d | None => True end
    /\ Forall (wf_dir true) (vd_dirs v).

  Lemma default_lexp (dv : option value) :
    match dv with Some d => wf_value true d | None => True end ->
    LexP (p_wrap (lit " = ") (match dv with Some d => pr_value cf d | None => [] end) [])
         (fun ts => D_default true ts (option_map strip_value dv)).
  Proof.
    intros Hwf pre Hpre. destruct dv as [d|].
    - destruct (PV_all cf Hind true d Hwf) as [Hne HL].
      rewrite p_wrap_nonempty by assumption. rewrite app_nil_r, reindent_app.
      change (reindent pre (lit " = ")) with ([32] ++ 61 :: [32]). rewrite <- app_assoc. cbn [app].
      change (32 :: 61 :: 32 :: ?x) with ([32] ++ 61 :: ([32] ++ x)).
      apply lexok_lead; [repeat constructor|].
      apply (lexok_symbol_app 61 KEquals _ (fun ts => D_value true true ts (strip_value d)));
        [reflexivity|discriminate| |].
      + apply lexok_lead; [repeat constructor|]. apply HL. assumption.
      + intros tok ts Hk HD. cbn [option_map]. constructor; assumption.
    - simpl. apply lexok_nil. constructor.
  Qed.

  Lemma default_head_ok pre (dv : option value) rest : vrest_ok rest ->
    vrest_ok (reindent pre (p_wrap (lit " = ") (match dv with Some d => pr_value cf d | None => [] end) []) ++ rest).
  Proof.
    intros Hr. apply reindent_head_ok; [|assumption]. intros r Hr0. unfold p_wrap.
    destruct (is_empty _); [assumption|]. apply vrest_sym. auto.
  Qed.

  Lemma vardef_lexp v : wf_vardef v ->
    pr_var_def cf v <> [] /\
    LexP (pr_var_def cf v) (fun ts => D_variable_definition true ts (strip_var_def v)).
  Proof.
    intros (Hn & Hty & Hdef & Hdirs). unfold pr_var_def. change (lit "$") with [36]. split.
    - rewrite p_join_cons. cbn [is_empty app].
      match goal with |- (if ?b then ?x else _) <> [] => destruct b; discriminate end.
    - intros pre Hpre. rewrite reindent_p_join. cbn [map]. change (reindent pre (lit " ")) with (lit " ").
      set (Q1 := fun ts => exists d n colon tyts defts, ts = d :: n :: colon :: tyts ++ defts
                  /\ tk d = KDollar /\ tk n = KName /\ tval n = n_val (vd_var v) /\ tk colon = KColon
                  /\ D_type true tyts (strip_ty (vd_type v))
                  /\ D_default true defts (option_map strip_value (vd_default v))).
      set (A := reindent pre (([36] ++ n_val (vd_var v)) ++ lit ": " ++ pr_type (vd_type v) ++
                 p_wrap (lit " = ") match vd_default v with Some d => pr_value cf d | None => [] end [])).
      set (Dt := reindent pre (pr_directives cf (vd_dirs v))).
      apply (lexok_weaken _ (PartsP [(A, Q1);
                (Dt, fun ts => D_directives true true ts (map strip_dir (vd_dirs v)))])).
      + intros ts H. inversion H as [|? ? ts1 ? tss1 H1 Hr1]; subst.
        inversion Hr1 as [|? ? ts2 ? tss2 H2 Hr2]; subst. inversion Hr2; subst.
        destruct H1 as (d & n & colon & tyts & defts & -> & Hkd & Hkn & Htn & Hkc & HDt & HDd).
        pose proof (DVd true d n colon tyts _ defts _ ts2 _ Hkd Hkn Hkc HDt HDd H2) as D.
        unfold name_node in D. rewrite Htn in D. rewrite app_nil_r.
        cbn [app]. rewrite <- app_assoc. exact D.
      + change [A; Dt] with (map fst [(A, Q1);
                (Dt, fun ts => D_directives true true ts (map strip_dir (vd_dirs v)))]).
        apply lex_pjoin; [apply ignorable_space|discriminate|]. repeat constructor; cbn [fst snd].
        * unfold A. rewrite <- !app_assoc. cbn [app]. rewrite !reindent_cons. cbn [app].
          change (36 =? PrinterModel.LF) with false. cbn [app].
          rewrite !reindent_app. rewrite (reindent_id pre _ (name_no_lf _ Hn)).
          rewrite (reindent_id pre _ (type_no_lf _ Hty)). change (reindent pre (lit ": ")) with (lit ": ").
          apply (lexok_symbol_app 36 KDollar _
                   (fun ts => exists n colon tyts defts, ts = n :: colon :: tyts ++ defts
                      /\ tk n = KName /\ tval n = n_val (vd_var v) /\ tk colon = KColon
                      /\ D_type true tyts (strip_ty (vd_type v))
                      /\ D_default true defts (option_map strip_value (vd_default v))));
            [reflexivity|discriminate| |].
          -- apply (named_lexok _ _ (fun ts => exists tyts defts, ts = tyts ++ defts
                      /\ D_type true tyts (strip_ty (vd_type v))
                      /\ D_default true defts (option_map strip_value (vd_default v)))).
             ++ assumption.
             ++ apply (lexok_app _ _ (fun ts => D_type true ts (strip_ty (vd_type v)))
                         (fun ts => D_default true ts (option_map strip_value (vd_default v)))).
                ** apply type_lexok. assumption.
                ** apply default_lexp; assumption.
                ** intros rest Hr. apply default_head_ok. assumption.
                ** intros ts1 ts2 H1 H2. exists ts1, ts2. auto.
             ++ intros t colon ts Hk Ht Hc (tyts & defts & -> & HDt & HDd).
                exists t, colon, tyts, defts. auto 10.
          -- intros tok ts Hk (n & colon & tyts & defts & -> & Hkn & Htn & Hkc & HDt & HDd).
             exists tok, n, colon, tyts, defts. auto 10.
        * apply (dirs_lexp cf Hind true _ Hdirs pre Hpre).
  Qed.

  Lemma vardefs_lexp vds : Forall wf_vardef vds ->
    LexP (pr_var_defs cf vds) (fun ts => D_variable_definitions true ts (map strip_var_def vds)).
  Proof.
    intros HF pre Hpre. unfold pr_var_defs.
    destruct vds as [|v0 vds0] eqn:Ea.
    - simpl. apply lexok_nil. constructor.
    - rewrite <- Ea in *. assert (Hne : vds <> []) by (rewrite Ea; discriminate). clear Ea v0 vds0.
      assert (HA : Forall (fun v => pr_var_def cf v <> [] /\
                     LexP (pr_var_def cf v) (fun ts => D_variable_definition true ts (strip_var_def v))) vds).
      { apply Forall_forall. intros v Hv. apply vardef_lexp. rewrite Forall_forall in HF. auto. }
      rewrite p_join_nonempty.
      2: { intros x Hx. apply in_map_iff in Hx. destruct Hx as (a & <- & Ha).
           rewrite Forall_forall in HA. apply (HA a Ha). }
      rewrite p_wrap_nonempty.
      2: { apply join_ne_nonempty; [|destruct vds; [contradiction|discriminate]].
           intros x Hx. apply in_map_iff in Hx. destruct Hx as (a & <- & Ha).
           rewrite Forall_forall in HA. apply (HA a Ha). }
      change (lit "(") with [40]. change (lit ")") with [41].
      rewrite !reindent_app. change (reindent pre [40]) with [40]. change (reindent pre [41]) with [41].
      rewrite reindent_join_ne by (intros x [<-|[<-|[]]]; discriminate). rewrite map_map.
      apply (lex_bracketed 40 41 KParenO KParenC _ _
               (fun ts => D_list (D_variable_definition true) ts (map strip_var_def vds)));
        try reflexivity; try discriminate.
      + intros rest pos Hr.
        apply (lex_joined (fun a => reindent pre (pr_var_def cf a))
                          (fun a ts => D_variable_definition true ts (strip_var_def a))
                          (fun l ts => D_list (D_variable_definition true) ts (map strip_var_def l))).
        * constructor.
        * intros x xs ts ts' Hx Hxs. cbn [map]. constructor; assumption.
        * apply Forall_forall. intros a Ha. rewrite Forall_forall in HA. apply (HA a Ha). assumption.
        * assumption.
      + intros to tc ts Ho Hc HD. apply (DVds_some true to ts tc _ Ho Hc HD).
        destruct vds; [contradiction|discriminate].
  Qed.

  Lemma vardefs_head_ok vds rest : vrest_ok rest -> vrest_ok (pr_var_defs cf vds ++ rest).
  Proof.
    intros Hr. unfold pr_var_defs, p_wrap.
    destruct (is_empty _); [assumption|]. apply vrest_sym. left. discriminate.
  Qed.
End VarDefs.

(* ------------------------------------------------------------------ definitions and documents *)
Lemma last_app_ne {A} (a b : list A) d : b <> [] -> last (a ++ b) d = last b d.
Proof.
  intros Hb. induction a as [|x a IH]; [reflexivity|]. simpl.
  destruct (a ++ b) eqn:E; [apply app_eq_nil in E; destruct E; contradiction|]. exact IH.
Qed.

Lemma p_join_snoc_nonempty l s sep : s <> [] -> p_join (l ++ [s]) sep <> [].
Proof.
  intros Hs. induction l as [|t l IH]; simpl app; rewrite p_join_cons.
  - destruct s; [contradiction|]. simpl. discriminate.
  - destruct (is_empty t) eqn:Et; [assumption|].
    destruct (is_empty (p_join (l ++ [s]) sep)); [destruct t; discriminate|].
    destruct t; [discriminate|discriminate].
Qed.

Lemma p_join_last_part l s sep d : s <> [] -> last (p_join (l ++ [s]) sep) d = last s d.
Proof.
  intros Hs. induction l as [|t l IH]; simpl app; rewrite p_join_cons.
  - destruct s; [contradiction|]. simpl is_empty. cbn [p_join filter join_ne]. reflexivity.
  - destruct (is_empty t); [assumption|].
    pose proof (p_join_snoc_nonempty l s sep Hs) as Hne.
    destruct (is_empty (p_join (l ++ [s]) sep)) eqn:E; [destruct (p_join (l ++ [s]) sep); [contradiction|discriminate]|].
    rewrite app_assoc, last_app_ne by assumption. assumption.
Qed.

Lemma selset_last cf sub d : sub <> [] -> last (pr_selection_set cf sub) d = 125.
Proof.
  intros Hne. unfold pr_selection_set, p_block.
  destruct (map (pr_selection cf) sub) eqn:E; [destruct sub; [contradiction|discriminate]|].
  rewrite !app_assoc. change (lit "}") with [125]. apply last_last.
Qed.

Lemma selset_nonempty cf sub : sub <> [] -> pr_selection_set cf sub <> [].
Proof.
  intros Hne. unfold pr_selection_set, p_block.
  destruct (map (pr_selection cf) sub) eqn:E; [destruct sub; [contradiction|discriminate]|]. discriminate.
Qed.

Lemma dirs_text_empty cf ds : pr_directives cf ds = [] -> ds = [].
Proof.
  destruct ds as [|d ds]; [reflexivity|]. unfold pr_directives. cbn [map]. rewrite p_join_cons.
  assert (E : is_empty (pr_directive cf d) = false) by reflexivity. rewrite E.
  destruct (pr_directive cf d) as [|c0 l0]; [discriminate E|].
  destruct (is_empty (p_join (map (pr_directive cf) ds) (lit " "))); intros H; simpl in H; discriminate H.
Qed.

Section Defs.
  Variable cf : cfg.
  Hypothesis Hind : all_ws (c_indent cf).
  Variable fv : bool.

  Definition wf_def (d : definition) : Prop :=
    match d with
    | DOperation k n vds dirs _ sels _ =>
        match n with Some x => valid_name (n_val x) | None => True end
        /\ Forall wf_vardef vds /\ Forall (wf_dir false) dirs /\ sels <> [] /\ Forall wf_sel sels
    | DFragment n vds tc dirs _ sels _ =>
        valid_name (n_val n) /\ n_val n <> str_of_string "on"
        /\ (if fv then Forall wf_vardef vds else vds = [])
        /\ (exists tn l, tc = TNamed tn l /\ valid_name (n_val tn))
        /\ Forall (wf_dir false) dirs /\ sels <> [] /\ Forall wf_sel sels
    | _ => False
    end.

  Lemma selset_DSS sels : sels <> [] -> Forall wf_sel sels ->
    LexP (pr_selection_set cf sels) (fun ts => D_selection_set true ts (map strip_sel sels) None).
  Proof.
    intros Hne Hwf pre Hpre.
    apply (lexok_weaken _ (fun ts => exists o body cl, ts = o :: body ++ [cl] /\ tk o = KCurlyO
                       /\ tk cl = KCurlyC /\ D_selections true body (map strip_sel sels))).
    - intros ts (o & body & cl & -> & Ho & Hc & HD).
      apply (DSS true o body cl _ Ho Hc HD). destruct sels; [contradiction|discriminate].
    - apply selset_lexp; try assumption. apply Forall_forall. intros s _. apply PS_all. assumption.
  Qed.

  Lemma selset_head_ok pre sels rest : sels <> [] -> vrest_ok (reindent pre (pr_selection_set cf sels) ++ rest).
  Proof.
    intros Hne. unfold pr_selection_set, p_block.
    destruct (map (pr_selection cf) sels) eqn:E; [destruct sels; [contradiction|discriminate]|].
    change (lit "{") with [123]. rewrite reindent_app. apply vrest_sym. left. discriminate.
  Qed.

  Lemma word_lexok w (P : list ptok -> Prop) :
    valid_name (str_of_string w) -> (forall t, is_word w t -> P [t]) -> LexOK (str_of_string w) P.
  Proof. intros Hv HP. apply name_lexok; [assumption|]. intros t Hk Ht. apply HP. split; assumption. Qed.

  Lemma op_word_lexok k : LexOK (op_text k) (fun ts => exists t, ts = [t] /\ D_operation_type t k).
  Proof.
    destruct k; unfold op_text, lit.
    - apply word_lexok; [exists 113, (lit "uery"); repeat split; repeat constructor|].
      intros t Hw. exists t. split; [reflexivity|constructor; assumption].
    - apply word_lexok; [exists 109, (lit "utation"); repeat split; repeat constructor|].
      intros t Hw. exists t. split; [reflexivity|constructor; assumption].
    - apply word_lexok; [exists 115, (lit "ubscription"); repeat split; repeat constructor|].
      intros t Hw. exists t. split; [reflexivity|constructor; assumption].
  Qed.

  Lemma op_text_no_lf k : no_lf (op_text k).
  Proof. destruct k; intros x Hx; simpl in Hx; repeat destruct Hx as [<-|Hx]; try discriminate; contradiction. Qed.

  Lemma operation_lexp k n vds dirs ssl sels l :
    wf_def (DOperation k n vds dirs ssl sels l) ->
    LexP (pr_definition cf (DOperation k n vds dirs ssl sels l))
         (fun ts => D_operation true ts (strip_def (DOperation k n vds dirs ssl sels l))).
  Proof.
    intros (Hn & Hvds & Hdirs & Hne & Hsels) pre Hpre. cbn [pr_definition strip_def].
    set (name := match n with Some x => n_val x | None => [] end).
    destruct (is_empty name && is_empty (pr_directives cf dirs) && is_empty (pr_var_defs cf vds)
              && is_query k) eqn:Eshort.
    - (* shorthand *)
      apply andb_prop in Eshort. destruct Eshort as [E Ek]. apply andb_prop in E. destruct E as [E Ev].
      apply andb_prop in E. destruct E as [En Ed].
      assert (n = None).
      { destruct n as [x|]; [|reflexivity]. unfold name in En. pose proof (valid_name_ne _ Hn).
        destruct (n_val x); [contradiction|discriminate]. }
      assert (dirs = []) by (apply (dirs_text_empty cf); destruct (pr_directives cf dirs); [reflexivity|discriminate]).
      assert (vds = []).
      { destruct vds as [|v vds0]; [reflexivity|]. exfalso.
        destruct (vardef_lexp cf Hind v) as [Hv _]; [inversion Hvds; assumption|].
        unfold pr_var_defs in Ev. cbn [map] in Ev. rewrite p_join_cons in Ev.
        destruct (pr_var_def cf v) eqn:Ep; [contradiction|]. cbn [is_empty] in Ev.
        unfold p_wrap in Ev. destruct (is_empty (p_join _ _)) eqn:E2 in Ev.
        - destruct (is_empty (p_join (map (pr_var_def cf) vds0) (lit ", "))); discriminate.
        - discriminate. }
      assert (k = OpQuery) by (destruct k; [reflexivity|discriminate|discriminate]).
      subst. cbn [option_map map].
      apply (lexok_weaken _ (fun ts => D_selection_set true ts (map strip_sel sels) None)).
      + intros ts HD. apply (DOp_short true ts _ _ HD).
      + apply selset_DSS; assumption.
    - (* long form *)
      rewrite reindent_p_join. cbn [map]. change (reindent pre (lit " ")) with (lit " ").
      rewrite (reindent_id pre _ (op_text_no_lf k)).
      set (Nt := reindent pre (p_join [name; pr_var_defs cf vds] [])).
      set (Dt := reindent pre (pr_directives cf dirs)).
      set (St := reindent pre (pr_selection_set cf sels)).
      set (Q2 := fun ts => exists nts vdts, ts = nts ++ vdts /\ D_opt_name true nts (option_map strip_name n)
                   /\ D_variable_definitions true vdts (map strip_var_def vds)).
      apply (lexok_weaken _ (PartsP [(op_text k, fun ts => exists t, ts = [t] /\ D_operation_type t k);
                                     (Nt, Q2);
                                     (Dt, fun ts => D_directives true false ts (map strip_dir dirs));
                                     (St, fun ts => D_selection_set true ts (map strip_sel sels) None)])).
      + intros ts H. inversion H as [|? ? ts1 ? tss1 H1 Hr1]; subst.
        inversion Hr1 as [|? ? ts2 ? tss2 H2 Hr2]; subst.
        inversion Hr2 as [|? ? ts3 ? tss3 H3 Hr3]; subst.
        inversion Hr3 as [|? ? ts4 ? tss4 H4 Hr4]; subst. inversion Hr4; subst.
        destruct H1 as (t & -> & Hot). destruct H2 as (nts & vdts & -> & HDn & HDv).
        pose proof (DOp_full true t k nts _ vdts _ ts3 _ ts4 _ _ Hot HDn HDv H3 H4) as D.
        rewrite app_nil_r. cbn [app]. rewrite <- app_assoc. exact D.
      + change [op_text k; Nt; Dt; St]
          with (map fst [(op_text k, fun ts : list ptok => exists t, ts = [t] /\ D_operation_type t k);
                         (Nt, Q2);
                         (Dt, fun ts => D_directives true false ts (map strip_dir dirs));
                         (St, fun ts => D_selection_set true ts (map strip_sel sels) None)]).
        apply lex_pjoin; [apply ignorable_space|discriminate|]. repeat constructor; cbn [fst snd].
        * apply op_word_lexok.
        * unfold Nt, Q2. rewrite p_join_nil_sep. cbn [concat]. rewrite app_nil_r, reindent_app.
          apply (lexok_app _ _ (fun ts => D_opt_name true ts (option_map strip_name n))
                           (fun ts => D_variable_definitions true ts (map strip_var_def vds))).
          -- unfold name. destruct n as [x|].
             ++ rewrite (reindent_id pre _ (name_no_lf _ Hn)). apply name_lexok; [assumption|].
                intros t Hk Ht. pose proof (DOn_some true t Hk) as D. unfold name_node in D.
                rewrite Ht in D. exact D.
             ++ simpl. apply lexok_nil. constructor.
          -- apply (vardefs_lexp cf Hind vds Hvds pre Hpre).
          -- intros rest Hr. apply reindent_head_ok; [apply vardefs_head_ok|assumption].
          -- intros ts1 ts2 H1 H2. exists ts1, ts2. auto.
        * apply (dirs_lexp cf Hind false dirs Hdirs pre Hpre).
        * apply selset_DSS; assumption.
  Qed.

  Lemma valid_name_fragment : valid_name (str_of_string "fragment").
  Proof. exists 102, (lit "ragment"). repeat split; repeat constructor. Qed.

  Lemma fragment_lexp n vds tc dirs ssl sels l :
    wf_def (DFragment n vds tc dirs ssl sels l) ->
    LexP (pr_definition cf (DFragment n vds tc dirs ssl sels l))
         (fun ts => D_fragment true fv ts (strip_def (DFragment n vds tc dirs ssl sels l))).
  Proof.
    intros (Hn & Hon & Hvds & (tn & ltn & -> & Htn) & Hdirs & Hne & Hsels) pre Hpre.
    cbn [pr_definition strip_def pr_type strip_ty].
    assert (Hvds' : Forall wf_vardef vds) by (destruct fv; [assumption|subst; constructor]).
    change (lit "fragment ") with (str_of_string "fragment" ++ lit " ").
    change (lit " on ") with (lit " " ++ lit "on" ++ lit " ").
    rewrite <- !app_assoc. rewrite !reindent_app.
    rewrite (reindent_id pre (str_of_string "fragment")) by (apply name_no_lf; apply valid_name_fragment).
    change (reindent pre (lit " ")) with (lit " "). change (reindent pre (lit "on")) with (lit "on").
    rewrite (reindent_id pre _ (name_no_lf _ Hn)), (reindent_id pre _ (name_no_lf _ Htn)).
    set (Vt := reindent pre (pr_var_defs cf vds)).
    set (Dt := reindent pre (pr_directives cf dirs)).
    set (St := reindent pre (pr_selection_set cf sels)).
    (* fragment <sp> name vardefs <sp> on <sp> tname <sp> dirs selset *)
    pose proof (selset_DSS sels Hne Hsels pre Hpre) as HS. fold St in HS.
    pose proof (dirs_lexp cf Hind false dirs Hdirs pre Hpre) as HD. fold Dt in HD.
    pose proof (vardefs_lexp cf Hind vds Hvds' pre Hpre) as HV. fold Vt in HV.
    assert (HSv : forall rest, vrest_ok (St ++ rest)) by (intros; apply selset_head_ok; assumption).
    (* tail: dirs selset *)
    assert (T1 : LexOK (Dt ++ St) (fun ts => exists dts ssts, ts = dts ++ ssts
                 /\ D_directives true false dts (map strip_dir dirs)
                 /\ D_selection_set true ssts (map strip_sel sels) None)).
    { apply (lexok_app Dt St _ _ _ HD HS); [intros; apply HSv|]. intros ts1 ts2 H1 H2. exists ts1, ts2. auto. }
    (* tname <sp> tail *)
    assert (T2 : LexOK (n_val tn ++ lit " " ++ Dt ++ St) (fun ts => exists tcn dts ssts, ts = tcn :: dts ++ ssts
                 /\ tk tcn = KName /\ tval tcn = n_val tn
                 /\ D_directives true false dts (map strip_dir dirs)
                 /\ D_selection_set true ssts (map strip_sel sels) None)).
    { apply (lexok_weaken _ (fun ts => exists t xs, ts = t :: xs /\ tk t = KName /\ tval t = n_val tn /\
                (exists dts ssts, xs = dts ++ ssts /\ D_directives true false dts (map strip_dir dirs)
                   /\ D_selection_set true ssts (map strip_sel sels) None))).
      - intros ts (t & xs & -> & Hk & Ht & dts & ssts & -> & H1 & H2). exists t, dts, ssts. auto 10.
      - apply name_then; [assumption| |].
        + apply lexok_lead; [apply ignorable_space|exact T1].
        + intros rest _. apply vrest_sym. auto. }
    (* on <sp> ... *)
    assert (T3 : LexOK (lit "on" ++ lit " " ++ n_val tn ++ lit " " ++ Dt ++ St)
               (fun ts => exists o tcn dts ssts, ts = o :: tcn :: dts ++ ssts /\ is_word "on" o
                 /\ tk tcn = KName /\ tval tcn = n_val tn
                 /\ D_directives true false dts (map strip_dir dirs)
                 /\ D_selection_set true ssts (map strip_sel sels) None)).
    { apply (lexok_weaken _ (fun ts => exists t xs, ts = t :: xs /\ tk t = KName /\ tval t = lit "on" /\
                (exists tcn dts ssts, xs = tcn :: dts ++ ssts /\ tk tcn = KName /\ tval tcn = n_val tn
                   /\ D_directives true false dts (map strip_dir dirs)
                   /\ D_selection_set true ssts (map strip_sel sels) None))).
      - intros ts (t & xs & -> & Hk & Ht & tcn & dts & ssts & -> & H1 & H2 & H3 & H4).
        exists t, tcn, dts, ssts. unfold is_word. intuition auto.
      - apply name_then; [apply valid_name_on| |].
        + apply lexok_lead; [apply ignorable_space|exact T2].
        + intros rest _. apply vrest_sym. auto. }
    (* name vardefs <sp> on ... *)
    assert (T4 : LexOK (n_val n ++ Vt ++ lit " " ++ lit "on" ++ lit " " ++ n_val tn ++ lit " " ++ Dt ++ St)
               (fun ts => exists nt vdts o tcn dts ssts, ts = nt :: vdts ++ o :: tcn :: dts ++ ssts
                 /\ tk nt = KName /\ tval nt = n_val n
                 /\ D_variable_definitions true vdts (map strip_var_def vds)
                 /\ is_word "on" o /\ tk tcn = KName /\ tval tcn = n_val tn
                 /\ D_directives true false dts (map strip_dir dirs)
                 /\ D_selection_set true ssts (map strip_sel sels) None)).
    { apply (lexok_weaken _ (fun ts => exists t xs, ts = t :: xs /\ tk t = KName /\ tval t = n_val n /\
                (exists vdts o tcn dts ssts, xs = vdts ++ o :: tcn :: dts ++ ssts
                   /\ D_variable_definitions true vdts (map strip_var_def vds)
                   /\ is_word "on" o /\ tk tcn = KName /\ tval tcn = n_val tn
                   /\ D_directives true false dts (map strip_dir dirs)
                   /\ D_selection_set true ssts (map strip_sel sels) None))).
      - intros ts (t & xs & -> & Hk & Ht & vdts & o & tcn & dts & ssts & -> & H1 & H2 & H3 & H4 & H5 & H6).
        exists t, vdts, o, tcn, dts, ssts. intuition auto.
      - apply name_then; [assumption| |].
        + eapply (lexok_app Vt _ _ _ _ HV).
          * apply lexok_lead; [apply ignorable_space|exact T3].
          * intros rest _. apply vrest_sym. auto.
          * intros ts1 ts2 H1 (o & tcn & dts & ssts & -> & H2). exists ts1, o, tcn, dts, ssts. tauto.
        + intros rest Hr. unfold Vt. rewrite <- app_assoc. apply reindent_head_ok; [apply vardefs_head_ok|].
          apply vrest_sym. auto. }
    apply (lexok_weaken _ (fun ts => exists t xs, ts = t :: xs /\ tk t = KName /\ tval t = str_of_string "fragment" /\
              (exists nt vdts o tcn dts ssts, xs = nt :: vdts ++ o :: tcn :: dts ++ ssts
                 /\ tk nt = KName /\ tval nt = n_val n
                 /\ D_variable_definitions true vdts (map strip_var_def vds)
                 /\ is_word "on" o /\ tk tcn = KName /\ tval tcn = n_val tn
                 /\ D_directives true false dts (map strip_dir dirs)
                 /\ D_selection_set true ssts (map strip_sel sels) None))).
    - intros ts (f & xs & -> & Hkf & Htf & nt & vdts & o & tcn & dts & ssts & -> & Hkn & Htnn & HDv & Ho & Hkt & Htt & HDd & HDs).
      pose proof (DFrag true fv f nt vdts (map strip_var_def vds) o tcn dts (map strip_dir dirs) ssts
                    (map strip_sel sels) None (conj Hkf Htf) Hkn) as D.
      unfold name_node in D. rewrite Htnn, Htt in D. apply D; auto.
      destruct fv; [assumption|]. subst vds. inversion HDv; subst; [auto|].
      exfalso. match goal with H : [] <> [] |- _ => apply H; reflexivity | H : map _ [] <> [] |- _ => apply H; reflexivity end.
    - apply name_then; [apply valid_name_fragment| |].
      + apply lexok_lead; [apply ignorable_space|exact T4].
      + intros rest _. apply vrest_sym. auto.
  Qed.

  Lemma def_lexp d : wf_def d ->
    LexP (pr_definition cf d) (fun ts => D_executable_definition true fv ts (strip_def d)).
  Proof.
    intros Hwf pre Hpre. destruct d; try contradiction.
    - apply (lexok_weaken _ (fun ts => D_operation true ts (strip_def (DOperation k n vds dirs ssl sels l)))).
      + intros ts H. apply DEx_operation. assumption.
      + apply operation_lexp; assumption.
    - apply (lexok_weaken _ (fun ts => D_fragment true fv ts (strip_def (DFragment n vds tc dirs ssl sels l)))).
      + intros ts H. apply DEx_fragment. assumption.
      + apply fragment_lexp; assumption.
  Qed.

  (* exec definitions end with the closing brace of their selection set *)
  Lemma def_ends_brace d : wf_def d -> last (pr_definition cf d) 0 = 125 /\ pr_definition cf d <> [].
  Proof.
    intros Hwf. destruct d; try contradiction.
    - destruct Hwf as (_ & _ & _ & Hne & _). cbn [pr_definition].
      pose proof (selset_last cf sels 0 Hne) as HL. pose proof (selset_nonempty cf sels Hne) as HN.
      destruct (_ && _ && _ && _); [auto|].
      change [op_text k; p_join [match n with Some x => n_val x | None => [] end; pr_var_defs cf vds] [];
              pr_directives cf dirs; pr_selection_set cf sels]
        with ([op_text k; p_join [match n with Some x => n_val x | None => [] end; pr_var_defs cf vds] [];
               pr_directives cf dirs] ++ [pr_selection_set cf sels]).
      split; [rewrite p_join_last_part by assumption; assumption|apply p_join_snoc_nonempty; assumption].
    - destruct Hwf as (_ & _ & _ & _ & _ & Hne & _). cbn [pr_definition].
      pose proof (selset_last cf sels 0 Hne) as HL. pose proof (selset_nonempty cf sels Hne) as HN.
      rewrite !app_assoc. split; [rewrite last_app_ne by assumption; assumption|].
      intros H. apply app_eq_nil in H. destruct H; contradiction.
  Qed.

  Lemma pr_defs_plain ds : Forall wf_def ds ->
    forall prev, match prev with Some p => ends_brace p = true | None => True end ->
    pr_defs cf prev ds = map (pr_definition cf) ds.
  Proof.
    induction ds as [|d ds IH]; intros HF prev Hp; [reflexivity|].
    inversion HF as [|? ? Hd Hds]; subst. cbn [pr_defs map]. cbv zeta.
    assert (E : (starts_brace (pr_definition cf d)
                 && match prev with Some p => negb (ends_brace p) | None => false end) = false).
    { destruct prev as [p|]; [rewrite Hp|]; apply andb_false_r. }
    rewrite E. f_equal. apply IH; [assumption|].
    destruct (def_ends_brace d Hd) as [HL _]. unfold ends_brace. rewrite HL. reflexivity.
  Qed.

End Defs.

Definition wf_exec_doc (fv : bool) (d : document) : Prop :=
  doc_defs d <> [] /\ Forall (wf_def fv) (doc_defs d).

Theorem exec_roundtrip fl ind d :
  no_location fl = true -> all_ws ind -> wf_exec_doc (fragment_variables fl) d ->
  parse_document fl (print_ast ind true d) = Ok (strip_doc d).
Proof.
  intros Hnl Hind [Hne Hwf]. set (cf := Cfg ind true). set (fv := fragment_variables fl) in *.
  assert (Hind' : all_ws (c_indent cf)) by exact Hind.
  unfold print_ast, pr_document. fold cf.
  rewrite (pr_defs_plain cf fv (doc_defs d) Hwf None I).
  assert (HL : LexOK (p_join (map (pr_definition cf) (doc_defs d)) [PrinterModel.LF; PrinterModel.LF]
                      ++ [PrinterModel.LF])
                     (fun ts => D_list (D_executable_definition true fv) ts (map strip_def (doc_defs d)))).
  { apply lexok_trail; [repeat constructor|].
    apply (lex_pjoin_list [10; 10] (pr_definition cf)
             (fun x ts => D_executable_definition true fv ts (strip_def x))).
    - repeat constructor.
    - discriminate.
    - auto.
    - apply Forall_forall. intros x Hx. rewrite Forall_forall in Hwf.
      pose proof (def_lexp cf Hind' fv x (Hwf x Hx) [] eq_refl) as H. rewrite reindent_nil in H. exact H. }
  destruct (HL [] 0%nat I) as (ts & pos' & HD & Hlen & Hlex).
  set (text := p_join (map (pr_definition cf) (doc_defs d)) [PrinterModel.LF; PrinterModel.LF]
               ++ [PrinterModel.LF]) in *.
  set (eof := PTok KEOF [] pos' pos').
  apply (parse_document_exec_complete fl text (PTok KSOF [] 0 0 :: ts ++ [eof])).
  - unfold lex, lex_stream, lex_fuel. cbn [collect].
    replace (S (length text)) with (length ts + S (length text - length ts))%nat by lia.
    rewrite <- (app_nil_r text) at 2. rewrite Hlex.
    cbn [lex_from skip_ws next_token]. unfold is_kind. simpl tkind_eqb.
    rewrite collect_map. simpl. reflexivity.
  - rewrite Hnl. fold fv. unfold strip_doc.
    apply (DDoc true fv (PTok KSOF [] 0 0) ts eof _ eq_refl eq_refl HD).
    destruct (doc_defs d); [contradiction|discriminate].
Qed.
