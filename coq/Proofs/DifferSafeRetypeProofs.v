(* C20: the converse of C20_edit_reported for the open finding -- a retype that
   the differ's predicate calls safe yields no change at all. *)
From PyGql Require Import Schema.SchemaFull Schema.DifferModel Spec.DifferSpec
  Proofs.SchemaFullLemmas Proofs.DifferProofs Proofs.DifferEditProofs.

(* keyed lists: an update of the element named [k] *)
Section Upd.
  Context {A : Type}.
  Variable name : A -> str.
  Variable k : str.
  Variable h : A -> A.
  Hypothesis Hname : forall x, name (h x) = name x.
  Let h' (x : A) : A := if str_eqb k (name x) then h x else x.

  Lemma h'_name x : name (h' x) = name x.
  Proof. unfold h'. destruct (str_eqb k (name x)); [apply Hname|reflexivity]. Qed.

  Lemma find_upd l x :
    NoDup (map name l) -> In x l ->
    find (fun y => str_eqb (name x) (name y)) (map h' l) = Some (h' x).
  Proof.
    intros Hnd Hin.
    assert (E : find (fun y => str_eqb (name x) (name y)) (map h' l)
                = option_map h' (find (fun y => str_eqb (name x) (name y)) l)).
    { clear Hnd Hin. induction l as [|y l IH]; simpl; [reflexivity|].
      rewrite h'_name. destruct (str_eqb (name x) (name y)); [reflexivity|exact IH]. }
    rewrite E, (find_unique name l x Hnd Hin). reflexivity.
  Qed.

  Lemma find_upd_back l x :
    NoDup (map name l) -> In x l ->
    find (fun y => str_eqb (name (h' x)) (name y)) l = Some x.
  Proof. intros Hnd Hin. rewrite h'_name. apply find_unique; assumption. Qed.

  Lemma upd_named l x0 x :
    NoDup (map name l) -> find (fun y => str_eqb k (name y)) l = Some x0 -> In x l ->
    h' x = (if str_eqb k (name x) then h x0 else x) .
  Proof.
    intros Hnd Hf Hin. unfold h'. destruct (str_eqb_spec k (name x)) as [E|_]; [|reflexivity].
    assert (x = x0).
    { pose proof (find_unique name l x Hnd Hin) as H1. rewrite <- E in H1. congruence. }
    subst; reflexivity.
  Qed.
End Upd.

(* arguments: one argument retyped to a type that is a safe input change *)
Lemma diff_args_safe_upd R C D Ad path l an a t :
  names_unique a_name l -> find_arg l an = Some a -> safe_in (a_type a) t = true ->
  diff_args R C D Ad path l (upd_arg an (set_a_type t) l) = [].
Proof.
  intros Hu Ha Hs. unfold diff_args, upd_arg.
  rewrite !flat_map_nil; [reflexivity| |].
  - intros b Hb. apply in_map_iff in Hb. destruct Hb as (x & <- & Hx).
    unfold find_arg. rewrite (find_upd_back a_name an (set_a_type t) (fun _ => eq_refl) l x Hu Hx). reflexivity.
  - intros x Hx. unfold find_arg.
    rewrite (find_upd a_name an (set_a_type t) (fun _ => eq_refl) l x Hu Hx).
    rewrite (upd_named a_name an (set_a_type t) l a x Hu Ha Hx).
    destruct (str_eqb_spec an (a_name x)) as [E|_].
    + assert (x = a) by (pose proof (find_unique a_name l x Hu Hx) as H1; unfold find_arg in Ha; rewrite <- E in H1; congruence).
      subst x. simpl. rewrite Hs. simpl. rewrite default_changed_refl. reflexivity.
    + rewrite safe_in_refl, default_changed_refl. reflexivity.
Qed.

Lemma diff_field_retype tn f t :
  names_unique a_name (f_args f) -> safe_out (f_type f) t = true -> diff_field tn f (set_f_type t f) = [].
Proof.
  intros Hu Hs. unfold diff_field. simpl. rewrite Hs, diff_args_refl by assumption. simpl.
  rewrite opt_str_eqb_refl. unfold field_deprecated, set_f_type. simpl. destruct (f_depr f) as [[|? ?]|]; reflexivity.
Qed.

Lemma diff_field_arg_retype tn f an a t :
  names_unique a_name (f_args f) -> find_arg (f_args f) an = Some a -> safe_in (a_type a) t = true ->
  diff_field tn f (set_f_args (upd_arg an (set_a_type t)) f) = [].
Proof.
  intros Hu Ha Hs. unfold diff_field. simpl. rewrite safe_out_refl.
  rewrite (diff_args_safe_upd _ _ _ _ _ _ an a t Hu Ha Hs). simpl.
  rewrite opt_str_eqb_refl. unfold field_deprecated, set_f_args. simpl. destruct (f_depr f) as [[|? ?]|]; reflexivity.
Qed.

(* fields: the field named fn replaced by an [h] whose diff against it is empty *)
Lemma diff_fields_safe_upd tn fs fn f0 h :
  names_unique f_name fs -> Forall (fun f => names_unique a_name (f_args f)) fs ->
  (forall x, f_name (h x) = f_name x) ->
  find_field fs fn = Some f0 -> diff_field tn f0 (h f0) = [] ->
  diff_fields tn fs (upd_field fn h fs) = [].
Proof.
  intros Hu Ha Hn Hf Hd. rewrite Forall_forall in Ha. unfold diff_fields, upd_field.
  rewrite !flat_map_nil; [reflexivity| |].
  - intros g Hg. apply in_map_iff in Hg. destruct Hg as (x & <- & Hx).
    unfold find_field. rewrite (find_upd_back f_name fn h Hn fs x Hu Hx). reflexivity.
  - intros x Hx. unfold find_field. rewrite (find_upd f_name fn h Hn fs x Hu Hx).
    rewrite (upd_named f_name fn h fs f0 x Hu Hf Hx).
    destruct (str_eqb_spec fn (f_name x)) as [E|_].
    + assert (x = f0) by (pose proof (find_unique f_name fs x Hu Hx) as H1; unfold find_field in Hf; rewrite <- E in H1; congruence).
      subst x. exact Hd.
    + apply diff_field_refl. apply Ha; exact Hx.
Qed.

Lemma diff_input_safe_upd tn fs fn f0 t :
  names_unique i_name fs -> find_input fs fn = Some f0 -> safe_in (i_type f0) t = true ->
  diff_input tn fs (map (fun x => if str_eqb fn (i_name x) then mkInput (i_name x) t (i_default x) else x) fs) = [].
Proof.
  intros Hu Hf Hs. unfold diff_input.
  pose (h := fun x : input_field => mkInput (i_name x) t (i_default x)).
  change (map (fun x => if str_eqb fn (i_name x) then mkInput (i_name x) t (i_default x) else x) fs)
    with (map (fun x => if str_eqb fn (i_name x) then h x else x) fs).
  assert (Hn : forall x, i_name (h x) = i_name x) by reflexivity.
  rewrite !flat_map_nil; [reflexivity| |].
  - intros g Hg. apply in_map_iff in Hg. destruct Hg as (x & <- & Hx).
    unfold find_input. rewrite (find_upd_back i_name fn h Hn fs x Hu Hx). reflexivity.
  - intros x Hx. unfold find_input. rewrite (find_upd i_name fn h Hn fs x Hu Hx).
    rewrite (upd_named i_name fn h fs f0 x Hu Hf Hx).
    destruct (str_eqb_spec fn (i_name x)) as [E|_].
    + assert (x = f0) by (pose proof (find_unique i_name fs x Hu Hx) as H1; unfold find_input in Hf; rewrite <- E in H1; congruence).
      subst x. simpl. rewrite Hs. simpl. rewrite default_changed_refl. reflexivity.
    + rewrite safe_in_refl, default_changed_refl. reflexivity.
Qed.

(* one type's body replaced by one whose per-kind diff against it is empty *)
Definition pair_nil (tn : str) (b b' : type_body) : Prop :=
  match b, b' with
  | BScalar, BScalar => True
  | BObject i fs _, BObject i' fs' _ => diff_fields tn fs fs' ++ diff_interfaces_of tn i i' = []
  | BInterface fs, BInterface fs' => diff_fields tn fs fs' = []
  | BUnion ms, BUnion ms' => diff_union tn ms ms' = []
  | BEnum vs, BEnum vs' => diff_enum tn vs vs' = []
  | BInput fs, BInput fs' => diff_input tn fs fs' = []
  | _, _ => False
  end.

Lemma pair_nil_refl tn b : wf_body b -> pair_nil tn b b.
Proof.
  destruct b; simpl; intros Hw; auto.
  - destruct Hw. rewrite diff_fields_refl, diff_interfaces_refl by assumption. reflexivity.
  - destruct Hw. apply diff_fields_refl; assumption.
  - apply diff_union_refl.
  - apply diff_enum_refl; assumption.
  - apply diff_input_refl; assumption.
Qed.

Lemma passes_of_pair nts t t' :
  find_type nts (t_name t) = Some t' -> pair_nil (t_name t) (t_body t) (t_body t') ->
  removed_of nts t = [] /\ changed_kind_of nts t = [] /\ union_of nts t = [] /\ enum_of nts t = []
  /\ object_of nts t = [] /\ interface_of nts t = [] /\ input_of nts t = [].
Proof.
  intros Hf Hp. unfold removed_of, changed_kind_of, union_of, enum_of, object_of, interface_of, input_of.
  rewrite Hf. destruct (t_intro t);
    destruct (t_body t), (t_body t'); simpl in Hp; try contradiction; simpl; repeat split; auto.
Qed.

Theorem type_update_nil s tn F t0 :
  wf_schema s -> find_type (s_types s) tn = Some t0 ->
  pair_nil tn (t_body t0) (F (t_body t0)) ->
  diff_model s (set_types s (upd_body tn F (s_types s))) = [].
Proof.
  intros (Ht & Hd & Hb & Hda) Hf Hp. rewrite Forall_forall in Hb.
  destruct (look_some_in t_name _ _ _ Hf) as [Hin0 Hn0].
  set (U := fun t => if str_eqb tn (t_name t)
                     then mkType (t_name t) (t_intro t) (t_spec t) (F (t_body t)) else t).
  assert (HU : forall t, t_name (U t) = t_name t) by (intros t; unfold U; destruct (str_eqb tn (t_name t)); reflexivity).
  assert (Hfind : forall t, In t (s_types s) -> find_type (upd_body tn F (s_types s)) (t_name t) = Some (U t)).
  { intros t Hin. rewrite find_type_upd. unfold find_type. rewrite (find_unique t_name _ t Ht Hin). reflexivity. }
  assert (Hpair : forall t, In t (s_types s) -> pair_nil (t_name t) (t_body t) (t_body (U t))).
  { intros t Hin. unfold U. destruct (str_eqb_spec tn (t_name t)) as [E|_].
    - assert (t = t0).
      { pose proof (find_unique t_name _ t Ht Hin) as H1. unfold find_type in Hf. rewrite <- E in H1. congruence. }
      subst t. simpl. rewrite <- E. exact Hp.
    - apply pair_nil_refl. apply Hb; exact Hin. }
  unfold diff_model. simpl s_types. simpl s_dirs.
  rewrite diff_directives_refl by assumption.
  assert (Hall : forall t, In t (s_types s) -> _) by
    (intros t Hin; exact (passes_of_pair _ t (U t) (Hfind t Hin) (Hpair t Hin))).
  rewrite (flat_map_nil (removed_of _)) by (intros t Hin; apply (Hall t Hin)).
  rewrite (flat_map_nil (changed_kind_of _)) by (intros t Hin; apply (Hall t Hin)).
  rewrite (flat_map_nil (union_of _)) by (intros t Hin; apply (Hall t Hin)).
  rewrite (flat_map_nil (enum_of _)) by (intros t Hin; apply (Hall t Hin)).
  rewrite (flat_map_nil (object_of _)) by (intros t Hin; apply (Hall t Hin)).
  rewrite (flat_map_nil (interface_of _)) by (intros t Hin; apply (Hall t Hin)).
  rewrite (flat_map_nil (input_of _)) by (intros t Hin; apply (Hall t Hin)).
  rewrite (flat_map_nil (added_of _)); [reflexivity|].
  intros t' Hin'. unfold upd_body in Hin'. apply in_map_iff in Hin'. destruct Hin' as (t & <- & Hin).
  unfold added_of. fold (U t). rewrite HU. unfold find_type. rewrite (find_unique t_name _ t Ht Hin). reflexivity.
Qed.

Theorem dir_update_nil s dn h d0 :
  wf_schema s -> find_dir (s_dirs s) dn = Some d0 ->
  (forall x, d_name (h x) = d_name x) -> d_specified (h d0) = d_specified d0 -> d_locs (h d0) = d_locs d0 ->
  diff_args CDirectiveArgumentRemoved CDirectiveArgumentChangedType CDirectiveArgumentDefaultValueChange
            CDirectiveArgumentAdded [dn] (d_args d0) (d_args (h d0)) = [] ->
  diff_model s (set_dirs s (upd_dir dn h (s_dirs s))) = [].
Proof.
  intros (Ht & Hd & Hb & Hda) Hf Hn Hs Hl Ha. rewrite Forall_forall in Hb, Hda.
  destruct (look_some_in d_name _ _ _ Hf) as [Hin0 Hn0].
  unfold diff_model. simpl s_types. simpl s_dirs.
  assert (Htypes : diff_model s s = []) by (apply diff_model_refl; repeat split; try apply Forall_forall; assumption).
  unfold diff_model in Htypes. rewrite diff_directives_refl in Htypes by (try apply Forall_forall; assumption).
  (* all type passes are those of the reflexive diff *)
  apply app_eq_nil in Htypes. destruct Htypes as [P1 Htypes].
  apply app_eq_nil in Htypes. destruct Htypes as [P2 Htypes].
  apply app_eq_nil in Htypes. destruct Htypes as [_ Htypes].
  apply app_eq_nil in Htypes. destruct Htypes as [P4 Htypes].
  apply app_eq_nil in Htypes. destruct Htypes as [P5 Htypes].
  apply app_eq_nil in Htypes. destruct Htypes as [P6 Htypes].
  apply app_eq_nil in Htypes. destruct Htypes as [P7 Htypes].
  apply app_eq_nil in Htypes. destruct Htypes as [P8 P9].
  rewrite P1, P2, P4, P5, P6, P7, P8, P9. simpl. rewrite app_nil_r.
  unfold diff_directives, upd_dir.
  rewrite !flat_map_nil; [reflexivity| |].
  - intros g Hg. apply in_map_iff in Hg. destruct Hg as (x & <- & Hx).
    assert (Hspec : d_specified (if str_eqb dn (d_name x) then h x else x) = d_specified x).
    { destruct (str_eqb_spec dn (d_name x)) as [E|_]; [|reflexivity].
      assert (x = d0) by (pose proof (find_unique d_name _ x Hd Hx) as H1'; unfold find_dir in Hf; rewrite <- E in H1'; congruence).
      subst; exact Hs. }
    rewrite Hspec. destruct (d_specified x); [reflexivity|].
    unfold find_dir. rewrite (find_upd_back d_name dn h Hn _ x Hd Hx). reflexivity.
  - intros x Hx. destruct (d_specified x) eqn:Es; [reflexivity|].
    unfold find_dir. rewrite (find_upd d_name dn h Hn _ x Hd Hx).
    rewrite (upd_named d_name dn h _ d0 x Hd Hf Hx).
    destruct (str_eqb_spec dn (d_name x)) as [E|_].
    + assert (x = d0) by (pose proof (find_unique d_name _ x Hd Hx) as H1'; unfold find_dir in Hf; rewrite <- E in H1'; congruence).
      subst x. rewrite Hl, !filter_not_mem_self, Hn0, Ha. reflexivity.
    + rewrite !filter_not_mem_self, diff_args_refl by (apply Hda; exact Hx). reflexivity.
Qed.

Lemma wf_fields s tn fs :
  wf_schema s -> user_fields s tn = Some fs ->
  exists t0, find_type (s_types s) tn = Some t0 /\ t_intro t0 = false
             /\ ((exists i r, t_body t0 = BObject i fs r) \/ t_body t0 = BInterface fs)
             /\ names_unique f_name fs /\ Forall (fun f => names_unique a_name (f_args f)) fs.
Proof.
  intros (_ & _ & Hb & _) Hu. rewrite Forall_forall in Hb. unfold user_fields in Hu.
  destruct (find_type (s_types s) tn) as [t0|] eqn:E; [|discriminate].
  destruct (look_some_in t_name _ _ _ E) as [Hin _]. specialize (Hb t0 Hin).
  destruct (t_intro t0) eqn:Ei; [discriminate|]. exists t0. split; [reflexivity|]. split; [exact Ei|].
  destruct (t_body t0) as [|i f r|f| | |] eqn:Eb; try discriminate; inversion Hu; subst; simpl in Hb.
  - split; [left; eauto|exact Hb].
  - split; [right; reflexivity|exact Hb].
Qed.

Lemma fields_update_nil s tn fs g :
  wf_schema s -> user_fields s tn = Some fs -> diff_fields tn fs (g fs) = [] ->
  diff_model s (set_types s (upd_body tn (on_fields g) (s_types s))) = [].
Proof.
  intros Hw Hu Hd. destruct (wf_fields s tn fs Hw Hu) as (t0 & Hf & _ & Hb & _).
  apply (type_update_nil s tn (on_fields g) t0 Hw Hf).
  destruct Hb as [(i & r & ->)| ->]; simpl; [|exact Hd].
  rewrite Hd, diff_interfaces_refl. reflexivity.
Qed.

(* every retype that the differ's predicate calls safe is not reported at all *)
Theorem safe_retype_unreported e s :
  wf_schema s -> safe_retype e s -> diff_model s (apply_edit e s) = [].
Proof.
  intros Hw Hs. destruct e; simpl in Hs; try contradiction; simpl apply_edit.
  - (* field *)
    destruct Hs as (fs & f0 & Hu & Hf & _ & Hsafe).
    destruct (wf_fields s tn fs Hw Hu) as (_ & _ & _ & _ & Hnu & Hna).
    apply (fields_update_nil s tn fs (upd_field fn (set_f_type t)) Hw Hu).
    apply (diff_fields_safe_upd tn fs fn f0 (set_f_type t) Hnu Hna (fun _ => eq_refl) Hf).
    apply diff_field_retype; [|exact Hsafe]. rewrite Forall_forall in Hna. apply Hna.
    apply (look_some_in f_name _ _ _ Hf).
  - (* field argument *)
    destruct Hs as (fs & f0 & a & Hu & Hf & Ha & _ & Hsafe).
    destruct (wf_fields s tn fs Hw Hu) as (_ & _ & _ & _ & Hnu & Hna).
    apply (fields_update_nil s tn fs (upd_field fn (set_f_args (upd_arg an (set_a_type t)))) Hw Hu).
    apply (diff_fields_safe_upd tn fs fn f0 (set_f_args (upd_arg an (set_a_type t))) Hnu Hna (fun _ => eq_refl) Hf).
    apply (diff_field_arg_retype tn f0 an a t); [|exact Ha|exact Hsafe].
    rewrite Forall_forall in Hna. apply Hna. apply (look_some_in f_name _ _ _ Hf).
  - (* input field *)
    destruct Hs as (fs & f0 & Hu & Hf & _ & Hsafe).
    destruct (user_body_found _ _ _ Hu) as (t0 & Hft & Hin & Hn & Hi & Hb).
    eapply (type_update_nil s tn _ t0 Hw Hft). rewrite Hb. simpl.
    apply (diff_input_safe_upd tn fs fn f0 t); [|exact Hf|exact Hsafe].
    destruct Hw as (_ & _ & Hbd & _). rewrite Forall_forall in Hbd. specialize (Hbd t0 Hin). rewrite Hb in Hbd. exact Hbd.
  - (* directive argument *)
    destruct Hs as (d0 & a & Hu & Ha & _ & Hsafe).
    destruct (user_dir_found _ _ _ Hu) as (Hfd & Hin & Hn & Hsp).
    apply (dir_update_nil s dn (set_d_args (upd_arg an (set_a_type t))) d0 Hw Hfd); try reflexivity.
    apply (diff_args_safe_upd _ _ _ _ _ _ an a t); [|exact Ha|exact Hsafe].
    destruct Hw as (_ & _ & _ & Hda). rewrite Forall_forall in Hda. apply Hda; exact Hin.
Qed.
