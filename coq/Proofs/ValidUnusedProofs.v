(* NoUnusedFragments jointly with NoFragmentCycles: the implementation counts
   a spread anywhere as a use; without cycles this is reachability from an
   operation (every backward chain of spreads must end in an operation,
   because the fragment names are finitely many). *)
From PyGql Require Import Valid.ValidOverlap Spec.ValidSpec Proofs.ValidCloseProofs
     Proofs.ValidGraphProofs Proofs.ValidVarProofs Proofs.ValidPermProofs.
From Coq Require Import Lia.

Lemma walk_trans d a b c : walk d a b -> walk d b c -> walk d a c.
Proof.
  intros Hab Hbc. induction Hbc as [b c He|b y c Hw IH He].
  - eapply walk_step; eassumption.
  - eapply walk_step; [apply IH; exact Hab|exact He].
Qed.

Lemma used_step d g f : fragment_used d g -> frag_edge d g f -> fragment_used d f.
Proof.
  intros [op [Hop [Hisop Hr]]] He. exists op. split; [exact Hop|]. split; [exact Hisop|].
  eapply fr_step; eassumption.
Qed.

Lemma back_chain d :
  (forall f, defined_fragment d f -> exists df, In df (doc_defs d) /\ sels_spread (def_sels df) f) ->
  forall n f seen,
    In f (frag_names d) -> NoDup (f :: seen) -> incl seen (frag_names d) ->
    (forall x, In x seen -> walk d f x) ->
    length (frag_names d) <= n + length seen ->
    fragment_used d f \/ has_cycle d.
Proof.
  intros Hall. induction n as [|n IH]; intros f seen Hf Hnd Hincl Hwalk Hlen.
  - exfalso. assert (Hle : length (f :: seen) <= length (frag_names d)).
    { apply NoDup_incl_length; [exact Hnd|]. intros x [<-|Hx]; [exact Hf|apply Hincl; exact Hx]. }
    simpl in Hle, Hlen. lia.
  - destruct (Hall f) as [df [Hdf Hs]]; [apply frag_names_In; exact Hf|].
    destruct df as [k nm vds dirs ssl sels l|nm vds tc dirs ssl sels l| | | | | | | | ];
      try (destruct Hs as [y [[] _]]).
    + left. exists (DOperation k nm vds dirs ssl sels l). split; [exact Hdf|]. split; [exact I|].
      apply fr_direct. exact Hs.
    + set (g := n_val nm).
      assert (He : frag_edge d g f).
      { exists (DFragment nm vds tc dirs ssl sels l). split; [exact Hdf|]. split; [reflexivity|exact Hs]. }
      destruct (str_eq_dec g f) as [Hgf|Hgf].
      * right. exists f. apply walk_one. rewrite <- Hgf at 1. exact He.
      * destruct (in_dec str_eq_dec g seen) as [Hin|Hnin].
        -- right. exists f. eapply walk_step; [apply Hwalk; exact Hin|exact He].
        -- destruct (IH g (f :: seen)) as [Hu|Hc].
           ++ eapply edge_source_defined. exact He.
           ++ constructor; [|exact Hnd]. intros [Heq|Hin]; [apply Hgf; symmetry; exact Heq|contradiction].
           ++ intros x [<-|Hx]; [exact Hf|apply Hincl; exact Hx].
           ++ intros x [<-|Hx]; [apply walk_one; exact He|].
              eapply walk_trans; [apply walk_one; exact He|apply Hwalk; exact Hx].
           ++ simpl. lia.
           ++ left. eapply used_step; eassumption.
           ++ right. exact Hc.
Qed.

Theorem r12_joint s d :
  NoDup (frag_names d) -> r14_no_fragment_cycles s d = Ok [] ->
  (r12_no_unused_fragments s d = [] <-> spec_no_unused_fragments d).
Proof.
  intros Hnd H14. split; [|apply r12_spec_implies_silent].
  intros H12 f Hf. apply (r14_equiv s d Hnd) in H14.
  pose proof (proj1 (r12_silent_iff s d) H12) as Hall.
  destruct (back_chain d Hall (length (frag_names d)) f []) as [Hu|Hc].
  - apply frag_names_In. exact Hf.
  - constructor; [intros []|constructor].
  - intros x [].
  - intros x [].
  - simpl. lia.
  - exact Hu.
  - contradiction.
Qed.
