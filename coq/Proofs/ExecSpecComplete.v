(* Completeness of the executor model against the declarative relation, for
   the grouping the code computes: whenever ExecuteSelectionSet / ExecuteField /
   CompleteValue (Spec/ExecSpec.v, with G = the code's collect_fields as in
   Proofs/ExecSpecProofs.v) has a result without a failed sub-selection
   collect, exec_sel returns exactly that result from some amount of
   object-level fuel on. With soundness (exec_sel_spec) this characterises the
   Ok results of the model: r is returned (for all large fuel) iff the
   relation derives r. *)
From PyGql Require Import Spec.ExecSpec Proofs.ExecProofs Proofs.ExecCollectProofs.
From PyGql Require Import Proofs.ExecRejProofs Proofs.ExecSpecProofs Proofs.ExecSpecDet.

Arguments field_definition : simpl never.
Arguments collect_for : simpl never.
Arguments complete_named : simpl never.
Arguments complete_field : simpl never.
Arguments resolve_field : simpl never.

Definition evf (P : nat -> Prop) : Prop := exists F, forall fuel, F <= fuel -> P fuel.

Lemma evf_const (P : nat -> Prop) : (forall a, P a) -> evf P.
Proof. intros H. exists 0. intros; apply H. Qed.

Lemma evf_and P Q : evf P -> evf Q -> evf (fun a => P a /\ Q a).
Proof. intros (F1 & H1) (F2 & H2). exists (Nat.max F1 F2). intros a Ha. split; [apply H1|apply H2]; lia. Qed.

Lemma evf_mono (P Q : nat -> Prop) : (forall a, P a -> Q a) -> evf P -> evf Q.
Proof. intros H (F & HP). exists F. intros a Ha. apply H, HP; assumption. Qed.

Section Complete.
  Variable sch : schema.
  Variable frags : frag_table.
  Variable vs : vars.
  Variable coerce_args : fdef -> selection -> outcome (list (str * pv)).
  Variable world : world_t.
  Variable tyres : str -> option (pv -> tyname_res).
  Variable cfuel : nat.

  Notation G0 := (G sch frags vs cfuel).
  Notation ex := (exec_sel sch frags vs coerce_args world tyres cfuel).

  Lemma resolve_type_complete n v rt :
    spec_runtime_type sch tyres n v rt -> resolve_type sch tyres n v = Ok rt.
  Proof.
    unfold spec_runtime_type, resolve_type, is_object.
    intros (Hm & Ho & ps & Hp & Hi).
    destruct (get_type sch rt) as [[fs ifs| | | | |]|] eqn:Eg; try discriminate.
    apply mem_str_In in Hi.
    destruct Hm as [Hm|[Hm ->]]; rewrite Hm; simpl; rewrite Eg, Hp, Hi; reflexivity.
  Qed.

  Lemma field_definition_complete tn node k fd :
    spec_field_def sch tn node k fd -> field_definition sch tn (sel_name node) = Ok (Some (k, fd)).
  Proof.
    unfold spec_field_def, field_definition.
    intros [(A & -> & ->)|(N1 & N2 & N3 & -> & fs & ifs & Hg & Hf)].
    - rewrite A, str_eqb_refl. reflexivity.
    - destruct (str_eqb_spec (sel_name node) s_typename); [contradiction|].
      destruct (str_eqb_spec (sel_name node) s_schema); [contradiction|].
      destruct (str_eqb_spec (sel_name node) s_type); [contradiction|]. simpl.
      rewrite Hg, Hf. reflexivity.
  Qed.

  Lemma field_definition_complete_undef tn node :
    spec_field_undef sch tn node -> field_definition sch tn (sel_name node) = Ok None.
  Proof.
    unfold spec_field_undef, field_definition. intros (N1 & N2 & N3 & fs & ifs & Hg & Hf).
    destruct (str_eqb_spec (sel_name node) s_typename); [contradiction|].
    destruct (str_eqb_spec (sel_name node) s_schema); [contradiction|].
    destruct (str_eqb_spec (sel_name node) s_type); [contradiction|]. simpl.
    rewrite Hg, Hf. reflexivity.
  Qed.

  Definition QC nodes t p v r es :=
    no_abort es -> evf (fun fuel => complete_value sch tyres (ex fuel) nodes t p v = Ok (r, es)).
  Definition QI nodes t p i items rs es :=
    no_abort es -> evf (fun fuel => complete_items (complete_value sch tyres (ex fuel) nodes t) p i items = Ok (rs, es)).
  Definition QS tn v p sels d es := no_abort es -> evf (fun fuel => ex fuel tn v p sels = Ok (d, es)).
  Definition QG tn v p g kvs es :=
    no_abort es -> evf (fun fuel => exec_groups sch coerce_args world tyres (ex fuel) tn v p g = Ok (kvs, es)).
  Definition QF tn v k fd nodes p r es :=
    no_abort es -> evf (fun fuel => resolve_field sch coerce_args world tyres (ex fuel) tn v k fd nodes p = Ok (r, es)).
  Definition QA (nodes : list selection) (t : tref) (p : path) (v : pv) (es : list error) := True.
  Definition QAI (nodes : list selection) (t : tref) (p : path) (i : N) (items : list pv) (es : list error) := True.

  Lemma complete_field_of_value (sub : str -> pv -> path -> list selection -> result) nodes t p v r :
    complete_value sch tyres sub nodes t p v = Ok r -> complete_field sch tyres sub nodes t p v = Ok r.
  Proof. intros H. unfold complete_field. rewrite H. reflexivity. Qed.

  Theorem S_complete :
    (forall nodes t p v r es, SComplete sch coerce_args world tyres G0 nodes t p v r es -> QC nodes t p v r es) /\
    (forall nodes t p i items rs es, SItems sch coerce_args world tyres G0 nodes t p i items rs es -> QI nodes t p i items rs es) /\
    (forall tn v p sels d es, SSel sch coerce_args world tyres G0 tn v p sels d es -> QS tn v p sels d es) /\
    (forall tn v p g kvs es, SGroups sch coerce_args world tyres G0 tn v p g kvs es -> QG tn v p g kvs es) /\
    (forall tn v k fd nodes p r es, SField_ sch coerce_args world tyres G0 tn v k fd nodes p r es -> QF tn v k fd nodes p r es) /\
    (forall nodes t p v es, SAbort sch coerce_args world tyres G0 nodes t p v es -> QA nodes t p v es) /\
    (forall nodes t p i items es, SAbortItems sch coerce_args world tyres G0 nodes t p i items es -> QAI nodes t p i items es).
  Proof.
    apply S_mutind; unfold QC, QI, QS, QG, QF, QA, QAI; intros; try exact I.
    - (* SC_nonnull *)
      eapply evf_mono; [|apply H0; assumption]. intros fuel Hc. simpl. rewrite Hc. simpl.
      destruct r; try reflexivity. congruence.
    - (* SC_nonnull_null *)
      apply no_abort_app in H1 as [NA _].
      eapply evf_mono; [|apply H0; exact NA]. intros fuel Hc. simpl. rewrite Hc. reflexivity.
    - apply evf_const. intros; reflexivity.
    - apply evf_const. intros; reflexivity.
    - (* SC_list *)
      eapply evf_mono; [|apply H2; assumption]. intros fuel Hc. simpl.
      destruct v; try congruence; simpl; simpl in H0; rewrite ?H0; try (inversion H0; subst); rewrite Hc; reflexivity.
    - (* SC_scalar *)
      apply evf_const. intros fuel. simpl. destruct v; try congruence; unfold complete_named; rewrite H0, H1; reflexivity.
    - (* SC_enum *)
      apply evf_const. intros fuel. simpl.
      assert (Hh : hashable v = true) by (unfold enum_get_name in H1; destruct (hashable v); [reflexivity|discriminate]).
      destruct v; try congruence; unfold complete_named; rewrite H0, Hh, H1; reflexivity.
    - (* SC_object *)
      eapply evf_mono; [|apply H2; assumption]. intros fuel Hc. simpl.
      destruct v; try congruence; unfold complete_named; rewrite H0; exact Hc.
    - (* SC_abstract *)
      eapply evf_mono; [|apply H3; assumption]. intros fuel Hc. simpl.
      pose proof (resolve_type_complete _ _ _ H1) as Hrt.
      unfold is_abstract in H0.
      destruct v; try congruence; unfold complete_named;
        destruct (get_type sch n) as [[| | | | |]|]; try discriminate; rewrite Hrt; simpl; exact Hc.
    - apply evf_const. intros; reflexivity.
    - (* SI_cons *)
      apply no_abort_app in H3 as [NA1 NA2].
      eapply evf_mono; [|apply evf_and; [apply H0; exact NA1|apply H2; exact NA2]].
      intros fuel [Hc1 Hc2]. simpl. rewrite Hc1. simpl. rewrite Hc2. reflexivity.
    - (* SS_sel *)
      destruct (H1 H2) as [F HF]. exists (S F). intros fuel Hle. destruct fuel as [|fuel]; [lia|].
      simpl. destruct H as [Hg _]. rewrite Hg. simpl. rewrite HF by lia. reflexivity.
    - apply evf_const. intros; reflexivity.
    - (* SG_skip *)
      eapply evf_mono; [|apply H1; assumption]. intros fuel Hc. simpl.
      rewrite (field_definition_complete_undef _ _ H). simpl. exact Hc.
    - (* SG_cons *)
      apply no_abort_app in H4 as [NA1 NA2].
      eapply evf_mono; [|apply evf_and; [apply H1; exact NA1|apply H3; exact NA2]].
      intros fuel [Hc1 Hc2]. simpl. rewrite (field_definition_complete _ _ _ _ H). simpl.
      rewrite Hc1. simpl. rewrite Hc2. reflexivity.
    - (* SFd_coercion *)
      apply evf_const. intros fuel. unfold resolve_field. rewrite H. reflexivity.
    - (* SFd_error *)
      apply evf_const. intros fuel. unfold resolve_field. rewrite H.
      unfold spec_resolved in H0. destruct k; try contradiction; [|discriminate].
      destruct (world p v tname (f_name fd) args); try discriminate; inversion H0; subst; reflexivity.
    - (* SFd_value *)
      eapply evf_mono; [|apply H2; assumption]. intros fuel Hc. unfold resolve_field. rewrite H.
      unfold spec_resolved in H0. destruct k; try contradiction.
      + destruct (world p v tname (f_name fd) args); try discriminate; inversion H0; subst;
          apply complete_field_of_value; exact Hc.
      + inversion H0; subst. apply complete_field_of_value; exact Hc.
    - (* SFd_abort: excluded by the premise *)
      exfalso. apply no_abort_app in H3 as [_ NA]. inversion NA as [|? ? Hx _]; subst. discriminate Hx.
  Qed.

  Theorem exec_sel_complete tn v p sels d es :
    SSel sch coerce_args world tyres G0 tn v p sels d es -> no_abort es ->
    exists F, forall fuel, F <= fuel -> ex fuel tn v p sels = Ok (d, es).
  Proof. intros H NA. exact (proj1 (proj2 (proj2 S_complete)) _ _ _ _ _ _ H NA). Qed.

  (* the Ok results of the model are exactly the results of the relation *)
  Theorem exec_sel_characterised tn v p sels d es :
    no_abort es ->
    (SSel sch coerce_args world tyres G0 tn v p sels d es <->
     exists fuel, ex fuel tn v p sels = Ok (d, es)).
  Proof.
    intros NA. split.
    - intros H. destruct (exec_sel_complete _ _ _ _ _ _ H NA) as [F HF]. exists F. apply HF. lia.
    - intros [fuel H]. exact (exec_sel_spec sch frags vs coerce_args world tyres cfuel fuel tn v p sels (d, es) H).
  Qed.
End Complete.

(* query and mutation root fields are executed by the same function, in
   grouping order (BlockingExecutor.execute_fields_serially = execute_fields;
   the deferred executor's serial/parallel distinction is C08/C09's subject) *)
Theorem execute_serial_is_parallel sch coerce_args world tyres cfuel fuel d opname vs root k sels rt :
  get_operation d opname = Ok (k, sels) -> k <> OpSubscription ->
  match k with OpQuery => s_query sch | OpMutation => s_mutation sch | OpSubscription => s_subscription sch end = Some rt ->
  execute sch coerce_args world tyres cfuel fuel d opname vs root =
  exec_sel sch (frag_table_of (doc_defs d)) vs (coerce_args vs) world tyres cfuel fuel rt root [] sels.
Proof.
  intros Hop Hk Hrt. unfold execute. rewrite Hop. simpl. rewrite Hrt. destruct k; try reflexivity. congruence.
Qed.
