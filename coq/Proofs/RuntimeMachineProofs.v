(* Proofs about the executor machine (Exec/RuntimeMachine.v).
   Part A: a denotation of deferred terms (value class + the log entries still
   to come) that the synchronous phase establishes and every completion step
   preserves => confluence with the blocking result, unexpected exceptions. *)
From Coq Require Import List NArith ZArith Bool Arith Lia Permutation.
Import ListNotations.
From PyGql Require Import Exec.RuntimeMachine.

Scheme fld_mut := Induction for fld Sort Prop
with body_mut := Induction for body Sort Prop
with flds_mut := Induction for flds Sort Prop
with items_mut := Induction for items Sort Prop
with item_mut := Induction for item Sort Prop.
Combined Scheme prog_mutind from fld_mut, body_mut, flds_mut, items_mut, item_mut.

(* ---------------------------------------------------------------- *)
(* denotation                                                        *)

Fixpoint bs_serial (acc : list (N * val)) (rest : flds) : option val * list entry :=
  match rest with
  | FNil => (Some (VObj acc), [])
  | FCons f r =>
      let '(x, es) := bs_field [] f in
      match x with
      | None => (None, es)
      | Some v => let '(y, es') := bs_serial (acc ++ [(key_of f, v)]) r in (y, es ++ es')
      end
  end.

Definition den_k (k : K) (v : val) : option val * list entry :=
  match k with
  | KComplete (Fld _ _ nn b) p => bs_complete nn b p
  | KCollect keys => (Some (VObj (combine keys (list_of v))), [])
  | KNonNull p => (Some v, if is_null v then [LErr p ENonNull] else [])
  | KSerial k acc rest => bs_serial (acc ++ [(k, v)]) rest
  | KFinish => (Some v, [])
  end.

Definition cons_opt {A} (x : option A) (y : option (list A)) : option (list A) :=
  match x, y with Some v, Some vs => Some (v :: vs) | _, _ => None end.

Fixpoint den (d : D) : option val * list entry :=
  match d with
  | Val v => (Some v, [])
  | Exn _ => (None, [])
  | Task t more => (Some VNull, task_log t more)
  | Bind d1 k =>
      let '(r, es) := den d1 in
      match r with
      | Some v => let '(r', es') := den_k k v in (r', es ++ es')
      | None => (None, es)
      end
  | Gather ds =>
      let '(r, es) :=
        (fix go (ds : list D) : option (list val) * list entry :=
           match ds with
           | [] => (Some [], [])
           | d :: rest => let '(x, e1) := den d in let '(y, e2) := go rest in (cons_opt x y, e1 ++ e2)
           end) ds in
      (option_map VList r, es)
  end.

Fixpoint den_list (ds : list D) : option (list val) * list entry :=
  match ds with
  | [] => (Some [], [])
  | d :: rest => let '(x, e1) := den d in let '(y, e2) := den_list rest in (cons_opt x y, e1 ++ e2)
  end.

Lemma den_gather ds : den (Gather ds) = let '(r, es) := den_list ds in (option_map VList r, es).
Proof.
  assert (H : (fix go (ds : list D) : option (list val) * list entry :=
                 match ds with
                 | [] => (Some [], [])
                 | d :: rest => let '(x, e1) := den d in let '(y, e2) := go rest in (cons_opt x y, e1 ++ e2)
                 end) ds = den_list ds).
  { induction ds as [|d ds IH]; [reflexivity|]. simpl. rewrite IH. reflexivity. }
  simpl. rewrite H. reflexivity.
Qed.

Lemma den_bind d k :
  den (Bind d k) =
  let '(r, es) := den d in
  match r with
  | Some v => let '(r', es') := den_k k v in (r', es ++ es')
  | None => (None, es)
  end.
Proof. reflexivity. Qed.

Lemma all_vals_den ds vs : all_vals ds = Some vs -> den_list ds = (Some vs, []).
Proof.
  revert vs. induction ds as [|d ds IH]; intros vs H; simpl in *.
  - inversion H. reflexivity.
  - destruct d; try discriminate. destruct (all_vals ds) as [vs'|]; [|discriminate].
    inversion H; subst. rewrite (IH vs' eq_refl). reflexivity.
Qed.

Lemma all_vals_length ds vs : all_vals ds = Some vs -> length vs = length ds.
Proof.
  revert vs. induction ds as [|d ds IH]; intros vs H; simpl in *.
  - inversion H. reflexivity.
  - destruct d; try discriminate. destruct (all_vals ds) as [vs'|]; [|discriminate].
    inversion H; subst. simpl. f_equal. apply IH. reflexivity.
Qed.

(* ---------------------------------------------------------------- *)
(* permutation helpers                                               *)
Lemma perm_swap_mid {A} (a b c d : list A) :
  Permutation ((a ++ b) ++ (c ++ d)) ((a ++ c) ++ (b ++ d)).
Proof.
  rewrite <- !app_assoc. apply Permutation_app_head.
  rewrite !app_assoc. apply Permutation_app_tail. apply Permutation_app_comm.
Qed.

Lemma perm_combine {A} (n1 n2 d1 d2 b1 b2 : list A) :
  Permutation (n1 ++ d1) b1 -> Permutation (n2 ++ d2) b2 ->
  Permutation ((n1 ++ n2) ++ (d1 ++ d2)) (b1 ++ b2).
Proof.
  intros H1 H2. rewrite perm_swap_mid. apply Permutation_app; assumption.
Qed.

(* ---------------------------------------------------------------- *)
(* state bookkeeping                                                 *)
Lemma log_emit e st : log (emit e st) = log st ++ [e].
Proof. reflexivity. Qed.
Lemma orphans_emit e st : orphans (emit e st) = orphans st.
Proof. reflexivity. Qed.
Lemma log_add_pending t st : log (add_pending t st) = log st.
Proof. reflexivity. Qed.
Lemma log_add_raised x st : log (add_raised x st) = log st.
Proof. reflexivity. Qed.
Lemma log_add_orphan d st : log (add_orphan d st) = log st.
Proof. unfold add_orphan. destruct (is_done d); reflexivity. Qed.
Lemma log_add_orphans ds st : log (add_orphans ds st) = log st.
Proof.
  unfold add_orphans. revert st. induction ds as [|d ds IH]; intros st; simpl; [reflexivity|].
  rewrite IH. apply log_add_orphan.
Qed.

(* ---------------------------------------------------------------- *)
(* soundness of the synchronous phase w.r.t. the blocking semantics  *)

(* [r] is what a synchronous call returned from state [st]; [b] the blocking
   evaluation of the same program fragment *)
Definition sound_s (r : sres * mstate) (st : mstate) (b : option val * list entry) : Prop :=
  exists new, log (snd r) = log st ++ new /\
    match fst r with
    | SOk d => fst (den d) = fst b /\
               (fst b <> None -> Permutation (new ++ snd (den d)) (snd b) /\ orphans (snd r) = orphans st)
    | SRaise _ => fst b = None
    end.

Definition sound_f {A} (wrap : list val -> A) (r : fres * mstate) (st : mstate)
           (b : option A * list entry) (n : nat) : Prop :=
  exists new, log (snd r) = log st ++ new /\
    match fst r with
    | FOk ds => length ds = n /\ option_map wrap (fst (den_list ds)) = fst b /\
                (fst b <> None -> Permutation (new ++ snd (den_list ds)) (snd b) /\ orphans (snd r) = orphans st)
    | FRaise _ => fst b = None
    end.

Definition not_null (o : option val) : Prop := forall v, o = Some v -> is_null v = false.

Lemma nonnull_wrap_sound nn p r st b :
  sound_s r st b -> not_null (fst b) -> sound_s (nonnull_wrap nn p r) st b.
Proof.
  intros H Hnn. unfold nonnull_wrap. destruct nn; [|exact H].
  destruct r as [[d|x] st']; [|exact H].
  destruct H as (new & Hlog & Hd). simpl in Hlog, Hd. destruct Hd as [Hv Hp].
  destruct d as [v| | | |].
  - (* plain value *)
    simpl in Hv. assert (Hn : is_null v = false) by (apply Hnn; symmetry; exact Hv).
    rewrite Hn. exists new. simpl. auto.
  - exists new. simpl. split; [exact Hlog|]. split; [exact Hv|].
    intros Hb. simpl in Hv. congruence.
  - exists new. split; [exact Hlog|]. cbn [fst snd]. rewrite den_bind.
    destruct (den (Task t more)) as [r es] eqn:E. cbn [fst snd] in *.
    destruct r as [v|]; cbn [den_k fst snd].
    + assert (Hn : is_null v = false) by (apply Hnn; symmetry; exact Hv). rewrite Hn.
      split; [exact Hv|]. rewrite app_nil_r. exact Hp.
    + split; [exact Hv|]. intros Hb. congruence.
  - exists new. split; [exact Hlog|]. cbn [fst snd]. rewrite den_bind.
    destruct (den (Bind d k)) as [r es] eqn:E. cbn [fst snd] in *.
    destruct r as [v|]; cbn [den_k fst snd].
    + assert (Hn : is_null v = false) by (apply Hnn; symmetry; exact Hv). rewrite Hn.
      split; [exact Hv|]. rewrite app_nil_r. exact Hp.
    + split; [exact Hv|]. intros Hb. congruence.
  - exists new. split; [exact Hlog|]. cbn [fst snd]. rewrite den_bind.
    destruct (den (Gather ds)) as [r es] eqn:E. cbn [fst snd] in *.
    destruct r as [v|]; cbn [den_k fst snd].
    + assert (Hn : is_null v = false) by (apply Hnn; symmetry; exact Hv). rewrite Hn.
      split; [exact Hv|]. rewrite app_nil_r. exact Hp.
    + split; [exact Hv|]. intros Hb. congruence.
Qed.

Fixpoint flds_length (fs : flds) : nat := match fs with FNil => 0 | FCons _ r => S (flds_length r) end.
Fixpoint items_length (its : items) : nat := match its with INil => 0 | ICons _ r => S (items_length r) end.
Lemma keys_of_length fs : length (keys_of fs) = flds_length fs.
Proof. induction fs; simpl; congruence. Qed.

Lemma bs_fields_keys : forall fs p kvs, fst (bs_fields p fs) = Some kvs -> map fst kvs = keys_of fs.
Proof.
  induction fs as [|f fs IH]; intros p kvs H; simpl in H.
  - inversion H. reflexivity.
  - destruct (bs_field p f) as [r es]. destruct r as [v|]; [|discriminate].
    destruct (bs_fields p fs) as [r' es'] eqn:E. destruct r' as [kvs'|]; [|discriminate].
    simpl in H. inversion H; subst. simpl. f_equal. apply (IH p). rewrite E. reflexivity.
Qed.

Lemma combine_map_fst_snd {A B} (l : list (A * B)) : combine (map fst l) (map snd l) = l.
Proof. induction l as [|[a b] l IH]; simpl; congruence. Qed.

Lemma sound_s_prefix r st1 st b pre :
  sound_s r st1 b -> log st1 = log st ++ pre -> orphans st1 = orphans st ->
  sound_s r st (fst b, pre ++ snd b).
Proof.
  intros (new & Hlog & H) Hl Ho. exists (pre ++ new). split.
  - rewrite Hlog, Hl, app_assoc. reflexivity.
  - destruct (fst r) as [d|x]; [|exact H]. destruct H as [Hv Hp]. split; [exact Hv|].
    cbn [fst snd]. intros Hb. destruct (Hp Hb) as [Hperm Hor]. split; [|congruence].
    rewrite <- app_assoc. apply Permutation_app_head. exact Hperm.
Qed.

(* preservation relation for steps on terms *)
Definition pres (r : D * mstate) (st : mstate) (b : option val * list entry) : Prop :=
  exists new, log (snd r) = log st ++ new /\ fst (den (fst r)) = fst b /\
    (fst b <> None -> Permutation (new ++ snd (den (fst r))) (snd b) /\ orphans (snd r) = orphans st).

Lemma first_exn_den ds x : first_exn ds = Some x -> fst (den_list ds) = None.
Proof.
  induction ds as [|d ds IH]; intros H; simpl in H; [discriminate|].
  cbn [den_list]. destruct (den d) as [xd e1] eqn:Ed. destruct (den_list ds) as [y e2]. cbn [fst] in *.
  destruct d; try (rewrite (IH H); destruct xd; reflexivity).
  simpl in Ed. inversion Ed. reflexivity.
Qed.

Lemma gather_norm_pres ds st : pres (gather_norm ds st) st (den (Gather ds)).
Proof.
  unfold gather_norm. rewrite den_gather.
  destruct (first_exn ds) as [x|] eqn:Ex.
  - exists []. cbn [fst snd]. rewrite log_add_orphans, app_nil_r. split; [reflexivity|].
    rewrite (surjective_pairing (den_list ds)). rewrite (first_exn_den ds x Ex). cbn.
    split; [reflexivity|]. intros Hc. contradiction.
  - destruct (all_vals ds) as [vs|] eqn:Ev.
    + exists []. cbn [fst snd]. rewrite app_nil_r. split; [reflexivity|].
      rewrite (all_vals_den ds vs Ev). cbn. repeat split. apply Permutation_refl.
    + exists []. cbn [fst snd]. rewrite app_nil_r. split; [reflexivity|].
      rewrite den_gather. split; [reflexivity|]. intros _. split; [apply Permutation_refl|reflexivity].
Qed.


Lemma gather_sync_pres ds st :
  pres (gather_sync ds st) st (option_map VList (fst (den_list ds)), snd (den_list ds)).
Proof.
  pose proof (gather_norm_pres ds st) as H. rewrite den_gather in H.
  destruct (den_list ds) as [r es]. exact H.
Qed.

Lemma collect_sync_pres keys ds st :
  pres (collect_sync keys ds st) st
       (option_map (fun vs => VObj (combine keys vs)) (fst (den_list ds)), snd (den_list ds)).
Proof.
  unfold collect_sync. pose proof (gather_sync_pres ds st) as H. unfold gather_sync in H.
  destruct (gather_norm ds st) as [g st1]. destruct H as (new & Hlog & Hv & Hp). cbn [fst snd] in *.
  destruct (den_list ds) as [r es]. cbn [fst snd] in *.
  assert (Hdef : pres (Bind g (KCollect keys), st1) st
                      (option_map (fun vs => VObj (combine keys vs)) r, es)).
  { exists new. split; [exact Hlog|]. cbn [fst snd]. rewrite den_bind.
    destruct (den g) as [rg eg]. cbn [fst snd] in *. subst rg.
    destruct r as [vs|]; cbn [option_map den_k list_of fst snd].
    - split; [reflexivity|]. intros _. rewrite app_nil_r. apply Hp. discriminate.
    - split; [reflexivity|]. intros Hc. contradiction. }
  destruct g as [v|x| | |]; exact Hdef.
Qed.

Lemma fields_to_s keys r st b :
  sound_f (fun vs => combine keys vs) r st b (length keys) ->
  sound_s (match r with
           | (FOk ds, st1) => let '(d, st2) := collect_sync keys ds st1 in (SOk d, st2)
           | (FRaise x, st1) => (SRaise x, st1)
           end) st (option_map VObj (fst b), snd b).
Proof.
  intros (new & Hlog & H). destruct r as [[ds|x] st1]; cbn [fst snd] in *.
  - destruct H as (Hlen & Hv & Hp).
    pose proof (collect_sync_pres keys ds st1) as Hc.
    destruct (collect_sync keys ds st1) as [d st2]. destruct Hc as (new2 & Hlog2 & Hv2 & Hp2).
    cbn [fst snd] in *. exists (new ++ new2). split; [cbn [fst snd]; rewrite Hlog2, Hlog, app_assoc; reflexivity|]. cbn [fst snd].
    split.
    + rewrite Hv2, <- Hv. destruct (fst (den_list ds)); reflexivity.
    + intros Hb. assert (Hb1 : fst b <> None) by (intros Hc; apply Hb; rewrite Hc; reflexivity).
      destruct (Hp Hb1) as [Pm1 Ho1].
      assert (Hb2 : option_map (fun vs => VObj (combine keys vs)) (fst (den_list ds)) <> None).
      { intros Hc. apply Hb1. rewrite <- Hv. destruct (fst (den_list ds)); [discriminate|reflexivity]. }
      destruct (Hp2 Hb2) as [Pm2 Ho2]. split; [|congruence].
      rewrite <- app_assoc. rewrite (Permutation_app_head new Pm2). exact Pm1.
  - exists new. split; [exact Hlog|]. cbn [fst snd]. rewrite H. reflexivity.
Qed.

Lemma items_to_s r st b n :
  sound_f (fun vs => vs) r st b n ->
  sound_s (match r with
           | (FOk ds, st1) => let '(d, st2) := gather_sync ds st1 in (SOk d, st2)
           | (FRaise x, st1) => (SRaise x, st1)
           end) st (option_map VList (fst b), snd b).
Proof.
  intros (new & Hlog & H). destruct r as [[ds|x] st1]; cbn [fst snd] in *.
  - destruct H as (Hlen & Hv & Hp).
    pose proof (gather_sync_pres ds st1) as Hc.
    destruct (gather_sync ds st1) as [d st2]. destruct Hc as (new2 & Hlog2 & Hv2 & Hp2).
    cbn [fst snd] in *. exists (new ++ new2). split; [cbn [fst snd]; rewrite Hlog2, Hlog, app_assoc; reflexivity|]. cbn [fst snd].
    split.
    + rewrite Hv2, <- Hv. destruct (fst (den_list ds)); reflexivity.
    + intros Hb. assert (Hb1 : fst b <> None) by (intros Hc; apply Hb; rewrite Hc; reflexivity).
      destruct (Hp Hb1) as [Pm1 Ho1].
      assert (Hb2 : option_map VList (fst (den_list ds)) <> None).
      { intros Hc. apply Hb1. rewrite <- Hv. destruct (fst (den_list ds)); [discriminate|reflexivity]. }
      destruct (Hp2 Hb2) as [Pm2 Ho2]. split; [|congruence].
      rewrite <- app_assoc. rewrite (Permutation_app_head new Pm2). exact Pm1.
  - exists new. split; [exact Hlog|]. cbn [fst snd]. rewrite H. reflexivity.
Qed.

Lemma capture_sound r st b : sound_s r st b -> sound_s (capture r) st b.
Proof.
  intros (new & Hlog & H). destruct r as [[d|x] st']; [exists new; auto|].
  exists new. split; [exact Hlog|]. cbn [fst snd capture den] in *. split; [symmetry; exact H|].
  intros Hb. contradiction.
Qed.

Lemma run_eager_log : forall e t more st,
  exists new, log (snd (run_eager t more e st)) = log st ++ new /\
    orphans (snd (run_eager t more e st)) = orphans st /\
    match fst (run_eager t more e st) with
    | Some (t', m) => new ++ task_log t' m = LInvoke t :: task_log t more
    | None => new = LInvoke t :: task_log t more
    end.
Proof.
  induction e as [|e IH]; intros t more st; cbn [run_eager].
  - exists [LInvoke t]. cbn. repeat split.
  - destruct more as [|m].
    + exists [LInvoke t; LFinish t]. cbn. rewrite <- app_assoc. repeat split.
    + destruct (IH (next_tid t) m (emit (LFinish t) (emit (LInvoke t) st))) as (new & Hl & Ho & Hm).
      exists ([LInvoke t; LFinish t] ++ new). split; [|split; [exact Ho|]].
      * rewrite Hl. cbn. rewrite <- !app_assoc. reflexivity.
      * destruct (fst (run_eager (next_tid t) m e _)) as [[t' m']|].
        -- rewrite <- app_assoc, Hm. reflexivity.
        -- rewrite Hm. reflexivity.
Qed.
(* one more element in front of a field / item loop *)
Lemma sound_f_cons {A} (wrap : list val -> A) (wrap' : list val -> A) (pair : val -> A -> A)
      r1 st1 st b1 (rest : mstate -> fres * mstate) b2 n :
  (forall v vs, wrap' (v :: vs) = pair v (wrap vs)) ->
  sound_s (r1, st1) st b1 ->
  (forall s, sound_f wrap (rest s) s b2 n) ->
  sound_f wrap'
    (match r1 with
     | SRaise x => (FRaise x, st1)
     | SOk d => match rest st1 with
                | (FOk ds, st2) => (FOk (d :: ds), st2)
                | (FRaise x, st2) => (FRaise x, add_orphan d st2)
                end
     end) st
    (match fst b1 with
     | None => (None, snd b1)
     | Some v => (option_map (pair v) (fst b2), snd b1 ++ snd b2)
     end) (S n).
Proof.
  intros Hwrap (new1 & Hlog1 & H1) Hrest. cbn [fst snd] in *.
  destruct r1 as [d|x].
  - destruct H1 as [Hv1 Hp1]. specialize (Hrest st1).
    destruct (rest st1) as [[ds|x] st2]; destruct Hrest as (new2 & Hlog2 & H2); cbn [fst snd] in *.
    + destruct H2 as (Hlen & Hv2 & Hp2). exists (new1 ++ new2). split.
      { cbn [fst snd]. rewrite Hlog2, Hlog1, app_assoc. reflexivity. }
      cbn [fst snd]. split; [simpl; congruence|].
      cbn [den_list]. destruct (den d) as [x e1]. destruct (den_list ds) as [y e2]. cbn [fst snd] in *.
      subst x. destruct (fst b1) as [v|]; cbn [fst snd].
      * split.
        -- rewrite <- Hv2. destruct y as [vs|]; simpl; [rewrite Hwrap|]; reflexivity.
        -- intros Hb. assert (Hb2 : fst b2 <> None) by (intros Hc; apply Hb; rewrite Hc; reflexivity).
           destruct (Hp1 ltac:(discriminate)) as [Pm1 Ho1]. destruct (Hp2 Hb2) as [Pm2 Ho2].
           split; [|congruence]. apply perm_combine; assumption.
      * split; [reflexivity|]. intros Hb. contradiction.
    + exists (new1 ++ new2). split.
      { cbn [fst snd]. rewrite log_add_orphan, Hlog2, Hlog1, app_assoc. reflexivity. }
      cbn [fst snd]. destruct (fst b1); [rewrite H2|]; reflexivity.
  - exists new1. split; [exact Hlog1|]. cbn [fst snd]. rewrite H1. reflexivity.
Qed.

Lemma sync_sound :
  (forall f p st, sound_s (resolve_field p f st) st (bs_field p f)) /\
  (forall b nn p st, sound_s (complete_field nn b p st) st (bs_complete nn b p)) /\
  (forall fs p st, sound_f (fun vs => combine (keys_of fs) vs) (start_fields p fs st) st
                           (bs_fields p fs) (flds_length fs)) /\
  (forall its inn p i st, sound_f (fun vs => vs) (start_items inn p i its st) st
                                  (bs_items inn p i its) (items_length its)) /\
  (forall it inn p st, sound_s (complete_item inn it p st) st (bs_item inn it p)).
Proof.
  apply prog_mutind.
  - (* Fld *)
    intros k dfr nn b IH p st. cbn [resolve_field bs_field].
    destruct (bs_complete nn b (p ++ [k])) as [r es] eqn:Eb.
    destruct dfr as [[n e]|].
    + destruct (run_eager_log e (p ++ [k], O) n st) as (new & Hl & Ho & Hm).
      destruct (run_eager (p ++ [k], O) n e st) as [[[t m]|] st1]; cbn [fst snd] in *.
      * exists new. split; [exact Hl|]. cbn [fst snd]. rewrite den_bind. cbn [den den_k]. rewrite Eb.
        cbn [fst snd]. split; [reflexivity|]. intros _. split; [|exact Ho].
        rewrite app_assoc, Hm. apply Permutation_refl.
      * apply capture_sound. specialize (IH nn (p ++ [k]) st1). rewrite Eb in IH.
        apply (sound_s_prefix _ _ st _ new) in IH; [|exact Hl|exact Ho]. subst new. exact IH.
    + specialize (IH nn (p ++ [k]) (emit (LFinish (p ++ [k], O)) (emit (LInvoke (p ++ [k], O)) st))).
      rewrite Eb in IH.
      apply (sound_s_prefix _ _ st _ [LInvoke (p ++ [k], O); LFinish (p ++ [k], O)]) in IH;
        [exact IH| |reflexivity].
      rewrite !log_emit, <- app_assoc. reflexivity.
  - (* BInt *)
    intros z nn p st. exists []. cbn. rewrite app_nil_r. repeat split. apply Permutation_refl.
  - (* BNull *)
    intros nn p st. cbn [complete_field bs_complete]. destruct nn.
    + exists [LErr p ENonNull]. cbn. repeat split. apply Permutation_refl.
    + exists []. cbn. rewrite app_nil_r. repeat split. apply Permutation_refl.
  - (* BErr *)
    intros nn p st. exists [LErr p EResolver]. cbn. repeat split. apply Permutation_refl.
  - (* BExn *)
    intros x nn p st. exists []. cbn. rewrite app_nil_r. split; reflexivity.
  - (* BObj *)
    intros fs IH nn p st. cbn [complete_field bs_complete].
    destruct (bs_fields p fs) as [r es] eqn:Eb.
    apply nonnull_wrap_sound.
    + specialize (IH p st). rewrite Eb in IH. rewrite <- keys_of_length in IH.
      apply fields_to_s in IH. exact IH.
    + cbn [fst]. intros v Hv. destruct r; inversion Hv. reflexivity.
  - (* BList *)
    intros inn its IH nn p st. cbn [complete_field bs_complete].
    destruct (bs_items inn p 0%N its) as [r es] eqn:Eb.
    apply nonnull_wrap_sound.
    + specialize (IH inn p 0%N st). rewrite Eb in IH. apply items_to_s in IH. exact IH.
    + cbn [fst]. intros v Hv. destruct r; inversion Hv. reflexivity.
  - (* FNil *)
    intros p st. exists []. cbn. rewrite app_nil_r. repeat split. apply Permutation_refl.
  - (* FCons *)
    intros f IHf fs IHfs p st. cbn [start_fields bs_fields flds_length keys_of].
    specialize (IHf p st).
    destruct (resolve_field p f st) as [r1 st1] eqn:E1.
    pose proof (sound_f_cons (fun vs => combine (keys_of fs) vs)
                             (fun vs => combine (key_of f :: keys_of fs) vs)
                             (fun v kvs => (key_of f, v) :: kvs)
                             r1 st1 st (bs_field p f) (start_fields p fs) (bs_fields p fs) (flds_length fs)
                             ltac:(reflexivity) IHf (IHfs p)) as H.
    destruct (bs_field p f) as [r es]. destruct (bs_fields p fs) as [r' es'].
    cbn [fst snd] in H. destruct r as [v|]; exact H.
  - (* INil *)
    intros inn p i st. exists []. cbn. rewrite app_nil_r. repeat split. apply Permutation_refl.
  - (* ICons *)
    intros it IHit its IHits inn p i st. cbn [start_items bs_items items_length].
    specialize (IHit inn (p ++ [i]) st).
    destruct (complete_item inn it (p ++ [i]) st) as [r1 st1] eqn:E1.
    pose proof (sound_f_cons (fun vs => vs) (fun vs => vs) (fun v vs => v :: vs)
                             r1 st1 st (bs_item inn it (p ++ [i]))
                             (start_items inn p (N.succ i) its) (bs_items inn p (N.succ i) its)
                             (items_length its) ltac:(reflexivity) IHit (IHits inn p (N.succ i))) as H.
    destruct (bs_item inn it (p ++ [i])) as [r es]. destruct (bs_items inn p (N.succ i) its) as [r' es'].
    cbn [fst snd] in H. destruct r as [v|]; exact H.
  - (* ItNull *)
    intros inn p st. cbn [complete_item bs_item]. destruct inn.
    + exists [LErr p ENonNull]. cbn. repeat split. apply Permutation_refl.
    + exists []. cbn. rewrite app_nil_r. repeat split. apply Permutation_refl.
  - (* ItInt *)
    intros z inn p st. exists []. cbn. rewrite app_nil_r. repeat split. apply Permutation_refl.
  - (* ItObj *)
    intros fs IH inn p st. cbn [complete_item bs_item].
    destruct (bs_fields p fs) as [r es] eqn:Eb.
    apply nonnull_wrap_sound.
    + specialize (IH p st). rewrite Eb in IH. rewrite <- keys_of_length in IH.
      apply fields_to_s in IH. exact IH.
    + cbn [fst]. intros v Hv. destruct r; inversion Hv. reflexivity.
Qed.

Definition sync_sound_field := proj1 sync_sound.
Definition sync_sound_complete := proj1 (proj2 sync_sound).
Definition sync_sound_fields := proj1 (proj2 (proj2 sync_sound)).

Lemma serial_next_sound : forall rest acc st,
  sound_s (serial_next acc rest st) st (bs_serial acc rest).
Proof.
  induction rest as [|f rest IH]; intros acc st; cbn [serial_next bs_serial].
  - exists []. cbn. rewrite app_nil_r. repeat split. apply Permutation_refl.
  - pose proof (sync_sound_field f [] st) as H1.
    destruct (resolve_field [] f st) as [r1 st1] eqn:E1.
    destruct (bs_field [] f) as [x es] eqn:Eb.
    destruct H1 as (new1 & Hlog1 & H1). cbn [fst snd] in *.
    destruct r1 as [d|xx].
    + destruct H1 as [Hv1 Hp1].
      assert (Hdef : forall d0, d0 = d -> (forall v, d <> Val v) ->
                sound_s (SOk (Bind d0 (KSerial (key_of f) acc rest)), st1) st
                        (match x with
                         | Some v => let '(y, es') := bs_serial (acc ++ [(key_of f, v)]) rest in (y, es ++ es')
                         | None => (None, es)
                         end)).
      { intros d0 -> _. exists new1. split; [exact Hlog1|]. cbn [fst snd]. rewrite den_bind.
        destruct (den d) as [xd e1]. cbn [fst snd] in *. subst xd.
        destruct x as [v|]; cbn [den_k].
        - destruct (bs_serial (acc ++ [(key_of f, v)]) rest) as [y es']. cbn [fst snd].
          split; [reflexivity|]. intros Hy. destruct (Hp1 ltac:(discriminate)) as [Pm Ho].
          split; [|exact Ho]. rewrite app_assoc. apply Permutation_app_tail. exact Pm.
        - cbn [fst snd]. split; [reflexivity|]. intros Hc. contradiction. }
      destruct d as [v|x0| | |]; try (apply Hdef; [reflexivity|discriminate]);
        [|exact (Hdef (Exn x0) eq_refl ltac:(discriminate))].
      (* plain value: the loop goes on *)
      cbn [den fst snd] in Hv1. subst x.
      specialize (IH (acc ++ [(key_of f, v)]) st1).
      destruct (serial_next (acc ++ [(key_of f, v)]) rest st1) as [r2 st2].
      destruct (bs_serial (acc ++ [(key_of f, v)]) rest) as [y es'].
      destruct IH as (new2 & Hlog2 & H2). cbn [fst snd] in *.
      destruct (Hp1 ltac:(discriminate)) as [Pm1 Ho1]. rewrite app_nil_r in Pm1.
      exists (new1 ++ new2). split; [cbn [fst snd]; rewrite Hlog2, Hlog1, app_assoc; reflexivity|].
      cbn [fst snd]. destruct r2 as [d2|x2]; [|exact H2].
      destruct H2 as [Hv2 Hp2]. split; [exact Hv2|]. intros Hy. destruct (Hp2 Hy) as [Pm2 Ho2].
      split; [|congruence]. rewrite <- app_assoc. apply Permutation_app; assumption.
    + exists new1. split; [exact Hlog1|]. cbn [fst snd]. rewrite H1. reflexivity.
Qed.

Lemma lift_pres r st b : sound_s r st b -> pres (lift r) st b.
Proof.
  intros (new & Hlog & H). destruct r as [[d|x] st']; cbn [fst snd lift] in *.
  - exists new. split; [exact Hlog|]. exact H.
  - exists new. split; [exact Hlog|]. cbn [fst snd den]. split; [symmetry; exact H|].
    intros Hb. contradiction.
Qed.

Lemma apply_k_pres k v st : pres (apply_k k v st) st (den_k k v).
Proof.
  destruct k as [f p|keys|p|k acc rest|]; cbn [apply_k den_k].
  - destruct f as [kk dfr nn b]. apply lift_pres. apply sync_sound_complete.
  - exists []. cbn. rewrite app_nil_r. repeat split. apply Permutation_refl.
  - destruct (is_null v).
    + exists [LErr p ENonNull]. cbn. repeat split. apply Permutation_refl.
    + exists []. cbn. rewrite app_nil_r. repeat split. apply Permutation_refl.
  - apply lift_pres. apply serial_next_sound.
  - exists []. cbn. rewrite app_nil_r. repeat split. apply Permutation_refl.
Qed.

Lemma fire_gather t ds st :
  fire t (Gather ds) st = let '(ds', st1) := fire_list t ds st in gather_norm ds' st1.
Proof.
  assert (H : forall ds st,
    (fix go (ds : list D) (st : mstate) : list D * mstate :=
       match ds with
       | [] => ([], st)
       | d :: r => let '(d', s1) := fire t d st in let '(r', s2) := go r s1 in (d' :: r', s2)
       end) ds st = fire_list t ds st).
  { clear. induction ds as [|d ds IH]; intros st; [reflexivity|]. simpl.
    destruct (fire t d st) as [d' s1]. rewrite IH. reflexivity. }
  simpl. rewrite H. reflexivity.
Qed.

Lemma path_eqb_eq a b : path_eqb a b = true -> a = b.
Proof.
  revert b. induction a as [|x a IH]; intros [|y b] H; simpl in H; try discriminate; [reflexivity|].
  apply andb_prop in H. destruct H as [H1 H2]. apply N.eqb_eq in H1. subst. f_equal. apply IH. exact H2.
Qed.
Lemma tid_eqb_eq a b : tid_eqb a b = true -> a = b.
Proof.
  unfold tid_eqb. intros H. apply andb_prop in H. destruct H as [H1 H2].
  apply path_eqb_eq in H1. apply Nat.eqb_eq in H2. destruct a, b; simpl in *; congruence.
Qed.
Lemma path_eqb_refl a : path_eqb a a = true.
Proof. induction a as [|x a IH]; simpl; [reflexivity|]. rewrite N.eqb_refl. exact IH. Qed.
Lemma tid_eqb_refl a : tid_eqb a a = true.
Proof. unfold tid_eqb. rewrite path_eqb_refl, Nat.eqb_refl. reflexivity. Qed.

(* induction principle for terms (nested lists) *)
Lemma D_ind2 (P : D -> Prop) :
  (forall v, P (Val v)) -> (forall x, P (Exn x)) -> (forall t more, P (Task t more)) ->
  (forall d k, P d -> P (Bind d k)) ->
  (forall ds, Forall P ds -> P (Gather ds)) ->
  forall d, P d.
Proof.
  intros Hv He Ht Hb Hg. fix IH 1. intros [v|x|t more|d k|ds].
  - apply Hv.
  - apply He.
  - apply Ht.
  - apply Hb. apply IH.
  - apply Hg. induction ds as [|d ds IHds]; constructor; [apply IH|exact IHds].
Qed.

Definition pres_l (r : list D * mstate) (st : mstate) (b : option (list val) * list entry) : Prop :=
  exists new, log (snd r) = log st ++ new /\ fst (den_list (fst r)) = fst b /\
    (fst b <> None -> Permutation (new ++ snd (den_list (fst r))) (snd b) /\ orphans (snd r) = orphans st).

Lemma fire_pres t : forall d st, pres (fire t d st) st (den d).
Proof.
  induction d as [v|x|t' more|d1 k IH|ds IH] using D_ind2; intros st.
  - exists []. cbn. rewrite app_nil_r. repeat split. apply Permutation_refl.
  - exists []. cbn. rewrite app_nil_r. split; [reflexivity|]. split; [reflexivity|]. intros Hc. contradiction.
  - cbn [fire]. destruct (tid_eqb t t') eqn:Et.
    + apply tid_eqb_eq in Et. subst t'. destruct more as [|n].
      * exists [LFinish t]. cbn. repeat split. apply Permutation_refl.
      * exists [LFinish t; LInvoke (next_tid t)]. cbn. repeat split. apply Permutation_refl.
    + exists []. cbn [fst snd]. rewrite app_nil_r. repeat split. apply Permutation_refl.
  - cbn [fire]. specialize (IH st). destruct (fire t d1 st) as [d1' st1].
    destruct IH as (new1 & Hlog1 & Hv1 & Hp1). cbn [fst snd] in *.
    rewrite den_bind. destruct (den d1) as [r1 e1]. cbn [fst snd] in *.
    assert (Hdef : pres (Bind d1' k, st1) st
                        (match r1 with
                         | Some v => let '(r', es') := den_k k v in (r', e1 ++ es')
                         | None => (None, e1)
                         end)).
    { exists new1. split; [exact Hlog1|]. cbn [fst snd]. rewrite den_bind.
      destruct (den d1') as [r1' e1']. cbn [fst snd] in *. subst r1'.
      destruct r1 as [v|].
      - destruct (den_k k v) as [r' es']. cbn [fst snd]. split; [reflexivity|]. intros Hr.
        destruct (Hp1 ltac:(discriminate)) as [Pm Ho]. split; [|exact Ho].
        rewrite app_assoc. apply Permutation_app_tail. exact Pm.
      - cbn [fst snd]. split; [reflexivity|]. intros Hc. contradiction. }
    destruct d1' as [v|x| | |]; try exact Hdef.
    (* Exn: closed by conversion. Val: the chained continuation fires *)
      cbn [den fst snd] in Hv1. subst r1.
      pose proof (apply_k_pres k v st1) as Hk. destruct (apply_k k v st1) as [d' st'].
      destruct (den_k k v) as [r' es']. destruct Hk as (new2 & Hlog2 & Hv2 & Hp2). cbn [fst snd] in *.
      destruct (Hp1 ltac:(discriminate)) as [Pm1 Ho1]. rewrite app_nil_r in Pm1.
      exists (new1 ++ new2). split; [cbn [fst snd]; rewrite Hlog2, Hlog1, app_assoc; reflexivity|].
      cbn [fst snd]. split; [exact Hv2|]. intros Hr. destruct (Hp2 Hr) as [Pm2 Ho2].
      split; [|congruence]. rewrite <- app_assoc. apply Permutation_app; assumption.
  - rewrite fire_gather.
    assert (Hl : forall st, pres_l (fire_list t ds st) st (den_list ds)).
    { clear st. induction ds as [|d ds IHds]; intros st.
      - exists []. cbn. rewrite app_nil_r. repeat split. apply Permutation_refl.
      - inversion IH as [|? ? Hd Hds]; subst. specialize (IHds Hds).
        cbn [fire_list den_list]. specialize (Hd st). destruct (fire t d st) as [d' s1].
        specialize (IHds s1). destruct (fire_list t ds s1) as [r' s2].
        destruct Hd as (new1 & Hlog1 & Hv1 & Hp1). destruct IHds as (new2 & Hlog2 & Hv2 & Hp2).
        cbn [fst snd] in *. unfold pres_l. cbn [fst snd den_list].
        destruct (den d) as [x e1]. destruct (den_list ds) as [y e2].
        destruct (den d') as [x' e1']. destruct (den_list r') as [y' e2']. cbn [fst snd] in *.
        subst x' y'. exists (new1 ++ new2). split; [cbn [fst snd]; rewrite Hlog2, Hlog1, app_assoc; reflexivity|].
        split; [reflexivity|]. intros Hc.
        assert (Hx : x <> None) by (intros ->; apply Hc; reflexivity).
        assert (Hy : y <> None) by (intros ->; apply Hc; destruct x; reflexivity).
        destruct (Hp1 Hx) as [Pm1 Ho1]. destruct (Hp2 Hy) as [Pm2 Ho2].
        split; [|congruence]. apply perm_combine; assumption. }
    specialize (Hl st). destruct (fire_list t ds st) as [ds' st1].
    destruct Hl as (new1 & Hlog1 & Hv1 & Hp1). cbn [fst snd] in *.
    pose proof (gather_norm_pres ds' st1) as Hg. destruct (gather_norm ds' st1) as [d' st'].
    destruct Hg as (new2 & Hlog2 & Hv2 & Hp2). cbn [fst snd] in *.
    rewrite den_gather in Hv2, Hp2. rewrite den_gather.
    destruct (den_list ds) as [y e2]. destruct (den_list ds') as [y' e2']. cbn [fst snd] in *. subst y'.
    exists (new1 ++ new2). split; [cbn [fst snd]; rewrite Hlog2, Hlog1, app_assoc; reflexivity|].
    split; [exact Hv2|]. intros Hc.
    assert (Hy : y <> None) by (intros ->; apply Hc; reflexivity).
    destruct (Hp1 Hy) as [Pm1 Ho1]. destruct (Hp2 Hc) as [Pm2 Ho2].
    cbn [fst snd]. split; [|congruence].
    rewrite <- app_assoc. rewrite (Permutation_app_head new1 Pm2). exact Pm1.
Qed.

(* ---------------------------------------------------------------- *)
(* the initial state and whole runs                                  *)

Lemma bs_serial_eq : forall fs acc,
  bs_serial acc fs =
  (option_map (fun kvs => VObj (acc ++ kvs)) (fst (bs_fields [] fs)), snd (bs_fields [] fs)).
Proof.
  induction fs as [|f fs IH]; intros acc; cbn [bs_serial bs_fields].
  - cbn. rewrite app_nil_r. reflexivity.
  - destruct (bs_field [] f) as [x es]. destruct x as [v|]; [|reflexivity].
    rewrite IH. destruct (bs_fields [] fs) as [r' es']. cbn [fst snd].
    destruct r' as [kvs|]; cbn; [|reflexivity].
    rewrite <- app_assoc. reflexivity.
Qed.

Lemma bs_prog_serial mut fs : bs_prog (Prog mut fs) = bs_serial [] fs.
Proof.
  rewrite bs_serial_eq. unfold bs_prog. destruct (bs_fields [] fs) as [r es]. reflexivity.
Qed.

Lemma finish_pres r st b :
  sound_s r st b ->
  pres (let s := match r with
                 | (SOk (Val v), st') => MkState (Val v) st'
                 | (SOk (Exn x), st') => MkState (Exn x) st'
                 | (SOk d, st') => MkState (Bind d KFinish) st'
                 | (SRaise x, st') => MkState (Exn x) st'
                 end in (term s, ms s)) st b.
Proof.
  intros (new & Hlog & H). destruct r as [[d|x] st']; cbn [fst snd] in *.
  - destruct H as [Hv Hp].
    assert (Hdef : pres (Bind d KFinish, st') st b).
    { exists new. split; [exact Hlog|]. cbn [fst snd]. rewrite den_bind.
      destruct (den d) as [r e]. cbn [fst snd] in *. destruct r as [v|]; cbn [den_k fst snd].
      - split; [exact Hv|]. rewrite app_nil_r. exact Hp.
      - split; [exact Hv|]. intros Hb. congruence. }
    destruct d; exact Hdef.
  - exists new. split; [exact Hlog|]. cbn. split; [symmetry; exact H|]. intros Hb. contradiction.
Qed.

Lemma start_pres pr : pres (term (start pr), ms (start pr)) st0 (bs_prog pr).
Proof.
  destruct pr as [mut fs]. unfold start. destruct mut.
  - rewrite bs_prog_serial. apply (finish_pres _ st0). apply serial_next_sound.
  - apply (finish_pres _ st0).
    pose proof (sync_sound_fields fs [] st0) as H. rewrite <- keys_of_length in H.
    apply fields_to_s in H. unfold bs_prog. destruct (bs_fields [] fs) as [r es]. exact H.
Qed.

(* the invariant of a run: the term still denotes the blocking value; what has
   been logged plus what the term will still log is the blocking log *)
Definition den_inv (pr : prog) (s : state) : Prop :=
  fst (den (term s)) = fst (bs_prog pr) /\
  (fst (bs_prog pr) <> None ->
   Permutation (log (ms s) ++ snd (den (term s))) (snd (bs_prog pr)) /\ orphans (ms s) = []).

Lemma den_inv_start pr : den_inv pr (start pr).
Proof.
  destruct (start_pres pr) as (new & Hlog & Hv & Hp). cbn [fst snd] in *.
  split; [exact Hv|]. intros Hb. destruct (Hp Hb) as [Pm Ho]. rewrite Hlog. cbn. split; assumption.
Qed.

Lemma fire_list_nil t st : fire_list t [] st = ([], st).
Proof. reflexivity. Qed.

Lemma den_inv_step pr s t s' : den_inv pr s -> step s t = Some s' -> den_inv pr s'.
Proof.
  intros [Hv Hp] Hs. unfold step in Hs. destruct (mem_tid t (pending (ms s))); [|discriminate].
  set (st := MkSt (pending (ms s)) (log (ms s)) [] (raised (ms s))) in *.
  pose proof (fire_pres t (term s) st) as Hf. destruct (fire t (term s) st) as [d' st1].
  destruct Hf as (new & Hlog & Hv1 & Hp1). cbn [fst snd] in *.
  destruct (fire_list t (orphans (ms s)) st1) as [os' st2] eqn:El.
  inversion Hs; subst s'. clear Hs. unfold den_inv. cbn [term ms log orphans].
  split; [congruence|]. intros Hb.
  destruct (Hp Hb) as [Pm Ho]. rewrite Ho in El. rewrite fire_list_nil in El. inversion El; subst.
  assert (Hd : fst (den (term s)) <> None) by congruence.
  destruct (Hp1 Hd) as [Pm1 Ho1]. split.
  - rewrite Hlog. unfold st. cbn [log]. rewrite <- app_assoc.
    rewrite (Permutation_app_head (log (ms s)) Pm1). exact Pm.
  - cbn [filter app]. rewrite Ho1. reflexivity.
Qed.

Lemma den_inv_run pr : forall sigma s s', den_inv pr s -> run_from s sigma = Some s' -> den_inv pr s'.
Proof.
  induction sigma as [|t sigma IH]; intros s s' I H; simpl in H.
  - inversion H; subst. exact I.
  - destruct (step s t) as [s1|] eqn:Es; [|discriminate].
    apply (IH s1 s'); [|exact H]. apply (den_inv_step pr s t s1 I Es).
Qed.

Lemma Permutation_filter {A} (f : A -> bool) l l' :
  Permutation l l' -> Permutation (filter f l) (filter f l').
Proof.
  induction 1; simpl.
  - constructor.
  - destruct (f x); [constructor|]; assumption.
  - destruct (f x), (f y); try apply Permutation_refl; try constructor; try apply Permutation_refl.
  - eapply Permutation_trans; eassumption.
Qed.
