(* C02 (4), type-system definitions and extensions: the text such a definition
   node spans parses back, as a one-definition document, to the same definition
   with spans moved to offset 0. *)
From PyGql Require Import Lang.Parser Spec.LexSpec Spec.LexicalSpec Spec.GrammarSpec Spec.DocGrammarSpec
  Spec.SdlGrammarSpec Spec.ReparseSpec Spec.ReparseSdlSpec Proofs.GrammarProofs Proofs.ReparseProofs
  Proofs.ReparseDefProofs Proofs.SdlEntryProofs.

Section ShiftSdl.
Variable nl : bool.
Variable p : nat.
Notation sh := (shift_tok p).

Ltac shn := repeat (rewrite <- name_node_shift || rewrite <- mkloc_shift);
            repeat first [rewrite map_app | progress cbn [map app]].

Lemma is_word_sh w t : is_word w t -> is_word w (sh t).
Proof. intros [K V]. split; assumption. Qed.

Lemma D_sep_list_shift {A} (R : list ptok -> A -> Prop) (g : A -> A) delim ts xs :
  (forall ts x, R ts x -> R (map sh ts) (g x)) ->
  D_sep_list R delim ts xs -> D_sep_list R delim (map sh ts) (map g xs).
Proof.
  intros HR H. induction H as [ts x Hx|ts x d ts' xs Hx Kd Hxs IH]; simpl.
  - constructor. apply HR; exact Hx.
  - rewrite map_app. cbn [map]. constructor; auto.
Qed.

Lemma D_opt_lead_shift delim lead : D_opt_lead delim lead -> D_opt_lead delim (map sh lead).
Proof. intros [|d Kd]; simpl; constructor; exact Kd. Qed.

Lemma D_opt_block_shift {A} (R : list ptok -> A -> Prop) (g : A -> A) open close ts xs :
  (forall ts x, R ts x -> R (map sh ts) (g x)) ->
  D_opt_block R open close ts xs -> D_opt_block R open close (map sh ts) (map g xs).
Proof.
  intros HR [|o body cl ys Ko Kc Hl Hne]; simpl; [constructor|].
  rewrite map_app. cbn [map]. constructor; auto; [apply D_list_shift; assumption|apply map_ne; exact Hne].
Qed.

Lemma D_description_shift ts d :
  D_description nl ts d -> D_description nl (map sh ts) (option_map (shift_strval p) d).
Proof.
  intros [|t K|t K]; simpl; [constructor| |]; unfold shift_strval; simpl;
    rewrite <- (mkloc_shift nl p [t]); cbn [map].
  - apply (DDesc_string nl (sh t)). exact K.
  - apply (DDesc_block nl (sh t)). exact K.
Qed.

Lemma named_type_shift n : named_type nl (sh n) = shift_ty p (named_type nl n).
Proof. unfold named_type. simpl. rewrite <- name_node_shift, <- (mkloc_shift nl p [n]). reflexivity. Qed.

Lemma D_named_type_shift ts t : D_named_type nl ts t -> D_named_type nl (map sh ts) (shift_ty p t).
Proof. intros [n K]. cbn [map]. rewrite <- named_type_shift. constructor. exact K. Qed.

Lemma D_op_type_def_shift ts o : D_op_type_def nl ts o -> D_op_type_def nl (map sh ts) (shift_otd p o).
Proof.
  intros [k kind colon n Dk Kc Kn]. unfold shift_otd. simpl ot_op. simpl ot_type. simpl ot_loc.
  rewrite <- named_type_shift, <- (mkloc_shift nl p [k; colon; n]). cbn [map].
  constructor; auto. apply D_operation_type_shift; exact Dk.
Qed.

Lemma D_op_types_shift ts ots : D_op_types nl ts ots -> D_op_types nl (map sh ts) (map (shift_otd p) ots).
Proof.
  intros [o body cl ots0 Ko Kc Hl Hne]. cbn [map]. rewrite map_app. cbn [map].
  constructor; auto; [apply D_list_shift; [apply D_op_type_def_shift|exact Hl]|apply map_ne; exact Hne].
Qed.

Lemma D_opt_op_types_shift ts ots :
  D_opt_op_types nl ts ots -> D_opt_op_types nl (map sh ts) (map (shift_otd p) ots).
Proof. intros [|ts0 ots0 H]; [constructor|]. constructor 2. apply D_op_types_shift; exact H. Qed.

Lemma D_input_value_shift ts iv : D_input_value nl ts iv -> D_input_value nl (map sh ts) (shift_ivd p iv).
Proof.
  intros [dsts desc n colon tyts t defts dv dts dirs Ddesc Kn Kc Dt Ddef Dd].
  unfold shift_ivd. cbn [iv_desc iv_name iv_type iv_default iv_dirs iv_loc]. shn.
  constructor; auto.
  - apply D_description_shift; exact Ddesc.
  - apply D_type_shift; exact Dt.
  - apply D_default_shift; exact Ddef.
  - apply D_directives_shift; exact Dd.
Qed.

Lemma D_args_def_shift ts args : D_args_def nl ts args -> D_args_def nl (map sh ts) (map (shift_ivd p) args).
Proof. apply D_opt_block_shift. apply D_input_value_shift. Qed.

Lemma D_input_fields_shift ts fs : D_input_fields nl ts fs -> D_input_fields nl (map sh ts) (map (shift_ivd p) fs).
Proof. apply D_opt_block_shift. apply D_input_value_shift. Qed.

Lemma D_field_def_shift ts fd : D_field_def nl ts fd -> D_field_def nl (map sh ts) (shift_fd p fd).
Proof.
  intros [dsts desc n ats args colon tyts t dts dirs Ddesc Kn Da Kc Dt Dd].
  unfold shift_fd. cbn [fd_desc fd_name fd_args fd_type fd_dirs fd_loc]. shn.
  constructor; auto.
  - apply D_description_shift; exact Ddesc.
  - apply D_args_def_shift; exact Da.
  - apply D_type_shift; exact Dt.
  - apply D_directives_shift; exact Dd.
Qed.

Lemma D_fields_def_shift ts fs : D_fields_def nl ts fs -> D_fields_def nl (map sh ts) (map (shift_fd p) fs).
Proof. apply D_opt_block_shift. apply D_field_def_shift. Qed.

Lemma D_implements_shift ts ifs : D_implements nl ts ifs -> D_implements nl (map sh ts) (map (shift_ty p) ifs).
Proof.
  intros [|k lead ts0 tys W Dl Ds]; [constructor|]. cbn [map]. rewrite map_app.
  constructor; [apply is_word_sh; exact W|apply D_opt_lead_shift; exact Dl|].
  apply D_sep_list_shift; [apply D_named_type_shift|exact Ds].
Qed.

Lemma D_union_members_shift ts tys :
  D_union_members nl ts tys -> D_union_members nl (map sh ts) (map (shift_ty p) tys).
Proof.
  intros [|eq lead ts0 tys0 Ke Dl Ds]; [constructor|]. cbn [map]. rewrite map_app.
  constructor; [exact Ke|apply D_opt_lead_shift; exact Dl|].
  apply D_sep_list_shift; [apply D_named_type_shift|exact Ds].
Qed.

Lemma D_enum_value_shift ts ev : D_enum_value nl ts ev -> D_enum_value nl (map sh ts) (shift_evd p ev).
Proof.
  intros [dsts desc n dts dirs Ddesc Kn Hres Dd].
  unfold shift_evd. cbn [ev_desc ev_name ev_dirs ev_loc]. shn.
  constructor; auto; [apply D_description_shift; exact Ddesc|apply D_directives_shift; exact Dd].
Qed.

Lemma D_enum_values_shift ts vs : D_enum_values nl ts vs -> D_enum_values nl (map sh ts) (map (shift_evd p) vs).
Proof. apply D_opt_block_shift. apply D_enum_value_shift. Qed.

Lemma D_directive_location_shift ts n :
  D_directive_location nl ts n -> D_directive_location nl (map sh ts) (shift_name p n).
Proof. intros [t K Hin]. cbn [map]. rewrite <- name_node_shift. constructor; assumption. Qed.

Lemma map_nil_iff {A B} (f : A -> B) l : map f l = [] <-> l = [].
Proof. destruct l; simpl; split; congruence. Qed.

Ltac pieces :=
  first [ apply is_word_sh; assumption
        | apply D_description_shift; assumption
        | apply D_directives_shift; assumption
        | apply D_op_types_shift; assumption
        | apply D_opt_op_types_shift; assumption
        | apply D_implements_shift; assumption
        | apply D_fields_def_shift; assumption
        | apply D_union_members_shift; assumption
        | apply D_enum_values_shift; assumption
        | apply D_input_fields_shift; assumption
        | apply D_args_def_shift; assumption
        | apply D_opt_lead_shift; assumption
        | apply D_sep_list_shift; [apply D_directive_location_shift|assumption]
        | assumption
        | rewrite !map_nil_iff; assumption ].

Lemma D_type_system_definition_shift ts d :
  D_type_system_definition nl ts d -> D_type_system_definition nl (map sh ts) (shift_def p d).
Proof.
  intros H; destruct H; cbn [shift_def]; shn.
  - apply DT_schema; pieces.
  - apply DT_scalar; pieces.
  - apply DT_object; pieces.
  - apply DT_interface; pieces.
  - apply DT_union; pieces.
  - apply DT_enum; pieces.
  - apply DT_input; pieces.
  - apply DT_directive; pieces.
Qed.

Lemma D_type_system_extension_shift ts d :
  D_type_system_extension nl ts d -> D_type_system_extension nl (map sh ts) (shift_def p d).
Proof.
  intros H; destruct H; cbn [shift_def option_map]; shn.
  - apply DE_schema; pieces.
  - apply DE_scalar; pieces.
  - apply DE_object; pieces.
  - apply DE_interface; pieces.
  - apply DE_union; pieces.
  - apply DE_enum; pieces.
  - apply DE_input; pieces.
Qed.

End ShiftSdl.

(* ---- no derivation contains a SOF or EOF token ---- *)
Definition inner (t : ptok) : Prop := tk t <> KSOF /\ tk t <> KEOF.
Definition noe (ts : list ptok) : Prop := Forall inner ts.

Ltac kind_ne :=
  match goal with
  | K : tk ?t = _ |- tk ?t <> _ => rewrite K; discriminate
  | W : is_word _ ?t |- tk ?t <> _ => let K := fresh in destruct W as [K _]; rewrite K; discriminate
  | D : D_operation_type ?t _ |- tk ?t <> _ => destruct D as [? [K _]|? [K _]|? [K _]]; rewrite K; discriminate
  end.

Ltac np :=
  unfold noe in *;
  repeat first [ apply Forall_nil
               | assumption
               | apply Forall_cons; [try (split; kind_ne)|]
               | apply Forall_app; split ].

Section NoEnds.
Variable nl : bool.

Lemma D_type_noe ts t : D_type nl ts t -> noe ts.
Proof. induction 1; np. Qed.

Lemma D_value_noe_all :
  (forall c ts v, D_value nl c ts v -> noe ts)
  /\ (forall c ts vs, D_values nl c ts vs -> noe ts)
  /\ (forall c ts fs, D_fields nl c ts fs -> noe ts).
Proof.
  apply (D_value_mutind nl (fun c ts v => noe ts) (fun c ts vs => noe ts) (fun c ts fs => noe ts)); intros; np.
Qed.

Lemma D_list_noe {A} (R : list ptok -> A -> Prop) ts xs :
  (forall ts x, R ts x -> noe ts) -> D_list R ts xs -> noe ts.
Proof. intros HR H. induction H; np. eapply HR; eassumption. Qed.

Lemma D_argument_noe c ts a : D_argument nl c ts a -> noe ts.
Proof. intros [t colon vts v Kt Kc Dv]. pose proof (proj1 D_value_noe_all _ _ _ Dv). np. Qed.

Lemma D_arguments_noe c ts a : D_arguments nl c ts a -> noe ts.
Proof.
  intros [|o body cl args Ko Kc Hl Hne]; [constructor|].
  pose proof (D_list_noe _ _ _ (D_argument_noe c) Hl). np.
Qed.

Lemma D_directive_noe c ts d : D_directive nl c ts d -> noe ts.
Proof. intros [a t ats args Ka Kt Da]. pose proof (D_arguments_noe _ _ _ Da). np. Qed.

Lemma D_directives_noe c ts ds : D_directives nl c ts ds -> noe ts.
Proof. apply D_list_noe. apply D_directive_noe. Qed.

Lemma D_default_noe ts dv : D_default nl ts dv -> noe ts.
Proof. intros [|eq vts v Ke Dv]; [constructor|]. pose proof (proj1 D_value_noe_all _ _ _ Dv). np. Qed.

Lemma D_description_noe ts d : D_description nl ts d -> noe ts.
Proof. intros [|t K|t K]; np. Qed.

Lemma D_sep_list_noe {A} (R : list ptok -> A -> Prop) delim ts xs :
  (forall ts x, R ts x -> noe ts) -> delim <> KSOF -> delim <> KEOF -> D_sep_list R delim ts xs -> noe ts.
Proof.
  intros HR H1 H2 H. induction H as [ts x Hx|ts x d ts' xs Hx Kd Hxs IH]; [eapply HR; eassumption|].
  pose proof (HR _ _ Hx). np. split; rewrite Kd; assumption.
Qed.

Lemma D_opt_lead_noe delim lead : delim <> KSOF -> delim <> KEOF -> D_opt_lead delim lead -> noe lead.
Proof. intros H1 H2 [|d Kd]; np. split; rewrite Kd; assumption. Qed.

Lemma D_opt_block_noe {A} (R : list ptok -> A -> Prop) open close ts xs :
  (forall ts x, R ts x -> noe ts) -> open <> KSOF -> open <> KEOF -> close <> KSOF -> close <> KEOF ->
  D_opt_block R open close ts xs -> noe ts.
Proof.
  intros HR H1 H2 H3 H4 [|o body cl ys Ko Kc Hl Hne]; [constructor|].
  pose proof (D_list_noe _ _ _ HR Hl). np; split; (rewrite Ko || rewrite Kc); assumption.
Qed.

Lemma D_input_value_noe ts iv : D_input_value nl ts iv -> noe ts.
Proof.
  intros [dsts desc n colon tyts t defts dv dts dirs Ddesc Kn Kc Dt Ddef Dd].
  pose proof (D_description_noe _ _ Ddesc). pose proof (D_type_noe _ _ Dt). pose proof (D_default_noe _ _ Ddef).
  pose proof (D_directives_noe _ _ _ Dd). np.
Qed.

Lemma D_args_def_noe ts a : D_args_def nl ts a -> noe ts.
Proof. apply D_opt_block_noe; [apply D_input_value_noe|discriminate..]. Qed.

Lemma D_input_fields_noe ts a : D_input_fields nl ts a -> noe ts.
Proof. apply D_opt_block_noe; [apply D_input_value_noe|discriminate..]. Qed.

Lemma D_field_def_noe ts fd : D_field_def nl ts fd -> noe ts.
Proof.
  intros [dsts desc n ats args colon tyts t dts dirs Ddesc Kn Da Kc Dt Dd].
  pose proof (D_description_noe _ _ Ddesc). pose proof (D_args_def_noe _ _ Da). pose proof (D_type_noe _ _ Dt).
  pose proof (D_directives_noe _ _ _ Dd). np.
Qed.

Lemma D_fields_def_noe ts fs : D_fields_def nl ts fs -> noe ts.
Proof. apply D_opt_block_noe; [apply D_field_def_noe|discriminate..]. Qed.

Lemma D_enum_value_noe ts ev : D_enum_value nl ts ev -> noe ts.
Proof.
  intros [dsts desc n dts dirs Ddesc Kn Hres Dd].
  pose proof (D_description_noe _ _ Ddesc). pose proof (D_directives_noe _ _ _ Dd). np.
Qed.

Lemma D_enum_values_noe ts vs : D_enum_values nl ts vs -> noe ts.
Proof. apply D_opt_block_noe; [apply D_enum_value_noe|discriminate..]. Qed.

Lemma D_named_type_noe ts t : D_named_type nl ts t -> noe ts.
Proof. intros [n K]. np. Qed.

Lemma D_implements_noe ts ifs : D_implements nl ts ifs -> noe ts.
Proof.
  intros [|k lead ts0 tys W Dl Ds]; [constructor|].
  pose proof (D_opt_lead_noe KAmp lead ltac:(discriminate) ltac:(discriminate) Dl).
  pose proof (D_sep_list_noe _ KAmp _ _ D_named_type_noe ltac:(discriminate) ltac:(discriminate) Ds). np.
Qed.

Lemma D_union_members_noe ts tys : D_union_members nl ts tys -> noe ts.
Proof.
  intros [|eq lead ts0 tys0 Ke Dl Ds]; [constructor|].
  pose proof (D_opt_lead_noe KPipe lead ltac:(discriminate) ltac:(discriminate) Dl).
  pose proof (D_sep_list_noe _ KPipe _ _ D_named_type_noe ltac:(discriminate) ltac:(discriminate) Ds). np.
Qed.

Lemma D_op_type_def_noe ts o : D_op_type_def nl ts o -> noe ts.
Proof. intros [k kind colon n Dk Kc Kn]. np. Qed.

Lemma D_op_types_noe ts ots : D_op_types nl ts ots -> noe ts.
Proof. intros [o body cl ots0 Ko Kc Hl Hne]. pose proof (D_list_noe _ _ _ D_op_type_def_noe Hl). np. Qed.

Lemma D_directive_location_noe ts n : D_directive_location nl ts n -> noe ts.
Proof. intros [t K Hin]. np. Qed.

Lemma D_type_system_definition_noe ts d : D_type_system_definition nl ts d -> noe ts.
Proof.
  intros H; destruct H;
    repeat match goal with
    | H : D_description _ _ _ |- _ => apply D_description_noe in H
    | H : D_directives _ _ _ _ |- _ => apply D_directives_noe in H
    | H : D_op_types _ _ _ |- _ => apply D_op_types_noe in H
    | H : D_implements _ _ _ |- _ => apply D_implements_noe in H
    | H : D_fields_def _ _ _ |- _ => apply D_fields_def_noe in H
    | H : D_union_members _ _ _ |- _ => apply D_union_members_noe in H
    | H : D_enum_values _ _ _ |- _ => apply D_enum_values_noe in H
    | H : D_input_fields _ _ _ |- _ => apply D_input_fields_noe in H
    | H : D_args_def _ _ _ |- _ => apply D_args_def_noe in H
    | H : D_opt_lead KPipe _ |- _ => apply (D_opt_lead_noe KPipe _ ltac:(discriminate) ltac:(discriminate)) in H
    | H : D_sep_list (D_directive_location _) _ _ _ |- _ =>
        apply (D_sep_list_noe _ KPipe _ _ D_directive_location_noe ltac:(discriminate) ltac:(discriminate)) in H
    end; np.
Qed.

Lemma D_type_system_extension_noe ts d : D_type_system_extension nl ts d -> noe ts.
Proof.
  intros H; destruct H;
    repeat match goal with
    | H : D_directives _ _ _ _ |- _ => apply D_directives_noe in H
    | H : D_opt_op_types _ _ _ |- _ => destruct H as [|? ? H]; [|apply D_op_types_noe in H]
    | H : D_implements _ _ _ |- _ => apply D_implements_noe in H
    | H : D_fields_def _ _ _ |- _ => apply D_fields_def_noe in H
    | H : D_union_members _ _ _ |- _ => apply D_union_members_noe in H
    | H : D_enum_values _ _ _ |- _ => apply D_enum_values_noe in H
    | H : D_input_fields _ _ _ |- _ => apply D_input_fields_noe in H
    end; np.
Qed.

End NoEnds.

Lemma noe_ends ts : noe ts -> ts <> [] ->
  exists t r, ts = t :: r /\ tk t <> KSOF /\ tk t <> KEOF /\ tk (last r t) <> KEOF.
Proof.
  intros H Hne. destruct ts as [|t r]; [congruence|]. exists t, r. split; [reflexivity|].
  inversion H as [|? ? [H1 H2] Hr]; subst. split; [exact H1|]. split; [exact H2|].
  clear H Hne. revert t H1 H2. induction Hr as [|x r' [Hx1 Hx2] Hr IH]; intros t H1 H2; simpl; [exact H2|].
  destruct r'; [exact Hx2|]. apply (IH t H1 H2).
Qed.

Lemma D_type_system_definition_ne nl ts d : D_type_system_definition nl ts d -> ts <> [].
Proof.
  intros H; destruct H; intros E; try discriminate E; apply app_eq_nil in E; destruct E as [_ E]; discriminate E.
Qed.

Lemma D_type_system_extension_ne nl ts d : D_type_system_extension nl ts d -> ts <> [].
Proof. intros H; destruct H; intros E; discriminate E. Qed.

Lemma D_definition_shift nl fv en p ts d :
  D_definition nl fv en ts d -> D_definition nl fv en (map (shift_tok p) ts) (shift_def p d).
Proof.
  intros [ts0 d0 H|ts0 d0 He H|ts0 d0 He H].
  - apply DD_exec. pose proof (D_executable_definition_shift nl p fv _ _ H) as H'.
    destruct H as [? ? Ho|? ? Hf]; [destruct Ho|destruct Hf]; exact H'.
  - apply DD_tsd; [exact He|]. apply D_type_system_definition_shift; exact H.
  - apply DD_tse; [exact He|]. apply D_type_system_extension_shift; exact H.
Qed.

Lemma D_definition_ends nl fv en ts d : D_definition nl fv en ts d ->
  exists t r, ts = t :: r /\ tk t <> KSOF /\ tk t <> KEOF /\ tk (last r t) <> KEOF.
Proof.
  intros [ts0 d0 H|ts0 d0 He H|ts0 d0 He H].
  - eapply D_executable_definition_ends; exact H.
  - apply noe_ends; [eapply D_type_system_definition_noe; exact H|eapply D_type_system_definition_ne; exact H].
  - apply noe_ends; [eapply D_type_system_extension_noe; exact H|eapply D_type_system_extension_ne; exact H].
Qed.

(* Every definition node of every class: the text it spans, parsed as a document
   under the same flags, is exactly that one definition with spans moved to 0. *)
Theorem reparse_definition fl s ts pre seg post d :
  lex s = Ok ts -> ts = pre ++ seg ++ post ->
  D_definition (no_location fl) (fragment_variables fl) (allow_type_system fl) seg d ->
  exists l, parse_document fl (substring s (seg_start seg) (seg_end seg))
            = Ok (Doc [shift_def (seg_start seg) d] l).
Proof.
  intros Hl Ets Dd.
  pose proof (segment_lexes s ts pre seg post Hl Ets (D_definition_ends _ _ _ _ _ Dd)) as Hsub.
  eexists. eapply parse_document_complete_full; [exact Hsub|].
  constructor; [reflexivity|reflexivity| |discriminate].
  rewrite <- (app_nil_r (map (shift_tok (seg_start seg)) seg)). constructor; [| |constructor].
  - apply D_definition_shift. exact Dd.
  - intros _ (t & r & E & _). discriminate E.
Qed.

(* ... and every definition of an accepted document is such a segment of the
   document's own token sequence *)
Lemma D_list_segments {A} (R : list ptok -> A -> Prop) ts xs :
  D_list R ts xs -> forall x, In x xs -> exists pre seg post, ts = pre ++ seg ++ post /\ R seg x.
Proof.
  induction 1 as [|ts x ts' xs Hx Hxs IH]; intros y Hy; [destruct Hy|].
  destruct Hy as [<-|Hy].
  - exists [], ts, ts'. split; [reflexivity|exact Hx].
  - destruct (IH y Hy) as (pre & seg & post & E & Hr). exists (ts ++ pre), seg, post.
    rewrite E, app_assoc. split; [reflexivity|exact Hr].
Qed.

Theorem reparse_document_definitions fl s doc :
  parse_document fl s = Ok doc ->
  forall d, In d (doc_defs doc) ->
  exists seg l, parse_document fl (substring s (seg_start seg) (seg_end seg))
                = Ok (Doc [shift_def (seg_start seg) d] l).
Proof.
  intros H d Hd. destruct (parse_document_sound_full fl s doc H) as (ts & Hl & Dd).
  destruct Dd as [sof body eof defs Ks Ke Hlist Hne]. simpl in Hd.
  destruct (D_list_segments _ _ _ Hlist d Hd) as (pre & seg & post & E & Hseg).
  exists seg. eapply (reparse_definition fl s _ (sof :: pre) seg (post ++ [eof])); [exact Hl| |exact Hseg].
  rewrite E. simpl. rewrite <- !app_assoc. reflexivity.
Qed.

(* the loc of a definition node is the span of its tokens *)
Lemma D_definition_loc nl fv en ts d : D_definition nl fv en ts d -> def_loc d = mkloc nl ts.
Proof.
  intros [ts0 d0 H|ts0 d0 He H|ts0 d0 He H].
  - destruct H as [? ? Ho|? ? Hf]; [destruct Ho as [? ? ? Hss|]|destruct Hf]; try reflexivity.
    destruct Hss. reflexivity.
  - destruct H; reflexivity.
  - destruct H; reflexivity.
Qed.

(* C02_reparse_span for definition nodes, stated on the tree alone: with
   locations enabled every definition of an accepted document has a loc (a, b),
   and the text s[a:b] parses, under the same flags, to the document consisting
   of exactly that definition with every span moved by a. *)
Theorem reparse_document_definitions_loc fl s doc :
  parse_document fl s = Ok doc -> no_location fl = false ->
  forall d, In d (doc_defs doc) ->
  exists a b l, def_loc d = Some (a, b)
    /\ parse_document fl (substring s a b) = Ok (Doc [shift_def a d] l).
Proof.
  intros H Hnl d Hd. destruct (parse_document_sound_full fl s doc H) as (ts & Hl & Dd).
  destruct Dd as [sof body eof defs Ks Ke Hlist Hne]. simpl in Hd.
  destruct (D_list_segments _ _ _ Hlist d Hd) as (pre & seg & post & E & Hseg).
  assert (Ets : sof :: body ++ [eof] = (sof :: pre) ++ seg ++ (post ++ [eof])).
  { rewrite E. simpl. rewrite <- !app_assoc. reflexivity. }
  destruct (reparse_definition fl s _ _ seg _ d Hl Ets Hseg) as (l & Hp).
  exists (seg_start seg), (seg_end seg), l. split; [|exact Hp].
  rewrite (D_definition_loc _ _ _ _ _ Hseg), Hnl. unfold mkloc.
  destruct (D_definition_ends _ _ _ _ _ Hseg) as (t & r & -> & _). reflexivity.
Qed.
