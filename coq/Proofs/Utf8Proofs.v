(* Lang/Utf8.v: decoding inverts encoding on Unicode scalar values, encoding
   produces bytes, and only canonical encodings decode (so a decoded text
   determines its bytes). *)
From PyGql Require Import Lang.Utf8.
From Coq Require Import Lia ZArith.
Local Open Scope N_scope.

Ltac Zify.zify_post_hook ::= Z.div_mod_to_equations.

Ltac bools :=
  repeat match goal with
         | |- context [?a <? ?b] => let E := fresh in destruct (N.ltb_spec a b) as [E|E]
         | |- context [?a <=? ?b] => let E := fresh in destruct (N.leb_spec a b) as [E|E]
         end; simpl.

Lemma decode_unfold b0 r : decode_utf8 (b0 :: r) =
    if b0 <? 128 then option_map (cons b0) (decode_utf8 r)
    else if (194 <=? b0) && (b0 <=? 223) then
      match r with
      | b1 :: r1 =>
          if cont b1 then option_map (cons ((b0 - 192) * 64 + (b1 - 128))) (decode_utf8 r1) else None
      | _ => None
      end
    else if (224 <=? b0) && (b0 <=? 239) then
      match r with
      | b1 :: b2 :: r2 =>
          let c := (b0 - 224) * 4096 + (b1 - 128) * 64 + (b2 - 128) in
          if cont b1 && cont b2 && (2048 <=? c) && negb ((55296 <=? c) && (c <=? 57343))
          then option_map (cons c) (decode_utf8 r2) else None
      | _ => None
      end
    else if (240 <=? b0) && (b0 <=? 244) then
      match r with
      | b1 :: b2 :: b3 :: r3 =>
          let c := (b0 - 240) * 262144 + (b1 - 128) * 4096 + (b2 - 128) * 64 + (b3 - 128) in
          if cont b1 && cont b2 && cont b3 && (65536 <=? c) && (c <=? 1114111)
          then option_map (cons c) (decode_utf8 r3) else None
      | _ => None
      end
    else None.
Proof. reflexivity. Qed.

Lemma radix_facts c :
  exists q1 r1 q2 r2 q3 r3,
    c / 64 = q1 /\ c mod 64 = r1 /\ c / 4096 = q2 /\ (c / 64) mod 64 = r2 /\ c / 262144 = q3 /\ (c / 4096) mod 64 = r3
    /\ c = 64 * q1 + r1 /\ r1 < 64 /\ q1 = 64 * q2 + r2 /\ r2 < 64 /\ q2 = 64 * q3 + r3 /\ r3 < 64.
Proof.
  exists (c / 64), (c mod 64), (c / 4096), ((c / 64) mod 64), (c / 262144), ((c / 4096) mod 64).
  assert (E2 : c / 4096 = c / 64 / 64) by (rewrite N.div_div by discriminate; reflexivity).
  assert (E3 : c / 262144 = c / 4096 / 64) by (rewrite N.div_div by discriminate; reflexivity).
  repeat split; try reflexivity.
  - apply N.div_mod. discriminate.
  - apply N.mod_upper_bound. discriminate.
  - rewrite E2. apply N.div_mod. discriminate.
  - apply N.mod_upper_bound. discriminate.
  - rewrite E3. apply N.div_mod. discriminate.
  - apply N.mod_upper_bound. discriminate.
Qed.

Lemma decode_encode_char c r : scalar c -> decode_utf8 (encode_char c ++ r) = option_map (cons c) (decode_utf8 r).
Proof.
  intros Hc. unfold scalar in Hc. unfold encode_char.
  destruct (radix_facts c) as (q1 & r1 & q2 & r2 & q3 & r3 & -> & -> & -> & -> & -> & -> & F1 & F2 & F3 & F4 & F5 & F6).
  destruct (N.ltb_spec c 128) as [H1|H1].
  { cbn [app]. rewrite decode_unfold. destruct (N.ltb_spec c 128); [reflexivity|lia]. }
  destruct (N.ltb_spec c 2048) as [H2|H2].
  { cbn [app]. rewrite decode_unfold. cbv beta iota zeta. unfold cont.
    replace (192 + q1 <? 128) with false by (symmetry; apply N.ltb_ge; lia).
    replace ((194 <=? 192 + q1) && (192 + q1 <=? 223)) with true
      by (symmetry; apply andb_true_iff; rewrite !N.leb_le; lia).
    replace ((128 <=? 128 + r1) && (128 + r1 <=? 191)) with true
      by (symmetry; apply andb_true_iff; rewrite !N.leb_le; lia).
    replace ((192 + q1 - 192) * 64 + (128 + r1 - 128)) with c by lia. reflexivity. }
  destruct (N.ltb_spec c 65536) as [H3|H3].
  { cbn [app]. rewrite decode_unfold. cbv beta iota zeta. unfold cont.
    replace (224 + q2 <? 128) with false by (symmetry; apply N.ltb_ge; lia).
    replace ((194 <=? 224 + q2) && (224 + q2 <=? 223)) with false
      by (symmetry; apply andb_false_iff; right; apply N.leb_gt; lia).
    replace ((224 <=? 224 + q2) && (224 + q2 <=? 239)) with true
      by (symmetry; apply andb_true_iff; rewrite !N.leb_le; lia).
    replace ((224 + q2 - 224) * 4096 + (128 + r2 - 128) * 64 + (128 + r1 - 128)) with c by lia.
    replace ((128 <=? 128 + r2) && (128 + r2 <=? 191)) with true
      by (symmetry; apply andb_true_iff; rewrite !N.leb_le; lia).
    replace ((128 <=? 128 + r1) && (128 + r1 <=? 191)) with true
      by (symmetry; apply andb_true_iff; rewrite !N.leb_le; lia).
    replace (2048 <=? c) with true by (symmetry; apply N.leb_le; lia).
    replace ((55296 <=? c) && (c <=? 57343)) with false
      by (symmetry; apply andb_false_iff; rewrite !N.leb_gt; lia).
    reflexivity. }
  cbn [app]. rewrite decode_unfold. cbv beta iota zeta. unfold cont.
  replace (240 + q3 <? 128) with false by (symmetry; apply N.ltb_ge; lia).
  replace ((194 <=? 240 + q3) && (240 + q3 <=? 223)) with false
    by (symmetry; apply andb_false_iff; right; apply N.leb_gt; lia).
  replace ((224 <=? 240 + q3) && (240 + q3 <=? 239)) with false
    by (symmetry; apply andb_false_iff; right; apply N.leb_gt; lia).
  replace ((240 <=? 240 + q3) && (240 + q3 <=? 244)) with true
    by (symmetry; apply andb_true_iff; rewrite !N.leb_le; lia).
  replace ((240 + q3 - 240) * 262144 + (128 + r3 - 128) * 4096
           + (128 + r2 - 128) * 64 + (128 + r1 - 128)) with c by lia.
  replace ((128 <=? 128 + r3) && (128 + r3 <=? 191)) with true
    by (symmetry; apply andb_true_iff; rewrite !N.leb_le; lia).
  replace ((128 <=? 128 + r2) && (128 + r2 <=? 191)) with true
    by (symmetry; apply andb_true_iff; rewrite !N.leb_le; lia).
  replace ((128 <=? 128 + r1) && (128 + r1 <=? 191)) with true
    by (symmetry; apply andb_true_iff; rewrite !N.leb_le; lia).
  replace (65536 <=? c) with true by (symmetry; apply N.leb_le; lia).
  replace (c <=? 1114111) with true by (symmetry; apply N.leb_le; lia).
  reflexivity.
Qed.

Theorem decode_encode s : Forall scalar s -> decode_utf8 (encode_utf8 s) = Some s.
Proof.
  induction 1 as [|c s Hc Hs IH]; [reflexivity|]. unfold encode_utf8. cbn [flat_map].
  rewrite (decode_encode_char c _ Hc). fold (encode_utf8 s). rewrite IH. reflexivity.
Qed.

Lemma encode_char_bytes c : scalar c -> Forall is_byte (encode_char c).
Proof.
  intros Hc. unfold scalar in Hc. unfold encode_char, is_byte.
  destruct (radix_facts c) as (q1 & r1 & q2 & r2 & q3 & r3 & -> & -> & -> & -> & -> & -> & F1 & F2 & F3 & F4 & F5 & F6).
  destruct (N.ltb_spec c 128); [repeat constructor; lia|].
  destruct (N.ltb_spec c 2048); [repeat constructor; lia|].
  destruct (N.ltb_spec c 65536); repeat constructor; lia.
Qed.

Theorem encode_bytes s : Forall scalar s -> Forall is_byte (encode_utf8 s).
Proof.
  induction 1 as [|c s Hc Hs IH]; [constructor|]. unfold encode_utf8. cbn [flat_map].
  apply Forall_app. split; [apply encode_char_bytes; exact Hc|exact IH].
Qed.

(* ---- a bytes source behaves like its text ---- *)
From PyGql Require Import Lang.Parser Lang.Source.

Theorem bytes_like_text fl s : Forall scalar s ->
  source_text (encode_utf8 s) = Some s
  /\ parse_document_bytes fl (encode_utf8 s) = parse_document fl s
  /\ parse_value_bytes fl (encode_utf8 s) = parse_value_str fl s
  /\ parse_type_bytes fl (encode_utf8 s) = parse_type_str fl s.
Proof.
  intros H. unfold source_text, parse_document_bytes, parse_value_bytes, parse_type_bytes, on_bytes.
  rewrite (decode_encode s H). auto.
Qed.

(* a BOM is kept as U+FEFF (the lexer ignores it) *)
Lemma decode_bom r : decode_utf8 (239 :: 187 :: 191 :: r) = option_map (cons 65279) (decode_utf8 r).
Proof. reflexivity. Qed.
