(* Proofs about the closure iteration [close], outcome sequencing [ocat],
   and totality of the rule models (C05_validate_total). *)
From PyGql Require Import Valid.ValidOverlap.
From Coq Require Import Lia.

(* ---- reachability that [close] computes ---- *)
Inductive creach (g : str -> list str) (S0 cands : list str) : str -> Prop :=
| creach_base x : In x S0 -> creach g S0 cands x
| creach_step p x : creach g S0 cands p -> In x (g p) -> In x cands -> creach g S0 cands x.

Lemma filter_len_le {A} (f : A -> bool) (l : list A) : length (filter f l) <= length l.
Proof. induction l as [|a l IH]; simpl; [lia|]. destruct (f a); simpl; lia. Qed.

Lemma filter_length_lt {A} (f : A -> bool) (l : list A) x :
  In x l -> f x = false -> length (filter f l) < length l.
Proof.
  induction l as [|a l IH]; simpl; [tauto|].
  intros [->|Hin] Hf.
  - rewrite Hf. pose proof (filter_len_le f l). lia.
  - destruct (f a); simpl; specialize (IH Hin Hf); lia.
Qed.

Lemma close_fuel_ok g : forall fuel cands S0,
  length cands < fuel -> exists R, close fuel cands g S0 = Ok R.
Proof.
  induction fuel as [|f IH]; intros cands S0 Hlen; [lia|].
  simpl.
  destruct (filter (fun c => negb (mem_str c S0) && existsb (fun p => mem_str c (g p)) S0) cands)
    as [|h new] eqn:Hnew.
  - eexists; reflexivity.
  - apply IH.
    assert (Hh : In h cands).
    { assert (Hin : In h (h :: new)) by (left; reflexivity).
      rewrite <- Hnew in Hin. apply filter_In in Hin. tauto. }
    assert (Hlt : length (filter (fun c => negb (mem_str c (h :: new))) cands) < length cands).
    { apply filter_length_lt with (x := h); [exact Hh|].
      simpl. rewrite str_eqb_refl. reflexivity. }
    lia.
Qed.

Lemma close_inv g : forall fuel cands S0 R,
  close fuel cands g S0 = Ok R ->
  incl S0 R /\
  (forall x, In x R -> In x S0 \/ In x cands) /\
  (forall C0, (forall c, In c C0 -> In c cands \/ In c S0) ->
              forall p x, In p R -> In x (g p) -> In x C0 -> In x R).
Proof.
  induction fuel as [|f IH]; intros cands S0 R H; [discriminate|].
  simpl in H.
  destruct (filter (fun c => negb (mem_str c S0) && existsb (fun p => mem_str c (g p)) S0) cands)
    as [|h new] eqn:Hnew.
  - inversion H; subst R. split; [apply incl_refl|]. split; [tauto|].
    intros C0 HC p x Hp Hx HxC.
    destruct (mem_str x S0) eqn:Hm; [apply mem_str_In; exact Hm|].
    destruct (HC x HxC) as [Hc|Hs]; [|exact Hs].
    assert (Hf : In x (filter (fun c => negb (mem_str c S0) && existsb (fun p => mem_str c (g p)) S0) cands)).
    { apply filter_In. split; [exact Hc|]. rewrite Hm. simpl.
      apply existsb_exists. exists p. split; [exact Hp|]. apply mem_str_In. exact Hx. }
    rewrite Hnew in Hf. destruct Hf.
  - apply IH in H. destruct H as (Hincl & Hfrom & Hclosed).
    assert (Hnew_in : forall c, In c (h :: new) -> In c cands).
    { intros c Hc. rewrite <- Hnew in Hc. apply filter_In in Hc. tauto. }
    split; [intros x Hx; apply Hincl; apply in_or_app; left; exact Hx|].
    split.
    + intros x Hx. destruct (Hfrom x Hx) as [Ha|Hc].
      * apply in_app_or in Ha. destruct Ha as [Ha|Ha]; [left; exact Ha|right; apply Hnew_in; exact Ha].
      * apply filter_In in Hc. right. tauto.
    + intros C0 HC p x Hp Hx HxC. refine (Hclosed C0 _ p x Hp Hx HxC).
      intros c Hc. destruct (HC c Hc) as [Hcc|Hcs].
      * destruct (mem_str c (h :: new)) eqn:Hm.
        -- right. apply in_or_app. right. apply mem_str_In. exact Hm.
        -- left. apply filter_In. split; [exact Hcc|]. rewrite Hm. reflexivity.
      * right. apply in_or_app. left. exact Hcs.
Qed.

Lemma close_sound g : forall fuel cands S0 R,
  close fuel cands g S0 = Ok R -> forall x, In x R -> creach g S0 cands x.
Proof.
  induction fuel as [|f IH]; intros cands S0 R H x Hx; [discriminate|].
  simpl in H.
  destruct (filter (fun c => negb (mem_str c S0) && existsb (fun p => mem_str c (g p)) S0) cands)
    as [|h new] eqn:Hnew.
  - inversion H; subst R. apply creach_base. exact Hx.
  - specialize (IH _ _ _ H x Hx).
    assert (Hnewr : forall c, In c (h :: new) -> creach g S0 cands c).
    { intros c Hc. rewrite <- Hnew in Hc. apply filter_In in Hc. destruct Hc as [Hc Hb].
      apply andb_prop in Hb. destruct Hb as [_ Hb]. apply existsb_exists in Hb.
      destruct Hb as [p [Hp Hm]]. apply mem_str_In in Hm.
      eapply creach_step; [apply creach_base; exact Hp|exact Hm|exact Hc]. }
    clear Hx H. induction IH as [y Hy|p y Hp IHp Hy Hc].
    + apply in_app_or in Hy. destruct Hy as [Hy|Hy]; [apply creach_base; exact Hy|apply Hnewr; exact Hy].
    + eapply creach_step; [exact IHp|exact Hy|]. apply filter_In in Hc. tauto.
Qed.

Lemma close_complete g fuel cands S0 R :
  close fuel cands g S0 = Ok R -> forall x, creach g S0 cands x -> In x R.
Proof.
  intros H x Hr. destruct (close_inv g _ _ _ _ H) as (Hincl & _ & Hclosed).
  induction Hr as [y Hy|p y Hp IHp Hy Hc].
  - apply Hincl. exact Hy.
  - refine (Hclosed cands _ p y IHp Hy Hc). intros c Hcc. left. exact Hcc.
Qed.

(* ---- ocat ---- *)
Lemma ocat_ok {A B} (f : A -> outcome (list B)) (l : list A) :
  (forall x, In x l -> exists r, f x = Ok r) -> exists r, ocat f l = Ok r.
Proof.
  induction l as [|a l IH]; intros H; simpl; [eexists; reflexivity|].
  destruct (H a (or_introl eq_refl)) as [ra Ha]. rewrite Ha. simpl.
  destruct IH as [rl Hl]; [intros x Hx; apply H; right; exact Hx|].
  rewrite Hl. simpl. eexists; reflexivity.
Qed.

Lemma ocat_inv {A B} (f : A -> outcome (list B)) (l : list A) r :
  ocat f l = Ok r ->
  (forall x, In x l -> exists rx, f x = Ok rx /\ incl rx r) /\
  (forall y, In y r -> exists x rx, In x l /\ f x = Ok rx /\ In y rx).
Proof.
  revert r. induction l as [|a l IH]; intros r H; simpl in H.
  - inversion H; subst. split; [intros x []|intros y []].
  - destruct (f a) as [ra| | |] eqn:Ha; simpl in H; try discriminate.
    destruct (ocat f l) as [rl| | |] eqn:Hl; simpl in H; try discriminate.
    inversion H; subst r. destruct (IH rl eq_refl) as [IH1 IH2]. split.
    + intros x [->|Hx].
      * exists ra. split; [exact Ha|]. intros y Hy. apply in_or_app. left. exact Hy.
      * destruct (IH1 x Hx) as [rx [Hfx Hin]]. exists rx. split; [exact Hfx|].
        intros y Hy. apply in_or_app. right. apply Hin. exact Hy.
    + intros y Hy. apply in_app_or in Hy. destruct Hy as [Hy|Hy].
      * exists a, ra. split; [left; reflexivity|]. split; assumption.
      * destruct (IH2 y Hy) as [x [rx [Hx [Hfx Hyx]]]]. exists x, rx.
        split; [right; exact Hx|]. split; assumption.
Qed.

Lemma ocat_nil_iff {A B} (f : A -> outcome (list B)) (l : list A) r :
  ocat f l = Ok r -> (r = [] <-> forall x rx, In x l -> f x = Ok rx -> rx = []).
Proof.
  intros H. destruct (ocat_inv f l r H) as [H1 H2]. split.
  - intros -> x rx Hx Hfx. destruct (H1 x Hx) as [rx' [Hfx' Hincl]].
    rewrite Hfx in Hfx'. inversion Hfx'; subst rx'.
    destruct rx as [|y rx]; [reflexivity|]. destruct (Hincl y (or_introl eq_refl)).
  - intros Hall. destruct r as [|y r]; [reflexivity|].
    destruct (H2 y (or_introl eq_refl)) as [x [rx [Hx [Hfx Hy]]]].
    rewrite (Hall x rx Hx Hfx) in Hy. destruct Hy.
Qed.

(* ---- totality of the rules that use [close] ---- *)
Lemma op_closure_ok s d k : exists R, op_closure s d k = Ok R.
Proof. unfold op_closure, close_fuel. apply close_fuel_ok. lia. Qed.

Lemma r14_ok s d : exists l, r14_no_fragment_cycles s d = Ok l.
Proof.
  unfold r14_no_fragment_cycles.
  destruct (ocat_ok (fun f =>
      do acc <- close (close_fuel d) (frag_names d) (cyc_spreads s d) (cyc_spreads s d f);
      Ok (if mem_str f acc then [mk 14 (doc_loc d)] else [])) (dedup (frag_names d))) as [r Hr].
  - intros f _. destruct (close_fuel_ok (cyc_spreads s d) (close_fuel d) (frag_names d) (cyc_spreads s d f)) as [R HR];
      [unfold close_fuel; lia|]. rewrite HR. simpl. eexists; reflexivity.
  - rewrite Hr. simpl. eexists; reflexivity.
Qed.

Lemma r16_ok s d : exists l, r16_no_undefined_variables s d = Ok l.
Proof.
  unfold r16_no_undefined_variables. apply ocat_ok. intros k _.
  destruct (op_closure_ok s d k) as [R HR]. rewrite HR. simpl. eexists; reflexivity.
Qed.
Lemma r17_ok s d : exists l, r17_no_unused_variables s d = Ok l.
Proof.
  unfold r17_no_unused_variables. apply ocat_ok. intros k _.
  destruct (op_closure_ok s d k) as [R HR]. rewrite HR. simpl. eexists; reflexivity.
Qed.
Lemma r24_ok s d : exists l, r24_variables_in_allowed_position s d = Ok l.
Proof.
  unfold r24_variables_in_allowed_position. apply ocat_ok. intros k _.
  destruct (op_closure_ok s d k) as [R HR]. rewrite HR. simpl. eexists; reflexivity.
Qed.

Lemma rule_model_ok_but_overlap fuel s d r :
  r <> 25%N -> exists l, rule_model fuel s d r = Ok l.
Proof.
  intros Hr. unfold rule_model.
  destruct r as [|p]; [eexists; reflexivity|].
  do 6 (try (destruct p as [p|p|])); simpl; try (eexists; reflexivity);
    try apply r14_ok; try apply r16_ok; try apply r17_ok; try apply r24_ok; congruence.
Qed.

Theorem validate_total_but_overlap fuel s d :
  exists l, validate_rules fuel s d rules_but_overlap = Ok l.
Proof.
  unfold validate_rules. apply ocat_ok. intros r Hr.
  apply rule_model_ok_but_overlap. intros ->. simpl in Hr.
  repeat (destruct Hr as [Hr|Hr]; [discriminate|]). exact Hr.
Qed.

(* ---- the overlapping-fields search never fails otherwise than by fuel ---- *)
Definition benign {A} (o : outcome A) : Prop :=
  match o with Ok _ | OutOfFuel => True | _ => False end.

Lemma run_benign s frs : forall fuel c st, benign (run fuel s frs c st).
Proof.
  induction fuel as [|f IH]; intros c st; [exact I|].
  assert (Hseq : forall cs st0 b,
    benign ((fix seq (cs : list call) (st0 : ostate) (b : bool) : outcome (bool * ostate) :=
               match cs with
               | [] => Ok (b, st0)
               | c' :: cs' =>
                   match run f s frs c' st0 with
                   | Ok (b', st') => seq cs' st' (b || b')
                   | OutOfFuel => OutOfFuel
                   | Rejected k p => Rejected k p
                   | Crash k => Crash k
                   end
               end) cs st0 b)).
  { induction cs as [|c' cs IHcs]; intros st0 b; [exact I|].
    specialize (IH c' st0). destruct (run f s frs c' st0) as [[b' st']| | |]; simpl in IH; try tauto.
    apply IHcs. }
  destruct c; simpl.
  - repeat match goal with |- context [if ?x then _ else _] => destruct x end; try exact I.
    destruct (fi_sub f1) as [[l1 s1]|]; try exact I. destruct (fi_sub f2) as [[l2 s2]|]; try exact I. apply IH.
  - apply Hseq.
  - destruct (q_take mid f0 me (snd st)) as [q'|]; [|exact I].
    destruct (frag_ff s frs f0) as [[fm2 fns]|]; [|exact I].
    exact (Hseq (CBetween me m fm2 :: map (CFieldsFrag me mid m) fns) (fst st, q') false).
  - destruct (str_eqb f1 f2); [exact I|]. destruct (negb (existsb (pkey_match f1 f2 me) (fst st))); [exact I|].
    destruct (frag_ff s frs f1) as [[fm1 fns1]|]; [|exact I].
    destruct (frag_ff s frs f2) as [[fm2 fns2]|]; [|exact I].
    exact (Hseq (CBetween me fm1 fm2 :: map (fun x => CFrags me x f2) fns1 ++ map (fun x => CFrags me f1 x) fns2)
                (filter (fun k => negb (pkey_match f1 f2 me k)) (fst st), snd st) false).
  - exact (Hseq (CBetween me (fst (fields_and_fragments s p1 s1)) (fst (fields_and_fragments s p2 s2))
               :: map (CFieldsFrag me l1 (fst (fields_and_fragments s p1 s1))) (snd (fields_and_fragments s p2 s2))
               ++ map (CFieldsFrag me l2 (fst (fields_and_fragments s p2 s2))) (snd (fields_and_fragments s p1 s1))
               ++ map (fun p => CFrags me (fst p) (snd p))
                      (cross (snd (fields_and_fragments s p1 s1)) (snd (fields_and_fragments s p2 s2)))) st false).
Qed.

Lemma run_list_benign s frs fuel : forall cs st b, benign (run_list fuel s frs cs st b).
Proof.
  induction cs as [|c cs IH]; intros st b; simpl; [exact I|].
  pose proof (run_benign s frs fuel c st) as Hb.
  destruct (run fuel s frs c st) as [r| | |]; simpl in *; try tauto. apply IH.
Qed.

Lemma overlap_events_benign fuel s frs : forall es st, benign (overlap_events fuel s frs es st).
Proof.
  induction es as [|e es IH]; intros st; simpl; [exact I|].
  destruct e; try apply IH.
  pose proof (run_list_benign s frs fuel (selset_calls s parent ssl sels) st false) as Hb.
  destruct (run_list fuel s frs (selset_calls s parent ssl sels) st false) as [r| | |]; simpl in *; try tauto.
  specialize (IH (snd r)).
  destruct (overlap_events fuel s frs es (snd r)); simpl in *; tauto.
Qed.

Lemma ocat_benign {A B} (f : A -> outcome (list B)) (l : list A) :
  (forall x, In x l -> benign (f x)) -> benign (ocat f l).
Proof.
  induction l as [|a l IH]; intros H; simpl; [exact I|].
  pose proof (H a (or_introl eq_refl)) as Ha.
  destruct (f a); simpl in *; try tauto.
  assert (Hl : benign (ocat f l)) by (apply IH; intros x Hx; apply H; right; exact Hx).
  destruct (ocat f l); simpl in *; tauto.
Qed.

Theorem validate_model_benign fuel s d : benign (validate_model fuel s d).
Proof.
  unfold validate_model, validate_rules. apply ocat_benign. intros r _.
  destruct (N.eq_dec r 25) as [->|Hne].
  - simpl. unfold r25_overlapping_fields. apply overlap_events_benign.
  - destruct (rule_model_ok_but_overlap fuel s d r Hne) as [l Hl]. rewrite Hl. exact I.
Qed.
