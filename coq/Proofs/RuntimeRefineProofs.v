(* The link between the two layers, per combinator as layer 2 uses it.

   Layer 2 (Exec/RuntimeMachine.v) treats a deferred value as a term and gives
   Gather / Bind / Task-with-levels their transitions directly (fire,
   gather_norm, apply_k). Layer 1 (Exec/RuntimeFutures.v) is the callback
   machine of threadpool.py. Here: the layer-2 transition of each kind of node
   is the image, under an abstraction of heap states to terms, of what the
   layer-1 theorems (C08_gather_mixed, C08_chain*, C08_unwrap_mixed) say the
   corresponding outer / target future does -- for every completion sequence,
   in both directions (both sides are functions of the sequence).

   What remains assumed, not proved here: a callback body is atomic; Future runs
   each callback exactly once, in registration order, and swallows what a
   callback raises (layer 1's [exec]/[settle] are written to that contract);
   and that the executor's Python code composes the combinators the way the
   layer-2 sync phase says (resolve_field = unwrap (map (unwrap future) complete
   fail), execute_fields = map (gather ...) _collect, ...): that composition is
   tied by the correspondence runs, not by a theorem. *)
From Coq Require Import List NArith ZArith Bool Arith Lia.
Import ListNotations.
From PyGql Require Import Exec.RuntimeFutures Exec.RuntimeMachine
  Proofs.RuntimeFuturesProofs Proofs.RuntimeMachineProofs.

(* ---- abstraction of layer-1 results to layer-2 terms ---- *)
Fixpoint v2 (v : value) : val :=
  match v with
  | VBase n => VInt (Z.of_N n)
  | VFut _ => VNull                       (* a future as a *value* is opaque at this level *)
  | VSeq l => VList (map v2 l)
  end.
Definition e2 (e : exn) : N := match e with EUser n _ => n | EInvalidState => 0%N end.
Definition r2 (r : RuntimeFutures.fres) : D := match r with RVal v => Val (v2 v) | RExn e => Exn (e2 e) end.

Lemma firstn_in {A} (x : A) : forall j l, In x (firstn j l) -> In x l.
Proof.
  induction j as [|j IH]; intros l H; [contradiction|]. destruct l as [|a l]; [contradiction|].
  simpl in H. destruct H as [<-|H]; [left; reflexivity|right; apply IH; exact H].
Qed.
Lemma NoDup_firstn {A} : forall j (l : list A), NoDup l -> NoDup (firstn j l).
Proof.
  induction j as [|j IH]; intros l H; [constructor|]. destruct l as [|a l]; [constructor|].
  inversion H; subst. simpl. constructor; [|apply IH; assumption].
  intros Hc. apply H2. apply (firstn_in a j l Hc).
Qed.
Lemma nth_not_in_firstn {A} (d : A) : forall j l, NoDup l -> j < length l -> ~ In (nth j l d) (firstn j l).
Proof.
  induction j as [|j IH]; intros l Hnd Hj; [intros []|]. destruct l as [|a l]; [simpl in Hj; lia|].
  inversion Hnd; subst. simpl. intros [Hc|Hc].
  - apply H1. rewrite Hc. apply nth_In. simpl in Hj. lia.
  - apply (IH l H2); [simpl in Hj; lia|exact Hc].
Qed.

Lemma incl_dec_missing (l l' : list nat) : incl l l' \/ exists x, In x l /\ ~ In x l'.
Proof.
  induction l as [|a l IH]; [left; intros x []|].
  destruct (in_dec Nat.eq_dec a l') as [Ha|Ha].
  - destruct IH as [IH|(x & Hx & Hn)].
    + left. intros x [<-|Hx]; auto.
    + right. exists x. split; [right; exact Hx|exact Hn].
  - right. exists a. split; [left; reflexivity|exact Ha].
Qed.

(* ------------------------------------------------------------------ *)
(* gather_futures  ~  a layer-2 Gather node                             *)
Section GatherRefine.
  Variable results : fid -> RuntimeFutures.fres.
  Variable source : list value.
  Variable g : nat.

  Let pend := fids_of source.

  Definition inb (S : list fid) (f : fid) : bool := existsb (Nat.eqb f) S.
  Lemma inb_In S f : inb S f = true <-> In f S.
  Proof.
    unfold inb. rewrite existsb_exists. split.
    - intros (x & Hx & He). apply Nat.eqb_eq in He. subst. exact Hx.
    - intros H. exists f. split; [exact H|apply Nat.eqb_refl].
  Qed.

  Definition task_of (f : fid) : tid := ([N.of_nat f], O).
  (* the child of the Gather node that stands for a source *)
  Definition child (S : list fid) (v : value) : D :=
    match v with
    | VFut f => if inb S f then r2 (results f) else Task (task_of f) O
    | _ => Val (v2 v)
    end.
  Definition children (S : list fid) : list D := map (child S) source.

  (* a layer-2 Gather node: still running over its children, or collapsed *)
  Inductive gnode := GRun (ds : list D) | GFin (d : D).
  Definition gnode_norm (ds : list D) : gnode :=
    match fst (gather_norm ds st0) with Gather ds' => GRun ds' | d => GFin d end.
  Definition is_task (f : fid) (d : D) : bool :=
    match d with Task t _ => tid_eqb t (task_of f) | _ => false end.
  (* the transition [fire] performs at a Gather node when the child for source f
     becomes done (fire_gather: fire t (Gather ds) = gather_norm (fire_list t ds)) *)
  Definition gnode_step (n : gnode) (f : fid) : gnode :=
    match n with
    | GFin d => GFin d
    | GRun ds => gnode_norm (map (fun c => if is_task f c then r2 (results f) else c) ds)
    end.

  (* what the layer-1 theorem says about [outer], transported to terms *)
  Definition gspec2 (S : list fid) : gnode :=
    match first_fail results S with
    | Some e => GFin (Exn (e2 e))
    | None => if Nat.eqb (length S) (length pend)
              then GFin (Val (VList (map (fun v => v2 (slot_value results v)) source)))
              else GRun (children S)
    end.

  Definition abs_fstate (s : fstate) (running : list D) : gnode :=
    match s with
    | Done r => GFin (r2 r)
    | Pending _ => GRun running
    end.

  Lemma gspec2_outer S :
    gspec2 S = abs_fstate (outer_spec results source g S) (children S).
  Proof.
    unfold gspec2, outer_spec. fold pend. destruct (first_fail results S); [reflexivity|].
    destruct (Nat.eqb (length S) (length pend)); [|reflexivity].
    cbn. rewrite map_map. reflexivity.
  Qed.

  Lemma first_exn_children_none S :
    (forall f, In f S -> exists v, results f = RVal v) -> first_exn (children S) = None.
  Proof.
    intros H. unfold children. induction source as [|v l IH]; [reflexivity|]. simpl.
    destruct v as [n|f|l0]; simpl; try exact IH.
    destruct (inb S f) eqn:E; [|exact IH]. apply inb_In in E. destruct (H f E) as [x Hx].
    rewrite Hx. simpl. exact IH.
  Qed.

  Lemma first_exn_children_one S f e :
    In f pend -> In f S -> results f = RExn e ->
    (forall x, In x S -> x <> f -> exists v, results x = RVal v) ->
    first_exn (children S) = Some (e2 e).
  Proof.
    intros Hf HfS Hr Hoth. unfold children, pend in *.
    induction source as [|v l IH]; [contradiction|]. simpl in *.
    destruct v as [n|x|l0]; simpl in *; try (apply IH; exact Hf).
    destruct (Nat.eq_dec x f) as [->|Hne].
    - rewrite (proj2 (inb_In S f) HfS), Hr. reflexivity.
    - destruct Hf as [Hf|Hf]; [congruence|].
      destruct (inb S x) eqn:E; [|apply IH; exact Hf].
      apply inb_In in E. destruct (Hoth x E Hne) as [w Hw]. rewrite Hw. simpl. apply IH. exact Hf.
  Qed.

  Lemma all_vals_children_all S :
    (forall f, In f pend -> In f S) -> (forall f, In f S -> exists v, results f = RVal v) ->
    all_vals (children S) = Some (map (fun v => v2 (slot_value results v)) source).
  Proof.
    intros Hall Hok. unfold children, pend in *. induction source as [|v l IH]; [reflexivity|].
    assert (IH' : all_vals (map (child S) l) = Some (map (fun v => v2 (slot_value results v)) l)).
    { apply IH. intros f Hf. apply Hall. destruct v; simpl; auto. }
    simpl. destruct v as [n|f|l0]; simpl in *.
    - rewrite IH'. reflexivity.
    - assert (HfS : In f S) by (apply Hall; left; reflexivity).
      rewrite (proj2 (inb_In S f) HfS). destruct (Hok f HfS) as [w Hw]. rewrite Hw. simpl. rewrite IH'. reflexivity.
    - rewrite IH'. reflexivity.
  Qed.

  Lemma all_vals_children_some_pending S f :
    In f pend -> ~ In f S -> all_vals (children S) = None.
  Proof.
    intros Hf Hn. unfold children, pend in *. induction source as [|v l IH]; [contradiction|].
    simpl in *. destruct v as [n|x|l0]; simpl in *.
    - rewrite (IH Hf). reflexivity.
    - destruct (Nat.eq_dec x f) as [->|Hne].
      + assert (E : inb S f = false).
        { destruct (inb S f) eqn:E; [apply inb_In in E; contradiction|reflexivity]. }
        rewrite E. reflexivity.
      + destruct Hf as [Hf|Hf]; [congruence|]. rewrite (IH Hf).
        destruct (inb S x); [destruct (r2 (results x))|]; reflexivity.
    - rewrite (IH Hf). reflexivity.
  Qed.

  (* normalising the children after the sources in S have finished *)
  Lemma gnode_norm_children S :
    NoDup S -> incl S pend -> gnode_norm (children S) =
    match first_exn (children S) with
    | Some x => GFin (Exn x)
    | None => match all_vals (children S) with
              | Some vs => GFin (Val (VList vs))
              | None => GRun (children S)
              end
    end.
  Proof.
    intros _ _. unfold gnode_norm, gather_norm. destruct (first_exn (children S)); [reflexivity|].
    destruct (all_vals (children S)); reflexivity.
  Qed.

  Lemma task_of_inj a b : task_of a = task_of b -> a = b.
  Proof. unfold task_of. intros H. inversion H. apply Nat2N.inj. assumption. Qed.

  Lemma step_children S f :
    ~ In f S ->
    map (fun c => if is_task f c then r2 (results f) else c) (children S) = children (S ++ [f]).
  Proof.
    intros Hn. unfold children. rewrite map_map. apply map_ext. intros v.
    destruct v as [n|x|l]; simpl; try reflexivity.
    destruct (Nat.eq_dec x f) as [->|Hne].
    - assert (E : inb S f = false).
      { destruct (inb S f) eqn:E; [apply inb_In in E; contradiction|reflexivity]. }
      assert (E' : inb (S ++ [f]) f = true) by (apply inb_In; apply in_or_app; right; left; reflexivity).
      rewrite E, E'. simpl. rewrite tid_eqb_refl. reflexivity.
    - assert (E : inb (S ++ [f]) x = inb S x).
      { destruct (inb S x) eqn:E1.
        - apply inb_In. apply in_or_app. left. apply inb_In. exact E1.
        - destruct (inb (S ++ [f]) x) eqn:E2; [|reflexivity]. apply inb_In in E2.
          apply in_app_or in E2. destruct E2 as [E2|[E2|[]]]; [|congruence].
          apply inb_In in E2. congruence. }
      rewrite E. destruct (inb S x).
      + destruct (results x); reflexivity.
      + simpl. destruct (tid_eqb (task_of x) (task_of f)) eqn:Et; [|reflexivity].
        apply tid_eqb_eq in Et. apply task_of_inj in Et. congruence.
  Qed.

  (* failures among the finished sources, in source order *)
  Lemma first_exn_children S :
    first_exn (children S) = option_map e2 (first_fail results (filter (inb S) pend)).
  Proof.
    unfold children, pend. induction source as [|v l IH]; [reflexivity|]. simpl.
    destruct v as [n|f|l0]; simpl; try exact IH.
    destruct (inb S f); simpl; [|exact IH]. destruct (results f); simpl; [exact IH|reflexivity].
  Qed.

  Hypothesis pend_nodup : NoDup pend.

  (* one step of the layer-2 node = one more completed source in the layer-1 characterisation *)
  Lemma gnode_step_spec S f :
    NoDup S -> incl S pend -> In f pend -> ~ In f S ->
    gnode_step (gspec2 S) f = gspec2 (S ++ [f]).
  Proof.
    intros Hnd Hincl Hf Hnf.
    assert (Hlt : length S < length pend).
    { assert (NoDup (f :: S)) by (constructor; assumption).
      assert (incl (f :: S) pend) by (intros x [<-|Hx]; auto).
      pose proof (NoDup_incl_length H H0). simpl in H1. lia. }
    assert (Hlen : length (S ++ [f]) = Datatypes.S (length S)) by (rewrite app_length; simpl; lia).
    unfold gspec2 at 1. destruct (first_fail results S) as [e0|] eqn:Eff.
    - unfold gspec2. rewrite first_fail_app, Eff. reflexivity.
    - destruct (Nat.eqb_spec (length S) (length pend)); [lia|].
      cbn [gnode_step]. rewrite (step_children S f Hnf).
      assert (Hnd' : NoDup (S ++ [f])) by (apply NoDup_snoc; assumption).
      assert (Hincl' : incl (S ++ [f]) pend).
      { intros x Hx. apply in_app_or in Hx. destruct Hx as [Hx|[<-|[]]]; auto. }
      rewrite (gnode_norm_children (S ++ [f]) Hnd' Hincl').
      assert (HokS : forall x, In x S -> exists v, results x = RVal v)
        by (apply first_fail_none; exact Eff).
      unfold gspec2. rewrite first_fail_app, Eff. simpl first_fail.
      destruct (results f) as [v|e] eqn:Er.
      + assert (Hok' : forall x, In x (S ++ [f]) -> exists w, results x = RVal w).
        { intros x Hx. apply in_app_or in Hx. destruct Hx as [Hx|[<-|[]]]; [auto|eauto]. }
        rewrite (first_exn_children_none _ Hok').
        destruct (Nat.eqb_spec (length (S ++ [f])) (length pend)) as [Heq|Hne].
        * assert (Hcover : forall x, In x pend -> In x (S ++ [f])).
          { apply NoDup_length_incl; [exact Hnd'|lia|exact Hincl']. }
          rewrite (all_vals_children_all _ Hcover Hok'). reflexivity.
        * assert (Hex : exists x, In x pend /\ ~ In x (S ++ [f])).
          { (* some pending source is left: otherwise pend would be included in S ++ [f] *)
            destruct (incl_dec_missing pend (S ++ [f])) as [Hall|Hex]; [|exact Hex].
            exfalso. pose proof (NoDup_incl_length pend_nodup Hall) as Hle.
            pose proof (NoDup_incl_length Hnd' Hincl'). lia. }
          destruct Hex as (x & Hx & Hnx). rewrite (all_vals_children_some_pending _ x Hx Hnx). reflexivity.
      + assert (HfS : In f (S ++ [f])) by (apply in_or_app; right; left; reflexivity).
        rewrite (first_exn_children_one (S ++ [f]) f e Hf HfS Er).
        * reflexivity.
        * intros x Hx Hne. apply in_app_or in Hx. destruct Hx as [Hx|[Hx|[]]]; [auto|congruence].
  Qed.

  (* the node right after gather_futures returned: the sources in [was_done] had already finished *)
  Lemma gnode_init (was_done : fid -> bool) :
    let donel := filter was_done pend in
    gnode_norm (children donel) = gspec2 donel.
  Proof.
    intros donel.
    assert (Hnd : NoDup donel) by (apply NoDup_filter; exact pend_nodup).
    assert (Hincl : incl donel pend) by (intros x Hx; apply filter_In in Hx; apply Hx).
    assert (Hfil : filter (inb donel) pend = donel).
    { unfold donel. apply filter_ext_in. intros x Hx.
      destruct (was_done x) eqn:E.
      - apply inb_In. apply filter_In. auto.
      - destruct (inb (filter was_done pend) x) eqn:E2; [|reflexivity].
        apply inb_In in E2. apply filter_In in E2. destruct E2. congruence. }
    rewrite (gnode_norm_children donel Hnd Hincl), first_exn_children, Hfil. unfold gspec2.
    destruct (first_fail results donel) as [e|] eqn:Eff; [reflexivity|]. simpl.
    assert (Hok : forall x, In x donel -> exists v, results x = RVal v) by (apply first_fail_none; exact Eff).
    destruct (Nat.eqb_spec (length donel) (length pend)) as [Heq|Hne].
    - assert (Hcover : forall x, In x pend -> In x donel).
      { apply NoDup_length_incl; [exact Hnd|lia|exact Hincl]. }
      rewrite (all_vals_children_all _ Hcover Hok). reflexivity.
    - destruct (incl_dec_missing pend donel) as [Hall|(x & Hx & Hnx)].
      + exfalso. pose proof (NoDup_incl_length pend_nodup Hall). pose proof (NoDup_incl_length Hnd Hincl). lia.
      + rewrite (all_vals_children_some_pending _ x Hx Hnx). reflexivity.
  Qed.

  (* the node after any completion sequence of the remaining sources *)
  Lemma gnode_run : forall sigma S,
    NoDup (S ++ sigma) -> incl (S ++ sigma) pend ->
    fold_left gnode_step sigma (gspec2 S) = gspec2 (S ++ sigma).
  Proof.
    induction sigma as [|f sigma IH]; intros S Hnd Hincl.
    - rewrite app_nil_r. reflexivity.
    - simpl. replace (S ++ f :: sigma) with ((S ++ [f]) ++ sigma) in * by (rewrite <- app_assoc; reflexivity).
      assert (Hnd' : NoDup (S ++ [f])) by (apply NoDup_app_l in Hnd; exact Hnd).
      rewrite gnode_step_spec.
      + apply IH; assumption.
      + apply NoDup_app_l in Hnd'. exact Hnd'.
      + intros x Hx. apply Hincl. apply in_or_app. left. apply in_or_app. left. exact Hx.
      + apply Hincl. apply in_or_app. left. apply in_or_app. right. left. reflexivity.
      + intros Hc. apply NoDup_remove_2 in Hnd'. rewrite app_nil_r in Hnd'. contradiction.
  Qed.
End GatherRefine.

(* gather_futures refines to the layer-2 Gather node: for every set of sources
   already finished when it is called and every completion sequence of the
   others, the state of [outer] in the layer-1 heap is the image of the state the
   layer-2 node reaches by the same sequence of child completions *)
Theorem gather_refines apply_fn apply_handler fuel h source results (was_done : fid -> bool) sigma :
  3 <= fuel ->
  fids_of source <> [] -> NoDup (fids_of source) ->
  (forall f, In f (fids_of source) ->
     futs h f = (if was_done f then Done (results f) else Pending []) /\ f < next_fid h) ->
  blocked h = false -> out_of_fuel h = false ->
  NoDup sigma -> incl sigma (filter (fun f => negb (was_done f)) (fids_of source)) ->
  exists outer h1,
    gather apply_fn apply_handler fuel h source = (Ret (VFut outer), h1) /\
    let hs := fold_left (fun h f => complete apply_fn apply_handler fuel h f (results f)) sigma h1 in
    let donel := filter was_done (fids_of source) in
    fold_left (gnode_step results) sigma (gnode_norm (children results source donel)) =
    abs_fstate (futs hs outer) (children results source (donel ++ sigma)).
Proof.
  intros Hfuel Hne Hnd Hall Hb Ho Hnds Hincl.
  destruct (gather_mixed_orders apply_fn apply_handler fuel h source results was_done sigma
              Hfuel Hne Hnd Hall Hb Ho Hnds Hincl) as (outer & h1 & Hg & Hout & _ & _).
  exists outer, h1. split; [exact Hg|]. cbv zeta in *. rewrite Hout.
  rewrite (gnode_init results source Hnd was_done).
  rewrite <- (gspec2_outer results source (next_g h)).
  apply gnode_run; [exact Hnd| |].
  - apply NoDup_app_disj; [apply NoDup_filter; exact Hnd|exact Hnds|].
    intros x Hx Hs. apply filter_In in Hx. destruct Hx as [_ Hx].
    apply Hincl in Hs. apply filter_In in Hs. destruct Hs as [_ Hs]. rewrite Hx in Hs. discriminate.
  - intros x Hx. apply in_app_or in Hx. destruct Hx as [Hx|Hx].
    + apply filter_In in Hx. apply Hx.
    + apply Hincl in Hx. apply filter_In in Hx. apply Hx.
Qed.

(* the layer-2 side of the statement is literally what [fire] does at a Gather
   node: normalise the children after the completion has been delivered to them *)
Lemma fire_at_gather t ds st :
  fire t (Gather ds) st = let '(ds', st1) := fire_list t ds st in gather_norm ds' st1.
Proof. apply fire_gather. Qed.

(* ------------------------------------------------------------------ *)
(* chain (+ the else_ clause)  ~  a layer-2 Bind node                   *)
Section ChainRefine.
  Variable apply_fn : fn -> value -> RuntimeFutures.fres.
  Variable apply_handler : fn -> exn -> value.

  (* layer 2: when the source of [Bind d k] becomes a value the continuation runs,
     when it fails the failure propagates *)
  Lemma fire_at_bind_val t k st :
    fire t (Bind (Task t O) k) st =
    apply_k k VNull (MkSt (remove_tid t (pending st)) (log st ++ [LFinish t]) (orphans st) (raised st)).
  Proof. cbn [fire]. rewrite tid_eqb_refl. reflexivity. Qed.
  Lemma fire_at_bind_exn t d k st d' st' x :
    fire t d st = (d', st') -> d' = Exn x -> fire t (Bind d k) st = (Exn x, st').
  Proof. intros H ->. cbn [fire]. rewrite H. reflexivity. Qed.

  (* layer 1: the target of chain, as C08_chain / C08_chain_done give it, read as a term.
     [k2] is the abstraction of the Python continuation [then_]. *)
  Definition bind2 (src : D) (k2 : val -> D) : D :=
    match src with Val v => k2 v | Exn x => Exn x | d => d end.

  Lemma chain_refines_plain r then_ (k2 : val -> D) :
    (forall v, r2 (apply_fn then_ v) = k2 (v2 v)) ->
    r2 (chain_result apply_fn apply_handler r then_ None) = bind2 (r2 r) k2.
  Proof.
    intros Hk. unfold chain_result. destruct r as [v|e]; simpl.
    - rewrite <- Hk. destruct (apply_fn then_ v); reflexivity.
    - reflexivity.
  Qed.

  (* with the else_ clause of resolve_field: an exception of the handled class
     (ResolverError) from the source or from [then_] becomes the handler's value
     (fail: add_error, None); layer 2 has this folded into KComplete (body BErr) *)
  Lemma chain_refines_handled n then_ hd :
    chain_result apply_fn apply_handler (RExn (EUser n true)) then_ (Some hd) =
    RVal (apply_handler hd (EUser n true)).
  Proof. reflexivity. Qed.
  Lemma chain_refines_unhandled n then_ els :
    chain_result apply_fn apply_handler (RExn (EUser n false)) then_ els = RExn (EUser n false).
  Proof. unfold chain_result. destruct els; reflexivity. Qed.
End ChainRefine.

(* ------------------------------------------------------------------ *)
(* unwrap_future  ~  a layer-2 Task with nesting levels                 *)

(* layer 2: a task with [more] further levels needs more+1 completions, in
   order (the next level is only submitted when the previous one completes) *)
Fixpoint level_tids (t : tid) (more : nat) : list tid :=
  match more with O => [t] | S n => t :: level_tids (next_tid t) n end.

Lemma level_tids_length : forall more t, length (level_tids t more) = Datatypes.S more.
Proof. induction more as [|n IH]; intros t; [reflexivity|]. simpl. rewrite IH. reflexivity. Qed.

Lemma fire_levels : forall more t st j,
  j <= more ->
  fst (fold_left (fun ds u => fire u (fst ds) (snd ds)) (firstn j (level_tids t more)) (Task t more, st))
  = Task (Nat.iter j next_tid t) (more - j).
Proof.
  induction more as [|n IH]; intros t st j Hj.
  - assert (j = 0) by lia. subst. reflexivity.
  - destruct j as [|j]; [reflexivity|]. cbn [level_tids firstn fold_left fst snd fire].
    rewrite tid_eqb_refl. cbn [fst snd]. rewrite IH by lia.
    f_equal. clear. revert t. induction j as [|j IHj]; intros t; [reflexivity|].
    change (Nat.iter (Datatypes.S j) next_tid (next_tid t)) with (next_tid (Nat.iter j next_tid (next_tid t))).
    rewrite IHj. reflexivity.
Qed.

Lemma fire_levels_all : forall more t st,
  fst (fold_left (fun ds u => fire u (fst ds) (snd ds)) (level_tids t more) (Task t more, st)) = Val VNull.
Proof.
  induction more as [|n IH]; intros t st.
  - cbn. rewrite tid_eqb_refl. reflexivity.
  - cbn [level_tids fold_left fst snd fire]. rewrite tid_eqb_refl. cbn [fst snd]. apply IH.
Qed.

(* layer 1, for the same in-order completions: the outer future of unwrap_future is
   pending exactly as long as the layer-2 task node is not a value *)
Theorem unwrap_refines apply_fn apply_handler fuel h res ss j :
  is_nest res ss -> NoDup ss ->
  (forall s, In s ss -> futs h s = Pending [] /\ s < next_fid h) ->
  length ss + 1 < fuel -> j <= length ss ->
  exists h1,
    unwrap apply_fn apply_handler fuel h (VFut (hd 0 ss)) = (VFut (next_fid h), h1) /\
    let hs := fold_left (fun h f => complete apply_fn apply_handler fuel h f (res f)) (firstn j ss) h1 in
    let node := fst (fold_left (fun ds u => fire u (fst ds) (snd ds))
                               (firstn j (level_tids ([], O) (length ss - 1)))
                               (Task ([], O) (length ss - 1), st0)) in
    (j = length ss -> futs hs (next_fid h) = Done (final res ss) /\ node = Val VNull) /\
    (j < length ss -> futs hs (next_fid h) = Pending [] /\ is_done node = false).
Proof.
  intros Hnest Hnd Hall Hfuel Hj.
  assert (Hnds : NoDup (firstn j ss)) by (apply NoDup_firstn; exact Hnd).
  assert (Hincl : incl (firstn j ss) ss) by (intros x Hx; apply (firstn_in x j ss Hx)).
  destruct (unwrap_all_orders apply_fn apply_handler fuel h res ss (firstn j ss)
              Hnest Hnd Hall Hfuel Hnds Hincl) as (h1 & Hu & Hall_in & Hsome & _).
  exists h1. split; [exact Hu|]. cbv zeta in *.
  assert (Hlen : length ss >= 1) by (destruct ss; [contradiction|simpl; lia]).
  split.
  - intros ->. split.
    + apply Hall_in. intros s Hs. rewrite firstn_all. exact Hs.
    + assert (Hl : length (level_tids ([], O) (length ss - 1)) = length ss)
        by (rewrite level_tids_length; lia).
      rewrite <- Hl at 1. rewrite firstn_all. apply fire_levels_all.
  - intros Hlt. split.
    + apply Hsome. exists (nth j ss 0). split; [apply nth_In; exact Hlt|].
      apply nth_not_in_firstn; assumption.
    + rewrite fire_levels by lia. reflexivity.
Qed.
