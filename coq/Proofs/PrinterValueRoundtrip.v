(* C03 -- the composed round trip for Values through the parser model of
   Lang/Parser.v:  parse_value_str (pr_value v) = strip_value v.
   Part 1: the two transcriptions of BlockStringValue (Spec/LexSpec.v of C01/C02
   and Spec/PrinterSpec.v of C03) define the same function. *)
From PyGql Require Import Lang.Parser Spec.LexSpec Spec.GrammarSpec Proofs.LexProofs
                          Proofs.BlockStringProofs Proofs.EntryProofs.
From PyGql Require Import Lang.PrinterModel Spec.PrinterSpec Proofs.PrinterProofs Proofs.PrinterRoundtrip.
From Coq Require Import Lia.
Local Open Scope N_scope.

Lemma split_lines_cr r :
  PrinterSpec.split_lines (13 :: r) =
  match r with
  | d :: r' => if d =? 10 then [] :: PrinterSpec.split_lines r' else [] :: PrinterSpec.split_lines r
  | [] => [] :: PrinterSpec.split_lines r
  end.
Proof. reflexivity. Qed.

Lemma spec_lines_eq raw : spec_lines raw = PrinterSpec.split_lines raw.
Proof.
  induction raw as [|c r IH]; [reflexivity|].
  cbn [spec_lines]. rewrite IH.
  destruct (c =? 10) eqn:E10.
  - apply N.eqb_eq in E10. subst. rewrite split_lines_lf. reflexivity.
  - destruct (c =? 13) eqn:E13.
    + apply N.eqb_eq in E13. subst. rewrite split_lines_cr.
      destruct r as [|d r']; [reflexivity|]. destruct (d =? 10) eqn:Ed; [|reflexivity].
      apply N.eqb_eq in Ed. subst. rewrite split_lines_lf. reflexivity.
    + apply N.eqb_neq in E10, E13. rewrite split_lines_cons_plain by assumption. reflexivity.
Qed.

Lemma is_whitespace_ws c : is_whitespace c = PrinterSpec.is_ws c.
Proof. unfold is_whitespace, PrinterSpec.is_ws. apply orb_comm. Qed.

Lemma leading_ws_eq l : leading_ws l = indent_of l.
Proof. induction l as [|c l IH]; [reflexivity|]. simpl. rewrite is_whitespace_ws, IH. reflexivity. Qed.

Lemma only_whitespace_eq l : only_whitespace l = blank l.
Proof.
  unfold only_whitespace, blank. induction l as [|c l IH]; [reflexivity|].
  simpl. rewrite is_whitespace_ws, IH. reflexivity.
Qed.

Lemma nonblank_ltb l : Nat.ltb (indent_of l) (length l) = negb (blank l).
Proof.
  unfold blank. induction l as [|c l IH]; [reflexivity|]. simpl.
  destruct (PrinterSpec.is_ws c); simpl; [|reflexivity].
  rewrite <- IH. destruct (Nat.ltb_spec (indent_of l) (length l));
    destruct (Nat.ltb_spec (S (indent_of l)) (S (length l))); try reflexivity; lia.
Qed.

Definition om (a b : option nat) : option nat :=
  match a, b with
  | None, x => x
  | x, None => x
  | Some x, Some y => Some (Nat.min x y)
  end.

Lemma fold_step_eq ls : forall acc,
  fold_left spec_step ls acc = om acc (PrinterSpec.common_indent ls).
Proof.
  induction ls as [|l ls IH]; intros acc; [destruct acc; reflexivity|].
  cbn [fold_left]. rewrite IH. unfold spec_step. rewrite leading_ws_eq, nonblank_ltb.
  cbn [PrinterSpec.common_indent]. destruct (blank l); simpl; [reflexivity|].
  destruct acc as [a|]; destruct (PrinterSpec.common_indent ls) as [m|]; simpl;
    try destruct (Nat.ltb_spec (indent_of l) a); simpl; f_equal; lia.
Qed.

Lemma strip_front_eq L : LexSpec.strip_front L = PrinterSpec.strip_front L.
Proof.
  induction L as [|l L IH]; [reflexivity|]. simpl. rewrite only_whitespace_eq, IH. reflexivity.
Qed.

Lemma strip_back_eq L : LexSpec.strip_back L = PrinterSpec.strip_back L.
Proof.
  rewrite strip_back_rev. unfold PrinterSpec.strip_back. rewrite strip_front_eq. reflexivity.
Qed.

Lemma my_join_flat l ls : PrinterSpec.join_lf (l :: ls) = l ++ flat_map (fun x => 10 :: x) ls.
Proof.
  revert l. induction ls as [|l2 ls IH]; intros l.
  - rewrite join_lf_single. simpl. rewrite app_nil_r. reflexivity.
  - rewrite join_lf_cons by discriminate. rewrite IH. reflexivity.
Qed.

Lemma join_eq L : spec_join L = PrinterSpec.join_lf L.
Proof.
  rewrite <- join_lf_spec. destruct L as [|l ls]; [reflexivity|].
  rewrite my_join_flat. reflexivity.
Qed.

Theorem block_string_value_specs_agree raw :
  LexSpec.block_string_value raw = PrinterSpec.block_string_value raw.
Proof.
  unfold LexSpec.block_string_value, PrinterSpec.block_string_value.
  rewrite join_eq, strip_back_eq, strip_front_eq. unfold spec_dedent, spec_common_indent.
  rewrite spec_lines_eq.
  pose proof (split_lines_ne raw) as Hne.
  destruct (PrinterSpec.split_lines raw) as [|first rest]; [contradiction|].
  cbn [tl]. rewrite fold_step_eq. cbn [om].
  destruct (PrinterSpec.common_indent rest); reflexivity.
Qed.

(* Part 2: the C03 token semantics imply the C01/C02 lexer specifications. *)
Lemma q3_true a b c : q3 a b c = true -> a = 34 /\ b = 34 /\ c = 34.
Proof.
  unfold q3. intros H. apply andb_prop in H. destruct H as [H Hc]. apply andb_prop in H.
  destruct H as [Ha Hb]. apply N.eqb_eq in Ha, Hb, Hc. auto.
Qed.

Lemma q3_false_not_tq a b c r : q3 a b c = false -> ~ triple_quote (a :: b :: c :: r).
Proof.
  intros H [r' E]. inversion E; subst. discriminate.
Qed.

Lemma push_some c x v rest : push c x = Some (v, rest) -> exists v', x = Some (v', rest) /\ v = c :: v'.
Proof. destruct x as [[v' r']|]; simpl; intros H; inversion H; subst; eauto. Qed.

(* my block_body accepts  ==>  their block_scan derives (source characters only) *)
Lemma block_body_scan : forall n s raw rest, (length s <= n)%nat ->
  block_body s = Some (raw, rest) -> Forall SourceCharacter raw -> block_scan s raw rest.
Proof.
  induction n as [|n IH]; intros s raw rest Hn Hb Hsc.
  - destruct s; [discriminate|simpl in Hn; lia].
  - destruct s as [|a r1]; [discriminate|]. simpl in Hn.
    assert (Hplain : forall (Hnt : ~ triple_quote (a :: r1)) (Hne : ~ (a = 92 /\ triple_quote r1)),
               push a (block_body r1) = Some (raw, rest) -> block_scan (a :: r1) raw rest).
    { intros Hnt Hne Hp. apply push_some in Hp. destruct Hp as (v' & Hp & ->).
      inversion Hsc; subst. apply BS_char; auto. apply (IH r1); [lia|assumption|assumption]. }
    unfold block_body in Hb; fold block_body in Hb.
    destruct r1 as [|b [|c r3]].
    + apply Hplain; [intros [r' E]; discriminate|intros [_ [r' E]]; discriminate|exact Hb].
    + apply Hplain; [intros [r' E]; discriminate|intros [_ [r' E]]; discriminate|exact Hb].
    + destruct (q3 a b c) eqn:Q.
      * apply q3_true in Q. destruct Q as (-> & -> & ->). inversion Hb; subst. constructor.
      * pose proof (q3_false_not_tq a b c r3 Q) as Hnt.
        destruct (a =? 92) eqn:A.
        -- apply N.eqb_eq in A. subst a. destruct r3 as [|d r4].
           ++ apply Hplain; [assumption|intros [_ [r' E]]; discriminate|exact Hb].
           ++ destruct (q3 b c d) eqn:Q2.
              ** apply q3_true in Q2. destruct Q2 as (-> & -> & ->).
                 unfold push3 in Hb. apply push_some in Hb. destruct Hb as (v1 & Hb & ->).
                 apply push_some in Hb. destruct Hb as (v2 & Hb & ->).
                 apply push_some in Hb. destruct Hb as (v3 & Hb & ->).
                 apply BS_esc. apply (IH r4); [simpl in Hn; lia|assumption|].
                 inversion Hsc as [|? ? _ H1]; subst. inversion H1 as [|? ? _ H2]; subst.
                 inversion H2; subst. assumption.
              ** apply Hplain; [assumption| |exact Hb].
                 intros [_ Htq]. apply (q3_false_not_tq b c d r4 Q2). exact Htq.
        -- apply Hplain; [assumption| |exact Hb]. intros [E _]. apply N.eqb_neq in A. contradiction.
Qed.

(* json-style quoting produces a string body (their spec) denoting the string *)
Lemma hex_digit_HexDigit n : n < 16 -> HexDigit (hex_digit n) n.
Proof.
  intros H. unfold hex_digit. destruct (n <? 10) eqn:E.
  - apply N.ltb_lt in E. replace n with ((48 + n) - 48) at 2 by lia. apply Hex_digit. lia.
  - apply N.ltb_ge in E. replace n with ((87 + n) - 87) at 2 by lia. apply Hex_lower. lia.
Qed.

Lemma json_char_body c raw v : string_body raw v -> string_body (json_char c ++ raw) (c :: v).
Proof.
  intros Hb. unfold json_char.
  destruct (c =? QUOTE) eqn:E1; [apply N.eqb_eq in E1; subst; apply SB_esc; [constructor|assumption]|].
  destruct (c =? BSLASH) eqn:E2; [apply N.eqb_eq in E2; subst; apply SB_esc; [constructor|assumption]|].
  destruct (c =? 10) eqn:E3; [apply N.eqb_eq in E3; subst; apply SB_esc; [constructor|assumption]|].
  destruct (c =? 13) eqn:E4; [apply N.eqb_eq in E4; subst; apply SB_esc; [constructor|assumption]|].
  destruct (c =? 9) eqn:E5; [apply N.eqb_eq in E5; subst; apply SB_esc; [constructor|assumption]|].
  destruct (c =? 8) eqn:E6; [apply N.eqb_eq in E6; subst; apply SB_esc; [constructor|assumption]|].
  destruct (c =? 12) eqn:E7; [apply N.eqb_eq in E7; subst; apply SB_esc; [constructor|assumption]|].
  unfold QUOTE, BSLASH in *. apply N.eqb_neq in E1, E2, E3, E4, E5.
  destruct (c <? 32) eqn:E8.
  - apply N.ltb_lt in E8.
    assert (Hv : 0 * 4096 + 0 * 256 + (c / 16) * 16 + c mod 16 = c).
    { pose proof (N.div_mod' c 16). lia. }
    replace (c :: v) with ((0 * 4096 + 0 * 256 + (c / 16) * 16 + c mod 16) :: v)
      by (rewrite Hv; reflexivity).
    change ([BSLASH; 117; 48; 48; hex_digit (c / 16); hex_digit (c mod 16)] ++ raw)
      with (92 :: 117 :: 48 :: 48 :: hex_digit (c / 16) :: hex_digit (c mod 16) :: raw).
    apply SB_uni; try assumption.
    + replace 0 with (48 - 48) by reflexivity. apply Hex_digit. lia.
    + replace 0 with (48 - 48) by reflexivity. apply Hex_digit. lia.
    + apply hex_digit_HexDigit. apply N.div_lt_upper_bound; lia.
    + apply hex_digit_HexDigit. apply N.mod_lt. lia.
  - apply N.ltb_ge in E8. apply SB_char; [|assumption].
    repeat split; auto. unfold SourceCharacter. right; right; right. assumption.
Qed.

Lemma json_body s : string_body (flat_map json_char s) s.
Proof. induction s as [|c s IH]; [constructor|]. simpl. apply json_char_body. assumption. Qed.

(* Part 3: one printed token at a time through the lexer model. *)
Definition vrest_ok (rest : str) : Prop :=
  match rest with [] => True | c :: _ => is_name_cont c = false /\ c <> 46 /\ c <> 34 end.

Lemma vrest_rest_ok rest : vrest_ok rest -> rest_ok rest.
Proof. destruct rest as [|c r]; [trivial|]. simpl. tauto. Qed.

Lemma name_cont_false c : is_name_cont c = false -> ~ Digit c /\ ~ NameStart c.
Proof.
  unfold is_name_cont. intros H. apply orb_false_elim in H. destruct H as [H Hd].
  split.
  - intros D. apply is_digit_spec in D. congruence.
  - intros N. apply is_name_start_spec in N. unfold is_name_start in N. congruence.
Qed.

Lemma vrest_follow_ok rest : vrest_ok rest -> follow_ok rest.
Proof.
  destruct rest as [|c r]; [trivial|]. simpl. intros (Hn & H46 & _).
  destruct (name_cont_false c Hn). auto.
Qed.

Lemma vrest_no_quote rest : vrest_ok rest -> match rest with c :: _ => c <> 34 | [] => True end.
Proof. destruct rest as [|c r]; [trivial|]. simpl. tauto. Qed.

Lemma vrest_sym c rest : symbol_kind c <> None \/ c = 32 \/ c = 10 \/ c = 44 -> vrest_ok (c :: rest).
Proof.
  intros H. simpl.
  assert (Hc : c = 33 \/ c = 36 \/ c = 40 \/ c = 41 \/ c = 91 \/ c = 93 \/ c = 123 \/ c = 125
               \/ c = 58 \/ c = 61 \/ c = 64 \/ c = 124 \/ c = 38 \/ c = 32 \/ c = 10 \/ c = 44).
  { destruct H as [H|H]; [|tauto]. unfold symbol_kind in H.
    repeat match type of H with
           | (if ?a =? ?b then _ else _) <> _ => destruct (N.eqb_spec a b); [subst; tauto|]
           end. contradiction. }
  repeat destruct Hc as [Hc|Hc]; subst; repeat split; (reflexivity || discriminate).
Qed.

Lemma lex_skip_sep fuel X pos : lex_from fuel (44 :: 32 :: X) pos = lex_from fuel X (S (S pos)).
Proof. destruct fuel; reflexivity. Qed.

Lemma lex_skip_space fuel X pos : lex_from fuel (32 :: X) pos = lex_from fuel X (S pos).
Proof. destruct fuel; reflexivity. Qed.

(* quoted strings *)
Lemma json_quote_not_3q s rest : vrest_ok rest -> starts_3q (json_quote s ++ rest) = false.
Proof.
  intros Hr. unfold json_quote. destruct s as [|c s].
  - simpl. destruct rest as [|d r]; [reflexivity|]. apply vrest_no_quote in Hr.
    simpl. apply N.eqb_neq in Hr. rewrite Hr. reflexivity.
  - assert (H : exists d t, flat_map json_char (c :: s) ++ [QUOTE] = d :: t /\ d <> 34).
    { simpl. unfold json_char.
      destruct (c =? QUOTE) eqn:E1; [eexists _, _; split; [reflexivity|discriminate]|].
      destruct (c =? BSLASH); [eexists _, _; split; [reflexivity|discriminate]|].
      destruct (c =? 10); [eexists _, _; split; [reflexivity|discriminate]|].
      destruct (c =? 13); [eexists _, _; split; [reflexivity|discriminate]|].
      destruct (c =? 9); [eexists _, _; split; [reflexivity|discriminate]|].
      destruct (c =? 8); [eexists _, _; split; [reflexivity|discriminate]|].
      destruct (c =? 12); [eexists _, _; split; [reflexivity|discriminate]|].
      destruct (c <? 32); [eexists _, _; split; [reflexivity|discriminate]|].
      eexists _, _; split; [reflexivity|]. unfold QUOTE in E1. apply N.eqb_neq in E1. exact E1. }
    destruct H as (d & t & E & Hd).
    change ((QUOTE :: flat_map json_char (c :: s) ++ [QUOTE]) ++ rest)
      with (QUOTE :: (flat_map json_char (c :: s) ++ [QUOTE]) ++ rest).
    rewrite E. simpl. destruct (t ++ rest); [reflexivity|]. apply N.eqb_neq in Hd. rewrite Hd. reflexivity.
Qed.

Lemma lex_quoted s rest pos : vrest_ok rest -> exists e, forall f,
  lex_from (S f) (json_quote s ++ rest) pos = LT (PTok KString s pos e) :: lex_from f rest e.
Proof.
  intros Hr. pose proof (json_quote_not_3q s rest Hr) as H3.
  unfold json_quote in *.
  change ((QUOTE :: flat_map json_char s ++ [QUOTE]) ++ rest)
    with (34 :: ((flat_map json_char s ++ [34]) ++ rest)) in *.
  rewrite <- app_assoc in *. cbn [app] in *.
  assert (Hi : is_ignored 34 = false) by reflexivity.
  assert (H35 : (34 =? 35) = false) by reflexivity.
  assert (Hp : is_printable 34 = true) by reflexivity.
  assert (Hs : symbol_kind 34 = None) by reflexivity.
  assert (H46 : (34 =? 46) = false) by reflexivity.
  assert (H34 : (34 =? 34) = true) by reflexivity.
  eexists. intros f. cbn [lex_from skip_ws]. rewrite Hi, H35. simpl andb.
  cbn [next_token]. rewrite Hp, Hs, H46. simpl negb. rewrite H3, H34.
  rewrite (read_string_complete _ _ (json_body s)). cbn [obind rev app]. reflexivity.
Qed.

(* names, with the kind of value they denote *)
Lemma valid_name_lit_true : valid_name (lit "true").
Proof. exists 116, (lit "rue"). repeat split; repeat constructor. Qed.
Lemma valid_name_lit_false : valid_name (lit "false").
Proof. exists 102, (lit "alse"). repeat split; repeat constructor. Qed.
Lemma valid_name_lit_null : valid_name (lit "null").
Proof. exists 110, (lit "ull"). repeat split; repeat constructor. Qed.

(* numbers *)
Lemma digit_or_minus_facts c : c = 45 \/ Digit c ->
  is_printable c = true /\ symbol_kind c = None /\ (c =? 46) = false /\ (c =? 34) = false
  /\ ((c =? 45) || is_digit c) = true /\ is_ignored c = false /\ (c =? 35) = false.
Proof.
  unfold Digit. intros H.
  assert (Hne : forall k, (k < 45 \/ k = 46 \/ k = 47 \/ 57 < k) -> (c =? k) = false).
  { intros k Hk. apply N.eqb_neq. lia. }
  repeat split.
  - unfold is_printable. replace (32 <=? c) with true; [reflexivity|]. symmetry. apply N.leb_le. lia.
  - unfold symbol_kind. rewrite !Hne by lia. reflexivity.
  - apply Hne; lia.
  - apply Hne; lia.
  - destruct H as [->|H]; [reflexivity|]. unfold is_digit.
    replace (48 <=? c) with true by (symmetry; apply N.leb_le; lia).
    replace (c <=? 57) with true by (symmetry; apply N.leb_le; lia). apply orb_true_r.
  - unfold is_ignored. rewrite !Hne by lia. reflexivity.
  - apply Hne; lia.
Qed.

Lemma integer_part_head ip : IntegerPart ip -> exists c r, ip = c :: r /\ (c = 45 \/ Digit c).
Proof.
  intros [u Hu|u Hu].
  - destruct Hu as [|d ds Hd _]; eexists _, _; (split; [reflexivity|]); right; unfold Digit, NonZeroDigit in *; lia.
  - eexists _, _; split; [reflexivity|left; reflexivity].
Qed.

Lemma number_head s : IntValue s \/ FloatValue s -> exists c r, s = c :: r /\ (c = 45 \/ Digit c).
Proof.
  intros [H|H]; [apply integer_part_head; assumption|].
  destruct H as [ip fp Hip _|ip ep Hip _|ip fp ep Hip _ _];
    destruct (integer_part_head ip Hip) as (c & r & -> & Hc); eexists _, _; (split; [reflexivity|exact Hc]).
Qed.

Lemma firstn_app_exact {A} (a b : list A) : firstn (length a) (a ++ b) = a.
Proof. induction a; simpl; congruence. Qed.

Lemma lex_number s (isf : bool) rest pos f :
  (if isf then FloatValue s else IntValue s) -> vrest_ok rest ->
  lex_from (S f) (s ++ rest) pos
  = LT (PTok (if isf then KFloat else KInt) s pos (pos + length s)) :: lex_from f rest (pos + length s).
Proof.
  intros Hs Hr.
  destruct (number_head s) as (c & r & E & Hc); [destruct isf; auto|].
  destruct (digit_or_minus_facts c Hc) as (Hp & Hsym & H46 & H34 & Hd & Hi & H35).
  pose proof (read_number_complete s rest pos (vrest_follow_ok rest Hr)) as [HI HF].
  assert (Hrn : read_number (s ++ rest) pos = Ok (isf, rest, (pos + length s)%nat)).
  { destruct isf; [apply HF|apply HI]; assumption. }
  rewrite E in *. change ((c :: r) ++ rest) with (c :: r ++ rest) in *.
  cbn [lex_from skip_ws]. rewrite Hi, H35. simpl andb. cbn [next_token]. rewrite Hp, Hsym, H46. simpl negb.
  assert (H3 : starts_3q (c :: r ++ rest) = false).
  { unfold starts_3q. destruct (r ++ rest) as [|b [|d l]]; try reflexivity. rewrite H34. reflexivity. }
  rewrite H3, H34, Hd, Hrn. cbn [obind].
  replace (pos + length (c :: r) - pos)%nat with (length (c :: r)) by lia.
  change (c :: r ++ rest) with ((c :: r) ++ rest). rewrite firstn_app_exact.
  unfold is_kind. destruct isf; reflexivity.
Qed.

(* block strings *)
Lemma block_body_consumed : forall n s raw rest, (length s <= n)%nat ->
  block_body s = Some (raw, rest) ->
  exists consumed, s = consumed ++ rest /\ forall c, In c raw -> In c consumed.
Proof.
  induction n as [|n IH]; intros s raw rest Hn Hb.
  - destruct s; [discriminate|simpl in Hn; lia].
  - destruct s as [|a r1]; [discriminate|]. simpl in Hn.
    assert (Hplain : push a (block_body r1) = Some (raw, rest) ->
               exists consumed, a :: r1 = consumed ++ rest /\ forall c, In c raw -> In c consumed).
    { intros Hp. apply push_some in Hp. destruct Hp as (v' & Hp & ->).
      destruct (IH r1 v' rest) as (cs & E & Hin); [lia|assumption|].
      exists (a :: cs). split; [simpl; f_equal; assumption|].
      intros c [<-|Hc]; [left; reflexivity|right; apply Hin; assumption]. }
    unfold block_body in Hb; fold block_body in Hb.
    destruct r1 as [|b [|c r3]]; try (apply Hplain; exact Hb).
    destruct (q3 a b c) eqn:Q.
    + inversion Hb; subst. exists [a; b; c]. split; [reflexivity|intros ? []].
    + destruct (a =? 92) eqn:A; [|apply Hplain; exact Hb].
      destruct r3 as [|d r4]; [apply Hplain; exact Hb|].
      destruct (q3 b c d) eqn:Q2; [|apply Hplain; exact Hb].
      apply q3_true in Q2. destruct Q2 as (-> & -> & ->).
      unfold push3 in Hb. apply push_some in Hb. destruct Hb as (v1 & Hb & ->).
      apply push_some in Hb. destruct Hb as (v2 & Hb & ->).
      apply push_some in Hb. destruct Hb as (v3 & Hb & ->).
      destruct (IH r4 v3 rest) as (cs & E & Hin); [simpl in Hn; lia|assumption|].
      exists (a :: 34 :: 34 :: 34 :: cs). split; [simpl; do 4 f_equal; assumption|].
      intros x [<-|[<-|[<-|Hx]]]; [right; left; reflexivity|right; left; reflexivity
                                  |right; left; reflexivity|do 4 right; apply Hin; assumption].
Qed.

Lemma escape3_chars : forall n v, (length v <= n)%nat ->
  forall c, In c (escape3 v) -> c = 34 \/ c = 92 \/ In c v.
Proof.
  induction n as [|n IH]; intros v Hn c Hc.
  - destruct v; [destruct Hc|simpl in Hn; lia].
  - destruct v as [|a r1]; [destruct Hc|].
    destruct (le_lt_dec 3 (lead_q (a :: r1))) as [G|G].
    + apply lead_q_ge3 in G. destruct G as [r3 E]. rewrite E in *. rewrite esc_q3 in Hc.
      destruct Hc as [<-|[<-|[<-|[<-|Hc]]]]; auto.
      destruct (IH r3 ltac:(simpl in Hn; lia) c Hc) as [H|[H|H]]; auto.
      right; right. do 3 right. assumption.
    + rewrite esc_cons in Hc by assumption. destruct Hc as [<-|Hc]; [right; right; left; reflexivity|].
      destruct (IH r1 ltac:(simpl in Hn; lia) c Hc) as [H|[H|H]]; auto. right; right; right; assumption.
Qed.

Lemma reindent_chars ind s c : In c (reindent ind s) -> c = 10 \/ In c ind \/ In c s.
Proof.
  induction s as [|x s IH]; [intros []|]. rewrite reindent_cons. intros H. apply in_app_or in H.
  destruct H as [H|H].
  - destruct (x =? PrinterModel.LF) eqn:E.
    + destruct H as [<-|H]; [left; reflexivity|right; left; assumption].
    + destruct H as [<-|[]]. right; right; left; reflexivity.
  - destruct (IH H) as [?|[?|?]]; auto. right; right; right; assumption.
Qed.

Lemma block_string_shape v ind d : exists X, block_string v ind d = Q3 ++ X /\
  forall c, In c X -> c = 34 \/ c = 92 \/ c = 10 \/ In c ind \/ In c v.
Proof.
  assert (He : forall c, In c (escape3 v) -> c = 34 \/ c = 92 \/ c = 10 \/ In c ind \/ In c v).
  { intros c Hc. destruct (escape3_chars (length v) v (le_n _) c Hc) as [?|[?|?]]; auto. }
  assert (HQ : forall c, In c Q3 -> c = 34) by (intros c [<-|[<-|[<-|[]]]]; reflexivity).
  unfold block_string. cbv zeta.
  destruct (starts_blank v && negb (has_lf v)).
  - eexists. split; [reflexivity|]. intros c Hc. apply in_app_or in Hc. destruct Hc as [Hc|Hc]; [|left; apply HQ; assumption].
    destruct (last_is (escape3 v) QUOTE || last_is (escape3 v) BSLASH); [|apply He; assumption].
    apply in_app_or in Hc. destruct Hc as [Hc|[<-|[]]]; [apply He; assumption|auto].
  - eexists. split; [reflexivity|]. intros c Hc.
    apply in_app_or in Hc. destruct Hc as [[<-|[]]|Hc]; [auto|].
    apply in_app_or in Hc. destruct Hc as [Hc|Hc].
    + destruct d; [apply He; assumption|]. unfold p_indent in Hc.
      destruct (is_empty (escape3 v)); [destruct Hc|].
      apply in_app_or in Hc. destruct Hc as [Hc|Hc]; [auto|].
      apply reindent_chars in Hc. destruct Hc as [?|[?|Hc]]; auto.
    + apply in_app_or in Hc. destruct Hc as [[<-|[]]|Hc]; [auto|left; apply HQ; assumption].
Qed.

Lemma ws_source c : PrinterSpec.is_ws c = true -> SourceCharacter c.
Proof.
  unfold PrinterSpec.is_ws, SourceCharacter. intros H. apply orb_prop in H.
  destruct H as [H|H]; apply N.eqb_eq in H; subst; [right; right; right; lia|left; reflexivity].
Qed.

Lemma all_ws_in ind : all_ws ind -> forall c, In c ind -> PrinterSpec.is_ws c = true.
Proof.
  unfold all_ws. intros H c Hc. rewrite forallb_forall in H. apply H. assumption.
Qed.

Lemma lex_block v ind isd pre rest pos :
  canon v -> all_ws ind -> all_ws pre -> (forall c, In c v -> SourceCharacter c) -> exists e, forall f,
  lex_from (S f) (reindent pre (block_string v ind isd) ++ rest) pos
  = LT (PTok KBlockString v pos e) :: lex_from f rest e.
Proof.
  intros Hcanon Hind Hpre Hsrc.
  pose proof (block_print_roundtrip v ind pre rest isd Hcanon Hind Hpre) as Hrt.
  destruct (block_string_shape v ind isd) as (X0 & EX & HX0). rewrite EX in *.
  rewrite reindent_app in *. change (reindent pre Q3) with Q3 in *.
  set (X := reindent pre X0) in *.
  assert (HX : forall c, In c X -> c = 34 \/ c = 92 \/ c = 10 \/ In c (pre ++ ind) \/ In c v).
  { intros c Hc. unfold X in Hc. apply reindent_chars in Hc. destruct Hc as [?|[Hc|Hc]]; auto.
    - right; right; right; left. apply in_or_app. left; assumption.
    - destruct (HX0 c Hc) as [?|[?|[?|[H|H]]]]; auto.
      right; right; right; left. apply in_or_app. right; assumption. }
  rewrite <- app_assoc in *. rewrite block_value_q3 in Hrt.
  destruct (block_body (X ++ rest)) as [[raw rest']|] eqn:Hbb; [|discriminate].
  inversion Hrt as [[Hv Hr]]. subst rest'.
  destruct (block_body_consumed _ _ _ _ (le_n _) Hbb) as (cs & Ecs & Hin).
  apply app_inv_tail in Ecs. subst cs.
  assert (Hsc : Forall SourceCharacter raw).
  { apply Forall_forall. intros c Hc. destruct (HX c (Hin c Hc)) as [->|[->|[->|[H|H]]]].
    - right; right; right; lia.
    - right; right; right; lia.
    - right; left; reflexivity.
    - apply ws_source. apply (all_ws_in (pre ++ ind) (all_ws_app _ _ Hpre Hind)). assumption.
    - apply Hsrc. assumption. }
  pose proof (block_body_scan _ _ _ _ (le_n _) Hbb Hsc) as Hscan.
  change (Q3 ++ X ++ rest) with (34 :: 34 :: 34 :: X ++ rest).
  assert (Hi : is_ignored 34 = false) by reflexivity.
  assert (H35 : (34 =? 35) = false) by reflexivity.
  assert (Hp : is_printable 34 = true) by reflexivity.
  assert (Hs : symbol_kind 34 = None) by reflexivity.
  assert (H46 : (34 =? 46) = false) by reflexivity.
  assert (H3 : starts_3q (34 :: 34 :: 34 :: X ++ rest) = true) by reflexivity.
  eexists. intros f. cbn [lex_from skip_ws]. rewrite Hi, H35. simpl andb.
  cbn [next_token]. rewrite Hp, Hs, H46. simpl negb. rewrite H3. cbn [skipn].
  rewrite (read_block_complete _ _ _ Hscan). cbn [obind rev app].
  rewrite block_string_model_correct, block_string_value_specs_agree, Hv. reflexivity.
Qed.

(* texts without line feeds are not touched by re-indentation *)
Definition no_lf (s : str) : Prop := forall c, In c s -> c <> 10.

Lemma name_no_lf nm : valid_name nm -> no_lf nm.
Proof.
  intros (c & r & -> & Hc & Hr) x [<-|Hx].
  - intros ->. discriminate.
  - rewrite Forall_forall in Hr. specialize (Hr x Hx). intros ->. discriminate.
Qed.

Lemma hex_digit_ne n : hex_digit n <> 10.
Proof. unfold hex_digit. destruct (n <? 10); lia. Qed.

Lemma json_no_lf s : no_lf (json_quote s).
Proof.
  unfold json_quote. intros x [<-|Hx]; [discriminate|].
  apply in_app_or in Hx. destruct Hx as [Hx|[<-|[]]]; [|discriminate].
  apply in_flat_map in Hx. destruct Hx as (c & _ & Hx). unfold json_char in Hx.
  destruct (c =? QUOTE); [destruct Hx as [<-|[<-|[]]]; discriminate|].
  destruct (c =? BSLASH); [destruct Hx as [<-|[<-|[]]]; discriminate|].
  destruct (c =? 10) eqn:E10; [destruct Hx as [<-|[<-|[]]]; discriminate|].
  destruct (c =? 13); [destruct Hx as [<-|[<-|[]]]; discriminate|].
  destruct (c =? 9); [destruct Hx as [<-|[<-|[]]]; discriminate|].
  destruct (c =? 8); [destruct Hx as [<-|[<-|[]]]; discriminate|].
  destruct (c =? 12); [destruct Hx as [<-|[<-|[]]]; discriminate|].
  destruct (c <? 32).
  - destruct Hx as [<-|[<-|[<-|[<-|[<-|[<-|[]]]]]]]; try discriminate; apply hex_digit_ne.
  - destruct Hx as [<-|[]]. apply N.eqb_neq. assumption.
Qed.

Lemma digits_no_lf ds : Forall Digit ds -> no_lf ds.
Proof. intros H x Hx. rewrite Forall_forall in H. specialize (H x Hx). unfold Digit in H. lia. Qed.

Lemma no_lf_app a b : no_lf a -> no_lf b -> no_lf (a ++ b).
Proof. intros Ha Hb x Hx. apply in_app_or in Hx. destruct Hx; auto. Qed.

Lemma integer_no_lf ip : IntegerPart ip -> no_lf ip.
Proof.
  assert (HU : forall u, UnsignedIntegerPart u -> no_lf u).
  { intros u [|d ds Hd Hds]; [intros x [<-|[]]; discriminate|].
    intros x [<-|Hx]; [unfold NonZeroDigit in Hd; lia|apply (digits_no_lf ds Hds); assumption]. }
  intros [u Hu|u Hu]; [apply HU; assumption|].
  intros x [<-|Hx]; [discriminate|apply (HU u Hu); assumption].
Qed.

Lemma fraction_no_lf fp : FractionalPart fp -> no_lf fp.
Proof. intros [ds [_ Hds]] x [<-|Hx]; [discriminate|apply (digits_no_lf ds Hds); assumption]. Qed.

Lemma exponent_no_lf ep : ExponentPart ep -> no_lf ep.
Proof.
  intros [e sign ds He Hs [_ Hds]] x [<-|Hx]; [destruct He; subst; discriminate|].
  apply in_app_or in Hx. destruct Hx as [Hx|Hx]; [|apply (digits_no_lf ds Hds); assumption].
  destruct Hs as [->|[->| ->]]; [destruct Hx|destruct Hx as [<-|[]]; discriminate|destruct Hx as [<-|[]]; discriminate].
Qed.

Lemma number_no_lf s : IntValue s \/ FloatValue s -> no_lf s.
Proof.
  intros [H|H]; [apply integer_no_lf; assumption|].
  destruct H as [ip fp Hi Hf|ip ep Hi He|ip fp ep Hi Hf He];
    repeat apply no_lf_app; auto using integer_no_lf, fraction_no_lf, exponent_no_lf.
Qed.

(* Part 4: whole values. *)
Definition LexOK (text : str) (P : list ptok -> Prop) : Prop :=
  forall rest pos, vrest_ok rest -> exists ts pos',
    P ts /\ (length ts <= length text)%nat /\
    forall f, lex_from (length ts + f) (text ++ rest) pos = map LT ts ++ lex_from f rest pos'.

Lemma lexok_single text (P : list ptok -> Prop) :
  text <> [] ->
  (forall rest pos, vrest_ok rest -> exists t pos', P [t] /\
      forall f, lex_from (S f) (text ++ rest) pos = LT t :: lex_from f rest pos') ->
  LexOK text P.
Proof.
  intros Hne H rest pos Hr. destruct (H rest pos Hr) as (t & pos' & HP & Hl).
  exists [t], pos'. split; [assumption|]. split; [destruct text; [contradiction|simpl; lia]|].
  intros f. simpl. apply Hl.
Qed.

Lemma p_join_nonempty l sep : (forall x, In x l -> x <> []) -> p_join l sep = join_ne l sep.
Proof.
  intros H. unfold p_join. f_equal. induction l as [|x l IH]; [reflexivity|].
  simpl. destruct x; [exfalso; apply (H []); [left; reflexivity|reflexivity]|].
  simpl. f_equal. apply IH. intros y Hy. apply H. right; assumption.
Qed.

Lemma join_ne_cons x y l sep : join_ne (x :: y :: l) sep = x ++ sep ++ join_ne (y :: l) sep.
Proof. reflexivity. Qed.

Lemma reindent_join_ne pre sep l : no_lf sep ->
  reindent pre (join_ne l sep) = join_ne (map (reindent pre) l) sep.
Proof.
  intros Hs. induction l as [|x l IH]; [reflexivity|]. destruct l as [|y l]; [reflexivity|].
  rewrite join_ne_cons. cbn [map]. rewrite join_ne_cons. rewrite !reindent_app, (reindent_id pre sep Hs).
  rewrite IH. reflexivity.
Qed.

Section Joined.
  Context {A : Type} (pr : A -> str) (Q : A -> list ptok -> Prop) (QS : list A -> list ptok -> Prop).
  Hypothesis QS_nil : QS [] [].
  Hypothesis QS_cons : forall x xs ts ts', Q x ts -> QS xs ts' -> QS (x :: xs) (ts ++ ts').

  Lemma lex_joined : forall l, Forall (fun x => LexOK (pr x) (Q x)) l ->
    forall rest pos, vrest_ok rest -> exists ts pos',
      QS l ts /\ (length ts <= length (join_ne (map pr l) (lit ", ")))%nat /\
      forall f, lex_from (length ts + f) (join_ne (map pr l) (lit ", ") ++ rest) pos
                = map LT ts ++ lex_from f rest pos'.
  Proof.
    induction l as [|x l IH]; intros HF rest pos Hr.
    - exists [], pos. split; [exact QS_nil|]. split; [simpl; lia|]. intros f. reflexivity.
    - inversion HF as [|? ? Hx Hl]; subst. destruct l as [|y l'].
      + destruct (Hx rest pos Hr) as (ts & pos' & HQ & Hlen & Hlex).
        exists (ts ++ []), pos'. split; [apply QS_cons; [assumption|exact QS_nil]|].
        rewrite app_nil_r. split; [exact Hlen|exact Hlex].
      + cbn [map]. rewrite join_ne_cons. set (J := join_ne (pr y :: map pr l') (lit ", ")) in *.
        destruct (Hx (lit ", " ++ J ++ rest) pos) as (ts1 & pos1 & HQ1 & Hlen1 & Hlex1);
          [apply vrest_sym; auto|].
        destruct (IH Hl rest (S (S pos1)) Hr) as (ts2 & pos' & HQ2 & Hlen2 & Hlex2).
        exists (ts1 ++ ts2), pos'. split; [apply QS_cons; assumption|].
        split.
        * rewrite !app_length. change (length (lit ", ")) with 2%nat. cbn [map] in Hlen2. fold J in Hlen2. lia.
        * intros f. rewrite app_length, <- Nat.add_assoc, <- !app_assoc.
          rewrite Hlex1. change (lit ", " ++ J ++ rest) with (44 :: 32 :: J ++ rest).
          rewrite lex_skip_sep. cbn [map] in Hlex2. fold J in Hlex2. rewrite Hlex2.
          rewrite map_app, <- app_assoc. reflexivity.
  Qed.
End Joined.

Section ValueRT.
  Variable cf : cfg.
  Hypothesis Hind : all_ws (c_indent cf).
  Variable cst : bool.       (* Value[Const]? *)

  Fixpoint wf_value (v : value) : Prop :=
    match v with
    | VVar n _ => cst = false /\ valid_name (n_val n)
    | VInt s _ => IntValue s
    | VFloat s _ => FloatValue s
    | VString s b _ => if b then canon s /\ (forall c, In c s -> SourceCharacter c) else True
    | VBool _ _ => True
    | VNull _ => True
    | VEnum s _ => valid_name s /\ ~ is_reserved s
    | VList vs _ => (fix all (l : list value) : Prop :=
                       match l with [] => True | x :: l' => wf_value x /\ all l' end) vs
    | VObject fs _ => (fix all (l : list (name * value * loc)) : Prop :=
                         match l with
                         | [] => True
                         | f :: l' => valid_name (n_val (fst (fst f))) /\ wf_value (snd (fst f)) /\ all l'
                         end) fs
    end.

  (* the printed value, re-indented by any enclosing blocks, lexes to tokens
     that derive the value *)
  Definition PV (v : value) : Prop :=
    wf_value v ->
    pr_value cf v <> [] /\
    forall pre, all_ws pre ->
      LexOK (reindent pre (pr_value cf v)) (fun ts => D_value true cst ts (strip_value v)).

  Lemma name_token nm rest pos : valid_name nm -> rest_ok rest ->
    exists t pos', tk t = KName /\ tval t = nm /\
      forall f, lex_from (S f) (nm ++ rest) pos = LT t :: lex_from f rest pos'.
  Proof.
    intros Hn Hr. eexists (PTok KName nm pos _), _. split; [reflexivity|]. split; [reflexivity|].
    intros f. apply lex_name; assumption.
  Qed.

  Lemma valid_name_ne nm : valid_name nm -> nm <> [].
  Proof. intros (c & r & -> & _). discriminate. Qed.

  Lemma name_lexok nm (P : list ptok -> Prop) :
    valid_name nm -> (forall t, tk t = KName -> tval t = nm -> P [t]) -> LexOK nm P.
  Proof.
    intros Hn HD. apply lexok_single; [apply valid_name_ne; assumption|].
    intros rest pos Hr.
    destruct (name_token nm rest pos Hn (vrest_rest_ok rest Hr)) as (t & pos' & Hk & Hv & Hl).
    exists t, pos'. split; [apply HD; assumption|exact Hl].
  Qed.

  Lemma PV_name_like nm (v' : value) :
    valid_name nm ->
    (forall t, tk t = KName -> tval t = nm -> D_value true cst [t] v') ->
    nm <> [] /\ forall pre, all_ws pre -> LexOK (reindent pre nm) (fun ts => D_value true cst ts v').
  Proof.
    intros Hn HD. split; [apply valid_name_ne; assumption|]. intros pre _.
    rewrite (reindent_id pre nm (name_no_lf nm Hn)). apply name_lexok; assumption.
  Qed.

  Lemma PV_var n l : PV (VVar n l).
  Proof.
    intros [Hc Hwf]. cbn [pr_value strip_value]. change (lit "$") with [36].
    split; [discriminate|]. intros pre _.
    rewrite reindent_app, (reindent_id pre (n_val n) (name_no_lf _ Hwf)).
    change (reindent pre [36]) with [36]. intros rest pos Hr.
    destruct (name_token (n_val n) rest (S pos) Hwf (vrest_rest_ok rest Hr)) as (t & pos' & Hk & Hv & Hl).
    exists [PTok KDollar [] pos (S pos); t], pos'. split.
    - pose proof (DV_var true (PTok KDollar [] pos (S pos)) t eq_refl Hk) as D.
      unfold name_node in D. rewrite Hv in D. rewrite Hc. exact D.
    - split; [simpl; pose proof (valid_name_ne _ Hwf); destruct (n_val n); [contradiction|simpl; lia]|].
      intros f. cbn [length plus]. change (([36] ++ n_val n) ++ rest) with (36 :: n_val n ++ rest).
      rewrite (lex_symbol 36 KDollar) by (reflexivity || discriminate). rewrite Hl. reflexivity.
  Qed.

  Lemma PV_number s (isf : bool) l :
    PV (if isf then VFloat s l else VInt s l).
  Proof.
    intros Hwf.
    assert (Hs : if isf then FloatValue s else IntValue s) by (destruct isf; exact Hwf).
    assert (Hne : s <> []).
    { destruct (number_head s) as (c & r & -> & _); [destruct isf; auto|discriminate]. }
    assert (Htext : pr_value cf (if isf then VFloat s l else VInt s l) = s) by (destruct isf; reflexivity).
    rewrite Htext. split; [assumption|]. intros pre _.
    rewrite (reindent_id pre s) by (apply number_no_lf; destruct isf; auto).
    apply lexok_single; [assumption|].
    intros rest pos Hr. eexists _, _. split; [|intros f; apply (lex_number s isf); assumption].
    destruct isf; simpl.
    - apply (DV_float true cst (PTok KFloat s pos (pos + length s))). reflexivity.
    - apply (DV_int true cst (PTok KInt s pos (pos + length s))). reflexivity.
  Qed.

  Lemma PV_string s b l : PV (VString s b l).
  Proof.
    intros Hwf. cbn [pr_value strip_value]. unfold pr_string. destruct b.
    - destruct Hwf as [Hc Hsrc].
      assert (Hne : forall pre, reindent pre (block_string s (c_indent cf) false) <> []).
      { intros pre. destruct (block_string_shape s (c_indent cf) false) as (X & -> & _).
        rewrite reindent_app. discriminate. }
      split; [rewrite <- (reindent_nil (block_string _ _ _)); apply Hne|].
      intros pre Hpre. apply lexok_single; [apply Hne|].
      intros rest pos Hr. destruct (lex_block s (c_indent cf) false pre rest pos Hc Hind Hpre Hsrc) as (e & He).
      eexists _, e. split; [|exact He].
      apply (DV_block_string true cst (PTok KBlockString s pos e)). reflexivity.
    - split; [discriminate|]. intros pre _. rewrite (reindent_id pre _ (json_no_lf s)).
      apply lexok_single; [discriminate|].
      intros rest pos Hr. destruct (lex_quoted s rest pos Hr) as (e & He).
      eexists _, e. split; [|exact He].
      apply (DV_string true cst (PTok KString s pos e)). reflexivity.
  Qed.

  Lemma PV_bool b l : PV (VBool b l).
  Proof.
    intros _. cbn [pr_value strip_value]. destruct b.
    - apply PV_name_like; [apply valid_name_lit_true|]. intros t Hk Hv.
      apply (DV_true true cst t Hk Hv).
    - apply PV_name_like; [apply valid_name_lit_false|]. intros t Hk Hv.
      apply (DV_false true cst t Hk Hv).
  Qed.

  Lemma PV_null l : PV (VNull l).
  Proof.
    intros _. cbn [pr_value strip_value].
    apply PV_name_like; [apply valid_name_lit_null|]. intros t Hk Hv. apply (DV_null true cst t Hk Hv).
  Qed.

  Lemma PV_enum s l : PV (VEnum s l).
  Proof.
    intros [Hn Hres]. cbn [pr_value strip_value].
    apply PV_name_like; [assumption|]. intros t Hk Hv.
    pose proof (DV_enum true cst t Hk) as D. rewrite Hv in D. apply D. assumption.
  Qed.

  (* brackets around a joined sequence *)
  Lemma lex_bracketed (o c : N) (ko kc : tkind) (J : str) (P PS : list ptok -> Prop) :
    symbol_kind o = Some ko -> ko <> KEOF -> symbol_kind c = Some kc -> kc <> KEOF ->
    (forall rest pos, vrest_ok rest -> exists ts pos', PS ts /\ (length ts <= length J)%nat /\
        forall f, lex_from (length ts + f) (J ++ rest) pos = map LT ts ++ lex_from f rest pos') ->
    (forall to tc ts, tk to = ko -> tk tc = kc -> PS ts -> P (to :: ts ++ [tc])) ->
    LexOK ([o] ++ J ++ [c]) P.
  Proof.
    intros Ho Hko Hc Hkc HJ HP rest pos Hr.
    destruct (HJ (c :: rest) (S pos)) as (ts & pos1 & HPS & Hlen & Hlex);
      [apply vrest_sym; left; rewrite Hc; discriminate|].
    exists (PTok ko [] pos (S pos) :: ts ++ [PTok kc [] pos1 (S pos1)]), (S pos1).
    split; [apply HP; [reflexivity|reflexivity|assumption]|].
    split; [simpl; rewrite !app_length; simpl; lia|].
    intros f. cbn [length plus]. rewrite app_length. cbn [length].
    change (([o] ++ J ++ [c]) ++ rest) with (o :: (J ++ [c]) ++ rest). rewrite <- app_assoc.
    rewrite (lex_symbol o ko) by assumption.
    replace (length ts + 1 + f)%nat with (length ts + S f)%nat by lia.
    cbn [app]. rewrite Hlex. rewrite (lex_symbol c kc) by assumption.
    cbn [map app]. rewrite map_app. cbn [map app]. rewrite <- ?app_assoc. reflexivity.
  Qed.

  Lemma wf_list_forall vs l : wf_value (VList vs l) -> Forall wf_value vs.
  Proof. simpl. induction vs as [|x vs IH]; intros H; constructor; [tauto|apply IH; tauto]. Qed.

  Lemma PV_list vs l : Forall PV vs -> PV (VList vs l).
  Proof.
    intros HF Hwf. apply wf_list_forall in Hwf.
    assert (HF' : Forall (fun v => pr_value cf v <> [] /\ forall pre, all_ws pre ->
                     LexOK (reindent pre (pr_value cf v)) (fun ts => D_value true cst ts (strip_value v))) vs).
    { clear l. induction HF as [|x vs Hx _ IH]; [constructor|]. inversion Hwf; subst.
      constructor; [apply Hx; assumption|apply IH; assumption]. }
    cbn [pr_value strip_value]. change (lit "[") with [91]. change (lit "]") with [93].
    rewrite p_join_nonempty.
    2: { intros x Hx. apply in_map_iff in Hx. destruct Hx as (v & <- & Hv).
         rewrite Forall_forall in HF'. apply (HF' v Hv). }
    split; [discriminate|]. intros pre Hpre.
    rewrite !reindent_app. change (reindent pre [91]) with [91]. change (reindent pre [93]) with [93].
    rewrite reindent_join_ne by (intros x [<-|[<-|[]]]; discriminate). rewrite map_map.
    apply (lex_bracketed 91 93 KBrackO KBrackC _ _
             (fun ts => D_values true cst ts (map strip_value vs)));
      try reflexivity; try discriminate.
    - intros rest pos Hr.
      apply (lex_joined (fun v => reindent pre (pr_value cf v))
                        (fun v ts => D_value true cst ts (strip_value v))
                        (fun l ts => D_values true cst ts (map strip_value l))).
      + constructor.
      + intros x xs ts ts' Hx Hxs. cbn [map]. constructor; assumption.
      + apply Forall_forall. intros v Hv. rewrite Forall_forall in HF'. apply (HF' v Hv). assumption.
      + assumption.
    - intros to tc ts Ho Hc HD. apply (DV_list true cst to ts tc _ Ho Hc HD).
  Qed.

  Definition strip_field (f : name * value * loc) : name * value * loc :=
    (strip_name (fst (fst f)), strip_value (snd (fst f)), None).

  Lemma wf_object_forall fs l : wf_value (VObject fs l) ->
    Forall (fun f => valid_name (n_val (fst (fst f))) /\ wf_value (snd (fst f))) fs.
  Proof. simpl. induction fs as [|x fs IH]; intros H; constructor; [tauto|apply IH; tauto]. Qed.

  Definition pr_field (f : name * value * loc) : str :=
    n_val (fst (fst f)) ++ lit ": " ++ pr_value cf (snd (fst f)).

  Definition QF (f : name * value * loc) (ts : list ptok) : Prop :=
    exists nm colon tsv, ts = nm :: colon :: tsv /\ tk nm = KName /\ tval nm = n_val (fst (fst f))
      /\ tk colon = KColon /\ D_value true cst tsv (strip_value (snd (fst f))).

  (* name ": " X, as used by object fields and arguments *)
  Lemma named_lexok nm X (PX P : list ptok -> Prop) :
    valid_name nm -> LexOK X PX ->
    (forall t colon ts, tk t = KName -> tval t = nm -> tk colon = KColon -> PX ts -> P (t :: colon :: ts)) ->
    LexOK (nm ++ lit ": " ++ X) P.
  Proof.
    intros Hn Hv HP rest pos Hr. change (lit ": ") with [58; 32].
    destruct (name_token nm ([58; 32] ++ X ++ rest) pos Hn eq_refl) as (t & pos1 & Hk & Htv & Hl1).
    destruct (Hv rest (S (S pos1)) Hr) as (tsv & pos' & HD & Hlen & Hlv).
    exists (t :: PTok KColon [] pos1 (S pos1) :: tsv), pos'.
    split; [apply HP; auto|].
    split.
    - simpl. rewrite !app_length. simpl. pose proof (valid_name_ne nm Hn). destruct nm; [contradiction|simpl; lia].
    - intros f0. cbn [length plus]. rewrite <- !app_assoc. rewrite Hl1.
      change ([58; 32] ++ X ++ rest) with (58 :: 32 :: X ++ rest).
      rewrite (lex_symbol 58 KColon) by (reflexivity || discriminate).
      rewrite lex_skip_space. rewrite Hlv. reflexivity.
  Qed.

  Lemma PV_object fs l :
    Forall (fun f : name * value * loc => PV (snd (fst f))) fs -> PV (VObject fs l).
  Proof.
    intros HF Hwf. apply wf_object_forall in Hwf.
    assert (HF' : Forall (fun f => pr_field f <> [] /\ forall pre, all_ws pre ->
                                   LexOK (reindent pre (pr_field f)) (QF f)) fs).
    { clear l. induction HF as [|x fs Hx _ IH]; [constructor|]. inversion Hwf as [|? ? [Hn Hw] Hrest]; subst.
      constructor; [|apply IH; assumption]. split.
      - unfold pr_field. pose proof (valid_name_ne _ Hn). destruct (n_val (fst (fst x))); [contradiction|discriminate].
      - intros pre Hpre. unfold pr_field. rewrite !reindent_app.
        rewrite (reindent_id pre _ (name_no_lf _ Hn)). change (reindent pre (lit ": ")) with (lit ": ").
        apply (named_lexok _ _ (fun ts => D_value true cst ts (strip_value (snd (fst x))))); [assumption| |].
        + apply Hx; assumption.
        + intros t colon ts Hk Htv Hc HD. exists t, colon, ts. auto. }
    cbn [pr_value strip_value]. change (lit "{") with [123]. change (lit "}") with [125].
    change (map (fun f : name * value * loc => n_val (fst (fst f)) ++ lit ": " ++ pr_value cf (snd (fst f))) fs)
      with (map pr_field fs).
    rewrite p_join_nonempty.
    2: { intros x Hx. apply in_map_iff in Hx. destruct Hx as (v & <- & Hv).
         rewrite Forall_forall in HF'. apply (HF' v Hv). }
    split; [discriminate|]. intros pre Hpre.
    rewrite !reindent_app. change (reindent pre [123]) with [123]. change (reindent pre [125]) with [125].
    rewrite reindent_join_ne by (intros x [<-|[<-|[]]]; discriminate). rewrite map_map.
    apply (lex_bracketed 123 125 KCurlyO KCurlyC _ _
             (fun ts => D_fields true cst ts (map strip_field fs)));
      try reflexivity; try discriminate.
    - intros rest pos Hr.
      apply (lex_joined (fun f => reindent pre (pr_field f)) QF
                        (fun l ts => D_fields true cst ts (map strip_field l))).
      + constructor.
      + intros x xs ts ts' (nm & colon & tsv & -> & Hk & Htv & Hc & HD) Hxs. cbn [map].
        pose proof (DFs_cons true cst nm colon tsv _ ts' _ Hk Hc HD Hxs) as D.
        unfold name_node in D. rewrite Htv in D. exact D.
      + apply Forall_forall. intros v Hv. rewrite Forall_forall in HF'. apply (HF' v Hv). assumption.
      + assumption.
    - intros to tc ts Ho Hc HD.
      change (map (fun f : name * value * loc => (strip_name (fst (fst f)), strip_value (snd (fst f)), None)) fs)
        with (map strip_field fs).
      apply (DV_object true cst to ts tc _ Ho Hc HD).
  Qed.

  Theorem PV_all v : PV v.
  Proof.
    induction v using value_ind'.
    - apply PV_var.
    - apply (PV_number s false).
    - apply (PV_number s true).
    - apply PV_string.
    - apply PV_bool.
    - apply PV_null.
    - apply PV_enum.
    - apply PV_list; assumption.
    - apply PV_object; assumption.
  Qed.
End ValueRT.

Lemma collect_map ts tail : collect (map LT ts ++ tail) = do a <- collect tail; Ok (ts ++ a).
Proof.
  induction ts as [|x ts IH]; simpl.
  - destruct (collect tail); reflexivity.
  - rewrite IH. destruct (collect tail); reflexivity.
Qed.

Theorem value_roundtrip fl cf v :
  no_location fl = true -> all_ws (c_indent cf) -> wf_value false v ->
  parse_value_str fl (pr_value cf v) = Ok (strip_value v).
Proof.
  intros Hnl Hind Hwf.
  destruct (PV_all cf Hind false v Hwf) as [Hne HL].
  specialize (HL [] eq_refl). rewrite reindent_nil in HL.
  destruct (HL [] 0%nat I) as (ts & pos' & HD & Hlen & Hlex).
  set (text := pr_value cf v) in *.
  set (eof := PTok KEOF [] pos' pos').
  apply (parse_value_str_complete fl text (PTok KSOF [] 0 0 :: ts ++ [eof]) ts).
  - unfold lex, lex_stream, lex_fuel. cbn [collect].
    replace (S (length text)) with (length ts + S (length text - length ts))%nat by lia.
    rewrite <- (app_nil_r text) at 2. rewrite Hlex.
    cbn [lex_from skip_ws next_token]. unfold is_kind. simpl tkind_eqb.
    rewrite collect_map. simpl. reflexivity.
  - exists (PTok KSOF [] 0 0), eof. auto.
  - rewrite Hnl. exact HD.
Qed.
